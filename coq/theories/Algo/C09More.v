(* More theorems about the model of bigtree/tree/search.py (Algo/Search.v), closing or narrowing
   clauses of C09 that Props/C09.v leaves partial:

     1. find_full_path is SOUND on every tree (no guard on names, no sibling-name uniqueness): a node
        that is returned has the queried full path                                 (full_path_sound_.. )
     2. under the guards of the "found iff exists" theorem the full path determines the node: at most
        one node has a given full path                                             (full_path_unique_.. )
     3. under the same guards find_full_path is decided completely, as an equation: ValueError exactly
        when the first component is not the root's name, otherwise the node of that full path or None;
        SearchError never                                                          (full_path_decides_.. )
     4. the absolute-path branch of find_relative_path(s): the same equation, wrapped in a 1-tuple,
        whatever min_count / max_count are                                         (relative_absolute_.. )
     5. find_relative_paths = frontier semantics WITHOUT the guards "components are '*' or contain no
        '*'" and "'*' is not in the separator": the lenient flag is "a '*' occurs in the stripped path"
                                                                                   (relative_spec_any_.. )
     6. the single-result counterpart find_relative_path                           (relative_single_any_.. )

   `_gen` statements take the two facts they need about the separator as hypotheses
   (strip = trim on this query, split inverts join on the routes of this tree); the `_one` / `_multi`
   corollaries discharge them for a one-character separator / for a separator of any positive length
   under the K3 guard, exactly as Algo/SearchProofs.v does. *)
From BT Require Import Base.Prelude Base.Str Base.StrSep Base.Rose Algo.Search Spec.PC09 Algo.SearchProofs.

(* ------------------------------------------------------------------------------------------- *)
(* 0. small facts *)

Lemma split_nonempty s sep : split s sep <> [].
Proof. unfold split. destruct sep; [discriminate|apply split_go_nonempty]. Qed.

Lemma hd_tl_nonempty (l : list str) : l <> [] -> hd [] l :: tl l = l.
Proof. destruct l; [congruence|reflexivity]. Qed.

(* find_full_path starts at the real root, whatever node it is called on *)
Lemma find_full_path_unfold w sep p s path :
  locate w p = Some s ->
  find_full_path sep s path
  = if negb (str_eqb (hd [] (path_list_of sep path)) (tname w)) then Raise ValueError
    else full_path_walk (LN [] w) (tl (path_list_of sep path)).
Proof. intros H. unfold find_full_path. rewrite (locate_root _ _ _ H). reflexivity. Qed.

(* "all start nodes": the answer does not depend on the node find_full_path is called on *)
Theorem full_path_start_independent w sep p p' s s' path :
  locate w p = Some s -> locate w p' = Some s' ->
  find_full_path sep s path = find_full_path sep s' path.
Proof.
  intros H H'. rewrite (find_full_path_unfold _ _ _ _ _ H), (find_full_path_unfold _ _ _ _ _ H'). reflexivity.
Qed.

(* ------------------------------------------------------------------------------------------- *)
(* 1. soundness of find_full_path on every tree *)

Theorem full_path_sound_gen w sep p s path n :
  sep <> [] -> lstrip (rstrip path sep) sep = trim sep path ->
  locate w p = Some s -> find_full_path sep s path = Ret (Some n) ->
  exists q, locate w q = Some n /\ join sep (names_to w q) = trim sep path.
Proof.
  intros Hne Hstrip Hs H. rewrite (find_full_path_unfold _ _ _ _ _ Hs) in H.
  unfold path_list_of in H. rewrite Hstrip in H.
  pose proof (split_nonempty (trim sep path) sep) as Hcne.
  pose proof (join_split (trim sep path) sep Hne) as Hj.
  set (comps := split (trim sep path) sep) in *.
  destruct (negb (str_eqb (hd [] comps) (tname w))) eqn:Ehd; [discriminate|].
  apply negb_false_iff, str_eqb_eq in Ehd.
  apply full_path_walk_sound in H as [q [Hq Hn]]. cbn [ln_tree] in Hn.
  exists q. split; [exact Hq|]. unfold names_to. rewrite Hn.
  change (ln_name (LN [] w)) with (tname w). rewrite <- Ehd.
  etransitivity; [|exact Hj]. f_equal. apply hd_tl_nonempty. exact Hcne.
Qed.

Theorem full_path_sound_one w c p s path n :
  locate w p = Some s -> find_full_path [c] s path = Ret (Some n) ->
  exists q, locate w q = Some n /\ join [c] (names_to w q) = trim [c] path.
Proof. apply full_path_sound_gen; [discriminate|symmetry; apply trim_strip]. Qed.

Theorem full_path_sound_multi w sep p s path n :
  sep <> [] -> clean sep path = true ->
  locate w p = Some s -> find_full_path sep s path = Ret (Some n) ->
  exists q, locate w q = Some n /\ join sep (names_to w q) = trim sep path.
Proof. intros Hne Hcl. apply full_path_sound_gen; [exact Hne|apply strip_clean; exact Hcl]. Qed.

(* ------------------------------------------------------------------------------------------- *)
(* 2. the full path determines the node *)

Lemma filter_two {A} (f : A -> bool) : forall (l : list A) i j a b,
  i < j -> nth_error l i = Some a -> nth_error l j = Some b -> f a = true -> f b = true ->
  2 <= length (filter f l).
Proof.
  induction l as [|x l IH]; intros i j a b Hij Hi Hj Ha Hb; [destruct i; discriminate|].
  destruct j as [|j]; [lia|]. cbn [nth_error] in Hj. destruct i as [|i].
  - cbn in Hi. injection Hi as ->. cbn [filter]. rewrite Ha. cbn [length].
    assert (Hin : In b (filter f l)) by (apply filter_In; split; [eapply nth_error_In; exact Hj|exact Hb]).
    destruct (filter f l); [destruct Hin|cbn [length]; lia].
  - cbn [nth_error] in Hi.
    assert (H2 : 2 <= length (filter f l)) by (apply (IH i j a b); try assumption; lia).
    cbn [filter]. destruct (f x); cbn [length]; lia.
Qed.

Lemma uniq_index ks i j a b :
  uniq_names (map tname ks) = true ->
  nth_error ks i = Some a -> nth_error ks j = Some b -> tname a = tname b -> i = j.
Proof.
  intros Hu Hi Hj E. pose proof (uniq_names_le1 ks (tname a) Hu) as Hle.
  assert (Ha : str_eqb (tname a) (tname a) = true) by apply str_eqb_refl.
  assert (Hb : str_eqb (tname b) (tname a) = true) by (rewrite <- E; apply str_eqb_refl).
  destruct (Nat.lt_trichotomy i j) as [H|[H|H]]; [exfalso|exact H|exfalso].
  - pose proof (filter_two (fun k => str_eqb (tname k) (tname a)) ks i j a b H Hi Hj Ha Hb). lia.
  - pose proof (filter_two (fun k => str_eqb (tname k) (tname a)) ks j i b a H Hj Hi Hb Ha). lia.
Qed.

(* two routes that spell the same names are the same route, under sibling-name uniqueness *)
Lemma names_from_inj q1 : forall q2 up t m1 m2,
  (forall x, In x (pre t) -> uniq_names (map tname (tkids x)) = true) ->
  descend (LN up t) q1 = Some m1 -> descend (LN up t) q2 = Some m2 ->
  names_from t q1 = names_from t q2 -> q1 = q2.
Proof.
  induction q1 as [|i1 q1 IH]; intros [|i2 q2] up t m1 m2 Hu H1 H2 E.
  - reflexivity.
  - exfalso. cbn [descend] in H2. rewrite nth_error_children in H2. cbn [names_from] in E.
    destruct (nth_error (tkids t) i2) as [k|]; [|discriminate].
    rewrite (names_from_cons k q2) in E. discriminate.
  - exfalso. cbn [descend] in H1. rewrite nth_error_children in H1. cbn [names_from] in E.
    destruct (nth_error (tkids t) i1) as [k|]; [|discriminate].
    rewrite (names_from_cons k q1) in E. discriminate.
  - cbn [descend] in H1, H2. rewrite nth_error_children in H1, H2. cbn [names_from] in E.
    destruct (nth_error (tkids t) i1) as [k1|] eqn:E1; [|discriminate].
    destruct (nth_error (tkids t) i2) as [k2|] eqn:E2; [|discriminate].
    cbn [option_map] in H1, H2. injection E as E.
    assert (Hnm : tname k1 = tname k2).
    { rewrite (names_from_cons k1 q1), (names_from_cons k2 q2) in E. injection E as E _. exact E. }
    assert (Hi : i1 = i2) by (apply (uniq_index (tkids t) i1 i2 k1 k2 (Hu t (pre_self t)) E1 E2 Hnm)).
    subst i2. rewrite E1 in E2. injection E2 as <-. f_equal.
    apply (IH q2 (t :: up) k1 m1 m2); try assumption.
    intros x Hx. apply Hu. eapply pre_child; eassumption.
Qed.

Theorem full_path_unique_gen w sep path q1 q2 :
  names_split w sep -> sibling_names_unique w = true ->
  In q1 (full_path_nodes w sep path) -> In q2 (full_path_nodes w sep path) -> q1 = q2.
Proof.
  intros Hsplit Huniq H1 H2. unfold full_path_nodes in H1, H2.
  apply filter_In in H1 as [P1 E1]. apply filter_In in H2 as [P2 E2].
  rewrite all_nodes_positions in P1, P2. apply str_eqb_eq in E1. apply str_eqb_eq in E2.
  destruct (positions_located _ _ P1) as [n1 L1]. destruct (positions_located _ _ P2) as [n2 L2].
  apply (names_from_inj q1 q2 [] w n1 n2); try assumption.
  - intros x Hx. unfold sibling_names_unique in Huniq. rewrite forallb_forall in Huniq. apply Huniq. exact Hx.
  - rewrite <- (Hsplit q1), <- (Hsplit q2). unfold names_to in E1, E2. rewrite E1, E2. reflexivity.
Qed.

Lemma nodup_all_equal_le1 {A} (l : list A) :
  NoDup l -> (forall x y, In x l -> In y l -> x = y) -> length l <= 1.
Proof.
  intros Hnd Heq. destruct l as [|a [|b l]]; cbn [length]; try lia. exfalso.
  inversion Hnd as [|? ? Hnot _]; subst. apply Hnot.
  rewrite (Heq a b (or_introl eq_refl) (or_intror (or_introl eq_refl))). left. reflexivity.
Qed.

Lemma nodup_filter {A} (f : A -> bool) (l : list A) : NoDup l -> NoDup (filter f l).
Proof.
  induction 1 as [|x l Hx Hl IH]; [constructor|]. cbn [filter]. destruct (f x); [|exact IH].
  constructor; [|exact IH]. intros Hin. apply filter_In in Hin as [Hin _]. exact (Hx Hin).
Qed.

(* at most one node has a given full path: the arm "several nodes" of expect_full_path is dead *)
Theorem full_path_nodes_le1_gen w sep path :
  names_split w sep -> sibling_names_unique w = true -> length (full_path_nodes w sep path) <= 1.
Proof.
  intros Hsplit Huniq. apply nodup_all_equal_le1.
  - unfold full_path_nodes. apply nodup_filter. rewrite all_nodes_positions. apply positions_nodup.
  - intros x y. apply full_path_unique_gen; assumption.
Qed.

Theorem full_path_nodes_le1_one w c path :
  names_sfree w [c] = true -> sibling_names_unique w = true -> length (full_path_nodes w [c] path) <= 1.
Proof.
  intros Hn. apply full_path_nodes_le1_gen. apply names_split_multi; [discriminate|exact Hn].
Qed.

Theorem full_path_nodes_le1_multi w sep path :
  sep <> [] -> names_sfree w sep = true -> sibling_names_unique w = true ->
  length (full_path_nodes w sep path) <= 1.
Proof. intros Hne Hn. apply full_path_nodes_le1_gen. apply names_split_multi; assumption. Qed.

(* ------------------------------------------------------------------------------------------- *)
(* 3. find_full_path decided completely *)

(* under sibling-name uniqueness the component-wise descent never raises *)
Lemma full_path_walk_uniq_ret cs : forall up t,
  (forall x, In x (pre t) -> uniq_names (map tname (tkids x)) = true) ->
  exists r, full_path_walk (LN up t) cs = Ret r.
Proof.
  induction cs as [|c0 cs IH]; intros up t Hu; [eexists; reflexivity|].
  cbn [full_path_walk]. rewrite find_child_by_name_uniq by (apply Hu, pre_self).
  rewrite filter_children_name.
  destruct (filter (fun k => str_eqb (tname k) c0) (tkids t)) as [|k0 rest] eqn:Ef;
    [eexists; reflexivity|].
  cbn [map first_or_none]. apply IH. intros x Hx. apply Hu.
  assert (Hin : In k0 (filter (fun k => str_eqb (tname k) c0) (tkids t))) by (rewrite Ef; left; reflexivity).
  apply filter_In in Hin as [Hin _]. apply In_nth_error in Hin as [i Hi].
  eapply pre_child; eassumption.
Qed.

(* the node of a full path, as the specification sees it *)
Definition full_path_node (w : tree) (sep path : str) : option lnode :=
  match full_path_nodes w sep path with [] => None | q :: _ => locate w q end.

Theorem full_path_decides_gen w sep p s path :
  sep <> [] -> lstrip (rstrip path sep) sep = trim sep path ->
  names_split w sep -> sibling_names_unique w = true -> locate w p = Some s ->
  find_full_path sep s path
  = if negb (str_eqb (hd [] (components sep path)) (tname w)) then Raise ValueError
    else Ret (full_path_node w sep path).
Proof.
  intros Hne Hstrip Hsplit Huniq Hs.
  destruct (find_full_path_char_gen w sep p s path Hne Hstrip Hsplit Huniq Hs) as [HA HB].
  pose proof (find_full_path_unfold w sep p s path Hs) as E.
  unfold path_list_of in E. rewrite Hstrip in E. unfold components.
  destruct (negb (str_eqb (hd [] (split (trim sep path) sep)) (tname w))); [exact E|].
  destruct (full_path_walk_uniq_ret (tl (split (trim sep path) sep)) [] w) as [r Hr].
  { intros x Hx. unfold sibling_names_unique in Huniq. rewrite forallb_forall in Huniq. apply Huniq. exact Hx. }
  rewrite Hr in E. rewrite E in HA, HB |- *. unfold full_path_node.
  destruct (full_path_nodes w sep path) as [|q0 rest].
  - destruct r as [m|]; [|reflexivity]. destruct (HB m eq_refl) as [q [[] _]].
  - destruct (HA q0 (or_introl eq_refl)) as [n [Hn Hr']]. rewrite Hn. exact Hr'.
Qed.

Theorem full_path_decides_one w c p s path :
  names_sfree w [c] = true -> sibling_names_unique w = true -> locate w p = Some s ->
  find_full_path [c] s path
  = if negb (str_eqb (hd [] (components [c] path)) (tname w)) then Raise ValueError
    else Ret (full_path_node w [c] path).
Proof.
  intros Hn. apply full_path_decides_gen;
    [discriminate|symmetry; apply trim_strip|apply names_split_multi; [discriminate|exact Hn]].
Qed.

Theorem full_path_decides_multi w sep p s path :
  sep <> [] -> names_sfree w sep = true -> sibling_names_unique w = true -> clean sep path = true ->
  locate w p = Some s ->
  find_full_path sep s path
  = if negb (str_eqb (hd [] (components sep path)) (tname w)) then Raise ValueError
    else Ret (full_path_node w sep path).
Proof.
  intros Hne Hn Huniq Hcl. apply full_path_decides_gen;
    [exact Hne|apply strip_clean; exact Hcl|apply names_split_multi; assumption|exact Huniq].
Qed.

(* a path whose first component is not the root's name is the path of no node *)
Theorem full_path_wrong_root_gen w sep path :
  names_split w sep ->
  str_eqb (hd [] (components sep path)) (tname w) = false -> full_path_nodes w sep path = [].
Proof.
  intros Hsplit Hhd. unfold full_path_nodes. apply filter_none. intros q _.
  apply str_eqb_neq. intros E. apply str_eqb_neq in Hhd. apply Hhd.
  unfold components. rewrite <- E. unfold names_to. rewrite (Hsplit q), names_from_cons. reflexivity.
Qed.

Theorem full_path_wrong_root_multi w sep path :
  sep <> [] -> names_sfree w sep = true ->
  str_eqb (hd [] (components sep path)) (tname w) = false -> full_path_nodes w sep path = [].
Proof. intros Hne Hn. apply full_path_wrong_root_gen. apply names_split_multi; assumption. Qed.

(* ------------------------------------------------------------------------------------------- *)
(* 4. the absolute-path branch of find_relative_path(s) *)

(* min_count / max_count are not read on an absolute path: true of every tree and separator *)
Theorem relative_absolute_counts_ignored sep s path mn mx mn' mx' :
  startswith path sep = true ->
  find_relative_paths sep s path mn mx = find_relative_paths sep s path mn' mx'.
Proof. intros H. unfold find_relative_paths. rewrite H. reflexivity. Qed.

Theorem relative_absolute_gen w sep p s path mn mx :
  sep <> [] -> lstrip (rstrip path sep) sep = trim sep path ->
  names_split w sep -> sibling_names_unique w = true -> locate w p = Some s ->
  startswith path sep = true ->
  find_relative_paths sep s path mn mx
  = (if negb (str_eqb (hd [] (components sep path)) (tname w)) then Raise ValueError
     else Ret [full_path_node w sep path])
  /\ find_relative_path sep s path
     = (if negb (str_eqb (hd [] (components sep path)) (tname w)) then Raise ValueError
        else Ret (full_path_node w sep path)).
Proof.
  intros Hne Hstrip Hsplit Huniq Hs Habs. unfold find_relative_path, find_relative_paths. rewrite Habs.
  rewrite (full_path_decides_gen w sep p s path Hne Hstrip Hsplit Huniq Hs).
  destruct (negb (str_eqb (hd [] (components sep path)) (tname w))); split; reflexivity.
Qed.

Theorem relative_absolute_one w c p s path mn mx :
  names_sfree w [c] = true -> sibling_names_unique w = true -> locate w p = Some s ->
  startswith path [c] = true ->
  find_relative_paths [c] s path mn mx
  = (if negb (str_eqb (hd [] (components [c] path)) (tname w)) then Raise ValueError
     else Ret [full_path_node w [c] path])
  /\ find_relative_path [c] s path
     = (if negb (str_eqb (hd [] (components [c] path)) (tname w)) then Raise ValueError
        else Ret (full_path_node w [c] path)).
Proof.
  intros Hn. apply relative_absolute_gen;
    [discriminate|symmetry; apply trim_strip|apply names_split_multi; [discriminate|exact Hn]].
Qed.

Theorem relative_absolute_multi w sep p s path mn mx :
  sep <> [] -> names_sfree w sep = true -> sibling_names_unique w = true -> clean sep path = true ->
  locate w p = Some s -> startswith path sep = true ->
  find_relative_paths sep s path mn mx
  = (if negb (str_eqb (hd [] (components sep path)) (tname w)) then Raise ValueError
     else Ret [full_path_node w sep path])
  /\ find_relative_path sep s path
     = (if negb (str_eqb (hd [] (components sep path)) (tname w)) then Raise ValueError
        else Ret (full_path_node w sep path)).
Proof.
  intros Hne Hn Huniq Hcl. apply relative_absolute_gen;
    [exact Hne|apply strip_clean; exact Hcl|apply names_split_multi; assumption|exact Huniq].
Qed.

(* ------------------------------------------------------------------------------------------- *)
(* 5. relative paths with arbitrary components: no guard on '*' *)

(* search.py:247  `wildcard_indicator = "*" in path_name` (after the strips) *)
Definition star_in (sep path : str) : bool := contains (trim sep path) s_star.

Theorem relative_spec_any_gen w sep p s path mn mx :
  lstrip (rstrip path sep) sep = trim sep path ->
  locate w p = Some s -> startswith path sep = false ->
  match denote w (star_in sep path) (components sep path) p with
  | None => find_relative_paths sep s path mn mx = Raise SearchError
  | Some L => exists M, map (locate w) L = map Some M
                        /\ find_relative_paths sep s path mn mx
                           = if count_violated (length L) mn mx then Raise SearchError else Ret (map Some M)
  end.
Proof.
  intros Hstrip Hs Hrel. unfold find_relative_paths, star_in, components. rewrite Hrel, Hstrip, denote_unfold.
  pose proof (resolve_denote w (contains (trim sep path) s_star) (split (trim sep path) sep) p s Hs) as R.
  destruct (resolve _ _ s) as [M|e], (denote_from _ _ _ _) as [L|]; cbn [rel] in R; try contradiction.
  - exists M. split; [exact R|]. rewrite (map_Some_length _ _ _ R).
    unfold check_result_count, count_violated.
    destruct (negb (Nat.eqb mn 0) && Nat.ltb (length M) mn); [reflexivity|].
    destruct (negb (Nat.eqb mx 0) && Nat.ltb mx (length M)); reflexivity.
  - subst e. reflexivity.
Qed.

Theorem relative_spec_any_one w c p s path mn mx :
  locate w p = Some s -> startswith path [c] = false ->
  match denote w (star_in [c] path) (components [c] path) p with
  | None => find_relative_paths [c] s path mn mx = Raise SearchError
  | Some L => exists M, map (locate w) L = map Some M
                        /\ find_relative_paths [c] s path mn mx
                           = if count_violated (length L) mn mx then Raise SearchError else Ret (map Some M)
  end.
Proof. apply relative_spec_any_gen. symmetry. apply trim_strip. Qed.

Theorem relative_spec_any_multi w sep p s path mn mx :
  clean sep path = true -> locate w p = Some s -> startswith path sep = false ->
  match denote w (star_in sep path) (components sep path) p with
  | None => find_relative_paths sep s path mn mx = Raise SearchError
  | Some L => exists M, map (locate w) L = map Some M
                        /\ find_relative_paths sep s path mn mx
                           = if count_violated (length L) mn mx then Raise SearchError else Ret (map Some M)
  end.
Proof. intros Hcl. apply relative_spec_any_gen. apply strip_clean. exact Hcl. Qed.

(* the flag is the one of the specification exactly on the specified language *)
Theorem star_in_plain sep path :
  sep <> [] -> memN 42%N sep = false -> plain_components (components sep path) = true ->
  star_in sep path = has_wildcard (components sep path).
Proof. intros Hne Hc Hp. apply wild_eq_gen; assumption. Qed.

(* ------------------------------------------------------------------------------------------- *)
(* 6. the single-result counterpart *)

Theorem relative_single_any_gen w sep p s path :
  lstrip (rstrip path sep) sep = trim sep path ->
  locate w p = Some s -> startswith path sep = false ->
  match denote w (star_in sep path) (components sep path) p with
  | None => find_relative_path sep s path = Raise SearchError
  | Some [] => find_relative_path sep s path = Ret None
  | Some [q] => exists n, locate w q = Some n /\ find_relative_path sep s path = Ret (Some n)
  | Some (_ :: _ :: _) => find_relative_path sep s path = Raise SearchError
  end.
Proof.
  intros Hstrip Hs Hrel. pose proof (relative_spec_any_gen w sep p s path 0 1 Hstrip Hs Hrel) as H.
  unfold find_relative_path.
  destruct (denote w (star_in sep path) (components sep path) p) as [L|]; [|rewrite H; reflexivity].
  destruct H as [M [E H]]. rewrite H.
  destruct L as [|q [|q' L]], M as [|m [|m' M]]; try discriminate E.
  - reflexivity.
  - cbn [map] in E. injection E as E. exists m. split; [exact E|reflexivity].
  - reflexivity.
Qed.

Theorem relative_single_any_one w c p s path :
  locate w p = Some s -> startswith path [c] = false ->
  match denote w (star_in [c] path) (components [c] path) p with
  | None => find_relative_path [c] s path = Raise SearchError
  | Some [] => find_relative_path [c] s path = Ret None
  | Some [q] => exists n, locate w q = Some n /\ find_relative_path [c] s path = Ret (Some n)
  | Some (_ :: _ :: _) => find_relative_path [c] s path = Raise SearchError
  end.
Proof. apply relative_single_any_gen. symmetry. apply trim_strip. Qed.

Theorem relative_single_any_multi w sep p s path :
  clean sep path = true -> locate w p = Some s -> startswith path sep = false ->
  match denote w (star_in sep path) (components sep path) p with
  | None => find_relative_path sep s path = Raise SearchError
  | Some [] => find_relative_path sep s path = Ret None
  | Some [q] => exists n, locate w q = Some n /\ find_relative_path sep s path = Ret (Some n)
  | Some (_ :: _ :: _) => find_relative_path sep s path = Raise SearchError
  end.
Proof. intros Hcl. apply relative_single_any_gen. apply strip_clean. exact Hcl. Qed.
