(* Executable model of bigtree/utils/iterators.py (inorder_iter, preorder_iter, postorder_iter,
   levelorder_iter, levelordergroup_iter, zigzag_iter, zigzaggroup_iter).

   A node is identified with the subtree it roots (tags carry the object identity); a generator is
   modelled by the list of nodes it yields.  `filter_condition` / `stop_condition` are total boolean
   functions (`None` = the constant functions true / false), `max_depth` is a nat with 0 = "no limit"
   (the code tests `not max_depth`).  The code compares the node's ABSOLUTE depth (`node.depth`,
   root = 1, obtained by walking the parent links) with max_depth, so every function takes the
   absolute depth `d` of the node(s) it is looking at; the entry points take the absolute depth `d0`
   of the start node.

   Rose trees (BaseNode / Node): section Rose.  Binary trees (BinaryNode, whose `children` is always
   the 2-tuple (left, right) with None for an empty slot, binarynode.py:285-292): section Bin, over
   the `btree` of Spec/PC04.v (datatype only; nothing else of the specification is used here).
   No proofs in this file. *)
From BT Require Import Base.Prelude Base.Rose.
From BT Require Import Spec.PC04.   (* only for: Inductive btree, btag/bleft/bright *)

(* `not max_depth or not node.depth > max_depth` *)
Definition depth_ok (m d : nat) : bool := Nat.eqb m 0 || negb (Nat.ltb m d).

(* next_level_nodes[::-1] when reverse_indicator *)
Definition orient {A} (rv : bool) (l : list A) : list A := if rv then rev l else l.

Section Rose.
  Variables (filt stop : tree -> bool) (m : nat).

  (* iterators.py:137-141, 198-202, 272-274: depth test, then stop test *)
  Definition gate (d : nat) (t : tree) : bool := depth_ok m d && negb (stop t).

  (* `if not filter_condition or filter_condition(tree): yield tree` *)
  Definition yield (t : tree) : list tree := if filt t then [t] else [].

  (* iterators.py:137-145 *)
  Fixpoint preorder (d : nat) (t : tree) : list tree :=
    match t with
    | T _ _ _ ks =>
        if gate d t then yield t ++ flat_map (preorder (S d)) ks else []
    end.

  (* iterators.py:198-208 *)
  Fixpoint postorder (d : nat) (t : tree) : list tree :=
    match t with
    | T _ _ _ ks =>
        if gate d t then flat_map (postorder (S d)) ks ++ yield t else []
    end.

  (* the `for _tree in trees:` loop shared by the four level iterators (260-277, 342-350, 419-430,
     501-512): returns (nodes yielded / collected in current_tree, next_level).  `rv` is
     reverse_indicator (always False for the level-order pair). *)
  Fixpoint scan (rv : bool) (d : nat) (trees : list tree) : list tree * list tree :=
    match trees with
    | [] => ([], [])
    | t :: rest =>
        let (cur, next) := scan rv d rest in
        if gate d t then (yield t ++ cur, orient rv (tkids t) ++ next) else (cur, next)
    end.

  (* _levelorder_iter, iterators.py:260-279; the Python recursion is replaced by fuel *)
  Fixpoint lo (fuel d : nat) (trees : list tree) : list tree :=
    match fuel with
    | 0 => []
    | S f =>
        let (cur, next) := scan false d trees in
        cur ++ match next with [] => [] | _ :: _ => lo f (S d) next end
    end.

  (* _levelordergroup_iter, iterators.py:333-353: the group is yielded unconditionally; the
     recursion additionally requires next_level[0].depth <= max_depth *)
  Fixpoint log (fuel d : nat) (trees : list tree) : list (list tree) :=
    match fuel with
    | 0 => []
    | S f =>
        let (cur, next) := scan false d trees in
        cur :: match next with
               | [] => []
               | _ :: _ => if depth_ok m (S d) then log f (S d) next else []
               end
    end.

  (* _zigzag_iter, iterators.py:407-434 *)
  Fixpoint zz (fuel d : nat) (rv : bool) (trees : list tree) : list tree :=
    match fuel with
    | 0 => []
    | S f =>
        let (cur, next) := scan rv d trees in
        cur ++ match next with [] => [] | _ :: _ => zz f (S d) (negb rv) (rev next) end
    end.

  (* _zigzaggroup_iter, iterators.py:489-517 *)
  Fixpoint zzg (fuel d : nat) (rv : bool) (trees : list tree) : list (list tree) :=
    match fuel with
    | 0 => []
    | S f =>
        let (cur, next) := scan rv d trees in
        cur :: match next with
               | [] => []
               | _ :: _ => if depth_ok m (S d) then zzg f (S d) (negb rv) (rev next) else []
               end
    end.

  (* entry points: one round per level of the subtree is enough (IterProofs: the result does not
     depend on the fuel once it is >= height t) *)
  Definition levelorder (d0 : nat) (t : tree) : list tree := lo (S (height t)) d0 [t].
  Definition levelordergroup (d0 : nat) (t : tree) : list (list tree) := log (S (height t)) d0 [t].
  Definition zigzag (d0 : nat) (t : tree) : list tree := zz (S (height t)) d0 false [t].
  Definition zigzaggroup (d0 : nat) (t : tree) : list (list tree) := zzg (S (height t)) d0 false [t].
End Rose.

(* ------------------------------------------------------------------------------------------ *)
(* BinaryNode: children = (left, right), either may be None *)

Definition bkids (b : btree) : list (option btree) := [bleft b; bright b].

(* `[_child for _child in _tree.children if _child]` *)
Fixpoint somes {X} (l : list (option X)) : list X :=
  match l with [] => [] | Some x :: r => x :: somes r | None :: r => somes r end.

Fixpoint bheight (b : btree) : nat :=
  match b with B _ l r => S (Nat.max (match l with Some x => bheight x | None => 0 end)
                                     (match r with Some x => bheight x | None => 0 end)) end.

Section Bin.
  Variables (filt stop : btree -> bool) (m : nat).

  Definition bgate (d : nat) (b : btree) : bool := depth_ok m d && negb (stop b).
  Definition byield (b : btree) : list btree := if filt b then [b] else [].

  (* inorder_iter, iterators.py:78-82 (no stop_condition); `if tree` skips an empty slot *)
  Fixpoint binorder (d : nat) (b : btree) : list btree :=
    match b with
    | B _ l r =>
        if depth_ok m d
        then oslot (binorder (S d)) l ++ byield b ++ oslot (binorder (S d)) r
        else []
    end.

  (* preorder_iter on a BinaryNode: `for child in tree.children` meets None, `if tree and` drops it *)
  Fixpoint bpreorder (d : nat) (b : btree) : list btree :=
    match b with
    | B _ l r =>
        if bgate d b
        then byield b ++ oslot (bpreorder (S d)) l ++ oslot (bpreorder (S d)) r
        else []
    end.

  Fixpoint bpostorder (d : nat) (b : btree) : list btree :=
    match b with
    | B _ l r =>
        if bgate d b
        then oslot (bpostorder (S d)) l ++ oslot (bpostorder (S d)) r ++ byield b
        else []
    end.

  (* levelorder_iter / zigzag_iter keep the None slots in next_level (`list(_tree.children)`) and
     skip them with `if _tree:` in the next round *)
  Fixpoint bscan (rv : bool) (d : nat) (trees : list (option btree)) : list btree * list (option btree) :=
    match trees with
    | [] => ([], [])
    | o :: rest =>
        let (cur, next) := bscan rv d rest in
        match o with
        | None => (cur, next)
        | Some t => if bgate d t then (byield t ++ cur, orient rv (bkids t) ++ next) else (cur, next)
        end
    end.

  Fixpoint blo (fuel d : nat) (trees : list (option btree)) : list btree :=
    match fuel with
    | 0 => []
    | S f =>
        let (cur, next) := bscan false d trees in
        cur ++ match next with [] => [] | _ :: _ => blo f (S d) next end
    end.

  Fixpoint bzz (fuel d : nat) (rv : bool) (trees : list (option btree)) : list btree :=
    match fuel with
    | 0 => []
    | S f =>
        let (cur, next) := bscan rv d trees in
        cur ++ match next with [] => [] | _ :: _ => bzz f (S d) (negb rv) (rev next) end
    end.

  (* the grouped iterators drop the None slots when they build next_level (350, 509) *)
  Fixpoint bgscan (rv : bool) (d : nat) (trees : list btree) : list btree * list btree :=
    match trees with
    | [] => ([], [])
    | t :: rest =>
        let (cur, next) := bgscan rv d rest in
        if bgate d t then (byield t ++ cur, orient rv (somes (bkids t)) ++ next) else (cur, next)
    end.

  Fixpoint blog (fuel d : nat) (trees : list btree) : list (list btree) :=
    match fuel with
    | 0 => []
    | S f =>
        let (cur, next) := bgscan false d trees in
        cur :: match next with
               | [] => []
               | _ :: _ => if depth_ok m (S d) then blog f (S d) next else []
               end
    end.

  Fixpoint bzzg (fuel d : nat) (rv : bool) (trees : list btree) : list (list btree) :=
    match fuel with
    | 0 => []
    | S f =>
        let (cur, next) := bgscan rv d trees in
        cur :: match next with
               | [] => []
               | _ :: _ => if depth_ok m (S d) then bzzg f (S d) (negb rv) (rev next) else []
               end
    end.

  (* the ungrouped pair may need one extra round that only meets None slots *)
  Definition blevelorder (d0 : nat) (b : btree) : list btree := blo (S (S (bheight b))) d0 [Some b].
  Definition bzigzag (d0 : nat) (b : btree) : list btree := bzz (S (S (bheight b))) d0 false [Some b].
  Definition blevelordergroup (d0 : nat) (b : btree) : list (list btree) := blog (S (bheight b)) d0 [b].
  Definition bzigzaggroup (d0 : nat) (b : btree) : list (list btree) := bzzg (S (bheight b)) d0 false [b].
End Bin.
