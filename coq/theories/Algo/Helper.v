(* Executable model of bigtree/tree/helper.py:58-107 (get_subtree) and :110-233 (prune_tree),
   together with what they call: search.py:331-357 find_path -> :89-117 find -> :51-86 findall
   (+ :29-48 the max_count=1 contract), node.py:112-121 path_name, basenode.py:732-743 copy,
   iterators.py:333-353 levelordergroup_iter (only as the provider of "the nodes of level k").
   No proofs in this file.

   The start node is a root (the guard of C14).  A Python node object of the tree is modelled as
   its *position*: the child indices on the route from the root (Base/Rose.v `pos`).  Everything
   the two functions read from a node is a function of (tree, position):
     node.path_name   -> node_path_name          node.ancestors -> proper_prefixes
     node.children    -> the positions p ++ [i]   `x in some_set` -> mem_pos
   The functions return *new* objects (tree.copy()); the model clears the identity tags, but C14
   does not observe them (that is C07's business): the observation is `obs_tree`. *)
From BT Require Import Base.Prelude Base.Str Base.Rose.

(* ---- vocabulary shared with Spec/PC14.v ---------------------------------------------------- *)

Section MapI.
  Context {A B : Type}.
  Variable f : nat -> A -> B.
  Fixpoint mapi_from (i : nat) (l : list A) : list B :=
    match l with [] => [] | x :: r => f i x :: mapi_from (S i) r end.
End MapI.

Definition pos_eqb (a b : pos) : bool := list_eqb Nat.eqb a b.
Definition mem_pos (p : pos) (l : list pos) : bool := existsb (pos_eqb p) l.

(* p is an ancestor of q or q itself *)
Fixpoint prefixb (p q : pos) : bool :=
  match p, q with
  | [], _ => true
  | i :: p', j :: q' => Nat.eqb i j && prefixb p' q'
  | _ :: _, [] => false
  end.

(* all nodes in pre-order, each with its position *)
Fixpoint pre_pos (t : tree) : list (pos * tree) :=
  match t with
  | T _ _ _ ks =>
      ([], t) :: concat (mapi_from (fun i k => map (fun ps => (i :: fst ps, snd ps)) (pre_pos k)) 0 ks)
  end.

(* what the harness records of a node: depth (root = 1), name, attributes *)
Definition lbl : Type := nat * str * attrs.
Definition lbl_of (ps : pos * tree) : lbl := (S (length (fst ps)), tname (snd ps), tattrs (snd ps)).
Definition obs_tree (t : tree) : list lbl := map lbl_of (pre_pos t).

(* names on the route from the root to position p (the root's name first) *)
Fixpoint names_along (t : tree) (p : pos) : list str :=
  tname t :: match p with
             | [] => []
             | i :: p' => match nth_error (tkids t) i with
                          | Some k => names_along k p'
                          | None => []
                          end
             end.

(* node.py:119-121   sep + sep.join(names from the root) *)
Definition node_path_name (tsep : str) (t : tree) (p : pos) : str :=
  tsep ++ join tsep (names_along t p).

(* ---- basenode.py:743 copy.deepcopy(self): same shape, names, attributes; all objects new --- *)
Fixpoint copy_tree (t : tree) : tree :=
  match t with T _ n a ks => T None n a (map copy_tree ks) end.

(* ---- search.py:331-357 find_path ------------------------------------------------------------
     path_name = path_name.rstrip(tree.sep)                      (character-set strip: K3)
     return find(tree, lambda _node: _node.path_name.endswith(path_name))
   find = findall(..., max_count=1): pre-order filter; more than one hit -> SearchError;
   `if result: return result[0]`, else None.                                                   *)
Definition find_paths_pos (tsep : str) (t : tree) (path : str) : list pos :=
  let pn := rstrip path tsep in
  filter (fun p => endswith (node_path_name tsep t p) pn) (positions t).

Definition find_path (tsep : str) (t : tree) (path : str) : res (option pos) :=
  match find_paths_pos tsep t path with
  | [] => Ret None
  | [p] => Ret (Some p)
  | _ :: _ :: _ => Raise SearchError
  end.

(* ---- prune by path: helper.py:196-222 -------------------------------------------------------
     for path in prune_path:
         path = path.replace(sep, tree.sep)
         child = search.find_path(tree_copy, path)
         if not child: raise NotFoundError
         nodes_to_prune.add(child); ancestors_to_prune.update(list(child.ancestors))          *)
Fixpoint locate (tsep sep : str) (t : tree) (paths : list str) : res (list pos) :=
  match paths with
  | [] => Ret []
  | path :: rest =>
      match find_path tsep t (replace path sep tsep) with
      | Raise e => Raise e
      | Ret None => Raise NotFoundError
      | Ret (Some p) =>
          match locate tsep sep t rest with
          | Raise e => Raise e
          | Ret ps => Ret (p :: ps)
          end
      end
  end.

(* child.ancestors: the positions strictly above p *)
Fixpoint proper_prefixes (p : pos) : list pos :=
  match p with
  | [] => []
  | i :: r => [] :: map (cons i) (proper_prefixes r)
  end.

Definition ancestors_to_prune (targets : list pos) : list pos := flat_map proper_prefixes targets.

(*   if exact: ancestors_to_prune.update(nodes_to_prune)
     for _node in ancestors_to_prune:
         for child in _node.children:
             if child and child not in ancestors_to_prune and child not in nodes_to_prune:
                 child.parent = None
   A node c is cut loose iff its parent is in the (possibly enlarged) ancestor set and c is in
   neither set.  (`anc` is the set before the `exact` enlargement; the membership test of the
   child is against the enlarged set, which makes no difference as the enlargement adds nodes
   of nodes_to_prune only.)                                                                     *)
Definition detached (targets : list pos) (exact : bool) (c : pos) : bool :=
  match c with
  | [] => false
  | _ :: _ =>
      let anc := ancestors_to_prune targets in
      let walk := if exact then anc ++ targets else anc in
      mem_pos (removelast c) walk && negb (mem_pos c walk) && negb (mem_pos c targets)
  end.

(* the tree that is left under the root when every subtree whose root is not `alive` has been
   cut loose; `alive` is asked with the position in the tree before the surgery *)
Fixpoint opt_list {A} (l : list (option A)) : list A :=
  match l with [] => [] | Some x :: r => x :: opt_list r | None :: r => opt_list r end.

Fixpoint filter_tree (alive : pos -> bool) (t : tree) : tree :=
  match t with
  | T g n a ks =>
      T g n a (opt_list (mapi_from (fun i k =>
                 if alive [i] then Some (filter_tree (fun p => alive (i :: p)) k) else None) 0 ks))
  end.

Definition prune_paths (targets : list pos) (exact : bool) (t : tree) : tree :=
  filter_tree (fun c => negb (detached targets exact c)) t.

(* ---- prune by depth: helper.py:225-232 ------------------------------------------------------
     for depth, level_nodes in enumerate(levelordergroup_iter(tree_copy), 1):
         if depth == max_depth:
             for level_node in level_nodes: del level_node.children
   The k-th group of levelordergroup_iter of a root is the list of nodes of depth k, left to
   right (iterators.py:342-353; no filter/stop condition/max_depth is passed).                 *)
Fixpoint level_pos (k : nat) (t : tree) : list pos :=
  match k with
  | 0 => [[]]
  | S k' => concat (mapi_from (fun i c => map (cons i) (level_pos k' c)) 0 (tkids t))
  end.

Fixpoint upd_nth {A} (i : nat) (f : A -> A) (l : list A) : list A :=
  match l with
  | [] => []
  | x :: r => match i with 0 => f x :: r | S j => x :: upd_nth j f r end
  end.

(* del node.children for the node at position p *)
Fixpoint del_children_at (p : pos) (t : tree) : tree :=
  match t with
  | T g n a ks =>
      match p with
      | [] => T g n a []
      | i :: p' => T g n a (upd_nth i (del_children_at p') ks)
      end
  end.

Definition depth_cut (max_depth : nat) (t : tree) : tree :=
  match max_depth with
  | 0 => t                                      (* `if max_depth:` *)
  | S k => fold_left (fun acc p => del_children_at p acc) (level_pos k t) t
  end.

(* ---- prune_tree: helper.py:187-233 ---------------------------------------------------------- *)
Inductive ppaths := PStr (s : str) | PList (l : list str).

(*   if isinstance(prune_path, str): prune_path = [prune_path] if prune_path else []           *)
Definition norm_paths (pp : ppaths) : list str :=
  match pp with
  | PStr [] => []
  | PStr s => [s]
  | PList l => l
  end.

Definition is_nil {A} (l : list A) : bool := match l with [] => true | _ => false end.

(* tsep = tree.sep (the root's separator), sep = the `sep` argument.
   str.replace / str.join with an empty separator are outside the model. *)
Definition prune_tree (tsep : str) (t : tree) (pp : ppaths) (exact : bool) (sep : str)
           (max_depth : nat) : res tree :=
  let paths := norm_paths pp in
  if is_nil paths && Nat.eqb max_depth 0 then Raise ValueError else
  if is_nil tsep || is_nil sep then Raise Unmodelled else
  let c := copy_tree t in
  let by_path :=
      if is_nil paths then Ret c else
      match locate tsep sep c paths with
      | Raise e => Raise e
      | Ret targets => Ret (prune_paths targets exact c)
      end in
  match by_path with
  | Raise e => Raise e
  | Ret c1 => Ret (depth_cut max_depth c1)
  end.

(* ---- get_subtree: helper.py:93-107 ------------------------------------------------------------
     tree = tree.copy()
     if node_name_or_path:
         tree = search.find_path(tree, node_name_or_path)
         if not tree: raise ValueError
     if not tree.is_root: tree.parent = None
     if max_depth: tree = prune_tree(tree, max_depth=max_depth)                                 *)
Definition get_subtree (tsep : str) (t : tree) (name_or_path : str) (max_depth : nat) : res tree :=
  if is_nil tsep then Raise Unmodelled else
  let c := copy_tree t in
  let located :=
      if is_nil name_or_path then Ret c else
      match find_path tsep c name_or_path with
      | Raise e => Raise e
      | Ret None => Raise ValueError
      | Ret (Some p) => match subtree_at c p with
                        | Some s => Ret s
                        | None => Raise Unmodelled      (* unreachable: p is a position of c *)
                        end
      end in
  match located with
  | Raise e => Raise e
  | Ret s => if Nat.eqb max_depth 0 then Ret s
             else Ret (depth_cut max_depth (copy_tree s))
  end.

(* ---- the calls the harness makes ------------------------------------------------------------ *)
Inductive hcall :=
| CPrune (pp : ppaths) (exact : bool) (sep : str) (max_depth : nat)
| CSubtree (name_or_path : str) (max_depth : nat).

Definition run_call (tsep : str) (t : tree) (c : hcall) : res tree :=
  match c with
  | CPrune pp exact sep d => prune_tree tsep t pp exact sep d
  | CSubtree s d => get_subtree tsep t s d
  end.

(* =============================================================================================
   General form: the start node is any node of a bigger tree, and the tree may be a BinaryNode
   tree with empty child slots.

   Inner start node (`tree` is the node at position st of the tree t):
     * tree.copy() = copy.deepcopy: the whole tree is copied through the parent pointers; the
       functions go on with the copy of the start node, which is still attached to the copied
       ancestors;
     * tree.sep and node.path_name are read from the real root (node.py:84-92, :112-121): path
       names are absolute;
     * find_path(tree_copy, path) = preorder_iter from the start node: only nodes of its subtree
       are candidates;
     * child.ancestors runs up to the real root, so ancestors_to_prune contains the start node's
       own ancestors and their other children are cut loose as well — in the copy, above the node
       that is returned.  Neither the start node nor one of its ancestors is ever cut loose (each
       is an ancestor of, or is, every target), so what hangs below the returned node is the start
       node's subtree minus the subtrees cut loose inside it;
     * prune_tree returns tree_copy: the copy of the start node, *not* detached from the copied
       ancestors (its depth attribute stays S (length st)); get_subtree detaches (`tree.parent =
       None`), the result is a root;
     * levelordergroup_iter(tree_copy) starts at the start node and the groups are counted with
       enumerate(..., 1): max_depth is relative to the start node.

   BinaryNode trees are encoded as rose trees in which every real node has exactly two kids and an
   empty slot is the placeholder HOLE (empty name; a real node's name is never empty):
     * preorder_iter / levelordergroup_iter skip empty slots (`if tree and ...`, `if _child`);
     * `child.parent = None` empties the slot (binarynode.py:187-188), the other slot keeps its
       place; `del node.children` leaves two empty slots (binarynode.py deleter after fix F2).
   ============================================================================================= *)

Definition HOLE : tree := T None [] [] [].
Definition is_hole (t : tree) : bool := is_nil (tname t).
Definition is_hole_at (t : tree) (p : pos) : bool :=
  match subtree_at t p with Some x => is_hole x | None => false end.

(* absolute positions of the candidates of a search started at the node at st, pre-order *)
Definition search_space (bin : bool) (t : tree) (st : pos) : list pos :=
  match subtree_at t st with
  | None => []
  | Some s => map (app st) (filter (fun p => negb bin || negb (is_hole_at s p)) (positions s))
  end.

Definition find_paths_pos_at (bin : bool) (tsep : str) (t : tree) (st : pos) (path : str) : list pos :=
  let pn := rstrip path tsep in
  filter (fun q => endswith (node_path_name tsep t q) pn) (search_space bin t st).

Definition find_path_at (bin : bool) (tsep : str) (t : tree) (st : pos) (path : str) : res (option pos) :=
  match find_paths_pos_at bin tsep t st path with
  | [] => Ret None
  | [p] => Ret (Some p)
  | _ :: _ :: _ => Raise SearchError
  end.

Fixpoint locate_at (bin : bool) (tsep sep : str) (t : tree) (st : pos) (paths : list str) : res (list pos) :=
  match paths with
  | [] => Ret []
  | path :: rest =>
      match find_path_at bin tsep t st (replace path sep tsep) with
      | Raise e => Raise e
      | Ret None => Raise NotFoundError
      | Ret (Some p) =>
          match locate_at bin tsep sep t st rest with
          | Raise e => Raise e
          | Ret ps => Ret (p :: ps)
          end
      end
  end.

(* BinaryNode: a child that is cut loose leaves an empty slot *)
Fixpoint filter_tree_b (alive : pos -> bool) (t : tree) : tree :=
  match t with
  | T g n a ks =>
      T g n a (mapi_from (fun i k =>
                 if is_hole k then k
                 else if alive [i] then filter_tree_b (fun p => alive (i :: p)) k else HOLE) 0 ks)
  end.

(* what hangs below the returned node: s is the start node's subtree, positions asked absolute *)
Definition prune_paths_at (bin : bool) (targets : list pos) (exact : bool) (st : pos) (s : tree) : tree :=
  let alive := fun p => negb (detached targets exact (st ++ p)) in
  if bin then filter_tree_b alive s else filter_tree alive s.

Fixpoint del_children_at_b (p : pos) (t : tree) : tree :=
  match t with
  | T g n a ks =>
      match p with
      | [] => T g n a [HOLE; HOLE]
      | i :: p' => T g n a (upd_nth i (del_children_at_b p') ks)
      end
  end.

Definition depth_cut_x (bin : bool) (max_depth : nat) (t : tree) : tree :=
  match max_depth with
  | 0 => t
  | S k =>
      if bin
      then fold_left (fun acc p => del_children_at_b p acc)
                     (filter (fun p => negb (is_hole_at t p)) (level_pos k t)) t
      else fold_left (fun acc p => del_children_at p acc) (level_pos k t) t
  end.

Definition prune_tree_at (bin : bool) (tsep : str) (t : tree) (st : pos) (pp : ppaths) (exact : bool)
           (sep : str) (max_depth : nat) : res tree :=
  let paths := norm_paths pp in
  if is_nil paths && Nat.eqb max_depth 0 then Raise ValueError else
  if is_nil tsep || is_nil sep then Raise Unmodelled else
  let c := copy_tree t in
  match subtree_at c st with
  | None => Raise Unmodelled                       (* st is not a node of t *)
  | Some s =>
      let by_path :=
          if is_nil paths then Ret s else
          match locate_at bin tsep sep c st paths with
          | Raise e => Raise e
          | Ret targets => Ret (prune_paths_at bin targets exact st s)
          end in
      match by_path with
      | Raise e => Raise e
      | Ret s1 => Ret (depth_cut_x bin max_depth s1)
      end
  end.

Definition get_subtree_at (bin : bool) (tsep : str) (t : tree) (st : pos) (name_or_path : str)
           (max_depth : nat) : res tree :=
  if is_nil tsep then Raise Unmodelled else
  let c := copy_tree t in
  let located :=
      if is_nil name_or_path then Ret st else
      match find_path_at bin tsep c st name_or_path with
      | Raise e => Raise e
      | Ret None => Raise ValueError
      | Ret (Some p) => Ret p
      end in
  match located with
  | Raise e => Raise e
  | Ret q =>
      match subtree_at c q with
      | None => Raise Unmodelled
      | Some s => if Nat.eqb max_depth 0 then Ret s
                  else Ret (depth_cut_x bin max_depth (copy_tree s))
      end
  end.

Definition run_call_at (bin : bool) (tsep : str) (t : tree) (st : pos) (c : hcall) : res tree :=
  match c with
  | CPrune pp exact sep d => prune_tree_at bin tsep t st pp exact sep d
  | CSubtree s d => get_subtree_at bin tsep t st s d
  end.

(* node.depth of the returned node: prune_tree returns the copy of the start node still attached to
   its copied ancestors; get_subtree returns a root *)
Definition top_depth (st : pos) (c : hcall) : nat :=
  match c with CPrune _ _ _ _ => S (length st) | CSubtree _ _ => 1 end.

(* The whole copy prune_tree leaves behind when it is called on the node at st of a Node tree (the
   returned node is still attached to it: result.root).  Derived description, compared with
   result.root by the harness: a node is cut loose iff the detach rule says so (absolute positions;
   only when paths were given) or it lies below the start node deeper than max_depth levels (the level
   groups start at the start node; nothing outside its subtree is touched by the depth cut). *)
Definition whole_alive (given : bool) (targets : list pos) (exact : bool) (st : pos) (max_depth : nat)
           (p : pos) : bool :=
  negb (given && detached targets exact p)
  && (negb (prefixb st p) || Nat.eqb max_depth 0 || Nat.leb (S (length p) - length st) max_depth).

Definition whole_copy_at (given : bool) (targets : list pos) (exact : bool) (st : pos) (max_depth : nat)
           (t : tree) : tree :=
  filter_tree (whole_alive given targets exact st max_depth) (copy_tree t).
