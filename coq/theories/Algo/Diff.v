(* Executable model of bigtree/tree/helper.py get_tree_diff (lines 336-424, after fix F6) together with
   the parts of export.tree_to_dataframe (export.py:851-894) and construct.dataframe_to_tree /
   add_path_to_tree / add_dict_to_tree_by_path (construct.py:93-128, 189-201, 996-1038; line numbers of /repo at 09acfdb) it relies on.

   Everything is a pure list function over strings (str = list N):
     table      the two (PATH, name, attribute columns) tables, pre-order;
     merge      pandas' outer join on (PATH, name) with the indicator column (many-to-many semantics;
                the row order of pandas is not modelled, the result is compared as a multiset of nodes);
     suffixing  the component-wise helper _add_suffix (split on tree.sep, membership of the prefix path
                in the removed / added path sets, join);
     changes    the attribute comparison per listed attribute;
     filter     only_diff;
     rebuild    dataframe_to_tree with its DEFAULT separator "/" (get_tree_diff does not pass the trees'
                separator, helper.py:412 and :421): every row is stripped of "/" on both ends, split on
                "/", must start with the root name (TreeError otherwise) and contributes all its non-empty
                prefixes as nodes (find-or-create along the path = one node per distinct component list);
     attrs      add_dict_to_tree_by_path per listed attribute (value = the pair (old, new));
     rename     the " (~)" renaming, paths in descending string order.
   A node of the rebuilt tree is identified by its list of components *before* the renaming; the
   renaming of a path happens before the renaming of any of its proper prefixes (descending order), so
   every lookup of the implementation walks over names that are still the original components.

   No proofs in this file. *)
From BT Require Import Base.Prelude Base.Str Base.Rose.

Definition slash : str := [47%N].
Definition sfx_minus : str := [32; 40; 45; 41]%N.     (* " (-)" *)
Definition sfx_plus  : str := [32; 40; 43; 41]%N.     (* " (+)" *)
Definition sfx_tilde : str := [32; 40; 126; 41]%N.    (* " (~)" *)

Definition memstr (s : str) (l : list str) : bool := existsb (str_eqb s) l.

(* ---- export.tree_to_dataframe(tree, name_col="name", path_col="PATH", attr_dict={k: k}) -------- *)

(* node.get_attr(k): getattr or None (basenode.py:638-641); attributes are the instance dict *)
Definition get_attr (a : str) (at_ : attrs) : val :=
  match find (fun kv => str_eqb (fst kv) a) at_ with
  | Some kv => snd kv
  | None => VNone
  end.

Record row := Row { rpath : str; rname : str; rvals : list val }.

(* node.path_name = sep + sep.join(names from the root)  (node.py:119-121) *)
Definition path_name (sep : str) (names : list str) : str := sep ++ join sep names.

(* _recursive_append: pre-order (export.py:865-891) *)
Fixpoint table_from (sep : str) (al : list str) (prefix : list str) (t : tree) : list row :=
  match t with
  | T _ n at_ ks =>
      let p := prefix ++ [n] in
      Row (path_name sep p) n (map (fun a => get_attr a at_) al)
      :: flat_map (table_from sep al p) ks
  end.
Definition table (sep : str) (al : list str) (t : tree) : list row := table_from sep al [] t.

(* ---- the outer join (helper.py:352-357) -------------------------------------------------------- *)

Inductive ind := LeftOnly | RightOnly | BothI.
Definition is_both (i : ind) : bool := match i with BothI => true | _ => false end.
Definition is_left (i : ind) : bool := match i with LeftOnly => true | _ => false end.
Definition is_right (i : ind) : bool := match i with RightOnly => true | _ => false end.

Record jrow := JR { jpath : str; jx : list val; jy : list val; jind : ind }.

Definition key_eqb (r1 r2 : row) : bool :=
  str_eqb (rpath r1) (rpath r2) && str_eqb (rname r1) (rname r2).

Definition merge_outer (nn : list val) (d1 d2 : list row) : list jrow :=
  flat_map (fun r1 =>
              match filter (key_eqb r1) d2 with
              | [] => [JR (rpath r1) (rvals r1) nn LeftOnly]
              | ms => map (fun r2 => JR (rpath r1) (rvals r1) (rvals r2) BothI) ms
              end) d1
  ++ map (fun r2 => JR (rpath r2) nn (rvals r2) RightOnly)
         (filter (fun r2 => negb (existsb (fun r1 => key_eqb r1 r2) d1)) d2).

(* ---- _add_suffix (helper.py:368-379) ------------------------------------------------------------ *)

(* done = path_parts[:idx], todo = path_parts[idx:] *)
Fixpoint suffix_parts (sep : str) (removed added : list str) (done todo : list str) : list str :=
  match todo with
  | [] => []
  | part :: rest =>
      let sub := join sep (done ++ [part]) in
      (if memstr sub removed then part ++ sfx_minus
       else if memstr sub added then part ++ sfx_plus
       else part)
      :: suffix_parts sep removed added (done ++ [part]) rest
  end.

Definition add_suffix (sep : str) (removed added : list str) (path : str) : str :=
  join sep (suffix_parts sep removed added [] (split path sep)).

Definition set_path (r : jrow) (p : str) : jrow := JR p (jx r) (jy r) (jind r).

(* ---- attribute comparison (helper.py:386-403) --------------------------------------------------- *)

Definition is_none (v : val) : bool := match v with VNone => true | _ => false end.

Definition change := (str * (str * (val * val)))%type.     (* marked path, attribute, (old, new) *)

Definition changes_for (i : nat) (a : str) (rows : list jrow) : list change :=
  flat_map (fun r =>
              let x := nth i (jx r) VNone in
              let y := nth i (jy r) VNone in
              if (negb (is_none x) || negb (is_none y)) && negb (val_eqb x y) && is_both (jind r)
              then [(jpath r, (a, (x, y)))] else []) rows.

Fixpoint changes_from (i : nat) (al : list str) (rows : list jrow) : list change :=
  match al with
  | [] => []
  | a :: rest => changes_for i a rows ++ changes_from (S i) rest rows
  end.

(* ---- only_diff (helper.py:405-410) ---------------------------------------------------------------- *)

Definition keep_row (only_diff : bool) (chpaths : list str) (r : jrow) : bool :=
  negb only_diff || negb (is_both (jind r)) || memstr (jpath r) chpaths.

(* ---- construct.add_path_to_tree with sep="/" on a tree given by its node set ---------------------- *)

Notation nid := (list str) (only parsing).   (* a node of the rebuilt tree: its original components *)
Definition nid_eqb : nid -> nid -> bool := list_eqb str_eqb.

Fixpoint prefixes_from {A} (done todo : list A) : list (list A) :=
  match todo with
  | [] => []
  | x :: rest => (done ++ [x]) :: prefixes_from (done ++ [x]) rest
  end.
Definition nonempty_prefixes {A} (l : list A) : list (list A) := prefixes_from [] l.

Definition add_id (nodes : list nid) (q : nid) : list nid :=
  if existsb (nid_eqb q) nodes then nodes else nodes ++ [q].

(* path.lstrip(sep).rstrip(sep).split(sep) with sep = "/" (construct.py:98) *)
Definition branch_of (path : str) : list str := split (rstrip (lstrip path slash) slash) slash.

Definition add_path (root : str) (nodes : list nid) (path : str) : res (list nid * nid) :=
  match path with
  | [] => Raise ValueError                                     (* assert_length_not_empty *)
  | _ =>
      let br := branch_of path in
      if str_eqb (hd [] br) root
      then Ret (fold_left add_id (nonempty_prefixes br) nodes, br)
      else Raise TreeError                                     (* construct.py:99-103 *)
  end.

Fixpoint add_paths (root : str) (nodes : list nid) (paths : list str) : res (list nid) :=
  match paths with
  | [] => Ret nodes
  | p :: rest =>
      match add_path root nodes p with
      | Ret (nodes', _) => add_paths root nodes' rest
      | Raise e => Raise e
      end
  end.

(* dataframe_to_tree(data_both[[PATH]]) (construct.py:1004-1038; rows are read as records since 599b827); no attribute columns, so the
   duplicate check cannot fire and every node is created without attributes *)
Definition rebuild (paths : list str) : res (str * list nid) :=
  let sp := map (fun p => rstrip (lstrip p slash) slash) paths in
  let root := hd [] (split (hd [] sp) slash) in
  match add_paths root [[root]] sp with
  | Ret nodes => Ret (root, nodes)
  | Raise e => Raise e
  end.

(* ---- attribute values and renaming (helper.py:414-423) ------------------------------------------- *)

Definition oattrs := list (str * (val * val)).

Fixpoint set_kv (k : str) (v : val * val) (l : oattrs) : oattrs :=
  match l with
  | [] => [(k, v)]
  | (k', v') :: t => if str_eqb k k' then (k, v) :: t else (k', v') :: set_kv k v t
  end.

(* the store: (node, attribute, value) in the order of assignment; later assignments win *)
Definition astore := list (nid * (str * (val * val))).

Fixpoint apply_changes (root : str) (nodes : list nid) (st : astore) (chs : list change)
  : res (list nid * astore) :=
  match chs with
  | [] => Ret (nodes, st)
  | (p, kv) :: rest =>
      match add_path root nodes p with
      | Ret (nodes', q) => apply_changes root nodes' (st ++ [(q, kv)]) rest
      | Raise e => Raise e
      end
  end.

Definition attrs_of (st : astore) (q : nid) : oattrs :=
  fold_left (fun acc e => if nid_eqb (fst e) q then set_kv (fst (snd e)) (snd (snd e)) acc else acc) st [].

(* sorted(path_changes_deque, reverse=True); the dict comprehension removes duplicates *)
Fixpoint insert_desc (s : str) (l : list str) : list str :=
  match l with
  | [] => [s]
  | x :: t => if str_eqb s x then l else if str_ltb x s then s :: l else x :: insert_desc s t
  end.
Definition sort_desc (l : list str) : list str := fold_right insert_desc [] l.

Definition rstore := list (nid * str).        (* node, new name; later entries win *)

Definition last_part (sep : str) (k : str) : str := last (split k sep) [].

Fixpoint apply_renames (sep root : str) (nodes : list nid) (rs : rstore) (ks : list str)
  : res (list nid * rstore) :=
  match ks with
  | [] => Ret (nodes, rs)
  | k :: rest =>
      match add_path root nodes k with
      | Ret (nodes', q) => apply_renames sep root nodes' (rs ++ [(q, last_part sep k ++ sfx_tilde)]) rest
      | Raise e => Raise e
      end
  end.

Definition final_name (rs : rstore) (q : nid) : str :=
  fold_left (fun acc e => if nid_eqb (fst e) q then snd e else acc) rs (last q []).

(* path_name of a node of the result (its root has sep "/", construct.py:1034) *)
Definition final_path (rs : rstore) (q : nid) : str :=
  path_name slash (map (final_name rs) (nonempty_prefixes q)).

(* ---- get_tree_diff ------------------------------------------------------------------------------------ *)

Definition onode := (str * oattrs)%type.             (* path_name, attributes *)

Definition marked_rows (sep : str) (al : list str) (t1 t2 : tree) : list jrow :=
  let nn := map (fun _ => VNone) al in
  let both := merge_outer nn (table sep al t1) (table sep al t2) in
  let removed := map jpath (filter (fun r => is_left (jind r)) both) in
  let added := map jpath (filter (fun r => is_right (jind r)) both) in
  map (fun r => set_path r (add_suffix sep removed added (jpath r))) both.

(* helper.py:383-424 on the marked table *)
Definition diff_of_rows (sep : str) (rows : list jrow) (only_diff : bool) (al : list str)
  : res (option (list onode)) :=
  let chs := changes_from 0 al rows in
  let chpaths := map fst chs in
  let kept := map jpath (filter (keep_row only_diff chpaths) rows) in
  match kept with
  | [] => Ret None                                              (* helper.py:411: falls through *)
  | _ =>
      match rebuild kept with
      | Raise e => Raise e
      | Ret (root, nodes) =>
          (* helper.py:414: `if len(path_changes_deque)` - with no change both loops are empty *)
          match apply_changes root nodes [] chs with
          | Raise e => Raise e
          | Ret (nodes1, st) =>
              match apply_renames sep root nodes1 [] (sort_desc chpaths) with
              | Raise e => Raise e
              | Ret (nodes2, rs) =>
                  Ret (Some (map (fun q => (final_path rs q, attrs_of st q)) nodes2))
              end
          end
      end
  end.

Definition get_tree_diff (sep : str) (t1 t2 : tree) (only_diff : bool) (al : list str)
  : res (option (list onode)) :=
  diff_of_rows sep (marked_rows sep al t1 t2) only_diff al.

(* The second tree may use another separator; helper.py:336 first executes `other_tree.sep = tree.sep`,
   so other_tree's table is exported with the FIRST tree's separator and other_tree's own separator
   never reaches any path string (in particular separator characters inside names are left alone). *)
Definition marked_rows_seps (sep sep_other : str) (al : list str) (t1 t2 : tree) : list jrow :=
  let nn := map (fun _ => VNone) al in
  let both := merge_outer nn (table sep al t1) (table sep_other al t2) in
  let removed := map jpath (filter (fun r => is_left (jind r)) both) in
  let added := map jpath (filter (fun r => is_right (jind r)) both) in
  map (fun r => set_path r (add_suffix sep removed added (jpath r))) both.

Definition get_tree_diff_seps (sep sep2 : str) (t1 t2 : tree) (only_diff : bool) (al : list str)
  : res (option (list onode)) :=
  let sep_other := sep in                     (* other_tree.sep = tree.sep; sep2 is overwritten *)
  diff_of_rows sep (marked_rows_seps sep sep_other al t1 t2) only_diff al.

(* BinaryNode inputs: the result is rebuilt with node_type = tree.__class__ (helper.py:412); a BinaryNode
   refuses a third child (binarynode.py:194-201, TreeError), so the call raises as soon as some node of
   the result would have more than two children.  Nothing else depends on the node class. *)
Definition parent_path (s : str) : str := join slash (removelast (split s slash)).
Definition binary_overflow (l : list onode) : bool :=
  existsb (fun n => Nat.ltb 2 (length (filter (fun m => str_eqb (parent_path (fst m)) (fst n)) l))) l.

Definition get_tree_diff_cls (binary : bool) (sep sep2 : str) (t1 t2 : tree) (only_diff : bool) (al : list str)
  : res (option (list onode)) :=
  match get_tree_diff_seps sep sep2 t1 t2 only_diff al with
  | Ret (Some l) => if binary && binary_overflow l then Raise TreeError else Ret (Some l)
  | r => r
  end.
