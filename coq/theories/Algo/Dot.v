(* Model of the graph exports, at the level of vertex ids, labels and edges:
   - bigtree/tree/export.py `tree_to_dot` (1294-1331): `_recursive_append` with the dictionary
     `name_dict : label -> list of path names`; vertex id = label ++ str(index of the node's path
     name in name_dict[label]); one edge parent id -> child id.  Of pydot only the way Node() stores
     its name is modelled (`pydot_name`); styling is not.
   - `tree_to_mermaid` (1639-1729): `MermaidNode.mermaid_name` ("0" for the root, otherwise
     parent's name ++ "-" ++ index among the parent's children) and one flow line per non-root node
     in pre-order (default node shape `("label")`, default arrow `-->`, no edge labels / styles).
   Both start from `tree.root` and skip empty BinaryNode slots (`if child:`; `clone_tree`), i.e.
   they see `compact t` (Algo/Render.v).  No proofs in this file. *)
From BT Require Import Base.Prelude Base.Str Base.Rose Algo.Render.

(* ---------------------------------------------------------------------------------------------- *)
(* tree_to_dot *)

(* collections.defaultdict(list), keys compared as strings, insertion order irrelevant *)
Definition ndict := list (str * list str).

Fixpoint dget (d : ndict) (k : str) : list str :=
  match d with
  | [] => []
  | (k', v) :: r => if str_eqb k k' then v else dget r k
  end.

Fixpoint dset (d : ndict) (k : str) (v : list str) : ndict :=
  match d with
  | [] => [(k, v)]
  | (k', v') :: r => if str_eqb k k' then (k, v) :: r else (k', v') :: dset r k v
  end.

Definition mem_str (x : str) (l : list str) : bool := existsb (str_eqb x) l.

(* list.index(x); length l when absent (ValueError in Python; never happens after the append) *)
Fixpoint index_str (x : str) (l : list str) : nat :=
  match l with [] => 0 | y :: r => if str_eqb x y then 0 else S (index_str x r) end.

Record dstate := DS { ds_dict : ndict;
                      ds_nodes : list (str * str);       (* (vertex id, label), in creation order *)
                      ds_edges : list (str * str) }.     (* (source id, destination id)           *)

(* lines 1307-1312: the vertex id of a node with this label and path name, and the new dictionary *)
Definition dot_name (d : ndict) (label path : str) : ndict * str :=
  let l := dget d label in
  let l' := if mem_str path l then l else l ++ [path] in
  (dset d label l', label ++ str_of_nat (index_str path l')).

(* _recursive_append(parent_name, child_node); [ppath] = path_name of the parent ("" above the root),
   node.py:113-121: path_name = sep + sep.join(names from the root) *)
Fixpoint dot_go (sep : str) (parent_id : option str) (ppath : str) (t : tree) (s : dstate) : dstate :=
  match t with
  | T _ n _ ks =>
      let path := ppath ++ sep ++ n in
      let (d', cid) := dot_name (ds_dict s) n path in
      let nodes' := ds_nodes s ++ [(cid, n)] in
      let edges' := match parent_id with
                    | Some p => ds_edges s ++ [(p, cid)]
                    | None => ds_edges s
                    end in
      (fix go (l : list tree) (s : dstate) : dstate :=
         match l with
         | [] => s
         | k :: r => go r (dot_go sep (Some cid) path k s)
         end) ks (DS d' nodes' edges')
  end.

Definition dot_graph (sep : str) (t : tree) : dstate :=
  dot_go sep None [] (compact t) (DS [] [] []).

(* the names bigtree computes, as passed to pydot.Node(name=..., label=...) *)
Definition dot_raw_nodes (sep : str) (t : tree) : list (str * str) := ds_nodes (dot_graph sep t).

(* What the vertex is called inside the pydot graph.  pydot.Node.__init__ (pydot 4.0.1 core.py:688-694)
   removes a "port" from the name: unless the name starts with a double quote, everything from the
   first ':' on is cut off when that ':' is neither the first nor the last character.  pydot.Edge
   keeps its end points as given (core.py:794-806).  (Known finding K5.) *)
Fixpoint find_char (c : N) (s : str) : option nat :=
  match s with
  | [] => None
  | x :: r => if N.eqb x c then Some 0 else option_map S (find_char c r)
  end.

Definition pydot_name (s : str) : str :=
  match s with
  | 34%N :: _ => s
  | _ => match find_char 58%N s with
         | Some idx => if Nat.ltb 0 idx && Nat.ltb (idx + 1) (length s) then firstn idx s else s
         | None => s
         end
  end.

Definition dot_nodes (sep : str) (t : tree) : list (str * str) :=
  map (fun x => (pydot_name (fst x), snd x)) (dot_raw_nodes sep t).
Definition dot_edges (sep : str) (t : tree) : list (str * str) := ds_edges (dot_graph sep t).

(* ---------------------------------------------------------------------------------------------- *)
(* tree_to_mermaid *)

Definition dash : str := [45%N].

(* one flow: from_ref, label of the source when the source is the root (the only place where the
   root's label is written), to_ref, label of the destination *)
Record mflow := MF { mf_from : str; mf_from_label : option str; mf_to : str; mf_to_label : str }.

(* the non-root nodes below a node with mermaid_name [pid], in pre-order (yield_tree order) *)
Fixpoint mermaid_go (pid : str) (plabel : option str) (i : nat) (t : tree) : list mflow :=
  match t with
  | T _ n _ ks =>
      let cid := pid ++ dash ++ str_of_nat i in
      MF pid plabel cid n ::
      (fix go (j : nat) (l : list tree) : list mflow :=
         match l with
         | [] => []
         | k :: r => mermaid_go cid None j k ++ go (S j) r
         end) 0 ks
  end.

Definition root_ref : str := [48%N].      (* "0" *)

Definition mermaid_flows (t : tree) : list mflow :=
  match compact t with
  | T _ n _ ks =>
      (fix go (j : nat) (l : list tree) : list mflow :=
         match l with
         | [] => []
         | k :: r => mermaid_go root_ref (Some n) j k ++ go (S j) r
         end) 0 ks
  end.

(* ("label") *)
Definition shape_rounded (label : str) : str := [40; 34]%N ++ label ++ [34; 41]%N.

(* flowchart_template with arrow " --> " *)
Definition flow_line (f : mflow) : str :=
  mf_from f ++ match mf_from_label f with Some l => shape_rounded l | None => [] end
  ++ [32; 45; 45; 62; 32]%N ++ mf_to f ++ shape_rounded (mf_to_label f).

Definition mermaid_lines (t : tree) : list str := map flow_line (mermaid_flows t).

(* the vertices a reader of the flowchart sees: the root (only when some flow starts there) and
   the destination of every flow, with their labels; and the edges *)
Definition mermaid_nodes (t : tree) : list (str * str) :=
  match mermaid_flows t with
  | [] => []
  | fs => (root_ref, tname t) :: map (fun f => (mf_to f, mf_to_label f)) fs
  end.
Definition mermaid_edges (t : tree) : list (str * str) :=
  map (fun f => (mf_from f, mf_to f)) (mermaid_flows t).

(* ---------------------------------------------------------------------------------------------- *)
(* tree_to_dot: attribute dictionaries of the vertices and edges (export.py:1277-1280, 1303-1326).
   Every call of _recursive_append starts from a fresh copy of the default style and updates it with
   the node's own custom dictionary: `node_attr` / `edge_attr` name a Node attribute holding a dict
   (used when truthy) or are callables returning one.  In this engine the two dictionaries of a node
   are stored in the tree's attribute list: key 'n' ++ k (value VStr v) for the node style entry
   k -> v, key 'e' ++ k for the edge style entry.  rankdir / bg_colour only touch the graph object. *)

(* dict.update for one item: overwrite in place, else append *)
Fixpoint sset (d : sdict) (k v : str) : sdict :=
  match d with
  | [] => [(k, v)]
  | (k', v') :: r => if str_eqb k k' then (k, v) :: r else (k', v') :: sset r k v
  end.
Definition supdate (d u : sdict) : sdict := fold_left (fun acc kv => sset acc (fst kv) (snd kv)) u d.

(* lines 1277-1280 *)
Definition node_style0 (o : dotopts) : sdict :=
  supdate (match given (do_node_colour o) with Some c => [(s_style, s_filled); (s_fillcolor, c)] | None => [] end)
          (match given (do_node_shape o) with Some s => [(s_shape, s)] | None => [] end).
Definition edge_style0 (o : dotopts) : sdict :=
  match given (do_edge_colour o) with Some c => [(s_color, c)] | None => [] end.

(* pydot.Node(name=..., label=child_label, **_node_style) *)
Definition vertex_attrs (o : dotopts) (x : tree) : sdict :=
  (s_label, tname x) :: supdate (node_style0 o) (if do_node_attr o then node_sty x else []).
Definition edge_attrs (o : dotopts) (x : tree) : sdict :=
  supdate (edge_style0 o) (if do_edge_attr o then edge_sty x else []).

(* attribute dictionaries in creation order: all nodes / all nodes but the root, in pre-order *)
Definition dot_vertex_attrs (o : dotopts) (t : tree) : list sdict := map (vertex_attrs o) (pre (compact t)).
Definition dot_edge_attrs (o : dotopts) (t : tree) : list sdict := map (edge_attrs o) (tl (pre (compact t))).
