(* Model of the graph exports, at the level of vertex ids, labels and edges:
   - bigtree/tree/export.py `tree_to_dot` (1294-1331): `_recursive_append` with the dictionary
     `name_dict : label -> list of path names`; vertex id = label ++ str(index of the node's path
     name in name_dict[label]); one edge parent id -> child id.  Of pydot only the way Node() stores
     its name is modelled (`pydot_name`); styling is not.
   - `tree_to_mermaid` (1639-1729): `MermaidNode.mermaid_name` ("0" for the root, otherwise
     parent's name ++ "-" ++ index among the parent's children) and one flow line per non-root node
     in pre-order (default node shape `("label")`, default arrow `-->`, no edge labels / styles).
   Both start from `tree.root` and skip empty BinaryNode slots (`if child:`; `clone_tree`), i.e.
   they see `compact t` (Algo/Render.v).  No proofs in this file. *)
From BT Require Import Base.Prelude Base.Str Base.Rose Algo.Render.

(* ---------------------------------------------------------------------------------------------- *)
(* tree_to_dot *)

(* collections.defaultdict(list), keys compared as strings, insertion order irrelevant *)
Definition ndict := list (str * list str).

Fixpoint dget (d : ndict) (k : str) : list str :=
  match d with
  | [] => []
  | (k', v) :: r => if str_eqb k k' then v else dget r k
  end.

Fixpoint dset (d : ndict) (k : str) (v : list str) : ndict :=
  match d with
  | [] => [(k, v)]
  | (k', v') :: r => if str_eqb k k' then (k, v) :: r else (k', v') :: dset r k v
  end.

Definition mem_str (x : str) (l : list str) : bool := existsb (str_eqb x) l.

(* list.index(x); length l when absent (ValueError in Python; never happens after the append) *)
Fixpoint index_str (x : str) (l : list str) : nat :=
  match l with [] => 0 | y :: r => if str_eqb x y then 0 else S (index_str x r) end.

Record dstate := DS { ds_dict : ndict;
                      ds_nodes : list (str * str);       (* (vertex id, label), in creation order *)
                      ds_edges : list (str * str) }.     (* (source id, destination id)           *)

(* lines 1307-1312: the vertex id of a node with this label and path name, and the new dictionary *)
Definition dot_name (d : ndict) (label path : str) : ndict * str :=
  let l := dget d label in
  let l' := if mem_str path l then l else l ++ [path] in
  (dset d label l', label ++ str_of_nat (index_str path l')).

(* _recursive_append(parent_name, child_node); [ppath] = path_name of the parent ("" above the root),
   node.py:113-121: path_name = sep + sep.join(names from the root) *)
Fixpoint dot_go (sep : str) (parent_id : option str) (ppath : str) (t : tree) (s : dstate) : dstate :=
  match t with
  | T _ n _ ks =>
      let path := ppath ++ sep ++ n in
      let (d', cid) := dot_name (ds_dict s) n path in
      let nodes' := ds_nodes s ++ [(cid, n)] in
      let edges' := match parent_id with
                    | Some p => ds_edges s ++ [(p, cid)]
                    | None => ds_edges s
                    end in
      (fix go (l : list tree) (s : dstate) : dstate :=
         match l with
         | [] => s
         | k :: r => go r (dot_go sep (Some cid) path k s)
         end) ks (DS d' nodes' edges')
  end.

Definition dot_graph (sep : str) (t : tree) : dstate :=
  dot_go sep None [] (compact t) (DS [] [] []).

(* the names bigtree computes, as passed to pydot.Node(name=..., label=...) *)
Definition dot_raw_nodes (sep : str) (t : tree) : list (str * str) := ds_nodes (dot_graph sep t).

(* What the vertex is called inside the pydot graph.  pydot.Node.__init__ (pydot 4.0.1 core.py:688-694)
   removes a "port" from the name: unless the name starts with a double quote, everything from the
   first ':' on is cut off when that ':' is neither the first nor the last character.  pydot.Edge
   keeps its end points as given (core.py:794-806).  (Known finding K5.) *)
Fixpoint find_char (c : N) (s : str) : option nat :=
  match s with
  | [] => None
  | x :: r => if N.eqb x c then Some 0 else option_map S (find_char c r)
  end.

Definition pydot_name (s : str) : str :=
  match s with
  | 34%N :: _ => s
  | _ => match find_char 58%N s with
         | Some idx => if Nat.ltb 0 idx && Nat.ltb (idx + 1) (length s) then firstn idx s else s
         | None => s
         end
  end.

Definition dot_nodes (sep : str) (t : tree) : list (str * str) :=
  map (fun x => (pydot_name (fst x), snd x)) (dot_raw_nodes sep t).
Definition dot_edges (sep : str) (t : tree) : list (str * str) := ds_edges (dot_graph sep t).

(* ---------------------------------------------------------------------------------------------- *)
(* tree_to_mermaid *)

Definition dash : str := [45%N].

(* one flow: from_ref, label of the source when the source is the root (the only place where the
   root's label is written), to_ref, label of the destination *)
Record mflow := MF { mf_from : str; mf_from_label : option str; mf_to : str; mf_to_label : str }.

(* the non-root nodes below a node with mermaid_name [pid], in pre-order (yield_tree order) *)
Fixpoint mermaid_go (pid : str) (plabel : option str) (i : nat) (t : tree) : list mflow :=
  match t with
  | T _ n _ ks =>
      let cid := pid ++ dash ++ str_of_nat i in
      MF pid plabel cid n ::
      (fix go (j : nat) (l : list tree) : list mflow :=
         match l with
         | [] => []
         | k :: r => mermaid_go cid None j k ++ go (S j) r
         end) 0 ks
  end.

Definition root_ref : str := [48%N].      (* "0" *)

Definition mermaid_flows (t : tree) : list mflow :=
  match compact t with
  | T _ n _ ks =>
      (fix go (j : nat) (l : list tree) : list mflow :=
         match l with
         | [] => []
         | k :: r => mermaid_go root_ref (Some n) j k ++ go (S j) r
         end) 0 ks
  end.

(* ("label") *)
Definition shape_rounded (label : str) : str := [40; 34]%N ++ label ++ [34; 41]%N.

(* flowchart_template with arrow " --> " *)
Definition flow_line (f : mflow) : str :=
  mf_from f ++ match mf_from_label f with Some l => shape_rounded l | None => [] end
  ++ [32; 45; 45; 62; 32]%N ++ mf_to f ++ shape_rounded (mf_to_label f).

Definition mermaid_lines (t : tree) : list str := map flow_line (mermaid_flows t).

(* the vertices a reader of the flowchart sees: the root (only when some flow starts there) and
   the destination of every flow, with their labels; and the edges *)
Definition mermaid_nodes (t : tree) : list (str * str) :=
  match mermaid_flows t with
  | [] => []
  | fs => (root_ref, tname t) :: map (fun f => (mf_to f, mf_to_label f)) fs
  end.
Definition mermaid_edges (t : tree) : list (str * str) :=
  map (fun f => (mf_from f, mf_to f)) (mermaid_flows t).

(* ---------------------------------------------------------------------------------------------- *)
(* tree_to_dot: attribute dictionaries of the vertices and edges (export.py:1277-1280, 1303-1326).
   Every call of _recursive_append starts from a fresh copy of the default style and updates it with
   the node's own custom dictionary: `node_attr` / `edge_attr` name a Node attribute holding a dict
   (used when truthy) or are callables returning one.  In this engine the two dictionaries of a node
   are stored in the tree's attribute list: key 'n' ++ k (value VStr v) for the node style entry
   k -> v, key 'e' ++ k for the edge style entry.  rankdir / bg_colour only touch the graph object. *)

(* dict.update for one item: overwrite in place, else append *)
Fixpoint sset (d : sdict) (k v : str) : sdict :=
  match d with
  | [] => [(k, v)]
  | (k', v') :: r => if str_eqb k k' then (k, v) :: r else (k', v') :: sset r k v
  end.
Definition supdate (d u : sdict) : sdict := fold_left (fun acc kv => sset acc (fst kv) (snd kv)) u d.

(* lines 1277-1280 *)
Definition node_style0 (o : dotopts) : sdict :=
  supdate (match given (do_node_colour o) with Some c => [(s_style, s_filled); (s_fillcolor, c)] | None => [] end)
          (match given (do_node_shape o) with Some s => [(s_shape, s)] | None => [] end).
Definition edge_style0 (o : dotopts) : sdict :=
  match given (do_edge_colour o) with Some c => [(s_color, c)] | None => [] end.

(* pydot.Node(name=..., label=child_label, **_node_style) *)
Definition vertex_attrs (o : dotopts) (x : tree) : sdict :=
  (s_label, tname x) :: supdate (node_style0 o) (if do_node_attr o then node_sty x else []).
Definition edge_attrs (o : dotopts) (x : tree) : sdict :=
  supdate (edge_style0 o) (if do_edge_attr o then edge_sty x else []).

(* attribute dictionaries in creation order: all nodes / all nodes but the root, in pre-order *)
Definition dot_vertex_attrs (o : dotopts) (t : tree) : list sdict := map (vertex_attrs o) (pre (compact t)).
Definition dot_edge_attrs (o : dotopts) (t : tree) : list sdict := map (edge_attrs o) (tl (pre (compact t))).

(* ---------------------------------------------------------------------------------------------- *)
(* tree_to_mermaid with its options (export.py:1575-1737): node shape / edge arrow given for the whole
   chart or per node through an attribute (`node_shape_attr`, `edge_arrow_attr`: attribute name or
   callable), edge labels from the attribute named by `edge_label`, per-node style classes from
   `node_attr`; **kwargs (node_name_or_path, max_depth) go to yield_tree on the cloned tree.  The
   per-node values are the scalar attributes shape / arrow / lbl / sty of the node (Algo/Render.v
   `scalar_attrs`).  title, rankdir, line_shape and the default colours only appear in the header and
   in the classDef lines, which are not modelled. *)

(* constants.py MermaidConstants.NODE_SHAPES: text before and after "label" *)
Definition node_shapes : list (str * (str * str)) :=
  [
    ([114; 111; 117; 110; 100; 101; 100; 95; 101; 100; 103; 101]%N, ([40]%N, [41]%N));
    ([115; 116; 97; 100; 105; 117; 109]%N, ([40; 91]%N, [93; 41]%N));
    ([115; 117; 98; 114; 111; 117; 116; 105; 110; 101]%N, ([91; 91]%N, [93; 93]%N));
    ([99; 121; 108; 105; 110; 100; 114; 105; 99; 97; 108]%N, ([91; 40]%N, [41; 93]%N));
    ([99; 105; 114; 99; 108; 101]%N, ([40; 40]%N, [41; 41]%N));
    ([97; 115; 121; 109; 109; 101; 116; 114; 105; 99]%N, ([62]%N, [93]%N));
    ([114; 104; 111; 109; 98; 117; 115]%N, ([123]%N, [125]%N));
    ([104; 101; 120; 97; 103; 111; 110]%N, ([123; 123]%N, [125; 125]%N));
    ([112; 97; 114; 97; 108; 108; 101; 108; 111; 103; 114; 97; 109]%N, ([91; 47]%N, [47; 93]%N));
    ([112; 97; 114; 97; 108; 108; 101; 108; 111; 103; 114; 97; 109; 95; 97; 108; 116]%N, ([91; 92]%N, [92; 93]%N));
    ([116; 114; 97; 112; 101; 122; 111; 105; 100]%N, ([91; 47]%N, [92; 93]%N));
    ([116; 114; 97; 112; 101; 122; 111; 105; 100; 95; 97; 108; 116]%N, ([91; 92]%N, [47; 93]%N));
    ([100; 111; 117; 98; 108; 101; 95; 99; 105; 114; 99; 108; 101]%N, ([40; 40; 40]%N, [41; 41; 41]%N))
  ].
(* MermaidConstants.EDGE_ARROWS *)
Definition edge_arrows : list (str * str) :=
  [
    ([110; 111; 114; 109; 97; 108]%N, [45; 45; 62]%N);
    ([98; 111; 108; 100]%N, [61; 61; 62]%N);
    ([100; 111; 116; 116; 101; 100]%N, [45; 46; 45; 62]%N);
    ([111; 112; 101; 110]%N, [45; 45; 45]%N);
    ([98; 111; 108; 100; 95; 111; 112; 101; 110]%N, [61; 61; 61]%N);
    ([100; 111; 116; 116; 101; 100; 95; 111; 112; 101; 110]%N, [45; 46; 45]%N);
    ([105; 110; 118; 105; 115; 105; 98; 108; 101]%N, [126; 126; 126]%N);
    ([99; 105; 114; 99; 108; 101]%N, [45; 45; 111]%N);
    ([99; 114; 111; 115; 115]%N, [45; 45; 120]%N);
    ([100; 111; 117; 98; 108; 101; 95; 110; 111; 114; 109; 97; 108]%N, [60; 45; 45; 62]%N);
    ([100; 111; 117; 98; 108; 101; 95; 99; 105; 114; 99; 108; 101]%N, [111; 45; 45; 111]%N);
    ([100; 111; 117; 98; 108; 101; 95; 99; 114; 111; 115; 115]%N, [120; 45; 45; 120]%N)
  ].

Fixpoint alookup {A} (k : str) (d : list (str * A)) : option A :=
  match d with [] => None | (k', v) :: r => if str_eqb k k' then Some v else alookup k r end.

Record mopts := MO { mo_shape : str; mo_shape_attr : bool; mo_arrow : str; mo_arrow_attr : bool;
                     mo_label : bool; mo_node_attr : bool }.
Definition mo_default : mopts :=
  MO [114;111;117;110;100;101;100;95;101;100;103;101]%N false [110;111;114;109;97;108]%N false false false.

Definition k_shape : str := [115; 104; 97; 112; 101]%N.
Definition k_arrow : str := [97; 114; 114; 111; 119]%N.
Definition k_lbl : str := [108; 98; 108]%N.
Definition k_sty : str := [115; 116; 121]%N.

(* _get_attr(node, attr, default) for a string-valued attribute *)
Definition sattr (t : tree) (k : str) : option str :=
  match vlookup k (scalar_attrs t) with Some (VStr s) => Some s | _ => None end.
Definition sattr_or (t : tree) (k : str) (d : str) : str := match sattr t k with Some s => s | None => d end.

Definition shaped (o : mopts) (t : tree) : str :=
  let key := if mo_shape_attr o then sattr_or t k_shape (mo_shape o) else mo_shape o in
  match alookup key node_shapes with
  | Some (a, b) => a ++ [34%N] ++ tname t ++ [34%N] ++ b
  | None => []                              (* KeyError; not generated *)
  end.
Definition arrow_of (o : mopts) (t : tree) : str :=
  let key := if mo_arrow_attr o then sattr_or t k_arrow (mo_arrow o) else mo_arrow o in
  match alookup key edge_arrows with Some a => a | None => [] end.
(* a label is written when the attribute is truthy *)
Definition elabel_of (o : mopts) (t : tree) : option str :=
  if mo_label o then match sattr t k_lbl with Some [] => None | x => x end else None.
Definition styled (o : mopts) (t : tree) : bool :=
  mo_node_attr o && match sattr t k_sty with Some [] | None => false | Some _ => true end.

Definition class_ref (ref : str) : str := [58; 58; 58; 99; 108; 97; 115; 115]%N ++ ref.   (* :::class<ref> *)

(* one flow with everything written on its line except the root's style class *)
Record mflowx := MX { mx_from : str; mx_from_name : str; mx_arrow : str; mx_label : option str;
                      mx_to : str; mx_to_label : str; mx_to_name : str; mx_to_class : bool }.

Fixpoint mgo_opt (o : mopts) (pid pname : str) (i : nat) (t : tree) : list mflowx :=
  match t with
  | T _ n _ ks =>
      let cid := pid ++ dash ++ str_of_nat i in
      MX pid pname (arrow_of o t) (elabel_of o t) cid n (shaped o t) (styled o t) ::
      (fix go (j : nat) (l : list tree) : list mflowx :=
         match l with
         | [] => []
         | k :: r => mgo_opt o cid [] j k ++ go (S j) r
         end) 0 ks
  end.

Definition mermaid_flows_opt (o : mopts) (t : tree) : list mflowx :=
  match t with
  | T _ _ _ ks =>
      (fix go (j : nat) (l : list tree) : list mflowx :=
         match l with
         | [] => []
         | k :: r => mgo_opt o root_ref (shaped o t) j k ++ go (S j) r
         end) 0 ks
  end.

Definition flowx_line (from_style : str) (f : mflowx) : str :=
  mx_from f ++ mx_from_name f ++ from_style ++ [32%N] ++ mx_arrow f
  ++ match mx_label f with Some l => [124%N] ++ l ++ [124%N] | None => [] end
  ++ [32%N] ++ mx_to f ++ mx_to_name f ++ (if mx_to_class f then class_ref (mx_to f) else []).

(* the root's class is attached to the first flow only (`len(styles) < 2`, export.py:1690) *)
Definition mermaid_lines_opt (o : mopts) (t : tree) : list str :=
  match mermaid_flows_opt o t with
  | [] => []
  | f :: r => flowx_line (if styled o t then class_ref root_ref else []) f :: map (flowx_line []) r
  end.

(* tree_to_mermaid(tree, <options>, node_name_or_path -> start, max_depth): clone_tree copies the
   existing nodes of the whole tree, yield_tree then selects and cuts *)
Definition mermaid_call (o : mopts) (t : tree) (start : pos) (max_depth : nat) : res (list mflowx * list str) :=
  match get_subtree t start max_depth with
  | Some s => Ret (mermaid_flows_opt o (compact s), mermaid_lines_opt o (compact s))
  | None => Raise ValueError
  end.

(* ---------------------------------------------------------------------------------------------- *)
(* tree_to_dot with a list of trees: `name_dict` is created anew for every tree (export.py:1294),
   vertices and edges accumulate in the one graph *)
Fixpoint dot_forest_go (sep : str) (ts : list tree) (s : dstate) : dstate :=
  match ts with
  | [] => s
  | t :: r => let s1 := dot_go sep None [] (compact t) (DS [] (ds_nodes s) (ds_edges s)) in
              dot_forest_go sep r s1
  end.
Definition dot_forest_nodes (sep : str) (ts : list tree) : list (str * str) :=
  map (fun x => (pydot_name (fst x), snd x)) (ds_nodes (dot_forest_go sep ts (DS [] [] []))).
Definition dot_forest_edges (sep : str) (ts : list tree) : list (str * str) :=
  ds_edges (dot_forest_go sep ts (DS [] [] [])).
Definition dot_forest_vertex_attrs (o : dotopts) (ts : list tree) : list sdict := flat_map (dot_vertex_attrs o) ts.
Definition dot_forest_edge_attrs (o : dotopts) (ts : list tree) : list sdict := flat_map (dot_edge_attrs o) ts.
