(* Proofs about the model of the path-based constructors (Algo/Construct.v) for C05. *)
From Coq Require Import Permutation.
From BT Require Import Base.Prelude Base.Str Base.StrSep Base.Rose Algo.Construct Spec.PC05.

(* ======================================================================================== *)
(* 1. list / position plumbing                                                               *)

Lemma upd_nth_ext {A} (f g : A -> A) i l :
  (forall x, f x = g x) -> upd_nth i f l = upd_nth i g l.
Proof.
  intros E. revert i; induction l as [|x l IH]; intros [|i]; cbn; try reflexivity.
  - now rewrite E.
  - now rewrite IH.
Qed.

Lemma upd_nth_ext_at {A} (f g : A -> A) i l k :
  nth_error l i = Some k -> f k = g k -> upd_nth i f l = upd_nth i g l.
Proof.
  revert i; induction l as [|x l IH]; intros [|i] H E; cbn in *; try discriminate.
  - inversion H; subst. now rewrite E.
  - f_equal. now apply IH.
Qed.

Lemma upd_nth_id {A} (f : A -> A) i l k :
  nth_error l i = Some k -> f k = k -> upd_nth i f l = l.
Proof.
  revert i; induction l as [|x l IH]; intros [|i] H E; cbn in *; try discriminate.
  - inversion H; subst. now rewrite E.
  - f_equal. now apply IH.
Qed.

Lemma upd_nth_comp {A} (f g : A -> A) i l :
  upd_nth i f (upd_nth i g l) = upd_nth i (fun x => f (g x)) l.
Proof. revert i; induction l as [|x l IH]; intros [|i]; cbn; try reflexivity. now rewrite IH. Qed.

Lemma nth_error_upd_nth {A} (f : A -> A) i l :
  nth_error (upd_nth i f l) i = option_map f (nth_error l i).
Proof. revert i; induction l as [|x l IH]; intros [|i]; cbn; try reflexivity. apply IH. Qed.

Lemma nth_error_upd_nth_other {A} (f : A -> A) i j l :
  i <> j -> nth_error (upd_nth i f l) j = nth_error l j.
Proof.
  revert i j; induction l as [|x l IH]; intros [|i] [|j] H; cbn; try reflexivity.
  - congruence.
  - apply IH. congruence.
Qed.

Lemma upd_nth_length {A} (f : A -> A) i l : length (upd_nth i f l) = length l.
Proof. revert i; induction l as [|x l IH]; intros [|i]; cbn; try reflexivity. now rewrite IH. Qed.

Lemma upd_nth_app_last {A} (f : A -> A) l c : upd_nth (length l) f (l ++ [c]) = l ++ [f c].
Proof. induction l as [|x l IH]; cbn; [reflexivity|]. now rewrite IH. Qed.

Lemma map_upd_nth {A B} (h : A -> B) (f : A -> A) i l :
  (forall k, nth_error l i = Some k -> h (f k) = h k) -> map h (upd_nth i f l) = map h l.
Proof.
  revert i; induction l as [|x l IH]; intros [|i] H; cbn; try reflexivity.
  - now rewrite H.
  - f_equal. apply IH. exact H.
Qed.

Lemma upd_at_cons i p f g n a ks :
  upd_at (i :: p) f (T g n a ks) = T g n a (upd_nth i (upd_at p f) ks).
Proof. reflexivity. Qed.

Lemma upd_at_app p q f t : upd_at (p ++ q) f t = upd_at p (upd_at q f) t.
Proof.
  revert t; induction p as [|i p IH]; intros t; [reflexivity|].
  destruct t as [g n a ks]. cbn [app]. rewrite !upd_at_cons. f_equal.
  apply upd_nth_ext. intros x. apply IH.
Qed.

Lemma upd_at_comp p f h t : upd_at p f (upd_at p h t) = upd_at p (fun x => f (h x)) t.
Proof.
  revert t; induction p as [|i p IH]; intros t; [reflexivity|].
  destruct t as [g n a ks]. rewrite !upd_at_cons. f_equal.
  rewrite upd_nth_comp. apply upd_nth_ext. intros x. apply IH.
Qed.

Lemma upd_at_ext_at p f h t pt :
  subtree_at t p = Some pt -> f pt = h pt -> upd_at p f t = upd_at p h t.
Proof.
  revert t; induction p as [|i p IH]; intros t H E; cbn in H.
  - inversion H; subst. exact E.
  - destruct t as [g n a ks]. cbn [tkids] in H. rewrite !upd_at_cons. f_equal.
    destruct (nth_error ks i) as [k|] eqn:Hk; [|discriminate].
    eapply upd_nth_ext_at; [exact Hk|]. now apply IH.
Qed.

Lemma upd_at_id p t pt : subtree_at t p = Some pt -> upd_at p (fun _ => pt) t = t.
Proof.
  revert t; induction p as [|i p IH]; intros t H; cbn in H.
  - inversion H; subst. reflexivity.
  - destruct t as [g n a ks]. cbn [tkids] in H. rewrite upd_at_cons. f_equal.
    destruct (nth_error ks i) as [k|] eqn:Hk; [|discriminate].
    eapply upd_nth_id; [exact Hk|]. now apply IH.
Qed.

Lemma subtree_upd_at p f t pt :
  subtree_at t p = Some pt -> subtree_at (upd_at p f t) p = Some (f pt).
Proof.
  revert t; induction p as [|i p IH]; intros t H; cbn in H.
  - inversion H; subst. reflexivity.
  - destruct t as [g n a ks]. cbn [tkids] in H. rewrite upd_at_cons. cbn [subtree_at tkids].
    rewrite nth_error_upd_nth.
    destruct (nth_error ks i) as [k|] eqn:Hk; [|discriminate]. cbn. now apply IH.
Qed.

Lemma subtree_at_app t p q :
  subtree_at t (p ++ q) = match subtree_at t p with Some s => subtree_at s q | None => None end.
Proof.
  revert t; induction p as [|i p IH]; intros t; [reflexivity|].
  cbn. destruct (nth_error (tkids t) i); [apply IH|reflexivity].
Qed.

(* ======================================================================================== *)
(* 2. find_idx                                                                                *)

Lemma find_idx_spec n s ks i :
  In i (find_idx n s ks) ->
  s <= i /\ exists k, nth_error ks (i - s) = Some k /\ tname k = n.
Proof.
  revert s; induction ks as [|k ks IH]; intros s H; cbn in H; [contradiction|].
  apply in_app_or in H as [H|H].
  - destruct (str_eqb (tname k) n) eqn:E; [|contradiction].
    destruct H as [<-|[]]. split; [lia|]. exists k. rewrite Nat.sub_diag. split; [reflexivity|].
    now apply str_eqb_eq.
  - apply IH in H as [Hle (k' & Hk & Hn)]. split; [lia|]. exists k'. split; [|exact Hn].
    replace (i - s) with (S (i - S s)) by lia. exact Hk.
Qed.

Lemma find_idx_nil n s ks :
  find_idx n s ks = [] -> ~ In n (map tname ks).
Proof.
  revert s; induction ks as [|k ks IH]; intros s H; cbn in *; [tauto|].
  destruct (str_eqb (tname k) n) eqn:E; cbn in H; [discriminate|].
  intros [Hk|Hk].
  - subst. rewrite str_eqb_refl in E. discriminate.
  - eapply IH; eauto.
Qed.

Lemma find_idx_complete n s ks j k :
  nth_error ks j = Some k -> tname k = n -> In (s + j) (find_idx n s ks).
Proof.
  revert s j; induction ks as [|x ks IH]; intros s [|j] H E; cbn in H; try discriminate.
  - inversion H; subst. cbn. rewrite str_eqb_refl. left. lia.
  - cbn. apply in_or_app. right. replace (s + S j) with (S s + j) by lia. now apply IH.
Qed.

(* with distinct sibling names at most one index is found *)
Lemma find_idx_nodup n s ks :
  NoDup (map tname ks) -> length (find_idx n s ks) <= 1.
Proof.
  revert s; induction ks as [|k ks IH]; intros s H; cbn; [lia|].
  inversion H as [|? ? Hn Hr]; subst.
  destruct (str_eqb (tname k) n) eqn:E; cbn.
  - apply str_eqb_eq in E. subst.
    destruct (find_idx (tname k) (S s) ks) as [|i r] eqn:F; [cbn; lia|].
    exfalso. assert (Hi : In i (find_idx (tname k) (S s) ks)) by (rewrite F; now left).
    apply find_idx_spec in Hi as [_ (k' & Hk' & Hnm)].
    apply Hn. rewrite <- Hnm. apply in_map. eapply nth_error_In; eauto.
  - now apply IH.
Qed.

(* ======================================================================================== *)
(* 3. the loop of add_path_to_tree (duplicate names allowed) as a structural recursion        *)

Definition map_res {A B} (f : A -> B) (r : res A) : res B :=
  match r with Ret a => Ret (f a) | Raise e => Raise e end.

(* descend from t along `rest`, creating what is missing; position relative to t *)
Fixpoint ins (rest : list str) (na : attrs) (t : tree) : tree * res pos :=
  match rest with
  | [] => (t, Ret [])
  | nm :: rest' =>
      match find_idx nm 0 (tkids t) with
      | [] =>
          if is_nil nm then (t, Raise TreeError) else
          let c := T None nm (if is_nil rest' then set_attrs [] na else []) [] in
          let r := ins rest' na c in
          (add_kid (fst r) t, map_res (cons (length (tkids t))) (snd r))
      | [i] =>
          match nth_error (tkids t) i with
          | Some k => let r := ins rest' na k in
                      (upd_at [i] (fun _ => fst r) t, map_res (cons i) (snd r))
          | None => (t, Raise Unmodelled)
          end
      | _ => (t, Raise SearchError)
      end
  end.

Lemma map_res_app parent (r : res pos) x :
  map_res (app (parent ++ [x])) r = map_res (app parent) (map_res (cons x) r).
Proof. destruct r; cbn; [|reflexivity]. now rewrite <- app_assoc. Qed.

Lemma grow_ins rest : forall tsep t parent pt done na,
  subtree_at t parent = Some pt ->
  grow tsep true t parent done rest na =
  (upd_at parent (fun _ => fst (ins rest na pt)) t, map_res (app parent) (snd (ins rest na pt))).
Proof.
  induction rest as [|nm rest IH]; intros tsep t parent pt done na H.
  - cbn. rewrite (upd_at_id _ _ _ H), app_nil_r. reflexivity.
  - cbn [grow ins]. unfold grow_step. rewrite H.
    destruct (find_idx nm 0 (tkids pt)) as [|i [|j r]] eqn:F.
    + destruct (is_nil nm) eqn:En.
      * cbn. now rewrite (upd_at_id _ _ _ H).
      * set (c := T None nm (if is_nil rest then set_attrs [] na else []) []).
        assert (H1 : subtree_at (upd_at parent (add_kid c) t) (parent ++ [length (tkids pt)]) = Some c).
        { rewrite subtree_at_app, (subtree_upd_at _ _ _ _ H). destruct pt as [g n a ks]. cbn.
          rewrite nth_error_app2, Nat.sub_diag by lia. reflexivity. }
        rewrite (IH tsep _ _ _ (done ++ [nm]) na H1). cbn [fst snd].
        rewrite map_res_app. f_equal.
        rewrite upd_at_app, upd_at_comp.
        eapply upd_at_ext_at; [exact H|].
        destruct pt as [g n a ks]. cbn. now rewrite upd_nth_app_last.
    + assert (Hi : In i (find_idx nm 0 (tkids pt))) by (rewrite F; now left).
      apply find_idx_spec in Hi as [_ (k & Hk & _)]. rewrite Nat.sub_0_r in Hk.
      rewrite Hk.
      assert (H1 : subtree_at t (parent ++ [i]) = Some k).
      { rewrite subtree_at_app, H. cbn. now rewrite Hk. }
      rewrite (IH tsep _ _ _ (done ++ [nm]) na H1). cbn [fst snd].
      rewrite map_res_app. f_equal.
      rewrite upd_at_app. eapply upd_at_ext_at; [exact H|]. reflexivity.
    + cbn. now rewrite (upd_at_id _ _ _ H).
Qed.

Corollary grow_ins_root rest tsep t done na :
  grow tsep true t [] done rest na = ins rest na t.
Proof.
  rewrite (grow_ins rest tsep t [] t done na eq_refl). cbn.
  destruct (ins rest na t) as [t' [p|e]]; reflexivity.
Qed.

(* ======================================================================================== *)
(* 4. well-formedness: sibling names are distinct                                             *)

Inductive sib_ok : tree -> Prop :=
| sib_ok_T g n a ks : NoDup (map tname ks) -> Forall sib_ok ks -> sib_ok (T g n a ks).

Lemma sib_ok_kids t : sib_ok t -> NoDup (map tname (tkids t)) /\ Forall sib_ok (tkids t).
Proof. intros H. inversion H; subst. cbn. split; assumption. Qed.

Lemma Forall_upd_nth {A} (P : A -> Prop) f i l :
  Forall P l -> (forall k, nth_error l i = Some k -> P (f k)) -> Forall P (upd_nth i f l).
Proof.
  revert i; induction l as [|x l IH]; intros [|i] H Hf; cbn; try assumption; inversion H; subst.
  - constructor; [apply Hf; reflexivity|assumption].
  - constructor; [assumption|apply IH; assumption].
Qed.

Lemma ins_tname rest na t : tname (fst (ins rest na t)) = tname t.
Proof.
  destruct rest as [|nm rest]; [reflexivity|]. cbn [ins].
  destruct (find_idx nm 0 (tkids t)) as [|i [|j r]]; try reflexivity.
  - destruct (is_nil nm); [reflexivity|]. destruct t; reflexivity.
  - destruct (nth_error (tkids t) i); [|reflexivity]. destruct t; reflexivity.
Qed.

Lemma ins_ttag rest na t : ttag (fst (ins rest na t)) = ttag t.
Proof.
  destruct rest as [|nm rest]; [reflexivity|]. cbn [ins].
  destruct (find_idx nm 0 (tkids t)) as [|i [|j r]]; try reflexivity.
  - destruct (is_nil nm); [reflexivity|]. destruct t; reflexivity.
  - destruct (nth_error (tkids t) i); [|reflexivity]. destruct t; reflexivity.
Qed.

Lemma ins_tattrs rest na t : tattrs (fst (ins rest na t)) = tattrs t.
Proof.
  destruct rest as [|nm rest]; [reflexivity|]. cbn [ins].
  destruct (find_idx nm 0 (tkids t)) as [|i [|j r]]; try reflexivity.
  - destruct (is_nil nm); [reflexivity|]. destruct t; reflexivity.
  - destruct (nth_error (tkids t) i); [|reflexivity]. destruct t; reflexivity.
Qed.

Lemma ins_sib_ok rest na : forall t, sib_ok t -> sib_ok (fst (ins rest na t)).
Proof.
  induction rest as [|nm rest IH]; intros t H; [exact H|]. cbn [ins].
  destruct (find_idx nm 0 (tkids t)) as [|i [|j r]] eqn:F; try exact H.
  - destruct (is_nil nm); [exact H|]. cbn [fst].
    destruct t as [g n a ks]. cbn [add_kid tkids] in *.
    apply sib_ok_kids in H as [Hn Hf]. cbn [tkids] in *.
    constructor.
    + rewrite map_app. cbn. rewrite ins_tname. cbn.
      apply find_idx_nil in F.
      assert (Hp : NoDup (nm :: map tname ks)) by (constructor; assumption).
      eapply Permutation_NoDup; [|exact Hp].
      apply Permutation_cons_append.
    + apply Forall_app. split; [assumption|]. constructor; [|constructor].
      apply IH. constructor; constructor.
  - destruct (nth_error (tkids t) i) as [k|] eqn:Hk; [|exact H]. cbn [fst].
    destruct t as [g n a ks]. cbn [tkids] in *. rewrite upd_at_cons. cbn [upd_at].
    apply sib_ok_kids in H as [Hn Hf]. cbn [tkids] in *.
    constructor.
    + rewrite map_upd_nth; [assumption|]. intros k' Hk'. rewrite Hk in Hk'. inversion Hk'; subst.
      apply ins_tname.
    + apply Forall_upd_nth; [assumption|]. intros k' Hk'. rewrite Hk in Hk'. inversion Hk'; subst.
      apply IH. rewrite Forall_forall in Hf. apply Hf. eapply nth_error_In; eauto.
Qed.

(* under sib_ok the only possible failure is an empty component *)
Lemma ins_ok rest na : forall t,
  sib_ok t -> Forall (fun c => c <> []) rest -> exists p, snd (ins rest na t) = Ret p.
Proof.
  induction rest as [|nm rest IH]; intros t H Hne; [now exists []|]. cbn [ins].
  inversion Hne as [|? ? Hnm Hrest]; subst.
  pose proof (sib_ok_kids _ H) as [Hn Hf].
  pose proof (find_idx_nodup nm 0 _ Hn) as Hl.
  destruct (find_idx nm 0 (tkids t)) as [|i [|j r]] eqn:F.
  - destruct nm as [|c nm]; [congruence|]. cbn [is_nil snd].
    match goal with |- context [ins rest na ?c0] =>
      destruct (IH c0) as [p Hp]; [constructor; constructor|exact Hrest|] end.
    rewrite Hp. cbn. eauto.
  - assert (Hi : In i (find_idx nm 0 (tkids t))) by (rewrite F; now left).
    apply find_idx_spec in Hi as [_ (k & Hk & _)]. rewrite Nat.sub_0_r in Hk. rewrite Hk. cbn [snd].
    edestruct (IH k) as [p Hp]; [|exact Hrest|].
    + rewrite Forall_forall in Hf. apply Hf. eapply nth_error_In; eauto.
    + rewrite Hp. cbn. eauto.
  - cbn in Hl. lia.
Qed.

(* ======================================================================================== *)
(* 5. what `ins` does to the path set                                                         *)

Lemma paths_from_unfold pre g n a ks :
  paths_from pre (T g n a ks) = (pre ++ [n]) :: flat_map (paths_from (pre ++ [n])) ks.
Proof. reflexivity. Qed.

Lemma paths_from_head pre t : In (pre ++ [tname t]) (paths_from pre t).
Proof. destruct t. rewrite paths_from_unfold. now left. Qed.

Lemma prefixes_cons x r : prefixes (x :: r) = [x] :: map (cons x) (prefixes r).
Proof. reflexivity. Qed.

Lemma map_app_cons (pre : list str) n (L : list (list str)) :
  map (app pre) (map (cons n) L) = map (app (pre ++ [n])) L.
Proof. rewrite map_map. apply map_ext. intros x. now rewrite <- app_assoc. Qed.

Lemma flat_map_upd_nth_in {A B} (F : A -> list B) i ks k k' q :
  nth_error ks i = Some k -> (forall x, In x (F k) -> In x (F k')) ->
  (In q (flat_map F (upd_nth i (fun _ => k') ks)) <-> In q (flat_map F ks) \/ In q (F k')).
Proof.
  revert i; induction ks as [|x ks IH]; intros [|i] H Hsub; cbn in H; try discriminate.
  - inversion H; subst. cbn. rewrite !in_app_iff. split; [tauto|]. intros [[Hq|Hq]|Hq]; auto.
  - cbn. rewrite !in_app_iff, (IH i H Hsub). tauto.
Qed.

Lemma flat_map_upd_nth_eq {A B} (F : A -> list B) f i l :
  (forall k, F (f k) = F k) -> flat_map F (upd_nth i f l) = flat_map F l.
Proof.
  intros E. revert i; induction l as [|x l IH]; intros [|i]; cbn; try reflexivity.
  - now rewrite E.
  - now rewrite IH.
Qed.

Lemma ins_paths rest na : forall t pre p q,
  snd (ins rest na t) = Ret p ->
  (In q (paths_from pre (fst (ins rest na t))) <->
   In q (paths_from pre t) \/ In q (map (app pre) (prefixes (tname t :: rest)))).
Proof.
  induction rest as [|nm rest IH]; intros t pre p q Hok.
  - cbn [ins fst]. cbn. split; [auto|]. intros [H|[<-|[]]]; [exact H|apply paths_from_head].
  - cbn [ins] in *.
    destruct (find_idx nm 0 (tkids t)) as [|i [|j r]] eqn:F; cbn [fst snd] in *; try discriminate.
    + destruct (is_nil nm); [discriminate|]. cbn [fst snd] in *.
      set (c := T None nm (if is_nil rest then set_attrs [] na else []) []) in *.
      destruct (snd (ins rest na c)) as [p'|e] eqn:Hs; [|discriminate].
      destruct t as [g n a ks]. cbn [add_kid tname tkids].
      rewrite !paths_from_unfold, flat_map_app. cbn [flat_map]. rewrite app_nil_r.
      cbn [In]. rewrite !in_app_iff.
      rewrite (IH c (pre ++ [n]) p' q Hs).
      rewrite (prefixes_cons n), map_cons. cbn [In]. rewrite map_app_cons.
      subst c. cbn [tname paths_from flat_map]. cbn [In].
      rewrite (prefixes_cons nm), map_cons. cbn [In]. tauto.
    + destruct (nth_error (tkids t) i) as [k|] eqn:Hk; [|discriminate]. cbn [fst snd] in *.
      destruct (snd (ins rest na k)) as [p'|e] eqn:Hs; [|discriminate].
      assert (Hi : In i (find_idx nm 0 (tkids t))) by (rewrite F; now left).
      apply find_idx_spec in Hi as [_ (k0 & Hk0 & Hnm)]. rewrite Nat.sub_0_r, Hk in Hk0.
      inversion Hk0; subst k0.
      destruct t as [g n a ks]. cbn [tkids tname] in *. rewrite upd_at_cons. cbn [upd_at].
      rewrite !paths_from_unfold. cbn [In].
      rewrite (flat_map_upd_nth_in _ _ _ _ _ q Hk).
      * rewrite (IH k (pre ++ [n]) p' q Hs), Hnm.
        rewrite (prefixes_cons n), map_cons. cbn [In]. rewrite map_app_cons.
        assert (In q (paths_from (pre ++ [n]) k) -> In q (flat_map (paths_from (pre ++ [n])) ks)).
        { intros Hq. apply in_flat_map. exists k. split; [eapply nth_error_In; eauto|exact Hq]. }
        tauto.
      * intros x Hx. apply (IH k (pre ++ [n]) p' x Hs). now left.
Qed.

(* ======================================================================================== *)
(* 6. what `ins` does to the individual nodes                                                 *)

(* the data of one node object: identity tag, name, attributes, names of its children in order *)
Definition node_data (s : tree) := (ttag s, tname s, tattrs s, map tname (tkids s)).
Definition node_at (t : tree) (q : pos) := option_map node_data (subtree_at t q).

(* s' is the same node object as s, with the same attributes, whose children list is the old
   one followed by at most one new child *)
Definition grown (s s' : tree) : Prop :=
  ttag s' = ttag s /\ tname s' = tname s /\ tattrs s' = tattrs s /\
  exists extra, map tname (tkids s') = map tname (tkids s) ++ extra /\ length extra <= 1.

Lemma grown_refl s : grown s s.
Proof. repeat split. exists []. rewrite app_nil_r. split; [reflexivity|cbn; lia]. Qed.

Lemma ins_keeps rest na : forall t q s,
  subtree_at t q = Some s ->
  exists s', subtree_at (fst (ins rest na t)) q = Some s' /\ grown s s'.
Proof.
  induction rest as [|nm rest IH]; intros t q s H.
  - exists s. split; [exact H|apply grown_refl].
  - cbn [ins].
    destruct (find_idx nm 0 (tkids t)) as [|i [|j r]] eqn:F; cbn [fst];
      try (exists s; split; [exact H|apply grown_refl]).
    + destruct (is_nil nm); cbn [fst]; [exists s; split; [exact H|apply grown_refl]|].
      destruct t as [g n a ks]. cbn [add_kid].
      destruct q as [|j q].
      * cbn in H. inversion H; subst s. eexists. split; [reflexivity|].
        repeat split. cbn [tkids]. rewrite map_app. eexists. split; [reflexivity|cbn; lia].
      * cbn [subtree_at tkids] in *. destruct (nth_error ks j) as [kj|] eqn:Hj; [|discriminate].
        rewrite nth_error_app1 by (apply nth_error_Some; congruence). rewrite Hj.
        exists s. split; [exact H|apply grown_refl].
    + destruct (nth_error (tkids t) i) as [k|] eqn:Hk; cbn [fst];
        [|exists s; split; [exact H|apply grown_refl]].
      destruct t as [g n a ks]. cbn [tkids] in *. rewrite upd_at_cons. cbn [upd_at].
      destruct q as [|j q].
      * cbn in H. inversion H; subst s. eexists. split; [reflexivity|].
        repeat split. cbn [tkids]. exists []. rewrite app_nil_r. split; [|cbn; lia].
        apply map_upd_nth. intros k' Hk'. rewrite Hk in Hk'. inversion Hk'; subst. apply ins_tname.
      * cbn [subtree_at tkids] in *. destruct (Nat.eq_dec i j) as [<-|Hne].
        -- rewrite nth_error_upd_nth, Hk in *. cbn [option_map]. now apply IH.
        -- rewrite nth_error_upd_nth_other by exact Hne. exists s. split; [exact H|apply grown_refl].
Qed.

Lemma ins_ret_length rest na : forall t p, snd (ins rest na t) = Ret p -> length p = length rest.
Proof.
  induction rest as [|nm rest IH]; intros t p H; cbn [ins] in H.
  - cbn in H. inversion H. reflexivity.
  - destruct (find_idx nm 0 (tkids t)) as [|i [|j r]]; cbn [snd] in H; try discriminate.
    + destruct (is_nil nm); [discriminate|]. cbn [snd] in H.
      match type of H with map_res _ (snd (ins rest na ?c)) = _ =>
        destruct (snd (ins rest na c)) as [p'|e] eqn:Hs; [|discriminate]; apply IH in Hs end.
      cbn in H. inversion H; subst. cbn. now rewrite Hs.
    + destruct (nth_error (tkids t) i) as [k|]; [|discriminate]. cbn [snd] in H.
      destruct (snd (ins rest na k)) as [p'|e] eqn:Hs; [|discriminate]. apply IH in Hs.
      cbn in H. inversion H; subst. cbn. now rewrite Hs.
Qed.

(* the returned position: it exists, its name path is the branch, and its attributes are the
   old ones of a node that was already there, resp. the creation attributes of a new node *)
Lemma ins_ret rest na : forall t p,
  snd (ins rest na t) = Ret p ->
  exists s', subtree_at (fst (ins rest na t)) p = Some s' /\
             names_along (fst (ins rest na t)) p = tname t :: rest /\
             tattrs s' = match subtree_at t p with Some s => tattrs s | None => set_attrs [] na end.
Proof.
  induction rest as [|nm rest IH]; intros t p H; cbn [ins] in *.
  - cbn in H. inversion H; subst. exists t. cbn. auto.
  - destruct (find_idx nm 0 (tkids t)) as [|i [|j r]] eqn:F; cbn [fst snd] in *; try discriminate.
    + destruct (is_nil nm); [discriminate|]. cbn [fst snd] in *.
      set (c := T None nm (if is_nil rest then set_attrs [] na else []) []) in *.
      destruct (snd (ins rest na c)) as [p'|e] eqn:Hs; [|discriminate].
      cbn in H. inversion H; subst p. clear H.
      destruct (IH c p' Hs) as (s' & Hs' & Hnames & Hat).
      pose proof (ins_ret_length _ _ _ _ Hs) as Hlen.
      destruct t as [g n a ks]. cbn [add_kid tkids tname].
      exists s'. cbn [subtree_at names_along tkids tname].
      rewrite nth_error_app2, Nat.sub_diag by lia. cbn [nth_error].
      split; [exact Hs'|]. split; [now rewrite Hnames|].
      rewrite (proj2 (nth_error_None ks (length ks))) by lia.
      rewrite Hat. subst c. destruct p' as [|x p'].
      * cbn. destruct rest; [reflexivity|discriminate].
      * cbn. destruct x; reflexivity.
    + destruct (nth_error (tkids t) i) as [k|] eqn:Hk; [|discriminate]. cbn [fst snd] in *.
      destruct (snd (ins rest na k)) as [p'|e] eqn:Hs; [|discriminate].
      cbn in H. inversion H; subst p. clear H.
      destruct (IH k p' Hs) as (s' & Hs' & Hnames & Hat).
      assert (Hi : In i (find_idx nm 0 (tkids t))) by (rewrite F; now left).
      apply find_idx_spec in Hi as [_ (k0 & Hk0 & Hnm)]. rewrite Nat.sub_0_r, Hk in Hk0.
      inversion Hk0; subst k0.
      destruct t as [g n a ks]. cbn [tkids tname] in *. rewrite upd_at_cons. cbn [upd_at].
      exists s'. cbn [subtree_at names_along tkids tname].
      rewrite nth_error_upd_nth, Hk. cbn [option_map].
      split; [exact Hs'|]. split; [now rewrite Hnames, Hnm|exact Hat].
Qed.

(* node objects that were not there before are new objects; all of them except the returned one
   carry no attributes *)
Lemma ins_fresh rest na : forall t q s',
  subtree_at t q = None -> subtree_at (fst (ins rest na t)) q = Some s' ->
  ttag s' = None /\ (forall p, snd (ins rest na t) = Ret p -> q <> p -> tattrs s' = []).
Proof.
  induction rest as [|nm rest IH]; intros t q s' Hn Hs; cbn [ins] in *.
  - cbn in Hs. congruence.
  - destruct (find_idx nm 0 (tkids t)) as [|i [|j r]] eqn:F; cbn [fst snd] in *; try congruence.
    + destruct (is_nil nm); cbn [fst snd] in *; [congruence|].
      set (c := T None nm (if is_nil rest then set_attrs [] na else []) []) in *.
      destruct t as [g n a ks]. cbn [add_kid tkids] in *.
      destruct q as [|j q]; [cbn in Hn; discriminate|].
      cbn [subtree_at tkids] in *.
      destruct (nth_error ks j) as [kj|] eqn:Hj.
      * rewrite nth_error_app1 in Hs by (apply nth_error_Some; congruence). rewrite Hj in Hs. congruence.
      * apply nth_error_None in Hj.
        destruct (Nat.eq_dec j (length ks)) as [->|Hne].
        -- rewrite nth_error_app2, Nat.sub_diag in Hs by lia. cbn [nth_error] in Hs.
           destruct q as [|x q].
           ++ cbn in Hs. inversion Hs; subst s'. rewrite ins_ttag, ins_tattrs. subst c. cbn.
              split; [reflexivity|]. intros p Hp Hqp.
              destruct (snd (ins rest na (T None nm (if is_nil rest then set_attrs [] na else []) [])))
                as [p'|e] eqn:Hs'; [|discriminate].
              cbn in Hp. inversion Hp; subst p. apply ins_ret_length in Hs'.
              destruct rest; [|reflexivity]. destruct p'; [congruence|discriminate].
           ++ assert (Hc : subtree_at c (x :: q) = None) by (subst c; cbn; destruct x; reflexivity).
              destruct (IH c (x :: q) s' Hc Hs) as [Ht Ha]. split; [exact Ht|].
              intros p Hp Hqp.
              destruct (snd (ins rest na c)) as [p'|e] eqn:Hs'; [|discriminate].
              cbn in Hp. inversion Hp; subst p. apply (Ha p' eq_refl). congruence.
        -- rewrite (proj2 (nth_error_None (ks ++ [fst (ins rest na c)]) j)) in Hs; [discriminate|].
           rewrite app_length. cbn. lia.
    + destruct (nth_error (tkids t) i) as [k|] eqn:Hk; cbn [fst snd] in *; [|congruence].
      destruct t as [g n a ks]. cbn [tkids] in *. rewrite upd_at_cons in Hs. cbn [upd_at] in Hs.
      destruct q as [|j q]; [cbn in Hn; discriminate|].
      cbn [subtree_at tkids] in *.
      destruct (Nat.eq_dec i j) as [<-|Hne].
      * rewrite nth_error_upd_nth in Hs. rewrite Hk in *. cbn [option_map] in Hs.
        destruct (IH k q s' Hn Hs) as [Ht Ha]. split; [exact Ht|].
        intros p Hp Hqp.
        destruct (snd (ins rest na k)) as [p'|e] eqn:Hs'; [|discriminate].
        cbn in Hp. inversion Hp; subst p. apply (Ha p' eq_refl). congruence.
      * rewrite nth_error_upd_nth_other in Hs by exact Hne. congruence.
Qed.

(* ======================================================================================== *)
(* 7. the final node.set_attrs(node_attrs)                                                    *)

Lemma tname_upd_at_attrs p na t : tname (upd_at p (set_node_attrs na) t) = tname t.
Proof. destruct p, t; reflexivity. Qed.

Lemma paths_from_set_attrs p na : forall t pre,
  paths_from pre (upd_at p (set_node_attrs na) t) = paths_from pre t.
Proof.
  induction p as [|i p IH]; intros [g n a ks] pre; [reflexivity|].
  rewrite upd_at_cons, !paths_from_unfold. f_equal.
  apply flat_map_upd_nth_eq. intros k. apply IH.
Qed.

Lemma names_along_set_attrs p na : forall t q,
  names_along (upd_at p (set_node_attrs na) t) q = names_along t q.
Proof.
  induction p as [|i p IH]; intros [g n a ks] q.
  - destruct q; reflexivity.
  - rewrite upd_at_cons. destruct q as [|j q]; [reflexivity|].
    cbn [names_along tname tkids]. f_equal.
    destruct (Nat.eq_dec i j) as [<-|Hne].
    + rewrite nth_error_upd_nth. destruct (nth_error ks i); [apply IH|reflexivity].
    + now rewrite nth_error_upd_nth_other.
Qed.

Lemma node_at_set_attrs_same p na t s :
  subtree_at t p = Some s ->
  node_at (upd_at p (set_node_attrs na) t) p
  = Some (ttag s, tname s, set_attrs (tattrs s) na, map tname (tkids s)).
Proof.
  intros H. unfold node_at. rewrite (subtree_upd_at _ _ _ _ H). destruct s; reflexivity.
Qed.

Lemma node_at_set_attrs_other p na : forall t q,
  q <> p -> node_at (upd_at p (set_node_attrs na) t) q = node_at t q.
Proof.
  induction p as [|i p IH]; intros [g n a ks] q Hne.
  - destruct q as [|j q]; [congruence|]. reflexivity.
  - rewrite upd_at_cons. destruct q as [|j q].
    + unfold node_at, node_data. cbn. do 2 f_equal.
      apply map_upd_nth. intros k _. apply tname_upd_at_attrs.
    + unfold node_at. cbn [subtree_at tkids].
      destruct (Nat.eq_dec i j) as [<-|Hij].
      * rewrite nth_error_upd_nth. destruct (nth_error ks i) as [k|]; [|reflexivity].
        cbn [option_map]. apply (IH k q). congruence.
      * now rewrite nth_error_upd_nth_other.
Qed.

Lemma node_at_none_iff t q : node_at t q = None <-> subtree_at t q = None.
Proof. unfold node_at. destruct (subtree_at t q); cbn; split; congruence. Qed.

(* ======================================================================================== *)
(* 8. add_path_to_tree, duplicate names allowed                                               *)

Lemma split_go_nonempty f sp cur s : split_go f sp cur s <> [].
Proof.
  revert cur s; induction f as [|f IH]; intros cur s; cbn; [discriminate|].
  destruct s; [discriminate|]. destruct (startswith _ _); [discriminate|apply IH].
Qed.

Lemma branch_of_nonempty path sep : branch_of path sep <> [].
Proof.
  unfold branch_of, split. destruct sep; [discriminate|]. apply split_go_nonempty.
Qed.

Lemma add_path_inv t tsep path sep na t' p :
  add_path_to_tree t tsep path sep true na = (t', Ret p) ->
  exists rest, branch_of path sep = tname t :: rest /\
               snd (ins rest na t) = Ret p /\
               t' = upd_at p (set_node_attrs na) (fst (ins rest na t)).
Proof.
  unfold add_path_to_tree. destruct (is_nil path); [discriminate|].
  destruct (branch_of path sep) as [|b0 rest]; [discriminate|].
  destruct (str_eqb b0 (tname t)) eqn:E; cbn [negb]; [|discriminate].
  apply str_eqb_eq in E. subst b0. rewrite grow_ins_root.
  destruct (ins rest na t) as [t1 [p1|e]] eqn:Hi; intros H; inversion H; subst.
  exists rest. rewrite Hi. cbn. auto.
Qed.

(* C05_add_path_paths: the path set afterwards is the path set before plus all prefixes *)
Theorem add_path_paths t tsep path sep na t' p :
  add_path_to_tree t tsep path sep true na = (t', Ret p) ->
  forall q, In q (paths t') <-> In q (paths t) \/ In q (prefixes (branch_of path sep)).
Proof.
  intros H q. destruct (add_path_inv _ _ _ _ _ _ _ H) as (rest & Hb & Hok & ->).
  unfold paths. rewrite paths_from_set_attrs, (ins_paths rest na t [] p q Hok), Hb.
  cbn [app]. now rewrite map_id.
Qed.

(* C05_add_path_reuses / C05_add_path_order: every node object of the tree is still at its
   position, with the same tag and name, its old children in the old order followed by at most
   one created child; objects at new positions are new; sibling names stay distinct *)
Theorem add_path_reuses t tsep path sep na t' p :
  add_path_to_tree t tsep path sep true na = (t', Ret p) ->
  (forall q s, subtree_at t q = Some s ->
     exists s', subtree_at t' q = Some s' /\ ttag s' = ttag s /\ tname s' = tname s /\
                exists extra, map tname (tkids s') = map tname (tkids s) ++ extra /\ length extra <= 1)
  /\ (forall q s', subtree_at t q = None -> subtree_at t' q = Some s' -> ttag s' = None)
  /\ (sib_ok t -> sib_ok t').
Proof.
  intros H. destruct (add_path_inv _ _ _ _ _ _ _ H) as (rest & Hb & Hok & ->).
  split; [|split].
  - intros q s Hq. destruct (ins_keeps rest na t q s Hq) as (s1 & Hs1 & Hg).
    destruct Hg as (Htag & Hname & _ & extra & Hex & Hlen).
    destruct (list_eq_dec Nat.eq_dec q p) as [->|Hne].
    + exists (set_node_attrs na s1). rewrite (subtree_upd_at _ _ _ _ Hs1).
      destruct s1; cbn in *. eauto 8.
    + pose proof (node_at_set_attrs_other p na (fst (ins rest na t)) q Hne) as E.
      unfold node_at in E. rewrite Hs1 in E.
      destruct (subtree_at (upd_at p (set_node_attrs na) (fst (ins rest na t))) q) as [s2|]; [|discriminate].
      cbn in E. inversion E as [[E1 E2 E3 E4]]. exists s2. split; [reflexivity|].
      rewrite E1, E2, E4. eauto 8.
  - intros q s' Hn Hs'.
    destruct (list_eq_dec Nat.eq_dec q p) as [->|Hne].
    + destruct (ins_ret rest na t p Hok) as (s1 & Hs1 & _).
      rewrite (subtree_upd_at _ _ _ _ Hs1) in Hs'. inversion Hs'; subst s'.
      destruct (ins_fresh rest na t p s1 Hn Hs1) as [Ht _]. destruct s1; exact Ht.
    + pose proof (node_at_set_attrs_other p na (fst (ins rest na t)) q Hne) as E.
      unfold node_at in E. rewrite Hs' in E.
      destruct (subtree_at (fst (ins rest na t)) q) as [s1|] eqn:Hs1; [|discriminate].
      cbn in E. inversion E as [[E1 E2 E3 E4]]. rewrite E1.
      exact (proj1 (ins_fresh rest na t q s1 Hn Hs1)).
  - intros Hw. pose proof (ins_sib_ok rest na t Hw) as Hw1.
    clear - Hw1. revert Hw1. generalize (fst (ins rest na t)). clear.
    induction p as [|i p IH]; intros t Hw.
    + destruct t. inversion Hw; subst. constructor; assumption.
    + destruct t as [g n a ks]. rewrite upd_at_cons. inversion Hw; subst. constructor.
      * rewrite map_upd_nth; [assumption|]. intros k _. apply tname_upd_at_attrs.
      * apply Forall_upd_nth; [assumption|]. intros k Hk. apply IH.
        match goal with Hf : Forall sib_ok ks |- _ => rewrite Forall_forall in Hf; apply Hf end.
        eapply nth_error_In; eauto.
Qed.

(* C05_add_path_returns: the returned node is the node at the path *)
Theorem add_path_returns t tsep path sep na t' p :
  add_path_to_tree t tsep path sep true na = (t', Ret p) ->
  (exists s', subtree_at t' p = Some s') /\ names_along t' p = branch_of path sep.
Proof.
  intros H. destruct (add_path_inv _ _ _ _ _ _ _ H) as (rest & Hb & Hok & ->).
  destruct (ins_ret rest na t p Hok) as (s1 & Hs1 & Hn & _).
  split.
  - eexists. apply (subtree_upd_at _ _ _ _ Hs1).
  - now rewrite names_along_set_attrs, Hn, Hb.
Qed.

(* C05_attrs_exact: the attributes land on the returned node and nowhere else; created
   intermediate nodes carry none *)
Theorem add_path_attrs t tsep path sep na t' p :
  add_path_to_tree t tsep path sep true na = (t', Ret p) ->
  (exists s', subtree_at t' p = Some s' /\
              tattrs s' = set_attrs (match subtree_at t p with
                                     | Some s => tattrs s
                                     | None => set_attrs [] na
                                     end) na)
  /\ (forall q s, q <> p -> subtree_at t q = Some s ->
        exists s', subtree_at t' q = Some s' /\ tattrs s' = tattrs s)
  /\ (forall q s', q <> p -> subtree_at t q = None -> subtree_at t' q = Some s' -> tattrs s' = []).
Proof.
  intros H. destruct (add_path_inv _ _ _ _ _ _ _ H) as (rest & Hb & Hok & ->).
  split; [|split].
  - destruct (ins_ret rest na t p Hok) as (s1 & Hs1 & _ & Ha).
    exists (set_node_attrs na s1). split; [apply (subtree_upd_at _ _ _ _ Hs1)|].
    destruct s1; cbn in *. now rewrite Ha.
  - intros q s Hne Hq. destruct (ins_keeps rest na t q s Hq) as (s1 & Hs1 & _ & _ & Ha & _).
    pose proof (node_at_set_attrs_other p na (fst (ins rest na t)) q Hne) as E.
    unfold node_at in E. rewrite Hs1 in E.
    destruct (subtree_at (upd_at p (set_node_attrs na) (fst (ins rest na t))) q) as [s2|]; [|discriminate].
    cbn in E. inversion E as [[E1 E2 E3 E4]]. exists s2. split; [reflexivity|congruence].
  - intros q s' Hne Hn Hs'.
    pose proof (node_at_set_attrs_other p na (fst (ins rest na t)) q Hne) as E.
    unfold node_at in E. rewrite Hs' in E.
    destruct (subtree_at (fst (ins rest na t)) q) as [s1|] eqn:Hs1; [|discriminate].
    cbn in E. inversion E as [[E1 E2 E3 E4]]. rewrite E3.
    exact (proj2 (ins_fresh rest na t q s1 Hn Hs1) p Hok Hne).
Qed.

(* the call succeeds on a tree with distinct sibling names when the path is non-empty, starts at
   the root and has no empty component (hypotheses of the theorems above are satisfiable) *)
Theorem add_path_accepts t tsep path sep na rest :
  sib_ok t -> path <> [] -> branch_of path sep = tname t :: rest -> Forall (fun c => c <> []) rest ->
  exists t' p, add_path_to_tree t tsep path sep true na = (t', Ret p).
Proof.
  intros Hw Hp Hb Hne. unfold add_path_to_tree.
  destruct path; [congruence|]. cbn [is_nil]. rewrite Hb, str_eqb_refl. cbn [negb].
  rewrite grow_ins_root. destruct (ins_ok rest na t Hw Hne) as [p Hp'].
  destruct (ins rest na t) as [t1 r]. cbn in Hp'. subst r. eauto.
Qed.

(* C05_wrong_root_refused: a path with a different root raises TreeError and leaves the tree as
   it was (either setting of duplicate_name_allowed) *)
Theorem add_path_wrong_root t tsep path sep dup na :
  path <> [] -> hd [] (branch_of path sep) <> tname t ->
  add_path_to_tree t tsep path sep dup na = (t, Raise TreeError).
Proof.
  intros Hp Hr. unfold add_path_to_tree. destruct path; [congruence|]. cbn [is_nil].
  pose proof (branch_of_nonempty (n :: path) sep) as Hb.
  destruct (branch_of (n :: path) sep) as [|b0 rest]; [congruence|]. cbn in Hr.
  destruct (str_eqb b0 (tname t)) eqn:E; [apply str_eqb_eq in E; congruence|reflexivity].
Qed.

(* ======================================================================================== *)
(* 9. a leading / trailing separator (single-character separator) changes nothing             *)

Lemma lstrip_cons_sep c s : lstrip (c :: s) [c] = lstrip s [c].
Proof. cbn. now rewrite N.eqb_refl. Qed.

Lemma rstrip_app_sep c s : rstrip (s ++ [c]) [c] = rstrip s [c].
Proof. unfold rstrip. rewrite rev_app_distr. cbn [rev app]. now rewrite lstrip_cons_sep. Qed.

Lemma strip_app_sep c s : rstrip (lstrip (s ++ [c]) [c]) [c] = rstrip (lstrip s [c]) [c].
Proof.
  induction s as [|x s IH].
  - cbn. rewrite N.eqb_refl. reflexivity.
  - cbn [app lstrip]. destruct (memN x [c]); [exact IH|].
    change (x :: s ++ [c]) with ((x :: s) ++ [c]). apply rstrip_app_sep.
Qed.

Lemma branch_of_leading c path : branch_of (c :: path) [c] = branch_of path [c].
Proof. unfold branch_of. now rewrite lstrip_cons_sep. Qed.

Lemma branch_of_trailing c path : branch_of (path ++ [c]) [c] = branch_of path [c].
Proof. unfold branch_of. now rewrite strip_app_sep. Qed.

Theorem add_path_leading_sep t tsep c path dup na :
  path <> [] ->
  add_path_to_tree t tsep (c :: path) [c] dup na = add_path_to_tree t tsep path [c] dup na.
Proof.
  intros Hp. unfold add_path_to_tree. rewrite branch_of_leading. destruct path; [congruence|reflexivity].
Qed.

Theorem add_path_trailing_sep t tsep c path dup na :
  path <> [] ->
  add_path_to_tree t tsep (path ++ [c]) [c] dup na = add_path_to_tree t tsep path [c] dup na.
Proof.
  intros Hp. unfold add_path_to_tree. rewrite branch_of_trailing. destruct path; [congruence|reflexivity].
Qed.

(* ======================================================================================== *)
(* 10. first-appearance order: lists of paths                                                 *)

Lemma path_eqb_eq p q : path_eqb p q = true <-> p = q.
Proof.
  unfold path_eqb. revert q; induction p as [|x p IH]; intros [|y q]; cbn; split; intros H;
    try reflexivity; try discriminate.
  - apply andb_true_iff in H as [H1 H2]. apply str_eqb_eq in H1. apply IH in H2. now subst.
  - inversion H; subst. rewrite str_eqb_refl. cbn. now apply IH.
Qed.

Lemma path_eqb_refl p : path_eqb p p = true.
Proof. now apply path_eqb_eq. Qed.

Lemma mem_path_In x l : mem_path x l = true <-> In x l.
Proof.
  unfold mem_path. rewrite existsb_exists. split.
  - intros (y & Hy & E). apply path_eqb_eq in E. now subst.
  - intros H. exists x. split; [exact H|apply path_eqb_refl].
Qed.

Lemma mem_path_false x l : mem_path x l = false <-> ~ In x l.
Proof.
  rewrite <- mem_path_In. destruct (mem_path x l); split; intros H; try congruence.
Qed.

Lemma mem_path_filter f x seen : mem_path x (filter f seen) = mem_path x seen && f x.
Proof.
  induction seen as [|y s IH]; [reflexivity|]. cbn [filter].
  destruct (f y) eqn:Fy; cbn [mem_path existsb]; fold (mem_path x (filter f s)); fold (mem_path x s);
    rewrite IH; destruct (path_eqb x y) eqn:E; cbn; try reflexivity.
  - apply path_eqb_eq in E. subst. now rewrite Fy.
  - apply path_eqb_eq in E. subst. rewrite Fy. now rewrite andb_false_r.
Qed.

Lemma dedup_filter f : forall X seen,
  filter f (dedup seen X) = dedup (filter f seen) (filter f X).
Proof.
  induction X as [|x X IH]; intros seen; [reflexivity|]. cbn [dedup filter].
  destruct (mem_path x seen) eqn:M.
  - rewrite IH. destruct (f x) eqn:Fx; [|reflexivity].
    cbn [dedup]. now rewrite mem_path_filter, M, Fx.
  - cbn [filter]. rewrite IH. cbn [filter]. destruct (f x) eqn:Fx; [|reflexivity].
    cbn [dedup]. now rewrite mem_path_filter, M.
Qed.

Lemma dedup_snoc y : forall A seen,
  dedup seen (A ++ [y]) = dedup seen A ++ (if mem_path y seen || mem_path y A then [] else [y]).
Proof.
  induction A as [|x A IH]; intros seen.
  - cbn. rewrite orb_false_r. destruct (mem_path y seen); reflexivity.
  - cbn [app dedup]. destruct (mem_path x seen) eqn:M.
    + rewrite IH. f_equal. cbn [mem_path existsb]. fold (mem_path y A).
      destruct (path_eqb y x) eqn:E; [|reflexivity].
      apply path_eqb_eq in E. subst. now rewrite M.
    + rewrite IH. cbn [app]. do 2 f_equal. cbn [mem_path existsb].
      fold (mem_path y seen). fold (mem_path y A).
      destruct (path_eqb y x), (mem_path y seen), (mem_path y A); reflexivity.
Qed.

Lemma In_dedup x : forall X seen, In x (dedup seen X) <-> In x X /\ ~ In x seen.
Proof.
  induction X as [|y X IH]; intros seen; cbn [dedup]; [cbn; tauto|].
  destruct (mem_path y seen) eqn:M.
  - rewrite IH. apply mem_path_In in M. cbn. split; [tauto|].
    intros [[->|H] Hn]; [contradiction|tauto].
  - apply mem_path_false in M. cbn [In]. rewrite IH. cbn [In].
    destruct (list_eq_dec (list_eq_dec N.eq_dec) y x) as [->|Hne]; [tauto|].
    split; [intros [H|[H1 H2]]; [congruence|tauto]|]. intros [[H|H] Hn]; [congruence|].
    right. split; [exact H|]. intros [H'|H']; [congruence|contradiction].
Qed.

Lemma In_dedup_nil x X : In x (dedup [] X) <-> In x X.
Proof. rewrite In_dedup. cbn. tauto. Qed.

(* children_of *)
Lemma children_of_app A B p : children_of (A ++ B) p = children_of A p ++ children_of B p.
Proof. apply filter_app. Qed.

Lemma children_of_nil D q :
  (forall d x, In d D -> d <> q ++ [x]) -> children_of D q = [].
Proof.
  induction D as [|d D IH]; intros H; [reflexivity|]. cbn [children_of filter].
  destruct (negb (is_nil d) && path_eqb (removelast d) q) eqn:E.
  - exfalso. apply andb_true_iff in E as [E1 E2]. apply path_eqb_eq in E2.
    destruct d as [|d0 d]; [discriminate|].
    apply (H (d0 :: d) (last (d0 :: d) []) (or_introl eq_refl)).
    rewrite <- E2. apply app_removelast_last. discriminate.
  - apply IH. intros d' x Hd. apply H. now right.
Qed.

Lemma children_of_dedup X p : children_of (dedup [] X) p = dedup [] (children_of X p).
Proof. unfold children_of. now rewrite dedup_filter. Qed.

(* the paths added by one insertion, as a chain from the node at `pre` downwards *)
Fixpoint chain (pre : list str) (n : str) (rest : list str) : list path :=
  (pre ++ [n]) :: match rest with [] => [] | nm :: r => chain (pre ++ [n]) nm r end.

Lemma chain_prefixes rest : forall pre n, map (app pre) (prefixes (n :: rest)) = chain pre n rest.
Proof.
  induction rest as [|nm r IH]; intros pre n.
  - reflexivity.
  - rewrite prefixes_cons, map_cons, map_app_cons. cbn [chain]. f_equal. apply IH.
Qed.

Lemma chain_shape rest : forall pre n d, In d (chain pre n rest) -> exists l, d = pre ++ n :: l.
Proof.
  induction rest as [|nm r IH]; intros pre n d [<-|H]; try (now exists []); try contradiction.
  apply IH in H as [l ->]. exists (nm :: l). now rewrite <- app_assoc.
Qed.

Lemma app_length_neq {A} (p l : list A) x y : p <> (p ++ x :: l) ++ [y].
Proof. intros E. apply (f_equal (@length A)) in E. rewrite !app_length in E. cbn in E. lia. Qed.

Lemma chain_children_root p0 nm r : children_of (p0 :: chain p0 nm r) p0 = [p0 ++ [nm]].
Proof.
  assert (Hc : chain p0 nm r = [p0 ++ [nm]] ++ match r with [] => [] | x :: r' => chain (p0 ++ [nm]) x r' end)
    by (destruct r; reflexivity).
  rewrite Hc. change (p0 :: ?l) with ([p0] ++ l).
  rewrite !children_of_app.
  rewrite (children_of_nil [p0]).
  2:{ intros d x [<-|[]] E. apply (f_equal (@length str)) in E. rewrite app_length in E. cbn in E. lia. }
  rewrite (children_of_nil (match r with [] => [] | x :: r' => chain (p0 ++ [nm]) x r' end)).
  2:{ intros d x Hd E. destruct r as [|y r']; [contradiction|].
      apply chain_shape in Hd as [l ->]. apply (f_equal (@length str)) in E.
      rewrite !app_length in E. cbn in E. lia. }
  cbn. rewrite removelast_last, path_eqb_refl. destruct (p0 ++ [nm]) eqn:E; [|reflexivity].
  destruct p0; discriminate.
Qed.

Lemma chain_children_other p0 nm r x l :
  x <> nm -> children_of (p0 :: chain p0 nm r) (p0 ++ x :: l) = [].
Proof.
  intros Hne. apply children_of_nil. intros d y [<-|Hd] E.
  - revert E. apply app_length_neq.
  - apply chain_shape in Hd as [l' ->]. rewrite <- app_assoc in E. apply app_inv_head in E.
    cbn in E. congruence.
Qed.

Lemma single_children_below p0 l : children_of [p0] (p0 ++ l) = [].
Proof.
  apply children_of_nil. intros d y [<-|[]] E. apply (f_equal (@length str)) in E.
  rewrite !app_length in E. cbn in E. lia.
Qed.

(* ======================================================================================== *)
(* 11. the invariant: every node's children are, in order, the first appearances in X          *)

Lemma paths_from_shape : forall t pre q, In q (paths_from pre t) -> exists l, q = pre ++ tname t :: l.
Proof.
  induction t as [g n a ks IH] using tree_ind'. intros pre q H.
  rewrite paths_from_unfold in H. destruct H as [<-|H]; [now exists []|].
  apply in_flat_map in H as (k & Hk & Hq). rewrite Forall_forall in IH.
  destruct (IH k Hk _ _ Hq) as [l ->]. exists (tname k :: l). cbn. now rewrite <- app_assoc.
Qed.

Fixpoint trie_inv (X : list path) (pre : list str) (t : tree) : Prop :=
  match t with
  | T _ n _ ks =>
      map (fun k => (pre ++ [n]) ++ [tname k]) ks = dedup [] (children_of X (pre ++ [n])) /\
      (fix all (l : list tree) : Prop :=
         match l with [] => True | k :: r => trie_inv X (pre ++ [n]) k /\ all r end) ks
  end.

Lemma trie_inv_unfold X pre g n a ks :
  trie_inv X pre (T g n a ks) <->
  map (fun k => (pre ++ [n]) ++ [tname k]) ks = dedup [] (children_of X (pre ++ [n])) /\
  Forall (trie_inv X (pre ++ [n])) ks.
Proof.
  cbn [trie_inv]. split; intros [H1 H2]; (split; [exact H1|]).
  - clear H1. induction ks as [|k r IH]; [constructor|]. destruct H2. constructor; auto.
  - clear H1. induction H2; [exact I|]. split; auto.
Qed.

Lemma trie_inv_ext X1 X2 : forall t pre,
  (forall q, In q (paths_from pre t) -> children_of X1 q = children_of X2 q) ->
  trie_inv X1 pre t -> trie_inv X2 pre t.
Proof.
  induction t as [g n a ks IH] using tree_ind'. intros pre Hq H.
  apply trie_inv_unfold in H as [H1 H2]. apply trie_inv_unfold. split.
  - rewrite <- Hq; [exact H1|]. rewrite paths_from_unfold. now left.
  - rewrite Forall_forall in *. intros k Hk. apply IH; [exact Hk| |apply H2; exact Hk].
    intros q Hin. apply Hq. rewrite paths_from_unfold. right. apply in_flat_map. eauto.
Qed.

Lemma trie_inv_set_attrs X p na : forall t pre,
  trie_inv X pre t -> trie_inv X pre (upd_at p (set_node_attrs na) t).
Proof.
  induction p as [|i p IH]; intros [g n a ks] pre H.
  - exact H.
  - rewrite upd_at_cons. apply trie_inv_unfold in H as [H1 H2]. apply trie_inv_unfold. split.
    + rewrite <- H1. clear. revert i. induction ks as [|k ks IHk]; intros [|i]; cbn; try reflexivity.
      * now rewrite tname_upd_at_attrs.
      * now rewrite IHk.
    + apply Forall_upd_nth; [exact H2|]. intros k Hk. apply IH.
      rewrite Forall_forall in H2. apply H2. eapply nth_error_In; eauto.
Qed.

(* X says nothing about the region of the tree below `pre`/t beyond what the tree contains *)
Definition covers (X : list path) (pre : list str) (t : tree) : Prop :=
  forall l, In (pre ++ tname t :: l) X -> In (pre ++ tname t :: l) (paths_from pre t).

Lemma NoDup_map_inj_in {A B} (f : A -> B) l a b :
  NoDup (map f l) -> In a l -> In b l -> f a = f b -> a = b.
Proof.
  induction l as [|x l IH]; intros Hn Ha Hb E; [contradiction|].
  cbn in Hn. inversion Hn as [|? ? Hx Hl]; subst.
  destruct Ha as [->|Ha], Hb as [->|Hb]; try reflexivity.
  - exfalso. apply Hx. rewrite E. now apply in_map.
  - exfalso. apply Hx. rewrite <- E. now apply in_map.
  - now apply IH.
Qed.

Lemma covers_kid X pre g n a ks k :
  NoDup (map tname ks) -> covers X pre (T g n a ks) -> In k ks -> covers X (pre ++ [n]) k.
Proof.
  intros Hn Hc Hk l Hin. rewrite <- app_assoc in Hin. cbn [app] in Hin.
  apply (Hc (tname k :: l)) in Hin. cbn [tname] in Hin. rewrite paths_from_unfold in Hin.
  destruct Hin as [E|Hin].
  - apply (f_equal (@length str)) in E. rewrite !app_length in E. cbn in E. lia.
  - apply in_flat_map in Hin as (k' & Hk' & Hq).
    pose proof (paths_from_shape _ _ _ Hq) as [l' E].
    rewrite <- !app_assoc in E. apply app_inv_head in E. cbn in E. inversion E; subst.
    assert (k' = k) by (eapply NoDup_map_inj_in; eauto). subst k'.
    rewrite <- app_assoc. exact Hq.
Qed.

Lemma Forall_upd_nth2 {A} (P : A -> Prop) f i l :
  (forall j k, nth_error l j = Some k -> j <> i -> P k) ->
  (forall k, nth_error l i = Some k -> P (f k)) -> Forall P (upd_nth i f l).
Proof.
  revert i; induction l as [|x l IH]; intros i H1 H2; [destruct i; constructor|].
  destruct i as [|i]; cbn.
  - constructor; [apply H2; reflexivity|].
    apply Forall_forall. intros k Hk. apply In_nth_error in Hk as [j Hj].
    apply (H1 (S j) k Hj). lia.
  - constructor; [apply (H1 0 x eq_refl); lia|].
    apply IH.
    + intros j k Hj Hne. apply (H1 (S j) k Hj). lia.
    + intros k Hk. apply H2. exact Hk.
Qed.

Lemma ins_trie_inv rest na : forall t pre X p,
  sib_ok t -> trie_inv X pre t -> covers X pre t -> snd (ins rest na t) = Ret p ->
  trie_inv (X ++ chain pre (tname t) rest) pre (fst (ins rest na t)).
Proof.
  induction rest as [|nm rest IH]; intros t pre X p Hw Hi Hc Hok.
  - cbn [ins fst chain]. eapply trie_inv_ext; [|exact Hi].
    intros q Hq. apply paths_from_shape in Hq as [l ->].
    rewrite children_of_app. replace (pre ++ tname t :: l) with ((pre ++ [tname t]) ++ l)
      by (now rewrite <- app_assoc).
    now rewrite single_children_below, app_nil_r.
  - cbn [ins] in *. destruct t as [g n a ks]. cbn [tkids tname] in *.
    apply sib_ok_kids in Hw as [Hnd Hwk]. cbn [tkids] in *.
    pose proof (proj1 (trie_inv_unfold _ _ _ _ _ _) Hi) as [Hroot Hkids].
    set (p0 := pre ++ [n]) in *.
    cbn [chain]. fold p0.
    (* children_of X below a kid is untouched by the new chain unless the kid is named nm *)
    assert (Hoff : forall k, In k ks -> tname k <> nm ->
                   trie_inv (X ++ p0 :: chain p0 nm rest) p0 k).
    { intros k Hk Hne. rewrite Forall_forall in Hkids. eapply trie_inv_ext; [|apply Hkids; exact Hk].
      intros q Hq. apply paths_from_shape in Hq as [l ->]. rewrite children_of_app.
      now rewrite chain_children_other, app_nil_r. }
    destruct (find_idx nm 0 ks) as [|i [|j r]] eqn:F; cbn [fst snd] in *; try discriminate.
    + destruct (is_nil nm) eqn:Enm; [discriminate|]. cbn [fst snd] in *.
      set (c := T None nm (if is_nil rest then set_attrs [] na else []) []) in *.
      destruct (snd (ins rest na c)) as [p'|e] eqn:Hs; [|discriminate].
      pose proof (find_idx_nil _ _ _ F) as Hnot.
      (* nothing of X lies below the new child *)
      assert (Hnone : forall l, ~ In (p0 ++ nm :: l) X).
      { intros l Hin. unfold p0 in Hin. rewrite <- app_assoc in Hin. cbn [app] in Hin.
        apply (Hc (nm :: l)) in Hin. cbn [tname] in Hin. rewrite paths_from_unfold in Hin.
        destruct Hin as [E|Hin].
        - apply (f_equal (@length str)) in E. rewrite !app_length in E. cbn in E. lia.
        - apply in_flat_map in Hin as (k' & Hk' & Hq). apply paths_from_shape in Hq as [l' E].
          rewrite <- !app_assoc in E. apply app_inv_head in E. cbn in E. inversion E; subst.
          apply Hnot. now apply in_map. }
      cbn [add_kid]. apply trie_inv_unfold. fold p0. split.
      * rewrite map_app. cbn [map]. rewrite ins_tname. cbn [tname].
        rewrite children_of_app, chain_children_root, dedup_snoc. cbn [mem_path existsb orb].
        fold (mem_path (p0 ++ [nm]) (children_of X p0)).
        rewrite Hroot.
        destruct (mem_path (p0 ++ [nm]) (children_of X p0)) eqn:M; [|reflexivity].
        exfalso. apply mem_path_In in M. apply filter_In in M as [M _]. now apply (Hnone []).
      * apply Forall_app. split.
        -- apply Forall_forall. intros k Hk. apply Hoff; [exact Hk|].
           intros E. apply Hnot. rewrite <- E. now apply in_map.
        -- constructor; [|constructor].
           replace (X ++ p0 :: chain p0 nm rest) with ((X ++ [p0]) ++ chain p0 (tname c) rest)
             by (now rewrite <- app_assoc).
           apply (IH c p0 (X ++ [p0]) p').
           ++ constructor; constructor.
           ++ subst c. cbn [trie_inv]. split; [|exact I]. cbn [map].
              rewrite children_of_app, single_children_below, app_nil_r.
              rewrite (children_of_nil X); [reflexivity|].
              intros d x Hd E. subst d. rewrite <- app_assoc in Hd. now apply (Hnone [x]).
           ++ intros l Hin. apply in_app_or in Hin as [Hin|[E|[]]].
              ** exfalso. subst c. cbn [tname] in Hin. now apply (Hnone l).
              ** exfalso. subst c. cbn [tname] in E. apply (f_equal (@length str)) in E.
                 rewrite app_length in E. cbn in E. lia.
           ++ exact Hs.
    + destruct (nth_error ks i) as [k|] eqn:Hk; [|discriminate]. cbn [fst snd] in *.
      destruct (snd (ins rest na k)) as [p'|e] eqn:Hs; [|discriminate].
      assert (Hi' : In i (find_idx nm 0 ks)) by (rewrite F; now left).
      apply find_idx_spec in Hi' as [_ (k0 & Hk0 & Hnm)]. rewrite Nat.sub_0_r, Hk in Hk0.
      inversion Hk0; subst k0.
      assert (Hkin : In k ks) by (eapply nth_error_In; eauto).
      rewrite upd_at_cons. cbn [upd_at]. apply trie_inv_unfold. fold p0. split.
      * rewrite map_upd_nth.
        2:{ intros k' Hk'. rewrite Hk in Hk'. inversion Hk'; subst. now rewrite ins_tname. }
        rewrite children_of_app, chain_children_root, dedup_snoc. cbn [mem_path existsb orb].
        fold (mem_path (p0 ++ [nm]) (children_of X p0)).
        assert (M : mem_path (p0 ++ [nm]) (children_of X p0) = true).
        { apply mem_path_In. apply (In_dedup_nil _ (children_of X p0)). rewrite <- Hroot.
          rewrite <- Hnm. apply (in_map (fun k => p0 ++ [tname k])). exact Hkin. }
        rewrite M, app_nil_r. exact Hroot.
      * apply Forall_upd_nth2.
        -- intros j k' Hj Hne. apply Hoff; [eapply nth_error_In; eauto|].
           intros E. apply Hne.
           assert (k' = k) by (eapply NoDup_map_inj_in; eauto; [eapply nth_error_In; eauto|congruence]).
           subst k'. eapply NoDup_nth_error; [| |rewrite Hj, Hk; reflexivity].
           ++ apply (NoDup_map_inv tname). exact Hnd.
           ++ apply nth_error_Some. congruence.
        -- intros k' Hk'. rewrite Hk in Hk'. inversion Hk'; subst k'.
           replace (X ++ p0 :: chain p0 nm rest) with ((X ++ [p0]) ++ chain p0 (tname k) rest)
             by (now rewrite <- app_assoc, Hnm).
           apply (IH k p0 (X ++ [p0]) p').
           ++ rewrite Forall_forall in Hwk. now apply Hwk.
           ++ rewrite Forall_forall in Hkids. eapply trie_inv_ext; [|apply Hkids; exact Hkin].
              intros q Hq. apply paths_from_shape in Hq as [l ->].
              rewrite children_of_app. now rewrite single_children_below, app_nil_r.
           ++ intros l Hin. apply in_app_or in Hin as [Hin|[E|[]]].
              ** eapply (covers_kid X pre g n a ks k); eauto.
              ** exfalso. apply (f_equal (@length str)) in E. unfold p0 in E.
                 rewrite !app_length in E. cbn in E. lia.
           ++ exact Hs.
Qed.

(* ======================================================================================== *)
(* 12. from the invariant to the trie pre-order of the specification                          *)

Lemma flat_map_map {A B C} (f : B -> list C) (g : A -> B) l :
  flat_map f (map g l) = flat_map (fun x => f (g x)) l.
Proof. induction l as [|x l IH]; cbn; [reflexivity|]. now rewrite IH. Qed.

Lemma flat_map_ext_in {A B} (f g : A -> list B) l :
  (forall x, In x l -> f x = g x) -> flat_map f l = flat_map g l.
Proof.
  induction l as [|x l IH]; intros H; cbn; [reflexivity|].
  rewrite (H x (or_introl eq_refl)), IH; [reflexivity|]. intros y Hy. apply H. now right.
Qed.

Lemma height_unfold g n a ks :
  height (T g n a ks) = S (fold_right (fun k a => Nat.max (height k) a) 0 ks).
Proof. reflexivity. Qed.

Lemma height_pos t : 1 <= height t.
Proof. destruct t; cbn; lia. Qed.

Lemma height_kid k ks : In k ks -> height k <= fold_right (fun k a => Nat.max (height k) a) 0 ks.
Proof.
  induction ks as [|x ks IH]; intros H; [contradiction|]. cbn [fold_right].
  destruct H as [->|H]; [lia|]. apply IH in H. lia.
Qed.

Lemma height_attained ks :
  ks <> [] -> exists k, In k ks /\ height k = fold_right (fun k a => Nat.max (height k) a) 0 ks.
Proof.
  induction ks as [|x ks IH]; intros H; [congruence|]. cbn [fold_right].
  destruct ks as [|y ks'].
  - exists x. split; [now left|]. cbn. pose proof (height_pos x). lia.
  - destruct IH as (k & Hk & E); [discriminate|].
    destruct (Nat.max_spec (height x) (fold_right (fun k a => Nat.max (height k) a) 0 (y :: ks'))) as [[_ M]|[_ M]].
    + exists k. split; [now right|]. rewrite M. exact E.
    + exists x. split; [now left|]. now rewrite M.
Qed.

Lemma trie_inv_pre X : forall t pre fuel,
  trie_inv X pre t -> height t <= S fuel ->
  trie_pre fuel (dedup [] X) (pre ++ [tname t]) = paths_from pre t.
Proof.
  induction t as [g n a ks IH] using tree_ind'. intros pre fuel Hi Hh.
  apply trie_inv_unfold in Hi as [Hroot Hkids]. cbn [tname]. rewrite paths_from_unfold.
  destruct fuel as [|f].
  - cbn [trie_pre]. destruct ks as [|k ks]; [reflexivity|]. exfalso.
    cbn in Hh. pose proof (height_pos k). lia.
  - cbn [trie_pre]. f_equal. rewrite children_of_dedup, <- Hroot, flat_map_map.
    apply flat_map_ext_in. intros k Hk. rewrite Forall_forall in IH, Hkids.
    apply IH; [exact Hk|apply Hkids; exact Hk|].
    cbn in Hh. pose proof (height_kid k ks Hk). lia.
Qed.

Lemma paths_from_deep : forall t pre,
  exists q, In q (paths_from pre t) /\ length q = length pre + height t.
Proof.
  induction t as [g n a ks IH] using tree_ind'. intros pre. rewrite paths_from_unfold.
  destruct ks as [|k0 ks'] eqn:Eks.
  - exists (pre ++ [n]). split; [now left|]. rewrite app_length. cbn. lia.
  - destruct (height_attained (k0 :: ks')) as (k & Hk & E); [discriminate|].
    rewrite Forall_forall in IH. destruct (IH k Hk (pre ++ [n])) as (q & Hq & Hl).
    exists q. split.
    + right. apply in_flat_map. eauto.
    + rewrite Hl, app_length, height_unfold, <- E. cbn [length]. rewrite <- Nat.add_assoc. reflexivity.
Qed.

Lemma max_len_ge q l : In q l -> length q <= max_len l.
Proof.
  induction l as [|x l IH]; intros H; [contradiction|]. cbn [max_len fold_right].
  fold (max_len l).
  destruct H as [->|H]; [apply Nat.le_max_l|]. apply IH in H.
  etransitivity; [exact H|apply Nat.le_max_r].
Qed.

(* ======================================================================================== *)
(* 13. sequences of add_path_to_tree calls                                                    *)

Definition SInv (X : list path) (t : tree) : Prop :=
  sib_ok t /\ trie_inv X [] t /\ covers X [] t /\ incl (paths t) X.

Lemma sib_ok_set_attrs p na : forall t, sib_ok t -> sib_ok (upd_at p (set_node_attrs na) t).
Proof.
  induction p as [|i p IH]; intros t Hw.
  - destruct t. inversion Hw; subst. constructor; assumption.
  - destruct t as [g n a ks]. rewrite upd_at_cons. inversion Hw; subst. constructor.
    + rewrite map_upd_nth; [assumption|]. intros k _. apply tname_upd_at_attrs.
    + apply Forall_upd_nth; [assumption|]. intros k Hk. apply IH.
      match goal with Hf : Forall sib_ok ks |- _ => rewrite Forall_forall in Hf; apply Hf end.
      eapply nth_error_In; eauto.
Qed.

Lemma chain_nil n rest : chain [] n rest = prefixes (n :: rest).
Proof.
  rewrite <- chain_prefixes. erewrite map_ext; [apply map_id|]. reflexivity.
Qed.

Lemma add_path_SInv X t tsep path sep na t' p :
  SInv X t -> add_path_to_tree t tsep path sep true na = (t', Ret p) ->
  SInv (X ++ prefixes (branch_of path sep)) t' /\ tname t' = tname t.
Proof.
  intros (Hw & Hi & Hc & Hin) H.
  pose proof (add_path_paths _ _ _ _ _ _ _ H) as Hp.
  destruct (add_path_inv _ _ _ _ _ _ _ H) as (rest & Hb & Hok & ->).
  assert (Hn : tname (upd_at p (set_node_attrs na) (fst (ins rest na t))) = tname t)
    by (now rewrite tname_upd_at_attrs, ins_tname).
  split; [|exact Hn]. rewrite Hb in *. split; [|split; [|split]].
  - apply sib_ok_set_attrs. now apply ins_sib_ok.
  - apply trie_inv_set_attrs. rewrite <- chain_nil. now apply (ins_trie_inv rest na t [] X p).
  - intros l Hl. rewrite Hn in *. cbn [app] in *. apply Hp.
    apply in_app_or in Hl as [Hl|Hl]; [left; now apply (Hc l)|now right].
  - intros q Hq. apply Hp in Hq as [Hq|Hq]; apply in_or_app; [left; now apply Hin|now right].
Qed.

Definition branches (sep : str) (rows : list row) : list path :=
  map (fun r => branch_of (fst r) sep) rows.

Lemma add_rows_SInv tsep sep : forall rows X t acc t' ps,
  SInv X t -> add_rows t tsep sep true rows acc = (t', Ret ps) ->
  SInv (X ++ closure (branches sep rows)) t' /\ tname t' = tname t.
Proof.
  induction rows as [|[path na] rows IH]; intros X t acc t' ps HS H; cbn [add_rows] in H.
  - inversion H; subst. cbn. now rewrite app_nil_r.
  - destruct (add_path_to_tree t tsep path sep true na) as [t1 [p|e]] eqn:Ha; [|discriminate].
    destruct (add_path_SInv _ _ _ _ _ _ _ _ HS Ha) as [HS1 Hn1].
    destruct (IH _ _ _ _ _ HS1 H) as [HS2 Hn2]. split; [|congruence].
    cbn [branches map closure flat_map fst]. fold (branches sep rows). fold (closure (branches sep rows)).
    now rewrite app_assoc.
Qed.

Lemma add_rows_paths tsep sep : forall rows t acc t' ps,
  add_rows t tsep sep true rows acc = (t', Ret ps) ->
  forall q, In q (paths t') <-> In q (paths t) \/ In q (closure (branches sep rows)).
Proof.
  induction rows as [|[path na] rows IH]; intros t acc t' ps H q; cbn [add_rows] in H.
  - inversion H; subst. cbn. tauto.
  - destruct (add_path_to_tree t tsep path sep true na) as [t1 [p|e]] eqn:Ha; [|discriminate].
    rewrite (IH _ _ _ _ H q), (add_path_paths _ _ _ _ _ _ _ Ha q).
    cbn [branches map closure flat_map fst]. fold (branches sep rows). fold (closure (branches sep rows)).
    rewrite in_app_iff. tauto.
Qed.

(* the pre-order of the result is the trie order of first appearance of X ++ closure(rows) *)
Theorem add_rows_trie_order tsep sep rows X t acc t' ps :
  SInv X t -> add_rows t tsep sep true rows acc = (t', Ret ps) ->
  let all := dedup [] (X ++ closure (branches sep rows)) in
  paths t' = trie_pre (max_len all) all [tname t].
Proof.
  intros HS H all. destruct (add_rows_SInv _ _ _ _ _ _ _ _ HS H) as [(Hw & Hi & Hc & Hin) Hn].
  rewrite <- Hn. symmetry. apply (trie_inv_pre _ t' [] (max_len all) Hi).
  destruct (paths_from_deep t' []) as (q & Hq & Hl). cbn in Hl. rewrite <- Hl.
  assert (length q <= max_len all); [|lia].
  apply max_len_ge. apply In_dedup_nil. apply Hin. exact Hq.
Qed.

(* a single fresh root satisfies the invariant for X = [[root]] *)
Lemma SInv_root r : SInv [[r]] (T None r [] []).
Proof.
  split; [constructor; constructor|]. split; [|split].
  - cbn. auto.
  - intros l [E|[]]. cbn in *. now left.
  - intros q H. exact H.
Qed.

(* C05_list_to_tree_closure *)
Theorem list_to_tree_closure ps sep t' :
  list_to_tree ps sep true = Ret t' ->
  let bs := map (fun p => branch_of p sep) (dedup_str [] ps) in
  let all := dedup [] ([tname t'] :: closure bs) in
  (forall q, In q (paths t') <-> q = [tname t'] \/ In q (closure bs))
  /\ paths t' = trie_pre (max_len all) all [tname t'].
Proof.
  unfold list_to_tree. destruct ps as [|p0 ps]; [discriminate|].
  set (L := dedup_str [] (p0 :: ps)). set (r := hd [] (split (lstrip p0 sep) sep)).
  destruct (is_nil r); [discriminate|].
  destruct (add_rows (T None r [] []) sep sep true (map (fun p => (p, [])) L) [])
    as [t1 [ps1|e]] eqn:Ha; [|discriminate].
  intros E. inversion E; subst t1. clear E.
  set (bs := map (fun p : str => branch_of p sep) L).
  set (all := dedup [] ([tname t'] :: closure bs)).
  assert (Eb : branches sep (map (fun p : str => (p, @nil (str * val))) L) = bs).
  { unfold branches, bs. rewrite map_map. reflexivity. }
  destruct (add_rows_SInv _ _ _ _ _ _ _ _ (SInv_root r) Ha) as [_ Hn]. cbn [tname] in Hn.
  split.
  - intros q. rewrite (add_rows_paths _ _ _ _ _ _ _ Ha q), Eb, Hn. cbn. intuition congruence.
  - pose proof (add_rows_trie_order _ _ _ _ _ _ _ _ (SInv_root r) Ha) as Ht.
    cbn zeta in Ht. rewrite Eb in Ht. cbn [tname app] in Ht. subst all. rewrite Hn. exact Ht.
Qed.

(* ======================================================================================== *)
(* 14. any tree with distinct sibling names satisfies the invariant for X = its own paths     *)

Lemma dedup_NoDup : forall l seen,
  NoDup l -> (forall x, In x l -> ~ In x seen) -> dedup seen l = l.
Proof.
  induction l as [|x l IH]; intros seen Hn Hd; [reflexivity|]. cbn [dedup].
  inversion Hn as [|? ? Hx Hl]; subst.
  rewrite (proj2 (mem_path_false x seen)) by (apply Hd; now left). f_equal.
  apply IH; [exact Hl|]. intros y Hy [E|Hs]; [subst; contradiction|].
  apply (Hd y); [now right|exact Hs].
Qed.

Lemma NoDup_map_inj {A B} (f : A -> B) l :
  (forall a b, f a = f b -> a = b) -> NoDup l -> NoDup (map f l).
Proof.
  intros Hf Hn. induction Hn as [|x l Hx Hl IH]; cbn; constructor; [|exact IH].
  intros H. apply in_map_iff in H as (y & E & Hy). apply Hf in E. subst. contradiction.
Qed.

Lemma children_of_paths_kid p0 k : children_of (paths_from p0 k) p0 = [p0 ++ [tname k]].
Proof.
  destruct k as [g n a ks]. rewrite paths_from_unfold. cbn [tname].
  change ((p0 ++ [n]) :: ?l) with ([p0 ++ [n]] ++ l). rewrite children_of_app.
  rewrite (children_of_nil (flat_map _ _)).
  - cbn. rewrite removelast_last, path_eqb_refl. destruct (p0 ++ [n]) eqn:E; [|reflexivity].
    destruct p0; discriminate.
  - intros d x Hd E. apply in_flat_map in Hd as (k & _ & Hd). apply paths_from_shape in Hd as [l ->].
    apply (f_equal (@length str)) in E. rewrite !app_length in E. cbn in E. lia.
Qed.

Lemma children_of_flat_kids p0 ks :
  children_of (flat_map (paths_from p0) ks) p0 = map (fun k => p0 ++ [tname k]) ks.
Proof.
  induction ks as [|k ks IH]; [reflexivity|]. cbn [flat_map map].
  now rewrite children_of_app, children_of_paths_kid, IH.
Qed.

Lemma trie_inv_self : forall s pre, sib_ok s -> trie_inv (paths_from pre s) pre s.
Proof.
  induction s as [g n a ks IH] using tree_ind'. intros pre Hw.
  apply sib_ok_kids in Hw as [Hnd Hwk]. cbn [tkids] in *.
  apply trie_inv_unfold. rewrite paths_from_unfold. set (p0 := pre ++ [n]).
  change (p0 :: ?l) with ([p0] ++ l). split.
  - rewrite children_of_app, children_of_flat_kids.
    replace (children_of [p0] p0) with (@nil path)
      by (symmetry; rewrite <- (app_nil_r p0) at 2; apply single_children_below).
    cbn [app]. symmetry. apply dedup_NoDup; [|intros x _ []].
    rewrite <- (map_map tname (fun nm => p0 ++ [nm])). apply NoDup_map_inj; [|exact Hnd].
    intros x y E. apply app_inv_head in E. now inversion E.
  - apply Forall_forall. intros k Hk. rewrite Forall_forall in IH, Hwk.
    eapply trie_inv_ext; [|apply (IH k Hk p0 (Hwk k Hk))].
    intros q Hq. apply paths_from_shape in Hq as [l ->].
    destruct (in_split _ _ Hk) as (l1 & l2 & ->).
    rewrite flat_map_app. cbn [flat_map]. rewrite !children_of_app.
    rewrite map_app in Hnd. cbn [map] in Hnd. apply NoDup_remove_2 in Hnd.
    assert (Hoff : forall l', (forall k', In k' l' -> tname k' <> tname k) ->
                   children_of (flat_map (paths_from p0) l') (p0 ++ tname k :: l) = []).
    { intros l' Hl'. apply children_of_nil. intros d x Hd E.
      apply in_flat_map in Hd as (k' & Hk' & Hd). apply paths_from_shape in Hd as [l0 ->].
      rewrite <- app_assoc in E. apply app_inv_head in E. cbn in E. inversion E.
      now apply (Hl' k' Hk'). }
    rewrite single_children_below.
    rewrite (Hoff l1), (Hoff l2).
    + now rewrite app_nil_r.
    + intros k' Hk' E. apply Hnd. apply in_or_app. right. rewrite <- E. now apply in_map.
    + intros k' Hk' E. apply Hnd. apply in_or_app. left. rewrite <- E. now apply in_map.
Qed.

Lemma SInv_self t : sib_ok t -> SInv (paths t) t.
Proof.
  intros Hw. split; [exact Hw|]. split; [apply (trie_inv_self t [] Hw)|]. split.
  - intros l H. exact H.
  - intros q H. exact H.
Qed.

(* extending an existing tree: the result is the trie of (its paths ++ all prefixes of the
   given paths), children in order of first appearance (the old children first, in their order) *)
Theorem add_rows_extends tsep sep rows t acc t' ps :
  sib_ok t -> add_rows t tsep sep true rows acc = (t', Ret ps) ->
  let all := dedup [] (paths t ++ closure (branches sep rows)) in
  paths t' = trie_pre (max_len all) all [tname t].
Proof. intros Hw. apply add_rows_trie_order. now apply SInv_self. Qed.

(* ======================================================================================== *)
(* 15. duplicate names disallowed: all names stay distinct                                    *)

Definition names (t : tree) : list str := map tname (pre t).

Lemma pre_unfold g n a ks : pre (T g n a ks) = T g n a ks :: flat_map pre ks.
Proof. reflexivity. Qed.

Lemma names_unfold g n a ks : names (T g n a ks) = n :: flat_map names ks.
Proof.
  unfold names. rewrite pre_unfold. cbn [map tname]. f_equal.
  induction ks as [|k ks IH]; [reflexivity|]. cbn [flat_map]. now rewrite map_app, IH.
Qed.

Lemma find_all_nil nm : forall t, find_all nm t = [] -> ~ In nm (names t).
Proof.
  induction t as [g n a ks IH] using tree_ind'. intros H. rewrite names_unfold.
  cbn [find_all] in H. apply app_eq_nil in H as [H1 H2].
  intros [E|Hin].
  - subst. rewrite str_eqb_refl in H1. discriminate.
  - clear H1. revert H2. generalize 0. induction ks as [|k ks IHk]; intros i H2; [contradiction|].
    inversion IH as [|? ? Hk Hks]; subst.
    apply app_eq_nil in H2 as [H2 H3]. cbn [flat_map] in Hin. apply in_app_or in Hin as [Hin|Hin].
    + apply Hk; [|exact Hin]. destruct (find_all nm k); [reflexivity|discriminate].
    + exact (IHk Hks Hin (S i) H3).
Qed.

Lemma flat_map_upd_nth_perm {A B} (F : A -> list B) (f : A -> A) (E : list B) : forall i l k,
  nth_error l i = Some k -> Permutation (F (f k)) (E ++ F k) ->
  Permutation (flat_map F (upd_nth i f l)) (E ++ flat_map F l).
Proof.
  induction i as [|i IH]; intros [|y l] k H HP; cbn in H; try discriminate.
  - inversion H; subst. cbn. rewrite HP. now rewrite app_assoc.
  - cbn [upd_nth flat_map]. rewrite (IH l k H HP).
    rewrite !app_assoc. apply Permutation_app_tail. apply Permutation_app_comm.
Qed.

Lemma names_add_kid c : forall parent t pt,
  subtree_at t parent = Some pt ->
  Permutation (names (upd_at parent (add_kid c) t)) (names c ++ names t).
Proof.
  induction parent as [|i parent IH]; intros t pt H; cbn in H.
  - inversion H; subst pt. destruct t as [g n a ks]. cbn [upd_at add_kid].
    rewrite !names_unfold, flat_map_app. cbn [flat_map]. rewrite app_nil_r.
    apply Permutation_cons_app. apply Permutation_app_comm.
  - destruct t as [g n a ks]. cbn [tkids] in H. rewrite upd_at_cons, !names_unfold.
    destruct (nth_error ks i) as [k|] eqn:Hk; [|discriminate].
    apply Permutation_cons_app.
    eapply flat_map_upd_nth_perm; [exact Hk|]. now apply (IH k pt).
Qed.

Lemma names_set_attrs p na : forall t, names (upd_at p (set_node_attrs na) t) = names t.
Proof.
  induction p as [|i p IH]; intros [g n a ks]; [reflexivity|].
  rewrite upd_at_cons, !names_unfold. f_equal. apply flat_map_upd_nth_eq. exact IH.
Qed.

(* one iteration of the loop with duplicate names disallowed keeps all names distinct *)
Lemma grow_step_false_names tsep t parent pref nm last na t' p :
  NoDup (names t) ->
  grow_step tsep false t parent pref nm last na = Ret (t', p) ->
  NoDup (names t').
Proof.
  intros Hn. unfold grow_step.
  destruct (find_all nm t) as [|q [|q' r]] eqn:F.
  - destruct (is_nil nm); [discriminate|].
    destruct (subtree_at t parent) as [pt|] eqn:Hp; [|discriminate].
    intros H. inversion H; subst. clear H.
    eapply Permutation_NoDup; [apply Permutation_sym; eapply names_add_kid; exact Hp|].
    rewrite names_unfold. cbn. constructor; [|exact Hn]. now apply find_all_nil.
  - destruct (str_eqb _ _); [|discriminate]. intros H. inversion H; subst. exact Hn.
  - discriminate.
Qed.

Lemma grow_false_names tsep na : forall rest t parent done t' p,
  NoDup (names t) ->
  grow tsep false t parent done rest na = (t', Ret p) ->
  NoDup (names t').
Proof.
  induction rest as [|nm rest IH]; intros t parent done t' p Hn H; cbn [grow] in H.
  - inversion H; subst. exact Hn.
  - destruct (grow_step tsep false t parent (done ++ [nm]) nm (is_nil rest) na) as [[t1 p1]|e] eqn:Hs;
      [|discriminate].
    apply (IH t1 p1 (done ++ [nm]) t' p); [|exact H].
    eapply grow_step_false_names; eauto.
Qed.

(* C05_no_dup_names (distinctness part): with duplicate_name_allowed = False, a tree with
   distinct names still has distinct names after an accepted call *)
Theorem add_path_false_names t tsep path sep na t' p :
  NoDup (names t) ->
  add_path_to_tree t tsep path sep false na = (t', Ret p) ->
  NoDup (names t').
Proof.
  intros Hn. unfold add_path_to_tree. destruct (is_nil path); [discriminate|].
  destruct (branch_of path sep) as [|b0 rest]; [discriminate|].
  destruct (negb (str_eqb b0 (tname t))); [discriminate|].
  destruct (grow tsep false t [] [b0] rest na) as [t1 [p1|e]] eqn:Hg; [|discriminate].
  intros H. inversion H; subst. rewrite names_set_attrs.
  eapply grow_false_names; eauto.
Qed.

Theorem add_rows_false_names tsep sep : forall rows t acc t' ps,
  NoDup (names t) ->
  add_rows t tsep sep false rows acc = (t', Ret ps) ->
  NoDup (names t').
Proof.
  induction rows as [|[path na] rows IH]; intros t acc t' ps Hn H; cbn [add_rows] in H.
  - inversion H; subst. exact Hn.
  - destruct (add_path_to_tree t tsep path sep false na) as [t1 [p|e]] eqn:Ha; [|discriminate].
    eapply IH; [|exact H]. eapply add_path_false_names; eauto.
Qed.

Theorem add_path_order t tsep path sep na t' p q s s' :
  add_path_to_tree t tsep path sep true na = (t', Ret p) ->
  subtree_at t q = Some s -> subtree_at t' q = Some s' ->
  exists extra, map tname (tkids s') = map tname (tkids s) ++ extra /\ length extra <= 1.
Proof.
  intros H Hs Hs'. destruct (add_path_reuses _ _ _ _ _ _ _ H) as [Hr _].
  destruct (Hr q s Hs) as (s1 & Hs1 & _ & _ & He). rewrite Hs' in Hs1. inversion Hs1; subst. exact He.
Qed.

(* ======================================================================================== *)
(* 16. duplicate names disallowed: an accepted call does what the permissive call does         *)

Definition find_all_kids (nm : str) :=
  fix go (i : nat) (l : list tree) : list pos :=
    match l with
    | [] => []
    | k :: r => map (cons i) (find_all nm k) ++ go (S i) r
    end.

Lemma find_all_unfold nm g n a ks :
  find_all nm (T g n a ks) = (if str_eqb n nm then [[]] else []) ++ find_all_kids nm 0 ks.
Proof. reflexivity. Qed.

Lemma find_all_kids_cons nm i k r :
  find_all_kids nm i (k :: r) = map (cons i) (find_all nm k) ++ find_all_kids nm (S i) r.
Proof. reflexivity. Qed.

Lemma find_all_sound nm : forall t q,
  In q (find_all nm t) -> exists s, subtree_at t q = Some s /\ tname s = nm.
Proof.
  induction t as [g n a ks IH] using tree_ind'. intros q H. rewrite find_all_unfold in H.
  apply in_app_or in H as [H|H].
  - destruct (str_eqb n nm) eqn:E; [|contradiction]. destruct H as [<-|[]].
    eexists. split; [reflexivity|]. now apply str_eqb_eq.
  - assert (G : forall i l, Forall (fun k => forall q, In q (find_all nm k) ->
                   exists s, subtree_at k q = Some s /\ tname s = nm) l ->
                 In q (find_all_kids nm i l) ->
                 exists j k q', q = (i + j) :: q' /\ nth_error l j = Some k /\
                                exists s, subtree_at k q' = Some s /\ tname s = nm).
    { intros i l. revert i. induction l as [|k l IHl]; intros i Hf Hin; [contradiction|].
      inversion Hf as [|? ? Hk Hl]; subst. rewrite find_all_kids_cons in Hin.
      apply in_app_or in Hin as [Hin|Hin].
      - apply in_map_iff in Hin as (q' & <- & Hq'). exists 0, k, q'. rewrite Nat.add_0_r.
        split; [reflexivity|]. split; [reflexivity|]. now apply Hk.
      - destruct (IHl (S i) Hl Hin) as (j & k' & q' & -> & Hj & Hs).
        exists (S j), k', q'. split; [f_equal; lia|]. split; [exact Hj|exact Hs]. }
    destruct (G 0 ks IH H) as (j & k & q' & -> & Hj & s & Hs & Hn).
    exists s. cbn [Nat.add subtree_at tkids]. rewrite Hj. auto.
Qed.

Lemma find_all_complete nm : forall t q s,
  subtree_at t q = Some s -> tname s = nm -> In q (find_all nm t).
Proof.
  induction t as [g n a ks IH] using tree_ind'. intros q s H Hn. rewrite find_all_unfold.
  apply in_or_app. destruct q as [|j q].
  - left. cbn in H. inversion H; subst s. cbn in Hn. subst. rewrite str_eqb_refl. now left.
  - right. cbn [subtree_at tkids] in H. destruct (nth_error ks j) as [k|] eqn:Hj; [|discriminate].
    assert (G : forall l i j0, Forall (fun k => forall q s, subtree_at k q = Some s -> tname s = nm ->
                   In q (find_all nm k)) l ->
                 nth_error l j0 = Some k -> In ((i + j0) :: q) (find_all_kids nm i l)).
    { induction l as [|x l IHl]; intros i j0 Hf Hj0; [destruct j0; discriminate|].
      inversion Hf as [|? ? Hx Hl]; subst. rewrite find_all_kids_cons. apply in_or_app.
      destruct j0 as [|j0]; cbn in Hj0.
      - inversion Hj0; subst x. left. rewrite Nat.add_0_r. apply in_map. eapply Hx; eauto.
      - right. replace (i + S j0) with (S i + j0) by lia. now apply IHl. }
    apply (G ks 0 j IH Hj).
Qed.

Lemma subtree_names_incl : forall q t s, subtree_at t q = Some s -> incl (names s) (names t).
Proof.
  induction q as [|i q IH]; intros t s H; cbn in H.
  - inversion H; subst. apply incl_refl.
  - destruct t as [g n a ks]. cbn [tkids] in H.
    destruct (nth_error ks i) as [k|] eqn:Hk; [|discriminate].
    intros x Hx. rewrite names_unfold. right. apply in_flat_map. exists k.
    split; [eapply nth_error_In; eauto|]. eapply IH; eauto.
Qed.

Lemma tname_in_names t : In (tname t) (names t).
Proof. destruct t. rewrite names_unfold. now left. Qed.

Lemma names_along_in : forall q t s x,
  subtree_at t q = Some s -> In x (names_along t q) -> In x (names t).
Proof.
  induction q as [|i q IH]; intros t s x H Hx.
  - cbn in Hx. destruct Hx as [<-|[]]. apply tname_in_names.
  - destruct t as [g n a ks]. cbn [subtree_at names_along tkids tname] in *.
    destruct (nth_error ks i) as [k|] eqn:Hk; [|discriminate].
    rewrite names_unfold. destruct Hx as [<-|Hx]; [now left|]. right.
    apply in_flat_map. exists k. split; [eapply nth_error_In; eauto|]. eapply IH; eauto.
Qed.

Lemma NoDup_app_disjoint {A} (l l' : list A) x : NoDup (l ++ l') -> In x l -> In x l' -> False.
Proof.
  induction l as [|y l IH]; intros Hn Hl Hl'; [contradiction|]. cbn in Hn.
  inversion Hn as [|? ? Hy Hr]; subst. destruct Hl as [->|Hl].
  - apply Hy. apply in_or_app. now right.
  - now apply IH.
Qed.

Lemma NoDup_app_inv {A} (l l' : list A) : NoDup (l ++ l') -> NoDup l /\ NoDup l'.
Proof.
  induction l as [|x l IH]; intros H; [split; [constructor|exact H]|].
  cbn in H. inversion H as [|? ? Hx Hr]; subst. destruct (IH Hr) as [H1 H2]. split; [|exact H2].
  constructor; [|exact H1]. intros Hin. apply Hx. apply in_or_app. now left.
Qed.

Lemma sib_ok_subtree : forall q t s, sib_ok t -> subtree_at t q = Some s -> sib_ok s.
Proof.
  induction q as [|i q IH]; intros t s Hw H; cbn in H.
  - inversion H; subst. exact Hw.
  - destruct (nth_error (tkids t) i) as [k|] eqn:Hk; [|discriminate].
    apply sib_ok_kids in Hw as [_ Hf]. rewrite Forall_forall in Hf.
    eapply IH; [|exact H]. apply Hf. eapply nth_error_In; eauto.
Qed.

Lemma NoDup_names_sib_ok : forall t, NoDup (names t) -> sib_ok t.
Proof.
  induction t as [g n a ks IH] using tree_ind'. intros Hn. rewrite names_unfold in Hn.
  inversion Hn as [|? ? _ Hf]; subst. clear Hn.
  assert (G : NoDup (map tname ks) /\ Forall sib_ok ks).
  { induction ks as [|k ks IHk]; [split; constructor|].
    inversion IH as [|? ? Hk Hks]; subst. cbn [flat_map] in Hf.
    destruct (NoDup_app_inv _ _ Hf) as [Hfk Hfr].
    destruct (IHk Hks Hfr) as [H1 H2]. split.
    - cbn. constructor; [|exact H1]. intros Hin. apply in_map_iff in Hin as (k' & E & Hk').
      apply (NoDup_app_disjoint _ _ (tname k) Hf); [apply tname_in_names|].
      apply in_flat_map. exists k'. split; [exact Hk'|]. rewrite <- E. apply tname_in_names.
    - constructor; [|exact H2]. apply Hk. exact Hfk. }
  destruct G. now constructor.
Qed.

(* joining with a single character that occurs in no component is injective *)
Lemma split_at_sep (c : N) : forall x x' r r',
  ~ In c x -> ~ In c x' -> x ++ c :: r = x' ++ c :: r' -> x = x' /\ r = r'.
Proof.
  induction x as [|a x IH]; intros [|a' x'] r r' H H' E; cbn in E.
  - inversion E. auto.
  - inversion E; subst. exfalso. apply H'. now left.
  - inversion E; subst. exfalso. apply H. now left.
  - inversion E; subst. destruct (IH x' r r') as [-> ->]; auto.
    + intros Hin. apply H. now right.
    + intros Hin. apply H'. now right.
Qed.

Lemma join_inj (c : N) : forall l1 l2 : list str,
  l1 <> [] -> l2 <> [] ->
  (forall x, In x l1 -> ~ In c x) -> (forall x, In x l2 -> ~ In c x) ->
  join [c] l1 = join [c] l2 -> l1 = l2.
Proof.
  induction l1 as [|x l1 IH]; intros [|y l2] H1 H2 C1 C2 E; try congruence.
  destruct l1 as [|x2 l1], l2 as [|y2 l2].
  - cbn in E. now subst.
  - rewrite join_single, join_cons in E. exfalso. apply (C1 x (or_introl eq_refl)).
    rewrite E. apply in_or_app. right. now left.
  - rewrite join_single, join_cons in E. exfalso. apply (C2 y (or_introl eq_refl)).
    rewrite <- E. apply in_or_app. right. now left.
  - rewrite !join_cons in E. cbn [app] in E.
    apply split_at_sep in E as [-> E]; [|apply C1; now left|apply C2; now left].
    f_equal. apply IH; try discriminate; [| |exact E].
    + intros z Hz. apply C1. now right.
    + intros z Hz. apply C2. now right.
Qed.

Lemma names_along_hd t q : exists l, names_along t q = tname t :: l.
Proof. destruct q; cbn; eauto. Qed.

Lemma names_along_child : forall parent t pt i k,
  subtree_at t parent = Some pt -> nth_error (tkids pt) i = Some k ->
  names_along t (parent ++ [i]) = names_along t parent ++ [tname k].
Proof.
  induction parent as [|j parent IH]; intros t pt i k H Hk; cbn in H.
  - inversion H; subst pt. cbn. now rewrite Hk.
  - cbn [app names_along]. destruct (nth_error (tkids t) j) as [kj|] eqn:Hj; [|discriminate].
    cbn [app]. f_equal. eapply IH; eauto.
Qed.

Lemma names_along_add_kid c : forall parent t pt,
  subtree_at t parent = Some pt ->
  names_along (upd_at parent (add_kid c) t) (parent ++ [length (tkids pt)])
  = names_along t parent ++ [tname c].
Proof.
  induction parent as [|j parent IH]; intros t pt H; cbn in H.
  - inversion H; subst pt. destruct t as [g n a ks]. cbn.
    rewrite nth_error_app2, Nat.sub_diag by lia. reflexivity.
  - destruct t as [g n a ks]. cbn [tkids] in H. rewrite upd_at_cons.
    cbn [app names_along tname tkids]. rewrite nth_error_upd_nth.
    destruct (nth_error ks j) as [kj|] eqn:Hj; [|discriminate]. cbn [option_map app].
    f_equal. now apply IH.
Qed.

(* a valid position whose name path extends the parent's by one name is a child of the parent *)
Lemma names_along_extends : forall parent t pt q s x,
  sib_ok t -> subtree_at t parent = Some pt -> subtree_at t q = Some s ->
  names_along t q = names_along t parent ++ [x] ->
  exists i k, q = parent ++ [i] /\ nth_error (tkids pt) i = Some k /\ tname k = x.
Proof.
  induction parent as [|j parent IH]; intros t pt q s x Hw Hp Hq E; cbn in Hp.
  - inversion Hp; subst pt. destruct q as [|i q]; [cbn in E; discriminate|].
    cbn [subtree_at names_along app] in *. destruct (nth_error (tkids t) i) as [k|] eqn:Hk; [|discriminate].
    inversion E as [E1]. destruct q as [|i' q].
    + cbn in E1. inversion E1. exists i, k. auto.
    + cbn [subtree_at names_along] in *. destruct (nth_error (tkids k) i'); [|discriminate].
      destruct (names_along_hd t0 q) as [l El]. rewrite El in E1. discriminate.
  - destruct t as [g n a ks]. cbn [tkids] in Hp.
    destruct (nth_error ks j) as [kj|] eqn:Hj; [|discriminate].
    cbn [names_along tname tkids] in E. rewrite Hj in E.
    destruct q as [|i q].
    + cbn in E. inversion E as [E1]. destruct (names_along_hd kj parent) as [l El].
      rewrite El in E1. discriminate.
    + cbn [subtree_at names_along tname tkids app] in *.
      destruct (nth_error ks i) as [ki|] eqn:Hi; [|discriminate].
      inversion E as [E1].
      apply sib_ok_kids in Hw as [Hnd Hwk]. cbn [tkids] in *.
      assert (i = j).
      { destruct (names_along_hd ki q) as [l1 E2]. destruct (names_along_hd kj parent) as [l2 E3].
        rewrite E2, E3 in E1. cbn in E1. inversion E1 as [Hname].
        eapply (proj1 (NoDup_nth_error (map tname ks))); [exact Hnd| |].
        - rewrite map_length. apply nth_error_Some. congruence.
        - rewrite !nth_error_map, Hi, Hj. cbn. now f_equal. }
      subst i. rewrite Hj in Hi. inversion Hi; subst ki.
      rewrite Forall_forall in Hwk.
      destruct (IH kj pt q s x (Hwk kj (nth_error_In _ _ Hj)) Hp Hq E1) as (i & k & -> & Hk & Hn).
      exists i, k. auto.
Qed.

Definition clean (c : N) (t : tree) : Prop := forall x, In x (names t) -> ~ In c x.
(* the same for a separator of any length: no character of it occurs in any node name *)
Definition cleans (sp : str) (t : tree) : Prop := forall x, In x (names t) -> sfree sp x.

Lemma clean_cleans c t : clean c t <-> cleans [c] t.
Proof. split; intros H x Hx; [apply sfree_one|apply sfree_one]; now apply H. Qed.

Lemma join_inj_multi sp (l1 l2 : list str) :
  sp <> [] -> l1 <> [] -> l2 <> [] -> Forall (sfree sp) l1 -> Forall (sfree sp) l2 ->
  join sp l1 = join sp l2 -> l1 = l2.
Proof.
  intros Hs H1 H2 F1 F2 E. destruct sp as [|a sp']; [congruence|].
  rewrite <- (split_join_multi a sp' l1 H1 F1), <- (split_join_multi a sp' l2 H2 F2). now rewrite E.
Qed.

Lemma grow_step_false_true tsep t parent pt done nm last na t' p :
  tsep <> [] -> NoDup (names t) -> cleans tsep t -> sfree tsep nm ->
  subtree_at t parent = Some pt -> names_along t parent = done ->
  grow_step tsep false t parent (done ++ [nm]) nm last na = Ret (t', p) ->
  grow_step tsep true t parent (done ++ [nm]) nm last na = Ret (t', p)
  /\ (exists pt', subtree_at t' p = Some pt') /\ names_along t' p = done ++ [nm] /\ cleans tsep t'.
Proof.
  intros Hts Hn Hc Hnm Hp Hd. pose proof (NoDup_names_sib_ok t Hn) as Hw.
  unfold grow_step. rewrite Hp.
  destruct (find_all nm t) as [|q [|q' r]] eqn:F; [| |discriminate].
  - (* no node of that name anywhere: both create it *)
    assert (Fi : find_idx nm 0 (tkids pt) = []).
    { destruct (find_idx nm 0 (tkids pt)) as [|i l] eqn:Fi; [reflexivity|]. exfalso.
      assert (Hi : In i (find_idx nm 0 (tkids pt))) by (rewrite Fi; now left).
      apply find_idx_spec in Hi as [_ (k & Hk & Hname)]. rewrite Nat.sub_0_r in Hk.
      apply (find_all_nil nm t F).
      apply (subtree_names_incl parent t pt Hp). destruct pt as [g n a ks]. rewrite names_unfold.
      right. apply in_flat_map. exists k. split; [eapply nth_error_In; eauto|].
      rewrite <- Hname. apply tname_in_names. }
    rewrite Fi. destruct (is_nil nm); [discriminate|]. intros H. inversion H; subst. clear H.
    split; [reflexivity|]. split; [|split].
    + rewrite subtree_at_app, (subtree_upd_at _ _ _ _ Hp). destruct pt as [g n a ks]. cbn.
      rewrite nth_error_app2, Nat.sub_diag by lia. cbn. eauto.
    + now rewrite (names_along_add_kid _ _ _ _ Hp).
    + intros x Hx. eapply Permutation_in in Hx; [|eapply names_add_kid; exact Hp].
      rewrite names_unfold in Hx. cbn in Hx. destruct Hx as [<-|Hx]; [exact Hnm|now apply Hc].
  - (* exactly one node of that name, and the full-path comparison succeeded *)
    destruct (str_eqb (path_name tsep t q) (tsep ++ join tsep (names_along t parent ++ [nm]))) eqn:E;
      [|rewrite <- Hd; rewrite E; discriminate].
    rewrite <- Hd. rewrite E. intros H. inversion H; subst t' p. clear H.
    assert (Hq : In q (find_all nm t)) by (rewrite F; now left).
    destruct (find_all_sound nm t q Hq) as (s & Hs & Hsn).
    apply str_eqb_eq in E. unfold path_name in E. apply app_inv_head in E.
    apply (join_inj_multi tsep) in E.
    + destruct (names_along_extends parent t pt q s nm Hw Hp Hs E) as (i & k & -> & Hk & Hkn).
      pose proof (find_idx_complete nm 0 _ i k Hk Hkn) as Hin. cbn [Nat.add] in Hin.
      pose proof (find_idx_nodup nm 0 _ (proj1 (sib_ok_kids pt
                    (sib_ok_subtree _ _ _ Hw Hp)))) as Hlen.
      destruct (find_idx nm 0 (tkids pt)) as [|i0 [|i1 l]]; [contradiction| |cbn in Hlen; lia].
      destruct Hin as [->|[]]. split; [reflexivity|]. split; [eauto|]. split; [exact E|exact Hc].
    + exact Hts.
    + destruct (names_along_hd t q) as [l ->]. discriminate.
    + destruct (names_along t parent); discriminate.
    + apply Forall_forall. intros x Hx. apply Hc. apply (names_along_in q t s x Hs Hx).
    + apply Forall_forall. intros x Hx. apply in_app_or in Hx as [Hx|[<-|[]]]; [|exact Hnm].
      apply Hc. apply (names_along_in parent t pt x Hp Hx).
Qed.

Lemma grow_false_true tsep na : tsep <> [] -> forall rest t parent pt done t' p,
  NoDup (names t) -> cleans tsep t -> Forall (sfree tsep) rest ->
  subtree_at t parent = Some pt -> names_along t parent = done ->
  grow tsep false t parent done rest na = (t', Ret p) ->
  grow tsep true t parent done rest na = (t', Ret p).
Proof.
  intros Hts. induction rest as [|nm rest IH]; intros t parent pt done t' p Hn Hc Hr Hp Hd H; cbn [grow] in *.
  - exact H.
  - inversion Hr as [|? ? Hnm Hrest]; subst.
    match type of H with context [grow_step ?a1 ?a2 ?a3 ?a4 ?a5 ?a6 ?a7 ?a8] =>
      destruct (grow_step a1 a2 a3 a4 a5 a6 a7 a8) as [[t1 p1]|e] eqn:Hs; [|discriminate H] end.
    destruct (grow_step_false_true tsep t parent pt _ nm _ na t1 p1 Hts Hn Hc Hnm Hp eq_refl Hs)
      as (Ht & (pt1 & Hp1) & Hn1 & Hc1).
    match goal with |- context [grow_step ?a1 true ?a3 ?a4 ?a5 ?a6 ?a7 ?a8] =>
      replace (grow_step a1 true a3 a4 a5 a6 a7 a8) with (Ret (t1, p1)) by (symmetry; exact Ht) end.
    apply (IH t1 p1 pt1 _ t' p); auto.
    eapply grow_step_false_names; eauto.
Qed.

(* C05_no_dup_names, second half.  Guard: no character of the tree's separator (any positive
   length) occurs in a node name or in a component of the path, so that the full-path comparison of
   the code, a comparison of joined strings, identifies nodes. *)
Theorem add_path_false_true_multi tsep t path sep na t' p :
  tsep <> [] -> NoDup (names t) -> cleans tsep t -> Forall (sfree tsep) (branch_of path sep) ->
  add_path_to_tree t tsep path sep false na = (t', Ret p) ->
  add_path_to_tree t tsep path sep true na = (t', Ret p).
Proof.
  intros Hts Hn Hc Hb. unfold add_path_to_tree. destruct (is_nil path); [discriminate|].
  destruct (branch_of path sep) as [|b0 rest]; [discriminate|].
  destruct (str_eqb b0 (tname t)) eqn:E; cbn [negb]; [|discriminate].
  apply str_eqb_eq in E. subst b0.
  destruct (grow tsep false t [] [tname t] rest na) as [t1 [p1|e]] eqn:Hg; [|discriminate].
  intros H. inversion H; subst. clear H.
  rewrite (grow_false_true tsep na Hts rest t [] t [tname t] t1 p Hn Hc); auto.
  now inversion Hb.
Qed.

(* the one-character instance *)
Theorem add_path_false_true c t path sep na t' p :
  NoDup (names t) -> clean c t -> (forall x, In x (branch_of path sep) -> ~ In c x) ->
  add_path_to_tree t [c] path sep false na = (t', Ret p) ->
  add_path_to_tree t [c] path sep true na = (t', Ret p).
Proof.
  intros Hn Hc Hb. apply add_path_false_true_multi; [discriminate|exact Hn|now apply clean_cleans|].
  apply Forall_forall. intros x Hx. apply sfree_one. now apply Hb.
Qed.

(* ======================================================================================== *)
(* 17. the constructors that start from a fresh root (possibly with attributes)               *)

Lemma SInv_root_attrs r a : SInv [[r]] (T None r a []).
Proof.
  split; [constructor; constructor|]. split; [|split].
  - cbn. auto.
  - intros l [E|[]]. cbn in *. now left.
  - intros q H. exact H.
Qed.

Lemma build_closure r a tsep sep rows t' ps :
  add_rows (T None r a []) tsep sep true rows [] = (t', Ret ps) ->
  tname t' = r
  /\ (forall q, In q (paths t') <-> q = [r] \/ In q (closure (branches sep rows)))
  /\ paths t' = trie_pre (max_len (dedup [] ([r] :: closure (branches sep rows))))
                         (dedup [] ([r] :: closure (branches sep rows))) [r].
Proof.
  intros Ha.
  destruct (add_rows_SInv _ _ _ _ _ _ _ _ (SInv_root_attrs r a) Ha) as [_ Hn]. cbn [tname] in Hn.
  split; [exact Hn|]. split.
  - intros q. rewrite (add_rows_paths _ _ _ _ _ _ _ Ha q). cbn. intuition congruence.
  - exact (add_rows_trie_order _ _ _ _ _ _ _ _ (SInv_root_attrs r a) Ha).
Qed.

Theorem dict_to_tree_closure d sep t' :
  dict_to_tree d sep true = Ret t' ->
  let bs := map (fun r => branch_of (fst r) sep) d in
  let all := dedup [] ([tname t'] :: closure bs) in
  (forall q, In q (paths t') <-> q = [tname t'] \/ In q (closure bs))
  /\ paths t' = trie_pre (max_len all) all [tname t'].
Proof.
  unfold dict_to_tree. destruct d as [|[k0 a0] d0]; [discriminate|].
  set (d := (k0, a0) :: d0). set (r := hd [] (branch_of k0 sep)).
  match goal with |- context [set_attrs [] ?x] => set (ra := x) end.
  destruct (is_nil r); [discriminate|].
  match goal with |- context [add_rows ?a1 ?a2 ?a3 ?a4 ?a5 ?a6] =>
    destruct (add_rows a1 a2 a3 a4 a5 a6) as [t1 [ps1|e]] eqn:Ha; [|discriminate] end.
  intros E. inversion E; subst t1. clear E.
  destruct (build_closure _ _ _ _ _ _ _ Ha) as (Hn & Hp & Ht).
  unfold branches in Hp, Ht. rewrite map_map in Hp, Ht. cbn [fst] in Hp, Ht.
  rewrite Hn. split; [exact Hp|exact Ht].
Qed.

Theorem frame_to_tree_closure rows pcol sep t' :
  frame_to_tree rows pcol sep true = Ret t' ->
  let bs := map (fun r => branch_of (fst r) sep) (strip_rows rows sep) in
  let all := dedup [] ([tname t'] :: closure bs) in
  (forall q, In q (paths t') <-> q = [tname t'] \/ In q (closure bs))
  /\ paths t' = trie_pre (max_len all) all [tname t'].
Proof.
  unfold frame_to_tree. destruct (strip_rows rows sep) as [|[p0 a0] rows0]; [discriminate|].
  cbv zeta.
  match goal with |- context [has_duplicate_attribute ?x] =>
    set (rows1 := x); destruct (has_duplicate_attribute rows1); [discriminate|] end.
  set (r := hd [] (split p0 sep)).
  match goal with |- context [set_attrs [] ?x] => set (kw := x) end.
  destruct (is_nil r); [discriminate|].
  match goal with |- context [add_rows ?a1 ?a2 ?a3 ?a4 ?a5 ?a6] =>
    destruct (add_rows a1 a2 a3 a4 a5 a6) as [t1 [ps1|e]] eqn:Ha; [|discriminate] end.
  intros E. inversion E; subst t1. clear E.
  destruct (build_closure _ _ _ _ _ _ _ Ha) as (Hn & Hp & Ht).
  unfold branches in Hp, Ht. rewrite map_map in Hp, Ht. cbn [fst] in Hp, Ht.
  rewrite Hn. split; [exact Hp|exact Ht].
Qed.

(* ======================================================================================== *)
(* 18. the separator chosen does not matter (single-character separators)                     *)

Lemma startswith_single c ch s : startswith (ch :: s) [c] = N.eqb c ch.
Proof. cbn. now rewrite andb_true_r. Qed.

Lemma split_go_word c : forall x cur rest fuel,
  ~ In c x -> length x <= fuel ->
  split_go fuel [c] cur (x ++ rest) = split_go (fuel - length x) [c] (rev x ++ cur) rest.
Proof.
  induction x as [|ch x IH]; intros cur rest fuel Hc Hf.
  - cbn. now rewrite Nat.sub_0_r.
  - destruct fuel as [|fuel]; [cbn in Hf; lia|].
    cbn [app split_go]. rewrite startswith_single.
    destruct (N.eqb c ch) eqn:E; [apply N.eqb_eq in E; subst; exfalso; apply Hc; now left|].
    rewrite IH; [|intros H; apply Hc; now right|cbn in Hf; lia].
    cbn [length rev Nat.sub]. now rewrite <- app_assoc.
Qed.

Lemma split_go_join c : forall nms cur fuel,
  nms <> [] -> (forall x, In x nms -> ~ In c x) -> length (join [c] nms) < fuel ->
  split_go fuel [c] cur (join [c] nms) = (rev cur ++ hd [] nms) :: tl nms.
Proof.
  induction nms as [|x nms IH]; intros cur fuel Hne Hc Hf; [congruence|].
  destruct nms as [|y nms].
  - rewrite join_single in *. rewrite <- (app_nil_r x) at 1.
    rewrite split_go_word; [|apply Hc; now left|lia].
    destruct (fuel - length x) eqn:Ef; [lia|]. cbn. now rewrite rev_app_distr, rev_involutive.
  - rewrite join_cons in *. cbn [app] in *. rewrite app_length in Hf. cbn [length] in Hf.
    rewrite split_go_word; [|apply Hc; now left|lia].
    destruct (fuel - length x) as [|f] eqn:Ef; [lia|].
    cbn [split_go]. rewrite startswith_single, N.eqb_refl. cbn [skipn length].
    rewrite IH; [|discriminate|intros z Hz; apply Hc; now right|unfold str in *; cbn [length] in *; lia].
    cbn [rev app hd tl]. now rewrite rev_app_distr, rev_involutive.
Qed.

Lemma split_join c nms :
  nms <> [] -> (forall x, In x nms -> ~ In c x) -> split (join [c] nms) [c] = nms.
Proof.
  intros Hne Hc. unfold split. rewrite split_go_join; auto.
  destruct nms; [congruence|reflexivity].
Qed.

Lemma lstrip_id c s : (forall x r, s = x :: r -> x <> c) -> lstrip s [c] = s.
Proof.
  intros H. destruct s as [|x r]; [reflexivity|]. cbn.
  destruct (N.eqb x c) eqn:E; [apply N.eqb_eq in E; exfalso; now apply (H x r eq_refl)|reflexivity].
Qed.

Lemma rstrip_id c s : (forall x r, rev s = x :: r -> x <> c) -> rstrip s [c] = s.
Proof. intros H. unfold rstrip. rewrite lstrip_id; [apply rev_involutive|exact H]. Qed.

Lemma join_head c x nms ch r :
  x = ch :: r -> exists r', join [c] (x :: nms) = ch :: r'.
Proof. intros ->. destruct nms; [rewrite join_single|rewrite join_cons]; cbn; eauto. Qed.

Lemma join_cons_ne (sp x : str) l : l <> [] -> join sp (x :: l) = x ++ sp ++ join sp l.
Proof. destruct l; [congruence|reflexivity]. Qed.

Lemma join_last c : forall nms y ch r,
  rev y = ch :: r -> exists r', rev (join [c] (nms ++ [y])) = ch :: r'.
Proof.
  induction nms as [|x nms IH]; intros y ch r Hy.
  - cbn [app]. rewrite join_single. eauto.
  - cbn [app]. rewrite join_cons_ne by (destruct nms; discriminate).
    rewrite !rev_app_distr. destruct (IH y ch r Hy) as [r' ->]. cbn. eauto.
Qed.

(* a path string is read back as its list of nms *)
Lemma branch_of_join c nms :
  nms <> [] -> (forall x, In x nms -> ~ In c x) -> hd [] nms <> [] -> last nms [] <> [] ->
  branch_of (join [c] nms) [c] = nms.
Proof.
  intros Hne Hc Hh Hl. unfold branch_of.
  rewrite lstrip_id.
  - rewrite rstrip_id; [now apply split_join|].
    intros x r E. destruct (exists_last Hne) as (l & y & ->).
    rewrite last_last in Hl. destruct (rev y) as [|ch r0] eqn:Ey.
    + apply (f_equal (@rev N)) in Ey. rewrite rev_involutive in Ey. cbn in Ey. congruence.
    + destruct (join_last c l y ch r0 Ey) as [r' E']. rewrite E' in E. inversion E; subst.
      intros ->. apply (Hc y); [apply in_or_app; right; now left|].
      apply in_rev. rewrite Ey. now left.
  - intros x r E. destruct nms as [|n0 nms]; [congruence|]. cbn [hd] in Hh.
    destruct n0 as [|ch r0]; [congruence|].
    destruct (join_head c (ch :: r0) nms ch r0 eq_refl) as [r' E']. rewrite E' in E.
    inversion E; subst. intros ->. apply (Hc (c :: r0)); now left.
Qed.

(* C05_sep_independent *)
Theorem add_path_sep_independent c1 c2 nms t tsep dup na :
  nms <> [] -> hd [] nms <> [] -> last nms [] <> [] ->
  (forall x, In x nms -> ~ In c1 x /\ ~ In c2 x) ->
  add_path_to_tree t tsep (join [c1] nms) [c1] dup na
  = add_path_to_tree t tsep (join [c2] nms) [c2] dup na.
Proof.
  intros Hne Hh Hl Hc. unfold add_path_to_tree.
  rewrite !branch_of_join; auto; try (intros x Hx; now apply Hc).
  destruct nms as [|n0 nms]; [congruence|]. cbn [hd] in Hh. destruct n0 as [|ch r0]; [congruence|].
  destruct (join_head c1 (ch :: r0) nms ch r0 eq_refl) as [r1 ->].
  destruct (join_head c2 (ch :: r0) nms ch r0 eq_refl) as [r2 ->]. reflexivity.
Qed.

(* the specification's reading of a path string (Spec/PC05.v spec_parse) agrees with the code's
   on rendered name lists *)
Lemma drop_empty_id l : hd [] l <> [] -> drop_empty l = l.
Proof. destruct l as [|[|ch x] l]; cbn; congruence. Qed.

Lemma hd_rev_last (l : list str) : hd [] (rev l) = last l [].
Proof.
  destruct l as [|x l] using rev_ind; [reflexivity|]. now rewrite rev_app_distr, last_last.
Qed.

Theorem spec_parse_join c nms :
  nms <> [] -> (forall x, In x nms -> ~ In c x) -> hd [] nms <> [] -> last nms [] <> [] ->
  spec_parse (join [c] nms) [c] = nms /\ branch_of (join [c] nms) [c] = nms.
Proof.
  intros Hne Hc Hh Hl. split; [|now apply branch_of_join].
  unfold spec_parse. rewrite split_join by assumption.
  rewrite (drop_empty_id nms Hh), drop_empty_id; [apply rev_involutive|].
  now rewrite hd_rev_last.
Qed.

(* ======================================================================================== *)
(* 19. attributes by node name (add_dict_to_tree_by_name and the frame variants)              *)

Lemma by_name_apply_unfold d g n a ks :
  by_name_apply d (T g n a ks)
  = T g n (match dict_get d n with
           | Some na => set_attrs a (filter_attributes na [k_name] false)
           | None => a
           end) (map (by_name_apply d) ks).
Proof. reflexivity. Qed.

Lemma subtree_by_name d : forall q t,
  subtree_at (by_name_apply d t) q = option_map (by_name_apply d) (subtree_at t q).
Proof.
  induction q as [|i q IH]; intros [g n a ks]; [reflexivity|].
  rewrite by_name_apply_unfold. cbn [subtree_at tkids]. rewrite nth_error_map.
  destruct (nth_error ks i) as [k|]; [apply IH|reflexivity].
Qed.

Lemma paths_from_by_name d : forall t pfx, paths_from pfx (by_name_apply d t) = paths_from pfx t.
Proof.
  induction t as [g n a ks IH] using tree_ind'. intros pfx.
  rewrite by_name_apply_unfold, !paths_from_unfold. f_equal. rewrite flat_map_map.
  apply flat_map_ext_in. intros k Hk. rewrite Forall_forall in IH. now apply IH.
Qed.

Definition tags (t : tree) : list (option nat) := map ttag (pre t).

Lemma tags_unfold g n a ks : tags (T g n a ks) = g :: flat_map tags ks.
Proof.
  unfold tags. rewrite pre_unfold. cbn [map ttag]. f_equal.
  induction ks as [|k ks IH]; [reflexivity|]. cbn [flat_map]. now rewrite map_app, IH.
Qed.

Lemma tags_by_name d : forall t, tags (by_name_apply d t) = tags t.
Proof.
  induction t as [g n a ks IH] using tree_ind'.
  rewrite by_name_apply_unfold, !tags_unfold. f_equal. rewrite flat_map_map.
  apply flat_map_ext_in. intros k Hk. rewrite Forall_forall in IH. now apply IH.
Qed.

(* shape, names and node objects are untouched; a node gets the attributes of the entry with its
   name (minus the key "name"), every other node keeps what it had *)
Theorem by_name_exact d t :
  paths (by_name_apply d t) = paths t
  /\ map ttag (pre (by_name_apply d t)) = map ttag (pre t)
  /\ (forall q, subtree_at t q = None -> subtree_at (by_name_apply d t) q = None)
  /\ (forall q s, subtree_at t q = Some s ->
        exists s', subtree_at (by_name_apply d t) q = Some s' /\
                   ttag s' = ttag s /\ tname s' = tname s /\
                   map tname (tkids s') = map tname (tkids s) /\
                   tattrs s' = match dict_get d (tname s) with
                               | Some na => set_attrs (tattrs s) (filter_attributes na [k_name] false)
                               | None => tattrs s
                               end).
Proof.
  split; [apply paths_from_by_name|]. split; [apply tags_by_name|]. split.
  - intros q H. now rewrite subtree_by_name, H.
  - intros q s H. exists (by_name_apply d s). rewrite subtree_by_name, H. split; [reflexivity|].
    destruct s as [g n a ks]. rewrite by_name_apply_unfold. cbn [ttag tname tattrs tkids].
    repeat split. rewrite map_map. apply map_ext. intros [g' n' a' ks']. reflexivity.
Qed.

Theorem add_dict_by_name_exact t d t' :
  add_dict_to_tree_by_name t d = Ret t' -> d <> [] /\ t' = by_name_apply d t.
Proof.
  unfold add_dict_to_tree_by_name. destruct d; [discriminate|]. intros H. inversion H. split; [discriminate|reflexivity].
Qed.

(* the frame variants: refused when a name carries two different attribute rows; otherwise the
   first row of every name, nulls dropped, applied as above *)
Definition frame_name_attrs (rows : list row) : list row :=
  map (fun r => (fst r, filter (fun kv => negb (isnull (snd kv))) (snd r))) (first_rows [] rows).

Theorem add_frame_by_name_exact t rows t' :
  add_frame_to_tree_by_name t rows = Ret t' ->
  rows <> [] /\ has_duplicate_attribute rows = false /\ t' = by_name_apply (frame_name_attrs rows) t.
Proof.
  unfold add_frame_to_tree_by_name. destruct rows as [|r rows]; [discriminate|].
  destruct (has_duplicate_attribute (r :: rows)); [discriminate|].
  intros H. apply add_dict_by_name_exact in H as [_ ->]. repeat split. discriminate.
Qed.

Lemma dict_get_map_first (f : attrs -> attrs) nm : forall rows seen,
  ~ In nm seen ->
  dict_get (map (fun r => (fst r, f (snd r))) (first_rows seen rows)) nm
  = option_map f (dict_get rows nm).
Proof.
  induction rows as [|[k a] rows IH]; intros seen Hs; [reflexivity|]. cbn [first_rows dict_get].
  destruct (existsb (str_eqb k) seen) eqn:E.
  - destruct (str_eqb k nm) eqn:Ek.
    + apply str_eqb_eq in Ek. subst. apply existsb_exists in E as (x & Hx & Ex).
      apply str_eqb_eq in Ex. subst. contradiction.
    + now apply IH.
  - cbn [map dict_get fst snd]. destruct (str_eqb k nm) eqn:Ek; [reflexivity|].
    apply IH. intros [->|H]; [rewrite str_eqb_refl in Ek; discriminate|contradiction].
Qed.

(* so a node named nm gets the non-null attributes of the first row for nm *)
Corollary frame_name_attrs_get rows nm :
  dict_get (frame_name_attrs rows) nm
  = option_map (filter (fun kv => negb (isnull (snd kv)))) (dict_get rows nm).
Proof. unfold frame_name_attrs. apply dict_get_map_first. intros []. Qed.

(* ======================================================================================== *)
(* 20. pre-order lists versus positions                                                       *)

Lemma Forall2_flat_map {A B C} (R : B -> C -> Prop) (F : A -> list B) (G : A -> list C) l :
  (forall k, In k l -> Forall2 R (F k) (G k)) -> Forall2 R (flat_map F l) (flat_map G l).
Proof.
  induction l as [|x l IH]; intros H; [constructor|]. cbn [flat_map].
  apply Forall2_app; [apply H; now left|]. apply IH. intros k Hk. apply H. now right.
Qed.

Lemma Forall2_weaken {A B} (R R' : A -> B -> Prop) l m :
  (forall x y, R x y -> R' x y) -> Forall2 R l m -> Forall2 R' l m.
Proof. intros H F. induction F; constructor; auto. Qed.

(* the i-th path of `paths` is the name path of the i-th node of `pre` *)
Lemma lockstep : forall t pfx,
  Forall2 (fun p s => exists q, subtree_at t q = Some s /\ p = pfx ++ names_along t q)
          (paths_from pfx t) (pre t).
Proof.
  induction t as [g n a ks IH] using tree_ind'. intros pfx.
  rewrite paths_from_unfold, pre_unfold. constructor.
  - exists []. split; reflexivity.
  - apply Forall2_flat_map. intros k Hk. rewrite Forall_forall in IH.
    destruct (In_nth_error _ _ Hk) as [i Hi].
    eapply Forall2_weaken; [|apply (IH k Hk (pfx ++ [n]))].
    intros p s (q & Hq & ->). exists (i :: q). cbn [subtree_at names_along tkids tname].
    rewrite Hi. split; [exact Hq|]. now rewrite <- app_assoc.
Qed.

Lemma valid_in_paths : forall q t s pfx,
  subtree_at t q = Some s -> In (pfx ++ names_along t q) (paths_from pfx t).
Proof.
  induction q as [|i q IH]; intros t s pfx H.
  - cbn. apply paths_from_head.
  - destruct t as [g n a ks]. cbn [subtree_at names_along tkids tname] in *.
    destruct (nth_error ks i) as [k|] eqn:Hk; [|discriminate].
    rewrite paths_from_unfold. right. apply in_flat_map. exists k.
    split; [eapply nth_error_In; eauto|].
    replace (pfx ++ n :: names_along k q) with ((pfx ++ [n]) ++ names_along k q)
      by (now rewrite <- app_assoc).
    eapply IH; eauto.
Qed.

Lemma in_paths_valid t pfx p :
  In p (paths_from pfx t) -> exists q s, subtree_at t q = Some s /\ p = pfx ++ names_along t q.
Proof.
  intros H. pose proof (lockstep t pfx) as L.
  revert H. induction L as [|x y l l' Hxy _ IH]; intros H; [contradiction|].
  destruct H as [<-|H]; [|now apply IH]. destruct Hxy as (q & Hq & ->). eauto.
Qed.

Lemma Forall2_forallb2 {A B} (R : A -> B -> Prop) (f : A -> B -> bool) l m :
  Forall2 R l m -> (forall x y, R x y -> f x y = true) -> forallb2 f l m = true.
Proof.
  intros H Hf. induction H as [|x y l m Hxy _ IH]; [reflexivity|]. cbn. now rewrite (Hf _ _ Hxy), IH.
Qed.

Lemma Forall2_map_eq {A B C} (R : A -> B -> Prop) (f : A -> C) (g : B -> C) l m :
  Forall2 R l m -> (forall x y, R x y -> f x = g y) -> map f l = map g m.
Proof.
  intros H Hf. induction H as [|x y l m Hxy _ IH]; [reflexivity|]. cbn. now rewrite (Hf _ _ Hxy), IH.
Qed.

(* a per-node statement, indexed by position, lifts to the pre-order lists *)
Lemma positions_forallb2 (P : path -> tree -> bool) t :
  (forall q s, subtree_at t q = Some s -> P (names_along t q) s = true) ->
  forallb2 P (paths t) (pre t) = true.
Proof.
  intros H. eapply Forall2_forallb2; [apply (lockstep t [])|].
  intros p s (q & Hq & ->). now apply H.
Qed.

Lemma positions_map_eq {C} (f : tree -> C) (g : path -> C) t :
  (forall q s, subtree_at t q = Some s -> f s = g (names_along t q)) ->
  map f (pre t) = map g (paths t).
Proof.
  intros H. symmetry. eapply Forall2_map_eq; [apply (lockstep t [])|].
  intros p s (q & Hq & ->). symmetry. now apply H.
Qed.

Lemma assoc_path_In {A} (p : path) (v : A) l :
  NoDup (map fst l) -> In (p, v) l -> assoc_path p l = Some v.
Proof.
  induction l as [|[q w] l IH]; intros Hn Hin; [contradiction|]. cbn [assoc_path].
  cbn in Hn. inversion Hn as [|? ? Hq Hl]; subst.
  destruct Hin as [E|Hin].
  - inversion E; subst. now rewrite path_eqb_refl.
  - destruct (path_eqb q p) eqn:E; [|now apply IH].
    apply path_eqb_eq in E. subst. exfalso. apply Hq.
    change p with (fst (p, v)). now apply in_map.
Qed.

Lemma assoc_path_None {A} (p : path) (l : list (path * A)) :
  ~ In p (map fst l) -> assoc_path p l = None.
Proof.
  induction l as [|[q w] l IH]; intros H; [reflexivity|]. cbn [assoc_path].
  destruct (path_eqb q p) eqn:E.
  - apply path_eqb_eq in E. subst. exfalso. apply H. now left.
  - apply IH. intros Hin. apply H. now right.
Qed.

Lemma combine_fst_eq {A B} (l : list A) (m : list B) : length l = length m -> map fst (combine l m) = l.
Proof.
  revert m; induction l as [|x l IH]; intros [|y m] H; cbn in *; try discriminate; [reflexivity|].
  f_equal. apply IH. lia.
Qed.

Lemma Forall2_In_combine {A B} (R : A -> B -> Prop) l m x y :
  Forall2 R l m -> In (x, y) (combine l m) -> R x y.
Proof.
  intros H. induction H as [|a b l m Hab _ IH]; intros Hin; [contradiction|].
  destruct Hin as [E|Hin]; [inversion E; subst; exact Hab|now apply IH].
Qed.

Lemma Forall2_len {A B} (R : A -> B -> Prop) l m : Forall2 R l m -> length l = length m.
Proof. intros H. induction H; cbn; congruence. Qed.

Lemma NoDup_app_intro {A} (l l' : list A) :
  NoDup l -> NoDup l' -> (forall x, In x l -> In x l' -> False) -> NoDup (l ++ l').
Proof.
  induction l as [|x l IH]; intros H1 H2 Hd; [exact H2|]. cbn. inversion H1 as [|? ? Hx Hl]; subst.
  constructor.
  - intros Hin. apply in_app_or in Hin as [Hin|Hin]; [contradiction|]. apply (Hd x); [now left|exact Hin].
  - apply IH; auto. intros y Hy Hy'. apply (Hd y); [now right|exact Hy'].
Qed.

Lemma paths_pre_length t : length (paths t) = length (pre t).
Proof. eapply Forall2_len. apply (lockstep t []). Qed.


(* ======================================================================================== *)
(* 21. name paths identify positions; they are stable under insertion                         *)

Lemma names_along_len2 t i q s : subtree_at t (i :: q) = Some s -> exists x y l, names_along t (i :: q) = x :: y :: l.
Proof.
  cbn. destruct (nth_error (tkids t) i) as [k|]; [|discriminate]. intros _.
  destruct (names_along_hd k q) as [l ->]. eauto.
Qed.

Lemma names_along_inj : forall q1 t q2 s1 s2,
  sib_ok t -> subtree_at t q1 = Some s1 -> subtree_at t q2 = Some s2 ->
  names_along t q1 = names_along t q2 -> q1 = q2.
Proof.
  induction q1 as [|i q1 IH]; intros t q2 s1 s2 Hw H1 H2 E.
  - destruct q2 as [|j q2]; [reflexivity|]. destruct (names_along_len2 _ _ _ _ H2) as (x & y & l & E2).
    rewrite E2 in E. cbn in E. discriminate.
  - destruct q2 as [|j q2].
    + destruct (names_along_len2 _ _ _ _ H1) as (x & y & l & E1). rewrite E1 in E. cbn in E. discriminate.
    + cbn [subtree_at names_along] in *.
      destruct (nth_error (tkids t) i) as [ki|] eqn:Hi; [|discriminate].
      destruct (nth_error (tkids t) j) as [kj|] eqn:Hj; [|discriminate].
      inversion E as [E1]. apply sib_ok_kids in Hw as [Hnd Hwk].
      assert (i = j).
      { destruct (names_along_hd ki q1) as [l1 E2]. destruct (names_along_hd kj q2) as [l2 E3].
        rewrite E2, E3 in E1. inversion E1 as [Hname].
        eapply (proj1 (NoDup_nth_error (map tname (tkids t)))); [exact Hnd| |].
        - rewrite map_length. apply nth_error_Some. congruence.
        - rewrite !nth_error_map, Hi, Hj. cbn. now f_equal. }
      subst j. rewrite Hj in Hi. inversion Hi; subst kj. f_equal.
      rewrite Forall_forall in Hwk. eapply (IH ki); eauto. apply Hwk. eapply nth_error_In; eauto.
Qed.

Lemma ins_names_along rest na : forall t q s,
  subtree_at t q = Some s -> names_along (fst (ins rest na t)) q = names_along t q.
Proof.
  induction rest as [|nm rest IH]; intros t q s H; [reflexivity|]. cbn [ins].
  destruct (find_idx nm 0 (tkids t)) as [|i [|j r]] eqn:F; cbn [fst]; try reflexivity.
  - destruct (is_nil nm); cbn [fst]; [reflexivity|].
    destruct t as [g n a ks]. cbn [add_kid]. destruct q as [|j q]; [reflexivity|].
    cbn [subtree_at names_along tkids tname] in *.
    destruct (nth_error ks j) as [kj|] eqn:Hj; [|discriminate].
    now rewrite nth_error_app1, Hj by (apply nth_error_Some; congruence).
  - destruct (nth_error (tkids t) i) as [k|] eqn:Hk; cbn [fst]; [|reflexivity].
    destruct t as [g n a ks]. cbn [tkids] in *. rewrite upd_at_cons. cbn [upd_at].
    destruct q as [|j q]; [reflexivity|]. cbn [subtree_at names_along tkids tname] in *.
    destruct (Nat.eq_dec i j) as [<-|Hne].
    + rewrite nth_error_upd_nth, Hk in *. cbn [option_map]. f_equal. now apply (IH k q s).
    + now rewrite nth_error_upd_nth_other.
Qed.

(* what one accepted add_path_to_tree call (duplicates allowed) does, position by position *)
Lemma add_path_positions t tsep path sep na t' p :
  add_path_to_tree t tsep path sep true na = (t', Ret p) ->
  (forall q s, subtree_at t q = Some s ->
     exists s', subtree_at t' q = Some s' /\ names_along t' q = names_along t q /\ ttag s' = ttag s)
  /\ names_along t' p = branch_of path sep
  /\ (exists sp, subtree_at t' p = Some sp).
Proof.
  intros H. pose proof (add_path_returns _ _ _ _ _ _ _ H) as [Hex Hn].
  destruct (add_path_reuses _ _ _ _ _ _ _ H) as (Hr & _ & _).
  split; [|split; assumption].
  intros q s Hq. destruct (Hr q s Hq) as (s' & Hs' & Ht & _). exists s'. split; [exact Hs'|]. split; [|exact Ht].
  destruct (add_path_inv _ _ _ _ _ _ _ H) as (rest & _ & _ & ->).
  rewrite names_along_set_attrs. eapply ins_names_along; eauto.
Qed.

(* the same for a whole loop of calls *)
Lemma add_rows_positions tsep sep : forall rows t acc t' ps,
  add_rows t tsep sep true rows acc = (t', Ret ps) ->
  forall q s, subtree_at t q = Some s ->
    exists s', subtree_at t' q = Some s' /\ names_along t' q = names_along t q /\ ttag s' = ttag s.
Proof.
  induction rows as [|[path na] rows IH]; intros t acc t' ps H q s Hq; cbn [add_rows] in H.
  - inversion H; subst. eauto.
  - destruct (add_path_to_tree t tsep path sep true na) as [t1 [p|e]] eqn:Ha; [|discriminate].
    destruct (add_path_positions _ _ _ _ _ _ _ Ha) as (Hk & _ & _).
    destruct (Hk q s Hq) as (s1 & Hs1 & Hn1 & Ht1).
    destruct (IH _ _ _ _ H q s1 Hs1) as (s' & Hs' & Hn' & Ht'). exists s'. split; [exact Hs'|].
    split; congruence.
Qed.

Lemma add_rows_sib_ok tsep sep : forall rows t acc t' ps,
  sib_ok t -> add_rows t tsep sep true rows acc = (t', Ret ps) -> sib_ok t'.
Proof.
  induction rows as [|[path na] rows IH]; intros t acc t' ps Hw H; cbn [add_rows] in H.
  - inversion H; subst. exact Hw.
  - destruct (add_path_to_tree t tsep path sep true na) as [t1 [p|e]] eqn:Ha; [|discriminate].
    eapply IH; [|exact H]. destruct (add_path_reuses _ _ _ _ _ _ _ Ha) as (_ & _ & Hs). now apply Hs.
Qed.

Lemma combine_map_r {A B C} (f : B -> C) (l : list A) (m : list B) x y :
  In (x, y) (combine l m) -> In (x, f y) (combine l (map f m)).
Proof.
  revert m; induction l as [|a l IH]; intros [|b m] H; cbn in *; try contradiction.
  destruct H as [E|H]; [left; inversion E; reflexivity|right; now apply IH].
Qed.

Lemma Forall2_In_l {A B} (R : A -> B -> Prop) l m x :
  Forall2 R l m -> In x l -> exists y, In (x, y) (combine l m) /\ R x y.
Proof.
  intros H. induction H as [|a b l m Hab _ IH]; intros Hin; [contradiction|].
  destruct Hin as [<-|Hin]; [exists b; split; [now left|exact Hab]|].
  destruct (IH Hin) as (y & Hy & Hr). exists y. split; [now right|exact Hr].
Qed.

(* looking up the name path of a node in (paths t, f of the nodes) finds that node's value *)
Lemma assoc_path_node {C} (f : tree -> C) t q s :
  sib_ok t -> NoDup (paths t) -> subtree_at t q = Some s ->
  assoc_path (names_along t q) (combine (paths t) (map f (pre t))) = Some (f s).
Proof.
  intros Hw Hn Hq. apply assoc_path_In.
  - rewrite combine_fst_eq; [exact Hn|]. rewrite map_length. apply paths_pre_length.
  - pose proof (valid_in_paths q t s [] Hq) as Hin. cbn [app] in Hin.
    destruct (Forall2_In_l _ _ _ _ (lockstep t []) Hin) as (s0 & Hc & q0 & Hq0 & E). cbn [app] in E.
    assert (q = q0) by (eapply names_along_inj; eauto). subst q0.
    rewrite Hq in Hq0. inversion Hq0; subst s0. now apply combine_map_r.
Qed.

Lemma sib_ok_NoDup_paths : forall t pfx, sib_ok t -> NoDup (paths_from pfx t).
Proof.
  intros t pfx Hw.
  (* distinct positions have distinct name paths; the list is the image of the position list.  Proved
     directly by induction. *)
  revert pfx. induction t as [g n a ks IH] using tree_ind'. intros pfx.
  apply sib_ok_kids in Hw as [Hnd Hwk]. cbn [tkids] in *. rewrite paths_from_unfold.
  constructor.
  - intros Hin. apply in_flat_map in Hin as (k & _ & Hq). apply paths_from_shape in Hq as [l E].
    apply (f_equal (@length str)) in E. rewrite !app_length in E. cbn in E. lia.
  - induction ks as [|k ks IHk]; [constructor|]. cbn [flat_map].
    inversion IH as [|? ? Hk Hks]; subst. inversion Hwk as [|? ? Hwk1 Hwk2]; subst.
    cbn in Hnd. inversion Hnd as [|? ? Hnk Hnd']; subst.
    apply NoDup_app_intro.
    + now apply Hk.
    + now apply IHk.
    + intros x Hx Hy. apply in_flat_map in Hy as (k' & Hk' & Hy).
      apply paths_from_shape in Hx as [l1 E1]. apply paths_from_shape in Hy as [l2 E2].
      rewrite E1 in E2. apply app_inv_head in E2.
      inversion E2 as [[En El]]. apply Hnk. rewrite En. now apply in_map.
Qed.

(* ======================================================================================== *)
(* 22. attribute dictionaries as maps                                                         *)

Definition aeq (a b : attrs) : Prop := forall k, attr_get a k = attr_get b k.

Lemma aeq_refl a : aeq a a.
Proof. intros k. reflexivity. Qed.
Lemma aeq_trans a b c : aeq a b -> aeq b c -> aeq a c.
Proof. intros H1 H2 k. now rewrite H1. Qed.
Lemma aeq_sym a b : aeq a b -> aeq b a.
Proof. intros H k. now rewrite H. Qed.

Lemma str_eqb_sym a b : str_eqb a b = str_eqb b a.
Proof.
  destruct (str_eqb a b) eqn:E.
  - apply str_eqb_eq in E. subst. now rewrite str_eqb_refl.
  - destruct (str_eqb b a) eqn:E'; [|reflexivity]. apply str_eqb_eq in E'. subst.
    rewrite str_eqb_refl in E. discriminate.
Qed.

Lemma attr_get_attr_set a k v k' :
  attr_get (attr_set a k v) k' = if str_eqb k k' then Some v else attr_get a k'.
Proof.
  induction a as [|[k0 v0] a IH]; cbn [attr_set attr_get].
  - reflexivity.
  - destruct (str_eqb k0 k) eqn:E; cbn [attr_get].
    + apply str_eqb_eq in E. subst k0. destruct (str_eqb k k'); reflexivity.
    + rewrite IH. destruct (str_eqb k0 k') eqn:E2; [|reflexivity].
      apply str_eqb_eq in E2. subst k0. now rewrite str_eqb_sym, E.
Qed.

Lemma attr_set_aeq a b k v : aeq a b -> aeq (attr_set a k v) (attr_set b k v).
Proof. intros H k'. rewrite !attr_get_attr_set. destruct (str_eqb k k'); [reflexivity|apply H]. Qed.

Lemma set_attrs_cons a k v new : set_attrs a ((k, v) :: new) = set_attrs (attr_set a k v) new.
Proof. reflexivity. Qed.

Lemma set_attrs_aeq new : forall a b, aeq a b -> aeq (set_attrs a new) (set_attrs b new).
Proof.
  induction new as [|[k v] new IH]; intros a b H; [exact H|].
  rewrite !set_attrs_cons. apply IH. now apply attr_set_aeq.
Qed.

(* keys stay distinct *)
Lemma attr_set_keys a k v :
  NoDup (map fst a) -> NoDup (map fst (attr_set a k v)) /\
  (forall x, In x (map fst (attr_set a k v)) <-> x = k \/ In x (map fst a)).
Proof.
  induction a as [|[k0 v0] a IH]; intros Hn; cbn [attr_set].
  - split; [repeat constructor; intros []|]. cbn. intros x. intuition.
  - cbn in Hn. inversion Hn as [|? ? Hk Hr]; subst. destruct (str_eqb k0 k) eqn:E.
    + apply str_eqb_eq in E. subst. cbn. split; [constructor; assumption|]. intros x. intuition.
    + destruct (IH Hr) as [H1 H2]. cbn [map fst]. split.
      * constructor; [|exact H1]. intros Hin. apply H2 in Hin as [->|Hin]; [|contradiction].
        rewrite str_eqb_refl in E. discriminate.
      * intros x. cbn [In]. rewrite H2. intuition.
Qed.

Lemma set_attrs_keys new : forall a, NoDup (map fst a) -> NoDup (map fst (set_attrs a new)).
Proof.
  induction new as [|[k v] new IH]; intros a H; [exact H|].
  rewrite set_attrs_cons. apply IH. now apply attr_set_keys.
Qed.

(* applying the same dict twice is the same map as applying it once *)
Lemma attr_set_twice a k v k2 v2 :
  aeq (attr_set (attr_set (attr_set a k v) k2 v2) k v) (attr_set (attr_set a k2 v2) k v).
Proof.
  intros x. rewrite !attr_get_attr_set. destruct (str_eqb k x), (str_eqb k2 x); reflexivity.
Qed.

Lemma attr_get_set_attrs_last new : forall a k,
  attr_get (set_attrs a new) k
  = match attr_get (rev new) k with Some v => Some v | None => attr_get a k end.
Proof.
  induction new as [|[k0 v0] new IH]; intros a k; [reflexivity|].
  rewrite set_attrs_cons, IH, attr_get_attr_set. cbn [rev].
  assert (G : forall l, attr_get (l ++ [(k0, v0)]) k
                = match attr_get l k with Some v => Some v | None => if str_eqb k0 k then Some v0 else None end).
  { induction l as [|[k1 v1] l IHl]; cbn; [reflexivity|]. destruct (str_eqb k1 k); [reflexivity|apply IHl]. }
  rewrite G. destruct (attr_get (rev new) k); [reflexivity|]. destruct (str_eqb k0 k); reflexivity.
Qed.

Lemma set_attrs_idem a new : aeq (set_attrs (set_attrs a new) new) (set_attrs a new).
Proof.
  intros k. rewrite !attr_get_set_attrs_last. destruct (attr_get (rev new) k); reflexivity.
Qed.

Lemma set_attrs_nil a : set_attrs a [] = a.
Proof. reflexivity. Qed.

(* reflection of the boolean comparison of Spec/PC05.v *)
Lemma val_eqb_refl v : val_eqb v v = true.
Proof.
  destruct v as [|z|s|b|n d]; cbn;
    [reflexivity|apply Z.eqb_refl|apply str_eqb_refl|destruct b; reflexivity|apply Z.eqb_refl].
Qed.

Lemma nodup_str_true l : NoDup l -> nodup_str l = true.
Proof.
  induction 1 as [|x l Hx Hl IH]; [reflexivity|]. cbn. rewrite IH, andb_true_r.
  apply negb_true_iff. destruct (existsb (str_eqb x) l) eqn:E; [|reflexivity].
  apply existsb_exists in E as (y & Hy & Ey). apply str_eqb_eq in Ey. subst. contradiction.
Qed.

Lemma nodup_str_NoDup l : nodup_str l = true -> NoDup l.
Proof.
  induction l as [|x l IH]; intros H; [constructor|]. cbn in H. apply andb_true_iff in H as [H1 H2].
  constructor; [|now apply IH]. intros Hin. apply negb_true_iff in H1.
  assert (existsb (str_eqb x) l = true); [|congruence].
  apply existsb_exists. exists x. split; [exact Hin|apply str_eqb_refl].
Qed.

Lemma attr_get_In a k v : NoDup (map fst a) -> In (k, v) a -> attr_get a k = Some v.
Proof.
  induction a as [|[k0 v0] a IH]; intros Hn Hin; [contradiction|]. cbn in Hn.
  inversion Hn as [|? ? Hk Hr]; subst. cbn [attr_get]. destruct Hin as [E|Hin].
  - inversion E; subst. now rewrite str_eqb_refl.
  - destruct (str_eqb k0 k) eqn:E; [|now apply IH]. apply str_eqb_eq in E. subst.
    exfalso. apply Hk. change k with (fst (k, v)). now apply in_map.
Qed.

Lemma attrs_sub_true a b : NoDup (map fst a) -> aeq a b -> attrs_sub a b = true.
Proof.
  intros Hn H. unfold attrs_sub. apply forallb_forall. intros [k v] Hin. cbn [fst snd].
  rewrite <- H, (attr_get_In a k v Hn Hin). apply val_eqb_refl.
Qed.

Lemma attrs_equiv_true a b :
  NoDup (map fst a) -> NoDup (map fst b) -> aeq a b -> attrs_equiv a b = true.
Proof.
  intros Ha Hb H. unfold attrs_equiv.
  rewrite (nodup_str_true _ Ha), (nodup_str_true _ Hb), (attrs_sub_true a b Ha H),
    (attrs_sub_true b a Hb (aeq_sym _ _ H)). reflexivity.
Qed.

(* ======================================================================================== *)
(* 23. attribute exactness over all rows of a loop of add_path_to_tree calls                  *)

Definition step_attrs (b : path) (na : attrs) (P : path) (a : attrs) : attrs :=
  if path_eqb b P then set_attrs a na else a.
(* what the rows naming path P do to a dictionary, in row order *)
Definition upd_for (sep : str) (rows : list row) (P : path) (a : attrs) : attrs :=
  fold_left (fun a r => step_attrs (branch_of (fst r) sep) (snd r) P a) rows a.
Definition attrs_at (t : tree) (q : pos) : attrs :=
  match subtree_at t q with Some s => tattrs s | None => [] end.
Definition attrs_wf (t : tree) : Prop :=
  forall q s, subtree_at t q = Some s -> NoDup (map fst (tattrs s)).

Lemma upd_for_aeq sep rows P : forall a b, aeq a b -> aeq (upd_for sep rows P a) (upd_for sep rows P b).
Proof.
  induction rows as [|r rows IH]; intros a b H; [exact H|]. cbn [upd_for fold_left].
  apply IH. unfold step_attrs. destruct (path_eqb _ _); [now apply set_attrs_aeq|exact H].
Qed.

Lemma upd_for_keys sep rows P : forall a, NoDup (map fst a) -> NoDup (map fst (upd_for sep rows P a)).
Proof.
  induction rows as [|r rows IH]; intros a H; [exact H|]. cbn [upd_for fold_left].
  apply IH. unfold step_attrs. destruct (path_eqb _ _); [now apply set_attrs_keys|exact H].
Qed.

Lemma add_path_attrs_step t tsep path sep na t1 p :
  sib_ok t -> add_path_to_tree t tsep path sep true na = (t1, Ret p) ->
  forall q s1, subtree_at t1 q = Some s1 ->
    aeq (tattrs s1) (step_attrs (branch_of path sep) na (names_along t1 q) (attrs_at t q)).
Proof.
  intros Hw H q s1 Hq.
  destruct (add_path_attrs _ _ _ _ _ _ _ H) as ((sp & Hsp & Hap) & Hold & Hnew).
  destruct (add_path_returns _ _ _ _ _ _ _ H) as [_ Hn].
  destruct (add_path_reuses _ _ _ _ _ _ _ H) as (_ & _ & Hs). specialize (Hs Hw).
  unfold step_attrs, attrs_at.
  destruct (list_eq_dec Nat.eq_dec q p) as [->|Hne].
  - rewrite Hn, path_eqb_refl. rewrite Hsp in Hq. inversion Hq; subst s1. rewrite Hap.
    destruct (subtree_at t p); [apply aeq_refl|apply set_attrs_idem].
  - destruct (path_eqb (branch_of path sep) (names_along t1 q)) eqn:E.
    + apply path_eqb_eq in E. rewrite <- Hn in E. exfalso. apply Hne. symmetry.
      eapply names_along_inj; eauto.
    + destruct (subtree_at t q) as [s|] eqn:Hq0.
      * destruct (Hold q s Hne Hq0) as (s' & Hs' & Ha). rewrite Hq in Hs'. inversion Hs'; subst.
        rewrite Ha. apply aeq_refl.
      * rewrite (Hnew q s1 Hne Hq0 Hq). apply aeq_refl.
Qed.

Lemma add_path_attrs_wf t tsep path sep na t1 p :
  attrs_wf t -> add_path_to_tree t tsep path sep true na = (t1, Ret p) -> attrs_wf t1.
Proof.
  intros Hwf H q s1 Hq.
  destruct (add_path_attrs _ _ _ _ _ _ _ H) as ((sp & Hsp & Hap) & Hold & Hnew).
  destruct (list_eq_dec Nat.eq_dec q p) as [->|Hne].
  - rewrite Hsp in Hq. inversion Hq; subst s1. rewrite Hap. apply set_attrs_keys.
    destruct (subtree_at t p) as [s|] eqn:E; [eapply Hwf; eauto|]. apply set_attrs_keys. constructor.
  - destruct (subtree_at t q) as [s|] eqn:Hq0.
    + destruct (Hold q s Hne Hq0) as (s' & Hs' & Ha). rewrite Hq in Hs'. inversion Hs'; subst.
      rewrite Ha. eapply Hwf; eauto.
    + rewrite (Hnew q s1 Hne Hq0 Hq). constructor.
Qed.

(* C05_attrs_rows_exact *)
Theorem add_rows_attrs tsep sep : forall rows t acc t' ps,
  sib_ok t -> add_rows t tsep sep true rows acc = (t', Ret ps) ->
  forall q s', subtree_at t' q = Some s' ->
    aeq (tattrs s') (upd_for sep rows (names_along t' q) (attrs_at t q)).
Proof.
  induction rows as [|[path na] rows IH]; intros t acc t' ps Hw H q s' Hq; cbn [add_rows] in H.
  - inversion H; subst. unfold attrs_at. rewrite Hq. apply aeq_refl.
  - destruct (add_path_to_tree t tsep path sep true na) as [t1 [p|e]] eqn:Ha; [|discriminate].
    destruct (add_path_reuses _ _ _ _ _ _ _ Ha) as (Hkeep & _ & Hs1). specialize (Hs1 Hw).
    eapply aeq_trans; [eapply IH; eauto|].
    cbn [upd_for fold_left fst snd]. apply upd_for_aeq.
    destruct (subtree_at t1 q) as [s1|] eqn:Hq1.
    + destruct (add_rows_positions _ _ _ _ _ _ _ H q s1 Hq1) as (s2 & Hs2 & Hn2 & _).
      rewrite Hn2. unfold attrs_at at 1. rewrite Hq1.
      eapply add_path_attrs_step; eauto.
    + unfold attrs_at. rewrite Hq1.
      destruct (subtree_at t q) as [s0|] eqn:Hq0.
      { destruct (Hkeep q s0 Hq0) as (sx & Hsx & _). congruence. }
      unfold step_attrs.
      destruct (path_eqb (branch_of path sep) (names_along t' q)) eqn:E; [|apply aeq_refl].
      exfalso. apply path_eqb_eq in E.
      destruct (add_path_positions _ _ _ _ _ _ _ Ha) as (_ & Hnp & sp & Hsp).
      destruct (add_rows_positions _ _ _ _ _ _ _ H p sp Hsp) as (sp' & Hsp' & Hnp' & _).
      assert (p = q).
      { eapply (names_along_inj p t' q); eauto; [eapply add_rows_sib_ok; eauto|congruence]. }
      subst q. congruence.
Qed.

Lemma add_rows_attrs_wf tsep sep : forall rows t acc t' ps,
  attrs_wf t -> add_rows t tsep sep true rows acc = (t', Ret ps) -> attrs_wf t'.
Proof.
  induction rows as [|[path na] rows IH]; intros t acc t' ps Hwf H; cbn [add_rows] in H.
  - inversion H; subst. exact Hwf.
  - destruct (add_path_to_tree t tsep path sep true na) as [t1 [p|e]] eqn:Ha; [|discriminate].
    eapply IH; [|exact H]. eapply add_path_attrs_wf; eauto.
Qed.

(* ======================================================================================== *)
(* 24. reading a path string: the specification's spec_parse against the code's branch_of      *)

Fixpoint splitc (c : N) (s : str) : list str :=
  match s with
  | [] => [[]]
  | ch :: t => if N.eqb c ch then [] :: splitc c t
               else match splitc c t with h :: r => (ch :: h) :: r | [] => [[ch]] end
  end.

Lemma splitc_nonempty c s : splitc c s <> [].
Proof. destruct s as [|ch t]; cbn; [discriminate|]. destruct (N.eqb c ch); [discriminate|]. destruct (splitc c t); discriminate. Qed.

Lemma split_go_splitc c : forall s cur fuel,
  length s < fuel ->
  split_go fuel [c] cur s = match splitc c s with h :: r => (rev cur ++ h) :: r | [] => [] end.
Proof.
  induction s as [|ch t IH]; intros cur fuel Hf; (destruct fuel as [|f]; [cbn in Hf; lia|]).
  - cbn. now rewrite app_nil_r.
  - cbn [split_go splitc]. rewrite startswith_single. destruct (N.eqb c ch) eqn:E.
    + cbn [skipn length]. rewrite app_nil_r. f_equal. rewrite IH by (cbn in Hf; lia).
      cbn [rev app]. pose proof (splitc_nonempty c t). destruct (splitc c t); [congruence|reflexivity].
    + rewrite IH by (cbn in Hf; lia). pose proof (splitc_nonempty c t).
      destruct (splitc c t) as [|h r]; [congruence|]. cbn [rev]. now rewrite <- app_assoc.
Qed.

Lemma split_splitc c s : split s [c] = splitc c s.
Proof.
  unfold split. rewrite split_go_splitc by lia. pose proof (splitc_nonempty c s).
  destruct (splitc c s); [congruence|reflexivity].
Qed.

Lemma memN_single ch c : memN ch [c] = N.eqb c ch.
Proof. cbn. now rewrite orb_false_r, N.eqb_sym. Qed.

Lemma lstrip_cons ch t c : lstrip (ch :: t) [c] = if N.eqb c ch then lstrip t [c] else ch :: t.
Proof. cbn [lstrip]. now rewrite memN_single. Qed.

Lemma splitc_lstrip c : forall s,
  lstrip s [c] <> [] -> drop_empty (splitc c s) = splitc c (lstrip s [c]).
Proof.
  induction s as [|ch t IH]; intros H; [cbn in H; congruence|].
  rewrite lstrip_cons in *. cbn [splitc]. destruct (N.eqb c ch) eqn:E.
  - cbn [drop_empty]. now apply IH.
  - cbn [splitc]. rewrite E. pose proof (splitc_nonempty c t). destruct (splitc c t); [congruence|reflexivity].
Qed.

Lemma splitc_lstrip_nil c : forall s, lstrip s [c] = [] -> drop_empty (splitc c s) = [].
Proof.
  induction s as [|ch t IH]; intros H; [reflexivity|].
  rewrite lstrip_cons in H. cbn [splitc]. destruct (N.eqb c ch); [|discriminate]. cbn. now apply IH.
Qed.

Lemma splitc_snoc_sep c : forall s, splitc c (s ++ [c]) = splitc c s ++ [[]].
Proof.
  induction s as [|ch t IH]; cbn [app splitc].
  - now rewrite N.eqb_refl.
  - rewrite IH. destruct (N.eqb c ch); [reflexivity|].
    pose proof (splitc_nonempty c t). destruct (splitc c t); [congruence|reflexivity].
Qed.

Lemma splitc_snoc_other c x : forall s,
  N.eqb c x = false ->
  splitc c (s ++ [x]) = removelast (splitc c s) ++ [last (splitc c s) [] ++ [x]].
Proof.
  induction s as [|ch t IH]; intros Hx; cbn [app splitc].
  - rewrite Hx. reflexivity.
  - rewrite (IH Hx). pose proof (splitc_nonempty c t) as Hne.
    destruct (N.eqb c ch).
    + destruct (splitc c t) as [|h r]; [congruence|]. reflexivity.
    + destruct (splitc c t) as [|h r]; [congruence|]. destruct r as [|h2 r]; reflexivity.
Qed.

Lemma splitc_rev c : forall s, splitc c (rev s) = rev (map (@rev N) (splitc c s)).
Proof.
  induction s as [|ch t IH]; [reflexivity|]. cbn [rev splitc]. destruct (N.eqb c ch) eqn:E.
  - apply N.eqb_eq in E. subst ch. rewrite splitc_snoc_sep, IH. reflexivity.
  - rewrite (splitc_snoc_other c ch _ E), IH.
    pose proof (splitc_nonempty c t) as Hne. destruct (splitc c t) as [|h r]; [congruence|].
    cbn [map rev]. now rewrite removelast_last, last_last.
Qed.

Lemma drop_empty_map_rev l : drop_empty (map (@rev N) l) = map (@rev N) (drop_empty l).
Proof.
  induction l as [|x l IH]; [reflexivity|]. destruct x as [|ch x]; [exact IH|].
  cbn [map rev drop_empty]. destruct (rev x ++ [ch]) eqn:E; [destruct (rev x); discriminate|]. reflexivity.
Qed.

Lemma lstrip_nil_all c : forall s, lstrip s [c] = [] -> forall x, In x s -> x = c.
Proof.
  induction s as [|ch t IH]; intros H x Hx; [contradiction|]. rewrite lstrip_cons in H.
  destruct (N.eqb c ch) eqn:E; [|discriminate]. apply N.eqb_eq in E. destruct Hx as [<-|Hx]; [now subst|now apply IH].
Qed.

Lemma lstrip_hd c : forall s ch r, lstrip s [c] = ch :: r -> ch <> c.
Proof.
  induction s as [|x t IH]; intros ch r H; [discriminate|]. rewrite lstrip_cons in H.
  destruct (N.eqb c x) eqn:E; [eapply IH; eauto|]. inversion H; subst. intros ->. now rewrite N.eqb_refl in E.
Qed.

(* for a string that is not made of separators only, both readings agree *)
Lemma parse_agree c s : lstrip s [c] <> [] -> spec_parse s [c] = branch_of s [c].
Proof.
  intros H. unfold spec_parse, branch_of. rewrite !split_splitc, (splitc_lstrip c s H).
  set (m := lstrip s [c]) in *. unfold rstrip.
  assert (Hm : lstrip (rev m) [c] <> []).
  { intros E. destruct m as [|ch r] eqn:Em; [congruence|].
    apply (lstrip_hd c s ch r Em). apply (lstrip_nil_all c _ E). apply in_rev. rewrite rev_involutive. now left. }
  assert (R : rev (splitc c m) = map (@rev N) (splitc c (rev m))).
  { rewrite splitc_rev, map_rev, map_map. f_equal.
    erewrite map_ext; [symmetry; apply map_id|]. intros x. apply rev_involutive. }
  rewrite R, drop_empty_map_rev, (splitc_lstrip c _ Hm), splitc_rev. reflexivity.
Qed.

Lemma parse_empty c s : lstrip s [c] = [] -> spec_parse s [c] = [] /\ branch_of s [c] = [[]].
Proof.
  intros H. unfold spec_parse, branch_of. rewrite H, !split_splitc, (splitc_lstrip_nil c s H). split; reflexivity.
Qed.


(* ======================================================================================== *)
(* 24b. separators of any positive length (Base/StrSep.v)                                     *)

Lemma hd_splitc_rstrip c m : hd [] (splitc c (rstrip m [c])) = hd [] (splitc c m).
Proof.
  unfold rstrip. rewrite <- (rev_involutive m) at 2. generalize (rev m) as u. intros u.
  induction u as [|ch u IH]; [reflexivity|]. rewrite lstrip_cons. destruct (N.eqb c ch) eqn:E; [|reflexivity].
  apply N.eqb_eq in E. subst ch. cbn [rev]. rewrite splitc_snoc_sep, IH.
  pose proof (splitc_nonempty c (rev u)). destruct (splitc c (rev u)); [congruence|reflexivity].
Qed.

Lemma splitc_no_sep c : forall s x, In x (splitc c s) -> ~ In c x.
Proof.
  induction s as [|ch t IH]; intros x Hx; cbn [splitc] in Hx.
  - destruct Hx as [<-|[]]. intros [].
  - destruct (N.eqb c ch) eqn:E.
    + destruct Hx as [<-|Hx]; [intros []|now apply IH].
    + pose proof (splitc_nonempty c t) as Hne. destruct (splitc c t) as [|h r] eqn:Es; [congruence|].
      destruct Hx as [<-|Hx].
      * intros [->|Hin]; [now rewrite N.eqb_refl in E|]. apply (IH h); [now left|exact Hin].
      * apply IH. now right.
Qed.


Fixpoint rep (sp : str) (n : nat) : str := match n with 0 => [] | S k => sp ++ rep sp k end.

Lemma rep_chars sp n ch : In ch (rep sp n) -> In ch sp.
Proof. induction n as [|n IH]; cbn; [intros []|]. intros H. apply in_app_or in H as [H|H]; auto. Qed.

Lemma rep_snoc sp n : rep sp n ++ sp = rep sp (S n).
Proof. induction n as [|n IH]; cbn [rep]; [now rewrite app_nil_r|]. now rewrite <- app_assoc, IH. Qed.

Lemma rstrip_all sp p pre : (forall ch, In ch p -> In ch sp) -> rstrip (pre ++ p) sp = rstrip pre sp.
Proof.
  intros H. unfold rstrip. rewrite rev_app_distr, lstrip_all; [reflexivity|].
  intros ch Hch. apply H. now apply in_rev.
Qed.

Lemma strip_app_seps sp p : (forall ch, In ch p -> In ch sp) ->
  forall s, rstrip (lstrip (s ++ p) sp) sp = rstrip (lstrip s sp) sp.
Proof.
  intros H. induction s as [|x s IH].
  - cbn [app]. rewrite <- (app_nil_r p), lstrip_all by exact H. reflexivity.
  - cbn [app lstrip]. destruct (memN x sp); [exact IH|].
    change (x :: s ++ p) with ((x :: s) ++ p). now apply rstrip_all.
Qed.

Lemma branch_of_leading_multi sp path : branch_of (sp ++ path) sp = branch_of path sp.
Proof. unfold branch_of. rewrite lstrip_all; auto. Qed.

Lemma branch_of_trailing_multi sp path : branch_of (path ++ sp) sp = branch_of path sp.
Proof. unfold branch_of. rewrite strip_app_seps; auto. Qed.

(* a leading / trailing separator of any length changes nothing: no guard on the names needed,
   lstrip/rstrip remove every character of the separator anyway *)
Theorem add_path_leading_sep_multi t tsep sp path dup na :
  sp <> [] -> path <> [] ->
  add_path_to_tree t tsep (sp ++ path) sp dup na = add_path_to_tree t tsep path sp dup na.
Proof.
  intros Hs Hp. unfold add_path_to_tree. rewrite branch_of_leading_multi.
  destruct sp; [congruence|]. destruct path; [congruence|reflexivity].
Qed.

Theorem add_path_trailing_sep_multi t tsep sp path dup na :
  path <> [] ->
  add_path_to_tree t tsep (path ++ sp) sp dup na = add_path_to_tree t tsep path sp dup na.
Proof.
  intros Hp. unfold add_path_to_tree. rewrite branch_of_trailing_multi.
  destruct path; [congruence|reflexivity].
Qed.

Lemma sgood_sfree sp L : Forall (sgood sp) L -> Forall (sfree sp) L.
Proof. intros H. eapply Forall_impl; [|exact H]. intros x [_ Hx]. exact Hx. Qed.

Lemma join_head_multi sp x L ch r : x = ch :: r -> exists r', join sp (x :: L) = ch :: r'.
Proof. intros ->. destruct L; [rewrite join_single|rewrite join_cons]; cbn; eauto. Qed.

Lemma lstrip_join_multi sp L : L <> [] -> Forall (sgood sp) L -> lstrip (join sp L) sp = join sp L.
Proof.
  intros Hne Hall. destruct L as [|x L]; [congruence|]. inversion Hall as [|? ? Hx HL]; subst.
  destruct L as [|y L].
  - rewrite join_single. rewrite <- (app_nil_r x). now apply lstrip_stop.
  - rewrite join_cons. now apply lstrip_stop.
Qed.

(* a path string is read back as its list of names (names: non-empty, free of separator characters) *)
Lemma branch_of_join_multi sp L :
  sp <> [] -> L <> [] -> Forall (sgood sp) L -> branch_of (join sp L) sp = L.
Proof.
  intros Hs Hne Hall. unfold branch_of. rewrite lstrip_join_multi by assumption.
  rewrite <- (app_nil_l (join sp L)), rstrip_join_multi by assumption. cbn [app].
  destruct sp as [|a sp']; [congruence|]. apply split_join_multi; [exact Hne|now apply sgood_sfree].
Qed.

Lemma hd_sgood sp L : L <> [] -> Forall (sgood sp) L -> hd [] L <> [] /\ last L [] <> [].
Proof.
  intros Hne Hall. split.
  - destruct L; [congruence|]. inversion Hall as [|? ? [Hx _] _]; subst. exact Hx.
  - destruct (exists_last Hne) as (l & y & ->). rewrite last_last.
    apply Forall_app in Hall as [_ Hy]. inversion Hy as [|? ? [Hn _] _]; subst. exact Hn.
Qed.

Theorem spec_parse_join_multi sp L :
  sp <> [] -> L <> [] -> Forall (sgood sp) L ->
  spec_parse (join sp L) sp = L /\ branch_of (join sp L) sp = L.
Proof.
  intros Hs Hne Hall. split; [|now apply branch_of_join_multi].
  destruct (hd_sgood sp L Hne Hall) as [Hh Hl].
  unfold spec_parse. destruct sp as [|a sp']; [congruence|].
  rewrite split_join_multi; [|exact Hne|now apply sgood_sfree].
  rewrite (drop_empty_id L Hh), drop_empty_id; [apply rev_involutive|]. now rewrite hd_rev_last.
Qed.

(* the separator chosen does not matter, whatever its length *)
Theorem add_path_sep_independent_multi sp1 sp2 nms t tsep dup na :
  sp1 <> [] -> sp2 <> [] -> nms <> [] -> Forall (sgood sp1) nms -> Forall (sgood sp2) nms ->
  add_path_to_tree t tsep (join sp1 nms) sp1 dup na
  = add_path_to_tree t tsep (join sp2 nms) sp2 dup na.
Proof.
  intros H1 H2 Hne Hg1 Hg2. unfold add_path_to_tree. rewrite !branch_of_join_multi by assumption.
  destruct nms as [|n0 nms]; [congruence|]. inversion Hg1 as [|? ? [Hn0 _] _]; subst.
  destruct n0 as [|ch r0]; [congruence|].
  assert (Hn : forall sp, is_nil (join sp ((ch :: r0) :: nms)) = false).
  { intros sp. destruct (join_head_multi sp (ch :: r0) nms ch r0 eq_refl) as [r' E]. now rewrite E. }
  unfold str in *. now rewrite !Hn.
Qed.

(* "the two readings of the path string s agree": the specification's (split, drop empty ends)
   and the code's (strip the separator's characters, split).  True of every string for a
   one-character separator; for longer separators true of rendered name lists (PG_render). *)
Definition PG (sp s : str) : Prop :=
  (lstrip s sp = [] /\ spec_parse s sp = [] /\ branch_of s sp = [[]])
  \/ (lstrip s sp <> [] /\ spec_parse s sp = branch_of s sp
      /\ hd [] (split (lstrip s sp) sp) = hd [] (branch_of s sp)
      /\ Forall (sfree sp) (branch_of s sp)).

Lemma PG_single c s : PG [c] s.
Proof.
  destruct (lstrip s [c]) as [|ch r] eqn:E.
  - left. destruct (parse_empty c s E) as [E1 E2]. auto.
  - right. split; [congruence|]. split; [apply parse_agree; congruence|]. split.
    + unfold branch_of. rewrite E, !split_splitc. symmetry. apply hd_splitc_rstrip.
    + apply Forall_forall. intros x Hx. apply sfree_one. unfold branch_of in Hx. rewrite split_splitc in Hx.
      eapply splitc_no_sep; eauto.
Qed.

Lemma join_app sp (L1 L2 : list str) :
  L1 <> [] -> L2 <> [] -> join sp (L1 ++ L2) = join sp L1 ++ sp ++ join sp L2.
Proof.
  intros H1 H2. induction L1 as [|x L1 IH]; [congruence|]. destruct L1 as [|y L1].
  - cbn [app]. rewrite join_cons_ne by exact H2. now rewrite join_single.
  - change ((x :: y :: L1) ++ L2) with (x :: (y :: L1) ++ L2).
    rewrite join_cons_ne by discriminate. rewrite IH by discriminate.
    rewrite join_cons. now rewrite <- !app_assoc.
Qed.

Lemma join_empties sp n : join sp (repeat [] (S n)) = rep sp n.
Proof.
  induction n as [|n IH]; [reflexivity|]. change (repeat [] (S (S n))) with ([] :: repeat (@nil N) (S n)).
  rewrite join_cons_ne by discriminate. rewrite IH. reflexivity.
Qed.

Lemma join_pad sp a b L :
  L <> [] -> join sp (repeat [] a ++ L ++ repeat [] b) = rep sp a ++ join sp L ++ rep sp b.
Proof.
  intros Hne.
  assert (R : join sp (L ++ repeat [] b) = join sp L ++ rep sp b).
  { destruct b as [|b]; [cbn [repeat rep]; now rewrite !app_nil_r|].
    rewrite join_app by (try exact Hne; discriminate). rewrite join_empties. reflexivity. }
  destruct a as [|a]; [exact R|].
  rewrite join_app; [|discriminate|destruct L; [congruence|discriminate]].
  rewrite join_empties, R. rewrite app_assoc, rep_snoc. reflexivity.
Qed.

Lemma drop_empty_repeat n M : drop_empty (repeat [] n ++ M) = drop_empty M.
Proof. induction n as [|n IH]; [reflexivity|exact IH]. Qed.

Lemma rev_repeat {A} (x : A) n : rev (repeat x n) = repeat x n.
Proof.
  induction n as [|n IH]; [reflexivity|]. cbn [repeat rev]. rewrite IH. clear.
  induction n as [|n IH]; [reflexivity|]. cbn. now rewrite IH.
Qed.

Lemma PG_render sp a b L :
  sp <> [] -> L <> [] -> Forall (sgood sp) L -> PG sp (rep sp a ++ join sp L ++ rep sp b).
Proof.
  intros Hs Hne Hall. right.
  destruct (hd_sgood sp L Hne Hall) as [Hh Hl].
  pose proof (sgood_sfree sp L Hall) as Hf.
  assert (Hls : lstrip (rep sp a ++ join sp L ++ rep sp b) sp = join sp L ++ rep sp b).
  { rewrite lstrip_all by (intros ch; apply rep_chars).
    destruct L as [|x L]; [congruence|]. inversion Hall as [|? ? Hx HL]; subst. destruct L as [|y L].
    - rewrite join_single. now apply lstrip_stop.
    - rewrite join_cons, <- app_assoc. now apply lstrip_stop. }
  assert (Hbr : branch_of (rep sp a ++ join sp L ++ rep sp b) sp = L).
  { unfold branch_of. rewrite Hls, rstrip_all by (intros ch; apply rep_chars).
    rewrite <- (app_nil_l (join sp L)), rstrip_join_multi by assumption. cbn [app].
    destruct sp as [|c0 sp']; [congruence|]. now apply split_join_multi. }
  assert (Hpad : Forall (sfree sp) (repeat [] a ++ L ++ repeat [] b)).
  { apply Forall_app. split; [|apply Forall_app; split; [exact Hf|]];
      apply Forall_forall; intros x Hx; apply repeat_spec in Hx; subst; intros ch _ []. }
  split.
  { rewrite Hls. intros E. apply app_eq_nil in E as [E _]. destruct L as [|x L]; [congruence|]. cbn in Hh.
    destruct x as [|ch r]; [congruence|].
    destruct (join_head_multi sp (ch :: r) L ch r eq_refl) as [r' E']. unfold str in *. rewrite E' in E. discriminate. }
  rewrite Hbr. split; [|split; [|exact Hf]].
  - unfold spec_parse. rewrite <- (join_pad sp a b L Hne).
    destruct sp as [|c0 sp']; [congruence|].
    rewrite split_join_multi; [|destruct a; [destruct L; [congruence|discriminate]|discriminate]|exact Hpad].
    rewrite drop_empty_repeat.
    assert (E1 : drop_empty (L ++ repeat [] b) = L ++ repeat [] b).
    { apply drop_empty_id. destruct L; [congruence|exact Hh]. }
    unfold str in *. rewrite E1.
    rewrite rev_app_distr, rev_repeat, drop_empty_repeat, drop_empty_id; [apply rev_involutive|].
    now rewrite hd_rev_last.
  - rewrite Hls. replace (join sp L ++ rep sp b) with (join sp (repeat [] 0 ++ L ++ repeat [] b))
      by (rewrite join_pad by exact Hne; reflexivity).
    cbn [repeat app]. destruct sp as [|c0 sp']; [congruence|].
    rewrite split_join_multi.
    + destruct L; [congruence|reflexivity].
    + destruct L; [congruence|discriminate].
    + apply Forall_app. split; [exact Hf|]. apply Forall_forall. intros x Hx. apply repeat_spec in Hx. subst. intros ch _ [].
Qed.

Lemma PG_seps sp a : sp <> [] -> PG sp (rep sp a).
Proof.
  intros Hs. left.
  assert (Hl : lstrip (rep sp a) sp = []).
  { rewrite <- (app_nil_r (rep sp a)), lstrip_all by (intros ch; apply rep_chars). reflexivity. }
  split; [exact Hl|]. split.
  - unfold spec_parse. rewrite <- join_empties. destruct sp as [|c0 sp']; [congruence|].
    rewrite split_join_multi; [| discriminate |].
    + rewrite <- (app_nil_r (repeat [] (S a))), drop_empty_repeat. reflexivity.
    + apply Forall_forall. intros x Hx. apply repeat_spec in Hx. subst. intros ch _ [].
  - unfold branch_of. rewrite Hl. destruct sp as [|c0 sp']; [congruence|]. reflexivity.
Qed.

(* the root name inferred by the constructors is the head of the specification's reading *)
Lemma root_inference sp p0 :
  sp <> [] -> PG sp p0 ->
  hd [] (split (lstrip p0 sp) sp) = hd [] (spec_parse p0 sp)
  /\ hd [] (branch_of p0 sp) = hd [] (spec_parse p0 sp).
Proof.
  intros Hs [(E & E1 & E2)|(E & E1 & E2 & _)].
  - rewrite E, E1, E2. destruct sp; [congruence|]. split; reflexivity.
  - rewrite E1, E2. split; reflexivity.
Qed.

Lemma branch_of_word sp r : sp <> [] -> sgood sp r -> branch_of r sp = [r].
Proof.
  intros Hs Hr. rewrite <- (join_single sp r) at 1. apply branch_of_join_multi; [exact Hs|discriminate|].
  constructor; [exact Hr|constructor].
Qed.

(* ======================================================================================== *)
(* 25. acceptance of a loop of calls (duplicates allowed)                                     *)

Definition nonempty_names (t : tree) : Prop := forall n, In n (names t) -> n <> [].

Lemma ins_names_incl rest na : forall t x,
  In x (names (fst (ins rest na t))) -> In x (names t) \/ In x rest.
Proof.
  induction rest as [|nm rest IH]; intros t x H; [now left|]. cbn [ins] in H.
  destruct (find_idx nm 0 (tkids t)) as [|i [|j r]] eqn:F; cbn [fst] in H; try (now left).
  - destruct (is_nil nm); cbn [fst] in H; [now left|].
    destruct t as [g n a ks]. cbn [add_kid tkids] in H. rewrite names_unfold, flat_map_app in H.
    cbn [flat_map] in H. rewrite app_nil_r in H. rewrite names_unfold.
    destruct H as [->|H]; [left; now left|]. apply in_app_or in H as [H|H]; [left; now right|].
    apply IH in H as [H|H]; [|right; now right]. rewrite names_unfold in H. cbn in H.
    destruct H as [<-|[]]. right. now left.
  - destruct (nth_error (tkids t) i) as [k|] eqn:Hk; cbn [fst] in H; [|now left].
    destruct t as [g n a ks]. cbn [tkids] in *. rewrite upd_at_cons in H. cbn [upd_at] in H.
    rewrite names_unfold in *. destruct H as [->|H]; [left; now left|].
    apply in_flat_map in H as (k' & Hk' & Hx).
    apply In_nth_error in Hk' as [j Hj].
    destruct (Nat.eq_dec i j) as [<-|Hne].
    + rewrite nth_error_upd_nth, Hk in Hj. cbn in Hj. inversion Hj; subst k'.
      apply IH in Hx as [Hx|Hx]; [|right; now right]. left. right. apply in_flat_map. exists k.
      split; [eapply nth_error_In; eauto|exact Hx].
    + rewrite nth_error_upd_nth_other in Hj by exact Hne. left. right. apply in_flat_map. exists k'.
      split; [eapply nth_error_In; eauto|exact Hx].
Qed.

Lemma ins_ok_nonempty rest na : forall t p,
  nonempty_names t -> snd (ins rest na t) = Ret p -> Forall (fun x => x <> []) rest.
Proof.
  induction rest as [|nm rest IH]; intros t p Hne H; [constructor|]. cbn [ins] in H.
  destruct (find_idx nm 0 (tkids t)) as [|i [|j r]] eqn:F; cbn [snd] in H; try discriminate.
  - destruct (is_nil nm) eqn:En; [discriminate|]. cbn [snd] in H.
    match type of H with map_res _ (snd (ins rest na ?c0)) = _ =>
      destruct (snd (ins rest na c0)) as [p'|e] eqn:Hs; [|discriminate];
      assert (Hc : nonempty_names c0) end.
    { intros n Hn. rewrite names_unfold in Hn. cbn in Hn. destruct Hn as [<-|[]].
      destruct nm; [discriminate|discriminate]. }
    constructor; [destruct nm; [discriminate|discriminate]|]. eapply IH; eauto.
  - destruct (nth_error (tkids t) i) as [k|] eqn:Hk; [|discriminate]. cbn [snd] in H.
    destruct (snd (ins rest na k)) as [p'|e] eqn:Hs; [|discriminate].
    assert (Hi : In i (find_idx nm 0 (tkids t))) by (rewrite F; now left).
    apply find_idx_spec in Hi as [_ (k0 & Hk0 & Hnm)]. rewrite Nat.sub_0_r, Hk in Hk0. inversion Hk0; subst k0.
    assert (Hkn : incl (names k) (names t)).
    { destruct t as [g n a ks]. cbn [tkids] in *. intros x Hx. rewrite names_unfold. right.
      apply in_flat_map. exists k. split; [eapply nth_error_In; eauto|exact Hx]. }
    constructor.
    + rewrite <- Hnm. apply Hne. apply Hkn. apply tname_in_names.
    + eapply (IH k); eauto. intros n Hn. apply Hne. now apply Hkn.
Qed.

Lemma add_path_nonempty t tsep path sep na t' p :
  nonempty_names t -> add_path_to_tree t tsep path sep true na = (t', Ret p) ->
  nonempty_names t' /\ tname t' = tname t /\ path <> [] /\
  exists rest, branch_of path sep = tname t :: rest /\ Forall (fun x => x <> []) rest.
Proof.
  intros Hne H. destruct (add_path_inv _ _ _ _ _ _ _ H) as (rest & Hb & Hok & ->).
  pose proof (ins_ok_nonempty _ _ _ _ Hne Hok) as Hr.
  split; [|split; [|split]].
  - intros n Hn. rewrite names_set_attrs in Hn. apply ins_names_incl in Hn as [Hn|Hn]; [now apply Hne|].
    rewrite Forall_forall in Hr. now apply Hr.
  - now rewrite tname_upd_at_attrs, ins_tname.
  - intros ->. unfold add_path_to_tree in H. cbn in H. discriminate.
  - eauto.
Qed.

(* the boolean test of Spec/PC05.v for one parsed path, with the root name as a parameter *)
Definition path_ok_b (root : str) (p : path) : bool :=
  negb (match p with [] => true | r :: _ => negb (str_eqb r root) end)
  && forallb (fun c => negb (is_nil c)) p.

Lemma path_ok_b_iff root p :
  path_ok_b root p = true <-> exists rest, p = root :: rest /\ Forall (fun x => x <> []) (root :: rest).
Proof.
  unfold path_ok_b. destruct p as [|r rest]; cbn; [split; [discriminate|intros (x & H & _); discriminate]|].
  rewrite negb_involutive, !andb_true_iff, str_eqb_eq, negb_true_iff, forallb_forall. split.
  - intros (-> & Hr & Hf). exists rest. split; [reflexivity|]. constructor.
    + intros ->. discriminate.
    + apply Forall_forall. intros x Hx E. subst. specialize (Hf [] Hx). discriminate.
  - intros (rest' & E & Hf). inversion E; subst. inversion Hf as [|? ? H1 H2]; subst.
    split; [reflexivity|]. split; [destruct root; [congruence|reflexivity]|].
    intros x Hx. rewrite Forall_forall in H2. specialize (H2 x Hx). destruct x; [congruence|reflexivity].
Qed.

Lemma spec_parse_ok_agree sp root s :
  PG sp s -> path_ok_b root (spec_parse s sp) = true -> spec_parse s sp = branch_of s sp /\ s <> [].
Proof.
  intros [(_ & E1 & _)|(E & E1 & _)] H.
  - rewrite E1 in H. discriminate.
  - split; [exact E1|]. intros ->. apply E. reflexivity.
Qed.

Lemma branch_ok_agree sp root s rest :
  PG sp s -> root <> [] -> branch_of s sp = root :: rest -> spec_parse s sp = branch_of s sp.
Proof.
  intros [(_ & _ & E2)|(_ & E1 & _)] Hr Hb.
  - rewrite E2 in Hb. inversion Hb. congruence.
  - exact E1.
Qed.

(* A1: an accepted loop: every row reads the same under both parsers and passes the spec's test *)
Lemma add_rows_accepted_ok sp tsep : forall rows t acc t' ps,
  (forall r, In r rows -> PG sp (fst r)) ->
  nonempty_names t -> add_rows t tsep sp true rows acc = (t', Ret ps) ->
  nonempty_names t' /\ tname t' = tname t /\
  forall r, In r rows -> spec_parse (fst r) sp = branch_of (fst r) sp
                         /\ path_ok_b (tname t) (spec_parse (fst r) sp) = true.
Proof.
  induction rows as [|[path na] rows IH]; intros t acc t' ps Hpg Hne H; cbn [add_rows] in H.
  - inversion H; subst. split; [exact Hne|]. split; [reflexivity|]. intros r0 [].
  - destruct (add_path_to_tree t tsep path sp true na) as [t1 [p|e]] eqn:Ha; [|discriminate].
    destruct (add_path_nonempty _ _ _ _ _ _ _ Hne Ha) as (Hne1 & Hn1 & Hp & rest & Hb & Hr).
    destruct (IH _ _ _ _ (fun r Hr => Hpg r (or_intror Hr)) Hne1 H) as (Hne' & Hn' & Hrows).
    split; [exact Hne'|]. split; [congruence|].
    assert (Hroot : tname t <> []) by (apply Hne; apply tname_in_names).
    intros r [<-|Hin]; cbn [fst].
    + pose proof (branch_ok_agree sp _ _ _ (Hpg (path, na) (or_introl eq_refl)) Hroot Hb) as Eq. cbn [fst] in Eq. split; [exact Eq|].
      rewrite Eq, Hb. apply path_ok_b_iff. exists rest. split; [reflexivity|]. now constructor.
    + rewrite <- Hn1. now apply Hrows.
Qed.

(* A2: rows passing the spec's test are accepted *)
Lemma add_rows_ok_accepted sp tsep : forall rows t acc,
  (forall r, In r rows -> PG sp (fst r)) ->
  sib_ok t -> (forall r, In r rows -> path_ok_b (tname t) (spec_parse (fst r) sp) = true) ->
  exists t' ps, add_rows t tsep sp true rows acc = (t', Ret ps).
Proof.
  induction rows as [|[path na] rows IH]; intros t acc Hpg Hw Hok; cbn [add_rows]; [eauto|].
  pose proof (Hok (path, na) (or_introl eq_refl)) as H0. cbn [fst] in H0.
  destruct (spec_parse_ok_agree sp _ _ (Hpg (path, na) (or_introl eq_refl)) H0) as [Eq Hp]. cbn [fst] in Eq. rewrite Eq in H0.
  apply path_ok_b_iff in H0 as (rest & Hb & Hf). inversion Hf as [|? ? _ Hrest]; subst.
  destruct (add_path_accepts t tsep path sp na rest Hw Hp Hb Hrest) as (t1 & p & Ha). rewrite Ha.
  destruct (add_path_reuses _ _ _ _ _ _ _ Ha) as (_ & _ & Hs).
  destruct (add_path_inv _ _ _ _ _ _ _ Ha) as (rest' & _ & _ & E).
  assert (Hn : tname t1 = tname t) by (subst t1; now rewrite tname_upd_at_attrs, ins_tname).
  apply IH; [intros r Hr; apply Hpg; now right|now apply Hs|]. intros r Hr. rewrite Hn. apply Hok. now right.
Qed.

(* ======================================================================================== *)
(* 26. the clauses of prop_C05 for an accepted loop, in the vocabulary of Spec/PC05.v          *)

Lemma add_rows_fresh_tag tsep sep : forall rows t acc t' ps q s',
  add_rows t tsep sep true rows acc = (t', Ret ps) ->
  subtree_at t q = None -> subtree_at t' q = Some s' -> ttag s' = None.
Proof.
  induction rows as [|[path na] rows IH]; intros t acc t' ps q s' H Hn Hs; cbn [add_rows] in H.
  - inversion H; subst. congruence.
  - destruct (add_path_to_tree t tsep path sep true na) as [t1 [p|e]] eqn:Ha; [|discriminate].
    destruct (subtree_at t1 q) as [s1|] eqn:Hq1.
    + destruct (add_path_reuses _ _ _ _ _ _ _ Ha) as (_ & Hf & _).
      destruct (add_rows_positions _ _ _ _ _ _ _ H q s1 Hq1) as (s2 & Hs2 & _ & Ht).
      rewrite Hs in Hs2. inversion Hs2; subst. rewrite Ht. eapply Hf; eauto.
    + eapply IH; eauto.
Qed.

Lemma add_rows_rets tsep sep : forall rows t acc t' ps,
  add_rows t tsep sep true rows acc = (t', Ret ps) ->
  exists qs, ps = rev acc ++ qs /\
             Forall2 (fun r q => names_along t' q = branch_of (fst r) sep) rows qs.
Proof.
  induction rows as [|[path na] rows IH]; intros t acc t' ps H; cbn [add_rows] in H.
  - inversion H; subst. exists []. rewrite app_nil_r. split; [reflexivity|constructor].
  - destruct (add_path_to_tree t tsep path sep true na) as [t1 [p|e]] eqn:Ha; [|discriminate].
    destruct (IH _ _ _ _ H) as (qs & -> & Hf). exists (p :: qs). split.
    + cbn [rev]. now rewrite <- app_assoc.
    + constructor; [|exact Hf]. cbn [fst].
      destruct (add_path_positions _ _ _ _ _ _ _ Ha) as (_ & Hn & sp & Hsp).
      destruct (add_rows_positions _ _ _ _ _ _ _ H p sp Hsp) as (s2 & _ & Hn2 & _). congruence.
Qed.

Lemma nodup_path_NoDup l : nodup_path l = true -> NoDup l.
Proof.
  induction l as [|x l IH]; intros H; [constructor|]. cbn in H. apply andb_true_iff in H as [H1 H2].
  constructor; [|now apply IH]. apply negb_true_iff in H1. now apply mem_path_false.
Qed.

Lemma NoDup_paths_sib_ok : forall t pfx, NoDup (paths_from pfx t) -> sib_ok t.
Proof.
  induction t as [g n a ks IH] using tree_ind'. intros pfx Hn. rewrite paths_from_unfold in Hn.
  inversion Hn as [|? ? _ Hf]; subst. clear Hn. set (p0 := pfx ++ [n]) in *.
  assert (G : NoDup (map tname ks) /\ Forall sib_ok ks).
  { induction ks as [|k ks IHk]; [split; constructor|].
    inversion IH as [|? ? Hk Hks]; subst. cbn [flat_map] in Hf.
    destruct (NoDup_app_inv _ _ Hf) as [Hfk Hfr]. destruct (IHk Hks Hfr) as [H1 H2]. split.
    - cbn. constructor; [|exact H1]. intros Hin. apply in_map_iff in Hin as (k' & E & Hk').
      apply (NoDup_app_disjoint _ _ (p0 ++ [tname k]) Hf); [apply paths_from_head|].
      apply in_flat_map. exists k'. split; [exact Hk'|]. rewrite <- E. apply paths_from_head.
    - constructor; [|exact H2]. eapply Hk; eauto. }
  destruct G. now constructor.
Qed.

Lemma list_eqb_refl {A} (e : A -> A -> bool) l : (forall x, e x x = true) -> list_eqb e l l = true.
Proof. intros H. induction l as [|x l IH]; [reflexivity|]. cbn. now rewrite H, IH. Qed.

Lemma opt_tag_eqb_refl g : opt_tag_eqb g g = true.
Proof. destruct g; cbn; [apply Nat.eqb_refl|reflexivity]. Qed.

Lemma pos_eqb_refl (q : pos) : list_eqb Nat.eqb q q = true.
Proof. apply list_eqb_refl. apply Nat.eqb_refl. Qed.

Lemma in_pre_position t s : In s (pre t) -> exists q, subtree_at t q = Some s.
Proof.
  intros H. pose proof (lockstep t []) as L. revert H. induction L as [|p x ps xs Hpx _ IH]; intros H; [contradiction|].
  destruct H as [<-|H]; [|now apply IH]. destruct Hpx as (q & Hq & _). eauto.
Qed.

Lemma same_tree_refl t : attrs_wf t -> same_tree t t = true.
Proof.
  intros Hwf. unfold same_tree.
  rewrite (list_eqb_refl path_eqb _ path_eqb_refl), (list_eqb_refl opt_tag_eqb _ opt_tag_eqb_refl). cbn.
  assert (G : forall l, (forall s, In s l -> NoDup (map fst (tattrs s))) ->
                forallb2 (fun x y => attrs_equiv (tattrs x) (tattrs y)) l l = true).
  { induction l as [|x l IH]; intros H; [reflexivity|]. cbn.
    rewrite attrs_equiv_true; [|apply H; now left|apply H; now left|apply aeq_refl].
    apply IH. intros s Hs. apply H. now right. }
  apply G. intros s Hs. destruct (in_pre_position t s Hs) as [q Hq]. eapply Hwf; eauto.
Qed.

(* expected tag / base attributes of the specification, with the base tree as a parameter *)
Definition etag (b : tree) (p : path) : option nat :=
  match assoc_path p (combine (paths b) (map ttag (pre b))) with Some g => g | None => None end.
Definition battrs (b : tree) (p : path) : attrs :=
  match assoc_path p (combine (paths b) (map tattrs (pre b))) with Some a => a | None => [] end.
Definition eattrs (b : tree) (pr : list (path * attrs)) (p : path) : attrs :=
  fold_left (fun a r => if path_eqb (fst r) p then set_attrs a (snd r) else a) pr (battrs b p).
Definition sprows (sp : str) (rows : list row) : list (path * attrs) :=
  map (fun r => (spec_parse (fst r) sp, snd r)) rows.

Lemma fold_left_map {A B C} (f : A -> B -> A) (g : C -> B) l : forall a,
  fold_left f (map g l) a = fold_left (fun a x => f a (g x)) l a.
Proof. induction l as [|x l IH]; intros a; [reflexivity|]. cbn. apply IH. Qed.

Lemma fold_left_ext_in {A B} (f g : A -> B -> A) l : (forall a x, In x l -> f a x = g a x) ->
  forall a, fold_left f l a = fold_left g l a.
Proof.
  induction l as [|x l IH]; intros H a; [reflexivity|]. cbn. rewrite (H a x (or_introl eq_refl)).
  apply IH. intros a' y Hy. apply H. now right.
Qed.

(* the look-ups of the specification in the base tree, for a position of the result *)
Lemma base_lookup {C} (f : tree -> C) (d : C) tsep sep rows b acc t' ps q s' :
  sib_ok b -> NoDup (paths b) -> add_rows b tsep sep true rows acc = (t', Ret ps) ->
  subtree_at t' q = Some s' ->
  match assoc_path (names_along t' q) (combine (paths b) (map f (pre b))) with Some v => v | None => d end
  = match subtree_at b q with Some s => f s | None => d end.
Proof.
  intros Hw Hn H Hq. destruct (subtree_at b q) as [s|] eqn:Hb.
  - destruct (add_rows_positions _ _ _ _ _ _ _ H q s Hb) as (s2 & _ & Hn2 & _).
    now rewrite Hn2, (assoc_path_node f b q s Hw Hn Hb).
  - rewrite assoc_path_None; [reflexivity|].
    rewrite combine_fst_eq by (rewrite map_length; apply paths_pre_length).
    intros Hin. destruct (in_paths_valid b [] _ Hin) as (q0 & s0 & Hq0 & E). cbn [app] in E.
    destruct (add_rows_positions _ _ _ _ _ _ _ H q0 s0 Hq0) as (s2 & Hs2 & Hn2 & _).
    assert (q = q0).
    { eapply (names_along_inj q t' q0); eauto; [eapply add_rows_sib_ok; eauto|congruence]. }
    subst q0. congruence.
Qed.

Lemma core_accepted sp tsep b rows t' ps :
  (forall r, In r rows -> PG sp (fst r)) ->
  sib_ok b -> attrs_wf b -> nonempty_names b -> NoDup (paths b) ->
  add_rows b tsep sp true rows [] = (t', Ret ps) ->
  let pr := sprows sp rows in
  let all := dedup [] (paths b ++ closure (map fst pr)) in
  paths t' = trie_pre (max_len all) all [tname b]
  /\ map ttag (pre t') = map (etag b) (paths t')
  /\ forallb2 (fun p nd => attrs_equiv (tattrs nd) (eattrs b pr p)) (paths t') (pre t') = true
  /\ forallb2 (fun r q => path_eqb (names_along t' q) (fst r)) pr ps = true
  /\ forallb (path_ok_b (tname b)) (map fst pr) = true
  /\ (forall q s', subtree_at t' q = Some s' -> subtree_at b q = None -> ttag s' = None).
Proof.
  intros Hpg Hw Hwf Hne Hnd H pr all.
  destruct (add_rows_accepted_ok sp tsep _ _ _ _ _ Hpg Hne H) as (_ & _ & Hrows).
  assert (Hbr : map fst pr = branches sp rows).
  { unfold pr, sprows, branches. rewrite map_map. apply map_ext_in. intros r Hr. cbn [fst]. now apply Hrows. }
  split; [|split; [|split; [|split; [|split]]]].
  - unfold all. rewrite Hbr. eapply add_rows_extends; eauto.
  - apply positions_map_eq. intros q s' Hq. unfold etag.
    rewrite (base_lookup ttag None _ _ _ _ _ _ _ q s' Hw Hnd H Hq).
    destruct (subtree_at b q) as [s|] eqn:Hb.
    + destruct (add_rows_positions _ _ _ _ _ _ _ H q s Hb) as (s2 & Hs2 & _ & Ht). congruence.
    + eapply add_rows_fresh_tag; eauto.
  - apply positions_forallb2. intros q s' Hq.
    assert (Ebase : battrs b (names_along t' q) = attrs_at b q).
    { unfold battrs, attrs_at. apply (base_lookup tattrs [] _ _ _ _ _ _ _ q s' Hw Hnd H Hq). }
    assert (Efold : eattrs b pr (names_along t' q) = upd_for sp rows (names_along t' q) (attrs_at b q)).
    { unfold eattrs, upd_for, pr, sprows. rewrite Ebase, fold_left_map. apply fold_left_ext_in.
      intros a r Hr. cbn [fst snd]. unfold step_attrs. now rewrite (proj1 (Hrows r Hr)). }
    rewrite Efold. apply attrs_equiv_true.
    + eapply add_rows_attrs_wf; eauto.
    + apply upd_for_keys. unfold attrs_at. destruct (subtree_at b q) as [s|] eqn:Hb; [eapply Hwf; eauto|constructor].
    + eapply add_rows_attrs; eauto.
  - destruct (add_rows_rets _ _ _ _ _ _ _ H) as (qs & -> & Hf). cbn [rev app].
    unfold pr, sprows. clear - Hf Hrows. induction Hf as [|r q rows qs Hrq _ IH]; [reflexivity|].
    cbn [map forallb2 fst]. rewrite (proj1 (Hrows r (or_introl eq_refl))), Hrq, path_eqb_refl. cbn.
    apply IH. intros r' Hr'. apply Hrows. now right.
  - apply forallb_forall. intros p Hp. unfold pr, sprows in Hp. rewrite map_map in Hp.
    apply in_map_iff in Hp as (r & <- & Hr). cbn [fst]. now apply Hrows.
  - intros q s' Hq Hb. eapply add_rows_fresh_tag; eauto.
Qed.

(* ======================================================================================== *)
(* 27. prop_C05 holds of the model: the in-place entry points (duplicates allowed)             *)

Lemma guards_facts k i :
  guards k i = true ->
  keys_ok k i = true /\ NoDup (paths (base k i)) /\ nonempty_names (base k i).
Proof.
  unfold guards. rewrite !andb_true_iff. intros ((((_ & Hk) & Hn) & Hne) & _).
  split; [exact Hk|]. split; [now apply nodup_path_NoDup|].
  intros n Hin. rewrite forallb_forall in Hne. specialize (Hne n Hin). destruct n; [discriminate|discriminate].
Qed.

Lemma add_kind_prows k i :
  (forall a, spec_filter k (i_pcol i) a = a) -> prows k i = sprows (i_sep i) (i_rows i).
Proof.
  intros Hf. unfold prows, sprows. apply map_ext. intros r. now rewrite Hf.
Qed.

Lemma add_kind_structure k i sp tsep t' ps :
  (forall r, In r (i_rows i) -> PG sp (fst r)) ->
  is_new k = false -> prows k i = sprows sp (i_rows i) ->
  sib_ok (i_tree i) -> attrs_wf (i_tree i) -> nonempty_names (i_tree i) -> NoDup (paths (i_tree i)) ->
  add_rows (i_tree i) tsep sp true (i_rows i) [] = (t', Ret ps) ->
  list_eqb path_eqb (paths t') (expected_paths k i) = true
  /\ list_eqb opt_tag_eqb (map ttag (pre t')) (map (expected_tag k i) (paths t')) = true
  /\ forallb2 (fun p nd => attrs_equiv (tattrs nd) (expected_attrs k i p)) (paths t') (pre t') = true
  /\ forallb (path_ok k i) (map fst (prows k i)) = true
  /\ forallb2 (fun r q => path_eqb (names_along t' q) (fst r)) (prows k i) ps = true.
Proof.
  intros Hpg Hnew Hpr Hw Hwf Hne Hnd H.
  destruct (core_accepted sp tsep _ _ _ _ Hpg Hw Hwf Hne Hnd H) as (F1 & F2 & F3 & F4 & F5 & _).
  unfold expected_paths, all_paths, expected_tag, expected_attrs, base_attrs, path_ok, wrong_root, base, root_name.
  rewrite Hnew, Hpr. split; [|split; [|split; [|split]]].
  - rewrite F1. apply list_eqb_refl. apply path_eqb_refl.
  - rewrite F2. apply list_eqb_refl. apply opt_tag_eqb_refl.
  - exact F3.
  - exact F5.
  - exact F4.
Qed.

(* a first row whose root is wrong (in the specification's reading) leaves the tree untouched *)
Lemma wrong_root_unchanged sp b tsep s dup na :
  PG sp s -> nonempty_names b ->
  match spec_parse s sp with [] => true | r :: _ => negb (str_eqb r (tname b)) end = true ->
  exists e, add_path_to_tree b tsep s sp dup na = (b, Raise e).
Proof.
  intros Hpg Hne Hwr. destruct s as [|ch s0] eqn:Es.
  - exists ValueError. reflexivity.
  - rewrite <- Es in *. assert (Hs : s <> []) by (rewrite Es; discriminate).
    exists TreeError. apply add_path_wrong_root; [exact Hs|].
    assert (Hroot : tname b <> []) by (apply Hne; apply tname_in_names).
    destruct Hpg as [(_ & _ & E2)|(_ & E1 & _)].
    + rewrite E2. cbn. congruence.
    + rewrite E1 in Hwr.
      pose proof (branch_of_nonempty s sp) as Hb. destruct (branch_of s sp) as [|r0 l]; [congruence|].
      cbn. intros ->. rewrite str_eqb_refl in Hwr. discriminate.
Qed.

(* ======================================================================================== *)
(* 28. list_to_tree: the de-duplication of the path strings is unobservable                    *)

Lemma ins_existing na : forall rest t q s,
  sib_ok t -> subtree_at t q = Some s -> names_along t q = tname t :: rest ->
  ins rest na t = (t, Ret q).
Proof.
  induction rest as [|nm rest IH]; intros t q s Hw Hq Hn.
  - destruct q as [|i q]; [reflexivity|]. destruct (names_along_len2 _ _ _ _ Hq) as (x & y & l & E).
    rewrite E in Hn. discriminate.
  - destruct q as [|i q]; [cbn in Hn; discriminate|].
    cbn [subtree_at names_along] in Hq, Hn. destruct (nth_error (tkids t) i) as [k|] eqn:Hk; [|discriminate].
    injection Hn as Hn'. destruct (names_along_hd k q) as [l El]. rewrite El in Hn'. injection Hn' as Hname Hl.
    pose proof (sib_ok_kids _ Hw) as [Hnd Hwk].
    pose proof (find_idx_complete nm 0 _ i k Hk Hname) as Hin. cbn [Nat.add] in Hin.
    pose proof (find_idx_nodup nm 0 _ Hnd) as Hlen.
    cbn [ins]. destruct (find_idx nm 0 (tkids t)) as [|i0 [|i1 r]]; [contradiction| |cbn in Hlen; lia].
    destruct Hin as [->|[]]. rewrite Hk.
    rewrite Forall_forall in Hwk.
    rewrite (IH k q s (Hwk k (nth_error_In _ _ Hk)) Hq); [|rewrite El, Hl; reflexivity].
    cbn [fst snd map_res]. f_equal. apply upd_at_id. cbn [subtree_at]. now rewrite Hk.
Qed.

Lemma add_path_existing t tsep s sep q sx :
  sib_ok t -> s <> [] -> subtree_at t q = Some sx -> names_along t q = branch_of s sep ->
  add_path_to_tree t tsep s sep true [] = (t, Ret q).
Proof.
  intros Hw Hs Hq Hn. unfold add_path_to_tree. destruct s; [congruence|]. cbn [is_nil].
  rewrite <- Hn. destruct (names_along_hd t q) as [rest E]. rewrite E, str_eqb_refl. cbn [negb].
  rewrite grow_ins_root, (ins_existing [] rest t q sx Hw Hq E). f_equal.
  erewrite upd_at_ext_at; [apply (upd_at_id _ _ _ Hq)|exact Hq|]. destruct sx; reflexivity.
Qed.

Definition collapse (r : tree * res (list pos)) : res tree :=
  match r with (t, Ret _) => Ret t | (_, Raise e) => Raise e end.

Lemma In_existsb_str x l : existsb (str_eqb x) l = true <-> In x l.
Proof.
  rewrite existsb_exists. split.
  - intros (y & Hy & E). apply str_eqb_eq in E. now subst.
  - intros H. exists x. split; [exact H|apply str_eqb_refl].
Qed.

Lemma add_rows_dedup tsep sep : forall L seen t acc1 acc2,
  sib_ok t ->
  (forall s, In s seen -> s <> [] /\ exists q sx, subtree_at t q = Some sx /\ names_along t q = branch_of s sep) ->
  collapse (add_rows t tsep sep true (map (fun p => (p, [])) (dedup_str seen L)) acc1)
  = collapse (add_rows t tsep sep true (map (fun p => (p, [])) L) acc2).
Proof.
  induction L as [|x L IH]; intros seen t acc1 acc2 Hw Hseen; [reflexivity|].
  cbn [dedup_str map add_rows]. destruct (existsb (str_eqb x) seen) eqn:E.
  - apply In_existsb_str in E. destruct (Hseen x E) as (Hx & q & sx & Hq & Hn).
    rewrite (add_path_existing t tsep x sep q sx Hw Hx Hq Hn). now apply IH.
  - cbn [map add_rows]. destruct (add_path_to_tree t tsep x sep true []) as [t1 [p|e]] eqn:Ha; [|reflexivity].
    destruct (add_path_positions _ _ _ _ _ _ _ Ha) as (Hkeep & Hnp & sp & Hsp).
    destruct (add_path_reuses _ _ _ _ _ _ _ Ha) as (_ & _ & Hs).
    apply IH; [now apply Hs|]. intros s [<-|Hin].
    + split; [|eauto]. intros ->. unfold add_path_to_tree in Ha. cbn in Ha. discriminate.
    + destruct (Hseen s Hin) as (Hne & q & sx & Hq & Hn). split; [exact Hne|].
      destruct (Hkeep q sx Hq) as (s' & Hs' & Hn' & _). exists q, s'. split; [exact Hs'|congruence].
Qed.

Lemma list_to_tree_full p0 ps sep :
  let r := hd [] (split (lstrip p0 sep) sep) in
  list_to_tree (p0 :: ps) sep true
  = if is_nil r then Raise TreeError
    else collapse (add_rows (T None r [] []) sep sep true (map (fun p => (p, [])) (p0 :: ps)) []).
Proof.
  intros r. unfold list_to_tree. fold r. destruct (is_nil r); [reflexivity|].
  rewrite <- (add_rows_dedup sep sep (p0 :: ps) [] (T None r [] []) [] []).
  - unfold collapse. destruct (add_rows _ _ _ _ _ _) as [t [x|e]]; reflexivity.
  - constructor; constructor.
  - intros s [].
Qed.

(* ======================================================================================== *)
(* 29. prop_C05 holds of the model: list_to_tree and dict_to_tree (duplicates allowed)         *)

(* key k is given a value by some row naming path P *)
Definition bound (sep : str) (rows : list row) (P : path) (k : str) : Prop :=
  exists r, In r rows /\ branch_of (fst r) sep = P /\ attr_get (rev (snd r)) k <> None.

Lemma val_eq_dec (x y : val) : {x = y} + {x <> y}.
Proof.
  decide equality; try apply Z.eq_dec; try apply Bool.bool_dec. apply (list_eq_dec N.eq_dec).
Qed.
Lemma oval_eq_dec (x y : option val) : {x = y} + {x <> y}.
Proof. decide equality. apply val_eq_dec. Qed.

(* initial attributes that are all re-applied by the rows do not show in the final map *)
Lemma upd_for_base_irrelevant sep P : forall rows a b,
  (forall k, attr_get a k <> attr_get b k -> bound sep rows P k) ->
  aeq (upd_for sep rows P a) (upd_for sep rows P b).
Proof.
  induction rows as [|r rows IH]; intros a b H.
  - intros k. destruct (oval_eq_dec (attr_get a k) (attr_get b k)) as [E|E]; [exact E|].
    destruct (H k E) as (r & [] & _).
  - cbn [upd_for fold_left]. apply IH. intros k Hk. unfold step_attrs in Hk.
    destruct (path_eqb (branch_of (fst r) sep) P) eqn:E.
    + rewrite !attr_get_set_attrs_last in Hk. destruct (attr_get (rev (snd r)) k) eqn:Eg; [congruence|].
      destruct (H k Hk) as (r' & [<-|Hin] & Hb & Hg); [congruence|]. exists r'. auto.
    + destruct (H k Hk) as (r' & [<-|Hin] & Hb & Hg).
      * rewrite Hb, path_eqb_refl in E. discriminate.
      * exists r'. auto.
Qed.

Lemma etag_fresh_root r a p : etag (T None r a []) p = None.
Proof. unfold etag. destruct p as [|y [|z l]]; cbn; try reflexivity; destruct (str_eqb r y); reflexivity. Qed.

Lemma battrs_fresh_root r p : battrs (T None r [] []) p = [].
Proof. unfold battrs. destruct p as [|y [|z l]]; cbn; try reflexivity; destruct (str_eqb r y); reflexivity. Qed.

Lemma root_name_new k i :
  is_new k = true ->
  root_name k i = match i_rows i with [] => [] | r0 :: _ => hd [] (spec_parse (fst r0) (i_sep i)) end.
Proof.
  intros Hn. unfold root_name, prows. rewrite Hn. destruct (i_rows i) as [|r0 rows]; [reflexivity|].
  cbn [map]. destruct (spec_parse (fst r0) (i_sep i)); reflexivity.
Qed.

(* a constructor: the model starts from a fresh root carrying a0, the specification from a bare one *)
Lemma new_kind_structure k i sp r a0 tsep mrows t' ps :
  (forall r0, In r0 mrows -> PG sp (fst r0)) ->
  is_new k = true -> root_name k i = r -> prows k i = sprows sp mrows -> r <> [] ->
  NoDup (map fst a0) -> (forall key, attr_get a0 key <> None -> bound sp mrows [r] key) ->
  add_rows (T None r a0 []) tsep sp true mrows [] = (t', Ret ps) ->
  list_eqb path_eqb (paths t') (expected_paths k i) = true
  /\ list_eqb opt_tag_eqb (map ttag (pre t')) (map (expected_tag k i) (paths t')) = true
  /\ forallb2 (fun p nd => attrs_equiv (tattrs nd) (expected_attrs k i p)) (paths t') (pre t') = true
  /\ forallb (path_ok k i) (map fst (prows k i)) = true.
Proof.
  intros Hpg Hnew Hroot Hpr Hr Ha0 Hbound H.
  set (b := T None r a0 []) in *.
  assert (Hw : sib_ok b) by (constructor; constructor).
  assert (Hwf : attrs_wf b).
  { intros q s Hq. destruct q as [|j q]; [cbn in Hq; inversion Hq; subst; exact Ha0|]. cbn in Hq. destruct j; discriminate. }
  assert (Hne : nonempty_names b).
  { intros n Hn. unfold b in Hn. rewrite names_unfold in Hn. destruct Hn as [<-|[]]. exact Hr. }
  assert (Hnd : NoDup (paths b)) by (cbn; repeat constructor; intros []).
  destruct (core_accepted sp tsep _ _ _ _ Hpg Hw Hwf Hne Hnd H) as (F1 & F2 & _ & _ & F5 & _).
  destruct (add_rows_accepted_ok sp tsep _ _ _ _ _ Hpg Hne H) as (_ & Hn' & Hrows). cbn [tname b] in Hn'.
  unfold expected_paths, all_paths, expected_tag, expected_attrs, base_attrs, path_ok, wrong_root, base.
  rewrite Hnew, Hroot, Hpr. split; [|split; [|split]].
  - rewrite F1. apply list_eqb_refl. apply path_eqb_refl.
  - rewrite F2. erewrite map_ext; [|intros p; apply etag_fresh_root].
    apply list_eqb_refl. apply opt_tag_eqb_refl.
  - apply positions_forallb2. intros q s' Hq.
    change (match assoc_path (names_along t' q) (combine (paths (T None r [] [])) (map tattrs (pre (T None r [] [])))) with
            | Some a => a | None => [] end) with (battrs (T None r [] []) (names_along t' q)).
    rewrite battrs_fresh_root.
    assert (Efold : fold_left (fun a r1 => if path_eqb (fst r1) (names_along t' q) then set_attrs a (snd r1) else a)
                              (sprows sp mrows) []
                    = upd_for sp mrows (names_along t' q) []).
    { unfold upd_for, sprows. rewrite fold_left_map. apply fold_left_ext_in.
      intros a r1 Hr1. cbn [fst snd]. unfold step_attrs. now rewrite (proj1 (Hrows r1 Hr1)). }
    rewrite Efold. apply attrs_equiv_true.
    + eapply add_rows_attrs_wf; eauto.
    + apply upd_for_keys. constructor.
    + eapply aeq_trans; [eapply add_rows_attrs; eauto|].
      destruct q as [|j q].
      * cbn [names_along]. rewrite Hn'. unfold attrs_at, b. cbn [subtree_at tattrs].
        apply upd_for_base_irrelevant. intros key Hk. apply Hbound. cbn in Hk. congruence.
      * unfold attrs_at, b. cbn [subtree_at tkids]. destruct j; cbn; apply aeq_refl.
  - exact F5.
Qed.

Lemma first_nonempty_In l : first_nonempty l <> [] -> In (first_nonempty l) l.
Proof.
  unfold first_nonempty. intros H. destruct (filter (fun a => negb (is_nil a)) l) as [|a r] eqn:E; [congruence|].
  assert (Hin : In a (filter (fun a => negb (is_nil a)) l)) by (rewrite E; now left).
  now apply filter_In in Hin as [Hin _].
Qed.

Lemma dict_get_In d k a : dict_get d k = Some a -> In (k, a) d.
Proof.
  induction d as [|[k' v] d IH]; intros H; [discriminate|]. cbn [dict_get] in H.
  destruct (str_eqb k' k) eqn:E; [|right; now apply IH].
  apply str_eqb_eq in E. inversion H; subst. now left.
Qed.

Lemma dict_filter_spec pcol a :
  filter_attributes a [k_name] false = spec_filter KDict pcol a.
Proof.
  unfold filter_attributes, spec_filter, key_is. apply filter_ext. intros kv. cbn. now rewrite orb_false_r.
Qed.

Lemma dict_to_tree_form d sep k0 a0 rows :
  d = (k0, a0) :: rows ->
  dict_to_tree d sep true
  = let r := hd [] (branch_of k0 sep) in
    let get := fun k => match dict_get d k with Some a => a | None => [] end in
    let ra := filter_attributes (first_nonempty [get r; get (sep ++ r); get (r ++ sep); get (sep ++ r ++ sep)])
                                [k_name] false in
    if is_nil r then Raise TreeError
    else collapse (add_rows (T None r (set_attrs [] ra) []) sep sep true
                            (map (fun r0 : str * attrs => (fst r0, filter_attributes (snd r0) [k_name] false)) d) []).
Proof. intros ->. reflexivity. Qed.

(* ======================================================================================== *)
(* 30. duplicate names disallowed: accepted exactly when the permissive result has distinct names *)

Definition str_eq_dec : forall a b : str, {a = b} + {a <> b} := list_eq_dec N.eq_dec.

Lemma find_all_count nm : forall t, length (find_all nm t) = count_occ str_eq_dec (names t) nm.
Proof.
  induction t as [g n a ks IH] using tree_ind'. rewrite find_all_unfold, names_unfold, app_length.
  cbn [count_occ]. assert (G : forall i l, Forall (fun k => length (find_all nm k) = count_occ str_eq_dec (names k) nm) l ->
                             length (find_all_kids nm i l) = count_occ str_eq_dec (flat_map names l) nm).
  { intros i l. revert i. induction l as [|k l IHl]; intros i Hf; [reflexivity|].
    inversion Hf as [|? ? Hk Hl]; subst. rewrite find_all_kids_cons, app_length, map_length. cbn [flat_map].
    rewrite count_occ_app. f_equal; [exact Hk|exact (IHl (S i) Hl)]. }
  pose proof (G 0 ks IH) as G0. unfold pos in *. rewrite G0. destruct (str_eq_dec n nm) as [->|Hne].
  - rewrite str_eqb_refl. reflexivity.
  - destruct (str_eqb n nm) eqn:E; [apply str_eqb_eq in E; contradiction|reflexivity].
Qed.

Lemma find_all_unique nm t : NoDup (names t) -> length (find_all nm t) <= 1.
Proof. intros H. rewrite find_all_count. now apply NoDup_count_occ. Qed.

Lemma find_all_notin nm t : ~ In nm (names t) -> find_all nm t = [].
Proof.
  intros H. destruct (find_all nm t) as [|q l] eqn:E; [reflexivity|]. exfalso. apply H.
  destruct (find_all_sound nm t q) as (s & Hs & Hn); [rewrite E; now left|].
  rewrite <- Hn. apply (subtree_names_incl q t s Hs). apply tname_in_names.
Qed.

Lemma grow_step_true_false tsep t parent pt nm last na t1 p1 :
  NoDup (names t1) ->
  subtree_at t parent = Some pt ->
  grow_step tsep true t parent (names_along t parent ++ [nm]) nm last na = Ret (t1, p1) ->
  grow_step tsep false t parent (names_along t parent ++ [nm]) nm last na = Ret (t1, p1)
  /\ NoDup (names t) /\ (exists pt1, subtree_at t1 p1 = Some pt1)
  /\ names_along t1 p1 = names_along t parent ++ [nm].
Proof.
  intros Hn1 Hp. unfold grow_step. rewrite Hp.
  destruct (find_idx nm 0 (tkids pt)) as [|i [|j r]] eqn:F; [| |discriminate].
  - destruct (is_nil nm) eqn:En; [discriminate|]. intros H. inversion H; subst t1 p1. clear H.
    set (c0 := T None nm (if last then set_attrs [] na else []) []) in *.
    pose proof (names_add_kid c0 parent t pt Hp) as Hperm.
    assert (Hn1' : NoDup (names c0 ++ names t)) by (eapply Permutation_NoDup; eauto).
    unfold c0 in Hn1'. rewrite names_unfold in Hn1'. cbn [flat_map app] in Hn1'.
    inversion Hn1' as [|? ? Hnot Hn]; subst.
    rewrite (find_all_notin nm t Hnot). split; [reflexivity|]. split; [exact Hn|]. split.
    + rewrite subtree_at_app, (subtree_upd_at _ _ _ _ Hp). destruct pt as [g n a ks]. cbn.
      rewrite nth_error_app2, Nat.sub_diag by lia. cbn. eauto.
    + now rewrite (names_along_add_kid _ _ _ _ Hp).
  - intros H. inversion H; subst t1 p1. clear H.
    assert (Hi : In i (find_idx nm 0 (tkids pt))) by (rewrite F; now left).
    apply find_idx_spec in Hi as [_ (k & Hk & Hname)]. rewrite Nat.sub_0_r in Hk.
    assert (Hq : subtree_at t (parent ++ [i]) = Some k).
    { rewrite subtree_at_app, Hp. cbn. now rewrite Hk. }
    pose proof (find_all_complete nm t _ k Hq Hname) as Hin.
    pose proof (find_all_unique nm t Hn1) as Hlen.
    destruct (find_all nm t) as [|q [|q' l]]; [contradiction| |cbn in Hlen; lia].
    destruct Hin as [->|[]].
    pose proof (names_along_child parent t pt i k Hp Hk) as Hna. rewrite Hname in Hna.
    unfold path_name. rewrite Hna, str_eqb_refl.
    split; [reflexivity|]. split; [exact Hn1|]. split; [eauto|reflexivity].
Qed.

Lemma grow_step_true_names tsep t parent pt pref nm last na t1 p1 :
  subtree_at t parent = Some pt ->
  grow_step tsep true t parent pref nm last na = Ret (t1, p1) ->
  exists extra, Permutation (names t1) (extra ++ names t).
Proof.
  intros Hp. unfold grow_step. rewrite Hp.
  destruct (find_idx nm 0 (tkids pt)) as [|i [|j r]]; [| |discriminate].
  - destruct (is_nil nm); [discriminate|]. intros H. inversion H; subst. eexists. eapply names_add_kid; eauto.
  - intros H. inversion H; subst. exists []. reflexivity.
Qed.

Lemma grow_true_names tsep na : forall rest t parent pt done t' p,
  subtree_at t parent = Some pt -> names_along t parent = done ->
  grow tsep true t parent done rest na = (t', Ret p) ->
  exists extra, Permutation (names t') (extra ++ names t).
Proof.
  induction rest as [|nm rest IH]; intros t parent pt done t' p Hp Hd H; cbn [grow] in H.
  - inversion H; subst. exists []. reflexivity.
  - subst done.
    match type of H with context [grow_step ?a1 ?a2 ?a3 ?a4 ?a5 ?a6 ?a7 ?a8] =>
      destruct (grow_step a1 a2 a3 a4 a5 a6 a7 a8) as [[t1 p1]|e] eqn:Hs; [|discriminate H] end.
    destruct (grow_step_true_names _ _ _ _ _ _ _ _ _ _ Hp Hs) as [ex1 P1].
    (* validity and name path of the new cursor: from the duplicate-free variant's lemma we only need
       them for the recursion; obtain them directly *)
    assert (Hv : exists pt1, subtree_at t1 p1 = Some pt1 /\ names_along t1 p1 = names_along t parent ++ [nm]).
    { unfold grow_step in Hs. rewrite Hp in Hs.
      destruct (find_idx nm 0 (tkids pt)) as [|i [|j r]] eqn:F; [| |discriminate].
      - destruct (is_nil nm); [discriminate|]. inversion Hs; subst. clear Hs.
        eexists. split.
        + rewrite subtree_at_app, (subtree_upd_at _ _ _ _ Hp). destruct pt as [g n a ks]. cbn.
          rewrite nth_error_app2, Nat.sub_diag by lia. reflexivity.
        + now rewrite (names_along_add_kid _ _ _ _ Hp).
      - inversion Hs; subst. clear Hs.
        assert (Hi : In i (find_idx nm 0 (tkids pt))) by (rewrite F; now left).
        apply find_idx_spec in Hi as [_ (k & Hk & Hname)]. rewrite Nat.sub_0_r in Hk.
        exists k. split; [rewrite subtree_at_app, Hp; cbn; now rewrite Hk|].
        rewrite (names_along_child _ _ _ _ _ Hp Hk). now rewrite Hname. }
    destruct Hv as (pt1 & Hp1 & Hn1).
    destruct (IH t1 p1 pt1 _ t' p Hp1 Hn1 H) as [ex2 P2].
    exists (ex2 ++ ex1). rewrite P2, P1. now rewrite app_assoc.
Qed.

Lemma Permutation_NoDup_tail {A} (l1 l2 ex : list A) :
  Permutation l1 (ex ++ l2) -> NoDup l1 -> NoDup l2.
Proof.
  intros P H. eapply Permutation_NoDup in H; [|exact P]. now apply NoDup_app_inv in H as [_ H].
Qed.

Lemma grow_true_false tsep na : forall rest t parent pt done t' p,
  NoDup (names t') ->
  subtree_at t parent = Some pt -> names_along t parent = done ->
  grow tsep true t parent done rest na = (t', Ret p) ->
  grow tsep false t parent done rest na = (t', Ret p).
Proof.
  induction rest as [|nm rest IH]; intros t parent pt done t' p Hn' Hp Hd H; cbn [grow] in *.
  - exact H.
  - subst done.
    match type of H with context [grow_step ?a1 ?a2 ?a3 ?a4 ?a5 ?a6 ?a7 ?a8] =>
      destruct (grow_step a1 a2 a3 a4 a5 a6 a7 a8) as [[t1 p1]|e] eqn:Hs; [|discriminate H] end.
    assert (Hn1 : NoDup (names t1)).
    { assert (Hv : exists pt1, subtree_at t1 p1 = Some pt1 /\ names_along t1 p1 = names_along t parent ++ [nm]).
      { unfold grow_step in Hs. rewrite Hp in Hs.
        destruct (find_idx nm 0 (tkids pt)) as [|i [|j r]] eqn:F; [| |discriminate].
        - destruct (is_nil nm); [discriminate|]. inversion Hs; subst. clear Hs.
          eexists. split.
          + rewrite subtree_at_app, (subtree_upd_at _ _ _ _ Hp). destruct pt as [g n a ks]. cbn.
            rewrite nth_error_app2, Nat.sub_diag by lia. reflexivity.
          + now rewrite (names_along_add_kid _ _ _ _ Hp).
        - inversion Hs; subst. clear Hs.
          assert (Hi : In i (find_idx nm 0 (tkids pt))) by (rewrite F; now left).
          apply find_idx_spec in Hi as [_ (k & Hk & Hname)]. rewrite Nat.sub_0_r in Hk.
          exists k. split; [rewrite subtree_at_app, Hp; cbn; now rewrite Hk|].
          rewrite (names_along_child _ _ _ _ _ Hp Hk). now rewrite Hname. }
      destruct Hv as (pt1 & Hp1 & Hna1).
      destruct (grow_true_names _ _ _ _ _ _ _ _ _ Hp1 Hna1 H) as [ex P].
      eapply Permutation_NoDup_tail; eauto. }
    destruct (grow_step_true_false _ _ _ _ _ _ _ _ _ Hn1 Hp Hs) as (Hf & _ & (pt1 & Hp1) & Hna1).
    match goal with |- context [grow_step ?a1 false ?a3 ?a4 ?a5 ?a6 ?a7 ?a8] =>
      replace (grow_step a1 false a3 a4 a5 a6 a7 a8) with (Ret (t1, p1)) by (symmetry; exact Hf) end.
    eapply IH; eauto.
Qed.

Theorem add_path_true_false t tsep path sep na t' p :
  NoDup (names t') ->
  add_path_to_tree t tsep path sep true na = (t', Ret p) ->
  add_path_to_tree t tsep path sep false na = (t', Ret p).
Proof.
  intros Hn. unfold add_path_to_tree. destruct (is_nil path); [discriminate|].
  destruct (branch_of path sep) as [|b0 rest]; [discriminate|].
  destruct (str_eqb b0 (tname t)) eqn:E; cbn [negb]; [|discriminate].
  apply str_eqb_eq in E. subst b0.
  destruct (grow tsep true t [] [tname t] rest na) as [t1 [p1|e]] eqn:Hg; [|discriminate].
  intros H. inversion H; subst. clear H. rewrite names_set_attrs in Hn.
  now rewrite (grow_true_false tsep na rest t [] t [tname t] t1 p Hn eq_refl eq_refl Hg).
Qed.


Lemma add_path_true_names t tsep path sep na t' p :
  add_path_to_tree t tsep path sep true na = (t', Ret p) ->
  exists extra, Permutation (names t') (extra ++ names t).
Proof.
  unfold add_path_to_tree. destruct (is_nil path); [discriminate|].
  destruct (branch_of path sep) as [|b0 rest]; [discriminate|].
  destruct (str_eqb b0 (tname t)) eqn:E; cbn [negb]; [|discriminate]. apply str_eqb_eq in E. subst b0.
  destruct (grow tsep true t [] [tname t] rest na) as [t1 [p1|e]] eqn:Hg; [|discriminate].
  intros H. inversion H; subst. rewrite names_set_attrs.
  eapply (grow_true_names tsep na rest t [] t [tname t]); eauto.
Qed.

Lemma add_rows_true_names tsep sep : forall rows t acc t' ps,
  add_rows t tsep sep true rows acc = (t', Ret ps) ->
  exists extra, Permutation (names t') (extra ++ names t).
Proof.
  induction rows as [|[path na] rows IH]; intros t acc t' ps H; cbn [add_rows] in H.
  - inversion H; subst. exists []. reflexivity.
  - destruct (add_path_to_tree t tsep path sep true na) as [t1 [p|e]] eqn:Ha; [|discriminate].
    destruct (add_path_true_names _ _ _ _ _ _ _ Ha) as [e1 P1]. destruct (IH _ _ _ _ H) as [e2 P2].
    exists (e2 ++ e1). rewrite P2, P1. now rewrite app_assoc.
Qed.

Lemma add_rows_true_false tsep sep : forall rows t acc t' ps,
  NoDup (names t') ->
  add_rows t tsep sep true rows acc = (t', Ret ps) ->
  add_rows t tsep sep false rows acc = (t', Ret ps).
Proof.
  induction rows as [|[path na] rows IH]; intros t acc t' ps Hn H; cbn [add_rows] in *; [exact H|].
  destruct (add_path_to_tree t tsep path sep true na) as [t1 [p|e]] eqn:Ha; [|discriminate].
  destruct (add_rows_true_names _ _ _ _ _ _ _ H) as [ex P].
  rewrite (add_path_true_false _ _ _ _ _ _ _ (Permutation_NoDup_tail _ _ _ P Hn) Ha).
  now apply IH.
Qed.

Lemma add_path_true_clean sp t tsep path sep na t' p :
  cleans sp t -> Forall (sfree sp) (branch_of path sep) ->
  add_path_to_tree t tsep path sep true na = (t', Ret p) -> cleans sp t'.
Proof.
  intros Hc Hb H. destruct (add_path_inv _ _ _ _ _ _ _ H) as (rest & Hbr & _ & ->).
  intros x Hx. rewrite names_set_attrs in Hx. apply ins_names_incl in Hx as [Hx|Hx]; [now apply Hc|].
  rewrite Forall_forall in Hb. apply Hb. rewrite Hbr. now right.
Qed.

Lemma add_rows_false_true tsep sep : tsep <> [] -> forall rows t acc t' ps,
  NoDup (names t) -> cleans tsep t ->
  (forall r, In r rows -> Forall (sfree tsep) (branch_of (fst r) sep)) ->
  add_rows t tsep sep false rows acc = (t', Ret ps) ->
  add_rows t tsep sep true rows acc = (t', Ret ps).
Proof.
  intros Hts. induction rows as [|[path na] rows IH]; intros t acc t' ps Hn Hc Hr H; cbn [add_rows] in *; [exact H|].
  destruct (add_path_to_tree t tsep path sep false na) as [t1 [p|e]] eqn:Ha; [|discriminate].
  assert (Hb : Forall (sfree tsep) (branch_of path sep)) by (apply (Hr (path, na)); now left).
  pose proof (add_path_false_true_multi tsep t path sep na t1 p Hts Hn Hc Hb Ha) as Ht. rewrite Ht.
  apply IH; auto.
  - eapply add_path_false_names; eauto.
  - eapply add_path_true_clean; eauto.
  - intros r Hin. apply Hr. now right.
Qed.

(* C05_no_dup_accept_iff: with duplicate names disallowed a loop of calls is accepted exactly when
   the permissive loop is accepted and leaves all names distinct; the results coincide.
   Guard for the left-to-right direction only: no character of the tree's separator (any positive
   length) occurs in a node name or in a path component. *)
Theorem no_dup_accept_iff_multi tsep t sep rows t' ps :
  tsep <> [] -> NoDup (names t) -> cleans tsep t ->
  (forall r, In r rows -> Forall (sfree tsep) (branch_of (fst r) sep)) ->
  (add_rows t tsep sep false rows [] = (t', Ret ps)
   <-> add_rows t tsep sep true rows [] = (t', Ret ps) /\ NoDup (names t')).
Proof.
  intros Hts Hn Hc Hr. split.
  - intros H. split; [eapply add_rows_false_true; eauto|eapply add_rows_false_names; eauto].
  - intros [H Hn']. now apply add_rows_true_false.
Qed.

Theorem no_dup_accept_iff c t sep rows t' ps :
  NoDup (names t) -> clean c t ->
  (forall r, In r rows -> forall x, In x (branch_of (fst r) sep) -> ~ In c x) ->
  (add_rows t [c] sep false rows [] = (t', Ret ps)
   <-> add_rows t [c] sep true rows [] = (t', Ret ps) /\ NoDup (names t')).
Proof.
  intros Hn Hc Hr. apply no_dup_accept_iff_multi; [discriminate|exact Hn|now apply clean_cleans|].
  intros r Hin. apply Forall_forall. intros x Hx. apply sfree_one. now apply (Hr r Hin).
Qed.

(* ======================================================================================== *)
(* 31. one verdict lemma for a loop of calls, either setting of duplicate_name_allowed          *)

Lemma names_along_last : forall q t s, subtree_at t q = Some s -> last (names_along t q) [] = tname s.
Proof.
  induction q as [|i q IH]; intros t s H.
  - cbn in H. inversion H; subst. reflexivity.
  - cbn [subtree_at names_along] in *. destruct (nth_error (tkids t) i) as [k|]; [|discriminate].
    destruct (names_along_hd k q) as [l E]. rewrite E. rewrite <- E. cbn [last].
    rewrite E. rewrite <- E. now apply IH.
Qed.

Lemma names_last_paths t : names t = map (fun p => last p []) (paths t).
Proof.
  unfold names. apply positions_map_eq. intros q s Hq. symmetry. now apply names_along_last.
Qed.

Lemma dedup_NoDup_out : forall X seen, NoDup (dedup seen X).
Proof.
  induction X as [|x X IH]; intros seen; cbn [dedup]; [constructor|].
  destruct (mem_path x seen) eqn:M; [apply IH|]. constructor; [|apply IH].
  intros Hin. apply In_dedup in Hin as [_ Hn]. apply Hn. now left.
Qed.

(* the names of the permissive result are distinct iff the specification's test on the closure says so *)
Lemma names_distinct_link sp tsep b rows t' ps :
  (forall r, In r rows -> PG sp (fst r)) ->
  sib_ok b -> nonempty_names b ->
  add_rows b tsep sp true rows [] = (t', Ret ps) ->
  let all := dedup [] (paths b ++ closure (map fst (sprows sp rows))) in
  NoDup (names t') <-> nodup_str (map (fun p => last p []) all) = true.
Proof.
  intros Hpg Hw Hne H all.
  destruct (add_rows_accepted_ok sp tsep _ _ _ _ _ Hpg Hne H) as (_ & _ & Hrows).
  assert (Hbr : map fst (sprows sp rows) = branches sp rows).
  { unfold sprows, branches. rewrite map_map. apply map_ext_in. intros r Hr. cbn [fst]. now apply Hrows. }
  assert (P : Permutation (paths t') all).
  { apply NoDup_Permutation.
    - apply sib_ok_NoDup_paths. eapply add_rows_sib_ok; eauto.
    - apply dedup_NoDup_out.
    - intros x. unfold all. rewrite In_dedup_nil, in_app_iff, Hbr. eapply add_rows_paths; eauto. }
  rewrite names_last_paths. split.
  - intros Hn. apply nodup_str_true. eapply Permutation_NoDup; [apply Permutation_map; exact P|exact Hn].
  - intros Hn. apply nodup_str_NoDup in Hn.
    eapply Permutation_NoDup; [apply Permutation_map; apply Permutation_sym; exact P|exact Hn].
Qed.

Lemma contains_single_false c s : contains s [c] = false -> ~ In c s.
Proof.
  induction s as [|x s IH]; intros H; [intros []|]. cbn [contains] in H. rewrite startswith_single in H.
  apply orb_false_iff in H as [H1 H2]. intros [->|Hin]; [now rewrite N.eqb_refl in H1|now apply IH].
Qed.

Lemma tname_in_names_along : forall q t s, subtree_at t q = Some s -> In (tname s) (names_along t q).
Proof.
  intros q t s H. rewrite <- (names_along_last q t s H).
  destruct (names_along_hd t q) as [l E]. rewrite E. clear. revert l.
  generalize (tname t). intros x l. revert x. induction l as [|y l IH]; intros x; [now left|].
  cbn [last]. right. apply IH.
Qed.

(* the guard for duplicate_name_allowed = False: distinct names to start with, and no character of
   the separator the tree works with (wsep, any positive length) in any name or path component *)
Definition nodup_guard (sp wsep : str) (b : tree) (rows : list row) : Prop :=
  NoDup (names b) /\
  (forall p, In p (paths b ++ map fst (sprows sp rows)) -> forall x, In x p -> sfree wsep x).

Lemma nodup_guard_clean sp wsep b rows :
  (forall r, In r rows -> PG sp (fst r)) ->
  nodup_guard sp wsep b rows ->
  cleans wsep b /\ (forall r, In r rows -> Forall (sfree wsep) (branch_of (fst r) sp)).
Proof.
  intros Hpg [_ Hg]. split.
  - intros x Hx. unfold names in Hx. apply in_map_iff in Hx as (s & <- & Hs).
    destruct (in_pre_position b s Hs) as [q Hq].
    apply (Hg (names_along b q)); [apply in_or_app; left; apply (valid_in_paths q b s [] Hq)|].
    now apply tname_in_names_along.
  - intros r Hr. apply Forall_forall. intros x Hx. destruct (Hpg r Hr) as [(_ & _ & E2)|(_ & E1 & _)].
    + rewrite E2 in Hx. destruct Hx as [<-|[]]. intros ch _ [].
    + rewrite <- E1 in Hx.
      apply (Hg (spec_parse (fst r) sp)); [|exact Hx]. apply in_or_app. right.
      unfold sprows. rewrite map_map. apply in_map_iff. exists r. auto.
Qed.

Definition acc_spec (dup : bool) (sp : str) (b : tree) (rows : list row) : bool :=
  forallb (path_ok_b (tname b)) (map fst (sprows sp rows))
  && (dup || nodup_str (map (fun p => last p [])
                            (dedup [] (paths b ++ closure (map fst (sprows sp rows)))))).

Lemma loop_verdict (dup : bool) sp tsep b rows :
  (forall r, In r rows -> PG sp (fst r)) ->
  sib_ok b -> nonempty_names b ->
  (dup = true \/ (tsep <> [] /\ nodup_guard sp tsep b rows)) ->
  match add_rows b tsep sp dup rows [] with
  | (t', Ret ps) =>
      acc_spec dup sp b rows = true /\ add_rows b tsep sp true rows [] = (t', Ret ps)
      /\ (dup = true \/ NoDup (names t'))
  | (t1, Raise e) =>
      acc_spec dup sp b rows = false /\
      (match rows with
       | (s0, _) :: _ => match spec_parse s0 sp with [] => true | r :: _ => negb (str_eqb r (tname b)) end = true
       | [] => False
       end -> t1 = b)
  end.
Proof.
  intros Hpg Hw Hne Hg.
  assert (Hok_of_true : forall t' ps, add_rows b tsep sp true rows [] = (t', Ret ps) ->
            forallb (path_ok_b (tname b)) (map fst (sprows sp rows)) = true).
  { intros t' ps H. destruct (add_rows_accepted_ok sp tsep _ _ _ _ _ Hpg Hne H) as (_ & _ & Hrows).
    apply forallb_forall. intros p Hp. unfold sprows in Hp. rewrite map_map in Hp.
    apply in_map_iff in Hp as (r & <- & Hr). now apply Hrows. }
  assert (Htrue_of_ok : forallb (path_ok_b (tname b)) (map fst (sprows sp rows)) = true ->
            exists t' ps, add_rows b tsep sp true rows [] = (t', Ret ps)).
  { intros Hok. apply add_rows_ok_accepted; [exact Hpg|exact Hw|]. intros r Hr. rewrite forallb_forall in Hok.
    apply Hok. unfold sprows. rewrite map_map. apply in_map_iff. exists r. auto. }
  destruct (add_rows b tsep sp dup rows []) as [t1 [ps|e]] eqn:H.
  - destruct dup.
    + split; [|split; [exact H|now left]]. unfold acc_spec. rewrite (Hok_of_true _ _ H). reflexivity.
    + destruct Hg as [Hg|(Hts & Hg)]; [discriminate|].
      destruct (nodup_guard_clean _ _ _ _ Hpg Hg) as [Hc Hr]. destruct Hg as [Hn _].
      apply (no_dup_accept_iff_multi tsep b sp rows t1 ps Hts Hn Hc Hr) in H as [Ht Hn1].
      split; [|split; [exact Ht|now right]]. unfold acc_spec. rewrite (Hok_of_true _ _ Ht). cbn [orb andb].
      now apply (names_distinct_link sp tsep b rows t1 ps Hpg Hw Hne Ht).
  - split.
    + destruct (acc_spec dup sp b rows) eqn:Ea; [|reflexivity]. exfalso. unfold acc_spec in Ea.
      apply andb_true_iff in Ea as [Hok Hd]. destruct (Htrue_of_ok Hok) as (t' & ps & Ht).
      destruct dup; [rewrite Ht in H; discriminate|]. cbn [orb] in Hd.
      apply (names_distinct_link sp tsep b rows t' ps Hpg Hw Hne Ht) in Hd.
      rewrite (add_rows_true_false _ _ _ _ _ _ _ Hd Ht) in H. discriminate.
    + destruct rows as [|[s0 na0] rows']; [intros []|]. intros Hwr.
      destruct (wrong_root_unchanged sp b tsep s0 dup na0 (Hpg (s0, na0) (or_introl eq_refl)) Hne Hwr) as [e0 He0].
      cbn [add_rows] in H. rewrite He0 in H. now inversion H.
Qed.

(* ======================================================================================== *)
(* 32. C05_model_satisfies_prop: prop_C05 holds of the model's own output                      *)

Lemma guards_nodup k i sp c2 mrows :
  guards k i = true -> i_dup i = false -> working_sep k i = [c2] -> prows k i = sprows sp mrows ->
  nodup_guard sp [c2] (base k i) mrows.
Proof.
  unfold guards. intros G Hd Hws Hpr. rewrite Hd, Hws, Hpr in G. cbn [orb] in G.
  rewrite !andb_true_iff in G. destruct G as (_ & Hn & Hf). split.
  - now apply nodup_str_NoDup.
  - intros p Hp x Hx. rewrite forallb_forall in Hf. specialize (Hf p Hp). rewrite forallb_forall in Hf.
    specialize (Hf x Hx). apply negb_true_iff in Hf. apply sfree_one. now apply contains_single_false.
Qed.

Lemma acc_spec_add k i sp :
  is_new k = false -> prows k i = sprows sp (i_rows i) ->
  forallb (path_ok k i) (map fst (prows k i)) && (i_dup i || names_distinct_after k i)
  = acc_spec (i_dup i) sp (i_tree i) (i_rows i).
Proof.
  intros Hnew Hpr. unfold acc_spec, names_distinct_after, all_paths, path_ok, wrong_root, base, root_name.
  now rewrite Hnew, Hpr.
Qed.

Lemma acc_spec_new k i sp r a0 mrows :
  is_new k = true -> root_name k i = r -> prows k i = sprows sp mrows ->
  forallb (path_ok k i) (map fst (prows k i)) && (i_dup i || names_distinct_after k i)
  = acc_spec (i_dup i) sp (T None r a0 []) mrows.
Proof.
  intros Hnew Hr Hpr. unfold acc_spec, names_distinct_after, all_paths, path_ok, wrong_root, base.
  now rewrite Hnew, Hr, Hpr.
Qed.

Lemma nonempty_root i k :
  nonempty_names (i_tree i) -> is_nil (if is_new k then [] else tname (i_tree i)) = is_new k.
Proof.
  intros Hne. destruct (is_new k); [reflexivity|]. destruct (tname (i_tree i)) eqn:E; [|reflexivity].
  exfalso. apply (Hne []); [|reflexivity]. rewrite <- E. apply tname_in_names.
Qed.

Theorem model_satisfies_add_path_multi i :
  i_sep i <> [] -> (forall r, In r (i_rows i) -> PG (i_sep i) (fst r)) -> attrs_wf (i_tree i) ->
  (guards KAddPath i = true -> i_dup i = false ->
   i_tsep i <> [] /\ nodup_guard (i_sep i) (i_tsep i) (i_tree i) (i_rows i)) ->
  prop_C05 KAddPath i (run KAddPath i) = true.
Proof.
  intros Hsne Hpg Hwf Hts. set (sp := i_sep i) in *. unfold prop_C05. cbn [is_byname]. unfold prop_paths.
  destruct (guards KAddPath i) eqn:G; [cbn [negb]|reflexivity].
  destruct (guards_facts _ _ G) as (Hk & Hnd & Hne). cbn [base is_new] in Hnd, Hne.
  pose proof (NoDup_paths_sib_ok _ [] Hnd) as Hw.
  pose proof (add_kind_prows KAddPath i (fun a => eq_refl)) as Hpr. fold sp in Hpr.
  assert (Hg : i_dup i = true \/ (i_tsep i <> [] /\ nodup_guard sp (i_tsep i) (i_tree i) (i_rows i))).
  { destruct (i_dup i) eqn:Hd; [now left|right]. now apply Hts. }
  pose proof (loop_verdict (i_dup i) sp (i_tsep i) (i_tree i) (i_rows i) Hpg Hw Hne Hg) as V.
  pose proof (acc_spec_add KAddPath i sp eq_refl Hpr) as Hacc.
  assert (Hroot : is_nil (root_name KAddPath i) = false).
  { unfold root_name. cbn [is_new]. destruct (tname (i_tree i)) eqn:E; [|reflexivity].
    exfalso. apply (Hne []); [|reflexivity]. rewrite <- E. apply tname_in_names. }
  unfold run. fold sp. destruct (is_nil sp) eqn:Esn; [unfold sp in *; destruct (i_sep i); [congruence|discriminate]|]. change (forallb (row_keys_ok []) (i_rows i)) with (keys_ok KAddPath i).
  rewrite Hk.
  destruct (add_rows (i_tree i) (i_tsep i) sp (i_dup i) (i_rows i) []) as [t1 [ps|e]] eqn:H; cbn [out_add o_res o_tree o_rets].
  - destruct V as (Va & Ht & Hdist).
    destruct (add_kind_structure KAddPath i sp _ _ _ Hpg eq_refl Hpr Hw Hwf Hne Hnd Ht) as (C1 & C2 & C3 & C4 & C5).
    rewrite C1, C2, C3. unfold rets_ok. cbn [o_rets]. rewrite C5. cbn [andb].
    assert (Hlast : i_dup i || nodup_str (names_of t1) = true).
    { destruct Hdist as [->|Hn]; [reflexivity|]. change (names_of t1) with (names t1).
      rewrite (nodup_str_true _ Hn). apply orb_true_r. }
    rewrite Hlast, andb_true_r. rewrite Va in Hacc. unfold expected_accept, no_call.
    destruct (i_rows i) as [|r0 rows] eqn:Er; [reflexivity|].
    cbn [is_nil negb orb andb is_frame]. rewrite Hroot. cbn [negb andb].
    rewrite andb_true_r. exact Hacc.
  - destruct V as (Vr & Vsame). rewrite Vr in Hacc.
    assert (Hrej : expected_accept KAddPath i = false).
    { unfold expected_accept, no_call. destruct (i_rows i) as [|r0 rows] eqn:Er.
      - cbn in H. discriminate.
      - cbn [is_nil negb orb andb is_frame]. rewrite Hroot. cbn [negb andb]. rewrite andb_true_r. exact Hacc. }
    rewrite Hrej. cbn [negb andb is_new].
    destruct (refused_at_once KAddPath i) eqn:Er; [|reflexivity].
    unfold refused_at_once in Er. cbn [is_frame andb orb] in Er. rewrite orb_false_r in Er.
    destruct (i_rows i) as [|[s0 na0] rows] eqn:Erows.
    + cbn in H. discriminate.
    + cbn [is_nil orb] in Er. rewrite Hpr in Er. cbn [sprows map fst] in Er.
      unfold wrong_root, root_name in Er. cbn [is_new] in Er.
      rewrite (Vsame Er). now apply same_tree_refl.
Qed.

Theorem model_satisfies_add_path i c :
  i_sep i = [c] -> attrs_wf (i_tree i) -> (i_dup i = true \/ exists c2, i_tsep i = [c2]) ->
  prop_C05 KAddPath i (run KAddPath i) = true.
Proof.
  intros Hsep Hwf Hts. apply model_satisfies_add_path_multi; [rewrite Hsep; discriminate| |exact Hwf|].
  - intros r _. rewrite Hsep. apply PG_single.
  - intros G Hd. destruct Hts as [Ht|[c2 Ht]]; [congruence|]. rewrite Ht. split; [discriminate|].
    apply (guards_nodup KAddPath i (i_sep i) c2 (i_rows i) G Hd Ht). apply add_kind_prows. reflexivity.
Qed.

Theorem model_satisfies_add_dict_multi i :
  i_sep i <> [] -> (forall r, In r (i_rows i) -> PG (i_sep i) (fst r)) -> attrs_wf (i_tree i) ->
  (guards KAddDict i = true -> i_dup i = false ->
   i_tsep i <> [] /\ nodup_guard (i_sep i) (i_tsep i) (i_tree i) (i_rows i)) ->
  prop_C05 KAddDict i (run KAddDict i) = true.
Proof.
  intros Hsne Hpg Hwf Hts. set (sp := i_sep i) in *. unfold prop_C05. cbn [is_byname]. unfold prop_paths.
  destruct (guards KAddDict i) eqn:G; [cbn [negb]|reflexivity].
  destruct (guards_facts _ _ G) as (Hk & Hnd & Hne). cbn [base is_new] in Hnd, Hne.
  pose proof (NoDup_paths_sib_ok _ [] Hnd) as Hw.
  pose proof (add_kind_prows KAddDict i (fun a => eq_refl)) as Hpr. fold sp in Hpr.
  assert (Hg : i_dup i = true \/ (i_tsep i <> [] /\ nodup_guard sp (i_tsep i) (i_tree i) (i_rows i))).
  { destruct (i_dup i) eqn:Hd; [now left|right]. now apply Hts. }
  pose proof (loop_verdict (i_dup i) sp (i_tsep i) (i_tree i) (i_rows i) Hpg Hw Hne Hg) as V.
  pose proof (acc_spec_add KAddDict i sp eq_refl Hpr) as Hacc.
  assert (Hroot : is_nil (root_name KAddDict i) = false).
  { unfold root_name. cbn [is_new]. destruct (tname (i_tree i)) eqn:E; [|reflexivity].
    exfalso. apply (Hne []); [|reflexivity]. rewrite <- E. apply tname_in_names. }
  unfold run. fold sp. destruct (is_nil sp) eqn:Esn; [unfold sp in *; destruct (i_sep i); [congruence|discriminate]|]. change (forallb (row_keys_ok []) (i_rows i)) with (keys_ok KAddDict i).
  rewrite Hk. unfold add_dict_to_tree_by_path.
  destruct (i_rows i) as [|r0 rows] eqn:Er.
  - cbn [out_add o_res o_tree]. unfold expected_accept, no_call, refused_at_once. rewrite Er. cbn.
    now apply same_tree_refl.
  - rewrite <- Er in *.
    destruct (add_rows (i_tree i) (i_tsep i) sp (i_dup i) (i_rows i) []) as [t1 [ps|e]] eqn:H; cbn [out_add o_res o_tree o_rets].
    + destruct V as (Va & Ht & Hdist).
      destruct (add_kind_structure KAddDict i sp _ _ _ Hpg eq_refl Hpr Hw Hwf Hne Hnd Ht) as (C1 & C2 & C3 & C4 & C5).
      rewrite C1, C2, C3. unfold rets_ok. cbn [o_rets list_eqb Nat.eqb andb].
      assert (Hlast : i_dup i || nodup_str (names_of t1) = true).
      { destruct Hdist as [->|Hn]; [reflexivity|]. change (names_of t1) with (names t1).
        rewrite (nodup_str_true _ Hn). apply orb_true_r. }
      rewrite Hlast, andb_true_r. rewrite Va in Hacc. unfold expected_accept, no_call. rewrite Er at 1.
      cbn [is_nil negb orb andb is_frame]. rewrite Hroot. cbn [negb andb]. rewrite andb_true_r. exact Hacc.
    + destruct V as (Vr & Vsame). rewrite Vr in Hacc.
      assert (Hrej : expected_accept KAddDict i = false).
      { unfold expected_accept, no_call. rewrite Er at 1.
        cbn [is_nil negb orb andb is_frame]. rewrite Hroot. cbn [negb andb]. rewrite andb_true_r. exact Hacc. }
      rewrite Hrej. cbn [negb andb is_new].
      destruct (refused_at_once KAddDict i) eqn:Ero; [|reflexivity].
      unfold refused_at_once in Ero. cbn [is_frame andb orb] in Ero. rewrite orb_false_r in Ero.
      rewrite Er in Ero at 1. cbn [is_nil orb] in Ero. rewrite Hpr, Er in Ero. destruct r0 as [s0 na0].
      cbn [sprows map fst] in Ero. unfold wrong_root, root_name in Ero. cbn [is_new] in Ero.
      try rewrite Er in Vsame. rewrite (Vsame Ero). now apply same_tree_refl.
Qed.

Theorem model_satisfies_add_dict i c :
  i_sep i = [c] -> attrs_wf (i_tree i) -> (i_dup i = true \/ exists c2, i_tsep i = [c2]) ->
  prop_C05 KAddDict i (run KAddDict i) = true.
Proof.
  intros Hsep Hwf Hts. apply model_satisfies_add_dict_multi; [rewrite Hsep; discriminate| |exact Hwf|].
  - intros r _. rewrite Hsep. apply PG_single.
  - intros G Hd. destruct Hts as [Ht|[c2 Ht]]; [congruence|]. rewrite Ht. split; [discriminate|].
    apply (guards_nodup KAddDict i (i_sep i) c2 (i_rows i) G Hd Ht). apply add_kind_prows. reflexivity.
Qed.

Lemma add_rows_dedup_false tsep sep : tsep <> [] -> forall L seen t acc1 acc2,
  NoDup (names t) -> cleans tsep t ->
  (forall s, In s L -> Forall (sfree tsep) (branch_of s sep)) ->
  (forall s, In s seen -> s <> [] /\ exists q sx, subtree_at t q = Some sx /\ names_along t q = branch_of s sep) ->
  collapse (add_rows t tsep sep false (map (fun p => (p, [])) (dedup_str seen L)) acc1)
  = collapse (add_rows t tsep sep false (map (fun p => (p, [])) L) acc2).
Proof.
  intros Hts. induction L as [|x L IH]; intros seen t acc1 acc2 Hn Hc Hcl Hseen; [reflexivity|].
  pose proof (NoDup_names_sib_ok t Hn) as Hw.
  assert (Hcl' : forall s, In s L -> Forall (sfree tsep) (branch_of s sep)) by (intros s Hs; apply Hcl; now right).
  cbn [dedup_str map add_rows]. destruct (existsb (str_eqb x) seen) eqn:E.
  - apply In_existsb_str in E. destruct (Hseen x E) as (Hx & q & sx & Hq & Hnq).
    pose proof (add_path_existing t tsep x sep q sx Hw Hx Hq Hnq) as Ht.
    rewrite (add_path_true_false _ _ _ _ _ _ _ Hn Ht). now apply IH.
  - cbn [map add_rows]. destruct (add_path_to_tree t tsep x sep false []) as [t1 [p|e]] eqn:Ha; [|reflexivity].
    assert (Hbx : Forall (sfree tsep) (branch_of x sep)) by (apply Hcl; now left).
    pose proof (add_path_false_true_multi tsep t x sep [] t1 p Hts Hn Hc Hbx Ha) as Ht.
    destruct (add_path_positions _ _ _ _ _ _ _ Ht) as (Hkeep & Hnp & sp & Hsp).
    apply IH; auto.
    + eapply add_path_false_names; eauto.
    + eapply add_path_true_clean; eauto.
    + intros s [<-|Hin].
      * split; [|eauto]. intros ->. unfold add_path_to_tree in Ha. cbn in Ha. discriminate.
      * destruct (Hseen s Hin) as (Hne & q & sx & Hq & Hnq). split; [exact Hne|].
        destruct (Hkeep q sx Hq) as (s' & Hs' & Hn' & _). exists q, s'. split; [exact Hs'|congruence].
Qed.

Lemma list_to_tree_full_false p0 ps sep :
  let r := hd [] (split (lstrip p0 sep) sep) in
  sep <> [] -> sfree sep r ->
  (forall s, In s (p0 :: ps) -> Forall (sfree sep) (branch_of s sep)) ->
  list_to_tree (p0 :: ps) sep false
  = if is_nil r then Raise TreeError
    else collapse (add_rows (T None r [] []) sep sep false (map (fun p => (p, [])) (p0 :: ps)) []).
Proof.
  intros r Hs Hr Hcl. unfold list_to_tree. fold r. destruct (is_nil r); [reflexivity|].
  rewrite <- (add_rows_dedup_false sep sep Hs (p0 :: ps) [] (T None r [] []) [] []).
  - unfold collapse. destruct (add_rows _ _ _ _ _ _) as [t [x|e]]; reflexivity.
  - rewrite names_unfold. cbn. repeat constructor. intros [].
  - intros x Hx. rewrite names_unfold in Hx. destruct Hx as [<-|[]]. exact Hr.
  - exact Hcl.
  - intros s [].
Qed.

Lemma nodup_guard_ext sp w b r1 r2 :
  map fst (sprows sp r1) = map fst (sprows sp r2) -> nodup_guard sp w b r1 -> nodup_guard sp w b r2.
Proof. intros E [H1 H2]. split; [exact H1|]. rewrite <- E. exact H2. Qed.

Theorem model_satisfies_list_multi i :
  i_sep i <> [] -> (forall r, In r (i_rows i) -> PG (i_sep i) (fst r)) ->
  (guards KList i = true -> i_dup i = false ->
   nodup_guard (i_sep i) (i_sep i) (base KList i) (i_rows i)) ->
  prop_C05 KList i (run KList i) = true.
Proof.
  intros Hsne Hpg Hts. set (sp := i_sep i) in *. unfold prop_C05. cbn [is_byname]. unfold prop_paths.
  destruct (guards KList i) eqn:G; [cbn [negb]|reflexivity].
  unfold run. fold sp. destruct (is_nil sp) eqn:Esn; [unfold sp in *; destruct (i_sep i); [congruence|discriminate]|].
  pose proof (root_name_new KList i eq_refl) as Hrn.
  destruct (i_rows i) as [|[p0 a0] rows] eqn:Er.
  - cbn [map list_to_tree out_new o_res o_tree]. unfold expected_accept, no_call. rewrite Er. reflexivity.
  - cbn [map fst]. fold sp in Hrn. cbn [fst] in Hrn.
    destruct (root_inference sp p0 Hsne (Hpg (p0, a0) (or_introl eq_refl))) as [Hri _].
    set (r := root_name KList i) in *.
    set (mrows := map (fun p => (p, @nil (str * val))) (p0 :: map fst rows)).
    assert (Hfst : map fst (sprows sp ((p0, a0) :: rows)) = map fst (sprows sp mrows)).
    { unfold sprows, mrows. rewrite !map_map. cbn [map fst]. f_equal. rewrite !map_map. reflexivity. }
    assert (Hpgm : forall r0, In r0 mrows -> PG sp (fst r0)).
    { intros r0 Hr0. unfold mrows in Hr0. apply in_map_iff in Hr0 as (x & <- & Hx). cbn [fst].
      destruct Hx as [<-|Hx]; [apply (Hpg (p0, a0)); now left|].
      apply in_map_iff in Hx as (r1 & <- & Hr1). apply (Hpg r1). now right. }
    assert (Hpr : prows KList i = sprows sp mrows).
    { unfold prows, sprows, mrows. rewrite Er. fold sp. cbn [map fst snd spec_filter]. f_equal.
      rewrite !map_map. reflexivity. }
    destruct (is_nil r) eqn:En.
    + assert (Hm : list_to_tree (p0 :: map fst rows) sp (i_dup i) = Raise TreeError).
      { unfold list_to_tree. rewrite Hri, <- Hrn. now rewrite En. }
      rewrite Hm. cbn [out_new o_res o_tree]. unfold expected_accept, no_call. rewrite Er. fold r. rewrite En.
      cbn. reflexivity.
    + assert (Hr : r <> []) by (destruct r; [discriminate|discriminate]).
      set (b0 := T None r [] []).
      assert (Hw : sib_ok b0) by (constructor; constructor).
      assert (Hne : nonempty_names b0).
      { intros n Hn. unfold b0 in Hn. rewrite names_unfold in Hn. destruct Hn as [<-|[]]. exact Hr. }
      assert (Hbase : base KList i = b0) by reflexivity.
      assert (Hg : i_dup i = true \/ (sp <> [] /\ nodup_guard sp sp b0 mrows)).
      { destruct (i_dup i) eqn:Hd; [now left|right]. split; [exact Hsne|]. rewrite <- Hbase.
        eapply nodup_guard_ext; [exact Hfst|]. now apply Hts. }
      assert (Hm : list_to_tree (p0 :: map fst rows) sp (i_dup i)
                   = collapse (add_rows b0 sp sp (i_dup i) mrows [])).
      { destruct (i_dup i) eqn:Hd.
        - rewrite list_to_tree_full, Hri, <- Hrn. fold r. now rewrite En.
        - destruct Hg as [Hg|(_ & Hg)]; [discriminate|].
          destruct (nodup_guard_clean _ _ _ _ Hpgm Hg) as [Hc Hcl].
          rewrite (list_to_tree_full_false p0 (map fst rows) sp); [|exact Hsne| |].
          + rewrite Hri, <- Hrn. fold r. now rewrite En.
          + rewrite Hri, <- Hrn. apply Hc. unfold b0. rewrite names_unfold. now left.
          + intros s Hs. apply (Hcl (s, [])). unfold mrows. apply in_map_iff. exists s. auto. }
      rewrite Hm.
      pose proof (loop_verdict (i_dup i) sp sp b0 mrows Hpgm Hw Hne Hg) as V.
      pose proof (acc_spec_new KList i sp r [] mrows eq_refl eq_refl Hpr) as Hacc. fold b0 in Hacc.
      destruct (add_rows b0 sp sp (i_dup i) mrows []) as [t1 [ps|e]] eqn:H; cbn [collapse out_new o_res o_tree o_rets].
      * destruct V as (Va & Ht & Hdist).
        destruct (new_kind_structure KList i sp r [] sp mrows t1 ps Hpgm eq_refl eq_refl Hpr Hr) as (C1 & C2 & C3 & C4);
          [constructor|intros key Hk; cbn in Hk; congruence|exact Ht|].
        rewrite C1, C2, C3. unfold rets_ok. cbn [o_rets list_eqb Nat.eqb andb].
        assert (Hlast : i_dup i || nodup_str (names_of t1) = true).
        { destruct Hdist as [->|Hn]; [reflexivity|]. change (names_of t1) with (names t1).
          rewrite (nodup_str_true _ Hn). apply orb_true_r. }
        rewrite Hlast, andb_true_r. rewrite Va in Hacc. unfold expected_accept, no_call. rewrite Er at 1.
        cbn [is_nil negb orb andb is_frame]. fold r. rewrite En. cbn [negb andb]. rewrite andb_true_r. exact Hacc.
      * destruct V as (Vr & _). rewrite Vr in Hacc.
        assert (Hrej : expected_accept KList i = false).
        { unfold expected_accept, no_call. rewrite Er at 1. cbn [is_nil negb orb andb is_frame]. fold r.
          rewrite En. cbn [negb andb]. rewrite andb_true_r. exact Hacc. }
        rewrite Hrej. reflexivity.
Qed.

Theorem model_satisfies_list i c :
  i_sep i = [c] -> prop_C05 KList i (run KList i) = true.
Proof.
  intros Hsep. apply model_satisfies_list_multi; [rewrite Hsep; discriminate| |].
  - intros r _. rewrite Hsep. apply PG_single.
  - intros G Hd. rewrite Hsep at 2.
    apply (nodup_guard_ext (i_sep i) [c] _ (map (fun r : row => (fst r, @nil (str * val))) (i_rows i))).
    + unfold sprows. rewrite !map_map. reflexivity.
    + apply (guards_nodup KList i (i_sep i) c _ G Hd); [cbn [working_sep]; exact Hsep|].
      unfold prows, sprows. rewrite map_map. apply map_ext. intros r. reflexivity.
Qed.

Lemma dict_to_tree_form_dup dup d sep k0 a0 rows :
  d = (k0, a0) :: rows ->
  dict_to_tree d sep dup
  = let r := hd [] (branch_of k0 sep) in
    let get := fun k => match dict_get d k with Some a => a | None => [] end in
    let ra := filter_attributes (first_nonempty [get r; get (sep ++ r); get (r ++ sep); get (sep ++ r ++ sep)])
                                [k_name] false in
    if is_nil r then Raise TreeError
    else collapse (add_rows (T None r (set_attrs [] ra) []) sep sep dup
                            (map (fun r0 : str * attrs => (fst r0, filter_attributes (snd r0) [k_name] false)) d) []).
Proof. intros ->. reflexivity. Qed.

Lemma nodup_guard_root_attrs sp w r a rows :
  nodup_guard sp w (T None r [] []) rows -> nodup_guard sp w (T None r a []) rows.
Proof. intros [H1 H2]. split; [rewrite names_unfold in *; exact H1|exact H2]. Qed.

Theorem model_satisfies_dict_multi i :
  i_sep i <> [] -> (forall r, In r (i_rows i) -> PG (i_sep i) (fst r)) ->
  (guards KDict i = true -> i_dup i = false ->
   nodup_guard (i_sep i) (i_sep i) (base KDict i) (i_rows i)) ->
  prop_C05 KDict i (run KDict i) = true.
Proof.
  intros Hsne Hpg Hts. set (sp := i_sep i) in *. unfold prop_C05. cbn [is_byname]. unfold prop_paths.
  destruct (guards KDict i) eqn:G; [cbn [negb]|reflexivity].
  destruct (guards_facts _ _ G) as (Hk & _ & _).
  unfold run. fold sp. destruct (is_nil sp) eqn:Esn; [unfold sp in *; destruct (i_sep i); [congruence|discriminate]|].
  change (forallb (row_keys_ok [k_name]) (i_rows i)) with (keys_ok KDict i). rewrite Hk.
  pose proof (root_name_new KDict i eq_refl) as Hrn.
  destruct (i_rows i) as [|[k0 a0] rows] eqn:Er.
  - cbn [dict_to_tree out_new o_res o_tree]. unfold expected_accept, no_call. rewrite Er. reflexivity.
  - rewrite <- Er. rewrite (dict_to_tree_form_dup _ _ _ _ _ _ Er). cbv zeta.
    fold sp in Hrn. cbn [fst] in Hrn. pose proof (Hpg (k0, a0) (or_introl eq_refl)) as Hpg0. cbn [fst] in Hpg0.
    destruct (root_inference sp k0 Hsne Hpg0) as [_ Hri]. rewrite Hri, <- Hrn.
    set (r := root_name KDict i) in *.
    set (get := fun k => match dict_get (i_rows i) k with Some a => a | None => [] end).
    set (mrows := map (fun r0 : str * attrs => (fst r0, filter_attributes (snd r0) [k_name] false)) (i_rows i)).
    match goal with |- context [first_nonempty ?l] => set (A := first_nonempty l) end.
    set (ra := filter_attributes A [k_name] false).
    destruct (is_nil r) eqn:En.
    + cbn [out_new o_res o_tree]. unfold expected_accept, no_call. rewrite Er. fold r. rewrite En. cbn. reflexivity.
    + assert (Hr : r <> []) by (destruct r; [discriminate|discriminate]).
      assert (Hpr : prows KDict i = sprows sp mrows).
      { unfold prows, sprows, mrows. fold sp. rewrite map_map. apply map_ext. intros r0. cbn [fst snd].
        now rewrite dict_filter_spec with (pcol := i_pcol i). }
      assert (Hfst : map fst (sprows sp (i_rows i)) = map fst (sprows sp mrows)).
      { unfold sprows, mrows. rewrite !map_map. reflexivity. }
      assert (Hpgm : forall r0, In r0 mrows -> PG sp (fst r0)).
      { intros r0 Hr0. unfold mrows in Hr0. apply in_map_iff in Hr0 as (x & <- & Hx). cbn [fst]. try rewrite Er in Hx. now apply Hpg. }
      assert (Hrg : sgood sp r).
      { split; [exact Hr|]. destruct Hpg0 as [(_ & E1 & _)|(_ & E1 & _ & Hf)].
        - exfalso. apply Hr. rewrite Hrn, E1. reflexivity.
        - rewrite Hrn, E1 in *. destruct (branch_of k0 sp) as [|h t]; [cbn in Hr; congruence|].
          cbn [hd]. now inversion Hf. }
      assert (Hbound : forall key, attr_get (set_attrs [] ra) key <> None -> bound sp mrows [r] key).
      { intros key Hkey. rewrite attr_get_set_attrs_last in Hkey.
        destruct (attr_get (rev ra) key) eqn:Eg; [|cbn in Hkey; congruence].
        assert (HA : A <> []) by (intros E; unfold ra in Eg; rewrite E in Eg; discriminate).
        pose proof (first_nonempty_In _ HA) as Hin. fold A in Hin. cbn [In] in Hin.
        assert (Hex : exists kk, branch_of kk sp = [r] /\ get kk = A).
        { pose proof (branch_of_word sp r Hsne Hrg) as Hb.
          destruct Hin as [E|[E|[E|[E|[]]]]].
          - exists r. auto.
          - exists (sp ++ r). split; [|exact E]. now rewrite branch_of_leading_multi.
          - exists (r ++ sp). split; [|exact E]. now rewrite branch_of_trailing_multi.
          - exists (sp ++ r ++ sp). split; [|exact E]. now rewrite branch_of_leading_multi, branch_of_trailing_multi. }
        destruct Hex as (kk & Hb & Hg). unfold get in Hg.
        destruct (dict_get (i_rows i) kk) as [a|] eqn:Ed; [|congruence]. subst a.
        exists (kk, ra). split; [|split; [exact Hb|cbn [snd]; congruence]].
        unfold mrows. apply in_map_iff. exists (kk, A). split; [reflexivity|now apply dict_get_In]. }
      set (b1 := T None r (set_attrs [] ra) []).
      assert (Hw : sib_ok b1) by (constructor; constructor).
      assert (Hne : nonempty_names b1).
      { intros n Hn. unfold b1 in Hn. rewrite names_unfold in Hn. destruct Hn as [<-|[]]. exact Hr. }
      assert (Hg : i_dup i = true \/ (sp <> [] /\ nodup_guard sp sp b1 mrows)).
      { destruct (i_dup i) eqn:Hd; [now left|right]. split; [exact Hsne|].
        apply nodup_guard_root_attrs. eapply nodup_guard_ext; [exact Hfst|].
        change (T None r [] []) with (base KDict i). rewrite Er. now apply Hts. }
      pose proof (loop_verdict (i_dup i) sp sp b1 mrows Hpgm Hw Hne Hg) as V.
      pose proof (acc_spec_new KDict i sp r (set_attrs [] ra) mrows eq_refl eq_refl Hpr) as Hacc. fold b1 in Hacc.
      destruct (add_rows b1 sp sp (i_dup i) mrows []) as [t1 [ps|e]] eqn:H;
        cbn [collapse out_new o_res o_tree o_rets].
      * destruct V as (Va & Ht & Hdist).
        destruct (new_kind_structure KDict i sp r (set_attrs [] ra) sp mrows t1 ps Hpgm eq_refl eq_refl Hpr Hr) as (C1 & C2 & C3 & C4);
          [apply set_attrs_keys; constructor|exact Hbound|exact Ht|].
        rewrite C1, C2, C3. unfold rets_ok. cbn [o_rets list_eqb Nat.eqb andb].
        assert (Hlast : i_dup i || nodup_str (names_of t1) = true).
        { destruct Hdist as [->|Hn]; [reflexivity|]. change (names_of t1) with (names t1).
          rewrite (nodup_str_true _ Hn). apply orb_true_r. }
        rewrite Hlast, andb_true_r. rewrite Va in Hacc. unfold expected_accept, no_call. rewrite Er at 1.
        cbn [is_nil negb orb andb is_frame]. fold r. rewrite En. cbn [negb andb]. rewrite andb_true_r. exact Hacc.
      * destruct V as (Vr & _). rewrite Vr in Hacc.
        assert (Hrej : expected_accept KDict i = false).
        { unfold expected_accept, no_call. rewrite Er at 1. cbn [is_nil negb orb andb is_frame]. fold r.
          rewrite En. cbn [negb andb]. rewrite andb_true_r. exact Hacc. }
        rewrite Hrej. reflexivity.
Qed.

Theorem model_satisfies_dict i c :
  i_sep i = [c] -> prop_C05 KDict i (run KDict i) = true.
Proof.
  intros Hsep. apply model_satisfies_dict_multi; [rewrite Hsep; discriminate| |].
  - intros r _. rewrite Hsep. apply PG_single.
  - intros G Hd. rewrite Hsep at 2.
    apply (nodup_guard_ext (i_sep i) [c] _
             (map (fun r0 : str * attrs => (fst r0, filter_attributes (snd r0) [k_name] false)) (i_rows i))).
    + unfold sprows. rewrite !map_map. reflexivity.
    + apply (guards_nodup KDict i (i_sep i) c _ G Hd); [cbn [working_sep]; exact Hsep|].
      unfold prows, sprows. rewrite map_map. apply map_ext. intros r0. cbn [fst snd].
      now rewrite dict_filter_spec with (pcol := i_pcol i).
Qed.

(* ======================================================================================== *)
(* 33. attribute exactness for the constructors; null dropping of the frame variants           *)

Lemma attr_get_filter (f : str * val -> bool) k : forall a,
  NoDup (map fst a) ->
  attr_get (filter f a) k
  = match attr_get a k with Some v => if f (k, v) then Some v else None | None => None end.
Proof.
  induction a as [|[k0 v0] a IH]; intros Hn; [reflexivity|]. cbn in Hn. inversion Hn as [|? ? Hk Hr]; subst.
  cbn [filter attr_get]. destruct (str_eqb k0 k) eqn:E.
  - apply str_eqb_eq in E. subst k0. destruct (f (k, v0)); cbn [attr_get]; [now rewrite str_eqb_refl|].
    rewrite (IH Hr). destruct (attr_get a k) eqn:Eg; [|reflexivity]. exfalso. apply Hk.
    clear - Eg. induction a as [|[k1 v1] a IHa]; [discriminate|]. cbn in Eg. destruct (str_eqb k1 k) eqn:E1.
    + apply str_eqb_eq in E1. subst. now left.
    + right. now apply IHa.
  - destruct (f (k0, v0)); cbn [attr_get]; [rewrite E|]; now apply IH.
Qed.

(* what the frame variants hand on from one row: the non-null cells, minus "name" and the path column *)
Lemma frame_attrs_get pcol a k :
  NoDup (map fst a) ->
  attr_get (frame_attrs pcol a) k
  = if str_eqb k k_name || str_eqb k pcol then None
    else match attr_get a k with Some VNone => None | o => o end.
Proof.
  intros Hn. unfold frame_attrs, filter_attributes. rewrite attr_get_filter by exact Hn.
  destruct (attr_get a k) as [v|]; [|now destruct (str_eqb k k_name || str_eqb k pcol)].
  cbn [fst snd existsb]. rewrite orb_false_r.
  destruct (str_eqb k k_name || str_eqb k pcol); destruct v; cbn; reflexivity.
Qed.

(* list_to_tree: no attributes anywhere *)
Theorem list_to_tree_attrs ps sep t' :
  list_to_tree ps sep true = Ret t' -> forall q s', subtree_at t' q = Some s' -> tattrs s' = [].
Proof.
  intros H q s' Hq. destruct ps as [|p0 ps]; [discriminate|]. rewrite list_to_tree_full in H.
  cbv zeta in H. destruct (is_nil _); [discriminate|].
  match type of H with collapse (add_rows ?b ?ts ?sp true ?rows []) = _ =>
    destruct (add_rows b ts sp true rows []) as [t1 [ps1|e]] eqn:Ha; [|discriminate];
    assert (Hattr := add_rows_attrs ts sp rows b [] t1 ps1) end.
  cbn in H. inversion H; subst t1. specialize (Hattr ltac:(constructor; constructor) Ha q s' Hq).
  assert (E : forall rows P, (forall r, In r rows -> snd r = []) -> upd_for sep rows P [] = []).
  { unfold upd_for. induction rows as [|r rows IH]; intros P Hr; [reflexivity|]. cbn [fold_left]. unfold step_attrs at 2.
    pose proof (Hr r (or_introl eq_refl)) as E0. destruct r as [p a]. cbn [fst snd] in *. subst a.
    change (set_attrs [] []) with (@nil (str * val)).
    destruct (path_eqb _ _); apply IH; intros r' Hr'; apply Hr; now right. }
  assert (Hb : attrs_at (T None (hd [] (split (lstrip p0 sep) sep)) [] []) q = []).
  { unfold attrs_at. destruct q as [|j q]; [reflexivity|]. cbn. destruct j; reflexivity. }
  rewrite Hb, E in Hattr.
  - destruct (tattrs s') as [|[k v] l]; [reflexivity|]. specialize (Hattr k). cbn in Hattr. rewrite str_eqb_refl in Hattr. discriminate.
  - intros r Hr. apply in_map_iff in Hr as (x & <- & _). reflexivity.
Qed.

(* dict_to_tree / frame_to_tree: the attributes of every node are the fold, in row order, of the rows
   naming its path (dict: all attributes but "name"; frame: the non-null cells, see frame_attrs_get),
   starting from the root's creation attributes *)
Theorem frame_to_tree_attrs rows pcol sep t' :
  frame_to_tree rows pcol sep true = Ret t' ->
  exists r kw,
    forall q s', subtree_at t' q = Some s' ->
      aeq (tattrs s')
          (upd_for sep (map (fun r0 => (fst r0, frame_attrs pcol (snd r0))) (strip_rows rows sep))
                   (names_along t' q) (attrs_at (T None r (set_attrs [] kw) []) q)).
Proof.
  unfold frame_to_tree. destruct (strip_rows rows sep) as [|[p0 a0] rows0]; [discriminate|]. cbv zeta.
  match goal with |- context [has_duplicate_attribute ?x] => destruct (has_duplicate_attribute x); [discriminate|] end.
  match goal with |- context [set_attrs [] ?x] => set (kw := x) end.
  set (r := hd [] (split p0 sep)). destruct (is_nil r); [discriminate|].
  match goal with |- context [add_rows ?a1 ?a2 ?a3 ?a4 ?a5 ?a6] =>
    destruct (add_rows a1 a2 a3 a4 a5 a6) as [t1 [ps1|e]] eqn:Ha; [|discriminate] end.
  intros E. inversion E; subst t1. exists r, kw. intros q s' Hq.
  eapply add_rows_attrs; eauto. constructor; constructor.
Qed.

Theorem dict_to_tree_attrs d sep t' :
  dict_to_tree d sep true = Ret t' ->
  exists r ra,
    forall q s', subtree_at t' q = Some s' ->
      aeq (tattrs s')
          (upd_for sep (map (fun r0 => (fst r0, filter_attributes (snd r0) [k_name] false)) d)
                   (names_along t' q) (attrs_at (T None r (set_attrs [] ra) []) q)).
Proof.
  destruct d as [|[k0 a0] rows] eqn:Ed; [discriminate|]. rewrite <- Ed.
  rewrite (dict_to_tree_form _ _ _ _ _ Ed). cbv zeta.
  match goal with |- context [set_attrs [] ?x] => set (ra := x) end.
  set (r := hd [] (branch_of k0 sep)). destruct (is_nil r); [discriminate|].
  match goal with |- context [add_rows ?a1 ?a2 ?a3 ?a4 ?a5 ?a6] =>
    destruct (add_rows a1 a2 a3 a4 a5 a6) as [t1 [ps1|e]] eqn:Ha; [|discriminate] end.
  cbn [collapse]. intros E. inversion E; subst t1. exists r, ra. intros q s' Hq.
  eapply add_rows_attrs; eauto. constructor; constructor.
Qed.

(* the guard on a path string for separators of any length, as the generator renders it: a name list
   (names non-empty, free of separator characters) joined by the separator, with any number of whole
   leading / trailing separators; or nothing but separators *)
Definition rendered (sp s : str) : Prop :=
  (exists a b L, L <> [] /\ Forall (sgood sp) L /\ s = rep sp a ++ join sp L ++ rep sp b)
  \/ (exists a, s = rep sp a).

Lemma rendered_PG sp s : sp <> [] -> rendered sp s -> PG sp s.
Proof.
  intros Hs [(a & b & L & Hne & Hall & ->)|(a & ->)]; [now apply PG_render|now apply PG_seps].
Qed.

(* ======================================================================================== *)
(* 34. histories: every add_path_to_tree call of any history is exact for the tree as it is then *)

(* the add_path clause for one call: tb = the tree the call started from *)
Definition add_clause (tb : tree) (sep path : str) (r : tree * res pos) : Prop :=
  forall t' p, r = (t', Ret p) ->
    (forall q, In q (paths t') <-> In q (paths tb) \/ In q (prefixes (branch_of path sep)))
    /\ names_along t' p = branch_of path sep
    /\ (exists s', subtree_at t' p = Some s')
    /\ (forall q s, subtree_at tb q = Some s ->
          exists s', subtree_at t' q = Some s' /\ ttag s' = ttag s /\ tname s' = tname s)
    /\ (forall q s', subtree_at tb q = None -> subtree_at t' q = Some s' -> ttag s' = None).

Lemma add_clause_holds t tsep sep path na :
  add_clause t sep path (add_path_to_tree t tsep path sep true na).
Proof.
  intros t' p H.
  destruct (add_path_returns _ _ _ _ _ _ _ H) as [Hex Hn].
  destruct (add_path_reuses _ _ _ _ _ _ _ H) as (Hr & Hf & _).
  split; [exact (add_path_paths _ _ _ _ _ _ _ H)|]. split; [exact Hn|]. split; [exact Hex|]. split.
  - intros q s Hq. destruct (Hr q s Hq) as (s' & Hs' & Ht & Hnm & _). eauto.
  - exact Hf.
Qed.

(* C05_history_adds_exact: whatever adds and structural edits (detach, re-parent, sort) came before,
   each add is exact against the tree as it is at that moment: the model keeps no state between calls *)
Theorem history_adds_exact tsep sep : forall ops t,
  Forall (fun e => match e with (tb, path, _, r) => add_clause tb sep path r end)
         (hrun tsep sep true t ops).
Proof.
  induction ops as [|op ops IH]; intros t; [constructor|].
  destruct op as [path na|p|src dst|p]; cbn [hrun].
  - constructor; [apply add_clause_holds|apply IH].
  - destruct (hedit t (HDel p)); [apply IH|constructor].
  - destruct (hedit t (HMove src dst)); [apply IH|constructor].
  - destruct (hedit t (HSort p)); [apply IH|constructor].
Qed.
