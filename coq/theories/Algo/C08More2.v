(* C08 — shift/copy/replace: second batch of further clauses.  Proofs for Props/C08_more2.v.

   Part A-D.  merge_leaves for source subtrees of ANY depth (Props/C08.v has it only under the guard "every child of the
              source node is a leaf"), for shift_nodes AND copy_nodes, destination absent (created) AND existing,
              and from == to with merge_leaves.  The loop `for children in from_node.leaves: children.parent = to_node`
              (Modify.ml_loop) runs over a snapshot of references into a tree that shrinks with every step; ml_deep is
              its invariant: after the loop the source node keeps its skeleton of non-leaf nodes (prune), the leaves
              (lvs, pre-order) are the last children of the destination node, in order, and they are the same objects.
   Part E.    The table form and Spec.edit_cs.
   Part F.    Whole calls on path strings and prop_C08. *)
From BT Require Import Base.Prelude Base.Str Base.StrSep Base.Rose Algo.Modify Spec.PC08 Corr.ModifyCorr Algo.ModifyProofs
                       Algo.C08More.

(* ============================================================================================== *)
(* Part A.  leaves, leaf references and the pruned skeleton                                         *)

(* the subtree without its leaves: every node that has children stays, with those of its children that have children *)
Fixpoint prune (t : tree) : tree :=
  match t with
  | T g n a ks =>
      T g n a ((fix go (l : list tree) : list tree :=
                  match l with [] => [] | k :: r => if is_leaf k then go r else prune k :: go r end) ks)
  end.
Fixpoint prune_f (l : list tree) : list tree :=
  match l with [] => [] | k :: r => if is_leaf k then prune_f r else prune k :: prune_f r end.

(* the leaves in pre-order (the node itself when it has no children) *)
Fixpoint lvs (t : tree) : list tree :=
  match t with T g n a ks => match ks with [] => [t] | _ => flat_map lvs ks end end.
Definition lvs_f (l : list tree) : list tree := flat_map lvs l.

(* the references of the leaves below `here`, in pre-order *)
Fixpoint lrefs (here : ref) (t : tree) : list ref :=
  match t with
  | T _ _ _ ks =>
      match ks with
      | [] => [here]
      | _ => (fix go (i : nat) (l : list tree) : list ref :=
                match l with [] => [] | k :: r => lrefs (here ++ [i]) k ++ go (S i) r end) 0 ks
      end
  end.
Fixpoint lrefs_f (here : ref) (i : nat) (l : list tree) : list ref :=
  match l with [] => [] | k :: r => lrefs (here ++ [i]) k ++ lrefs_f here (S i) r end.

Definition fsize (l : list tree) : nat := fold_right (fun k a => tsize k + a) 0 l.

Lemma m2_prune_eq t : prune t = set_kids t (prune_f (tkids t)).
Proof.
  destruct t as [g n a ks]. reflexivity. Qed.

Lemma m2_lvs_eq t : lvs t = if is_leaf t then [t] else lvs_f (tkids t).
Proof. destruct t as [g n a [|k ks]]; reflexivity. Qed.

Lemma m2_lrefs_go here l : forall i,
  (fix go (i : nat) (l : list tree) : list ref :=
     match l with [] => [] | k :: r => lrefs (here ++ [i]) k ++ go (S i) r end) i l = lrefs_f here i l.
Proof. induction l as [|k l IH]; intros i; [reflexivity|]. cbn [lrefs_f]. rewrite <- IH. reflexivity. Qed.

Lemma m2_lrefs_eq here t : lrefs here t = if is_leaf t then [here] else lrefs_f here 0 (tkids t).
Proof.
  destruct t as [g n a ks]. unfold is_leaf. cbn [tkids]. destruct ks as [|k0 ks0]; [reflexivity|].
  exact (m2_lrefs_go here (k0 :: ks0) 0).
Qed.

Lemma m2_lvs_is_leaves t : lvs t = leaves t.
Proof.
  induction t as [g n a ks IH] using tree_ind'. unfold leaves. cbn [pre filter]. unfold is_leaf at 1. cbn [tkids lvs].
  destruct ks as [|k0 ks0]; [reflexivity|].
  generalize dependent (k0 :: ks0). intros l IHl. induction l as [|k l IHk]; [reflexivity|].
  inversion IHl as [|? ? Hk Hl]; subst. cbn [flat_map]. rewrite filter_app, Hk, (IHk Hl). reflexivity.
Qed.

Lemma m2_leaf_refs_lrefs t : forall here names,
  map (fun e : ref * list str * tree => fst (fst e)) (filter (fun e => is_leaf (snd e)) (refs_from here names t))
  = lrefs here t.
Proof.
  induction t as [g n a ks IH] using tree_ind'. intros here names. rewrite m2_lrefs_eq.
  assert (A : forall i,
    map (fun e : ref * list str * tree => fst (fst e))
        (filter (fun e => is_leaf (snd e))
           ((fix go (i : nat) (l : list tree) : list (ref * list str * tree) :=
               match l with [] => [] | k :: r => refs_from (here ++ [i]) (names ++ [n]) k ++ go (S i) r end) i ks))
    = lrefs_f here i ks).
  { clear -IH. induction ks as [|k l IHk]; intros i; [reflexivity|].
    inversion IH as [|? ? Hk Hl]; subst. rewrite filter_app, map_app, Hk, (IHk Hl). reflexivity. }
  destruct ks as [|k0 ks0]; [reflexivity|]. exact (A 0).
Qed.

Lemma m2_leaf_refs (f : forest) x t :
  fget x f = Some t -> is_leaf t = false -> leaf_refs f x = lrefs_f x 0 (tkids t).
Proof.
  intros Hg Hl. unfold leaf_refs. rewrite Hg, m2_leaf_refs_lrefs, m2_lrefs_eq, Hl. reflexivity.
Qed.

Lemma m2_fsize_cons k ks : fsize (k :: ks) = tsize k + fsize ks.
Proof. reflexivity. Qed.

Lemma m2_tsize_kids k : fsize (tkids k) < tsize k.
Proof. destruct k as [g n a ks]. cbn [tkids tsize]. unfold fsize. lia. Qed.

(* ============================================================================================== *)
(* Part B.  forest surgery at the level of whole forests (any piece)                                *)

Definition fapp_all (y : ref) (L : list tree) (f : forest) : forest := fold_left (fun f k => fappend y k f) L f.
Definition knames (q : ref) (f : forest) : option (list str) := option_map (map tname) (fkids q f).

Lemma m2_fapp_all_cons y k L (f : forest) : fapp_all y (k :: L) f = fapp_all y L (fappend y k f).
Proof. reflexivity. Qed.

Lemma m2_fkids_fpath h : forall (f : forest) ks pre, fkids h f = Some ks -> exists P, fpath pre h f = Some P.
Proof.
  induction h as [|i h IH]; intros f ks pre H; [exists pre; reflexivity|].
  cbn [fkids fpath] in *. destruct (nth_error f i) as [t|]; [|discriminate]. eapply IH. exact H.
Qed.

(* x.parent = y for a node x that is not a piece root and a destination y that the removal does not move *)
Lemma m2_move_gen nr (f : forest) x y sub ks ks1 :
  fget x f = Some sub -> is_prefix x y = false -> fkids y f = Some ks ->
  (forall k, In k ks -> tname k <> tname sub) -> protected nr x = false -> adj' x y = y ->
  fkids y (fremove x f) = Some ks1 ->
  move nr f x (Some y) = MvOk (fappend y sub (fremove x f)) (track x (y ++ [length ks1])).
Proof.
  intros Hg Hxy Hk Hfresh Hprot Hadj Hk1. unfold move. rewrite Hg, Hxy, Hk.
  rewrite dup_child_false by exact Hfresh. rewrite Hprot, Hadj, Hk1. reflexivity.
Qed.

Lemma m2_is_prefix_sibling_deep h i j r : i <> j -> is_prefix (h ++ [i]) (h ++ j :: r) = false.
Proof.
  intros H. induction h as [|a h IH]; cbn.
  - destruct (Nat.eqb i j) eqn:E; [apply Nat.eqb_eq in E; contradiction|reflexivity].
  - rewrite Nat.eqb_refl. exact IH.
Qed.

Lemma m2_is_prefix_deep_sibling h i j r : i <> j -> is_prefix (h ++ j :: r) (h ++ [i]) = false.
Proof.
  intros H. induction h as [|a h IH]; cbn.
  - destruct (Nat.eqb j i) eqn:E; [apply Nat.eqb_eq in E; congruence|reflexivity].
  - rewrite Nat.eqb_refl. exact IH.
Qed.

(* a later sibling (and everything below it) moves one place to the left *)
Lemma m2_track_later h e nx j r : track (h ++ [e]) nx (h ++ (e + S j) :: r) = h ++ (e + j) :: r.
Proof.
  unfold track. rewrite m2_is_prefix_sibling_deep by lia.
  change (h ++ (e + S j) :: r) with (h ++ [e + S j] ++ r). rewrite app_assoc.
  rewrite adj'_app; [|apply is_prefix_sibling_false; lia|apply is_prefix_sibling_false; lia].
  rewrite adj'_sibling by lia. unfold adj_idx. replace (Nat.ltb e (e + S j)) with true by (symmetry; apply Nat.ltb_lt; lia).
  rewrite <- app_assoc. cbn [app]. do 2 f_equal. lia.
Qed.

(* references that are not below the parent of the removed node stay *)
Lemma m2_track_outside h e nx w : is_prefix h w = false \/ w = h -> track (h ++ [e]) nx w = w.
Proof.
  intros Hw. unfold track. rewrite (is_prefix_child_false h w e Hw). apply adj'_child_removed. exact Hw.
Qed.

Lemma m2_fkids_child h : forall (f : forest) ks e k,
  h <> [] -> fkids h f = Some ks -> nth_error ks e = Some k -> fkids (h ++ [e]) f = Some (tkids k).
Proof.
  intros f ks e k Hh Hk He. rewrite fkids_fget by (destruct h; discriminate).
  rewrite (fget_snoc h f ks e k Hk He). reflexivity.
Qed.

Lemma m2_fkids_fsetk_child h : forall (f : forest) ks e K,
  fkids h f = Some ks -> fkids h (fsetk (h ++ [e]) K f) = Some (upd_nth e (fun t => set_kids t K) ks).
Proof.
  induction h as [|i h IH]; intros f ks e K H.
  - cbn in H. inversion H; subst. reflexivity.
  - cbn [fkids] in H. destruct (nth_error f i) as [t|] eqn:Et; [|discriminate].
    cbn [app fsetk fkids]. rewrite nth_error_upd_nth, Nat.eqb_refl, Et. cbn [option_map]. rewrite tkids_set_kids.
    apply IH. exact H.
Qed.

Lemma m2_fsetk_fsetk_below h : forall r (f : forest) K K', fsetk h K (fsetk (h ++ r) K' f) = fsetk h K f.
Proof.
  induction h as [|i h IH]; intros r f K K'; [reflexivity|]. cbn [app fsetk]. rewrite upd_nth_upd_nth.
  apply upd_nth_ext. intros t. rewrite set_kids_set_kids, tkids_set_kids, IH. reflexivity.
Qed.

Lemma m2_fkids_fapp_all h y : is_prefix h y = false -> forall L (f : forest) ks,
  fkids h f = Some ks -> fkids h (fapp_all y L f) = Some ks.
Proof.
  intros Hy. induction L as [|k L IH]; intros f ks H; [exact H|]. cbn [fapp_all fold_left]. apply IH.
  apply fkids_fappend_frame; assumption.
Qed.

Lemma m2_knames_fapp_all y : forall L (f : forest) nm,
  knames y f = Some nm -> knames y (fapp_all y L f) = Some (nm ++ map tname L).
Proof.
  induction L as [|k L IH]; intros f nm H; [rewrite app_nil_r; exact H|]. cbn [fapp_all fold_left map].
  replace (nm ++ tname k :: map tname L) with ((nm ++ [tname k]) ++ map tname L) by (rewrite <- app_assoc; reflexivity).
  apply IH. unfold knames in *. destruct (fkids y f) as [kq|] eqn:E; [|discriminate]. cbn in H. inversion H; subst.
  rewrite (fkids_fappend_self y f k kq E). cbn. rewrite map_app. reflexivity.
Qed.

Lemma m2_fpath_fapp_all y z pre P : forall L (f : forest),
  fpath pre z f = Some P -> fpath pre z (fapp_all y L f) = Some P.
Proof.
  induction L as [|k L IH]; intros f H; [exact H|]. cbn [fapp_all fold_left]. apply IH. apply fpath_fappend_frame. exact H.
Qed.

Lemma m2_fsetk_fapp_all h y K pre P : is_prefix h y = false -> forall L (f : forest),
  fpath pre h f = Some P -> fsetk h K (fapp_all y L f) = fapp_all y L (fsetk h K f).
Proof.
  intros Hy. induction L as [|k L IH]; intros f HP; [reflexivity|]. rewrite !m2_fapp_all_cons.
  rewrite IH by (apply fpath_fappend_frame; exact HP).
  rewrite (fsetk_fappend h y f K k pre P HP Hy). reflexivity.
Qed.

Lemma m2_fapp_all_app y L1 L2 (f : forest) : fapp_all y (L1 ++ L2) f = fapp_all y L2 (fapp_all y L1 f).
Proof. unfold fapp_all. apply fold_left_app. Qed.

Lemma m2_protected nr h e : h <> [] -> protected nr (h ++ [e]) = false.
Proof. intros Hh. destruct h as [|a [|b h]]; [congruence|reflexivity|reflexivity]. Qed.

Lemma m2_upd_nth_mid_set (done ks' : list tree) k K :
  upd_nth (length done) (fun t => set_kids t K) (done ++ k :: ks') = (done ++ [set_kids k K]) ++ ks'.
Proof. rewrite upd_nth_mid, <- app_assoc. reflexivity. Qed.

(* ============================================================================================== *)
(* Part C.  the loop `for children in from_node.leaves: children.parent = to_node`, any depth       *)

Lemma m2_lvs_f_cons k ks : lvs_f (k :: ks) = lvs k ++ lvs_f ks.
Proof. reflexivity. Qed.

(* The invariant.  The loop is looking at the children `ks` (a suffix of the children of the node that is now at h and
   was at H when the snapshot of leaf references was taken); `done` are the already pruned children in front of them,
   o the original index of the first of ks.  trk maps snapshot references below H to where those nodes are now.  The
   destination y is not inside h.  Then the loop moves the leaves of ks, in pre-order, to the end of y's children, leaves
   pruned children behind, and does not disturb references outside h. *)
Lemma m2_ml_deep nr y : forall n ks, fsize ks < n ->
  forall (f : forest) H h o done trk more nm,
  h <> [] -> is_prefix h y = false ->
  fkids h f = Some (done ++ ks) ->
  (forall j r, trk (H ++ (o + j) :: r) = h ++ (length done + j) :: r) ->
  knames y f = Some nm -> NoDup (nm ++ map tname (lvs_f ks)) ->
  exists trk',
    ml_loop nr f (lrefs_f H o ks ++ more) trk (Some y)
    = ml_loop nr (fapp_all y (lvs_f ks) (fsetk h (done ++ prune_f ks) f)) more trk' (Some y)
    /\ (forall z, is_prefix h (trk z) = false \/ trk z = h -> trk' z = trk z).
Proof.
  induction n as [|n IH]; intros ks Hn f H h o done trk more nm Hh Hy Hk Htrk Hnm Hnd; [lia|].
  destruct ks as [|k ks'].
  - exists trk. split; [|intros; reflexivity]. cbn [lrefs_f lvs_f flat_map prune_f fapp_all fold_left app].
    rewrite (fsetk_id h f _ Hk). reflexivity.
  - rewrite m2_fsize_cons in Hn.
    assert (Hnth : nth_error (done ++ k :: ks') (length done) = Some k) by apply nth_error_mid.
    destruct (m2_fkids_fpath h f _ [] Hk) as [P HP].
    destruct (is_leaf k) eqn:El.
    + (* k is a leaf: it is moved *)
      cbn [lrefs_f]. rewrite m2_lrefs_eq, El. cbn [app ml_loop].
      pose proof (Htrk 0 []) as Hx. rewrite !Nat.add_0_r in Hx. rewrite Hx.
      set (x := h ++ [length done]).
      assert (Hg : fget x f = Some k) by (apply (fget_snoc h f _ _ _ Hk Hnth)).
      unfold knames in Hnm. destruct (fkids y f) as [kq|] eqn:Ekq; [|discriminate]. cbn in Hnm. inversion Hnm; subst nm.
      rewrite m2_lvs_f_cons, m2_lvs_eq, El in Hnd. cbn [app map] in Hnd.
      assert (Hfresh : forall k', In k' kq -> tname k' <> tname k).
      { intros k' Hk' E. eapply (NoDup_app_disj (map tname kq) (tname k :: map tname (lvs_f ks')) (tname k) Hnd).
        - rewrite <- E. apply in_map. exact Hk'.
        - left. reflexivity. }
      assert (Hrem : fremove x f = fsetk h (done ++ ks') f).
      { unfold x. rewrite <- (fsetk_id h f _ Hk) at 1. rewrite fremove_fsetk_child, del_nth_mid. reflexivity. }
      pose proof (fkids_names_fsetk h y f (done ++ ks') Hy) as Hnames. rewrite Ekq in Hnames.
      destruct (fkids y (fsetk h (done ++ ks') f)) as [ks1|] eqn:Eks1; [|discriminate]. cbn in Hnames.
      rewrite (m2_move_gen nr f x y k kq ks1 Hg (is_prefix_child_false h y _ (or_introl Hy)) Ekq Hfresh
                 (m2_protected nr h _ Hh) (adj'_child_removed h y _ (or_introl Hy))) by (rewrite Hrem; exact Eks1).
      cbn [option_map]. rewrite (m2_track_outside h (length done) _ y (or_introl Hy)). rewrite Hrem.
      set (t1 := track x (y ++ [length ks1])).
      set (f1 := fappend y k (fsetk h (done ++ ks') f)).
      assert (HP1 : fpath [] h (fsetk h (done ++ ks') f) = Some P) by (rewrite fpath_fsetk by (right; reflexivity); exact HP).
      destruct (IH ks' ltac:(pose proof (m2_tsize_kids k); destruct k; cbn [tsize] in *; lia)
                  f1 H h (S o) done (fun z => t1 (trk z)) more (map tname kq ++ [tname k]) Hh Hy) as [trk' [E T]].
      * unfold f1. apply fkids_fappend_frame; [|exact Hy]. eapply fkids_fsetk_self. exact HP.
      * intros j r. cbn beta. replace (S o + j) with (o + S j) by lia. rewrite Htrk. unfold t1, x.
        rewrite m2_track_later. reflexivity.
      * unfold knames, f1. rewrite (fkids_fappend_self y _ k ks1 Eks1). cbn [option_map]. rewrite map_app.
        inversion Hnames as [Hn1]. rewrite Hn1. reflexivity.
      * rewrite <- app_assoc. exact Hnd.
      * exists trk'. split.
        -- eapply eq_trans; [exact E|]. f_equal. rewrite m2_lvs_f_cons, m2_lvs_eq, El. cbn [app prune_f]. rewrite El, m2_fapp_all_cons.
           f_equal. unfold f1. rewrite (fsetk_fappend h y _ _ k [] P HP1 Hy), fsetk_fsetk. reflexivity.
        -- intros z Hz. rewrite T; cbn beta; unfold t1, x; rewrite m2_track_outside by exact Hz; [reflexivity|exact Hz].
    + (* k has children: the loop works through them first *)
      cbn [lrefs_f]. rewrite m2_lrefs_eq, El, <- app_assoc.
      set (hc := h ++ [length done]).
      assert (Hhc : hc <> []) by (unfold hc; destruct h; discriminate).
      assert (Hyc : is_prefix hc y = false) by (apply is_prefix_child_false; left; exact Hy).
      rewrite m2_lvs_f_cons, m2_lvs_eq, El, map_app in Hnd.
      destruct (IH (tkids k) ltac:(pose proof (m2_tsize_kids k); lia) f (H ++ [o]) hc 0 [] trk
                  (lrefs_f H (S o) ks' ++ more) nm Hhc Hyc) as [trk1 [E1 T1]].
      * cbn [app]. apply (m2_fkids_child h f _ _ k Hh Hk Hnth).
      * intros j r. pose proof (Htrk 0 (j :: r)) as Hx. rewrite !Nat.add_0_r in Hx. unfold hc.
        rewrite <- !app_assoc. cbn [app length Nat.add]. exact Hx.
      * exact Hnm.
      * rewrite app_assoc in Hnd. apply NoDup_app_l in Hnd. exact Hnd.
      * cbn [app] in *.
        set (f1 := fapp_all y (lvs_f (tkids k)) (fsetk hc (prune_f (tkids k)) f)).
        destruct (IH ks' ltac:(destruct k; cbn [tsize] in *; lia) f1 H h (S o) (done ++ [prune k]) trk1 more
                    (nm ++ map tname (lvs_f (tkids k))) Hh Hy) as [trk2 [E2 T2]].
        -- unfold f1. apply m2_fkids_fapp_all; [exact Hy|]. unfold hc.
           rewrite (m2_fkids_fsetk_child h f _ (length done) (prune_f (tkids k)) Hk), m2_upd_nth_mid_set, <- m2_prune_eq.
           reflexivity.
        -- intros j r. replace (S o + j) with (o + S j) by lia. rewrite T1; rewrite Htrk.
           ++ rewrite app_length. cbn [length]. do 2 f_equal. lia.
           ++ left. unfold hc. apply m2_is_prefix_sibling_deep. lia.
        -- unfold f1. apply m2_knames_fapp_all. unfold knames. rewrite (fkids_names_fsetk hc y f _ Hyc). exact Hnm.
        -- rewrite <- app_assoc. exact Hnd.
        -- exists trk2. split.
           ++ eapply eq_trans; [exact E1|]. eapply eq_trans; [exact E2|]. f_equal. rewrite m2_lvs_f_cons, m2_lvs_eq, El, m2_fapp_all_app. cbn [prune_f]. rewrite El.
              f_equal. unfold f1.
              assert (HPc : fpath [] h (fsetk hc (prune_f (tkids k)) f) = Some P).
              { rewrite fpath_fsetk; [exact HP|]. left. unfold hc. apply is_prefix_child_false. right. reflexivity. }
              rewrite (m2_fsetk_fapp_all h y _ [] P Hy _ _ HPc). unfold hc. rewrite m2_fsetk_fsetk_below.
              rewrite <- app_assoc. reflexivity.
           ++ intros z Hz. assert (Hz1 : trk1 z = trk z).
              { apply T1. left. unfold hc. apply is_prefix_child_false. exact Hz. }
              rewrite T2; rewrite Hz1; [reflexivity|exact Hz].
Qed.

(* ============================================================================================== *)
(* Part D.  the attach step of merge_leaves, shift and copy                                         *)

Lemma m2_ml_top nr (f : forest) fr y x nm :
  fr <> [] -> fget fr f = Some x -> is_leaf x = false -> is_prefix fr y = false ->
  knames y f = Some nm -> NoDup (nm ++ map tname (lvs x)) ->
  ml_loop nr f (leaf_refs f fr) (fun z => z) (Some y)
  = (fapp_all y (lvs x) (fsetk fr (prune_f (tkids x)) f), None).
Proof.
  intros Hfr Hg Hl Hy Hnm Hnd. rewrite (m2_leaf_refs f fr x Hg Hl).
  assert (Hk : fkids fr f = Some ([] ++ tkids x)) by (rewrite fkids_fget by exact Hfr; rewrite Hg; reflexivity).
  rewrite m2_lvs_eq, Hl in *.
  destruct (m2_ml_deep nr y (S (fsize (tkids x))) (tkids x) (Nat.lt_succ_diag_r _) f fr fr 0 [] (fun z => z) [] nm Hfr Hy Hk)
    as [trk' [E _]].
  - intros j r. reflexivity.
  - exact Hnm.
  - exact Hnd.
  - rewrite app_nil_r in E. exact E.
Qed.

Lemma m2_app_all_cons q k L t : app_all q (k :: L) t = app_all q L (t_append q k t).
Proof. reflexivity. Qed.

Lemma m2_fapp_all_cons0 q : forall L (t : tree) rest, fapp_all (0 :: q) L (t :: rest) = app_all q L t :: rest.
Proof.
  induction L as [|k L IH]; intros t rest; [reflexivity|]. rewrite m2_fapp_all_cons, fappend_cons0, IH, m2_app_all_cons.
  reflexivity.
Qed.

Lemma m2_lvs_leaf t : forall l, In l (lvs t) -> tkids l = [].
Proof.
  induction t as [g n a ks IH] using tree_ind'. intros l Hl. cbn [lvs] in Hl. destruct ks as [|k0 ks0].
  - destruct Hl as [<-|[]]. reflexivity.
  - apply in_flat_map in Hl as [k [Hk Hl]]. rewrite Forall_forall in IH. exact (IH k Hk l Hl).
Qed.

Lemma m2_wf_leaf l : tkids l = [] -> wf_t l.
Proof. destruct l as [g n a ks]. cbn. intros ->. constructor; constructor. Qed.

Lemma m2_wf_lvs t : Forall wf_t (lvs t).
Proof. apply Forall_forall. intros l Hl. apply m2_wf_leaf. eapply m2_lvs_leaf. exact Hl. Qed.

Lemma m2_tname_prune t : tname (prune t) = tname t.
Proof. destruct t; reflexivity. Qed.

Lemma m2_prune_f_names K n : In n (map tname (prune_f K)) -> In n (map tname K).
Proof.
  induction K as [|k K IH]; intros H; [exact H|]. cbn [prune_f] in H. destruct (is_leaf k).
  - right. apply IH. exact H.
  - cbn [map] in H. destruct H as [<-|H]; [left; symmetry; apply m2_tname_prune|right; apply IH; exact H].
Qed.

Lemma m2_wf_prune t : wf_t t -> wf_t (prune t).
Proof.
  induction t as [g n a ks IH] using tree_ind'. intros H. rewrite m2_prune_eq. apply wf_t_set_kids. cbn [tkids].
  destruct (wf_t_kids _ H) as [Hn Hf]. cbn [tkids] in Hn, Hf. clear H. split.
  - induction ks as [|k ks IHk]; [constructor|]. cbn [prune_f]. cbn [map] in Hn. inversion Hn as [|? ? Hnot Hn']; subst.
    inversion IH as [|? ? _ IH']; subst. inversion Hf as [|? ? _ Hf']; subst.
    destruct (is_leaf k); [apply IHk; assumption|]. cbn [map]. constructor; [|apply IHk; assumption].
    rewrite m2_tname_prune. intros Hin. apply Hnot. apply m2_prune_f_names. exact Hin.
  - induction ks as [|k ks IHk]; [constructor|]. cbn [prune_f]. cbn [map] in Hn. inversion Hn as [|? ? Hnot Hn']; subst.
    inversion IH as [|? ? Hk IH']; subst. inversion Hf as [|? ? Hwk Hf']; subst.
    destruct (is_leaf k); [apply IHk; assumption|]. constructor; [apply Hk; exact Hwk|apply IHk; assumption].
Qed.

Lemma m2_wf_prune_f K : wf_f K -> wf_f (prune_f K).
Proof.
  intros H. pose proof (m2_wf_prune (T None [] [] K) (WfT None [] [] K (proj1 H) (proj2 H))) as Hp.
  rewrite m2_prune_eq in Hp. apply wf_t_kids in Hp. exact Hp.
Qed.

Lemma m2_is_leaf_retag t : is_leaf (retag t) = is_leaf t.
Proof. destruct t as [g n a [|k ks]]; reflexivity. Qed.

Lemma m2_lvs_retag t : lvs (retag t) = map retag (lvs t).
Proof.
  induction t as [g n a ks IH] using tree_ind'.
  assert (E : flat_map lvs (map retag ks) = map retag (flat_map lvs ks)).
  { induction ks as [|k l IHl]; [reflexivity|]. inversion IH as [|? ? Hk Hl]; subst. cbn [map flat_map].
    rewrite map_app, Hk, (IHl Hl). reflexivity. }
  destruct ks as [|k0 ks0]; [reflexivity|]. exact E.
Qed.

(* no leaf of x clashes with a child of the destination q, leaf names pairwise distinct *)
Lemma m2_names_ok t1 q Q kq (L : list tree) :
  wf_t t1 -> tpath t1 q = Some Q -> fkids q (tkids t1) = Some kq ->
  (forall l, In l L -> has (rows t1) (Q ++ [tname l]) = false) -> NoDup (map tname L) ->
  NoDup (map tname kq ++ map tname L).
Proof.
  intros Hwf HQ Hkq Hhas Hnd. apply NoDup_app_intro.
  - apply (wf_fkids q (tkids t1) kq (wf_t_kids _ Hwf) Hkq).
  - exact Hnd.
  - intros n Hn1 Hn2. apply in_map_iff in Hn2 as [l [<- Hl]].
    pose proof (Hhas l Hl) as Hh. rewrite (t_has_child t1 q Q kq (tname l) Hwf HQ Hkq) in Hh.
    apply in_map_iff in Hn1 as [k' [E Hk']].
    assert (existsb (fun k0 => str_eqb (tname k0) (tname l)) kq = true)
      by (eapply existsb_true; [exact Hk'|apply str_eqb_eq; exact E]). congruence.
Qed.

(* shift_nodes(merge_leaves): the source node keeps its pruned skeleton, the leaves — the same objects — are appended in
   pre-order to the children of the destination node q (any node outside the source subtree) *)
Lemma m2_attach_ml_shift c t1 rest p q x Q :
  c_copy c = false -> f_ml (c_fl c) = true -> wf_t t1 -> p <> [] -> tget t1 p = Some x -> is_leaf x = false ->
  tpath t1 q = Some Q -> is_prefix p q = false ->
  (forall l, In l (lvs x) -> has (rows t1) (Q ++ [tname l]) = false) -> NoDup (map tname (lvs x)) ->
  let s := t_setk p (prune_f (tkids x)) t1 in
  attach c false (t1 :: rest) (0 :: p) (Some (0 :: q)) = (app_all q (lvs x) s :: rest, None)
  /\ rows (app_all q (lvs x) s) = ins_all Q (lvs x) (rows s) /\ wf_t (app_all q (lvs x) s).
Proof.
  intros Hc Hml Hwf Hp Hx Hl HQ Hpq Hhas Hnd s.
  destruct (fkids_of_fpath _ _ _ _ HQ) as [kq Hkq].
  pose proof (m2_names_ok t1 q Q kq (lvs x) Hwf HQ Hkq Hhas Hnd) as Hnd2.
  assert (Hwfx : wf_t x) by (apply (wf_tget t1 p x Hwf Hx)).
  assert (Hwfs : wf_t s).
  { unfold s, t_setk. apply wf_t_set_kids. apply wf_fsetk; [exact Hp|apply wf_t_kids; exact Hwf|].
    apply m2_wf_prune_f. apply wf_t_kids. exact Hwfx. }
  assert (HQs : tpath s q = Some Q).
  { unfold tpath, s, t_setk. rewrite tname_set_kids, tkids_set_kids, fpath_fsetk by (left; exact Hpq). exact HQ. }
  assert (Hqn : qnames q s = Some (map tname kq)).
  { unfold qnames, s, t_setk. rewrite tkids_set_kids, (fkids_names_fsetk p q (tkids t1) _ Hpq), Hkq. reflexivity. }
  destruct (app_all_facts q Q (lvs x) s (map tname kq) Hwfs HQs Hqn Hnd2 (m2_wf_lvs x)) as [Hw [Hr _]].
  split; [|split; [exact Hr|exact Hw]].
  unfold attach. rewrite Hc, Hml. cbn [orb andb negb]. rewrite is_prefix_cons. cbn [Nat.eqb andb]. rewrite Hpq.
  eapply eq_trans; [apply (m2_ml_top (nroots c) (t1 :: rest) (0 :: p) (0 :: q) x (map tname kq))|].
  7: { change (fsetk (0 :: p) (prune_f (tkids x)) (t1 :: rest)) with (s :: rest). rewrite m2_fapp_all_cons0. reflexivity. }
  - discriminate.
  - rewrite fget_cons0 by exact Hp. exact Hx.
  - exact Hl.
  - rewrite is_prefix_cons. cbn [Nat.eqb andb]. exact Hpq.
  - unfold knames. rewrite fkids_cons0, Hkq. reflexivity.
  - exact Hnd2.
Qed.

(* copy_nodes(merge_leaves): the leaves of the COPY of the source node — new objects — are appended to the children
   of the destination node q (any node of the tree); the tree itself loses nothing *)
Lemma m2_attach_ml_copy c t1 rest p q x Q :
  c_copy c = true -> f_ml (c_fl c) = true -> wf_t t1 -> p <> [] -> tget t1 p = Some x -> is_leaf x = false ->
  tpath t1 q = Some Q ->
  (forall l, In l (lvs x) -> has (rows t1) (Q ++ [tname l]) = false) -> NoDup (map tname (lvs x)) ->
  let L := map retag (lvs x) in
  attach c false (t1 :: rest) (0 :: p) (Some (0 :: q))
  = (app_all q L t1 :: rest ++ [t_setk p (prune_f (tkids (retag x))) (retag t1)], None)
  /\ rows (app_all q L t1) = ins_all Q L (rows t1) /\ wf_t (app_all q L t1).
Proof.
  intros Hc Hml Hwf Hp Hx Hl HQ Hhas Hnd L.
  destruct (fkids_of_fpath _ _ _ _ HQ) as [kq Hkq].
  assert (HnL : map tname L = map tname (lvs x)) by (unfold L; apply more_map_tname_retag).
  assert (Hnd2 : NoDup (map tname kq ++ map tname L)).
  { rewrite HnL. apply (m2_names_ok t1 q Q kq (lvs x) Hwf HQ Hkq Hhas Hnd). }
  assert (Hqn : qnames q t1 = Some (map tname kq)) by (unfold qnames; rewrite Hkq; reflexivity).
  assert (HLwf : Forall wf_t L) by (unfold L; rewrite <- m2_lvs_retag; apply m2_wf_lvs).
  destruct (app_all_facts q Q L t1 (map tname kq) Hwf HQ Hqn Hnd2 HLwf) as [Hw [Hr _]].
  split; [|split; [exact Hr|exact Hw]].
  set (cp := retag t1).
  assert (Hxc : tget cp p = Some (retag x)).
  { unfold tget, cp. rewrite tkids_retag, fget_retag. unfold tget in Hx. rewrite Hx. reflexivity. }
  unfold attach. rewrite Hc, Hml. unfold copy_node. cbn [nth_error]. fold cp.
  cbn [orb andb negb].
  set (n := length (t1 :: rest)).
  eapply eq_trans; [apply (m2_ml_top (nroots c) ((t1 :: rest) ++ [cp]) (n :: p) (0 :: q) (retag x) (map tname kq))|].
  7: { assert (Hset : fsetk (n :: p) (prune_f (tkids (retag x))) ((t1 :: rest) ++ [cp])
                      = t1 :: rest ++ [t_setk p (prune_f (tkids (retag x))) cp]).
       { unfold n. cbn [fsetk]. rewrite upd_nth_mid. reflexivity. }
       rewrite Hset, m2_fapp_all_cons0, m2_lvs_retag. reflexivity. }
  - discriminate.
  - unfold n. rewrite (fget_piece (t1 :: rest) cp [] p Hp). exact Hxc.
  - rewrite m2_is_leaf_retag. exact Hl.
  - reflexivity.
  - unfold knames. cbn [app]. rewrite fkids_cons0, Hkq. reflexivity.
  - rewrite m2_lvs_retag. exact Hnd2.
Qed.

(* ============================================================================================== *)
(* Part E.  the table side: the leaf rows of Spec.edit_cs, dropping them, attaching them            *)

(* the leaves with the name path of their parent *)
Fixpoint lvp (P : list str) (t : tree) : list (list str * tree) :=
  match t with T g n a ks => match ks with [] => [(P, t)] | _ => flat_map (lvp (P ++ [n])) ks end end.
Definition lrow (e : list str * tree) : row := (fst e ++ [tname (snd e)], ttag (snd e), tattrs (snd e)).
Definition lrows (P : list str) (t : tree) : table := map lrow (lvp P t).
Definition lrows_f (P : list str) (K : list tree) : table := flat_map (lrows P) K.

Lemma m2_lvp_eq P t : lvp P t = if is_leaf t then [(P, t)] else flat_map (lvp (P ++ [tname t])) (tkids t).
Proof. destruct t as [g n a [|k ks]]; reflexivity. Qed.

Lemma m2_lrows_eq P t :
  lrows P t = if is_leaf t then [(P ++ [tname t], ttag t, tattrs t)] else lrows_f (P ++ [tname t]) (tkids t).
Proof.
  unfold lrows. rewrite m2_lvp_eq. destruct (is_leaf t); [reflexivity|]. unfold lrows_f.
  induction (tkids t) as [|k ks IH]; [reflexivity|]. cbn [flat_map]. rewrite map_app, IH. reflexivity.
Qed.

Lemma m2_lvp_snd t : forall P, map snd (lvp P t) = lvs t.
Proof.
  induction t as [g n a ks IH] using tree_ind'. intros P.
  assert (E : map snd (flat_map (lvp (P ++ [n])) ks) = flat_map lvs ks).
  { induction ks as [|k l IHl]; [reflexivity|]. inversion IH as [|? ? Hk Hl]; subst. cbn [flat_map].
    rewrite map_app, Hk, (IHl Hl). reflexivity. }
  destruct ks as [|k0 ks0]; [reflexivity|]. exact E.
Qed.

Lemma m2_lrows_under t : forall P r, In r (lrows P t) -> exists rest, rpath r = P ++ tname t :: rest.
Proof.
  induction t as [g n a ks IH] using tree_ind'. intros P r Hr. rewrite m2_lrows_eq in Hr. cbn [tname tkids] in *.
  destruct (is_leaf (T g n a ks)).
  - destruct Hr as [<-|[]]. exists []. reflexivity.
  - unfold lrows_f in Hr. apply in_flat_map in Hr as [k [Hk Hr]]. rewrite Forall_forall in IH.
    destruct (IH k Hk _ _ Hr) as [rest Hrest]. exists (tname k :: rest). rewrite Hrest, <- app_assoc. reflexivity.
Qed.

Lemma m2_lrows_f_under P K r : In r (lrows_f P K) -> exists k rest, In k K /\ rpath r = P ++ tname k :: rest.
Proof.
  intros Hr. apply in_flat_map in Hr as [k [Hk Hr]]. destruct (m2_lrows_under k P r Hr) as [rest E].
  exists k, rest. split; assumption.
Qed.

Lemma m2_under_of_path Pk rest r : rpath r = Pk ++ rest -> under Pk r = true.
Proof. intros E. unfold under. rewrite E. apply pfx_app. Qed.

Lemma m2_not_under_other P n n' rest r : n' <> n -> rpath r = P ++ n' :: rest -> under (P ++ [n]) r = false.
Proof.
  intros Hne E. unfold under. rewrite E, pfx_app_same. cbn [pfx].
  replace (str_eqb n n') with false; [reflexivity|]. symmetry. apply str_eqb_neq. congruence.
Qed.

(* rows outside the block of Pk do not matter for "is a leaf" of a row inside it *)
Lemma m2_leaf_in_ctx C1 C2 X Pk r :
  (forall r', In r' (C1 ++ C2) -> under Pk r' = false) -> pfx Pk (rpath r) = true ->
  leaf_in (C1 ++ X ++ C2) r = leaf_in X r.
Proof.
  intros Hc Hr. unfold leaf_in. f_equal. rewrite !existsb_app'.
  assert (Hno : forall r', In r' (C1 ++ C2) -> sunder (rpath r) r' = false).
  { intros r' Hr'. unfold sunder. destruct (pfx (rpath r) (rpath r')) eqn:E; [|reflexivity].
    pose proof (pfx_trans _ _ _ Hr E) as Ht. specialize (Hc r' Hr'). unfold under in Hc. congruence. }
  rewrite (existsb_false _ C1) by (intros r' Hr'; apply Hno; apply in_or_app; left; exact Hr').
  rewrite (existsb_false _ C2) by (intros r' Hr'; apply Hno; apply in_or_app; right; exact Hr').
  rewrite orb_false_r. reflexivity.
Qed.

Lemma m2_sunder_self P r : rpath r = P -> sunder P r = false.
Proof. intros E. unfold sunder. rewrite E, pfx_refl, path_eqb_refl. reflexivity. Qed.

Lemma m2_sunder_child P k r : In r (rows_from P k) -> sunder P r = true.
Proof.
  intros Hr. destruct (rows_from_under k P r Hr) as [rest E]. unfold sunder. rewrite E, pfx_app. cbn [andb].
  apply negb_true_iff. destruct (path_eqb P (P ++ tname k :: rest)) eqn:E2; [|reflexivity]. apply path_eqb_eq in E2.
  apply (f_equal (@length str)) in E2. rewrite app_length in E2. cbn in E2. lia.
Qed.

Definition GT (k : tree) : Prop :=
  forall P, wf_t k -> filter (leaf_in (rows_from P k)) (rows_from P k) = lrows P k.

Lemma m2_leaf_rows_f K : Forall GT K -> forall P, wf_f K ->
  filter (leaf_in (frows P K)) (frows P K) = lrows_f P K.
Proof.
  induction K as [|k K IH]; intros HG P Hwf; [reflexivity|]. inversion HG as [|? ? Hk HK]; subst.
  change (k :: K) with ([] ++ k :: K) in Hwf. apply wf_f_mid in Hwf as [Hwk [HwK Hne]]. cbn [app] in HwK, Hne.
  rewrite frows_cons, filter_app. change (lrows_f P (k :: K)) with (lrows P k ++ lrows_f P K). f_equal.
  - rewrite <- (Hk P Hwk). apply filter_ext_in. intros r Hr.
    apply (m2_leaf_in_ctx [] (frows P K) (rows_from P k) (P ++ [tname k]) r).
    + intros r' Hr'. cbn [app] in Hr'. change (P ++ [tname k]) with (P ++ tname k :: []).
      eapply frows_other_not_under; [|exact Hr']. exact Hne.
    + apply (rows_self_under P k r Hr).
  - rewrite <- (IH HK P HwK). apply filter_ext_in. intros r Hr.
    destruct (frows_under P K r Hr) as [k' [rest [Hk' E]]].
    pose proof (m2_leaf_in_ctx (rows_from P k) [] (frows P K) (P ++ [tname k']) r) as Hctx. rewrite !app_nil_r in Hctx.
    apply Hctx.
    + intros r' Hr'. change (P ++ [tname k']) with (P ++ tname k' :: []).
      eapply rows_other_not_under; [|exact Hr']. intros E2. apply (Hne k' Hk'). symmetry. exact E2.
    + rewrite E. change (tname k' :: rest) with ([tname k'] ++ rest). rewrite app_assoc. apply pfx_app.
Qed.

Lemma m2_leaf_rows_t k : GT k.
Proof.
  induction k as [g n a ks IH] using tree_ind'. intros P Hwf. rewrite m2_lrows_eq, rows_from_eq. cbn [tname ttag tattrs tkids].
  set (rk := (P ++ [n], g, a)). cbn [filter].
  destruct ks as [|k0 ks0].
  - cbn [frows flat_map]. unfold leaf_in. cbn [existsb rpath fst rk].
    unfold sunder. cbn [rpath fst]. rewrite pfx_refl, path_eqb_refl. reflexivity.
  - change (is_leaf (T g n a (k0 :: ks0))) with false. cbn iota.
    replace (leaf_in (rk :: frows (P ++ [n]) (k0 :: ks0)) rk) with false.
    2: { symmetry. unfold leaf_in. apply negb_false_iff. cbn [existsb]. apply orb_true_iff. right.
         rewrite frows_cons, existsb_app'. apply orb_true_iff. left.
         rewrite rows_from_eq. cbn [existsb]. apply orb_true_iff. left.
         apply (m2_sunder_child (P ++ [n]) k0). rewrite rows_from_eq. left. reflexivity. }
    rewrite <- (m2_leaf_rows_f (k0 :: ks0) IH (P ++ [n]) (wf_t_kids _ Hwf)). apply filter_ext_in. intros r Hr.
    destruct (frows_under _ _ r Hr) as [k' [rest [Hk' E]]].
    pose proof (m2_leaf_in_ctx [rk] [] (frows (P ++ [n]) (k0 :: ks0)) ((P ++ [n]) ++ [tname k']) r) as Hctx.
    rewrite !app_nil_r in Hctx. apply Hctx.
    + intros r' [<-|[]]. unfold under. cbn [rpath fst rk]. apply pfx_long. rewrite !app_length. cbn [length]. lia.
    + rewrite E. change (tname k' :: rest) with ([tname k'] ++ rest). rewrite app_assoc. apply pfx_app.
Qed.

(* dropping the leaf rows = the rows of the pruned forest *)
Lemma m2_path_hit_ctx L1 L2 Y Pk r :
  (forall x, In x (L1 ++ L2) -> under Pk x = false) -> pfx Pk (rpath r) = true ->
  existsb (fun x => path_eqb (rpath x) (rpath r)) (L1 ++ Y ++ L2) = existsb (fun x => path_eqb (rpath x) (rpath r)) Y.
Proof.
  intros Hc Hr. rewrite !existsb_app'.
  assert (Hno : forall x, In x (L1 ++ L2) -> path_eqb (rpath x) (rpath r) = false).
  { intros x Hx. destruct (path_eqb (rpath x) (rpath r)) eqn:E; [|reflexivity]. apply path_eqb_eq in E.
    specialize (Hc x Hx). unfold under in Hc. rewrite E in Hc. congruence. }
  rewrite (existsb_false _ L1) by (intros x Hx; apply Hno; apply in_or_app; left; exact Hx).
  rewrite (existsb_false _ L2) by (intros x Hx; apply Hno; apply in_or_app; right; exact Hx).
  rewrite orb_false_r. reflexivity.
Qed.

Definition HT (k : tree) : Prop :=
  forall P, wf_t k -> minus_rows (rows_from P k) (lrows P k) = if is_leaf k then [] else rows_from P (prune k).

Lemma m2_minus_rows_app a b rs : minus_rows (a ++ b) rs = minus_rows a rs ++ minus_rows b rs.
Proof. unfold minus_rows. apply filter_app. Qed.

Lemma m2_drop_leaf_rows_f K : Forall HT K -> forall P, wf_f K ->
  minus_rows (frows P K) (lrows_f P K) = frows P (prune_f K).
Proof.
  induction K as [|k K IH]; intros HH P Hwf; [reflexivity|]. inversion HH as [|? ? Hk HK]; subst.
  change (k :: K) with ([] ++ k :: K) in Hwf. apply wf_f_mid in Hwf as [Hwk [HwK Hne]]. cbn [app] in HwK, Hne.
  rewrite frows_cons, m2_minus_rows_app. change (lrows_f P (k :: K)) with (lrows P k ++ lrows_f P K).
  assert (E1 : minus_rows (rows_from P k) (lrows P k ++ lrows_f P K) = minus_rows (rows_from P k) (lrows P k)).
  { unfold minus_rows. apply filter_ext_in. intros r Hr. f_equal.
    pose proof (m2_path_hit_ctx [] (lrows_f P K) (lrows P k) (P ++ [tname k]) r) as Hctx. cbn [app] in Hctx. apply Hctx.
    - intros x Hx. destruct (m2_lrows_f_under P K x Hx) as [k' [rest [Hk' E]]].
      eapply m2_not_under_other; [|exact E]. apply Hne. exact Hk'.
    - apply (rows_self_under P k r Hr). }
  assert (E2 : minus_rows (frows P K) (lrows P k ++ lrows_f P K) = minus_rows (frows P K) (lrows_f P K)).
  { unfold minus_rows. apply filter_ext_in. intros r Hr. f_equal.
    destruct (frows_under P K r Hr) as [k' [rest [Hk' E]]].
    pose proof (m2_path_hit_ctx (lrows P k) [] (lrows_f P K) (P ++ [tname k']) r) as Hctx. rewrite !app_nil_r in Hctx.
    apply Hctx.
    - intros x Hx. destruct (m2_lrows_under k P x Hx) as [rest' E'].
      eapply m2_not_under_other; [|exact E']. intros E2. apply (Hne k' Hk'). symmetry. exact E2.
    - rewrite E. change (tname k' :: rest) with ([tname k'] ++ rest). rewrite app_assoc. apply pfx_app. }
  rewrite E1, E2, (Hk P Hwk), (IH HK P HwK). cbn [prune_f]. destruct (is_leaf k); reflexivity.
Qed.

Lemma m2_drop_leaf_rows_t k : HT k.
Proof.
  induction k as [g n a ks IH] using tree_ind'. intros P Hwf. rewrite m2_lrows_eq. cbn [tname ttag tattrs tkids].
  destruct ks as [|k0 ks0].
  - cbn [is_leaf tkids rows_from flat_map]. unfold minus_rows. cbn [filter existsb rpath fst]. rewrite path_eqb_refl.
    reflexivity.
  - change (is_leaf (T g n a (k0 :: ks0))) with false. cbn iota.
    rewrite m2_prune_eq, (rows_from_eq P (set_kids _ _)), tname_set_kids, ttag_set_kids, tattrs_set_kids, tkids_set_kids.
    rewrite rows_from_eq. cbn [tname ttag tattrs tkids].
    set (rk := (P ++ [n], g, a)). set (K := k0 :: ks0) in *.
    change (rk :: frows (P ++ [n]) K) with ([rk] ++ frows (P ++ [n]) K). rewrite m2_minus_rows_app.
    rewrite (m2_drop_leaf_rows_f K IH (P ++ [n]) (wf_t_kids _ Hwf)). cbn [app]. f_equal.
    unfold minus_rows. cbn [filter]. rewrite existsb_false; [reflexivity|].
    intros x Hx. destruct (m2_lrows_f_under _ _ x Hx) as [k' [rest [_ E]]]. cbn [rpath fst rk].
    destruct (path_eqb (rpath x) (P ++ [n])) eqn:E2; [|reflexivity]. apply path_eqb_eq in E2. rewrite E in E2.
    apply (f_equal (@length str)) in E2. rewrite !app_length in E2. cbn in E2. lia.
Qed.

Lemma m2_all_GT K : Forall GT K.
Proof. apply Forall_forall. intros k _. apply m2_leaf_rows_t. Qed.
Lemma m2_all_HT K : Forall HT K.
Proof. apply Forall_forall. intros k _. apply m2_drop_leaf_rows_t. Qed.

(* the decomposition of the table of t around the children block of the node at p *)
Lemma m2_rows_ctx t p x PX :
  wf_t t -> p <> [] -> tget t p = Some x -> tpath t p = Some PX ->
  exists A B, rows t = A ++ frows PX (tkids x) ++ B
              /\ (forall ks, rows (t_setk p ks t) = A ++ frows PX ks ++ B)
              /\ (forall r c, In r (A ++ B) -> under (PX ++ [c]) r = false).
Proof.
  intros Hwf Hp Hx HPX. destruct (rows_setk_ctx t p PX Hwf HPX) as [A [B [Hctx Hout]]].
  assert (Hks : fkids p (tkids t) = Some (tkids x)).
  { rewrite fkids_fget by exact Hp. unfold tget in Hx. rewrite Hx. reflexivity. }
  exists A, B. split; [|split; [exact Hctx|exact Hout]].
  rewrite <- (t_setk_id p t _ Hks) at 1. apply Hctx.
Qed.

(* the rows Spec.edit_cs calls `leafs` *)
Lemma m2_spec_leafs t p x PX :
  wf_t t -> p <> [] -> tget t p = Some x -> tpath t p = Some PX -> is_leaf x = false ->
  filter (leaf_in (rows t)) (sub_rows (rows t) PX) = lrows_f PX (tkids x).
Proof.
  intros Hwf Hp Hx HPX Hl. destruct (t_sub_rows t p x PX Hwf Hp Hx HPX) as [P0 [HP0 Hsub]].
  destruct (m2_rows_ctx t p x PX Hwf Hp Hx HPX) as [A [B [Hrows [_ Hout]]]].
  assert (Hwfx : wf_t x) by (apply (wf_tget t p x Hwf Hx)).
  rewrite Hsub, rows_from_eq, <- HP0. cbn [filter].
  replace (leaf_in (rows t) (PX, ttag x, tattrs x)) with false.
  - rewrite <- (m2_leaf_rows_f (tkids x) (m2_all_GT _) PX (wf_t_kids _ Hwfx)). apply filter_ext_in. intros r Hr.
    destruct (frows_under _ _ r Hr) as [k' [rest [Hk' E]]]. rewrite Hrows.
    apply (m2_leaf_in_ctx A B (frows PX (tkids x)) (PX ++ [tname k']) r).
    + intros r' Hr'. apply Hout. exact Hr'.
    + rewrite E. change (tname k' :: rest) with ([tname k'] ++ rest). rewrite app_assoc. apply pfx_app.
  - symmetry. unfold leaf_in. apply negb_false_iff. cbn [rpath fst].
    unfold is_leaf in Hl. destruct (tkids x) as [|k0 ks0] eqn:EK; [discriminate|].
    apply (existsb_true _ _ (PX ++ [tname k0], ttag k0, tattrs k0)).
    + rewrite Hrows. apply in_or_app. right. apply in_or_app. left. rewrite frows_cons, rows_from_eq. left. reflexivity.
    + apply (m2_sunder_child PX k0). rewrite rows_from_eq. left. reflexivity.
Qed.

(* dropping them from the table of a tree = pruning the children of the node *)
Lemma m2_rows_pruned t p x PX :
  wf_t t -> p <> [] -> tget t p = Some x -> tpath t p = Some PX ->
  minus_rows (rows t) (lrows_f PX (tkids x)) = rows (t_setk p (prune_f (tkids x)) t).
Proof.
  intros Hwf Hp Hx HPX. destruct (m2_rows_ctx t p x PX Hwf Hp Hx HPX) as [A [B [Hrows [Hctx Hout]]]].
  assert (Hwfx : wf_t x) by (apply (wf_tget t p x Hwf Hx)).
  assert (Hkeep : forall C, (forall r, In r C -> In r (A ++ B)) -> minus_rows C (lrows_f PX (tkids x)) = C).
  { intros C HC. unfold minus_rows. apply filter_all. intros r Hr. apply negb_true_iff. apply existsb_false. intros y Hy.
    destruct (m2_lrows_f_under _ _ y Hy) as [k [rest [_ E]]].
    destruct (path_eqb (rpath y) (rpath r)) eqn:E2; [|reflexivity]. apply path_eqb_eq in E2.
    pose proof (Hout r (tname k) (HC r Hr)) as Hu. unfold under in Hu. rewrite <- E2, E in Hu.
    change (tname k :: rest) with ([tname k] ++ rest) in Hu. rewrite app_assoc, pfx_app in Hu. discriminate. }
  rewrite Hrows at 1. rewrite !m2_minus_rows_app.
  rewrite (Hkeep A) by (intros r Hr; apply in_or_app; left; exact Hr).
  rewrite (Hkeep B) by (intros r Hr; apply in_or_app; right; exact Hr).
  rewrite (m2_drop_leaf_rows_f (tkids x) (m2_all_HT _) PX (wf_t_kids _ Hwfx)). symmetry. apply Hctx.
Qed.

Definition lvp_f (P : list str) (K : list tree) : list (list str * tree) := flat_map (lvp P) K.

Lemma m2_lrows_f_lvp P K : lrows_f P K = map lrow (lvp_f P K).
Proof.
  unfold lrows_f, lvp_f, lrows. induction K as [|k K IH]; [reflexivity|]. cbn [flat_map]. rewrite map_app, IH. reflexivity.
Qed.

Lemma m2_lvp_f_snd P K : map snd (lvp_f P K) = lvs_f K.
Proof.
  unfold lvp_f, lvs_f. induction K as [|k K IH]; [reflexivity|]. cbn [flat_map]. rewrite map_app, m2_lvp_snd, IH. reflexivity.
Qed.

(* the leaves Spec.edit_cs attaches: one single-row item per leaf; fresh = copies *)
Definition ml_kids (cp : bool) (x : tree) : list tree := if cp then map retag (lvs x) else lvs x.

Lemma m2_attach_items_leaves Q (fresh : bool) : forall (LP : list (list str * tree)) (tb : table),
  (forall e, In e LP -> tkids (snd e) = []) ->
  (forall e, In e LP -> has tb (Q ++ [tname (snd e)]) = false) ->
  NoDup (map (fun e => tname (snd e)) LP) ->
  attach_items tb Q fresh (map (fun r : row => (length (rpath r), [r])) (map lrow LP))
  = Some (ins_all Q (map (fun e => if fresh then retag (snd e) else snd e) LP) tb).
Proof.
  induction LP as [|e LP IH]; intros tb Hleaf Hhas Hnd; [reflexivity|].
  cbn [map attach_items ins_all fold_left].
  destruct e as [P' l]. destruct l as [g n a ks]. pose proof (Hleaf _ (or_introl eq_refl)) as Hks. cbn [snd tkids] in Hks. subst ks.
  unfold reroot, lrow. cbn [fst snd tname ttag tattrs rpath rtag rattrs map].
  rewrite app_length. cbn [length]. rewrite Nat.add_sub, skipn_app_exact.
  pose proof (Hhas _ (or_introl eq_refl)) as Hh. cbn [snd tname] in Hh. rewrite Hh.
  cbn [map] in Hnd. inversion Hnd as [|? ? Hnotin Hnd']; subst. cbn [snd tname] in Hnotin.
  assert (Hrest : forall k0, tname k0 = n -> forall e, In e LP -> has (insert_last tb Q (rows_from Q k0)) (Q ++ [tname (snd e)]) = false).
  { intros k0 Hk0 e He. rewrite has_insert_last, (Hhas e (or_intror He)), has_rows_child, Hk0. cbn [orb].
    apply str_eqb_neq. intros E. apply Hnotin. rewrite E. apply in_map_iff. exists e. split; [reflexivity|exact He]. }
  destruct fresh.
  - apply (IH (insert_last tb Q (rows_from Q (retag (T g n a []))))); [intros e He; apply Hleaf; right; exact He| |exact Hnd'].
    apply Hrest. reflexivity.
  - apply (IH (insert_last tb Q (rows_from Q (T g n a [])))); [intros e He; apply Hleaf; right; exact He| |exact Hnd'].
    apply Hrest. reflexivity.
Qed.

Lemma m2_leaf_items Q (cp : bool) x PX (tb : table) :
  is_leaf x = false ->
  (forall l, In l (lvs x) -> has tb (Q ++ [tname l]) = false) -> NoDup (map tname (lvs x)) ->
  attach_items tb Q cp (map (fun r : row => (length (rpath r), [r])) (lrows_f PX (tkids x)))
  = Some (ins_all Q (ml_kids cp x) tb).
Proof.
  intros Hl Hhas Hnd. rewrite m2_lvs_eq, Hl in Hhas, Hnd. rewrite m2_lrows_f_lvp.
  rewrite (m2_attach_items_leaves Q cp (lvp_f PX (tkids x)) tb).
  - f_equal. f_equal. unfold ml_kids. rewrite m2_lvs_eq, Hl, <- (m2_lvp_f_snd PX (tkids x)).
    destruct cp; [rewrite map_map|]; reflexivity.
  - intros e He. apply (m2_lvs_leaf (T None [] [] (tkids x))). cbn [lvs].
    assert (Hin : In (snd e) (lvs_f (tkids x))) by (rewrite <- (m2_lvp_f_snd PX); apply in_map; exact He).
    unfold is_leaf in Hl. destruct (tkids x); [discriminate|exact Hin].
  - intros e He. apply Hhas. rewrite <- (m2_lvp_f_snd PX). apply in_map. exact He.
  - rewrite <- (m2_lvp_f_snd PX), map_map in Hnd. exact Hnd.
Qed.

(* ============================================================================================== *)
(* Part F.  merge_leaves at the level of one resolved pair (cs_core) and Spec.edit_cs               *)

Definition ml_table (cp : bool) (tb leafs : table) : table := if cp then tb else minus_rows tb leafs.

Lemma m2_has_ml_table cp tb leafs P : has tb P = false -> has (ml_table cp tb leafs) P = false.
Proof. intros H. destruct cp; [exact H|]. unfold ml_table, minus_rows. apply has_filter_false. exact H. Qed.

Lemma m2_subseq_ml_table cp a b leafs : subseq a b -> subseq (ml_table cp a leafs) (ml_table cp b leafs).
Proof. intros H. destruct cp; [exact H|]. unfold ml_table, minus_rows. apply subseq_filter_mono. exact H. Qed.

(* the attach step for shift (cp = false) and copy (cp = true) in one statement, in table form *)
Lemma m2_attach_ml c (cp : bool) t1 rest0 p q x PX Q :
  c_copy c = cp -> f_ml (c_fl c) = true -> wf_t t1 -> p <> [] -> tget t1 p = Some x -> is_leaf x = false ->
  tpath t1 p = Some PX -> tpath t1 q = Some Q -> is_prefix p q = false ->
  (forall l, In l (lvs x) -> has (rows t1) (Q ++ [tname l]) = false) -> NoDup (map tname (lvs x)) ->
  exists t2 rest,
    attach c false (t1 :: rest0) (0 :: p) (Some (0 :: q)) = (t2 :: rest, None)
    /\ rows t2 = ins_all Q (ml_kids cp x) (ml_table cp (rows t1) (lrows_f PX (tkids x)))
    /\ wf_t t2 /\ (cp = false -> rest = rest0).
Proof.
  intros Hc Hml Hwf Hp Hx Hl HPX HQ Hpq Hhas Hnd. destruct cp.
  - destruct (m2_attach_ml_copy c t1 rest0 p q x Q Hc Hml Hwf Hp Hx Hl HQ Hhas Hnd) as [Ha [Hr Hw]].
    eexists. eexists. split; [exact Ha|]. split; [exact Hr|]. split; [exact Hw|discriminate].
  - destruct (m2_attach_ml_shift c t1 rest0 p q x Q Hc Hml Hwf Hp Hx Hl HQ Hpq Hhas Hnd) as [Ha [Hr Hw]].
    eexists. eexists. split; [exact Ha|]. split; [|split; [exact Hw|reflexivity]].
    rewrite Hr. unfold ml_table, ml_kids. rewrite (m2_rows_pruned t1 p x PX Hwf Hp Hx HPX). reflexivity.
Qed.

Lemma m2_is_leaf_false x : tkids x <> [] -> is_leaf x = false.
Proof. unfold is_leaf. destruct (tkids x); [congruence|reflexivity]. Qed.

(* merge_leaves, destination ABSENT (created), source subtree of any depth, shift_nodes (cp = false: the leaves are
   the same objects, the source node keeps its pruned skeleton) and copy_nodes (cp = true: fresh copies of the leaves,
   the tree loses nothing) *)
Theorem C08_merge_leaves_deep_stmt (cp : bool) sep tsep fl t p x comps PX :
  f_mc fl = false -> f_ml fl = true -> wf_t t ->
  p <> [] -> tget t p = Some x -> tpath t p = Some PX -> tkids x <> [] ->
  (forall cc, In cc comps -> cc <> []) ->
  pfx PX (tname t :: comps) = false ->
  has (rows t) ((tname t :: comps) ++ [tname x]) = false ->
  (forall l, In l (lvs x) -> has (rows t) ((tname t :: comps) ++ [tname l]) = false) ->
  NoDup (map tname (lvs x)) ->
  exists t2 rest,
    cs_core (cfg_same cp sep tsep fl) [t] (0 :: p) (TNew comps) = (t2 :: rest, None)
    /\ rows t2 = ins_all (tname t :: comps) (ml_kids cp x)
                         (ml_table cp (ensure (rows t) [tname t] comps) (lrows_f PX (tkids x)))
    /\ edit_cs cp true fl (rows t) (rows t) PX (Some ((tname t :: comps) ++ [tname x])) = PNext (rows t2) (rows t2)
    /\ subseq (ml_table cp (rows t) (lrows_f PX (tkids x))) (rows t2)
    /\ (cp = false -> rest = []).
Proof.
  intros Hmc Hml Hwf Hp Hx HPX HKne Hne Hnotin Habs Hkabs Hnd. set (Q := tname t :: comps) in *.
  set (c := cfg_same cp sep tsep fl).
  pose proof (m2_is_leaf_false x HKne) as Hl.
  destruct (add_walk_spec comps [t] [0] [] [tname t] (wf_f_single _ Hwf) ltac:(discriminate) eq_refl Hne)
    as [f' [q [Ha [Hwf' [Hlen [Hrows [Hq [Hpre [Hfr1 Hfr2]]]]]]]]].
  destruct (forest1 f' Hlen) as [t1 ->].
  destruct q as [|q0 q]; [discriminate|]. cbn [is_prefix] in Hpre. rewrite andb_true_r in Hpre.
  apply Nat.eqb_eq in Hpre. subst q0.
  assert (Hwf1 : wf_t t1) by (destruct Hwf' as [_ Hf]; inversion Hf; assumption).
  assert (Hr1 : rows t1 = ensure (rows t) [tname t] comps).
  { unfold frows in Hrows. cbn [flat_map] in Hrows. rewrite !app_nil_r in Hrows. exact Hrows. }
  assert (HQ1 : tpath t1 q = Some Q) by exact Hq.
  assert (HPX1 : tpath t1 p = Some PX) by exact (Hfr2 (0 :: p) PX HPX).
  assert (Hpq : is_prefix p q = false).
  { destruct (is_prefix p q) eqn:E; [|reflexivity].
    rewrite (fpath_prefix_mono _ _ _ _ _ _ E HPX1 HQ1) in Hnotin. discriminate. }
  assert (Hx1 : tget t1 p = Some x).
  { unfold tget. rewrite <- (fget_cons0 p t1 []) by exact Hp. apply Hfr1.
    - rewrite is_prefix_cons. cbn. exact Hpq.
    - rewrite fget_cons0 by exact Hp. exact Hx. }
  assert (Hlong : forall n0, length [tname t] + length comps < length (Q ++ [n0])).
  { intros n0. unfold Q. rewrite app_length. cbn [length]. unfold str. lia. }
  assert (Hkabs1 : forall l, In l (lvs x) -> has (rows t1) (Q ++ [tname l]) = false).
  { intros l Hin. rewrite Hr1, has_ensure_long; [apply Hkabs; exact Hin|apply Hlong]. }
  destruct (m2_attach_ml c cp t1 [] p q x PX Q eq_refl Hml Hwf1 Hp Hx1 Hl HPX1 HQ1 Hpq Hkabs1 Hnd)
    as [t2 [rest [Hatt [Hrows2 [_ Hrest]]]]].
  rewrite Hr1 in Hrows2.
  exists t2, rest. split; [|split; [exact Hrows2|split; [|split; [|exact Hrest]]]].
  - unfold cs_core. change (dpiece c) with 0. rewrite Ha. change (f_mc (c_fl c)) with (f_mc fl). rewrite Hmc. exact Hatt.
  - rewrite Hrows2.
    destruct (t_sub_rows t p x PX Hwf Hp Hx HPX) as [P0 [HP0 Hsub]].
    destruct (tpath_ext _ _ _ HPX) as [rest0 [HPe Hlen0]].
    assert (Hk2 : Nat.eqb (length PX) 1 = false).
    { apply Nat.eqb_neq. rewrite HPe. cbn [length]. destruct p; [congruence|cbn in Hlen0; lia]. }
    assert (Hneq : PX <> Q ++ [tname x]).
    { intros E. rewrite <- E in Habs. rewrite (t_has_row t p PX Hp HPX) in Habs. discriminate. }
    unfold edit_cs. rewrite Hk2, andb_false_r.
    rewrite removelast_last, !last_last. rewrite HP0 at 1. rewrite last_last, str_eqb_refl. cbn [negb].
    replace (path_eqb (Q ++ [tname x]) PX) with false.
    2: { symmetry. destruct (path_eqb (Q ++ [tname x]) PX) eqn:E; [|reflexivity]. apply path_eqb_eq in E. congruence. }
    rewrite (pfx_snoc_false PX Q (tname x) Hnotin Hneq). cbn [andb]. rewrite Habs.
    replace (Nat.ltb (length (Q ++ [tname x])) 2) with false.
    2: { symmetry. apply Nat.ltb_ge. rewrite app_length. unfold Q. cbn [length]. lia. }
    rewrite Hmc, Hml.
    assert (He : ensure (rows t) [] Q = ensure (rows t) [tname t] comps).
    { unfold Q. cbn [ensure app]. rewrite has_root. reflexivity. }
    rewrite He. fold (sub_rows (rows t) PX). rewrite (m2_spec_leafs t p x PX Hwf Hp Hx HPX Hl).
    fold (ml_table cp (ensure (rows t) [tname t] comps) (lrows_f PX (tkids x))).
    rewrite (m2_leaf_items Q cp x PX _ Hl); [reflexivity| |exact Hnd].
    intros l Hin. apply m2_has_ml_table. rewrite has_ensure_long; [apply Hkabs; exact Hin|apply Hlong].
  - rewrite Hrows2. eapply subseq_trans; [|apply subseq_ins_all]. apply m2_subseq_ml_table. apply subseq_ensure.
Qed.

(* merge_leaves onto a destination node that EXISTS (no overriding), any depth, shift and copy: the leaves (or their
   copies) are appended after the destination's own children *)
Theorem C08_merge_leaves_existing_stmt (cp : bool) sep tsep fl t p d x PX PD :
  f_mc fl = false -> f_ml fl = true -> f_over fl = false -> wf_t t ->
  p <> [] -> tget t p = Some x -> tpath t p = Some PX -> tpath t d = Some PD -> tkids x <> [] ->
  pfx PX PD = false -> last PD [] = tname x ->
  (forall l, In l (lvs x) -> has (rows t) (PD ++ [tname l]) = false) ->
  NoDup (map tname (lvs x)) ->
  exists t2 rest,
    cs_core (cfg_same cp sep tsep fl) [t] (0 :: p) (TNode (0 :: d)) = (t2 :: rest, None)
    /\ rows t2 = ins_all PD (ml_kids cp x) (ml_table cp (rows t) (lrows_f PX (tkids x)))
    /\ edit_cs cp true fl (rows t) (rows t) PX (Some PD) = PNext (rows t2) (rows t2)
    /\ subseq (ml_table cp (rows t) (lrows_f PX (tkids x))) (rows t2)
    /\ (cp = false -> rest = []).
Proof.
  intros Hmc Hml Hov Hwf Hp Hx HPX HPD HKne Hnotin Hlast Hkabs Hnd.
  set (c := cfg_same cp sep tsep fl).
  pose proof (m2_is_leaf_false x HKne) as Hl.
  assert (Hpd : is_prefix p d = false) by (eapply not_pfx_not_prefix; eassumption).
  destruct (m2_attach_ml c cp t [] p d x PX PD eq_refl Hml Hwf Hp Hx Hl HPX HPD Hpd Hkabs Hnd)
    as [t2 [rest [Hatt [Hrows2 [_ Hrest]]]]].
  exists t2, rest. split; [|split; [exact Hrows2|split; [|split; [|exact Hrest]]]].
  - unfold cs_core. rewrite more_ref_neq.
    2: { intros E. subst d. rewrite is_prefix_refl in Hpd. discriminate. }
    change (f_mc (c_fl c)) with (f_mc fl). change (f_ml (c_fl c)) with (f_ml fl).
    change (f_over (c_fl c)) with (f_over fl). rewrite Hmc, Hml, Hov. cbn [negb]. exact Hatt.
  - rewrite Hrows2.
    destruct (t_sub_rows t p x PX Hwf Hp Hx HPX) as [P0 [HP0 Hsub]].
    destruct (tpath_ext _ _ _ HPX) as [rest0 [HPe Hlen0]].
    assert (Hk2 : Nat.eqb (length PX) 1 = false).
    { apply Nat.eqb_neq. rewrite HPe. cbn [length]. destruct p; [congruence|cbn in Hlen0; lia]. }
    unfold edit_cs. rewrite Hk2, andb_false_r.
    rewrite HP0 at 1. rewrite last_last, Hlast, str_eqb_refl. cbn [negb].
    replace (path_eqb PD PX) with false.
    2: { symmetry. destruct (path_eqb PD PX) eqn:E; [|reflexivity]. apply path_eqb_eq in E.
         rewrite E, pfx_refl in Hnotin. discriminate. }
    rewrite Hnotin. cbn [andb]. rewrite (t_has_path t d PD HPD). rewrite Hmc, Hml, Hov. cbn [negb andb].
    fold (sub_rows (rows t) PX). rewrite (m2_spec_leafs t p x PX Hwf Hp Hx HPX Hl).
    fold (ml_table cp (rows t) (lrows_f PX (tkids x))).
    rewrite (m2_leaf_items PD cp x PX _ Hl); [reflexivity| |exact Hnd].
    intros l Hin. apply m2_has_ml_table. apply Hkabs. exact Hin.
  - rewrite Hrows2. apply subseq_ins_all.
Qed.

Lemma m2_ref_eqb_refl r : ref_eqb r r = true.
Proof. apply ref_eqb_refl. Qed.

(* from == to with merge_leaves: the leaves of the addressed node (or their copies) become the last children of its
   PARENT; the node itself stays with its pruned skeleton *)
Theorem C08_merge_leaves_same_node_stmt (cp : bool) sep tsep fl t p x PX :
  f_mc fl = false -> f_ml fl = true -> wf_t t ->
  p <> [] -> tget t p = Some x -> tpath t p = Some PX -> tkids x <> [] ->
  (forall l, In l (lvs x) -> has (rows t) (removelast PX ++ [tname l]) = false) ->
  NoDup (map tname (lvs x)) ->
  exists t2 rest,
    cs_core (cfg_same cp sep tsep fl) [t] (0 :: p) (TNode (0 :: p)) = (t2 :: rest, None)
    /\ rows t2 = ins_all (removelast PX) (ml_kids cp x) (ml_table cp (rows t) (lrows_f PX (tkids x)))
    /\ edit_cs cp true fl (rows t) (rows t) PX (Some PX) = PNext (rows t2) (rows t2)
    /\ subseq (ml_table cp (rows t) (lrows_f PX (tkids x))) (rows t2)
    /\ (cp = false -> rest = []).
Proof.
  intros Hmc Hml Hwf Hp Hx HPX HKne Hkabs Hnd.
  set (c := cfg_same cp sep tsep fl).
  pose proof (m2_is_leaf_false x HKne) as Hl.
  assert (Hpq : is_prefix p (removelast p) = false) by (apply is_prefix_removelast_false; exact Hp).
  assert (HQ : tpath t (removelast p) = Some (removelast PX)) by (apply (fpath_removelast p _ _ PX Hp HPX)).
  destruct (m2_attach_ml c cp t [] p (removelast p) x PX (removelast PX) eq_refl Hml Hwf Hp Hx Hl HPX HQ Hpq Hkabs Hnd)
    as [t2 [rest [Hatt [Hrows2 [_ Hrest]]]]].
  exists t2, rest. split; [|split; [exact Hrows2|split; [|split; [|exact Hrest]]]].
  - unfold cs_core. rewrite ref_eqb_refl.
    change (f_mc (c_fl c)) with (f_mc fl). change (f_ml (c_fl c)) with (f_ml fl). rewrite Hmc, Hml.
    assert (Hpar : parent_ref (0 :: p) = Some (0 :: removelast p)).
    { destruct p as [|j p']; [congruence|]. reflexivity. }
    rewrite Hpar. exact Hatt.
  - rewrite Hrows2.
    destruct (tpath_ext _ _ _ HPX) as [rest0 [HPe Hlen0]].
    assert (Hk2 : Nat.eqb (length PX) 1 = false).
    { apply Nat.eqb_neq. rewrite HPe. cbn [length]. destruct p; [congruence|cbn in Hlen0; lia]. }
    unfold edit_cs. rewrite Hk2, andb_false_r. rewrite str_eqb_refl. cbn [negb].
    rewrite path_eqb_refl. cbn [andb]. rewrite Hmc, Hml.
    fold (sub_rows (rows t) PX). rewrite (m2_spec_leafs t p x PX Hwf Hp Hx HPX Hl).
    fold (ml_table cp (rows t) (lrows_f PX (tkids x))).
    rewrite (m2_leaf_items (removelast PX) cp x PX _ Hl); [reflexivity| |exact Hnd].
    intros l Hin. apply m2_has_ml_table. apply Hkabs. exact Hin.
  - rewrite Hrows2. apply subseq_ins_all.
Qed.

(* ============================================================================================== *)
(* Part G.  merge_leaves as whole calls on path strings, with prop_C08 on the model's output        *)

Theorem C08_prop_merge_leaves_absent_stmt a1 o1 a2 o2 (cp : bool) fl t lf lt PX p x comps :
  let Q := tname t :: comps in
  let TX := Q ++ [tname x] in
  Forall (sgood (a1 :: o1)) PX -> Forall (sgood (a2 :: o2)) PX ->
  Forall (sgood (a1 :: o1)) Q -> Forall (sgood (a2 :: o2)) Q ->
  f_full fl = true -> f_mc fl = false -> f_ml fl = true -> wf_t t ->
  p <> [] -> tget t p = Some x -> tpath t p = Some PX -> tkids x <> [] ->
  pfx PX Q = false -> has (rows t) TX = false ->
  (forall l, In l (lvs x) -> has (rows t) (Q ++ [tname l]) = false) -> NoDup (map tname (lvs x)) ->
  let i := sl_in cp fl (a1 :: o1) (a2 :: o2) t lf PX lt TX in
  exists t2 rest, run i = (t2 :: rest, None)
    /\ rows t2 = ins_all Q (ml_kids cp x) (ml_table cp (ensure (rows t) [tname t] comps) (lrows_f PX (tkids x)))
    /\ edit_cs cp true fl (rows t) (rows t) PX (Some TX) = PNext (rows t2) (rows t2)
    /\ prop_C08 i (obs_of i (run i)) None = true.
Proof.
  intros Q TX Hg1 Hg2 Hq1 Hq2 Hfull Hmc Hml Hwf Hp Hx HPX HKne Hnotin Habs Hkabs Hnd i.
  assert (Hne : forall cc, In cc comps -> cc <> []).
  { intros cc Hcc. rewrite Forall_forall in Hq1. destruct (Hq1 cc (or_intror Hcc)) as [H _]. exact H. }
  assert (Hmm : f_mc fl && f_ml fl = false) by (rewrite Hmc; reflexivity).
  destruct (C08_merge_leaves_deep_stmt cp (a1 :: o1) (a2 :: o2) fl t p x comps PX Hmc Hml Hwf Hp Hx HPX HKne Hne Hnotin Habs
              Hkabs Hnd) as [t2 [rest [Hcore [Hrows [Hedit _]]]]].
  destruct (C08_prop_absent_generic_stmt a1 o1 a2 o2 cp fl t lf lt PX p x comps t2 rest
              Hg1 Hg2 Hq1 Hq2 Hfull Hmm Hwf Hp Hx HPX Habs Hcore Hedit) as [Hrun Hprop].
  exists t2, rest. split; [exact Hrun|]. split; [exact Hrows|]. split; [exact Hedit|exact Hprop].
Qed.

Theorem C08_prop_merge_leaves_existing_stmt a1 o1 a2 o2 (cp : bool) fl t lf lt p d x PX PD :
  Forall (sgood (a1 :: o1)) PX -> Forall (sgood (a2 :: o2)) PX ->
  Forall (sgood (a1 :: o1)) PD -> Forall (sgood (a2 :: o2)) PD ->
  f_full fl = true -> f_mc fl = false -> f_ml fl = true -> f_over fl = false -> wf_t t ->
  p <> [] -> tget t p = Some x -> tpath t p = Some PX -> tpath t d = Some PD -> tkids x <> [] ->
  pfx PX PD = false -> last PD [] = tname x ->
  (forall l, In l (lvs x) -> has (rows t) (PD ++ [tname l]) = false) -> NoDup (map tname (lvs x)) ->
  let i := sl_in cp fl (a1 :: o1) (a2 :: o2) t lf PX lt PD in
  exists t2 rest, run i = (t2 :: rest, None)
    /\ rows t2 = ins_all PD (ml_kids cp x) (ml_table cp (rows t) (lrows_f PX (tkids x)))
    /\ edit_cs cp true fl (rows t) (rows t) PX (Some PD) = PNext (rows t2) (rows t2)
    /\ prop_C08 i (obs_of i (run i)) None = true.
Proof.
  intros Hg1 Hg2 Hd1 Hd2 Hfull Hmc Hml Hov Hwf Hp Hx HPX HPD HKne Hnotin Hlast Hkabs Hnd i.
  assert (Hmm : f_mc fl && f_ml fl = false) by (rewrite Hmc; reflexivity).
  destruct (C08_merge_leaves_existing_stmt cp (a1 :: o1) (a2 :: o2) fl t p d x PX PD
              Hmc Hml Hov Hwf Hp Hx HPX HPD HKne Hnotin Hlast Hkabs Hnd) as [t2 [rest [Hcore [Hrows [Hedit _]]]]].
  destruct (C08_prop_existing_generic_stmt a1 o1 a2 o2 cp fl t lf lt PX PD p d x t2 rest
              Hg1 Hg2 Hd1 Hd2 Hfull Hmm Hwf Hp Hx HPX HPD Hlast Hcore Hedit) as [Hrun Hprop].
  exists t2, rest. split; [exact Hrun|]. split; [exact Hrows|]. split; [exact Hedit|exact Hprop].
Qed.

(* from == to with merge_leaves *)
Theorem C08_prop_merge_leaves_same_node_stmt a1 o1 a2 o2 (cp : bool) fl t lf lt p x PX :
  Forall (sgood (a1 :: o1)) PX -> Forall (sgood (a2 :: o2)) PX ->
  f_full fl = true -> f_mc fl = false -> f_ml fl = true -> wf_t t ->
  p <> [] -> tget t p = Some x -> tpath t p = Some PX -> tkids x <> [] ->
  (forall l, In l (lvs x) -> has (rows t) (removelast PX ++ [tname l]) = false) -> NoDup (map tname (lvs x)) ->
  let i := sl_in cp fl (a1 :: o1) (a2 :: o2) t lf PX lt PX in
  exists t2 rest, run i = (t2 :: rest, None)
    /\ rows t2 = ins_all (removelast PX) (ml_kids cp x) (ml_table cp (rows t) (lrows_f PX (tkids x)))
    /\ edit_cs cp true fl (rows t) (rows t) PX (Some PX) = PNext (rows t2) (rows t2)
    /\ prop_C08 i (obs_of i (run i)) None = true.
Proof.
  intros Hg1 Hg2 Hfull Hmc Hml Hwf Hp Hx HPX HKne Hkabs Hnd i.
  assert (Hmm : f_mc fl && f_ml fl = false) by (rewrite Hmc; reflexivity).
  destruct (C08_merge_leaves_same_node_stmt cp (a1 :: o1) (a2 :: o2) fl t p x PX
              Hmc Hml Hwf Hp Hx HPX HKne Hkabs Hnd) as [t2 [rest [Hcore [Hrows [Hedit _]]]]].
  destruct (t_sub_rows t p x PX Hwf Hp Hx HPX) as [P0 [HP0 _]].
  assert (Hlast : last PX [] = tname x) by (rewrite HP0; apply last_last).
  destruct (C08_prop_existing_generic_stmt a1 o1 a2 o2 cp fl t lf lt PX PX p p x t2 rest
              Hg1 Hg2 Hg1 Hg2 Hfull Hmm Hwf Hp Hx HPX HPX Hlast Hcore Hedit) as [Hrun Hprop].
  exists t2, rest. split; [exact Hrun|]. split; [exact Hrows|]. split; [exact Hedit|exact Hprop].
Qed.

(* ============================================================================================== *)
(* Part H.  overriding TOGETHER with merge_leaves onto an existing destination: `del to_node.children` *)
(* (its children become trees of their own), then the leaves are attached to the emptied node.        *)

Lemma m2_has_minus_strict tb P c : has (minus_strict tb P) (P ++ [c]) = false.
Proof.
  unfold has, minus_strict. induction tb as [|r tb IH]; [reflexivity|]. cbn [filter].
  destruct (sunder P r) eqn:E; cbn [negb]; [exact IH|]. cbn [existsb]. rewrite IH, orb_false_r.
  unfold at_path. destruct (path_eqb (P ++ [c]) (rpath r)) eqn:E2; [|reflexivity]. apply path_eqb_eq in E2.
  unfold sunder in E. rewrite <- E2, pfx_app in E. cbn [andb] in E. apply negb_false_iff, path_eqb_eq in E.
  apply (f_equal (@length str)) in E. rewrite app_length in E. cbn in E. lia.
Qed.

Theorem C08_override_merge_leaves_stmt (cp : bool) sep tsep fl t p d x D PX PD :
  f_mc fl = false -> f_ml fl = true -> f_over fl = true -> wf_t t ->
  p <> [] -> tget t p = Some x -> tget t d = Some D -> tpath t p = Some PX -> tpath t d = Some PD -> tkids x <> [] ->
  pfx PX PD = false -> pfx PD PX = false -> last PD [] = tname x ->
  NoDup (map tname (lvs x)) ->
  exists t2 rest,
    cs_core (cfg_same cp sep tsep fl) [t] (0 :: p) (TNode (0 :: d)) = (t2 :: rest, None)
    /\ rows t2 = ins_all PD (ml_kids cp x) (ml_table cp (minus_strict (rows t) PD) (lrows_f PX (tkids x)))
    /\ edit_cs cp true fl (rows t) (rows t) PX (Some PD) = PNext (rows t2) (rows t2)
    /\ subseq (ml_table cp (minus_strict (rows t) PD) (lrows_f PX (tkids x))) (rows t2)
    /\ (cp = false -> rest = tkids D).
Proof.
  intros Hmc Hml Hov Hwf Hp Hx HD HPX HPD HKne Hn1 Hn2 Hlast Hnd.
  set (c := cfg_same cp sep tsep fl).
  pose proof (m2_is_leaf_false x HKne) as Hl.
  assert (Hpd : is_prefix p d = false) by (eapply not_pfx_not_prefix; eassumption).
  assert (Hdp : is_prefix d p = false) by (eapply not_pfx_not_prefix; eassumption).
  assert (Hd : d <> []) by (intros ->; destruct p; [congruence|discriminate]).
  set (s := t_strip d t).
  assert (Hwfs : wf_t s) by (apply wf_t_set_kids, wf_fsetk_nil, wf_t_kids; exact Hwf).
  assert (HPXs : tpath s p = Some PX).
  { unfold tpath, s, t_strip. rewrite tname_set_kids, tkids_set_kids, fpath_fsetk by (left; exact Hdp). exact HPX. }
  assert (HPDs : tpath s d = Some PD).
  { unfold tpath, s, t_strip. rewrite tname_set_kids, tkids_set_kids, fpath_fsetk by (right; reflexivity). exact HPD. }
  assert (Hxs : tget s p = Some x).
  { unfold tget, s, t_strip. rewrite tkids_set_kids, fget_fsetk_other by assumption. exact Hx. }
  assert (Hrs : rows s = minus_strict (rows t) PD) by (apply rows_t_strip; assumption).
  assert (Hhas : forall l, In l (lvs x) -> has (rows s) (PD ++ [tname l]) = false).
  { intros l _. rewrite Hrs. apply m2_has_minus_strict. }
  destruct (m2_attach_ml c cp s (tkids D) p d x PX PD eq_refl Hml Hwfs Hp Hxs Hl HPXs HPDs Hpd Hhas Hnd)
    as [t2 [rest [Hatt [Hrows2 [_ Hrest]]]]].
  rewrite Hrs in Hrows2.
  exists t2, rest. split; [|split; [exact Hrows2|split; [|split; [|exact Hrest]]]].
  - unfold cs_core. rewrite more_ref_neq.
    2: { intros E. subst d. rewrite is_prefix_refl in Hpd. discriminate. }
    change (f_mc (c_fl c)) with (f_mc fl). change (f_ml (c_fl c)) with (f_ml fl).
    change (f_over (c_fl c)) with (f_over fl). rewrite Hmc, Hml, Hov. cbn [negb].
    unfold del_children. rewrite fkids_cons0.
    assert (Hks : fkids d (tkids t) = Some (tkids D)).
    { rewrite fkids_fget by exact Hd. unfold tget in HD. rewrite HD. reflexivity. }
    rewrite Hks.
    destruct (del_children_go_spec (nroots c) (tkids D) t [] d [] (fun z => z) Hd (ex_intro _ PD HPD)) as [trk' Hgo].
    pose proof (del_children_go_track (nroots c) (tkids D) t [] d [] (fun z => z) trk' Hd (ex_intro _ PD HPD) Hgo) as Htrk.
    rewrite (fsetk_id d _ _ Hks), set_kids_id in Hgo. cbn [app] in Hgo.
    match goal with |- context [del_children_go ?a ?b ?c0 ?e ?g] =>
      replace (del_children_go a b c0 e g) with (MvOk (s :: tkids D) trk') by (symmetry; exact Hgo) end.
    rewrite (Htrk p (or_introl Hdp) eq_refl), (Htrk d (or_intror eq_refl) eq_refl). exact Hatt.
  - rewrite Hrows2.
    destruct (t_sub_rows t p x PX Hwf Hp Hx HPX) as [P0 [HP0 Hsub]].
    destruct (tpath_ext _ _ _ HPX) as [rest0 [HPe Hlen0]].
    assert (Hk2 : Nat.eqb (length PX) 1 = false).
    { apply Nat.eqb_neq. rewrite HPe. cbn [length]. destruct p; [congruence|cbn in Hlen0; lia]. }
    unfold edit_cs. rewrite Hk2, andb_false_r.
    rewrite HP0 at 1. rewrite last_last, Hlast, str_eqb_refl. cbn [negb].
    replace (path_eqb PD PX) with false.
    2: { symmetry. destruct (path_eqb PD PX) eqn:E; [|reflexivity]. apply path_eqb_eq in E.
         rewrite E, pfx_refl in Hn1. discriminate. }
    rewrite Hn1. cbn [andb]. rewrite (t_has_path t d PD HPD). rewrite Hmc, Hml, Hov. cbn [negb andb].
    fold (sub_rows (rows t) PX). rewrite (m2_spec_leafs t p x PX Hwf Hp Hx HPX Hl).
    fold (ml_table cp (minus_strict (rows t) PD) (lrows_f PX (tkids x))).
    rewrite (m2_leaf_items PD cp x PX _ Hl); [reflexivity| |exact Hnd].
    intros l Hin. apply m2_has_ml_table. apply m2_has_minus_strict.
  - rewrite Hrows2. apply subseq_ins_all.
Qed.

Theorem C08_prop_override_merge_leaves_stmt a1 o1 a2 o2 (cp : bool) fl t lf lt p d x D PX PD :
  Forall (sgood (a1 :: o1)) PX -> Forall (sgood (a2 :: o2)) PX ->
  Forall (sgood (a1 :: o1)) PD -> Forall (sgood (a2 :: o2)) PD ->
  f_full fl = true -> f_mc fl = false -> f_ml fl = true -> f_over fl = true -> wf_t t ->
  p <> [] -> tget t p = Some x -> tget t d = Some D -> tpath t p = Some PX -> tpath t d = Some PD -> tkids x <> [] ->
  pfx PX PD = false -> pfx PD PX = false -> last PD [] = tname x -> NoDup (map tname (lvs x)) ->
  let i := sl_in cp fl (a1 :: o1) (a2 :: o2) t lf PX lt PD in
  exists t2 rest, run i = (t2 :: rest, None)
    /\ rows t2 = ins_all PD (ml_kids cp x) (ml_table cp (minus_strict (rows t) PD) (lrows_f PX (tkids x)))
    /\ edit_cs cp true fl (rows t) (rows t) PX (Some PD) = PNext (rows t2) (rows t2)
    /\ prop_C08 i (obs_of i (run i)) None = true.
Proof.
  intros Hg1 Hg2 Hd1 Hd2 Hfull Hmc Hml Hov Hwf Hp Hx HD HPX HPD HKne Hn1 Hn2 Hlast Hnd i.
  assert (Hmm : f_mc fl && f_ml fl = false) by (rewrite Hmc; reflexivity).
  destruct (C08_override_merge_leaves_stmt cp (a1 :: o1) (a2 :: o2) fl t p d x D PX PD
              Hmc Hml Hov Hwf Hp Hx HD HPX HPD HKne Hn1 Hn2 Hlast Hnd) as [t2 [rest [Hcore [Hrows [Hedit _]]]]].
  destruct (C08_prop_existing_generic_stmt a1 o1 a2 o2 cp fl t lf lt PX PD p d x t2 rest
              Hg1 Hg2 Hd1 Hd2 Hfull Hmm Hwf Hp Hx HPX HPD Hlast Hcore Hedit) as [Hrun Hprop].
  exists t2, rest. split; [exact Hrun|]. split; [exact Hrows|]. split; [exact Hedit|exact Hprop].
Qed.

(* ============================================================================================== *)
(* Part I.  delete_children TOGETHER with overriding (shift_nodes): the destination node is detached, *)
(* the source node loses its children (they become trees of their own) and the bare node takes the   *)
(* destination's place as last child of the destination's parent.  merge_children may be set as well *)
(* (modify.py:1164 switches it off for a pair with an existing destination and overriding).          *)

Lemma m2_override_dc_base sep tsep fl t p d x D PX PD :
  f_over fl = true -> f_mc fl = false -> f_ml fl = false -> f_dc fl = true -> wf_t t ->
  p <> [] -> d <> [] -> tget t p = Some x -> tget t d = Some D ->
  tpath t p = Some PX -> tpath t d = Some PD ->
  pfx PX PD = false -> pfx PD PX = false -> tname D = tname x ->
  exists t2,
    cs_core (cfg_same false sep tsep fl) [t] (0 :: p) (TNode (0 :: d)) = (t2 :: D :: tkids x, None)
    /\ rows t2 = insert_last (minus (minus (rows t) PD) PX) (removelast PD) [(PD, ttag x, tattrs x)]
    /\ edit_cs false true fl (rows t) (rows t) PX (Some PD) = PNext (rows t2) (rows t2).
Proof.
  intros Hov Hmc Hml Hdc Hwf Hp Hd Hx HD HPX HPD Hn1 Hn2 Hname.
  set (c := cfg_same false sep tsep fl).
  assert (Hpd : is_prefix p d = false) by (eapply not_pfx_not_prefix; eassumption).
  assert (Hdp : is_prefix d p = false) by (eapply not_pfx_not_prefix; eassumption).
  set (t' := t_remove d t). set (p1 := adj' d p). set (q1 := removelast d). set (PQ := removelast PD).
  assert (Hwf' : wf_t t') by (apply wf_t_remove; exact Hwf).
  assert (HPQ : tpath t q1 = Some PQ) by (apply fpath_removelast; assumption).
  assert (HPX' : tpath t' p1 = Some PX).
  { unfold tpath, t', t_remove. rewrite tname_set_kids, tkids_set_kids. unfold p1.
    unfold tget in HD. rewrite (fpath_adj _ _ _ _ _ HD Hdp). exact HPX. }
  assert (HPQ' : tpath t' q1 = Some PQ).
  { unfold tpath, t', t_remove. rewrite tname_set_kids, tkids_set_kids.
    unfold q1. rewrite <- (adj'_parent d Hd). unfold tget in HD.
    rewrite (fpath_adj _ _ _ _ _ HD (is_prefix_removelast_false d Hd)). exact HPQ. }
  assert (Hx' : tget t' p1 = Some x).
  { unfold tget, t', t_remove. rewrite tkids_set_kids. unfold p1. unfold tget in HD, Hx.
    rewrite (fget_adj _ _ _ _ HD Hdp Hpd). exact Hx. }
  assert (Hp1 : p1 <> []) by (apply adj'_nonempty; exact Hp).
  assert (Hpq1 : is_prefix p1 q1 = false).
  { eapply not_pfx_not_prefix; [exact HPX'|exact HPQ'|].
    destruct (pfx PX PQ) eqn:E; [|reflexivity].
    rewrite (pfx_trans _ _ _ E (removelast_pfx PD)) in Hn1. discriminate. }
  destruct (fget_rows _ _ _ _ _ (wf_t_kids _ Hwf) HD HPD) as [P0d [HP0d _]].
  assert (HPDe : PD = PQ ++ [tname x]).
  { unfold PQ. rewrite HP0d, removelast_last, Hname. reflexivity. }
  set (s' := t_strip p1 t').
  assert (Hwfs : wf_t s') by (apply wf_t_set_kids, wf_fsetk_nil, wf_t_kids; exact Hwf').
  assert (HPQs : tpath s' q1 = Some PQ).
  { unfold tpath, s', t_strip. rewrite tname_set_kids, tkids_set_kids, fpath_fsetk by (left; exact Hpq1). exact HPQ'. }
  assert (HPXs : tpath s' p1 = Some PX).
  { unfold tpath, s', t_strip. rewrite tname_set_kids, tkids_set_kids, fpath_fsetk by (right; reflexivity). exact HPX'. }
  assert (Hrs : rows s' = minus_strict (minus (rows t) PD) PX).
  { unfold s'. rewrite (rows_t_strip t' p1 PX Hwf' Hp1 HPX'). unfold t'. rewrite (rows_t_remove t d PD Hwf Hd HPD). reflexivity. }
  destruct (fkids_of_fpath _ _ _ _ HPQs) as [kq Hkq].
  assert (Hfresh : forall k, In k kq -> tname k <> tname x).
  { apply existsb_name_iff. rewrite <- (t_has_child s' q1 PQ kq (tname x) Hwfs HPQs Hkq).
    rewrite Hrs, <- HPDe. unfold minus_strict. apply has_filter_false. apply has_minus_self. }
  assert (Hxs : tget s' p1 = Some (set_kids x [])).
  { unfold tget, s', t_strip. rewrite tkids_set_kids. apply fget_fsetk_self. exact Hx'. }
  assert (Hrows2 : rows (t_move p1 q1 (set_kids x []) s')
                   = insert_last (minus (minus (rows t) PD) PX) PQ [(PD, ttag x, tattrs x)]).
  { rewrite (rows_t_move s' p1 q1 (set_kids x []) PX PQ) by assumption.
    rewrite Hrs, minus_minus_strict. rewrite rows_from_eq, tname_set_kids, ttag_set_kids, tattrs_set_kids,
      tkids_set_kids, <- HPDe. reflexivity. }
  exists (t_move p1 q1 (set_kids x []) s'). split; [|split; [exact Hrows2|]].
  - unfold cs_core. rewrite more_ref_neq.
    2: { intros E. subst d. rewrite is_prefix_refl in Hpd. discriminate. }
    change (f_mc (c_fl c)) with (f_mc fl). change (f_ml (c_fl c)) with (f_ml fl).
    change (f_over (c_fl c)) with (f_over fl). rewrite Hmc, Hml, Hov. cbn [negb]. unfold detach_to_parent.
    pose proof (detach_in_tree (nroots c) t [] d D Hd HD) as Hm.
    match goal with |- context [move ?a ?b ?c0 ?e] =>
      replace (move a b c0 e) with (MvOk ((t_remove d t :: []) ++ [D]) (track (0 :: d) [1])) by (symmetry; exact Hm) end.
    cbn [app].
    assert (Hfr1 : track (0 :: d) [1] (0 :: p) = 0 :: p1).
    { unfold track. rewrite is_prefix_cons. cbn [Nat.eqb andb]. rewrite Hdp. apply adj'_cons0; assumption. }
    assert (Htn : option_map (track (0 :: d) [1]) (parent_ref (0 :: d)) = Some (0 :: q1)).
    { destruct d as [|d0 d']; [congruence|]. cbn [parent_ref option_map].
      change (removelast (0 :: d0 :: d')) with (0 :: removelast (d0 :: d')).
      unfold track. rewrite is_prefix_cons. cbn [Nat.eqb andb].
      rewrite (is_prefix_removelast_false (d0 :: d')) by discriminate.
      rewrite adj'_cons0; [|discriminate|apply is_prefix_removelast_false; discriminate].
      rewrite adj'_parent by discriminate. reflexivity. }
    rewrite Hfr1, Htn.
    apply (attach_dc_shift c t' [D] p1 q1 x kq); try assumption.
    + split; assumption || reflexivity.
    + exists PX. exact HPX'.
    + exists PQ. exact HPQs.
  - rewrite Hrows2.
    destruct (t_sub_rows t p x PX Hwf Hp Hx HPX) as [P0 [HP0 Hsub]].
    destruct (tpath_ext _ _ _ HPX) as [rest [HPe Hl]].
    destruct (tpath_ext _ _ _ HPD) as [restd [HPde Hld]].
    assert (Hk : length PX = S (length P0)) by (rewrite HP0, app_length; cbn; lia).
    assert (Hk2 : Nat.eqb (length PX) 1 = false).
    { apply Nat.eqb_neq. rewrite HPe. cbn [length]. destruct p; [congruence|cbn in Hl; lia]. }
    assert (Hkd : Nat.eqb (length PD) 1 = false).
    { apply Nat.eqb_neq. rewrite HPde. cbn [length]. destruct d; [congruence|cbn in Hld; lia]. }
    unfold edit_cs. rewrite Hk2. cbn [negb andb].
    rewrite HP0 at 1. rewrite HP0d at 1. rewrite !last_last, Hname, str_eqb_refl. cbn [negb].
    replace (path_eqb PD PX) with false.
    2: { symmetry. destruct (path_eqb PD PX) eqn:E; [|reflexivity]. apply path_eqb_eq in E.
         rewrite E, pfx_refl in Hn1. discriminate. }
    rewrite Hn1. cbn [andb]. rewrite (t_has_row t d PD Hd HPD).
    rewrite Hmc, Hml, Hov, Hdc, Hkd. cbn [negb andb].
    cbn [attach_items]. unfold reroot. cbn [fst snd].
    rewrite (t_row_at t p x PX Hwf Hp Hx HPX). cbn [map rpath rtag rattrs fst snd].
    rewrite Hk. cbn [Nat.sub]. rewrite Nat.sub_0_r. fold PQ.
    replace (skipn (length P0) PX) with [tname x] by (rewrite HP0, skipn_app_exact; reflexivity).
    rewrite <- HPDe.
    replace (has (minus (minus (rows t) PD) PX) PD) with false.
    2: { symmetry. unfold minus at 1. apply has_filter_false. apply has_minus_self. }
    reflexivity.
Qed.

Theorem C08_override_dc_stmt sep tsep fl t p d x D PX PD :
  f_over fl = true -> f_ml fl = false -> f_dc fl = true -> wf_t t ->
  p <> [] -> d <> [] -> tget t p = Some x -> tget t d = Some D ->
  tpath t p = Some PX -> tpath t d = Some PD ->
  pfx PX PD = false -> pfx PD PX = false -> tname D = tname x ->
  exists t2,
    cs_core (cfg_same false sep tsep fl) [t] (0 :: p) (TNode (0 :: d)) = (t2 :: D :: tkids x, None)
    /\ rows t2 = insert_last (minus (minus (rows t) PD) PX) (removelast PD) [(PD, ttag x, tattrs x)]
    /\ edit_cs false true fl (rows t) (rows t) PX (Some PD) = PNext (rows t2) (rows t2)
    /\ subseq (minus (minus (rows t) PD) PX) (rows t2).
Proof.
  intros Hov Hml Hdc Hwf Hp Hd Hx HD HPX HPD Hn1 Hn2 Hname.
  assert (Hpd : p <> d).
  { intros E. subst d. rewrite HPX in HPD. inversion HPD; subst PD. rewrite pfx_refl in Hn1. discriminate. }
  assert (HE : path_eqb PD PX = false).
  { destruct (path_eqb PD PX) eqn:E; [|reflexivity]. apply path_eqb_eq in E. rewrite E, pfx_refl in Hn1. discriminate. }
  assert (Hov' : f_over (no_mc fl) = true) by (destruct fl; exact Hov).
  assert (Hml' : f_ml (no_mc fl) = false) by (destruct fl; exact Hml).
  assert (Hdc' : f_dc (no_mc fl) = true) by (destruct fl; exact Hdc).
  destruct (m2_override_dc_base sep tsep (no_mc fl) t p d x D PX PD Hov' eq_refl Hml' Hdc' Hwf Hp Hd Hx HD HPX HPD Hn1 Hn2 Hname)
    as [t2 [H1 [H2 H3]]].
  exists t2. split; [|split; [exact H2|split]].
  - rewrite (more_override_mc_core false sep tsep fl [t] (0 :: p) (0 :: d) Hov Hml (more_ref_neq p d Hpd)). exact H1.
  - rewrite (more_override_mc_edit false fl _ _ PX PD Hov Hml (t_has_path t d PD HPD) HE). exact H3.
  - rewrite H2. apply subseq_insert_last.
Qed.

Theorem C08_prop_override_dc_stmt a1 o1 a2 o2 fl t lf lt p d x D PX PD :
  Forall (sgood (a1 :: o1)) PX -> Forall (sgood (a2 :: o2)) PX ->
  Forall (sgood (a1 :: o1)) PD -> Forall (sgood (a2 :: o2)) PD ->
  f_full fl = true -> f_over fl = true -> f_ml fl = false -> f_dc fl = true -> wf_t t ->
  p <> [] -> d <> [] -> tget t p = Some x -> tget t d = Some D ->
  tpath t p = Some PX -> tpath t d = Some PD ->
  pfx PX PD = false -> pfx PD PX = false -> tname D = tname x ->
  let i := sl_in false fl (a1 :: o1) (a2 :: o2) t lf PX lt PD in
  exists t2, run i = (t2 :: D :: tkids x, None)
    /\ rows t2 = insert_last (minus (minus (rows t) PD) PX) (removelast PD) [(PD, ttag x, tattrs x)]
    /\ prop_C08 i (obs_of i (run i)) None = true.
Proof.
  intros Hg1 Hg2 Hd1 Hd2 Hfull Hov Hml Hdc Hwf Hp Hd Hx HD HPX HPD Hn1 Hn2 Hname i.
  destruct (C08_override_dc_stmt (a1 :: o1) (a2 :: o2) fl t p d x D PX PD
              Hov Hml Hdc Hwf Hp Hd Hx HD HPX HPD Hn1 Hn2 Hname) as [t2 [Hcore [Hrows [Hedit _]]]].
  assert (Hmm : f_mc fl && f_ml fl = false) by (rewrite Hml; apply andb_false_r).
  destruct (t_sub_rows t d D PD Hwf Hd HD HPD) as [P1 [HP1 _]].
  assert (Hlast : last PD [] = tname x) by (rewrite HP1, last_last; exact Hname).
  destruct (C08_prop_existing_generic_stmt a1 o1 a2 o2 false fl t lf lt PX PD p d x t2 (D :: tkids x)
              Hg1 Hg2 Hd1 Hd2 Hfull Hmm Hwf Hp Hx HPX HPD Hlast Hcore Hedit) as [Hrun Hprop].
  exists t2. split; [exact Hrun|]. split; [exact Hrows|exact Hprop].
Qed.

(* the guard of Props/C08.v's C08_merge_leaves_partial is the special case "every child is a leaf" *)
Lemma m2_lvs_flat x : tkids x <> [] -> Forall (fun k => tkids k = []) (tkids x) -> lvs x = tkids x.
Proof.
  intros Hne Hl. rewrite m2_lvs_eq, (m2_is_leaf_false x Hne). unfold lvs_f.
  induction (tkids x) as [|k ks IH]; [reflexivity|]. inversion Hl as [|? ? Hk Hl']; subst. cbn [flat_map].
  rewrite m2_lvs_eq. unfold is_leaf. rewrite Hk. cbn [app]. f_equal. destruct ks as [|k' ks']; [reflexivity|].
  apply IH; [discriminate|exact Hl'].
Qed.

(* ============================================================================================== *)
(* Part J.  tree-to-tree: copy_nodes_from_tree_to_tree with merge_leaves onto an existing node of     *)
(* the destination tree (piece 1); the source tree (piece 0) is untouched                            *)

Lemma m2_fapp_all_cons1 q : forall L (a t : tree) rest, fapp_all (1 :: q) L (a :: t :: rest) = a :: app_all q L t :: rest.
Proof.
  induction L as [|k L IH]; intros a t rest; [reflexivity|]. rewrite m2_fapp_all_cons, m2_app_all_cons, <- IH. reflexivity.
Qed.

Theorem C08_tt_merge_leaves_existing_stmt c s dt p d x PX PD :
  tt_cfg c -> f_mc (c_fl c) = false -> f_ml (c_fl c) = true -> f_over (c_fl c) = false ->
  wf_t s -> wf_t dt -> p <> [] -> tget s p = Some x -> tpath s p = Some PX -> tpath dt d = Some PD -> tkids x <> [] ->
  (forall l, In l (lvs x) -> has (rows dt) (PD ++ [tname l]) = false) -> NoDup (map tname (lvs x)) ->
  let L := map retag (lvs x) in
  let t2 := app_all d L dt in
  (exists rest, cs_core c [s; dt] (0 :: p) (TNode (1 :: d)) = (s :: t2 :: rest, None))
  /\ rows t2 = ins_all PD L (rows dt)
  /\ (last PD [] = tname x ->
      edit_cs true false (c_fl c) (rows s) (rows dt) PX (Some PD) = PNext (rows s) (rows t2))
  /\ subseq (rows dt) (rows t2).
Proof.
  intros [Hc Htwo] Hmc Hml Hov Hwfs Hwfd Hp Hx HPX HPD HKne Hhas Hnd L t2.
  pose proof (m2_is_leaf_false x HKne) as Hl.
  destruct (fkids_of_fpath _ _ _ _ HPD) as [kq Hkq].
  assert (HnL : map tname L = map tname (lvs x)) by (unfold L; apply more_map_tname_retag).
  assert (Hnd2 : NoDup (map tname kq ++ map tname L)).
  { rewrite HnL. apply (m2_names_ok dt d PD kq (lvs x) Hwfd HPD Hkq Hhas Hnd). }
  assert (Hqn : qnames d dt = Some (map tname kq)) by (unfold qnames; rewrite Hkq; reflexivity).
  assert (HLwf : Forall wf_t L) by (unfold L; rewrite <- m2_lvs_retag; apply m2_wf_lvs).
  destruct (app_all_facts d PD L dt (map tname kq) Hwfd HPD Hqn Hnd2 HLwf) as [Hw [Hr _]]. fold t2 in Hw, Hr.
  split; [|split; [exact Hr|split]].
  - exists [t_setk p (prune_f (tkids (retag x))) (retag s)].
    unfold cs_core. cbn [ref_eqb list_eqb Nat.eqb andb]. rewrite Hmc, Hml, Hov. cbn [negb].
    set (cp := retag s).
    assert (Hxc : tget cp p = Some (retag x)).
    { unfold tget, cp. rewrite tkids_retag, fget_retag. unfold tget in Hx. rewrite Hx. reflexivity. }
    unfold attach. rewrite Hc, Hml. unfold copy_node. cbn [nth_error length app]. fold cp. cbn [orb andb negb].
    eapply eq_trans; [apply (m2_ml_top (nroots c) [s; dt; cp] (2 :: p) (1 :: d) (retag x) (map tname kq))|].
    7: { change (fsetk (2 :: p) (prune_f (tkids (retag x))) [s; dt; cp])
           with [s; dt; t_setk p (prune_f (tkids (retag x))) cp].
         rewrite m2_fapp_all_cons1, m2_lvs_retag. reflexivity. }
    + discriminate.
    + cbn [fget nth_error]. destruct p as [|j p']; [congruence|]. exact Hxc.
    + rewrite m2_is_leaf_retag. exact Hl.
    + reflexivity.
    + unfold knames. cbn [fkids nth_error]. rewrite Hkq. reflexivity.
    + rewrite m2_lvs_retag. exact Hnd2.
  - intros Hlast. rewrite Hr.
    destruct (t_sub_rows s p x PX Hwfs Hp Hx HPX) as [P0 [HP0 Hsub]].
    unfold edit_cs. cbn [negb andb].
    rewrite HP0 at 1. rewrite last_last, Hlast, str_eqb_refl. cbn [negb].
    rewrite (t_has_path dt d PD HPD). rewrite Hmc, Hml, Hov. cbn [negb andb].
    fold (sub_rows (rows s) PX). rewrite (m2_spec_leafs s p x PX Hwfs Hp Hx HPX Hl).
    rewrite (m2_leaf_items PD true x PX _ Hl); [reflexivity|exact Hhas|exact Hnd].
  - rewrite Hr. apply subseq_ins_all.
Qed.

(* ============================================================================================== *)
(* Part K.  from == to with merge_children: the node is detached, its children (or their copies)     *)
(* are appended to its former parent                                                                 *)

(* the loop of modify.py:1208-1211 without delete_children at the level of whole forests: the children of the node at h
   (any piece, also a piece root) are moved one by one to the node at y, not inside h *)
Lemma m2_mc_flat nr y h : h <> [] -> is_prefix h y = false -> forall K (f : forest) cs trk nm fr,
  length cs = length K -> (forall i c, nth_error cs i = Some c -> trk c = h ++ [i]) ->
  fkids h f = Some K -> knames y f = Some nm -> NoDup (nm ++ map tname K) ->
  (is_prefix h fr = false \/ fr = h) ->
  mc_loop nr false f cs trk (Some y) fr = (fapp_all y K (fsetk h [] f), Ret fr).
Proof.
  intros Hh Hy. induction K as [|k0 K IH]; intros f cs trk nm fr Hlen Htrk Hk Hnm Hnd Hfr.
  - destruct cs; [|discriminate]. cbn [mc_loop fapp_all fold_left]. rewrite (fsetk_id h f _ Hk). reflexivity.
  - destruct cs as [|c0 cs]; [discriminate|]. cbn [mc_loop]. rewrite (Htrk 0 c0 eq_refl).
    destruct (m2_fkids_fpath h f _ [] Hk) as [P HP].
    set (x := h ++ [0]).
    assert (Hg : fget x f = Some k0) by (apply (fget_snoc h f _ 0 k0 Hk eq_refl)).
    unfold knames in Hnm. destruct (fkids y f) as [kq|] eqn:Ekq; [|discriminate]. cbn in Hnm. inversion Hnm; subst nm.
    assert (Hfresh : forall k', In k' kq -> tname k' <> tname k0).
    { intros k' Hk' E. eapply (NoDup_app_disj (map tname kq) (map tname (k0 :: K)) (tname k0) Hnd).
      - rewrite <- E. apply in_map. exact Hk'.
      - left. reflexivity. }
    assert (Hrem : fremove x f = fsetk h K f).
    { unfold x. rewrite <- (fsetk_id h f _ Hk) at 1. rewrite fremove_fsetk_child. reflexivity. }
    pose proof (fkids_names_fsetk h y f K Hy) as Hnames. rewrite Ekq in Hnames.
    destruct (fkids y (fsetk h K f)) as [ks1|] eqn:Eks1; [|discriminate]. cbn in Hnames.
    cbn [option_map].
    rewrite (m2_move_gen nr f x y k0 kq ks1 Hg (is_prefix_child_false h y _ (or_introl Hy)) Ekq Hfresh
               (m2_protected nr h _ Hh) (adj'_child_removed h y _ (or_introl Hy))) by (rewrite Hrem; exact Eks1).
    cbn [option_map]. rewrite (m2_track_outside h 0 _ y (or_introl Hy)), (m2_track_outside h 0 _ fr Hfr), Hrem.
    set (t1 := track x (y ++ [length ks1])).
    assert (HP1 : fpath [] h (fsetk h K f) = Some P) by (rewrite fpath_fsetk by (right; reflexivity); exact HP).
    rewrite (IH (fappend y k0 (fsetk h K f)) cs (fun z => t1 (trk z)) (map tname kq ++ [tname k0]) fr).
    + rewrite m2_fapp_all_cons. f_equal. f_equal.
      rewrite (fsetk_fappend h y _ _ k0 [] P HP1 Hy), fsetk_fsetk. reflexivity.
    + cbn in Hlen. lia.
    + intros i c Hc. cbn beta. rewrite (Htrk (S i) c Hc). unfold t1, x.
      exact (m2_track_later h 0 (y ++ [length ks1]) i []).
    + apply fkids_fappend_frame; [|exact Hy]. eapply fkids_fsetk_self. exact HP.
    + unfold knames. rewrite (fkids_fappend_self y _ k0 ks1 Eks1). cbn [option_map]. rewrite map_app.
      inversion Hnames as [Hn1]. rewrite Hn1. reflexivity.
    + rewrite <- app_assoc. exact Hnd.
    + exact Hfr.
Qed.

Definition mcs_kids (cp : bool) (x : tree) : list tree := if cp then map retag (tkids x) else tkids x.

Theorem C08_merge_children_same_node_stmt (cp : bool) sep tsep fl t p x PX :
  f_mc fl = true -> f_dc fl = false -> wf_t t ->
  p <> [] -> tget t p = Some x -> tpath t p = Some PX ->
  (forall k, In k (tkids x) -> has (minus (rows t) PX) (removelast PX ++ [tname k]) = false) ->
  exists t2 rest,
    cs_core (cfg_same cp sep tsep fl) [t] (0 :: p) (TNode (0 :: p)) = (t2 :: rest, None)
    /\ rows t2 = ins_all (removelast PX) (mcs_kids cp x) (minus (rows t) PX)
    /\ edit_cs cp true fl (rows t) (rows t) PX (Some PX) = PNext (rows t2) (rows t2)
    /\ subseq (minus (rows t) PX) (rows t2).
Proof.
  intros Hmc Hdc Hwf Hp Hx HPX Hkabs.
  set (c := cfg_same cp sep tsep fl).
  set (t' := t_remove p t). set (q1 := removelast p). set (Q := removelast PX).
  assert (Hwf' : wf_t t') by (apply wf_t_remove; exact Hwf).
  assert (Hwfx : wf_t x) by (apply (wf_tget t p x Hwf Hx)).
  assert (HQ : tpath t q1 = Some Q) by (apply fpath_removelast; assumption).
  assert (HQ' : tpath t' q1 = Some Q).
  { unfold tpath, t', t_remove. rewrite tname_set_kids, tkids_set_kids.
    unfold q1. rewrite <- (adj'_parent p Hp). unfold tget in Hx.
    rewrite (fpath_adj _ _ _ _ _ Hx (is_prefix_removelast_false p Hp)). exact HQ. }
  assert (Hr' : rows t' = minus (rows t) PX) by (apply rows_t_remove; assumption).
  destruct (fkids_of_fpath _ _ _ _ HQ') as [kq Hkq].
  set (K := mcs_kids cp x).
  assert (HnK : map tname K = map tname (tkids x)) by (unfold K, mcs_kids; destruct cp; [apply more_map_tname_retag|reflexivity]).
  assert (Hhas' : forall k, In k (tkids x) -> has (rows t') (Q ++ [tname k]) = false) by (intros k Hk; rewrite Hr'; apply Hkabs; exact Hk).
  assert (Hnd2 : NoDup (map tname kq ++ map tname K)).
  { rewrite HnK. apply (m2_names_ok t' q1 Q kq (tkids x) Hwf' HQ' Hkq Hhas'). apply (wf_t_kids _ Hwfx). }
  assert (Hqn : qnames q1 t' = Some (map tname kq)) by (unfold qnames; rewrite Hkq; reflexivity).
  assert (HKwf : Forall wf_t K).
  { unfold K, mcs_kids. destruct cp; [|apply (wf_t_kids _ Hwfx)].
    apply Forall_forall. intros k' Hin. apply in_map_iff in Hin as [k [<- Hk]]. apply more_wf_retag. eapply wf_t_In; eassumption. }
  destruct (app_all_facts q1 Q K t' (map tname kq) Hwf' HQ' Hqn Hnd2 HKwf) as [_ [Hr2 _]].
  rewrite Hr' in Hr2.
  exists (app_all q1 K t'), (if cp then [x; set_kids (retag x) []] else [set_kids x []]).
  split; [|split; [exact Hr2|split]].
  - unfold cs_core. rewrite ref_eqb_refl. change (f_mc (c_fl c)) with (f_mc fl). rewrite Hmc.
    unfold detach_to_parent.
    pose proof (detach_in_tree (nroots c) t [] p x Hp Hx) as Hm.
    match goal with |- context [move ?a ?b ?c0 ?e] =>
      replace (move a b c0 e) with (MvOk ((t_remove p t :: []) ++ [x]) (track (0 :: p) [1])) by (symmetry; exact Hm) end.
    cbn [app]. fold t'. rewrite track_self.
    assert (Htn : option_map (track (0 :: p) [1]) (parent_ref (0 :: p)) = Some (0 :: q1)).
    { destruct p as [|d0 d']; [congruence|]. cbn [parent_ref option_map].
      change (removelast (0 :: d0 :: d')) with (0 :: removelast (d0 :: d')).
      unfold track. rewrite is_prefix_cons. cbn [Nat.eqb andb].
      rewrite (is_prefix_removelast_false (d0 :: d')) by discriminate.
      rewrite adj'_cons0; [|discriminate|apply is_prefix_removelast_false; discriminate].
      rewrite adj'_parent by discriminate. reflexivity. }
    rewrite Htn.
    assert (Hkn : forall rest', knames (0 :: q1) (t' :: rest') = Some (map tname kq)).
    { intros rest'. unfold knames. rewrite fkids_cons0, Hkq. reflexivity. }
    unfold attach. change (c_copy c) with cp. change (f_dc (c_fl c)) with (f_dc fl). rewrite Hdc.
    destruct cp.
    + unfold copy_node. cbn [nth_error length app orb andb].
      change (fkids [2] [t'; x; retag x]) with (Some (tkids (retag x))). rewrite tkids_retag.
      match goal with |- context [mc_loop ?a1 ?a2 ?a3 ?a4 ?a5 ?a6 ?a7] =>
        replace (mc_loop a1 a2 a3 a4 a5 a6 a7)
          with (fapp_all (0 :: q1) (map retag (tkids x)) (fsetk [2] [] [t'; x; retag x]), @Ret ref [2]) end.
      2: { symmetry.
           apply (m2_mc_flat (nroots c) (0 :: q1) [2] ltac:(discriminate) eq_refl (map retag (tkids x)) [t'; x; retag x]
                   (child_refs [2] (length (map retag (tkids x)))) (fun z => z) (map tname kq) [2]
                   (length_child_refs _ _) (fun i r Hr => child_refs_nth _ _ _ _ Hr) (f_equal Some (tkids_retag x)) (Hkn _) Hnd2
                   (or_intror eq_refl)). }
      change (fsetk [2] [] [t'; x; retag x]) with [t'; x; set_kids (retag x) []].
      rewrite m2_fapp_all_cons0. reflexivity.
    + cbn [orb andb].
      change (fkids [1] [t'; x]) with (Some (tkids x)). cbv beta iota.
      match goal with |- context [mc_loop ?a1 ?a2 ?a3 ?a4 ?a5 ?a6 ?a7] =>
        replace (mc_loop a1 a2 a3 a4 a5 a6 a7)
          with (fapp_all (0 :: q1) (tkids x) (fsetk [1] [] [t'; x]), @Ret ref [1]) end.
      2: { symmetry.
           apply (m2_mc_flat (nroots c) (0 :: q1) [1] ltac:(discriminate) eq_refl (tkids x) [t'; x]
                   (child_refs [1] (length (tkids x))) (fun z => z) (map tname kq) [1]
                   (length_child_refs _ _) (fun i r Hr => child_refs_nth _ _ _ _ Hr) eq_refl (Hkn _) Hnd2 (or_intror eq_refl)). }
      change (fsetk [1] [] [t'; x]) with [t'; set_kids x []].
      rewrite m2_fapp_all_cons0. reflexivity.
  - rewrite Hr2.
    destruct (t_sub_rows t p x PX Hwf Hp Hx HPX) as [P0 [HP0 Hsub]].
    destruct (tpath_ext _ _ _ HPX) as [rest0 [HPe Hlen0]].
    assert (Hk2 : Nat.eqb (length PX) 1 = false).
    { apply Nat.eqb_neq. rewrite HPe. cbn [length]. destruct p; [congruence|cbn in Hlen0; lia]. }
    unfold edit_cs. rewrite Hk2, andb_false_r. rewrite str_eqb_refl. cbn [negb].
    rewrite path_eqb_refl. cbn [andb]. rewrite Hmc, Hdc.
    rewrite (t_child_rows t p x PX Hwf Hp Hx HPX), map_map. cbn [rpath fst].
    rewrite (map_ext_in _ (fun k => (S (length PX), rows_from PX k))).
    2: { intros k Hk. f_equal. apply (t_sub_rows_child t p x PX k Hwf Hp Hx HPX Hk). }
    fold Q. unfold K, mcs_kids. destruct cp.
    + rewrite (more_attach_items_children_fresh Q (length PX) (tkids x) _) with (PX := PX);
        [reflexivity|exact Hkabs|apply (wf_t_kids _ Hwfx)|reflexivity].
    + rewrite (attach_items_children Q (length PX) (tkids x) _) with (PX := PX);
        [reflexivity|exact Hkabs|apply (wf_t_kids _ Hwfx)|reflexivity].
  - rewrite Hr2. apply subseq_ins_all.
Qed.

Theorem C08_prop_merge_children_same_node_stmt a1 o1 a2 o2 (cp : bool) fl t lf lt p x PX :
  Forall (sgood (a1 :: o1)) PX -> Forall (sgood (a2 :: o2)) PX ->
  f_full fl = true -> f_mc fl = true -> f_ml fl = false -> f_dc fl = false -> wf_t t ->
  p <> [] -> tget t p = Some x -> tpath t p = Some PX ->
  (forall k, In k (tkids x) -> has (minus (rows t) PX) (removelast PX ++ [tname k]) = false) ->
  let i := sl_in cp fl (a1 :: o1) (a2 :: o2) t lf PX lt PX in
  exists t2 rest, run i = (t2 :: rest, None)
    /\ rows t2 = ins_all (removelast PX) (mcs_kids cp x) (minus (rows t) PX)
    /\ edit_cs cp true fl (rows t) (rows t) PX (Some PX) = PNext (rows t2) (rows t2)
    /\ prop_C08 i (obs_of i (run i)) None = true.
Proof.
  intros Hg1 Hg2 Hfull Hmc Hml Hdc Hwf Hp Hx HPX Hkabs i.
  assert (Hmm : f_mc fl && f_ml fl = false) by (rewrite Hml; apply andb_false_r).
  destruct (C08_merge_children_same_node_stmt cp (a1 :: o1) (a2 :: o2) fl t p x PX Hmc Hdc Hwf Hp Hx HPX Hkabs)
    as [t2 [rest [Hcore [Hrows [Hedit _]]]]].
  destruct (t_sub_rows t p x PX Hwf Hp Hx HPX) as [P0 [HP0 _]].
  assert (Hlast : last PX [] = tname x) by (rewrite HP0; apply last_last).
  destruct (C08_prop_existing_generic_stmt a1 o1 a2 o2 cp fl t lf lt PX PX p p x t2 rest
              Hg1 Hg2 Hg1 Hg2 Hfull Hmm Hwf Hp Hx HPX HPX Hlast Hcore Hedit) as [Hrun Hprop].
  exists t2, rest. split; [exact Hrun|]. split; [exact Hrows|]. split; [exact Hedit|exact Hprop].
Qed.
