(* Executable model of bigtree/utils/plot.py:22-87 (reingold_tilford, as of 09acfdb) and its helpers
   _first_pass 132-233, _get_midpoint_of_children 236-253, _get_subtree_shift 256-331,
   _second_pass 334-393, _third_pass 396-410, over exact rationals Q.  No proofs in this file.

   The model is the real-number algorithm: every Python float operation (+ - * / max) is the exact
   rational one.  Values are normalised with Qred wherever the code stores them on a node or passes
   them on as an accumulator, which changes nothing up to Qeq and keeps vm_compute fast.

   The node attributes x / mod / shift live in a decorated tree `dtree`; the final (x, y) in a
   coordinate tree `ctree` of the same shape.  Inputs are fresh trees (no stale x/mod/shift/y
   attributes: a second call on the same tree reuses `shift`, which is outside the property). *)
From Coq Require Import QArith Qminmax Qabs.
From BT Require Import Base.Prelude Base.Rose.

Record params := PR { p_ss : Q; p_sts : Q; p_ls : Q; p_xo : Q; p_yo : Q }.
(* sibling_separation, subtree_separation, level_separation, x_offset, y_offset *)

Inductive dtree := D (x md sh : Q) (kids : list dtree).
Definition dx (d : dtree) := match d with D x _ _ _ => x end.
Definition dmod (d : dtree) := match d with D _ m _ _ => m end.
Definition dsh (d : dtree) := match d with D _ _ s _ => s end.
Definition dkids (d : dtree) := match d with D _ _ _ k => k end.

Inductive ctree := C (x y : Q) (kids : list ctree).
Definition cx (c : ctree) := match c with C x _ _ => x end.
Definition cy (c : ctree) := match c with C _ y _ => y end.
Definition ckids (c : ctree) := match c with C _ _ k => k end.

Fixpoint dheight (d : dtree) : nat :=
  match d with D _ _ _ ks => S (fold_right (fun k a => Nat.max (dheight k) a) 0%nat ks) end.

Definition dzero : dtree := D 0 0 0 [].

(* plot.py:236-253  (last.x + last.shift + first.x + first.shift) / 2, or 0.0 without children *)
Definition midpoint_raw (ks : list dtree) : Q :=
  match ks with
  | [] => 0
  | f :: _ => let l := last ks f in ((dx l + dsh l) + (dx f + dsh f)) * (1 # 2)
  end.
Definition midpoint (ks : list dtree) : Q := Qred (midpoint_raw ks).

(* plot.py:298-306  the two `while` loops: starting at the first element of the list (the contour
   node), walk along its siblings (the rest of the list) while the current node has no children and
   there is a next sibling.  Result: the first element with children, else the last element. *)
Fixpoint pick (l : list dtree) (dflt : dtree) : dtree :=
  match l with
  | [] => dflt
  | d :: r => match dkids d, r with
              | _ :: _, _ => d
              | [], [] => d
              | [], _ :: _ => pick r d
              end
  end.

(* 1 - left_idx / right_idx   (right_idx >= 1, left_idx < right_idx at every call) *)
Definition ratio (li ri : nat) : Q := 1 - (Z.of_nat li # Pos.of_nat ri).

(* plot.py:283-331, the calls with initial_run = False.
   ls: the current left contour node followed by its left siblings (nearest first);
   rs: the current right contour node followed by its right siblings.
   fuel bounds the recursion depth (one level of the tree per call). *)
Fixpoint contour (fuel : nat) (rt sts : Q) (ls rs : list dtree) (lcs rcs cum : Q) : Q :=
  match ls, rs with
  | l0 :: _, r0 :: _ =>
      let xl := dx l0 + dsh l0 + lcs in
      let xr := dx r0 + dsh r0 + rcs + cum in
      let new := Qmax ((xl + sts - xr) / rt) 0 in
      let cum' := Qred (cum + new) in
      let l := pick ls l0 in
      let r := pick rs r0 in
      match fuel, dkids l, dkids r with
      | S f, _ :: _, _ :: _ =>
          contour f rt sts (rev (dkids l)) (dkids r)
                  (Qred (lcs + dmod l + dsh l)) (Qred (rcs + dmod r + dsh r)) cum'
      | _, _, _ => cum'
      end
  | _, _ => cum
  end.

(* plot.py:256-331, the call with initial_run = True: new_shift = 0, no sibling walk *)
Definition subtree_shift (sts : Q) (left right : dtree) (li ri : nat) : Q :=
  match dkids left, dkids right with
  | _ :: _, _ :: _ =>
      contour (dheight left) (ratio li ri) sts (rev (dkids left)) (dkids right)
              (Qred (dmod left + dsh left)) (Qred (dmod right + dsh right)) 0
  | _, _ => 0
  end.

(* plot.py:210-222  _shift = max(_shift, _get_subtree_shift(children[j], node, j, idx)) for j < idx *)
Fixpoint max_shift (sts : Q) (nd : dtree) (idx j : nat) (lefts : list dtree) (acc : Q) : Q :=
  match lefts with
  | [] => acc
  | l :: r => max_shift sts nd idx (S j) r (Qmax acc (subtree_shift sts l nd j idx))
  end.

(* plot.py:224-232  sibling k: shift += _shift * k / idx, for all children of the parent
   (already processed, the node itself, and the not yet processed right siblings) *)
Fixpoint bump (s : Q) (idx k : nat) (l : list dtree) : list dtree :=
  match l with
  | [] => []
  | D x m sh ks :: r =>
      D x m (Qred (sh + s * (Z.of_nat k # Pos.of_nat idx))) ks :: bump s idx (S k) r
  end.

Fixpoint bumpq (s : Q) (idx k : nat) (l : list Q) : list Q :=
  match l with
  | [] => []
  | sh :: r => Qred (sh + s * (Z.of_nat k # Pos.of_nat idx)) :: bumpq s idx (S k) r
  end.

(* The loop over the children of one parent (the order in which the post-order traversal reaches
   the `else` branch of _first_pass 186-232 for them).
   done: processed siblings, left to right, with their current shift;
   todo: for every unprocessed sibling the list of its processed children (its own subtree is
   processed before the node itself and does not depend on the siblings);
   pend: for every unprocessed sibling the `shift` that earlier siblings already added to it
   (tree_node.get_attr("shift", 0) at line 202). *)
Fixpoint place (ss sts : Q) (done : list dtree) (todo : list (list dtree)) (pend : list Q)
  : list dtree :=
  match todo with
  | [] => done
  | dk :: rest =>
      let idx := length done in
      let mid := midpoint dk in                         (* 189-190 *)
      let x := match done with
               | [] => match dk with [] => 0 | _ :: _ => mid end           (* 199-201 *)
               | d0 :: _ => Qred (dx (last done d0) + ss)                   (* 193-194 *)
               end in
      let md := match done, dk with
                | _ :: _, _ :: _ => Qred (x - mid)                          (* 195-196 *)
                | _, _ => 0
                end in
      let nd := D x md (hd 0 pend) dk in                                    (* 203-205 *)
      match done with
      | [] => place ss sts [nd] rest (tl pend)                              (* idx = 0: 208 *)
      | _ :: _ =>
          let s := max_shift sts nd idx 0%nat done 0 in
          place ss sts (bump s idx 0%nat (done ++ [nd])) rest (bumpq s idx (S idx) (tl pend))
      end
  end.

(* processed children of t *)
Fixpoint fp (ss sts : Q) (t : tree) : list dtree :=
  match t with
  | T _ _ _ ks => place ss sts [] (map (fp ss sts) ks) (map (fun _ => 0) ks)
  end.

(* plot.py:181-184 the root: x = midpoint of children, mod = shift = 0 *)
Definition first_pass (ss sts : Q) (t : tree) : dtree :=
  let ks := fp ss sts t in D (midpoint ks) 0 0 ks.

(* plot.py:334-380  final_x = x + shift + cum_mod + x_offset,
   final_y = (max_depth - depth) * level_separation + y_offset; children get cum_mod + mod + shift *)
Fixpoint second (ls xo yo : Q) (maxd depth : nat) (cum : Q) (d : dtree) : ctree :=
  match d with
  | D x m sh ks =>
      C (Qred (x + sh + cum + xo))
        (Qred (inject_Z (Z.of_nat maxd - Z.of_nat depth) * ls + yo))
        (map (second ls xo yo maxd (S depth) (Qred (cum + m + sh))) ks)
  end.

(* plot.py:382-393  the returned x_adjustment: max over the children's results, and
   max(0.0, -final_x) at a leaf *)
Fixpoint adjust (c : ctree) : Q :=
  match c with
  | C x _ [] => Qmax 0 (- x)
  | C _ _ (k :: r) => fold_left Qmax (map adjust r) (adjust k)
  end.

Fixpoint cshift (a : Q) (c : ctree) : ctree :=
  match c with C x y ks => C (Qred (x + a)) y (map (cshift a) ks) end.

(* plot.py:396-410  `if x_adjustment:` add it to every x *)
Definition third (c : ctree) : ctree :=
  let a := adjust c in if Qeq_bool a 0 then c else cshift a c.

(* the three passes with the two numbers the second pass takes from the tree around the start
   node: max_depth (of the WHOLE tree: basenode.py max_depth goes through self.root) and the
   absolute depth of the start node *)
Definition rt_gen (p : params) (maxd depth : nat) (t : tree) : ctree :=
  third (second (p_ls p) (p_xo p) (p_yo p) maxd depth 0 (first_pass (p_ss p) (p_sts p) t)).

(* basenode.py:565-573 max_depth = number of nodes on the longest root-to-leaf path = height *)
Definition reingold_tilford (p : params) (t : tree) : ctree := rt_gen p (height t) 1%nat t.

(* BinaryNode trees (known finding K5).  node.children of a BinaryNode is always the two-slot
   list [left, right] with None for an empty slot (binarynode.py), also for a leaf.  After the
   reset loop (preorder_iter skips the None slots) _first_pass runs
   `for child in tree_node.children: _first_pass(child, ...)` (plot.py:175-176) and the callee
   starts with `for child in tree_node.children` on None for the first empty slot it meets; every
   finite BinaryNode tree has one, so the call raises AttributeError for every BinaryNode tree and
   writes no coordinates. *)
Definition reingold_tilford_binary (p : params) (t : tree) : res ctree := Raise AttributeError.

(* reingold_tilford called on a node that is not the root of its tree.  _first_pass takes the
   `else` branch (is_root is false).  If the start node is the FIRST child of its parent
   (left_sibling is None, index 0: no left sibling is read, no sibling is shifted) the start node
   gets x = midpoint of its children (0.0 without children), mod = 0, shift = 0 (reset): the same
   as the root branch, so the result is the layout of the subtree, with y counted from the whole
   tree's max_depth and the node's absolute depth.  For a start node with a left sibling the call
   reads the left sibling's x / the left siblings' subtrees (attributes of nodes outside the
   subtree: TypeError on a fresh tree) and writes `shift` on all siblings: outside the modelled
   domain (None). *)
Definition rt_at (p : params) (whole : tree) (path : list nat) : option ctree :=
  match path with
  | [] => Some (reingold_tilford p whole)
  | _ :: _ =>
      if Nat.eqb (last path 1%nat) 0
      then match subtree_at whole path with
           | Some sub => Some (rt_gen p (height whole) (S (length path)) sub)
           | None => None
           end
      else None
  end.

(* ---------------------------------------------------------------------------------------------
   Running the layout again on a tree that was laid out before.

   What _first_pass reads back from the node attributes: only `shift` of non-root nodes
   (plot.py get_attr("shift", _shift) and sibling.get_attr("shift", 0)).  x and mod are written
   before anything reads them in the same run (left_sibling.x, the children in
   _get_midpoint_of_children, the contour nodes in _get_subtree_shift are all processed earlier in
   the same post-order traversal); the root's x/mod/shift are overwritten; y is write-only.
   `fpd` is that loop started from whatever shifts the nodes carry.
   Since commit 6d1d6cb (F10) reingold_tilford first resets `shift` to 0.0 on every node of the
   tree (plot.py:81-83, `reset_d`), so a call no longer depends on earlier calls; the annotations
   are still carried along here so that exactly this is what the theorems state and what the
   correspondence check would notice if the reset disappeared. *)
Fixpoint fpd (ss sts : Q) (d : dtree) : list dtree :=
  match d with
  | D _ _ _ ks => place ss sts [] (map (fpd ss sts) ks) (map dsh ks)
  end.

Definition first_pass_d (ss sts : Q) (d : dtree) : dtree :=
  let ks := fpd ss sts d in D (midpoint ks) 0 0 ks.

(* a tree that was never laid out *)
Fixpoint zero_d (t : tree) : dtree := match t with T _ _ _ ks => D 0 0 0 (map zero_d ks) end.
Fixpoint tree_of_d (d : dtree) : tree := match d with D _ _ _ ks => T None [] [] (map tree_of_d ks) end.

(* plot.py:81-83  for node in preorder_iter(tree_node): node.set_attrs({"shift": 0.0}) *)
Fixpoint reset_d (d : dtree) : dtree :=
  match d with D x m _ ks => D x m 0 (map reset_d ks) end.

(* one call of reingold_tilford on a tree carrying the annotations `prior`:
   (annotations left behind, coordinates) *)
Definition layout (p : params) (prior : dtree) : dtree * ctree :=
  let f := first_pass_d (p_ss p) (p_sts p) (reset_d prior) in
  (f, third (second (p_ls p) (p_xo p) (p_yo p) (dheight prior) 1%nat 0 f)).

(* the annotations after calling reingold_tilford with the parameter sets ps, in this order *)
Fixpoint reruns (ps : list params) (prior : dtree) : dtree :=
  match ps with
  | [] => prior
  | p :: r => reruns r (fst (layout p prior))
  end.

(* coordinates after laying the fresh tree t out with ps (in this order) and then with p *)
Definition rt_again (ps : list params) (p : params) (t : tree) : ctree :=
  snd (layout p (reruns ps (zero_d t))).

(* structural changes between two calls (the annotations travel with the node objects) *)
Inductive edit :=
| ENone
| ERev (at_ : list nat)               (* node.children = reversed(node.children) *)
| EAdd (at_ : list nat) (i : nat)     (* a fresh leaf inserted as i-th child *)
| EDel (at_ : list nat) (i : nat)     (* the i-th child (with everything below it) removed *)
| EMove (from to : list nat) (i : nat)
    (* the subtree at `from` becomes the i-th child of the node that has path `to` in the tree
       WITHOUT that subtree (node.parent = target / target.children = [...]): up, down, sideways *)
| ECut (at_ : list nat)               (* node.parent = None; from now on the detached piece is the tree *)
| EReroot (at_ : list nat) (i : nat). (* the subtree at `at_` is detached and the old root (what is left
                                         of the tree) becomes its i-th child *)

Fixpoint edit_at (f : list dtree -> list dtree) (path : list nat) (d : dtree) : dtree :=
  match d with
  | D x m sh ks =>
      match path with
      | [] => D x m sh (f ks)
      | i :: path' =>
          D x m sh ((fix go (j : nat) (l : list dtree) : list dtree :=
                       match l with
                       | [] => []
                       | k :: r => (if Nat.eqb j i then edit_at f path' k else k) :: go (S j) r
                       end) 0%nat ks)
      end
  end.

Fixpoint dsub (d : dtree) (path : list nat) : option dtree :=
  match path with
  | [] => Some d
  | i :: path' => match nth_error (dkids d) i with
                  | Some k => dsub k path'
                  | None => None
                  end
  end.

Definition del_ith (i : nat) (ks : list dtree) : list dtree := firstn i ks ++ skipn (S i) ks.
Definition ins_ith (i : nat) (x : dtree) (ks : list dtree) : list dtree := firstn i ks ++ x :: skipn i ks.

(* the tree without the node at `path` (path <> []) *)
Definition ddel (d : dtree) (path : list nat) : dtree :=
  edit_at (del_ith (last path 0%nat)) (removelast path) d.

Definition apply_edit (e : edit) (d : dtree) : dtree :=
  match e with
  | ENone => d
  | ERev path => edit_at (@rev dtree) path d
  | EAdd path i => edit_at (ins_ith i dzero) path d
  | EDel path i => edit_at (del_ith i) path d
  | EMove from to i =>
      match from, dsub d from with
      | _ :: _, Some sub => edit_at (ins_ith i sub) to (ddel d from)
      | _, _ => d
      end
  | ECut path => match dsub d path with Some sub => sub | None => d end
  | EReroot path i =>
      match path, dsub d path with
      | _ :: _, Some (D x m sh ks) => D x m sh (ins_ith i (ddel d path) ks)
      | _, _ => d
      end
  end.

Definition apply_edits (es : list edit) (d : dtree) : dtree :=
  fold_left (fun acc e => apply_edit e acc) es d.

(* a sequence of (edits, parameters): edit, then lay out; returns the last state *)
Fixpoint run_steps (st : dtree * ctree) (steps : list (list edit * params)) : dtree * ctree :=
  match steps with
  | [] => st
  | (es, p) :: r => run_steps (layout p (apply_edits es (fst st))) r
  end.

(* ---------------------------------------------------------------------------------------------
   The witness of known finding K1:  r(a, b(c, d(e)), f(g(h, i)))  *)
Definition leaf : tree := T None [] [] [].
Definition nd (ks : list tree) : tree := T None [] [] ks.
Definition k1_tree : tree :=
  nd [leaf; nd [leaf; nd [leaf]]; nd [nd [leaf; leaf]]].
Definition unit_params : params := PR 1 1 1 0 0.
