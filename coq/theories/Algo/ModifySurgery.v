(* Bridge between the two models of "x.parent = y":
     - Heap/Forest.v `attach` on the pointer heap, shown in Heap/AbsSurgery.v to be the tag-addressed
       rose-tree surgery  graft p sub (cut c t)   (C01_parent_assignment_is_tree_surgery), and
     - Algo/Modify.v `move` on the reference-addressed rose forest (remove the subtree at reference x,
       append it below reference adj' x q), which the C08 theorems about shift/copy are built on.
   On forests with pairwise distinct tags the two descriptions coincide:
       fappend (adj' x q) sub (fremove x f) = map (graft p sub) (cutf c f)
   where c, p are the tags of the nodes at x and q.  Hence what C08 proves about sequences of `move`
   is about the same edits the structural API of C01 performs. *)
From BT Require Import Base.Prelude Base.Str Base.Rose Heap.Forest Heap.ForestWF Heap.Abs Heap.AbsSurgery Algo.Modify Algo.ModifyProofs.

Definition ftags (f : list tree) : list (option nat) := flat_map tags f.
Definition cutf (c : id) (f : list tree) : list tree := filter (fun k => negb (tag_is c k)) (map (cut c) f).
Definition graftf (p : id) (u : tree) (f : list tree) : list tree := map (graft p u) f.

Lemma tags_T g n a ks : tags (T g n a ks) = g :: ftags ks.
Proof.
  unfold tags, ftags. cbn [pre map]. f_equal.
  induction ks as [|k ks IH]; [reflexivity|]. cbn [flat_map]. rewrite map_app, IH. reflexivity.
Qed.

Lemma cut_T c g n a ks : cut c (T g n a ks) = T g n a (cutf c ks).
Proof. reflexivity. Qed.

Lemma NoDup_app_inv {A} (a b : list A) :
  NoDup (a ++ b) -> NoDup a /\ NoDup b /\ (forall x, In x a -> ~ In x b).
Proof.
  induction a as [|x a IH]; cbn [app]; intros H.
  - split; [constructor|]. split; [exact H|]. intros x [].
  - inversion H as [|? ? Hx Hr]; subst. destruct (IH Hr) as [Ha [Hb Hd]].
    split; [constructor; [intros Hin; apply Hx; apply in_or_app; left; exact Hin|exact Ha]|].
    split; [exact Hb|]. intros y [->|Hy]; [intros Hin; apply Hx; apply in_or_app; right; exact Hin|apply Hd; exact Hy].
Qed.

(* distinct tags: a tag that occurs in the tree at index i occurs in no other tree of the forest *)
Lemma ftags_local (f : list tree) : NoDup (ftags f) ->
  forall i j t u o, nth_error f i = Some t -> nth_error f j = Some u -> i <> j ->
  In o (tags t) -> ~ In o (tags u).
Proof.
  induction f as [|k f IH]; intros H i j t u o Hi Hj Hne Ho Hu; [destruct i; discriminate|].
  unfold ftags in H. cbn [flat_map] in H. destruct (NoDup_app_inv _ _ H) as [Hk [Hf Hd]].
  destruct i as [|i], j as [|j]; cbn [nth_error] in Hi, Hj.
  - congruence.
  - injection Hi as <-. apply (Hd o Ho). apply in_flat_map. exists u. split; [eapply nth_error_In; exact Hj|exact Hu].
  - injection Hj as <-. apply (Hd o Hu). apply in_flat_map. exists t. split; [eapply nth_error_In; exact Hi|exact Ho].
  - apply (IH Hf i j t u o Hi Hj); [congruence|exact Ho|exact Hu].
Qed.

Lemma ftags_nth (f : list tree) i t : NoDup (ftags f) -> nth_error f i = Some t -> NoDup (tags t).
Proof.
  revert i. induction f as [|k f IH]; intros i H Hi; [destruct i; discriminate|].
  unfold ftags in H. cbn [flat_map] in H. destruct (NoDup_app_inv _ _ H) as [Hk [Hf _]].
  destruct i as [|i]; cbn [nth_error] in Hi; [injection Hi as <-; exact Hk|apply (IH i Hf Hi)].
Qed.

Lemma tags_kids_nodup t : NoDup (tags t) -> NoDup (ftags (tkids t)) /\ ~ In (ttag t) (ftags (tkids t)).
Proof.
  destruct t as [g n a ks]. rewrite tags_T. cbn [tkids ttag]. intros H. inversion H; subst. split; assumption.
Qed.

(* in_tags of a member *)
Lemma ftags_in (f : list tree) i t o : nth_error f i = Some t -> In o (tags t) -> In o (ftags f).
Proof. intros Hi Ho. apply in_flat_map. exists t. split; [eapply nth_error_In; exact Hi|exact Ho]. Qed.

Lemma fget_tag_in : forall x (f : list tree) sub, fget x f = Some sub -> In (ttag sub) (ftags f).
Proof.
  induction x as [|i x IH]; intros f sub H; [discriminate|]. cbn [fget] in H.
  destruct (nth_error f i) as [t|] eqn:Ei; [|discriminate]. destruct x as [|j x].
  - injection H as <-. apply (ftags_in f i t _ Ei). apply tags_root.
  - apply IH in H. apply (ftags_in f i t _ Ei). destruct t as [g n a ks]. rewrite tags_T. right. exact H.
Qed.

(* ---------------- cutf on forests with distinct tags ---------------- *)
Lemma cutf_cons c k f : cutf c (k :: f) = if tag_is c k then cutf c f else cut c k :: cutf c f.
Proof.
  unfold cutf. cbn [map filter]. assert (E : tag_is c (cut c k) = tag_is c k) by (unfold tag_is; rewrite cut_tag; reflexivity).
  rewrite E. destruct (tag_is c k); reflexivity.
Qed.

Lemma tag_is_false c t : ~ In (Some c) (tags t) -> tag_is c t = false.
Proof.
  intros H. unfold tag_is. destruct (ttag t) as [x|] eqn:E; [|reflexivity]. apply Nat.eqb_neq. intros ->.
  apply H. rewrite <- E. apply tags_root.
Qed.

Lemma tag_is_true c t : ttag t = Some c -> tag_is c t = true.
Proof. intros H. unfold tag_is. rewrite H. apply Nat.eqb_refl. Qed.

Lemma cutf_absent c f : ~ In (Some c) (ftags f) -> cutf c f = f.
Proof.
  induction f as [|k f IH]; intros H; [reflexivity|]. rewrite cutf_cons.
  assert (Hk : ~ In (Some c) (tags k)) by (intros Hin; apply H; unfold ftags; cbn [flat_map]; apply in_or_app; left; exact Hin).
  rewrite (tag_is_false c k Hk), (cut_absent c k Hk). f_equal. apply IH.
  intros Hin. apply H. unfold ftags. cbn [flat_map]. apply in_or_app. right. exact Hin.
Qed.

Lemma cutf_del c : forall (f : list tree) i sub, NoDup (ftags f) -> nth_error f i = Some sub -> ttag sub = Some c ->
  cutf c f = del_nth i f.
Proof.
  induction f as [|k f IH]; intros i sub H Hi Ht; [destruct i; discriminate|].
  unfold ftags in H. cbn [flat_map] in H. destruct (NoDup_app_inv _ _ H) as [Hk [Hf Hd]].
  rewrite cutf_cons. destruct i as [|i]; cbn [nth_error del_nth] in *.
  - injection Hi as ->. rewrite (tag_is_true c sub Ht). apply cutf_absent.
    apply Hd. rewrite <- Ht. apply tags_root.
  - assert (Hc : In (Some c) (ftags f)) by (rewrite <- Ht; apply (ftags_in f i sub _ Hi); apply tags_root).
    assert (Hk' : ~ In (Some c) (tags k)) by (intros Hin; exact (Hd _ Hin Hc)).
    rewrite (tag_is_false c k Hk'), (cut_absent c k Hk'). f_equal. apply (IH i sub Hf Hi Ht).
Qed.

Lemma cutf_upd c : forall (f : list tree) i t, NoDup (ftags f) -> nth_error f i = Some t ->
  In (Some c) (ftags (tkids t)) -> cutf c f = upd_nth i (cut c) f.
Proof.
  induction f as [|k f IH]; intros i t H Hi Hc; [destruct i; discriminate|].
  unfold ftags in H. cbn [flat_map] in H. destruct (NoDup_app_inv _ _ H) as [Hk [Hf Hd]].
  rewrite cutf_cons. destruct i as [|i]; cbn [nth_error upd_nth] in *.
  - injection Hi as ->. destruct (tags_kids_nodup t Hk) as [_ Hroot].
    assert (Ht : tag_is c t = false).
    { unfold tag_is. destruct (ttag t) as [x|] eqn:E; [|reflexivity]. apply Nat.eqb_neq. intros ->. exact (Hroot Hc). }
    rewrite Ht. f_equal. apply cutf_absent. apply Hd.
    destruct t as [g n a ks]. rewrite tags_T. right. exact Hc.
  - assert (Hc' : In (Some c) (ftags f)).
    { apply (ftags_in f i t _ Hi). destruct t as [g n a ks]. rewrite tags_T. right. exact Hc. }
    assert (Hk' : ~ In (Some c) (tags k)) by (intros Hin; exact (Hd _ Hin Hc')).
    rewrite (tag_is_false c k Hk'), (cut_absent c k Hk'). f_equal. apply (IH i t Hf Hi Hc).
Qed.

(* removing the subtree at reference x = cutting out the subtree tagged like the node at x *)
Theorem fremove_is_cut c : forall x (f : list tree) sub,
  NoDup (ftags f) -> fget x f = Some sub -> ttag sub = Some c -> fremove x f = cutf c f.
Proof.
  induction x as [|i x IH]; intros f sub H Hg Ht; [discriminate|].
  cbn [fget] in Hg. destruct (nth_error f i) as [t|] eqn:Ei; [|discriminate].
  destruct x as [|j x].
  - injection Hg as ->. cbn [fremove]. symmetry. apply (cutf_del c f i sub H Ei Ht).
  - change (fremove (i :: j :: x) f) with (upd_nth i (fun t => Modify.set_kids t (fremove (j :: x) (tkids t))) f).
    pose proof (ftags_nth f i t H Ei) as Hnt. destruct (tags_kids_nodup t Hnt) as [Hks _].
    assert (Hin : In (Some c) (ftags (tkids t))) by (rewrite <- Ht; apply (fget_tag_in (j :: x) _ sub Hg)).
    rewrite (cutf_upd c f i t H Ei Hin).
    (* the two updates agree at index i *)
    clear - IH Hg Ht Hks Ei. revert i Ei. induction f as [|k f IHf]; intros i Ei; [destruct i; discriminate|].
    destruct i as [|i]; cbn [nth_error upd_nth] in *.
    + injection Ei as ->. f_equal. destruct t as [g n a ks]. cbn [Modify.set_kids tkids] in *. rewrite cut_T. f_equal.
      apply (IH ks sub Hks Hg Ht).
    + f_equal. apply IHf. exact Ei.
Qed.

(* ---------------- graftf on forests with distinct tags ---------------- *)
Lemma graftf_absent p u f : ~ In (Some p) (ftags f) -> graftf p u f = f.
Proof.
  induction f as [|k f IH]; intros H; [reflexivity|]. unfold graftf in *. cbn [map].
  rewrite (graft_absent p u k) by (intros Hin; apply H; unfold ftags; cbn [flat_map]; apply in_or_app; left; exact Hin).
  f_equal. apply IH. intros Hin. apply H. unfold ftags. cbn [flat_map]. apply in_or_app. right. exact Hin.
Qed.

Lemma graft_T p u g n a ks :
  graft p u (T g n a ks) = T g n a (if tag_is p (T g n a ks) then graftf p u ks ++ [u] else graftf p u ks).
Proof. reflexivity. Qed.

Lemma graftf_upd p u : forall (f : list tree) i t, NoDup (ftags f) -> nth_error f i = Some t ->
  In (Some p) (tags t) -> graftf p u f = upd_nth i (graft p u) f.
Proof.
  induction f as [|k f IH]; intros i t H Hi Hp; [destruct i; discriminate|].
  unfold ftags in H. cbn [flat_map] in H. destruct (NoDup_app_inv _ _ H) as [Hk [Hf Hd]].
  unfold graftf. cbn [map]. fold (graftf p u f). destruct i as [|i]; cbn [nth_error upd_nth] in *.
  - injection Hi as ->. f_equal. apply graftf_absent. apply Hd. exact Hp.
  - assert (Hp' : In (Some p) (ftags f)) by (apply (ftags_in f i t _ Hi Hp)).
    rewrite (graft_absent p u k) by (intros Hin; exact (Hd _ Hin Hp')). f_equal. apply (IH i t Hf Hi Hp).
Qed.

Lemma upd_nth_ext {A} (g h : A -> A) : forall (l : list A) i x, nth_error l i = Some x -> g x = h x ->
  upd_nth i g l = upd_nth i h l.
Proof.
  induction l as [|y l IH]; intros i x Hi E; [destruct i; discriminate|].
  destruct i as [|i]; cbn [nth_error upd_nth] in *; [injection Hi as ->; rewrite E; reflexivity|].
  f_equal. apply (IH i x Hi E).
Qed.

(* appending u below the node at reference q = grafting u below the node tagged like it *)
Theorem fappend_is_graft p u : forall q (f : list tree) tq,
  NoDup (ftags f) -> fget q f = Some tq -> ttag tq = Some p -> fappend q u f = graftf p u f.
Proof.
  induction q as [|i q IH]; intros f tq H Hg Ht; [discriminate|].
  cbn [fget] in Hg. destruct (nth_error f i) as [t|] eqn:Ei; [|discriminate].
  pose proof (ftags_nth f i t H Ei) as Hnt. destruct (tags_kids_nodup t Hnt) as [Hks Hroot].
  cbn [fappend]. destruct q as [|j q].
  - injection Hg as ->. rewrite (graftf_upd p u f i tq H Ei) by (rewrite <- Ht; apply tags_root).
    apply (upd_nth_ext _ _ f i tq Ei). destruct tq as [g n a ks]. cbn [fappend Modify.set_kids tkids] in *.
    rewrite graft_T, (tag_is_true p _ Ht). f_equal. f_equal. symmetry. apply graftf_absent.
    rewrite <- Ht. exact Hroot.
  - assert (Hin : In (Some p) (ftags (tkids t))) by (rewrite <- Ht; apply (fget_tag_in (j :: q) _ tq Hg)).
    rewrite (graftf_upd p u f i t H Ei) by (destruct t as [g n a ks]; rewrite tags_T; right; exact Hin).
    apply (upd_nth_ext _ _ f i t Ei). destruct t as [g n a ks]. cbn [Modify.set_kids tkids ttag] in *.
    rewrite graft_T.
    assert (E : tag_is p (T g n a ks) = false).
    { unfold tag_is. cbn [ttag]. destruct g as [y|]; [|reflexivity]. apply Nat.eqb_neq. intros ->. exact (Hroot Hin). }
    rewrite E. f_equal. apply (IH ks tq Hks Hg Ht).
Qed.

(* ---------------- the node at q is still there (same tag) at adj' x q after removing x ---------------- *)
Lemma fget_upd_tag i (f : list tree) t (g : tree -> tree) :
  nth_error f i = Some t -> ttag (g t) = ttag t ->
  option_map ttag (fget [i] (upd_nth i g f)) = Some (ttag t).
Proof.
  intros Ei Hg. cbn [fget]. rewrite nth_error_upd_nth, Nat.eqb_refl, Ei. cbn [option_map]. rewrite Hg. reflexivity.
Qed.

Lemma fget_tag_adj : forall x q (f : list tree) sub,
  fget x f = Some sub -> is_prefix x q = false -> q <> [] ->
  option_map ttag (fget (adj' x q) (fremove x f)) = option_map ttag (fget q f).
Proof.
  induction x as [|i x IH]; intros q f sub Hg Hpq Hq; [discriminate|].
  destruct q as [|j q]; [congruence|]. clear Hq.
  cbn [fget] in Hg. destruct (nth_error f i) as [t|] eqn:Ei; [|discriminate].
  destruct x as [|k x].
  - (* x = [i]: a root-level sibling is deleted *)
    cbn [is_prefix] in Hpq. rewrite andb_true_r in Hpq.
    unfold adj'. cbn [adj]. rewrite (Nat.eqb_sym j i), Hpq. cbn [fremove].
    assert (En : nth_error (del_nth i f) (if Nat.ltb i j then Nat.pred j else j) = nth_error f j).
    { apply Nat.eqb_neq in Hpq. destruct (Nat.ltb i j) eqn:El.
      - apply Nat.ltb_lt in El. apply nth_error_del_nth_ge. exact El.
      - apply Nat.ltb_ge in El. apply nth_error_del_nth_lt. lia. }
    cbn [fget]. rewrite En. reflexivity.
  - change (fremove (i :: k :: x) f) with (upd_nth i (fun t => Modify.set_kids t (fremove (k :: x) (tkids t))) f).
    destruct (Nat.eqb j i) eqn:Eji.
    + apply Nat.eqb_eq in Eji. subst j.
      cbn [is_prefix] in Hpq. rewrite Nat.eqb_refl in Hpq. cbn [andb] in Hpq.
      destruct q as [|j' q].
      * (* q = [i]: the root of the tree x lives in *)
        unfold adj'. cbn [adj]. rewrite Nat.eqb_refl. cbn [option_map].
        rewrite (fget_upd_tag i f t _ Ei) by (destruct t; reflexivity). cbn [fget]. rewrite Ei. reflexivity.
      * assert (Hx : k :: x <> []) by discriminate.
        unfold adj'. rewrite (adj_cons_same i (k :: x) (j' :: q) Hx).
        destruct (adj (k :: x) (j' :: q)) as [r|] eqn:Ea.
        -- cbn [option_map].
           assert (Hr : r <> []).
           { pose proof (adj'_nonempty (k :: x) (j' :: q)) as Hn. unfold adj' in Hn. rewrite Ea in Hn. apply Hn. discriminate. }
           assert (E1 : fget (i :: r) (upd_nth i (fun t0 => Modify.set_kids t0 (fremove (k :: x) (tkids t0))) f)
                        = fget r (fremove (k :: x) (tkids t))).
           { cbn [fget]. rewrite nth_error_upd_nth, Nat.eqb_refl, Ei. cbn [option_map].
             destruct r as [|r0 r]; [congruence|]. destruct t; reflexivity. }
           rewrite E1.
           assert (E2 : fget (i :: j' :: q) f = fget (j' :: q) (tkids t)) by (cbn [fget]; rewrite Ei; reflexivity).
           rewrite E2.
           specialize (IH (j' :: q) (tkids t) sub Hg Hpq). unfold adj' in IH. rewrite Ea in IH. apply IH. discriminate.
        -- exfalso. apply (adj_none (k :: x) (j' :: q) Hx) in Ea. cbn [is_prefix] in Ea, Hpq. congruence.
    + (* another root-level tree: untouched *)
      unfold adj'. cbn [adj]. rewrite Eji.
      cbn [fget]. rewrite nth_error_upd_nth, Eji. reflexivity.
Qed.

(* ---------------- cutting keeps the tags distinct ---------------- *)
Lemma cut_tags_incl c : forall t o, In o (tags (cut c t)) -> In o (tags t).
Proof.
  induction t as [g n a ks IH] using tree_ind'. intros o. rewrite cut_T, !tags_T. intros [->|Hin]; [left; reflexivity|].
  right. induction ks as [|k ks IHks]; [exact Hin|]. inversion IH as [|? ? Hk Hr]; subst.
  rewrite cutf_cons in Hin. unfold ftags in *. cbn [flat_map]. apply in_or_app.
  destruct (tag_is c k).
  - right. apply (IHks Hr Hin).
  - cbn [flat_map] in Hin. apply in_app_or in Hin. destruct Hin as [Hin|Hin]; [left; apply Hk; exact Hin|right; apply (IHks Hr Hin)].
Qed.

Lemma cutf_tags_incl c f o : In o (ftags (cutf c f)) -> In o (ftags f).
Proof.
  induction f as [|k f IH]; [intros H; exact H|]. rewrite cutf_cons. unfold ftags in *. cbn [flat_map]. intros Hin.
  apply in_or_app. destruct (tag_is c k).
  - right. apply IH. exact Hin.
  - cbn [flat_map] in Hin. apply in_app_or in Hin. destruct Hin as [Hin|Hin]; [left; apply (cut_tags_incl c k o Hin)|right; apply IH; exact Hin].
Qed.

Lemma NoDup_app_mk {A} (a b : list A) :
  NoDup a -> NoDup b -> (forall x, In x a -> ~ In x b) -> NoDup (a ++ b).
Proof.
  induction a as [|x a IH]; cbn [app]; intros Ha Hb Hd; [exact Hb|].
  inversion Ha as [|? ? Hx Hr]; subst. constructor.
  - intros Hin. apply in_app_or in Hin. destruct Hin as [Hin|Hin]; [exact (Hx Hin)|apply (Hd x (or_introl eq_refl) Hin)].
  - apply IH; [exact Hr|exact Hb|]. intros y Hy. apply Hd. right. exact Hy.
Qed.

Lemma cut_nodup c : forall t, NoDup (tags t) -> NoDup (tags (cut c t)).
Proof.
  induction t as [g n a ks IH] using tree_ind'. rewrite cut_T, !tags_T. intros H. inversion H as [|? ? Hg Hks]; subst.
  constructor; [intros Hin; apply Hg; apply (cutf_tags_incl c ks g Hin)|].
  clear Hg H. induction ks as [|k ks IHks]; [constructor|]. inversion IH as [|? ? Hk Hr]; subst.
  unfold ftags in Hks. cbn [flat_map] in Hks. destruct (NoDup_app_inv _ _ Hks) as [H1 [H2 Hd]].
  rewrite cutf_cons. destruct (tag_is c k); [apply (IHks Hr H2)|].
  unfold ftags. cbn [flat_map]. apply NoDup_app_mk; [apply Hk; exact H1|apply (IHks Hr H2)|].
  intros o Ho Ho'. apply (Hd o); [apply (cut_tags_incl c k o Ho)|apply (cutf_tags_incl c ks o Ho')].
Qed.

Lemma cutf_nodup c f : NoDup (ftags f) -> NoDup (ftags (cutf c f)).
Proof.
  induction f as [|k f IH]; intros H; [constructor|].
  unfold ftags in H. cbn [flat_map] in H. destruct (NoDup_app_inv _ _ H) as [H1 [H2 Hd]].
  rewrite cutf_cons. destruct (tag_is c k); [apply (IH H2)|].
  unfold ftags. cbn [flat_map]. apply NoDup_app_mk; [apply cut_nodup; exact H1|apply (IH H2)|].
  intros o Ho Ho'. apply (Hd o); [apply (cut_tags_incl c k o Ho)|apply (cutf_tags_incl c f o Ho')].
Qed.

(* ---------------- the bridge ---------------- *)
(* `x.parent = y` in the reference-addressed model of modify.py = the tag-addressed surgery of C01 *)
Theorem move_is_surgery : forall (f : list tree) x q sub tq c p,
  NoDup (ftags f) ->
  fget x f = Some sub -> ttag sub = Some c ->
  fget q f = Some tq -> ttag tq = Some p ->
  is_prefix x q = false ->
  fappend (adj' x q) sub (fremove x f) = graftf p sub (cutf c f).
Proof.
  intros f x q sub tq c p H Hx Hc Hq Hp Hpq.
  assert (Hqn : q <> []) by (destruct q; [discriminate|discriminate]).
  pose proof (fget_tag_adj x q f sub Hx Hpq Hqn) as Ht. rewrite Hq in Ht. cbn [option_map] in Ht.
  destruct (fget (adj' x q) (fremove x f)) as [tq'|] eqn:Eq'; [|discriminate]. cbn [option_map] in Ht.
  rewrite (fremove_is_cut c x f sub H Hx Hc) in *.
  apply (fappend_is_graft p sub (adj' x q) (cutf c f) tq'); [apply cutf_nodup; exact H|exact Eq'|congruence].
Qed.

(* the model's `move` (x.parent = q) returns exactly that surgery when it succeeds *)
Theorem move_ok_is_surgery : forall nr (f : list tree) x q sub tq c p f' trk,
  NoDup (ftags f) ->
  fget x f = Some sub -> ttag sub = Some c ->
  fget q f = Some tq -> ttag tq = Some p ->
  move nr f x (Some q) = MvOk f' trk ->
  f' = graftf p sub (cutf c f).
Proof.
  intros nr f x q sub tq c p f' trk H Hx Hc Hq Hp Hm.
  unfold move in Hm. rewrite Hx in Hm.
  destruct (is_prefix x q) eqn:Epq; [discriminate|].
  destruct (fkids q f) as [ks|]; [|discriminate].
  destruct (dup_child (tname sub) _ 0 ks); [discriminate|].
  destruct (protected nr x); [discriminate|].
  destruct (fkids (adj' x q) (fremove x f)) as [ks1|]; [|discriminate].
  injection Hm as <- _. apply (move_is_surgery f x q sub tq c p); assumption.
Qed.

(* x.parent = None: the subtree is cut out and becomes a tree of its own, last in the forest *)
Theorem move_none_is_cut : forall nr (f : list tree) x sub c f' trk,
  NoDup (ftags f) -> fget x f = Some sub -> ttag sub = Some c -> (2 <= length x)%nat ->
  move nr f x None = MvOk f' trk ->
  f' = cutf c f ++ [sub].
Proof.
  intros nr f x sub c f' trk H Hx Hc Hl Hm. unfold move in Hm. rewrite Hx in Hm.
  destruct x as [|i [|j x]]; cbn [length] in Hl; try lia.
  injection Hm as <- _. rewrite <- (fremove_is_cut c (i :: j :: x) f sub H Hx Hc). reflexivity.
Qed.

(* ---------------- the commuting square: heap setter / abstraction / reference model ---------------- *)
(* every node reached by a reference inside the rose tree of a heap node is the rose tree of a heap node *)
Lemma fget_subtree s : WF s -> forall x (l : list id) sub,
  fget x (map (subtree s) l) = Some sub -> exists z, sub = subtree s z.
Proof.
  intros W. induction x as [|i x IH]; intros l sub H; [discriminate|]. cbn [fget] in H.
  rewrite nth_error_map in H. destruct (nth_error l i) as [y|] eqn:Ei; cbn [option_map] in H; [|discriminate].
  destruct x as [|j x]; [injection H as <-; exists y; reflexivity|].
  rewrite (subtree_unfold s y W) in H. cbn [tkids] in H. apply (IH _ _ H).
Qed.

(* Running the reference model's `move` on the rose tree that hangs below r in heap state s gives the rose
   tree that hangs below r after the heap model's parent assignment `attach s c (Some p)`. *)
Theorem move_commutes_with_attach : forall s r c p x q sub tq f' trk,
  WF s -> c < size s -> p < size s -> p <> c -> ~ In c (ancestors s p) ->
  ~ In (Some r) (tags (subtree s c)) ->
  fget x [subtree s r] = Some sub -> ttag sub = Some c ->
  fget q [subtree s r] = Some tq -> ttag tq = Some p ->
  move 1 [subtree s r] x (Some q) = MvOk f' trk ->
  f' = [subtree (Forest.attach s c (Some p)) r].
Proof.
  intros s r c p x q sub tq f' trk W Hc Hp Hpc Hanc Hr Hx Htc Hq Htp Hm.
  assert (Hnd : NoDup (ftags [subtree s r])).
  { unfold ftags. cbn [flat_map]. rewrite app_nil_r. apply subtree_tags_nodup. exact W. }
  rewrite (move_ok_is_surgery 1 [subtree s r] x q sub tq c p f' trk Hnd Hx Htc Hq Htp Hm).
  assert (Hsub : sub = subtree s c).
  { destruct (fget_subtree s W x [r] sub Hx) as [z ->]. rewrite subtree_tag in Htc. congruence. }
  subst sub. unfold graftf, cutf. cbn [map filter].
  assert (Ert : tag_is c (cut c (subtree s r)) = false).
  { unfold tag_is. rewrite cut_tag, subtree_tag. apply Nat.eqb_neq. intros ->.
    apply Hr. rewrite <- (subtree_tag s c) at 1. apply tags_root. }
  rewrite Ert. cbn [negb map]. f_equal. symmetry.
  apply (attach_is_surgery s c (Some p) W Hc).
  - intros p0 [= <-]. repeat split; assumption.
  - exact Hr.
Qed.
