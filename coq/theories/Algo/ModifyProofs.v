(* Proofs about Algo/Modify.v (the model of bigtree/tree/modify.py) for property C08. *)
From BT Require Import Base.Prelude Base.Str Base.Rose Algo.Modify Spec.PC08.

(* ============================================================================================== *)
(* Part 1.  One call with several pairs = the same single-pair calls in sequence.                  *)
(* The only thing a later pair's argument checks read from the tree is the name of the root(s);    *)
(* no step of the model changes it.                                                               *)

Lemma nth_error_upd_nth {A} (g : A -> A) (l : list A) i k :
  nth_error (upd_nth i g l) k = if Nat.eqb k i then option_map g (nth_error l k) else nth_error l k.
Proof.
  revert i k; induction l as [|x l IH]; intros i k; cbn.
  - destruct i; destruct k; cbn; try reflexivity. destruct (Nat.eqb k i); reflexivity.
  - destruct i as [|i]; destruct k as [|k]; cbn; try reflexivity. apply IH.
Qed.

Lemma length_upd_nth {A} (g : A -> A) (l : list A) i : length (upd_nth i g l) = length l.
Proof. revert i; induction l as [|x l IH]; intros [|i]; cbn; try reflexivity. now rewrite IH. Qed.

Lemma nth_error_del_nth_lt {A} (l : list A) i k : k < i -> nth_error (del_nth i l) k = nth_error l k.
Proof.
  revert i k; induction l as [|x l IH]; intros i k Hk; cbn; [reflexivity|].
  destruct i as [|i]; [lia|]. destruct k as [|k]; cbn; [reflexivity|]. apply IH. lia.
Qed.

Lemma length_del_nth {A} (l : list A) i : i < length l -> S (length (del_nth i l)) = length l.
Proof.
  revert i; induction l as [|x l IH]; intros i Hi; cbn in *; [lia|].
  destruct i as [|i]; cbn; [reflexivity|]. rewrite IH by lia. reflexivity.
Qed.

Lemma tname_set_kids t ks : tname (set_kids t ks) = tname t.
Proof. destruct t; reflexivity. Qed.

Definition names_kept (nr : nat) (f f' : forest) : Prop :=
  nr <= length f' /\ forall k, k < nr -> root_name f' k = root_name f k.

Lemma names_kept_refl nr f : nr <= length f -> names_kept nr f f.
Proof. intros H; split; [exact H|reflexivity]. Qed.

Lemma names_kept_trans nr f g h : names_kept nr f g -> names_kept nr g h -> names_kept nr f h.
Proof. intros [L1 N1] [L2 N2]; split; [exact L2|]. intros k Hk. rewrite N2, N1 by exact Hk. reflexivity. Qed.

Lemma names_kept_upd nr (f : forest) i (g : tree -> tree) :
  (forall t, tname (g t) = tname t) -> nr <= length f -> names_kept nr f (upd_nth i g f).
Proof.
  intros Hg Hl; split; [now rewrite length_upd_nth|]. intros k _. unfold root_name.
  rewrite nth_error_upd_nth. destruct (Nat.eqb k i); [|reflexivity].
  destruct (nth_error f k); cbn; [apply Hg|reflexivity].
Qed.

Lemma names_kept_app nr f l : nr <= length f -> names_kept nr f (f ++ l).
Proof.
  intros Hl; split; [rewrite app_length; lia|]. intros k Hk. unfold root_name.
  rewrite nth_error_app1 by lia. reflexivity.
Qed.

Lemma fget_some_lt x i p f t : fget (i :: p) f = Some t -> x = i -> i < length f.
Proof.
  intros H _. cbn in H. destruct (nth_error f i) eqn:E; [|discriminate].
  apply nth_error_Some. congruence.
Qed.

Lemma names_kept_fremove nr (f : forest) x :
  nr <= length f -> protected nr x = false -> (exists t, fget x f = Some t) ->
  names_kept nr f (fremove x f).
Proof.
  intros Hl Hp [t Ht]. destruct x as [|i p]; [apply names_kept_refl; exact Hl|].
  pose proof (fget_some_lt i i p f t Ht eq_refl) as Hi.
  cbn [fremove]. destruct p as [|j p].
  - cbn in Hp. apply Nat.ltb_ge in Hp. split.
    + pose proof (length_del_nth f i Hi). lia.
    + intros k Hk. unfold root_name. rewrite nth_error_del_nth_lt by lia. reflexivity.
  - apply names_kept_upd; [intros; apply tname_set_kids|exact Hl].
Qed.

Lemma names_kept_fremove_deep nr (f : forest) i j p :
  nr <= length f -> names_kept nr f (fremove (i :: j :: p) f).
Proof.
  intros Hl. cbn [fremove]. apply names_kept_upd; [intros; apply tname_set_kids|exact Hl].
Qed.

Lemma names_kept_fappend nr f q x : nr <= length f -> names_kept nr f (fappend q x f).
Proof.
  intros Hl. destruct q as [|i q]; cbn [fappend].
  - apply names_kept_app; exact Hl.
  - apply names_kept_upd; [intros; apply tname_set_kids|exact Hl].
Qed.

Lemma move_names nr (f : forest) x y f' t :
  nr <= length f -> move nr f x y = MvOk f' t -> names_kept nr f f'.
Proof.
  intros Hl H. unfold move in H.
  destruct (fget x f) as [sub|] eqn:Eg; [|discriminate].
  destruct y as [q|].
  - destruct (is_prefix x q); [discriminate|].
    destruct (fkids q f) as [ks|]; [|discriminate].
    destruct (dup_child _ _ _ _); [discriminate|].
    destruct (protected nr x) eqn:Ep; [discriminate|].
    destruct (fkids (adj' x q) (fremove x f)) as [ks1|]; [|discriminate].
    inversion H; subst; clear H.
    assert (K : names_kept nr f (fremove x f)) by (apply names_kept_fremove; eauto).
    eapply names_kept_trans; [exact K|]. apply names_kept_fappend. apply K.
  - destruct x as [|i [|j p]].
    + inversion H; subst.
      eapply names_kept_trans; [apply names_kept_refl; exact Hl|]. apply names_kept_app. exact Hl.
    + inversion H; subst. apply names_kept_refl; exact Hl.
    + inversion H; subst; clear H.
      assert (K : names_kept nr f (fremove (i :: j :: p) f)) by (apply names_kept_fremove_deep; exact Hl).
      eapply names_kept_trans; [exact K|]. apply names_kept_app. apply K.
Qed.

Lemma del_children_go_names nr n : forall (f : forest) x trk f' t,
  nr <= length f -> del_children_go nr n f x trk = MvOk f' t -> names_kept nr f f'.
Proof.
  induction n as [|n IH]; intros f x trk f' t Hl H; cbn in H.
  - inversion H; subst. apply names_kept_refl; exact Hl.
  - destruct (move nr f (x ++ [0]) None) as [f1 t1|] eqn:Em; [|discriminate].
    pose proof (move_names _ _ _ _ _ _ Hl Em) as K.
    eapply names_kept_trans; [exact K|]. eapply IH; [apply K|exact H].
Qed.

Lemma del_children_names nr (f : forest) x f' t :
  nr <= length f -> del_children nr f x = MvOk f' t -> names_kept nr f f'.
Proof.
  intros Hl H. unfold del_children in H. destruct (fkids x f); [|discriminate].
  eapply del_children_go_names; eauto.
Qed.

Lemma opt_del_children_names nr (b : bool) (f : forest) x f' t :
  nr <= length f ->
  (if b then del_children nr f x else MvOk f (fun z => z)) = MvOk f' t -> names_kept nr f f'.
Proof.
  intros Hl H. destruct b; [eapply del_children_names; eauto|].
  inversion H; subst. apply names_kept_refl; exact Hl.
Qed.

Lemma mc_loop_names nr dc cs : forall (f : forest) trk tn fr f' fr',
  nr <= length f -> mc_loop nr dc f cs trk tn fr = (f', Ret fr') -> names_kept nr f f'.
Proof.
  induction cs as [|ch cs IH]; intros f trk tn fr f' fr' Hl H; cbn [mc_loop] in H.
  - inversion H; subst. apply names_kept_refl; exact Hl.
  - destruct (if dc then del_children nr f (trk ch) else MvOk f (fun z => z)) as [f1 t1|] eqn:E1; [|discriminate].
    pose proof (opt_del_children_names _ _ _ _ _ _ Hl E1) as K1.
    destruct (move nr f1 (t1 (trk ch)) (option_map t1 tn)) as [f2 t2|] eqn:E2; [|discriminate].
    pose proof (move_names _ _ _ _ _ _ (proj1 K1) E2) as K2.
    eapply names_kept_trans; [exact K1|]. eapply names_kept_trans; [exact K2|].
    eapply IH; [apply K2|exact H].
Qed.

Lemma ml_loop_names nr ls : forall (f : forest) trk tn f',
  nr <= length f -> ml_loop nr f ls trk tn = (f', None) -> names_kept nr f f'.
Proof.
  induction ls as [|l ls IH]; intros f trk tn f' Hl H; cbn [ml_loop] in H.
  - inversion H; subst. apply names_kept_refl; exact Hl.
  - destruct (move nr f (trk l) tn) as [f1 t1|] eqn:E1; [|discriminate].
    pose proof (move_names _ _ _ _ _ _ Hl E1) as K1.
    eapply names_kept_trans; [exact K1|]. eapply IH; [apply K1|exact H].
Qed.

Lemma rp_loop_names nr sibs : forall (f : forest) first trk fr par f',
  nr <= length f -> rp_loop nr f first sibs trk fr par = (f', None) -> names_kept nr f f'.
Proof.
  induction sibs as [|s sibs IH]; intros f first trk fr par f' Hl H; cbn [rp_loop] in H.
  - inversion H; subst. apply names_kept_refl; exact Hl.
  - destruct (move nr f (trk s) None) as [f1 t1|] eqn:E1; [|discriminate].
    pose proof (move_names _ _ _ _ _ _ Hl E1) as K1.
    destruct (move nr f1 (if first then t1 fr else t1 (trk s)) (Some (t1 par))) as [f2 t2|] eqn:E2; [|discriminate].
    pose proof (move_names _ _ _ _ _ _ (proj1 K1) E2) as K2.
    eapply names_kept_trans; [exact K1|]. eapply names_kept_trans; [exact K2|].
    eapply IH; [apply K2|exact H].
Qed.

Lemma copy_node_names nr (f : forest) x f' x' :
  nr <= length f -> copy_node f x = Some (f', x') -> names_kept nr f f'.
Proof.
  intros Hl H. unfold copy_node in H. destruct x as [|k p]; [discriminate|].
  destruct (nth_error f k); [|discriminate]. inversion H; subst. apply names_kept_app; exact Hl.
Qed.

Lemma opt_copy_names nr (b : bool) (f : forest) x f' x' :
  nr <= length f -> (if b then copy_node f x else Some (f, x)) = Some (f', x') -> names_kept nr f f'.
Proof.
  intros Hl H. destruct b; [eapply copy_node_names; eauto|]. inversion H; subst. apply names_kept_refl; exact Hl.
Qed.

Ltac bad := let H := fresh "Hbad" in intros H; inversion H.

Lemma attach_names c mc (f : forest) fr tn f' :
  nroots c <= length f -> attach c mc f fr tn = (f', None) -> names_kept (nroots c) f f'.
Proof.
  intros Hl. unfold attach.
  destruct (if c_copy c then copy_node f fr else Some (f, fr)) as [[f0 fr0]|] eqn:Ec; [|bad].
  pose proof (opt_copy_names _ _ _ _ _ _ Hl Ec) as K0.
  destruct ((mc || f_ml (c_fl c)) && match tn with None => true | Some _ => false end); [bad|].
  destruct mc.
  - destruct (fkids fr0 f0) as [ks|]; [|bad].
    destruct (mc_loop (nroots c) (f_dc (c_fl c)) f0 (child_refs fr0 (length ks)) (fun z => z) tn fr0)
      as [f1 [fr1|e]] eqn:El; [|bad].
    pose proof (mc_loop_names _ _ _ _ _ _ _ _ _ (proj1 K0) El) as K1.
    destruct (move (nroots c) f1 fr1 None) as [f2 t2|] eqn:Em; [|bad].
    pose proof (move_names _ _ _ _ _ _ (proj1 K1) Em) as K2.
    intros H; inversion H; subst.
    eapply names_kept_trans; [exact K0|]. eapply names_kept_trans; eassumption.
  - destruct (f_ml (c_fl c)).
    + destruct (negb (c_copy c) && match tn with Some q => is_prefix fr0 q | None => false end); [bad|].
      intros H. eapply names_kept_trans; [exact K0|]. eapply ml_loop_names; [apply K0|exact H].
    + destruct (if f_dc (c_fl c) then del_children (nroots c) f0 fr0 else MvOk f0 (fun z => z))
        as [f1 t1|] eqn:E1; [|bad].
      pose proof (opt_del_children_names _ _ _ _ _ _ (proj1 K0) E1) as K1.
      destruct (move (nroots c) f1 (t1 fr0) (option_map t1 tn)) as [f2 t2|] eqn:Em; [|bad].
      pose proof (move_names _ _ _ _ _ _ (proj1 K1) Em) as K2.
      intros H; inversion H; subst.
      eapply names_kept_trans; [exact K0|]. eapply names_kept_trans; eassumption.
Qed.

Lemma detach_names nr (f : forest) dr fr f' r :
  nr <= length f -> detach_to_parent nr f dr fr = (f', Ret r) -> names_kept nr f f'.
Proof.
  intros Hl H. unfold detach_to_parent in H.
  destruct (move nr f dr None) as [f1 t1|] eqn:Em; [|inversion H].
  inversion H; subst. eapply move_names; eauto.
Qed.

Lemma add_walk_names nr comps : forall (f : forest) here f' q,
  nr <= length f -> here <> [] -> add_walk f here comps = (f', Ret q) -> names_kept nr f f'.
Proof.
  induction comps as [|c comps IH]; intros f here f' q Hl Hh H; cbn [add_walk] in H.
  - inversion H; subst. apply names_kept_refl; exact Hl.
  - destruct (fkids here f) as [ks|]; [|inversion H].
    destruct (name_idx c 0 ks) as [|i [|j r]].
    + destruct c as [|ch c]; [inversion H|].
      assert (K : names_kept nr f (fappend here (fresh_node (ch :: c)) f)) by (apply names_kept_fappend; exact Hl).
      eapply names_kept_trans; [exact K|]. eapply IH; [apply K| |exact H].
      destruct here; [congruence|discriminate].
    + eapply IH; [exact Hl| |exact H]. destruct here; [congruence|discriminate].
    + inversion H.
Qed.

Lemma cs_core_names c (f : forest) fr tg f' :
  nroots c <= length f -> cs_core c f fr tg = (f', None) -> names_kept (nroots c) f f'.
Proof.
  intros Hl H. unfold cs_core in H. destruct tg as [|dr|comps].
  - eapply attach_names; eauto.
  - repeat match type of H with
    | (if ?b then _ else _) = _ => destruct b
    | context [detach_to_parent ?a ?b ?c ?d] =>
        let E := fresh "E" in destruct (detach_to_parent a b c d) as [f1 [[fr1 tn]|e]] eqn:E;
        [pose proof (detach_names _ _ _ _ _ _ Hl E)|inversion H]
    | context [del_children ?a ?b ?c] =>
        let E := fresh "E" in destruct (del_children a b c) as [f1 t1|] eqn:E;
        [pose proof (del_children_names _ _ _ _ _ Hl E)|inversion H]
    end;
    try (inversion H; fail);
    try (eapply attach_names; eauto; fail);
    try (eapply names_kept_trans; [eassumption|]; eapply attach_names; [|eassumption];
         match goal with K : names_kept _ _ _ |- _ => apply K end).
  - destruct (add_walk f [dpiece c] comps) as [f1 [q|e]] eqn:Ea; [|inversion H].
    assert (K : names_kept (nroots c) f f1) by (eapply add_walk_names; [exact Hl| |exact Ea]; discriminate).
    eapply names_kept_trans; [exact K|]. eapply attach_names; [apply K|exact H].
Qed.

Lemma cs_pair_names c (f : forest) fp tp f' :
  nroots c <= length f -> cs_pair c f fp tp = (f', None) -> names_kept (nroots c) f f'.
Proof.
  intros Hl H. unfold cs_pair in H.
  destruct (resolve_from c f fp) as [[fr|]|e]; [| |inversion H].
  - destruct (resolve_target c f tp) as [tg|e]; [|inversion H]. eapply cs_core_names; eauto.
  - destruct (f_skip (c_fl c)); inversion H; subst. apply names_kept_refl; exact Hl.
Qed.

Lemma rp_core_names c (f : forest) fr dr f' :
  nroots c <= length f -> rp_core c f fr dr = (f', None) -> names_kept (nroots c) f f'.
Proof.
  intros Hl H. unfold rp_core in H.
  destruct (ref_eqb fr dr); [inversion H|].
  destruct (if c_copy c then copy_node f fr else Some (f, fr)) as [[f0 fr0]|] eqn:Ec; [|inversion H].
  pose proof (opt_copy_names _ _ _ _ _ _ Hl Ec) as K0.
  destruct (if f_dc (c_fl c) then _ else _) as [f1 t1|] eqn:E1; [|inversion H].
  pose proof (opt_del_children_names _ _ _ _ _ _ (proj1 K0) E1) as K1.
  destruct (parent_ref (t1 dr)) as [par|]; [|inversion H].
  destruct (fkids par f1) as [ks|]; [|inversion H].
  pose proof (rp_loop_names _ _ _ _ _ _ _ _ (proj1 K1) H) as K2.
  eapply names_kept_trans; [exact K0|]. eapply names_kept_trans; eassumption.
Qed.

Lemma rp_pair_names c (f : forest) fp tp f' :
  nroots c <= length f -> rp_pair c f fp tp = (f', None) -> names_kept (nroots c) f f'.
Proof.
  intros Hl H. unfold rp_pair in H.
  destruct (resolve_from c f fp) as [[fr|]|e]; [| |inversion H].
  - destruct tp as [tpath|]; [|inversion H].
    destruct (find_full_path f (dpiece c) (c_dsep c) tpath) as [[dr|]|e]; try (inversion H; fail).
    eapply rp_core_names; eauto.
  - destruct (f_skip (c_fl c)); inversion H; subst. apply names_kept_refl; exact Hl.
Qed.

(* -- argument checks of a pair list and of its single pairs ------------------------------------- *)

Definition pair_ok_cs (c : cfg) (f : forest) (fp : str) (tp : option str) : Prop :=
  cs_validate c f [fp] [tp] = None.

Lemma dpiece_lt c : dpiece c < nroots c.
Proof. unfold dpiece, nroots. destruct (c_two c); lia. Qed.

Lemma roots_ok_kept c (f : forest) f' fps tps :
  names_kept (nroots c) f f' -> roots_ok c f' fps tps = roots_ok c f fps tps.
Proof.
  intros [_ N]. unfold roots_ok.
  rewrite (N 0) by (unfold nroots; destruct (c_two c); lia).
  rewrite (N (dpiece c)) by apply dpiece_lt. reflexivity.
Qed.

Lemma cs_validate_kept c (f : forest) f' fps tps :
  names_kept (nroots c) f f' -> cs_validate c f' fps tps = cs_validate c f fps tps.
Proof. intros K. unfold cs_validate. rewrite (roots_ok_kept _ _ _ _ _ K). reflexivity. Qed.

Lemma rp_validate_kept c (f : forest) f' fps tps :
  names_kept (nroots c) f f' -> rp_validate c f' fps tps = rp_validate c f fps tps.
Proof. intros K. unfold rp_validate. rewrite (roots_ok_kept _ _ _ _ _ K). reflexivity. Qed.

Ltac bdestr H :=
  match type of H with
  | (if ?b then _ else _) = _ => let E := fresh "E" in destruct b eqn:E; [discriminate H|]
  end.

(* a list that passes the checks: its head pair and its tail pass them too *)
Lemma cs_validate_cons c (f : forest) fp fps tp tps :
  cs_validate c f (fp :: fps) (tp :: tps) = None ->
  cs_validate c f [fp] [tp] = None /\ cs_validate c f fps tps = None.
Proof.
  unfold cs_validate. intros H.
  destruct (f_mc (c_fl c) && f_ml (c_fl c)); [discriminate|].
  bdestr H. cbn [length] in E. apply negb_false_iff, Nat.eqb_eq in E. injection E as E.
  bdestr H. cbn [existsb] in E0. rewrite andb_orb_distrib_r in E0. apply orb_false_iff in E0 as [Ea Eb].
  bdestr H. cbn [map last_names_ok] in E0. apply negb_false_iff, andb_true_iff in E0 as [Ec Ed].
  bdestr H. unfold roots_ok in E0. cbn [map forallb] in E0. apply negb_false_iff in E0.
  apply andb_true_iff in E0 as [Ee Ef]. apply andb_true_iff in Ef as [Ef Eg].
  split.
  - cbn [length existsb map last_names_ok]. rewrite Nat.eqb_refl. cbn [negb].
    rewrite orb_false_r, Ea, Ec. cbn [andb negb].
    unfold roots_ok. cbn [map forallb]. rewrite Ef. rewrite !andb_true_r.
    destruct (f_full (c_fl c)); cbn [negb orb] in *.
    + apply andb_true_iff in Ee as [Ee _]. rewrite Ee. reflexivity.
    + reflexivity.
  - rewrite E, Nat.eqb_refl, Eb, Ed. cbn [negb]. unfold roots_ok. rewrite Eg, andb_true_r.
    destruct (f_full (c_fl c)); cbn [negb orb] in *.
    + apply andb_true_iff in Ee as [_ Ee]. rewrite Ee. reflexivity.
    + reflexivity.
Qed.

Lemma rp_validate_cons c (f : forest) fp fps tp tps :
  rp_validate c f (fp :: fps) (tp :: tps) = None ->
  rp_validate c f [fp] [tp] = None /\ rp_validate c f fps tps = None.
Proof.
  unfold rp_validate. intros H.
  bdestr H. cbn [length] in E. apply negb_false_iff, Nat.eqb_eq in E. injection E as E.
  bdestr H. unfold roots_ok in E0. cbn [map forallb] in E0. apply negb_false_iff in E0.
  apply andb_true_iff in E0 as [Ee Ef]. apply andb_true_iff in Ef as [Ef Eg].
  split.
  - cbn [length]. rewrite Nat.eqb_refl. cbn [negb]. unfold roots_ok. cbn [map forallb]. rewrite Ef, !andb_true_r.
    destruct (f_full (c_fl c)); cbn [negb orb] in *.
    + apply andb_true_iff in Ee as [Ee _]. rewrite Ee. reflexivity.
    + reflexivity.
  - rewrite E, Nat.eqb_refl. cbn [negb]. unfold roots_ok. rewrite Eg, andb_true_r.
    destruct (f_full (c_fl c)); cbn [negb orb] in *.
    + apply andb_true_iff in Ee as [_ Ee]. rewrite Ee. reflexivity.
    + reflexivity.
Qed.

Lemma cs_validate_len c f fps tps : cs_validate c f fps tps = None -> length fps = length tps.
Proof.
  unfold cs_validate. intros H. destruct (f_mc (c_fl c) && f_ml (c_fl c)); [discriminate|].
  bdestr H. apply negb_false_iff, Nat.eqb_eq in E. exact E.
Qed.

Lemma rp_validate_len c f fps tps : rp_validate c f fps tps = None -> length fps = length tps.
Proof. unfold rp_validate. intros H. bdestr H. apply negb_false_iff, Nat.eqb_eq in E. exact E. Qed.

(* the sequence of single-pair calls of copy_or_shift_logic *)
Fixpoint cs_seq (c : cfg) (f : forest) (fps : list str) (tps : list (option str)) : outc :=
  match fps, tps with
  | fp :: fps', tp :: tps' =>
      match copy_or_shift_logic c f [fp] [tp] with
      | (f1, None) => cs_seq c f1 fps' tps'
      | r => r
      end
  | _, _ => (f, None)
  end.

Fixpoint rp_seq (c : cfg) (f : forest) (fps : list str) (tps : list (option str)) : outc :=
  match fps, tps with
  | fp :: fps', tp :: tps' =>
      match replace_logic c f [fp] [tp] with
      | (f1, None) => rp_seq c f1 fps' tps'
      | r => r
      end
  | _, _ => (f, None)
  end.

Lemma cs_multi_is_seq c : seps_ok c = true -> forall fps tps f,
  nroots c <= length f -> cs_validate c f fps tps = None ->
  run_pairs (cs_pair c) f (map (norm_from c) fps) (map (norm_to c) tps) = cs_seq c f fps tps.
Proof.
  intros Hs. induction fps as [|fp fps IH]; intros tps f Hl Hv.
  - destruct tps; reflexivity.
  - destruct tps as [|tp tps]; [apply cs_validate_len in Hv; discriminate|].
    apply cs_validate_cons in Hv as [Hv1 Hv2].
    cbn [map run_pairs cs_seq]. unfold copy_or_shift_logic at 1. rewrite Hs, Hv1. cbn [negb map run_pairs].
    destruct (cs_pair c f (norm_from c fp) (norm_to c tp)) as [f1 [e|]] eqn:Ep; [reflexivity|].
    pose proof (cs_pair_names _ _ _ _ _ Hl Ep) as K.
    apply IH; [apply K|]. rewrite (cs_validate_kept _ _ _ _ _ K). exact Hv2.
Qed.

Lemma rp_multi_is_seq c : seps_ok c = true -> forall fps tps f,
  nroots c <= length f -> rp_validate c f fps tps = None ->
  run_pairs (rp_pair c) f (map (norm_from c) fps) (map (norm_to c) tps) = rp_seq c f fps tps.
Proof.
  intros Hs. induction fps as [|fp fps IH]; intros tps f Hl Hv.
  - destruct tps; reflexivity.
  - destruct tps as [|tp tps]; [apply rp_validate_len in Hv; discriminate|].
    apply rp_validate_cons in Hv as [Hv1 Hv2].
    cbn [map run_pairs rp_seq]. unfold replace_logic at 1. rewrite Hs, Hv1. cbn [negb map run_pairs].
    destruct (rp_pair c f (norm_from c fp) (norm_to c tp)) as [f1 [e|]] eqn:Ep; [reflexivity|].
    pose proof (rp_pair_names _ _ _ _ _ Hl Ep) as K.
    apply IH; [apply K|]. rewrite (rp_validate_kept _ _ _ _ _ K). exact Hv2.
Qed.

(* the pair list of a call passes the argument checks of modify.py:1051-1108 / 1271-1311 *)
Definition valid_call (i : minput) : bool :=
  seps_ok (cfg_of i) &&
  match (if is_replace (mi_op i)
         then rp_validate (cfg_of i) (init_forest i) (mi_from i) (mi_to i)
         else cs_validate (cfg_of i) (init_forest i) (mi_from i) (mi_to i)) with
  | None => true
  | Some _ => false
  end.

Lemma run_seq_from_cs i : is_replace (mi_op i) = false -> forall fps tps f,
  run_seq_from i f fps tps = cs_seq (cfg_of i) f fps tps.
Proof.
  intros Hr. induction fps as [|fp fps IH]; intros tps f; [reflexivity|].
  destruct tps as [|tp tps]; [reflexivity|]. cbn [run_seq_from cs_seq]. unfold run_from. rewrite Hr.
  destruct (copy_or_shift_logic (cfg_of i) f [fp] [tp]) as [f1 [e|]]; [reflexivity|]. apply IH.
Qed.

Lemma run_seq_from_rp i : is_replace (mi_op i) = true -> forall fps tps f,
  run_seq_from i f fps tps = rp_seq (cfg_of i) f fps tps.
Proof.
  intros Hr. induction fps as [|fp fps IH]; intros tps f; [reflexivity|].
  destruct tps as [|tp tps]; [reflexivity|]. cbn [run_seq_from rp_seq]. unfold run_from. rewrite Hr.
  destruct (replace_logic (cfg_of i) f [fp] [tp]) as [f1 [e|]]; [reflexivity|]. apply IH.
Qed.

Lemma init_forest_len i : nroots (cfg_of i) <= length (init_forest i).
Proof. unfold nroots, cfg_of, init_forest. cbn. destruct (is_tt (mi_op i)); cbn; lia. Qed.

Theorem multi_is_sequence i : valid_call i = true -> run i = run_seq i.
Proof.
  unfold valid_call. intros H. apply andb_true_iff in H as [Hs Hv].
  unfold run, run_seq, run_from at 1. destruct (is_replace (mi_op i)) eqn:Hr.
  - rewrite (run_seq_from_rp i Hr). unfold replace_logic. rewrite Hs. cbn [negb].
    destruct (rp_validate _ _ _ _) eqn:Ev; [discriminate|].
    apply rp_multi_is_seq; [exact Hs|apply init_forest_len|exact Ev].
  - rewrite (run_seq_from_cs i Hr). unfold copy_or_shift_logic. rewrite Hs. cbn [negb].
    destruct (cs_validate _ _ _ _) eqn:Ev; [discriminate|].
    apply cs_multi_is_seq; [exact Hs|apply init_forest_len|exact Ev].
Qed.


(* ============================================================================================== *)
(* Part 2.  Path tables of forests: what removing / appending a subtree does to the rows.          *)

Definition frows (pre : list str) (f : forest) : table := flat_map (rows_from pre) f.

Lemma rows_from_eq pre t :
  rows_from pre t = (pre ++ [tname t], ttag t, tattrs t) :: frows (pre ++ [tname t]) (tkids t).
Proof. destruct t; reflexivity. Qed.

Lemma frows_app pre a b : frows pre (a ++ b) = frows pre a ++ frows pre b.
Proof. unfold frows. apply flat_map_app. Qed.

Lemma frows_cons pre t f : frows pre (t :: f) = rows_from pre t ++ frows pre f.
Proof. reflexivity. Qed.

(* sibling names are unique, hereditarily: a path identifies a node *)
Inductive wf_t : tree -> Prop :=
| WfT g n a ks : NoDup (map tname ks) -> Forall wf_t ks -> wf_t (T g n a ks).
Definition wf_f (f : forest) : Prop := NoDup (map tname f) /\ Forall wf_t f.

Lemma wf_t_kids t : wf_t t -> wf_f (tkids t).
Proof. intros H; inversion H; subst; split; assumption. Qed.

Lemma wf_t_set_kids t ks : wf_f ks -> wf_t (set_kids t ks).
Proof. intros [H1 H2]. destruct t; cbn. constructor; assumption. Qed.

(* name path of the node a reference points to *)
Fixpoint fpath (pre : list str) (p : ref) (f : forest) : option (list str) :=
  match p with
  | [] => Some pre
  | i :: p' => match nth_error f i with
               | Some t => fpath (pre ++ [tname t]) p' (tkids t)
               | None => None
               end
  end.

(* -- prefixes of name paths -------------------------------------------------------------------- *)

Lemma path_eqb_eq a b : path_eqb a b = true <-> a = b.
Proof.
  unfold path_eqb. revert b; induction a as [|x a IH]; intros [|y b]; cbn; split; intros H;
    try reflexivity; try discriminate.
  - apply andb_true_iff in H as [H1 H2]. apply str_eqb_eq in H1. apply IH in H2. subst. reflexivity.
  - inversion H; subst. rewrite str_eqb_refl. cbn. apply IH. reflexivity.
Qed.

Lemma path_eqb_refl a : path_eqb a a = true.
Proof. apply path_eqb_eq. reflexivity. Qed.

Lemma pfx_app p r : pfx p (p ++ r) = true.
Proof. induction p as [|x p IH]; cbn; [reflexivity|]. rewrite str_eqb_refl. exact IH. Qed.

Lemma pfx_refl p : pfx p p = true.
Proof. rewrite <- (app_nil_r p) at 2. apply pfx_app. Qed.

Lemma pfx_app_same pre x y : pfx (pre ++ x) (pre ++ y) = pfx x y.
Proof. induction pre as [|a pre IH]; cbn; [reflexivity|]. rewrite str_eqb_refl. exact IH. Qed.

Lemma pfx_iff p z : pfx p z = true <-> exists r, z = p ++ r.
Proof.
  revert z; induction p as [|x p IH]; intros z; cbn.
  - split; [intros _; exists z; reflexivity|reflexivity].
  - destruct z as [|y z]; [split; [discriminate|intros [r Hr]; discriminate]|].
    split.
    + intros H. apply andb_true_iff in H as [H1 H2]. apply str_eqb_eq in H1. apply IH in H2 as [r ->].
      subst. exists r. reflexivity.
    + intros [r Hr]. inversion Hr; subst. rewrite str_eqb_refl. cbn. apply IH. exists r. reflexivity.
Qed.

Lemma pfx_long p z : length z < length p -> pfx p z = false.
Proof.
  intros H. destruct (pfx p z) eqn:E; [|reflexivity]. apply pfx_iff in E as [r ->].
  rewrite app_length in H. lia.
Qed.

Lemma pfx_diff pre a b x y : a <> b -> pfx (pre ++ a :: x) (pre ++ b :: y) = false.
Proof.
  intros H. rewrite pfx_app_same. cbn. destruct (str_eqb a b) eqn:E; [|reflexivity].
  apply str_eqb_eq in E. contradiction.
Qed.

Lemma pfx_trans a b c : pfx a b = true -> pfx b c = true -> pfx a c = true.
Proof.
  intros H1 H2. apply pfx_iff in H1 as [r1 ->]. apply pfx_iff in H2 as [r2 ->].
  rewrite <- app_assoc. apply pfx_app.
Qed.

(* -- every row of a tree lies below the tree's own path ---------------------------------------- *)

Lemma rows_from_under t : forall pre r, In r (rows_from pre t) -> exists rest, rpath r = pre ++ tname t :: rest.
Proof.
  induction t as [g n a ks IH] using tree_ind'. intros pre r Hr. cbn [rows_from] in Hr.
  destruct Hr as [<-|Hr].
  - exists []. reflexivity.
  - apply in_flat_map in Hr as [k [Hk Hr]]. rewrite Forall_forall in IH.
    destruct (IH k Hk _ _ Hr) as [rest Hrest]. exists (tname k :: rest). cbn [tname].
    rewrite Hrest. rewrite <- app_assoc. reflexivity.
Qed.

Lemma frows_under pre f r : In r (frows pre f) -> exists t rest, In t f /\ rpath r = pre ++ tname t :: rest.
Proof.
  unfold frows. intros H. apply in_flat_map in H as [t [Ht Hr]].
  destruct (rows_from_under _ _ _ Hr) as [rest Hrest]. exists t, rest. split; assumption.
Qed.

Lemma filter_all {A} (g : A -> bool) l : (forall x, In x l -> g x = true) -> filter g l = l.
Proof.
  induction l as [|x l IH]; intros H; cbn; [reflexivity|].
  rewrite (H x (or_introl eq_refl)). f_equal. apply IH. intros y Hy. apply H. right. exact Hy.
Qed.

Lemma filter_none {A} (g : A -> bool) l : (forall x, In x l -> g x = false) -> filter g l = [].
Proof.
  induction l as [|x l IH]; intros H; cbn; [reflexivity|].
  rewrite (H x (or_introl eq_refl)). apply IH. intros y Hy. apply H. right. exact Hy.
Qed.

(* rows of a tree whose name differs from the component of P at that level are not below P *)
Lemma rows_other_not_under pre t n rest r :
  tname t <> n -> In r (rows_from pre t) -> under (pre ++ n :: rest) r = false.
Proof.
  intros Hn Hr. destruct (rows_from_under _ _ _ Hr) as [rs Hrs]. unfold under. rewrite Hrs.
  apply pfx_diff. congruence.
Qed.

Lemma rows_self_under pre t r : In r (rows_from pre t) -> under (pre ++ [tname t]) r = true.
Proof.
  intros Hr. destruct (rows_from_under _ _ _ Hr) as [rs Hrs]. unfold under. rewrite Hrs.
  replace (pre ++ tname t :: rs) with ((pre ++ [tname t]) ++ rs) by (rewrite <- app_assoc; reflexivity).
  apply pfx_app.
Qed.

Lemma frows_other_not_under pre f n rest r :
  (forall t, In t f -> tname t <> n) -> In r (frows pre f) -> under (pre ++ n :: rest) r = false.
Proof.
  intros Hn Hr. unfold frows in Hr. apply in_flat_map in Hr as [t [Ht Hr]].
  eapply rows_other_not_under; [apply Hn; exact Ht|exact Hr].
Qed.

(* -- splitting a forest at an index ------------------------------------------------------------- *)

Lemma nth_error_split_at {A} (l : list A) i x :
  nth_error l i = Some x -> exists a b, l = a ++ x :: b /\ length a = i.
Proof.
  intros H. apply nth_error_split in H as [a [b [H1 H2]]]. exists a, b. split; assumption.
Qed.

Lemma del_nth_mid {A} (a b : list A) x : del_nth (length a) (a ++ x :: b) = a ++ b.
Proof. induction a as [|y a IH]; cbn; [reflexivity|]. rewrite IH. reflexivity. Qed.

Lemma upd_nth_mid {A} (g : A -> A) (a b : list A) x : upd_nth (length a) g (a ++ x :: b) = a ++ g x :: b.
Proof. induction a as [|y a IH]; cbn; [reflexivity|]. rewrite IH. reflexivity. Qed.

Lemma nth_error_mid {A} (a b : list A) x : nth_error (a ++ x :: b) (length a) = Some x.
Proof. induction a as [|y a IH]; cbn; [reflexivity|exact IH]. Qed.

Lemma wf_f_mid a t b :
  wf_f (a ++ t :: b) ->
  wf_t t /\ wf_f (a ++ b) /\ (forall u, In u (a ++ b) -> tname u <> tname t).
Proof.
  intros [Hn Hf]. rewrite map_app in Hn. cbn [map] in Hn.
  pose proof (NoDup_remove_1 _ _ _ Hn) as Hn1. pose proof (NoDup_remove_2 _ _ _ Hn) as Hn2.
  rewrite Forall_app in Hf. destruct Hf as [Hfa Hfb]. inversion Hfb as [|? ? Ht Hfb']; subst.
  split; [exact Ht|]. split.
  - split; [rewrite map_app; exact Hn1|]. rewrite Forall_app. split; assumption.
  - intros u Hu E. apply Hn2. rewrite <- map_app. rewrite <- E. apply in_map. exact Hu.
Qed.

Lemma fpath_ext pre p f P : fpath pre p f = Some P -> exists rest, P = pre ++ rest /\ length rest = length p.
Proof.
  revert pre f; induction p as [|i p IH]; intros pre f H; cbn in H.
  - inversion H; subst. exists []. rewrite app_nil_r. split; reflexivity.
  - destruct (nth_error f i) as [t|]; [|discriminate]. apply IH in H as [rest [-> Hl]].
    exists (tname t :: rest). rewrite <- app_assoc. split; [reflexivity|cbn; lia].
Qed.

(* -- (R) removing the subtree at p removes exactly the rows at or below its path --------------- *)

Lemma frows_fremove : forall p pre (f : forest) P,
  wf_f f -> p <> [] -> fpath pre p f = Some P ->
  frows pre (fremove p f) = minus (frows pre f) P.
Proof.
  induction p as [|i p IH]; intros pre f P Hwf Hp HP; [congruence|].
  cbn [fpath] in HP. destruct (nth_error f i) as [t|] eqn:Et; [|discriminate].
  apply nth_error_split_at in Et as [a [b [-> <-]]].
  apply wf_f_mid in Hwf as [Ht [Hab Hne]].
  unfold minus. rewrite !frows_app, frows_cons, !filter_app.
  destruct (fpath_ext _ _ _ _ HP) as [rest [HPe Hrl]]. rewrite <- app_assoc in HPe. cbn [app] in HPe.
  assert (Ha : filter (fun r => negb (under P r)) (frows pre a) = frows pre a).
  { apply filter_all. intros r Hr. rewrite HPe.
    erewrite frows_other_not_under; [reflexivity| |exact Hr]. intros u Hu. apply Hne. apply in_or_app. left; exact Hu. }
  assert (Hb : filter (fun r => negb (under P r)) (frows pre b) = frows pre b).
  { apply filter_all. intros r Hr. rewrite HPe.
    erewrite frows_other_not_under; [reflexivity| |exact Hr]. intros u Hu. apply Hne. apply in_or_app. right; exact Hu. }
  rewrite Ha, Hb. cbn [fremove]. destruct p as [|j p].
  - cbn in HP. inversion HP; subst P. rewrite del_nth_mid, frows_app.
    rewrite (filter_none _ (rows_from pre t)); [reflexivity|].
    intros r Hr. rewrite (rows_self_under _ _ _ Hr). reflexivity.
  - rewrite upd_nth_mid, frows_app, frows_cons. f_equal. f_equal.
    rewrite (rows_from_eq pre (set_kids t _)), (rows_from_eq pre t), tname_set_kids.
    cbn [filter]. unfold under at 1. cbn [rpath fst].
    rewrite pfx_long by (rewrite HPe, !app_length; cbn [length] in *; lia). cbn [negb].
    destruct t as [g n at_ ks]. cbn [set_kids ttag tattrs tkids tname] in *. f_equal.
    apply IH; [apply (wf_t_kids _ Ht)|discriminate|exact HP].
Qed.

(* -- (A) appending a subtree as last child of q inserts its rows after the block of q ---------- *)

Lemma existsb_app' {A} (g : A -> bool) a b : existsb g (a ++ b) = existsb g a || existsb g b.
Proof. apply existsb_app. Qed.

Lemma existsb_false {A} (g : A -> bool) l : (forall x, In x l -> g x = false) -> existsb g l = false.
Proof.
  induction l as [|x l IH]; intros H; cbn; [reflexivity|].
  rewrite (H x (or_introl eq_refl)). apply IH. intros y Hy. apply H. right; exact Hy.
Qed.

Lemma existsb_true {A} (g : A -> bool) l x : In x l -> g x = true -> existsb g l = true.
Proof. intros Hx Hg. apply existsb_exists. exists x. split; assumption. Qed.

(* rows in front of a block that still contains a row below P are passed over *)
Lemma insert_last_front X K P rs :
  existsb (under P) K = true -> insert_last (X ++ K) P rs = X ++ insert_last K P rs.
Proof.
  intros HK. induction X as [|x X IH]; [reflexivity|]. cbn [app insert_last].
  rewrite existsb_app', HK, orb_true_r, andb_false_r. rewrite IH. reflexivity.
Qed.

(* rows behind the block, none of them below P, stay behind *)
Lemma insert_last_back K Z P rs :
  existsb (under P) K = true -> existsb (under P) Z = false ->
  insert_last (K ++ Z) P rs = insert_last K P rs ++ Z.
Proof.
  intros HK HZ. induction K as [|k K IH]; [discriminate|]. cbn [app insert_last].
  rewrite existsb_app', HZ, orb_false_r.
  destruct (under P k && negb (existsb (under P) K)) eqn:E.
  - cbn [app]. rewrite <- app_assoc. reflexivity.
  - cbn [app]. f_equal. apply IH. cbn [existsb] in HK.
    destruct (under P k); cbn in *; [|exact HK]. destruct (existsb (under P) K); [reflexivity|discriminate].
Qed.

(* a block all of whose rows are below P: the new rows go right behind it *)
Lemma insert_last_all Y P rs :
  Y <> [] -> (forall r, In r Y -> under P r = true) -> insert_last Y P rs = Y ++ rs.
Proof.
  induction Y as [|y Y IH]; intros Hne Hall; [congruence|]. cbn [insert_last].
  rewrite (Hall y (or_introl eq_refl)). destruct Y as [|y' Y].
  - cbn. rewrite app_nil_r. reflexivity.
  - assert (E : existsb (under P) (y' :: Y) = true).
    { eapply existsb_true; [left; reflexivity|]. apply Hall. right; left; reflexivity. }
    rewrite E. cbn [negb andb app]. f_equal. apply IH; [discriminate|].
    intros r Hr. apply Hall. right; exact Hr.
Qed.

(* the node a reference points to has a row, and that row carries its path *)
Lemma fpath_row : forall p pre (f : forest) P,
  p <> [] -> fpath pre p f = Some P -> exists r, In r (frows pre f) /\ rpath r = P.
Proof.
  induction p as [|i p IH]; intros pre f P Hp HP; [congruence|].
  cbn [fpath] in HP. destruct (nth_error f i) as [t|] eqn:Et; [|discriminate].
  apply nth_error_split_at in Et as [a [b [-> <-]]].
  destruct p as [|j p].
  - cbn in HP. inversion HP; subst. exists (pre ++ [tname t], ttag t, tattrs t). split; [|reflexivity].
    rewrite frows_app, frows_cons, rows_from_eq. apply in_or_app. right. left. reflexivity.
  - destruct (IH _ _ _ ltac:(discriminate) HP) as [r [Hr Hrp]]. exists r. split; [|exact Hrp].
    rewrite frows_app, frows_cons, rows_from_eq. apply in_or_app. right. right. apply in_or_app. left. exact Hr.
Qed.

Lemma frows_fappend : forall q pre (f : forest) P x,
  wf_f f -> q <> [] -> fpath pre q f = Some P ->
  frows pre (fappend q x f) = insert_last (frows pre f) P (rows_from P x).
Proof.
  induction q as [|i q IH]; intros pre f P x Hwf Hq HP; [congruence|].
  cbn [fpath] in HP. destruct (nth_error f i) as [t|] eqn:Et; [|discriminate].
  apply nth_error_split_at in Et as [a [b [-> <-]]].
  apply wf_f_mid in Hwf as [Ht [Hab Hne]].
  destruct (fpath_ext _ _ _ _ HP) as [rest [HPe Hrl]]. rewrite <- app_assoc in HPe. cbn [app] in HPe.
  assert (Hb : existsb (under P) (frows pre b) = false).
  { apply existsb_false. intros r Hr. rewrite HPe.
    eapply frows_other_not_under; [|exact Hr]. intros u Hu. apply Hne. apply in_or_app. right; exact Hu. }
  cbn [fappend]. rewrite upd_nth_mid, !frows_app, !frows_cons.
  rewrite (rows_from_eq pre (set_kids t _)), (rows_from_eq pre t), tname_set_kids.
  destruct t as [g n at_ ks]. cbn [set_kids ttag tattrs tkids tname] in *.
  destruct q as [|j q].
  - destruct rest as [|? ?]; [|cbn in Hrl; discriminate]. subst P. clear HP.
    cbn [fappend]. rewrite frows_app. cbn [frows flat_map]. rewrite app_nil_r.
    set (Y := (pre ++ [n], g, at_) :: frows (pre ++ [n]) ks).
    assert (HY : forall r, In r Y -> under (pre ++ [n]) r = true).
    { intros r [<-|Hr]; [unfold under; cbn; apply pfx_refl|].
      apply frows_under in Hr as [u [rs [_ Hrs]]]. unfold under. rewrite Hrs. apply pfx_app. }
    assert (EY : existsb (under (pre ++ [n])) Y = true).
    { eapply existsb_true; [left; reflexivity|]. unfold under; cbn; apply pfx_refl. }
    change ((pre ++ [n], g, at_) :: frows (pre ++ [n]) ks ++ rows_from (pre ++ [n]) x)
      with (Y ++ rows_from (pre ++ [n]) x) at 1.
    change (((pre ++ [n], g, at_) :: frows (pre ++ [n]) ks) ++ frows pre b) with (Y ++ frows pre b).
    rewrite insert_last_front by (rewrite existsb_app', EY; reflexivity).
    rewrite insert_last_back by assumption. rewrite insert_last_all; [|discriminate|exact HY].
    rewrite <- !app_assoc. reflexivity.
  - assert (Hq' : j :: q <> []) by discriminate.
    pose proof (wf_t_kids _ Ht) as Hk. cbn [tkids] in Hk.
    rewrite (IH _ _ _ x Hk Hq' HP).
    destruct (fpath_row _ _ _ _ Hq' HP) as [r [Hr Hrp]].
    assert (EK : existsb (under P) (frows (pre ++ [n]) ks) = true).
    { eapply existsb_true; [exact Hr|]. unfold under. rewrite Hrp. apply pfx_refl. }
    set (K := frows (pre ++ [n]) ks) in *.
    symmetry.
    transitivity (insert_last ((frows pre a ++ [(pre ++ [n], g, at_)]) ++ (K ++ frows pre b)) P (rows_from P x)).
    { f_equal. rewrite <- !app_assoc. reflexivity. }
    rewrite insert_last_front by (rewrite existsb_app', EK; reflexivity).
    rewrite insert_last_back by assumption.
    rewrite <- !app_assoc. reflexivity.
Qed.

(* -- (G) the rows at or below the path of a node are the rows of its subtree -------------------- *)

Lemma fget_rows : forall p pre (f : forest) P x,
  wf_f f -> fget p f = Some x -> fpath pre p f = Some P ->
  exists P0, P = P0 ++ [tname x] /\ sub_rows (frows pre f) P = rows_from P0 x.
Proof.
  induction p as [|i p IH]; intros pre f P x Hwf Hg HP; [discriminate|].
  cbn [fget] in Hg. cbn [fpath] in HP. destruct (nth_error f i) as [t|] eqn:Et; [|discriminate].
  apply nth_error_split_at in Et as [a [b [-> <-]]].
  apply wf_f_mid in Hwf as [Ht [Hab Hne]].
  destruct (fpath_ext _ _ _ _ HP) as [rest [HPe Hrl]]. rewrite <- app_assoc in HPe. cbn [app] in HPe.
  unfold sub_rows. rewrite !frows_app, frows_cons, !filter_app.
  assert (Ha : filter (under P) (frows pre a) = []).
  { apply filter_none. intros r Hr. rewrite HPe.
    eapply frows_other_not_under; [|exact Hr]. intros u Hu. apply Hne. apply in_or_app. left; exact Hu. }
  assert (Hb : filter (under P) (frows pre b) = []).
  { apply filter_none. intros r Hr. rewrite HPe.
    eapply frows_other_not_under; [|exact Hr]. intros u Hu. apply Hne. apply in_or_app. right; exact Hu. }
  rewrite Ha, Hb, app_nil_r. cbn [app]. destruct p as [|j p].
  - inversion Hg; subst x. cbn in HP. inversion HP; subst P. exists pre. split; [reflexivity|].
    apply filter_all. intros r Hr. apply rows_self_under. exact Hr.
  - pose proof (wf_t_kids _ Ht) as Hk.
    destruct (IH _ _ _ _ Hk Hg HP) as [P0 [HP0 Hsub]]. exists P0. split; [exact HP0|].
    rewrite rows_from_eq. cbn [filter]. unfold under at 1. cbn [rpath fst].
    rewrite pfx_long by (rewrite HPe, !app_length; cbn [length] in *; lia).
    exact Hsub.
Qed.

Lemma fget_fpath p : forall pre (f : forest) x, fget p f = Some x -> exists P, fpath pre p f = Some P.
Proof.
  induction p as [|i p IH]; intros pre f x Hg; [discriminate|].
  cbn [fget] in Hg. cbn [fpath]. destruct (nth_error f i) as [t|]; [|discriminate].
  destruct p as [|j p]; [exists (pre ++ [tname t]); reflexivity|]. eapply IH. exact Hg.
Qed.

Lemma fkids_fget q : forall (f : forest), q <> [] -> fkids q f = option_map tkids (fget q f).
Proof.
  induction q as [|i q IH]; intros f Hq; [congruence|]. cbn [fkids fget].
  destruct (nth_error f i) as [t|]; [|reflexivity]. destruct q as [|j q]; [reflexivity|].
  apply IH. discriminate.
Qed.

Lemma fpath_fget p : forall pre (f : forest) P, p <> [] -> fpath pre p f = Some P -> exists x, fget p f = Some x.
Proof.
  induction p as [|i p IH]; intros pre f P Hp HP; [congruence|].
  cbn [fget]. cbn [fpath] in HP. destruct (nth_error f i) as [t|]; [|discriminate].
  destruct p as [|j p]; [exists t; reflexivity|]. eapply IH; [discriminate|exact HP].
Qed.

(* -- references after a removal ----------------------------------------------------------------- *)

Lemma nth_error_del_nth_ge {A} (l : list A) i j : i < j -> nth_error (del_nth i l) (Nat.pred j) = nth_error l j.
Proof.
  revert i j; induction l as [|x l IH]; intros i j Hij; cbn.
  - destruct j; [lia|]. cbn. destruct j; reflexivity.
  - destruct i as [|i]; destruct j as [|j]; try lia; cbn; [reflexivity|].
    destruct j as [|j]; [lia|]. cbn. apply (IH i (S j)). lia.
Qed.

Lemma adj_none x : forall q, x <> [] -> adj x q = None -> is_prefix x q = true.
Proof.
  induction x as [|i x IH]; intros q Hx H; [congruence|].
  destruct q as [|j q]; [cbn in H; destruct x; discriminate|].
  cbn [adj] in H. destruct x as [|k x].
  - destruct (Nat.eqb j i) eqn:E; [|discriminate]. apply Nat.eqb_eq in E. subst. cbn. rewrite Nat.eqb_refl. reflexivity.
  - destruct (Nat.eqb j i) eqn:E; [|discriminate]. apply Nat.eqb_eq in E. subst.
    destruct (adj (k :: x) q) eqn:Ea; [discriminate|].
    cbn [is_prefix]. rewrite Nat.eqb_refl. apply IH; [discriminate|exact Ea].
Qed.

Lemma is_prefix_cons i x j q : is_prefix (i :: x) (j :: q) = Nat.eqb i j && is_prefix x q.
Proof. reflexivity. Qed.

Lemma fpath_adj : forall x q pre (f : forest) sub,
  fget x f = Some sub -> is_prefix x q = false ->
  fpath pre (adj' x q) (fremove x f) = fpath pre q f.
Proof.
  induction x as [|i x IH]; intros q pre f sub Hg Hpq; [discriminate|].
  destruct q as [|j q]; [unfold adj'; cbn; destruct x; reflexivity|].
  cbn [fget] in Hg. destruct (nth_error f i) as [t|] eqn:Et; [|discriminate].
  rewrite is_prefix_cons in Hpq. unfold adj'. cbn [adj fremove]. destruct x as [|k x].
  - cbn [is_prefix] in Hpq. rewrite andb_true_r in Hpq. rewrite Nat.eqb_sym in Hpq. rewrite Hpq.
    cbn [fpath]. apply Nat.eqb_neq in Hpq.
    destruct (Nat.ltb i j) eqn:El.
    + apply Nat.ltb_lt in El. rewrite nth_error_del_nth_ge by exact El. reflexivity.
    + apply Nat.ltb_ge in El. rewrite nth_error_del_nth_lt by lia. reflexivity.
  - destruct (Nat.eqb j i) eqn:Eji.
    + apply Nat.eqb_eq in Eji. subst j. rewrite Nat.eqb_refl in Hpq. cbn [andb] in Hpq.
      destruct (adj (k :: x) q) as [r|] eqn:Ea.
      * cbn [option_map fpath]. rewrite nth_error_upd_nth, Nat.eqb_refl, Et. cbn [option_map].
        rewrite tname_set_kids. destruct t as [g n a ks]. cbn [set_kids tkids tname].
        specialize (IH q (pre ++ [n]) ks sub Hg Hpq). unfold adj' in IH. rewrite Ea in IH. exact IH.
      * apply adj_none in Ea; [congruence|discriminate].
    + cbn [fpath]. rewrite nth_error_upd_nth, Eji. reflexivity.
Qed.

(* a node that is neither inside the removed subtree nor an ancestor of it keeps its subtree *)
Lemma fget_adj : forall x q (f : forest) sub,
  fget x f = Some sub -> is_prefix x q = false -> is_prefix q x = false ->
  fget (adj' x q) (fremove x f) = fget q f.
Proof.
  induction x as [|i x IH]; intros q f sub Hg Hpq Hqp; [discriminate|].
  destruct q as [|j q]; [discriminate|].
  cbn [fget] in Hg. destruct (nth_error f i) as [t|] eqn:Et; [|discriminate].
  rewrite is_prefix_cons in Hpq, Hqp. unfold adj'. cbn [adj fremove]. destruct x as [|k x].
  - cbn [is_prefix] in Hpq. rewrite andb_true_r in Hpq. rewrite Nat.eqb_sym in Hpq. rewrite Hpq.
    cbn [fget]. apply Nat.eqb_neq in Hpq.
    destruct (Nat.ltb i j) eqn:El.
    + apply Nat.ltb_lt in El. rewrite nth_error_del_nth_ge by exact El. reflexivity.
    + apply Nat.ltb_ge in El. rewrite nth_error_del_nth_lt by lia. reflexivity.
  - destruct (Nat.eqb j i) eqn:Eji.
    + apply Nat.eqb_eq in Eji. subst j. rewrite Nat.eqb_refl in Hpq. cbn [andb] in Hpq, Hqp.
      destruct q as [|j' q']; [discriminate|].
      destruct (adj (k :: x) (j' :: q')) as [r|] eqn:Ea.
      * cbn [option_map fget]. rewrite nth_error_upd_nth, Nat.eqb_refl, Et. cbn [option_map].
        destruct t as [g n a ks]. cbn [set_kids tkids].
        specialize (IH (j' :: q') ks sub Hg Hpq Hqp). unfold adj' in IH. rewrite Ea in IH.
        destruct r as [|r0 r].
        -- cbn [adj] in Ea. destruct x; [destruct (Nat.eqb j' k); discriminate|].
           destruct (Nat.eqb j' k); [destruct (adj _ _); discriminate|discriminate].
        -- exact IH.
      * apply adj_none in Ea; [congruence|discriminate].
    + cbn [fget]. rewrite nth_error_upd_nth, Eji. reflexivity.
Qed.

Lemma NoDup_app_snoc {A} (l : list A) x : NoDup l -> ~ In x l -> NoDup (l ++ [x]).
Proof.
  induction l as [|y l IH]; intros Hn Hx; cbn; [constructor; [intros []|constructor]|].
  inversion Hn as [|? ? Hy Hn']; subst. constructor.
  - intros Hin. apply in_app_or in Hin as [Hin|[E|[]]]; [contradiction|]. subst. apply Hx. left; reflexivity.
  - apply IH; [exact Hn'|]. intros Hin. apply Hx. right; exact Hin.
Qed.

(* -- well-formedness is kept -------------------------------------------------------------------- *)

Lemma map_tname_upd_nth i (g : tree -> tree) (f : forest) :
  (forall t, tname (g t) = tname t) -> map tname (upd_nth i g f) = map tname f.
Proof.
  intros Hg. revert i; induction f as [|t f IH]; intros i; cbn; [reflexivity|].
  destruct i; cbn; [rewrite Hg; reflexivity|rewrite IH; reflexivity].
Qed.

Lemma Forall_upd_nth (P : tree -> Prop) i (g : tree -> tree) (f : forest) :
  (forall t, P t -> P (g t)) -> Forall P f -> Forall P (upd_nth i g f).
Proof.
  intros Hg H. revert i; induction H as [|t f Ht Hf IH]; intros i; cbn; [constructor|].
  destruct i; constructor; auto.
Qed.

Lemma wf_f_del_nth i (f : forest) : wf_f f -> wf_f (del_nth i f).
Proof.
  intros [Hn Hf]. revert i; induction f as [|t f IH]; intros i; cbn; [split; assumption|].
  cbn [map] in Hn. inversion Hn as [|? ? Hnotin Hn']; subst. inversion Hf as [|? ? Ht Hf']; subst.
  destruct i; [split; assumption|].
  destruct (IH Hn' Hf' i) as [H1 H2]. split.
  - cbn [map]. constructor; [|exact H1]. intros Hin. apply Hnotin.
    clear -Hin. revert i Hin; induction f as [|u f IHf]; intros i Hin; cbn in *; [exact Hin|].
    destruct i; [right; exact Hin|]. destruct Hin as [E|Hin]; [left; exact E|right; eapply IHf; exact Hin].
  - constructor; assumption.
Qed.

Lemma wf_fremove : forall p (f : forest), wf_f f -> wf_f (fremove p f).
Proof.
  induction p as [|i p IH]; intros f Hwf; [exact Hwf|]. cbn [fremove]. destruct p as [|j p].
  - apply wf_f_del_nth. exact Hwf.
  - destruct Hwf as [Hn Hf]. split.
    + rewrite map_tname_upd_nth; [exact Hn|intros; apply tname_set_kids].
    + apply Forall_upd_nth; [|exact Hf]. intros t Ht. apply wf_t_set_kids. apply IH. apply wf_t_kids. exact Ht.
Qed.

Lemma wf_fappend : forall q (f : forest) x ks,
  wf_f f -> wf_t x -> q <> [] -> fkids q f = Some ks -> (forall k, In k ks -> tname k <> tname x) ->
  wf_f (fappend q x f).
Proof.
  induction q as [|i q IH]; intros f x ks Hwf Hx Hq Hk Hfresh; [congruence|].
  cbn [fkids] in Hk. destruct (nth_error f i) as [t|] eqn:Et; [|discriminate].
  apply nth_error_split_at in Et as [a [b [-> <-]]]. cbn [fappend]. rewrite upd_nth_mid.
  destruct Hwf as [Hn Hf]. split.
  - rewrite map_app in *. cbn [map] in *. rewrite tname_set_kids. exact Hn.
  - rewrite Forall_app in *. destruct Hf as [Hfa Hfb]. split; [exact Hfa|].
    inversion Hfb as [|? ? Ht Hfb']; subst. constructor; [|exact Hfb'].
    apply wf_t_set_kids. destruct q as [|j q].
    + cbn in Hk. inversion Hk; subst ks. cbn [fappend]. destruct (wf_t_kids _ Ht) as [Hkn Hkf]. split.
      * rewrite map_app. cbn [map]. apply NoDup_app_snoc; [exact Hkn|].
        intros Hin. apply in_map_iff in Hin as [k [Hk1 Hk2]]. apply (Hfresh k Hk2). exact Hk1.
      * rewrite Forall_app. split; [exact Hkf|constructor; [exact Hx|constructor]].
    + eapply IH; [apply wf_t_kids; exact Ht|exact Hx|discriminate|exact Hk|exact Hfresh].
Qed.

(* ============================================================================================== *)
(* Part 3.  One tree: the tree object handed to the call is piece 0 of the forest.                *)

Definition t_remove (p : ref) (t : tree) : tree := set_kids t (fremove p (tkids t)).
Definition t_append (q : ref) (x : tree) (t : tree) : tree := set_kids t (fappend q x (tkids t)).
Definition tpath (t : tree) (q : ref) : option (list str) := fpath [tname t] q (tkids t).
Definition tget (t : tree) (p : ref) : option tree := fget p (tkids t).

Lemma rows_eq t : rows t = ([tname t], ttag t, tattrs t) :: frows [tname t] (tkids t).
Proof. unfold rows. rewrite rows_from_eq. reflexivity. Qed.

Lemma tkids_set_kids t ks : tkids (set_kids t ks) = ks.
Proof. destruct t; reflexivity. Qed.
Lemma ttag_set_kids t ks : ttag (set_kids t ks) = ttag t.
Proof. destruct t; reflexivity. Qed.
Lemma tattrs_set_kids t ks : tattrs (set_kids t ks) = tattrs t.
Proof. destruct t; reflexivity. Qed.

Lemma tpath_ext t p P : tpath t p = Some P -> exists rest, P = tname t :: rest /\ length rest = length p.
Proof. unfold tpath. intros H. apply fpath_ext in H as [rest [-> Hl]]. exists rest. split; [reflexivity|exact Hl]. Qed.

Lemma rows_t_remove t p PX :
  wf_t t -> p <> [] -> tpath t p = Some PX -> rows (t_remove p t) = minus (rows t) PX.
Proof.
  intros Hwf Hp HP. unfold t_remove. rewrite !rows_eq, tname_set_kids, ttag_set_kids, tattrs_set_kids, tkids_set_kids.
  unfold minus. cbn [filter]. unfold under at 1. cbn [rpath fst].
  destruct (tpath_ext _ _ _ HP) as [rest [HPe Hl]].
  rewrite pfx_long by (rewrite HPe; cbn [length]; destruct p; [congruence|cbn in Hl; lia]).
  cbn [negb]. f_equal. apply frows_fremove; [apply wf_t_kids; exact Hwf|exact Hp|exact HP].
Qed.

Lemma rows_t_append t q x PQ :
  wf_t t -> tpath t q = Some PQ -> rows (t_append q x t) = insert_last (rows t) PQ (rows_from PQ x).
Proof.
  intros Hwf HP. unfold t_append. rewrite !rows_eq, tname_set_kids, ttag_set_kids, tattrs_set_kids, tkids_set_kids.
  destruct q as [|i q].
  - unfold tpath in HP. cbn in HP. inversion HP; subst PQ. cbn [fappend]. rewrite frows_app. cbn [frows flat_map].
    rewrite app_nil_r.
    rewrite insert_last_all; [reflexivity|discriminate|].
    intros r [<-|Hr]; [unfold under; cbn; rewrite str_eqb_refl; reflexivity|].
    apply frows_under in Hr as [u [rs [_ Hrs]]]. unfold under. rewrite Hrs. apply pfx_app.
  - assert (Hq : i :: q <> []) by discriminate.
    rewrite (frows_fappend _ _ _ _ x (wf_t_kids _ Hwf) Hq HP).
    destruct (fpath_row _ _ _ _ Hq HP) as [r [Hr Hrp]].
    change (([tname t], ttag t, tattrs t) :: frows [tname t] (tkids t))
      with ([([tname t], ttag t, tattrs t)] ++ frows [tname t] (tkids t)).
    rewrite insert_last_front; [reflexivity|].
    eapply existsb_true; [exact Hr|]. unfold under. rewrite Hrp. apply pfx_refl.
Qed.

Lemma wf_t_remove t p : wf_t t -> wf_t (t_remove p t).
Proof. intros H. apply wf_t_set_kids. apply wf_fremove. apply wf_t_kids. exact H. Qed.

Lemma fkids_cons0 q (t : tree) rest : fkids (0 :: q) (t :: rest) = fkids q (tkids t).
Proof. reflexivity. Qed.

Lemma fget_cons0 q (t : tree) rest : q <> [] -> fget (0 :: q) (t :: rest) = fget q (tkids t).
Proof. intros H. cbn. destruct q; [congruence|reflexivity]. Qed.

Lemma fremove_cons0 p (t : tree) rest : p <> [] -> fremove (0 :: p) (t :: rest) = t_remove p t :: rest.
Proof. intros H. cbn [fremove]. destruct p; [congruence|reflexivity]. Qed.

Lemma fappend_cons0 q x (t : tree) rest : fappend (0 :: q) x (t :: rest) = t_append q x t :: rest.
Proof. reflexivity. Qed.

Lemma fkids_of_fpath q : forall pre (f : forest) P, fpath pre q f = Some P -> exists ks, fkids q f = Some ks.
Proof.
  induction q as [|i q IH]; intros pre f P H; cbn in *; [exists f; reflexivity|].
  destruct (nth_error f i) as [t|]; [|discriminate]. eapply IH. exact H.
Qed.

Lemma dup_child_false nm skip ks : (forall k, In k ks -> tname k <> nm) -> forall i, dup_child nm skip i ks = false.
Proof.
  induction ks as [|k ks IH]; intros H i; cbn; [reflexivity|].
  destruct (str_eqb (tname k) nm) eqn:E.
  - apply str_eqb_eq in E. exfalso. apply (H k (or_introl eq_refl)). exact E.
  - cbn. apply IH. intros k' Hk'. apply H. right; exact Hk'.
Qed.

Lemma adj'_cons0 p q : p <> [] -> is_prefix p q = false -> adj' (0 :: p) (0 :: q) = 0 :: adj' p q.
Proof.
  intros Hp Hpq. unfold adj'. cbn [adj]. destruct p as [|j p]; [congruence|]. cbn [Nat.eqb].
  destruct (adj (j :: p) q) eqn:E; [reflexivity|]. apply adj_none in E; [congruence|discriminate].
Qed.

(* x.parent = y inside one tree: remove at p, append at q *)
Definition t_move (p q : ref) (x : tree) (t : tree) : tree := t_append (adj' p q) x (t_remove p t).

Lemma move_in_tree nr t rest p q x ks :
  p <> [] -> tget t p = Some x -> is_prefix p q = false ->
  fkids q (tkids t) = Some ks -> (forall k, In k ks -> tname k <> tname x) ->
  (exists PQ, tpath t q = Some PQ) ->
  exists trk, move nr (t :: rest) (0 :: p) (Some (0 :: q)) = MvOk (t_move p q x t :: rest) trk.
Proof.
  intros Hp Hx Hpq Hks Hfresh [PQ HPQ]. unfold move.
  rewrite fget_cons0 by exact Hp. unfold tget in Hx. rewrite Hx.
  rewrite is_prefix_cons. cbn [Nat.eqb andb]. rewrite Hpq.
  rewrite fkids_cons0, Hks. rewrite dup_child_false by exact Hfresh.
  assert (Hprot : protected nr (0 :: p) = false) by (destruct p; [congruence|reflexivity]).
  rewrite Hprot. rewrite fremove_cons0 by exact Hp. rewrite adj'_cons0 by assumption.
  rewrite fkids_cons0. unfold t_remove at 1. rewrite tkids_set_kids.
  assert (HPQ' : fpath [tname t] (adj' p q) (fremove p (tkids t)) = Some PQ).
  { unfold tpath in HPQ. rewrite (fpath_adj _ _ _ _ _ Hx Hpq). exact HPQ. }
  destruct (fkids_of_fpath _ _ _ _ HPQ') as [ks1 Hks1]. rewrite Hks1.
  rewrite fappend_cons0. eexists. reflexivity.
Qed.

Lemma rows_t_move t p q x PX PQ :
  wf_t t -> p <> [] -> tget t p = Some x -> is_prefix p q = false ->
  tpath t p = Some PX -> tpath t q = Some PQ ->
  rows (t_move p q x t) = insert_last (minus (rows t) PX) PQ (rows_from PQ x).
Proof.
  intros Hwf Hp Hx Hpq HPX HPQ. unfold t_move.
  rewrite (rows_t_append _ _ _ PQ); [|apply wf_t_remove; exact Hwf|].
  - rewrite (rows_t_remove _ _ PX) by assumption. reflexivity.
  - unfold tpath, t_remove. rewrite tname_set_kids, tkids_set_kids.
    unfold tget in Hx. rewrite (fpath_adj _ _ _ _ _ Hx Hpq). exact HPQ.
Qed.

(* x.parent = None for a node below the root *)
Lemma detach_in_tree nr t rest p x :
  p <> [] -> tget t p = Some x ->
  move nr (t :: rest) (0 :: p) None = MvOk ((t_remove p t :: rest) ++ [x]) (track (0 :: p) [S (length rest)]).
Proof.
  intros Hp Hx. unfold move. rewrite fget_cons0 by exact Hp. unfold tget in Hx. rewrite Hx.
  destruct p as [|j p]; [congruence|]. rewrite fremove_cons0 by discriminate. reflexivity.
Qed.

(* ============================================================================================== *)
(* Part 4.  Rows of the decision table (DESIGN.md section 7, "C08"), on the references layer.       *)

Record plain_shift (c : cfg) : Prop := {
  ps_copy : c_copy c = false;
  ps_mc : f_mc (c_fl c) = false;
  ps_ml : f_ml (c_fl c) = false;
  ps_dc : f_dc (c_fl c) = false }.

(* the plain attach step: from_node.parent = to_node *)
Lemma attach_plain_shift c t rest p q x ks :
  plain_shift c ->
  p <> [] -> tget t p = Some x -> is_prefix p q = false ->
  fkids q (tkids t) = Some ks -> (forall k, In k ks -> tname k <> tname x) ->
  (exists PQ, tpath t q = Some PQ) ->
  attach c false (t :: rest) (0 :: p) (Some (0 :: q)) = (t_move p q x t :: rest, None).
Proof.
  intros [Hc Hmc Hml Hdc] Hp Hx Hpq Hks Hfresh HPQ. unfold attach.
  rewrite Hc, Hml, Hdc. cbn [orb andb].
  destruct (move_in_tree (nroots c) t rest p q x ks Hp Hx Hpq Hks Hfresh HPQ) as [trk Hm].
  cbn [option_map].
  match goal with |- context [move ?a ?b ?c ?d] =>
    replace (move a b c d) with (MvOk (t_move p q x t :: rest) trk) by (symmetry; exact Hm) end.
  reflexivity.
Qed.

(* to_path empty: the subtree is detached *)
Theorem delete_core c t p x :
  plain_shift c -> p <> [] -> tget t p = Some x ->
  cs_core c [t] (0 :: p) TDel = ([t_remove p t; x], None).
Proof.
  intros [Hc Hmc Hml Hdc] Hp Hx. unfold cs_core, attach. rewrite Hmc, Hc, Hml, Hdc. cbn [orb andb].
  pose proof (detach_in_tree (nroots c) t [] p x Hp Hx) as Hm.
  match goal with |- context [move ?a ?b ?c ?d] =>
    replace (move a b c d) with (MvOk ((t_remove p t :: []) ++ [x]) (track (0 :: p) [1])) by (symmetry; exact Hm) end.
  reflexivity.
Qed.

Theorem delete_rows t p PX : wf_t t -> p <> [] -> tpath t p = Some PX -> rows (t_remove p t) = minus (rows t) PX.
Proof. apply rows_t_remove. Qed.

(* destination absent, its parent q present (or just created): the subtree becomes the last child of q *)
Theorem shift_core c t p q x ks comps t1 :
  plain_shift c ->
  add_walk [t] [dpiece c] comps = ([t1], Ret (0 :: q)) ->
  p <> [] -> tget t1 p = Some x -> is_prefix p q = false ->
  fkids q (tkids t1) = Some ks -> (forall k, In k ks -> tname k <> tname x) ->
  (exists PQ, tpath t1 q = Some PQ) ->
  cs_core c [t] (0 :: p) (TNew comps) = ([t_move p q x t1], None).
Proof.
  intros Hps Hw Hp Hx Hpq Hks Hfresh HPQ. unfold cs_core. rewrite Hw.
  rewrite (ps_mc _ Hps). eapply attach_plain_shift; eassumption.
Qed.

Theorem shift_rows t p q x PX PQ :
  wf_t t -> p <> [] -> tget t p = Some x -> is_prefix p q = false ->
  tpath t p = Some PX -> tpath t q = Some PQ ->
  rows (t_move p q x t) = insert_last (minus (rows t) PX) PQ (rows_from PQ x).
Proof. apply rows_t_move. Qed.

(* ============================================================================================== *)
(* Part 5.  add_path_to_tree: the missing prefixes of the destination parent are created           *)
(* (Spec.ensure), existing nodes are reused, nothing else changes.                                 *)

Lemma name_idx_none c ks : (forall k, In k ks -> tname k <> c) -> forall n, name_idx c n ks = [].
Proof.
  induction ks as [|k ks IH]; intros H n; cbn; [reflexivity|].
  destruct (str_eqb (tname k) c) eqn:E.
  - apply str_eqb_eq in E. exfalso. apply (H k (or_introl eq_refl)). exact E.
  - cbn. apply IH. intros k' Hk'. apply H. right; exact Hk'.
Qed.

Lemma name_idx_spec c ks : NoDup (map tname ks) -> forall n,
  (name_idx c n ks = [] /\ forall k, In k ks -> tname k <> c) \/
  (exists i k, name_idx c n ks = [n + i] /\ nth_error ks i = Some k /\ tname k = c).
Proof.
  induction ks as [|k ks IH]; intros Hn n; cbn.
  - left. split; [reflexivity|intros k []].
  - cbn [map] in Hn. inversion Hn as [|? ? Hnotin Hn']; subst.
    destruct (str_eqb (tname k) c) eqn:E.
    + apply str_eqb_eq in E. right. exists 0, k. rewrite name_idx_none.
      * rewrite Nat.add_0_r. split; [reflexivity|split; [reflexivity|exact E]].
      * intros k' Hk' E'. apply Hnotin. rewrite E, <- E'. apply in_map. exact Hk'.
    + apply str_eqb_neq in E. destruct (IH Hn' (S n)) as [[H1 H2]|[i [k' [H1 [H2 H3]]]]].
      * left. split; [exact H1|]. intros k' [<-|Hk']; [exact E|apply H2; exact Hk'].
      * right. exists (S i), k'. cbn. rewrite H1. replace (n + S i) with (S n + i) by lia.
        split; [reflexivity|split; assumption].
Qed.

Lemma is_prefix_refl p : is_prefix p p = true.
Proof. induction p as [|i p IH]; cbn; [reflexivity|]. rewrite Nat.eqb_refl. exact IH. Qed.

Lemma is_prefix_app p r : is_prefix p (p ++ r) = true.
Proof. induction p as [|i p IH]; cbn; [reflexivity|]. rewrite Nat.eqb_refl. exact IH. Qed.

Lemma is_prefix_iff p z : is_prefix p z = true <-> exists r, z = p ++ r.
Proof.
  revert z; induction p as [|i p IH]; intros z; cbn.
  - split; [intros _; exists z; reflexivity|reflexivity].
  - destruct z as [|j z]; [split; [discriminate|intros [r Hr]; discriminate]|]. split.
    + intros H. apply andb_true_iff in H as [H1 H2]. apply Nat.eqb_eq in H1. apply IH in H2 as [r ->].
      subst. exists r. reflexivity.
    + intros [r Hr]. inversion Hr; subst. rewrite Nat.eqb_refl. cbn. apply IH. exists r. reflexivity.
Qed.

Lemma is_prefix_trans a b c : is_prefix a b = true -> is_prefix b c = true -> is_prefix a c = true.
Proof.
  intros H1 H2. apply is_prefix_iff in H1 as [r1 ->]. apply is_prefix_iff in H2 as [r2 ->].
  rewrite <- app_assoc. apply is_prefix_app.
Qed.

Lemma wf_fkids here : forall (f : forest) ks, wf_f f -> fkids here f = Some ks -> wf_f ks.
Proof.
  induction here as [|i here IH]; intros f ks Hwf H; cbn in H; [inversion H; subst; exact Hwf|].
  destruct (nth_error f i) as [t|] eqn:Et; [|discriminate]. eapply IH; [|exact H].
  apply wf_t_kids. destruct Hwf as [_ Hf]. rewrite Forall_forall in Hf. apply Hf. eapply nth_error_In. exact Et.
Qed.

Lemma fpath_snoc here : forall pre (f : forest) H ks i k,
  fpath pre here f = Some H -> fkids here f = Some ks -> nth_error ks i = Some k ->
  fpath pre (here ++ [i]) f = Some (H ++ [tname k]).
Proof.
  induction here as [|j here IH]; intros pre f H ks i k HP Hk Hi; cbn in *.
  - inversion HP; subst. inversion Hk; subst. rewrite Hi. reflexivity.
  - destruct (nth_error f j) as [t|]; [|discriminate]. eapply IH; eassumption.
Qed.

Lemma fget_fappend_frame here : forall z (f : forest) x s,
  is_prefix z here = false -> fget z f = Some s -> fget z (fappend here x f) = Some s.
Proof.
  induction here as [|j here IH]; intros z f x s Hz Hs.
  - destruct z as [|i z]; [discriminate|]. cbn [fappend fget] in *.
    destruct (nth_error f i) as [t|] eqn:Et; [|discriminate].
    rewrite nth_error_app1 by (apply nth_error_Some; congruence). rewrite Et. exact Hs.
  - destruct z as [|i z]; [discriminate|]. rewrite is_prefix_cons in Hz. cbn [fappend fget] in *.
    rewrite nth_error_upd_nth. destruct (Nat.eqb i j) eqn:E.
    + cbn [andb] in Hz. destruct (nth_error f i) as [t|]; [|discriminate]. cbn [option_map].
      destruct z as [|i' z]; [discriminate|]. rewrite tkids_set_kids. apply IH; assumption.
    + exact Hs.
Qed.

Lemma fpath_fappend_frame here : forall z pre (f : forest) x P,
  fpath pre z f = Some P -> fpath pre z (fappend here x f) = Some P.
Proof.
  induction here as [|j here IH]; intros z pre f x P HP.
  - cbn [fappend]. revert pre f P HP. destruct z as [|i z]; intros pre f P HP; [exact HP|].
    cbn [fpath] in *. destruct (nth_error f i) as [t|] eqn:Et; [|discriminate].
    rewrite nth_error_app1 by (apply nth_error_Some; congruence). rewrite Et. exact HP.
  - destruct z as [|i z]; [exact HP|]. cbn [fappend fpath] in *. rewrite nth_error_upd_nth.
    destruct (Nat.eqb i j) eqn:E; [|exact HP].
    destruct (nth_error f i) as [t|]; [|discriminate]. cbn [option_map].
    rewrite tname_set_kids, tkids_set_kids. apply IH. exact HP.
Qed.

Lemma fpath_fappend_new here : forall pre (f : forest) x H ks,
  fpath pre here f = Some H -> fkids here f = Some ks ->
  fpath pre (here ++ [length ks]) (fappend here x f) = Some (H ++ [tname x]).
Proof.
  induction here as [|j here IH]; intros pre f x H ks HP Hk; cbn in *.
  - inversion HP; subst. inversion Hk; subst. rewrite nth_error_app2 by lia. rewrite Nat.sub_diag. reflexivity.
  - rewrite nth_error_upd_nth, Nat.eqb_refl. destruct (nth_error f j) as [t|]; [|discriminate]. cbn [option_map].
    rewrite tname_set_kids, tkids_set_kids. apply IH; assumption.
Qed.

Lemma length_fappend here : forall (f : forest) x, here <> [] -> length (fappend here x f) = length f.
Proof. intros f x H. destruct here; [congruence|]. cbn. apply length_upd_nth. Qed.

Lemma at_path_under P r : at_path P r = true -> under P r = true.
Proof. unfold at_path, under. intros H. apply path_eqb_eq in H. rewrite <- H. apply pfx_refl. Qed.

Lemma has_app a b P : has (a ++ b) P = has a P || has b P.
Proof. unfold has. apply existsb_app. Qed.

Lemma has_filter_under tb H P : pfx H P = true -> has (filter (under H) tb) P = has tb P.
Proof.
  intros HP. unfold has. induction tb as [|r tb IH]; cbn; [reflexivity|].
  destruct (under H r) eqn:E; cbn; [rewrite IH; reflexivity|]. rewrite IH.
  destruct (at_path P r) eqn:Ea; [|reflexivity]. unfold at_path in Ea. apply path_eqb_eq in Ea.
  unfold under in E. rewrite <- Ea in E. congruence.
Qed.

Lemma has_rows_child H k c : has (rows_from H k) (H ++ [c]) = str_eqb (tname k) c.
Proof.
  destruct (str_eqb (tname k) c) eqn:E.
  - apply str_eqb_eq in E. rewrite rows_from_eq. unfold has. cbn [existsb]. unfold at_path at 1. cbn [rpath fst].
    rewrite E, path_eqb_refl. reflexivity.
  - apply str_eqb_neq in E. unfold has. apply existsb_false. intros r Hr.
    destruct (at_path (H ++ [c]) r) eqn:Ea; [|reflexivity]. apply at_path_under in Ea.
    rewrite (rows_other_not_under H k c [] r E Hr) in Ea. discriminate.
Qed.

Lemma has_frows_child H ks c : has (frows H ks) (H ++ [c]) = existsb (fun k => str_eqb (tname k) c) ks.
Proof.
  induction ks as [|k ks IH]; [reflexivity|]. rewrite frows_cons, has_app, has_rows_child, IH. reflexivity.
Qed.

Lemma has_child here pre (f : forest) H ks c :
  wf_f f -> here <> [] -> fpath pre here f = Some H -> fkids here f = Some ks ->
  has (frows pre f) (H ++ [c]) = existsb (fun k => str_eqb (tname k) c) ks.
Proof.
  intros Hwf Hh HP Hk. destruct (fpath_fget _ _ _ _ Hh HP) as [xh Hxh].
  destruct (fget_rows _ _ _ _ _ Hwf Hxh HP) as [P0 [HP0 Hsub]].
  rewrite <- (has_filter_under _ H) by apply pfx_app. unfold sub_rows in Hsub. rewrite Hsub.
  rewrite rows_from_eq, <- HP0. unfold has. cbn [existsb]. unfold at_path at 1. cbn [rpath fst].
  replace (path_eqb (H ++ [c]) H) with false.
  2: { symmetry. destruct (path_eqb (H ++ [c]) H) eqn:E; [|reflexivity]. apply path_eqb_eq in E.
       apply (f_equal (@length str)) in E. rewrite app_length in E. cbn in E. lia. }
  cbn [orb]. rewrite fkids_fget in Hk by exact Hh. rewrite Hxh in Hk. inversion Hk; subst ks.
  apply has_frows_child.
Qed.

Lemma existsb_name_false ks c : (forall k, In k ks -> tname k <> c) -> existsb (fun k => str_eqb (tname k) c) ks = false.
Proof. intros H. apply existsb_false. intros k Hk. apply str_eqb_neq. apply H. exact Hk. Qed.

Lemma add_walk_spec : forall comps (f : forest) here pre H,
  wf_f f -> here <> [] -> fpath pre here f = Some H -> (forall c, In c comps -> c <> []) ->
  exists f' q, add_walk f here comps = (f', Ret q) /\ wf_f f' /\ length f' = length f /\
    frows pre f' = ensure (frows pre f) H comps /\ fpath pre q f' = Some (H ++ comps) /\
    is_prefix here q = true /\
    (forall z s, is_prefix z q = false -> fget z f = Some s -> fget z f' = Some s) /\
    (forall z P, fpath pre z f = Some P -> fpath pre z f' = Some P).
Proof.
  induction comps as [|c comps IH]; intros f here pre H Hwf Hh HP Hne.
  - exists f, here. cbn. rewrite app_nil_r. split; [reflexivity|]. split; [exact Hwf|]. split; [reflexivity|].
    split; [reflexivity|]. split; [exact HP|]. split; [apply is_prefix_refl|]. split; auto.
  - cbn [add_walk]. destruct (fkids_of_fpath _ _ _ _ HP) as [ks Hk]. rewrite Hk.
    pose proof (wf_fkids _ _ _ Hwf Hk) as [Hkn Hkf].
    assert (Hne' : forall c', In c' comps -> c' <> []) by (intros c' Hc'; apply Hne; right; exact Hc').
    destruct (name_idx_spec c ks Hkn 0) as [[E Hfresh]|[i [k [E [Hi Hkc]]]]]; rewrite E.
    + assert (Hc : c <> []) by (apply Hne; left; reflexivity).
      destruct c as [|ch c]; [congruence|]. set (cn := ch :: c) in *.
      assert (Hwf1 : wf_f (fappend here (fresh_node cn) f)).
      { eapply wf_fappend; [exact Hwf| |exact Hh|exact Hk|exact Hfresh].
        constructor; [constructor|constructor]. }
      assert (HP1 : fpath pre (here ++ [length ks]) (fappend here (fresh_node cn) f) = Some (H ++ [cn])).
      { apply (fpath_fappend_new here pre f (fresh_node cn) H ks HP Hk). }
      assert (Hh1 : here ++ [length ks] <> []) by (destruct here; discriminate).
      destruct (IH _ _ _ _ Hwf1 Hh1 HP1 Hne') as [f' [q [Ha [Hwf' [Hlen [Hrows [Hq [Hpre [Hfr1 Hfr2]]]]]]]]].
      exists f', q. split; [exact Ha|]. split; [exact Hwf'|].
      split; [rewrite Hlen; apply length_fappend; exact Hh|].
      split.
      * rewrite Hrows. cbn [ensure]. rewrite (has_child here pre f H ks cn Hwf Hh HP Hk).
        rewrite existsb_name_false by exact Hfresh.
        rewrite (frows_fappend here pre f H (fresh_node cn) Hwf Hh HP). reflexivity.
      * split; [rewrite Hq, <- app_assoc; reflexivity|].
        split; [eapply is_prefix_trans; [apply is_prefix_app|exact Hpre]|].
        split.
        -- intros z s Hz Hs. apply Hfr1; [exact Hz|]. apply fget_fappend_frame; [|exact Hs].
           destruct (is_prefix z here) eqn:Ez; [|reflexivity].
           rewrite (is_prefix_trans z here q Ez (is_prefix_trans _ _ _ (is_prefix_app here [length ks]) Hpre)) in Hz.
           discriminate.
        -- intros z P Hz. apply Hfr2. apply fpath_fappend_frame. exact Hz.
    + cbn [Nat.add] in *.
      assert (HP1 : fpath pre (here ++ [i]) f = Some (H ++ [c])).
      { rewrite <- Hkc. eapply fpath_snoc; eassumption. }
      assert (Hh1 : here ++ [i] <> []) by (destruct here; discriminate).
      destruct (IH _ _ _ _ Hwf Hh1 HP1 Hne') as [f' [q [Ha [Hwf' [Hlen [Hrows [Hq [Hpre [Hfr1 Hfr2]]]]]]]]].
      exists f', q. split; [exact Ha|]. split; [exact Hwf'|]. split; [exact Hlen|].
      split.
      * rewrite Hrows. cbn [ensure]. rewrite (has_child here pre f H ks c Hwf Hh HP Hk).
        replace (existsb (fun k0 => str_eqb (tname k0) c) ks) with true; [reflexivity|].
        symmetry. eapply existsb_true; [eapply nth_error_In; exact Hi|]. apply str_eqb_eq. exact Hkc.
      * split; [rewrite Hq, <- app_assoc; reflexivity|].
        split; [eapply is_prefix_trans; [apply is_prefix_app|exact Hpre]|].
        split; assumption.
Qed.
