(* Proofs about Algo/Modify.v (the model of bigtree/tree/modify.py) for property C08. *)
From BT Require Import Base.Prelude Base.Str Base.StrSep Base.Rose Algo.Modify Spec.PC08 Corr.ModifyCorr.

(* ============================================================================================== *)
(* Part 1.  One call with several pairs = the same single-pair calls in sequence.                  *)
(* The only thing a later pair's argument checks read from the tree is the name of the root(s);    *)
(* no step of the model changes it.                                                               *)

Lemma nth_error_upd_nth {A} (g : A -> A) (l : list A) i k :
  nth_error (upd_nth i g l) k = if Nat.eqb k i then option_map g (nth_error l k) else nth_error l k.
Proof.
  revert i k; induction l as [|x l IH]; intros i k; cbn.
  - destruct i; destruct k; cbn; try reflexivity. destruct (Nat.eqb k i); reflexivity.
  - destruct i as [|i]; destruct k as [|k]; cbn; try reflexivity. apply IH.
Qed.

Lemma length_upd_nth {A} (g : A -> A) (l : list A) i : length (upd_nth i g l) = length l.
Proof. revert i; induction l as [|x l IH]; intros [|i]; cbn; try reflexivity. now rewrite IH. Qed.

Lemma nth_error_del_nth_lt {A} (l : list A) i k : k < i -> nth_error (del_nth i l) k = nth_error l k.
Proof.
  revert i k; induction l as [|x l IH]; intros i k Hk; cbn; [reflexivity|].
  destruct i as [|i]; [lia|]. destruct k as [|k]; cbn; [reflexivity|]. apply IH. lia.
Qed.

Lemma length_del_nth {A} (l : list A) i : i < length l -> S (length (del_nth i l)) = length l.
Proof.
  revert i; induction l as [|x l IH]; intros i Hi; cbn in *; [lia|].
  destruct i as [|i]; cbn; [reflexivity|]. rewrite IH by lia. reflexivity.
Qed.

Lemma tname_set_kids t ks : tname (set_kids t ks) = tname t.
Proof. destruct t; reflexivity. Qed.

Definition names_kept (nr : nat) (f f' : forest) : Prop :=
  nr <= length f' /\ forall k, k < nr -> root_name f' k = root_name f k.

Lemma names_kept_refl nr f : nr <= length f -> names_kept nr f f.
Proof. intros H; split; [exact H|reflexivity]. Qed.

Lemma names_kept_trans nr f g h : names_kept nr f g -> names_kept nr g h -> names_kept nr f h.
Proof. intros [L1 N1] [L2 N2]; split; [exact L2|]. intros k Hk. rewrite N2, N1 by exact Hk. reflexivity. Qed.

Lemma names_kept_upd nr (f : forest) i (g : tree -> tree) :
  (forall t, tname (g t) = tname t) -> nr <= length f -> names_kept nr f (upd_nth i g f).
Proof.
  intros Hg Hl; split; [now rewrite length_upd_nth|]. intros k _. unfold root_name.
  rewrite nth_error_upd_nth. destruct (Nat.eqb k i); [|reflexivity].
  destruct (nth_error f k); cbn; [apply Hg|reflexivity].
Qed.

Lemma names_kept_app nr f l : nr <= length f -> names_kept nr f (f ++ l).
Proof.
  intros Hl; split; [rewrite app_length; lia|]. intros k Hk. unfold root_name.
  rewrite nth_error_app1 by lia. reflexivity.
Qed.

Lemma fget_some_lt x i p f t : fget (i :: p) f = Some t -> x = i -> i < length f.
Proof.
  intros H _. cbn in H. destruct (nth_error f i) eqn:E; [|discriminate].
  apply nth_error_Some. congruence.
Qed.

Lemma names_kept_fremove nr (f : forest) x :
  nr <= length f -> protected nr x = false -> (exists t, fget x f = Some t) ->
  names_kept nr f (fremove x f).
Proof.
  intros Hl Hp [t Ht]. destruct x as [|i p]; [apply names_kept_refl; exact Hl|].
  pose proof (fget_some_lt i i p f t Ht eq_refl) as Hi.
  cbn [fremove]. destruct p as [|j p].
  - cbn in Hp. apply Nat.ltb_ge in Hp. split.
    + pose proof (length_del_nth f i Hi). lia.
    + intros k Hk. unfold root_name. rewrite nth_error_del_nth_lt by lia. reflexivity.
  - apply names_kept_upd; [intros; apply tname_set_kids|exact Hl].
Qed.

Lemma names_kept_fremove_deep nr (f : forest) i j p :
  nr <= length f -> names_kept nr f (fremove (i :: j :: p) f).
Proof.
  intros Hl. cbn [fremove]. apply names_kept_upd; [intros; apply tname_set_kids|exact Hl].
Qed.

Lemma names_kept_fappend nr f q x : nr <= length f -> names_kept nr f (fappend q x f).
Proof.
  intros Hl. destruct q as [|i q]; cbn [fappend].
  - apply names_kept_app; exact Hl.
  - apply names_kept_upd; [intros; apply tname_set_kids|exact Hl].
Qed.

Lemma move_names nr (f : forest) x y f' t :
  nr <= length f -> move nr f x y = MvOk f' t -> names_kept nr f f'.
Proof.
  intros Hl H. unfold move in H.
  destruct (fget x f) as [sub|] eqn:Eg; [|discriminate].
  destruct y as [q|].
  - destruct (is_prefix x q); [discriminate|].
    destruct (fkids q f) as [ks|]; [|discriminate].
    destruct (dup_child _ _ _ _); [discriminate|].
    destruct (protected nr x) eqn:Ep; [discriminate|].
    destruct (fkids (adj' x q) (fremove x f)) as [ks1|]; [|discriminate].
    inversion H; subst; clear H.
    assert (K : names_kept nr f (fremove x f)) by (apply names_kept_fremove; eauto).
    eapply names_kept_trans; [exact K|]. apply names_kept_fappend. apply K.
  - destruct x as [|i [|j p]].
    + inversion H; subst.
      eapply names_kept_trans; [apply names_kept_refl; exact Hl|]. apply names_kept_app. exact Hl.
    + inversion H; subst. apply names_kept_refl; exact Hl.
    + inversion H; subst; clear H.
      assert (K : names_kept nr f (fremove (i :: j :: p) f)) by (apply names_kept_fremove_deep; exact Hl).
      eapply names_kept_trans; [exact K|]. apply names_kept_app. apply K.
Qed.

Lemma del_children_go_names nr n : forall (f : forest) x trk f' t,
  nr <= length f -> del_children_go nr n f x trk = MvOk f' t -> names_kept nr f f'.
Proof.
  induction n as [|n IH]; intros f x trk f' t Hl H; cbn in H.
  - inversion H; subst. apply names_kept_refl; exact Hl.
  - destruct (move nr f (x ++ [0]) None) as [f1 t1|] eqn:Em; [|discriminate].
    pose proof (move_names _ _ _ _ _ _ Hl Em) as K.
    eapply names_kept_trans; [exact K|]. eapply IH; [apply K|exact H].
Qed.

Lemma del_children_names nr (f : forest) x f' t :
  nr <= length f -> del_children nr f x = MvOk f' t -> names_kept nr f f'.
Proof.
  intros Hl H. unfold del_children in H. destruct (fkids x f); [|discriminate].
  eapply del_children_go_names; eauto.
Qed.

Lemma opt_del_children_names nr (b : bool) (f : forest) x f' t :
  nr <= length f ->
  (if b then del_children nr f x else MvOk f (fun z => z)) = MvOk f' t -> names_kept nr f f'.
Proof.
  intros Hl H. destruct b; [eapply del_children_names; eauto|].
  inversion H; subst. apply names_kept_refl; exact Hl.
Qed.

Lemma mc_loop_names nr dc cs : forall (f : forest) trk tn fr f' fr',
  nr <= length f -> mc_loop nr dc f cs trk tn fr = (f', Ret fr') -> names_kept nr f f'.
Proof.
  induction cs as [|ch cs IH]; intros f trk tn fr f' fr' Hl H; cbn [mc_loop] in H.
  - inversion H; subst. apply names_kept_refl; exact Hl.
  - destruct (if dc then del_children nr f (trk ch) else MvOk f (fun z => z)) as [f1 t1|] eqn:E1; [|discriminate].
    pose proof (opt_del_children_names _ _ _ _ _ _ Hl E1) as K1.
    destruct (move nr f1 (t1 (trk ch)) (option_map t1 tn)) as [f2 t2|] eqn:E2; [|discriminate].
    pose proof (move_names _ _ _ _ _ _ (proj1 K1) E2) as K2.
    eapply names_kept_trans; [exact K1|]. eapply names_kept_trans; [exact K2|].
    eapply IH; [apply K2|exact H].
Qed.

Lemma ml_loop_names nr ls : forall (f : forest) trk tn f',
  nr <= length f -> ml_loop nr f ls trk tn = (f', None) -> names_kept nr f f'.
Proof.
  induction ls as [|l ls IH]; intros f trk tn f' Hl H; cbn [ml_loop] in H.
  - inversion H; subst. apply names_kept_refl; exact Hl.
  - destruct (move nr f (trk l) tn) as [f1 t1|] eqn:E1; [|discriminate].
    pose proof (move_names _ _ _ _ _ _ Hl E1) as K1.
    eapply names_kept_trans; [exact K1|]. eapply IH; [apply K1|exact H].
Qed.

Lemma rp_loop_names nr sibs : forall (f : forest) first trk fr par f',
  nr <= length f -> rp_loop nr f first sibs trk fr par = (f', None) -> names_kept nr f f'.
Proof.
  induction sibs as [|s sibs IH]; intros f first trk fr par f' Hl H; cbn [rp_loop] in H.
  - inversion H; subst. apply names_kept_refl; exact Hl.
  - destruct (move nr f (trk s) None) as [f1 t1|] eqn:E1; [|discriminate].
    pose proof (move_names _ _ _ _ _ _ Hl E1) as K1.
    destruct (move nr f1 (if first then t1 fr else t1 (trk s)) (Some (t1 par))) as [f2 t2|] eqn:E2; [|discriminate].
    pose proof (move_names _ _ _ _ _ _ (proj1 K1) E2) as K2.
    eapply names_kept_trans; [exact K1|]. eapply names_kept_trans; [exact K2|].
    eapply IH; [apply K2|exact H].
Qed.

Lemma copy_node_names nr (f : forest) x f' x' :
  nr <= length f -> copy_node f x = Some (f', x') -> names_kept nr f f'.
Proof.
  intros Hl H. unfold copy_node in H. destruct x as [|k p]; [discriminate|].
  destruct (nth_error f k); [|discriminate]. inversion H; subst. apply names_kept_app; exact Hl.
Qed.

Lemma opt_copy_names nr (b : bool) (f : forest) x f' x' :
  nr <= length f -> (if b then copy_node f x else Some (f, x)) = Some (f', x') -> names_kept nr f f'.
Proof.
  intros Hl H. destruct b; [eapply copy_node_names; eauto|]. inversion H; subst. apply names_kept_refl; exact Hl.
Qed.

Ltac bad := let H := fresh "Hbad" in intros H; inversion H.

Lemma attach_names c mc (f : forest) fr tn f' :
  nroots c <= length f -> attach c mc f fr tn = (f', None) -> names_kept (nroots c) f f'.
Proof.
  intros Hl. unfold attach.
  destruct (if c_copy c then copy_node f fr else Some (f, fr)) as [[f0 fr0]|] eqn:Ec; [|bad].
  pose proof (opt_copy_names _ _ _ _ _ _ Hl Ec) as K0.
  destruct ((mc || f_ml (c_fl c)) && match tn with None => true | Some _ => false end); [bad|].
  destruct mc.
  - destruct (fkids fr0 f0) as [ks|]; [|bad].
    destruct (mc_loop (nroots c) (f_dc (c_fl c)) f0 (child_refs fr0 (length ks)) (fun z => z) tn fr0)
      as [f1 [fr1|e]] eqn:El; [|bad].
    pose proof (mc_loop_names _ _ _ _ _ _ _ _ _ (proj1 K0) El) as K1.
    destruct (move (nroots c) f1 fr1 None) as [f2 t2|] eqn:Em; [|bad].
    pose proof (move_names _ _ _ _ _ _ (proj1 K1) Em) as K2.
    intros H; inversion H; subst.
    eapply names_kept_trans; [exact K0|]. eapply names_kept_trans; eassumption.
  - destruct (f_ml (c_fl c)).
    + destruct (negb (c_copy c) && match tn with Some q => is_prefix fr0 q | None => false end); [bad|].
      intros H. eapply names_kept_trans; [exact K0|]. eapply ml_loop_names; [apply K0|exact H].
    + destruct (if f_dc (c_fl c) then del_children (nroots c) f0 fr0 else MvOk f0 (fun z => z))
        as [f1 t1|] eqn:E1; [|bad].
      pose proof (opt_del_children_names _ _ _ _ _ _ (proj1 K0) E1) as K1.
      destruct (move (nroots c) f1 (t1 fr0) (option_map t1 tn)) as [f2 t2|] eqn:Em; [|bad].
      pose proof (move_names _ _ _ _ _ _ (proj1 K1) Em) as K2.
      intros H; inversion H; subst.
      eapply names_kept_trans; [exact K0|]. eapply names_kept_trans; eassumption.
Qed.

Lemma detach_names nr (f : forest) dr fr f' r :
  nr <= length f -> detach_to_parent nr f dr fr = (f', Ret r) -> names_kept nr f f'.
Proof.
  intros Hl H. unfold detach_to_parent in H.
  destruct (move nr f dr None) as [f1 t1|] eqn:Em; [|inversion H].
  inversion H; subst. eapply move_names; eauto.
Qed.

Lemma add_walk_names nr comps : forall (f : forest) here f' q,
  nr <= length f -> here <> [] -> add_walk f here comps = (f', Ret q) -> names_kept nr f f'.
Proof.
  induction comps as [|c comps IH]; intros f here f' q Hl Hh H; cbn [add_walk] in H.
  - inversion H; subst. apply names_kept_refl; exact Hl.
  - destruct (fkids here f) as [ks|]; [|inversion H].
    destruct (name_idx c 0 ks) as [|i [|j r]].
    + destruct c as [|ch c]; [inversion H|].
      assert (K : names_kept nr f (fappend here (fresh_node (ch :: c)) f)) by (apply names_kept_fappend; exact Hl).
      eapply names_kept_trans; [exact K|]. eapply IH; [apply K| |exact H].
      destruct here; [congruence|discriminate].
    + eapply IH; [exact Hl| |exact H]. destruct here; [congruence|discriminate].
    + inversion H.
Qed.

Lemma cs_core_names c (f : forest) fr tg f' :
  nroots c <= length f -> cs_core c f fr tg = (f', None) -> names_kept (nroots c) f f'.
Proof.
  intros Hl H. unfold cs_core in H. destruct tg as [|dr|comps].
  - eapply attach_names; eauto.
  - repeat match type of H with
    | (if ?b then _ else _) = _ => destruct b
    | context [detach_to_parent ?a ?b ?c ?d] =>
        let E := fresh "E" in destruct (detach_to_parent a b c d) as [f1 [[fr1 tn]|e]] eqn:E;
        [pose proof (detach_names _ _ _ _ _ _ Hl E)|inversion H]
    | context [del_children ?a ?b ?c] =>
        let E := fresh "E" in destruct (del_children a b c) as [f1 t1|] eqn:E;
        [pose proof (del_children_names _ _ _ _ _ Hl E)|inversion H]
    end;
    try (inversion H; fail);
    try (eapply attach_names; eauto; fail);
    try (eapply names_kept_trans; [eassumption|]; eapply attach_names; [|eassumption];
         match goal with K : names_kept _ _ _ |- _ => apply K end).
  - destruct (add_walk f [dpiece c] comps) as [f1 [q|e]] eqn:Ea; [|inversion H].
    assert (K : names_kept (nroots c) f f1) by (eapply add_walk_names; [exact Hl| |exact Ea]; discriminate).
    eapply names_kept_trans; [exact K|]. eapply attach_names; [apply K|exact H].
Qed.

Lemma cs_pair_names c (f : forest) fp tp f' :
  nroots c <= length f -> cs_pair c f fp tp = (f', None) -> names_kept (nroots c) f f'.
Proof.
  intros Hl H. unfold cs_pair in H.
  destruct (resolve_from c f fp) as [[fr|]|e]; [| |inversion H].
  - destruct (resolve_target c f tp) as [tg|e]; [|inversion H]. eapply cs_core_names; eauto.
  - destruct (f_skip (c_fl c)); inversion H; subst. apply names_kept_refl; exact Hl.
Qed.

Lemma rp_core_names c (f : forest) fr dr f' :
  nroots c <= length f -> rp_core c f fr dr = (f', None) -> names_kept (nroots c) f f'.
Proof.
  intros Hl H. unfold rp_core in H.
  destruct (ref_eqb fr dr); [inversion H|].
  destruct (if c_copy c then copy_node f fr else Some (f, fr)) as [[f0 fr0]|] eqn:Ec; [|inversion H].
  pose proof (opt_copy_names _ _ _ _ _ _ Hl Ec) as K0.
  destruct (if f_dc (c_fl c) then _ else _) as [f1 t1|] eqn:E1; [|inversion H].
  pose proof (opt_del_children_names _ _ _ _ _ _ (proj1 K0) E1) as K1.
  destruct (parent_ref (t1 dr)) as [par|]; [|inversion H].
  destruct (fkids par f1) as [ks|]; [|inversion H].
  pose proof (rp_loop_names _ _ _ _ _ _ _ _ (proj1 K1) H) as K2.
  eapply names_kept_trans; [exact K0|]. eapply names_kept_trans; eassumption.
Qed.

Lemma rp_pair_names c (f : forest) fp tp f' :
  nroots c <= length f -> rp_pair c f fp tp = (f', None) -> names_kept (nroots c) f f'.
Proof.
  intros Hl H. unfold rp_pair in H.
  destruct (resolve_from c f fp) as [[fr|]|e]; [| |inversion H].
  - destruct tp as [tpath|]; [|inversion H].
    destruct (find_full_path f (dpiece c) (c_dsep c) tpath) as [[dr|]|e]; try (inversion H; fail).
    eapply rp_core_names; eauto.
  - destruct (f_skip (c_fl c)); inversion H; subst. apply names_kept_refl; exact Hl.
Qed.

(* -- argument checks of a pair list and of its single pairs ------------------------------------- *)

Definition pair_ok_cs (c : cfg) (f : forest) (fp : str) (tp : option str) : Prop :=
  cs_validate c f [fp] [tp] = None.

Lemma dpiece_lt c : dpiece c < nroots c.
Proof. unfold dpiece, nroots. destruct (c_two c); lia. Qed.

Lemma roots_ok_kept c (f : forest) f' fps tps :
  names_kept (nroots c) f f' -> roots_ok c f' fps tps = roots_ok c f fps tps.
Proof.
  intros [_ N]. unfold roots_ok.
  rewrite (N 0) by (unfold nroots; destruct (c_two c); lia).
  rewrite (N (dpiece c)) by apply dpiece_lt. reflexivity.
Qed.

Lemma cs_validate_kept c (f : forest) f' fps tps :
  names_kept (nroots c) f f' -> cs_validate c f' fps tps = cs_validate c f fps tps.
Proof. intros K. unfold cs_validate. rewrite (roots_ok_kept _ _ _ _ _ K). reflexivity. Qed.

Lemma rp_validate_kept c (f : forest) f' fps tps :
  names_kept (nroots c) f f' -> rp_validate c f' fps tps = rp_validate c f fps tps.
Proof. intros K. unfold rp_validate. rewrite (roots_ok_kept _ _ _ _ _ K). reflexivity. Qed.

Ltac bdestr H :=
  match type of H with
  | (if ?b then _ else _) = _ => let E := fresh "E" in destruct b eqn:E; [discriminate H|]
  end.

(* a list that passes the checks: its head pair and its tail pass them too *)
Lemma cs_validate_cons c (f : forest) fp fps tp tps :
  cs_validate c f (fp :: fps) (tp :: tps) = None ->
  cs_validate c f [fp] [tp] = None /\ cs_validate c f fps tps = None.
Proof.
  unfold cs_validate. intros H.
  destruct (f_mc (c_fl c) && f_ml (c_fl c)); [discriminate|].
  bdestr H. cbn [length] in E. apply negb_false_iff, Nat.eqb_eq in E. injection E as E.
  bdestr H. cbn [existsb] in E0. rewrite andb_orb_distrib_r in E0. apply orb_false_iff in E0 as [Ea Eb].
  bdestr H. cbn [map last_names_ok] in E0. apply negb_false_iff, andb_true_iff in E0 as [Ec Ed].
  bdestr H. unfold roots_ok in E0. cbn [map forallb] in E0. apply negb_false_iff in E0.
  apply andb_true_iff in E0 as [Ee Ef]. apply andb_true_iff in Ef as [Ef Eg].
  split.
  - cbn [length existsb map last_names_ok]. rewrite Nat.eqb_refl. cbn [negb].
    rewrite orb_false_r, Ea, Ec. cbn [andb negb].
    unfold roots_ok. cbn [map forallb]. rewrite Ef. rewrite !andb_true_r.
    destruct (f_full (c_fl c)); cbn [negb orb] in *.
    + apply andb_true_iff in Ee as [Ee _]. rewrite Ee. reflexivity.
    + reflexivity.
  - rewrite E, Nat.eqb_refl, Eb, Ed. cbn [negb]. unfold roots_ok. rewrite Eg, andb_true_r.
    destruct (f_full (c_fl c)); cbn [negb orb] in *.
    + apply andb_true_iff in Ee as [_ Ee]. rewrite Ee. reflexivity.
    + reflexivity.
Qed.

Lemma rp_validate_cons c (f : forest) fp fps tp tps :
  rp_validate c f (fp :: fps) (tp :: tps) = None ->
  rp_validate c f [fp] [tp] = None /\ rp_validate c f fps tps = None.
Proof.
  unfold rp_validate. intros H.
  bdestr H. cbn [length] in E. apply negb_false_iff, Nat.eqb_eq in E. injection E as E.
  bdestr H. unfold roots_ok in E0. cbn [map forallb] in E0. apply negb_false_iff in E0.
  apply andb_true_iff in E0 as [Ee Ef]. apply andb_true_iff in Ef as [Ef Eg].
  split.
  - cbn [length]. rewrite Nat.eqb_refl. cbn [negb]. unfold roots_ok. cbn [map forallb]. rewrite Ef, !andb_true_r.
    destruct (f_full (c_fl c)); cbn [negb orb] in *.
    + apply andb_true_iff in Ee as [Ee _]. rewrite Ee. reflexivity.
    + reflexivity.
  - rewrite E, Nat.eqb_refl. cbn [negb]. unfold roots_ok. rewrite Eg, andb_true_r.
    destruct (f_full (c_fl c)); cbn [negb orb] in *.
    + apply andb_true_iff in Ee as [_ Ee]. rewrite Ee. reflexivity.
    + reflexivity.
Qed.

Lemma cs_validate_len c f fps tps : cs_validate c f fps tps = None -> length fps = length tps.
Proof.
  unfold cs_validate. intros H. destruct (f_mc (c_fl c) && f_ml (c_fl c)); [discriminate|].
  bdestr H. apply negb_false_iff, Nat.eqb_eq in E. exact E.
Qed.

Lemma rp_validate_len c f fps tps : rp_validate c f fps tps = None -> length fps = length tps.
Proof. unfold rp_validate. intros H. bdestr H. apply negb_false_iff, Nat.eqb_eq in E. exact E. Qed.

(* the sequence of single-pair calls of copy_or_shift_logic *)
Fixpoint cs_seq (c : cfg) (f : forest) (fps : list str) (tps : list (option str)) : outc :=
  match fps, tps with
  | fp :: fps', tp :: tps' =>
      match copy_or_shift_logic c f [fp] [tp] with
      | (f1, None) => cs_seq c f1 fps' tps'
      | r => r
      end
  | _, _ => (f, None)
  end.

Fixpoint rp_seq (c : cfg) (f : forest) (fps : list str) (tps : list (option str)) : outc :=
  match fps, tps with
  | fp :: fps', tp :: tps' =>
      match replace_logic c f [fp] [tp] with
      | (f1, None) => rp_seq c f1 fps' tps'
      | r => r
      end
  | _, _ => (f, None)
  end.

Lemma seps_ok_no_refusal rp c fps tps : seps_ok c = true -> empty_sep_refusal rp c fps tps = false.
Proof.
  unfold seps_ok, empty_sep_refusal. intros H. apply andb_true_iff in H as [H H3]. apply andb_true_iff in H as [H1 H2].
  apply negb_true_iff in H2, H3. rewrite H2, H3. rewrite andb_false_r. cbn [orb andb]. rewrite andb_false_r. reflexivity.
Qed.

Lemma cs_multi_is_seq c : seps_ok c = true -> forall fps tps f,
  nroots c <= length f -> cs_validate c f fps tps = None ->
  run_pairs (cs_pair c) f (map (norm_from c) fps) (map (norm_to c) tps) = cs_seq c f fps tps.
Proof.
  intros Hs. induction fps as [|fp fps IH]; intros tps f Hl Hv.
  - destruct tps; reflexivity.
  - destruct tps as [|tp tps]; [apply cs_validate_len in Hv; discriminate|].
    apply cs_validate_cons in Hv as [Hv1 Hv2].
    cbn [map run_pairs cs_seq]. unfold copy_or_shift_logic at 1. rewrite (seps_ok_no_refusal false c _ _ Hs), Hv1. cbn [map run_pairs].
    destruct (cs_pair c f (norm_from c fp) (norm_to c tp)) as [f1 [e|]] eqn:Ep; [reflexivity|].
    pose proof (cs_pair_names _ _ _ _ _ Hl Ep) as K.
    apply IH; [apply K|]. rewrite (cs_validate_kept _ _ _ _ _ K). exact Hv2.
Qed.

Lemma rp_multi_is_seq c : seps_ok c = true -> forall fps tps f,
  nroots c <= length f -> rp_validate c f fps tps = None ->
  run_pairs (rp_pair c) f (map (norm_from c) fps) (map (norm_to c) tps) = rp_seq c f fps tps.
Proof.
  intros Hs. induction fps as [|fp fps IH]; intros tps f Hl Hv.
  - destruct tps; reflexivity.
  - destruct tps as [|tp tps]; [apply rp_validate_len in Hv; discriminate|].
    apply rp_validate_cons in Hv as [Hv1 Hv2].
    cbn [map run_pairs rp_seq]. unfold replace_logic at 1. rewrite (seps_ok_no_refusal true c _ _ Hs), Hv1. cbn [map run_pairs].
    destruct (rp_pair c f (norm_from c fp) (norm_to c tp)) as [f1 [e|]] eqn:Ep; [reflexivity|].
    pose proof (rp_pair_names _ _ _ _ _ Hl Ep) as K.
    apply IH; [apply K|]. rewrite (rp_validate_kept _ _ _ _ _ K). exact Hv2.
Qed.

(* the pair list of a call passes the argument checks of modify.py:1051-1108 / 1271-1311 *)
Definition valid_call (i : minput) : bool :=
  seps_ok (cfg_of i) &&
  match (if is_replace (mi_op i)
         then rp_validate (cfg_of i) (init_forest i) (mi_from i) (mi_to i)
         else cs_validate (cfg_of i) (init_forest i) (mi_from i) (mi_to i)) with
  | None => true
  | Some _ => false
  end.

Lemma run_seq_from_cs i : is_replace (mi_op i) = false -> forall fps tps f,
  run_seq_from i f fps tps = cs_seq (cfg_of i) f fps tps.
Proof.
  intros Hr. induction fps as [|fp fps IH]; intros tps f; [reflexivity|].
  destruct tps as [|tp tps]; [reflexivity|]. cbn [run_seq_from cs_seq]. unfold run_from. rewrite Hr.
  destruct (copy_or_shift_logic (cfg_of i) f [fp] [tp]) as [f1 [e|]]; [reflexivity|]. apply IH.
Qed.

Lemma run_seq_from_rp i : is_replace (mi_op i) = true -> forall fps tps f,
  run_seq_from i f fps tps = rp_seq (cfg_of i) f fps tps.
Proof.
  intros Hr. induction fps as [|fp fps IH]; intros tps f; [reflexivity|].
  destruct tps as [|tp tps]; [reflexivity|]. cbn [run_seq_from rp_seq]. unfold run_from. rewrite Hr.
  destruct (replace_logic (cfg_of i) f [fp] [tp]) as [f1 [e|]]; [reflexivity|]. apply IH.
Qed.

Lemma init_forest_len i : nroots (cfg_of i) <= length (init_forest i).
Proof. unfold nroots, cfg_of, init_forest. cbn. destruct (is_tt (mi_op i)); cbn; lia. Qed.

Theorem multi_is_sequence i : valid_call i = true -> run i = run_seq i.
Proof.
  unfold valid_call. intros H. apply andb_true_iff in H as [Hs Hv].
  unfold run, run_seq, run_from at 1. destruct (is_replace (mi_op i)) eqn:Hr.
  - rewrite (run_seq_from_rp i Hr). unfold replace_logic. rewrite (seps_ok_no_refusal true _ _ _ Hs).
    destruct (rp_validate _ _ _ _) eqn:Ev; [discriminate|].
    apply rp_multi_is_seq; [exact Hs|apply init_forest_len|exact Ev].
  - rewrite (run_seq_from_cs i Hr). unfold copy_or_shift_logic. rewrite (seps_ok_no_refusal false _ _ _ Hs).
    destruct (cs_validate _ _ _ _) eqn:Ev; [discriminate|].
    apply cs_multi_is_seq; [exact Hs|apply init_forest_len|exact Ev].
Qed.


(* ============================================================================================== *)
(* Part 2.  Path tables of forests: what removing / appending a subtree does to the rows.          *)

Definition frows (pre : list str) (f : forest) : table := flat_map (rows_from pre) f.

Lemma rows_from_eq pre t :
  rows_from pre t = (pre ++ [tname t], ttag t, tattrs t) :: frows (pre ++ [tname t]) (tkids t).
Proof. destruct t; reflexivity. Qed.

Lemma frows_app pre a b : frows pre (a ++ b) = frows pre a ++ frows pre b.
Proof. unfold frows. apply flat_map_app. Qed.

Lemma frows_cons pre t f : frows pre (t :: f) = rows_from pre t ++ frows pre f.
Proof. reflexivity. Qed.

(* sibling names are unique, hereditarily: a path identifies a node *)
Inductive wf_t : tree -> Prop :=
| WfT g n a ks : NoDup (map tname ks) -> Forall wf_t ks -> wf_t (T g n a ks).
Definition wf_f (f : forest) : Prop := NoDup (map tname f) /\ Forall wf_t f.

Lemma wf_t_kids t : wf_t t -> wf_f (tkids t).
Proof. intros H; inversion H; subst; split; assumption. Qed.

Lemma wf_t_set_kids t ks : wf_f ks -> wf_t (set_kids t ks).
Proof. intros [H1 H2]. destruct t; cbn. constructor; assumption. Qed.

(* name path of the node a reference points to *)
Fixpoint fpath (pre : list str) (p : ref) (f : forest) : option (list str) :=
  match p with
  | [] => Some pre
  | i :: p' => match nth_error f i with
               | Some t => fpath (pre ++ [tname t]) p' (tkids t)
               | None => None
               end
  end.

(* -- prefixes of name paths -------------------------------------------------------------------- *)

Lemma path_eqb_eq a b : path_eqb a b = true <-> a = b.
Proof.
  unfold path_eqb. revert b; induction a as [|x a IH]; intros [|y b]; cbn; split; intros H;
    try reflexivity; try discriminate.
  - apply andb_true_iff in H as [H1 H2]. apply str_eqb_eq in H1. apply IH in H2. subst. reflexivity.
  - inversion H; subst. rewrite str_eqb_refl. cbn. apply IH. reflexivity.
Qed.

Lemma path_eqb_refl a : path_eqb a a = true.
Proof. apply path_eqb_eq. reflexivity. Qed.

Lemma pfx_app p r : pfx p (p ++ r) = true.
Proof. induction p as [|x p IH]; cbn; [reflexivity|]. rewrite str_eqb_refl. exact IH. Qed.

Lemma pfx_refl p : pfx p p = true.
Proof. rewrite <- (app_nil_r p) at 2. apply pfx_app. Qed.

Lemma pfx_app_same pre x y : pfx (pre ++ x) (pre ++ y) = pfx x y.
Proof. induction pre as [|a pre IH]; cbn; [reflexivity|]. rewrite str_eqb_refl. exact IH. Qed.

Lemma pfx_iff p z : pfx p z = true <-> exists r, z = p ++ r.
Proof.
  revert z; induction p as [|x p IH]; intros z; cbn.
  - split; [intros _; exists z; reflexivity|reflexivity].
  - destruct z as [|y z]; [split; [discriminate|intros [r Hr]; discriminate]|].
    split.
    + intros H. apply andb_true_iff in H as [H1 H2]. apply str_eqb_eq in H1. apply IH in H2 as [r ->].
      subst. exists r. reflexivity.
    + intros [r Hr]. inversion Hr; subst. rewrite str_eqb_refl. cbn. apply IH. exists r. reflexivity.
Qed.

Lemma pfx_long p z : length z < length p -> pfx p z = false.
Proof.
  intros H. destruct (pfx p z) eqn:E; [|reflexivity]. apply pfx_iff in E as [r ->].
  rewrite app_length in H. lia.
Qed.

Lemma pfx_diff pre a b x y : a <> b -> pfx (pre ++ a :: x) (pre ++ b :: y) = false.
Proof.
  intros H. rewrite pfx_app_same. cbn. destruct (str_eqb a b) eqn:E; [|reflexivity].
  apply str_eqb_eq in E. contradiction.
Qed.

Lemma pfx_trans a b c : pfx a b = true -> pfx b c = true -> pfx a c = true.
Proof.
  intros H1 H2. apply pfx_iff in H1 as [r1 ->]. apply pfx_iff in H2 as [r2 ->].
  rewrite <- app_assoc. apply pfx_app.
Qed.

(* -- every row of a tree lies below the tree's own path ---------------------------------------- *)

Lemma rows_from_under t : forall pre r, In r (rows_from pre t) -> exists rest, rpath r = pre ++ tname t :: rest.
Proof.
  induction t as [g n a ks IH] using tree_ind'. intros pre r Hr. cbn [rows_from] in Hr.
  destruct Hr as [<-|Hr].
  - exists []. reflexivity.
  - apply in_flat_map in Hr as [k [Hk Hr]]. rewrite Forall_forall in IH.
    destruct (IH k Hk _ _ Hr) as [rest Hrest]. exists (tname k :: rest). cbn [tname].
    rewrite Hrest. rewrite <- app_assoc. reflexivity.
Qed.

Lemma frows_under pre f r : In r (frows pre f) -> exists t rest, In t f /\ rpath r = pre ++ tname t :: rest.
Proof.
  unfold frows. intros H. apply in_flat_map in H as [t [Ht Hr]].
  destruct (rows_from_under _ _ _ Hr) as [rest Hrest]. exists t, rest. split; assumption.
Qed.

Lemma filter_all {A} (g : A -> bool) l : (forall x, In x l -> g x = true) -> filter g l = l.
Proof.
  induction l as [|x l IH]; intros H; cbn; [reflexivity|].
  rewrite (H x (or_introl eq_refl)). f_equal. apply IH. intros y Hy. apply H. right. exact Hy.
Qed.

Lemma filter_none {A} (g : A -> bool) l : (forall x, In x l -> g x = false) -> filter g l = [].
Proof.
  induction l as [|x l IH]; intros H; cbn; [reflexivity|].
  rewrite (H x (or_introl eq_refl)). apply IH. intros y Hy. apply H. right. exact Hy.
Qed.

(* rows of a tree whose name differs from the component of P at that level are not below P *)
Lemma rows_other_not_under pre t n rest r :
  tname t <> n -> In r (rows_from pre t) -> under (pre ++ n :: rest) r = false.
Proof.
  intros Hn Hr. destruct (rows_from_under _ _ _ Hr) as [rs Hrs]. unfold under. rewrite Hrs.
  apply pfx_diff. congruence.
Qed.

Lemma rows_self_under pre t r : In r (rows_from pre t) -> under (pre ++ [tname t]) r = true.
Proof.
  intros Hr. destruct (rows_from_under _ _ _ Hr) as [rs Hrs]. unfold under. rewrite Hrs.
  replace (pre ++ tname t :: rs) with ((pre ++ [tname t]) ++ rs) by (rewrite <- app_assoc; reflexivity).
  apply pfx_app.
Qed.

Lemma frows_other_not_under pre f n rest r :
  (forall t, In t f -> tname t <> n) -> In r (frows pre f) -> under (pre ++ n :: rest) r = false.
Proof.
  intros Hn Hr. unfold frows in Hr. apply in_flat_map in Hr as [t [Ht Hr]].
  eapply rows_other_not_under; [apply Hn; exact Ht|exact Hr].
Qed.

(* -- splitting a forest at an index ------------------------------------------------------------- *)

Lemma nth_error_split_at {A} (l : list A) i x :
  nth_error l i = Some x -> exists a b, l = a ++ x :: b /\ length a = i.
Proof.
  intros H. apply nth_error_split in H as [a [b [H1 H2]]]. exists a, b. split; assumption.
Qed.

Lemma del_nth_mid {A} (a b : list A) x : del_nth (length a) (a ++ x :: b) = a ++ b.
Proof. induction a as [|y a IH]; cbn; [reflexivity|]. rewrite IH. reflexivity. Qed.

Lemma upd_nth_mid {A} (g : A -> A) (a b : list A) x : upd_nth (length a) g (a ++ x :: b) = a ++ g x :: b.
Proof. induction a as [|y a IH]; cbn; [reflexivity|]. rewrite IH. reflexivity. Qed.

Lemma nth_error_mid {A} (a b : list A) x : nth_error (a ++ x :: b) (length a) = Some x.
Proof. induction a as [|y a IH]; cbn; [reflexivity|exact IH]. Qed.

Lemma wf_f_mid a t b :
  wf_f (a ++ t :: b) ->
  wf_t t /\ wf_f (a ++ b) /\ (forall u, In u (a ++ b) -> tname u <> tname t).
Proof.
  intros [Hn Hf]. rewrite map_app in Hn. cbn [map] in Hn.
  pose proof (NoDup_remove_1 _ _ _ Hn) as Hn1. pose proof (NoDup_remove_2 _ _ _ Hn) as Hn2.
  rewrite Forall_app in Hf. destruct Hf as [Hfa Hfb]. inversion Hfb as [|? ? Ht Hfb']; subst.
  split; [exact Ht|]. split.
  - split; [rewrite map_app; exact Hn1|]. rewrite Forall_app. split; assumption.
  - intros u Hu E. apply Hn2. rewrite <- map_app. rewrite <- E. apply in_map. exact Hu.
Qed.

Lemma fpath_ext pre p f P : fpath pre p f = Some P -> exists rest, P = pre ++ rest /\ length rest = length p.
Proof.
  revert pre f; induction p as [|i p IH]; intros pre f H; cbn in H.
  - inversion H; subst. exists []. rewrite app_nil_r. split; reflexivity.
  - destruct (nth_error f i) as [t|]; [|discriminate]. apply IH in H as [rest [-> Hl]].
    exists (tname t :: rest). rewrite <- app_assoc. split; [reflexivity|cbn; lia].
Qed.

(* -- (R) removing the subtree at p removes exactly the rows at or below its path --------------- *)

Lemma frows_fremove : forall p pre (f : forest) P,
  wf_f f -> p <> [] -> fpath pre p f = Some P ->
  frows pre (fremove p f) = minus (frows pre f) P.
Proof.
  induction p as [|i p IH]; intros pre f P Hwf Hp HP; [congruence|].
  cbn [fpath] in HP. destruct (nth_error f i) as [t|] eqn:Et; [|discriminate].
  apply nth_error_split_at in Et as [a [b [-> <-]]].
  apply wf_f_mid in Hwf as [Ht [Hab Hne]].
  unfold minus. rewrite !frows_app, frows_cons, !filter_app.
  destruct (fpath_ext _ _ _ _ HP) as [rest [HPe Hrl]]. rewrite <- app_assoc in HPe. cbn [app] in HPe.
  assert (Ha : filter (fun r => negb (under P r)) (frows pre a) = frows pre a).
  { apply filter_all. intros r Hr. rewrite HPe.
    erewrite frows_other_not_under; [reflexivity| |exact Hr]. intros u Hu. apply Hne. apply in_or_app. left; exact Hu. }
  assert (Hb : filter (fun r => negb (under P r)) (frows pre b) = frows pre b).
  { apply filter_all. intros r Hr. rewrite HPe.
    erewrite frows_other_not_under; [reflexivity| |exact Hr]. intros u Hu. apply Hne. apply in_or_app. right; exact Hu. }
  rewrite Ha, Hb. cbn [fremove]. destruct p as [|j p].
  - cbn in HP. inversion HP; subst P. rewrite del_nth_mid, frows_app.
    rewrite (filter_none _ (rows_from pre t)); [reflexivity|].
    intros r Hr. rewrite (rows_self_under _ _ _ Hr). reflexivity.
  - rewrite upd_nth_mid, frows_app, frows_cons. f_equal. f_equal.
    rewrite (rows_from_eq pre (set_kids t _)), (rows_from_eq pre t), tname_set_kids.
    cbn [filter]. unfold under at 1. cbn [rpath fst].
    rewrite pfx_long by (rewrite HPe, !app_length; cbn [length] in *; lia). cbn [negb].
    destruct t as [g n at_ ks]. cbn [set_kids ttag tattrs tkids tname] in *. f_equal.
    apply IH; [apply (wf_t_kids _ Ht)|discriminate|exact HP].
Qed.

(* -- (A) appending a subtree as last child of q inserts its rows after the block of q ---------- *)

Lemma existsb_app' {A} (g : A -> bool) a b : existsb g (a ++ b) = existsb g a || existsb g b.
Proof. apply existsb_app. Qed.

Lemma existsb_false {A} (g : A -> bool) l : (forall x, In x l -> g x = false) -> existsb g l = false.
Proof.
  induction l as [|x l IH]; intros H; cbn; [reflexivity|].
  rewrite (H x (or_introl eq_refl)). apply IH. intros y Hy. apply H. right; exact Hy.
Qed.

Lemma existsb_true {A} (g : A -> bool) l x : In x l -> g x = true -> existsb g l = true.
Proof. intros Hx Hg. apply existsb_exists. exists x. split; assumption. Qed.

(* rows in front of a block that still contains a row below P are passed over *)
Lemma insert_last_front X K P rs :
  existsb (under P) K = true -> insert_last (X ++ K) P rs = X ++ insert_last K P rs.
Proof.
  intros HK. induction X as [|x X IH]; [reflexivity|]. cbn [app insert_last].
  rewrite existsb_app', HK, orb_true_r, andb_false_r. rewrite IH. reflexivity.
Qed.

(* rows behind the block, none of them below P, stay behind *)
Lemma insert_last_back K Z P rs :
  existsb (under P) K = true -> existsb (under P) Z = false ->
  insert_last (K ++ Z) P rs = insert_last K P rs ++ Z.
Proof.
  intros HK HZ. induction K as [|k K IH]; [discriminate|]. cbn [app insert_last].
  rewrite existsb_app', HZ, orb_false_r.
  destruct (under P k && negb (existsb (under P) K)) eqn:E.
  - cbn [app]. rewrite <- app_assoc. reflexivity.
  - cbn [app]. f_equal. apply IH. cbn [existsb] in HK.
    destruct (under P k); cbn in *; [|exact HK]. destruct (existsb (under P) K); [reflexivity|discriminate].
Qed.

(* a block all of whose rows are below P: the new rows go right behind it *)
Lemma insert_last_all Y P rs :
  Y <> [] -> (forall r, In r Y -> under P r = true) -> insert_last Y P rs = Y ++ rs.
Proof.
  induction Y as [|y Y IH]; intros Hne Hall; [congruence|]. cbn [insert_last].
  rewrite (Hall y (or_introl eq_refl)). destruct Y as [|y' Y].
  - cbn. rewrite app_nil_r. reflexivity.
  - assert (E : existsb (under P) (y' :: Y) = true).
    { eapply existsb_true; [left; reflexivity|]. apply Hall. right; left; reflexivity. }
    rewrite E. cbn [negb andb app]. f_equal. apply IH; [discriminate|].
    intros r Hr. apply Hall. right; exact Hr.
Qed.

(* the node a reference points to has a row, and that row carries its path *)
Lemma fpath_row : forall p pre (f : forest) P,
  p <> [] -> fpath pre p f = Some P -> exists r, In r (frows pre f) /\ rpath r = P.
Proof.
  induction p as [|i p IH]; intros pre f P Hp HP; [congruence|].
  cbn [fpath] in HP. destruct (nth_error f i) as [t|] eqn:Et; [|discriminate].
  apply nth_error_split_at in Et as [a [b [-> <-]]].
  destruct p as [|j p].
  - cbn in HP. inversion HP; subst. exists (pre ++ [tname t], ttag t, tattrs t). split; [|reflexivity].
    rewrite frows_app, frows_cons, rows_from_eq. apply in_or_app. right. left. reflexivity.
  - destruct (IH _ _ _ ltac:(discriminate) HP) as [r [Hr Hrp]]. exists r. split; [|exact Hrp].
    rewrite frows_app, frows_cons, rows_from_eq. apply in_or_app. right. right. apply in_or_app. left. exact Hr.
Qed.

Lemma frows_fappend : forall q pre (f : forest) P x,
  wf_f f -> q <> [] -> fpath pre q f = Some P ->
  frows pre (fappend q x f) = insert_last (frows pre f) P (rows_from P x).
Proof.
  induction q as [|i q IH]; intros pre f P x Hwf Hq HP; [congruence|].
  cbn [fpath] in HP. destruct (nth_error f i) as [t|] eqn:Et; [|discriminate].
  apply nth_error_split_at in Et as [a [b [-> <-]]].
  apply wf_f_mid in Hwf as [Ht [Hab Hne]].
  destruct (fpath_ext _ _ _ _ HP) as [rest [HPe Hrl]]. rewrite <- app_assoc in HPe. cbn [app] in HPe.
  assert (Hb : existsb (under P) (frows pre b) = false).
  { apply existsb_false. intros r Hr. rewrite HPe.
    eapply frows_other_not_under; [|exact Hr]. intros u Hu. apply Hne. apply in_or_app. right; exact Hu. }
  cbn [fappend]. rewrite upd_nth_mid, !frows_app, !frows_cons.
  rewrite (rows_from_eq pre (set_kids t _)), (rows_from_eq pre t), tname_set_kids.
  destruct t as [g n at_ ks]. cbn [set_kids ttag tattrs tkids tname] in *.
  destruct q as [|j q].
  - destruct rest as [|? ?]; [|cbn in Hrl; discriminate]. subst P. clear HP.
    cbn [fappend]. rewrite frows_app. cbn [frows flat_map]. rewrite app_nil_r.
    set (Y := (pre ++ [n], g, at_) :: frows (pre ++ [n]) ks).
    assert (HY : forall r, In r Y -> under (pre ++ [n]) r = true).
    { intros r [<-|Hr]; [unfold under; cbn; apply pfx_refl|].
      apply frows_under in Hr as [u [rs [_ Hrs]]]. unfold under. rewrite Hrs. apply pfx_app. }
    assert (EY : existsb (under (pre ++ [n])) Y = true).
    { eapply existsb_true; [left; reflexivity|]. unfold under; cbn; apply pfx_refl. }
    change ((pre ++ [n], g, at_) :: frows (pre ++ [n]) ks ++ rows_from (pre ++ [n]) x)
      with (Y ++ rows_from (pre ++ [n]) x) at 1.
    change (((pre ++ [n], g, at_) :: frows (pre ++ [n]) ks) ++ frows pre b) with (Y ++ frows pre b).
    rewrite insert_last_front by (rewrite existsb_app', EY; reflexivity).
    rewrite insert_last_back by assumption. rewrite insert_last_all; [|discriminate|exact HY].
    rewrite <- !app_assoc. reflexivity.
  - assert (Hq' : j :: q <> []) by discriminate.
    pose proof (wf_t_kids _ Ht) as Hk. cbn [tkids] in Hk.
    rewrite (IH _ _ _ x Hk Hq' HP).
    destruct (fpath_row _ _ _ _ Hq' HP) as [r [Hr Hrp]].
    assert (EK : existsb (under P) (frows (pre ++ [n]) ks) = true).
    { eapply existsb_true; [exact Hr|]. unfold under. rewrite Hrp. apply pfx_refl. }
    set (K := frows (pre ++ [n]) ks) in *.
    symmetry.
    transitivity (insert_last ((frows pre a ++ [(pre ++ [n], g, at_)]) ++ (K ++ frows pre b)) P (rows_from P x)).
    { f_equal. rewrite <- !app_assoc. reflexivity. }
    rewrite insert_last_front by (rewrite existsb_app', EK; reflexivity).
    rewrite insert_last_back by assumption.
    rewrite <- !app_assoc. reflexivity.
Qed.

(* -- (G) the rows at or below the path of a node are the rows of its subtree -------------------- *)

Lemma fget_rows : forall p pre (f : forest) P x,
  wf_f f -> fget p f = Some x -> fpath pre p f = Some P ->
  exists P0, P = P0 ++ [tname x] /\ sub_rows (frows pre f) P = rows_from P0 x.
Proof.
  induction p as [|i p IH]; intros pre f P x Hwf Hg HP; [discriminate|].
  cbn [fget] in Hg. cbn [fpath] in HP. destruct (nth_error f i) as [t|] eqn:Et; [|discriminate].
  apply nth_error_split_at in Et as [a [b [-> <-]]].
  apply wf_f_mid in Hwf as [Ht [Hab Hne]].
  destruct (fpath_ext _ _ _ _ HP) as [rest [HPe Hrl]]. rewrite <- app_assoc in HPe. cbn [app] in HPe.
  unfold sub_rows. rewrite !frows_app, frows_cons, !filter_app.
  assert (Ha : filter (under P) (frows pre a) = []).
  { apply filter_none. intros r Hr. rewrite HPe.
    eapply frows_other_not_under; [|exact Hr]. intros u Hu. apply Hne. apply in_or_app. left; exact Hu. }
  assert (Hb : filter (under P) (frows pre b) = []).
  { apply filter_none. intros r Hr. rewrite HPe.
    eapply frows_other_not_under; [|exact Hr]. intros u Hu. apply Hne. apply in_or_app. right; exact Hu. }
  rewrite Ha, Hb, app_nil_r. cbn [app]. destruct p as [|j p].
  - inversion Hg; subst x. cbn in HP. inversion HP; subst P. exists pre. split; [reflexivity|].
    apply filter_all. intros r Hr. apply rows_self_under. exact Hr.
  - pose proof (wf_t_kids _ Ht) as Hk.
    destruct (IH _ _ _ _ Hk Hg HP) as [P0 [HP0 Hsub]]. exists P0. split; [exact HP0|].
    rewrite rows_from_eq. cbn [filter]. unfold under at 1. cbn [rpath fst].
    rewrite pfx_long by (rewrite HPe, !app_length; cbn [length] in *; lia).
    exact Hsub.
Qed.

Lemma fget_fpath p : forall pre (f : forest) x, fget p f = Some x -> exists P, fpath pre p f = Some P.
Proof.
  induction p as [|i p IH]; intros pre f x Hg; [discriminate|].
  cbn [fget] in Hg. cbn [fpath]. destruct (nth_error f i) as [t|]; [|discriminate].
  destruct p as [|j p]; [exists (pre ++ [tname t]); reflexivity|]. eapply IH. exact Hg.
Qed.

Lemma fkids_fget q : forall (f : forest), q <> [] -> fkids q f = option_map tkids (fget q f).
Proof.
  induction q as [|i q IH]; intros f Hq; [congruence|]. cbn [fkids fget].
  destruct (nth_error f i) as [t|]; [|reflexivity]. destruct q as [|j q]; [reflexivity|].
  apply IH. discriminate.
Qed.

Lemma fpath_fget p : forall pre (f : forest) P, p <> [] -> fpath pre p f = Some P -> exists x, fget p f = Some x.
Proof.
  induction p as [|i p IH]; intros pre f P Hp HP; [congruence|].
  cbn [fget]. cbn [fpath] in HP. destruct (nth_error f i) as [t|]; [|discriminate].
  destruct p as [|j p]; [exists t; reflexivity|]. eapply IH; [discriminate|exact HP].
Qed.

(* -- references after a removal ----------------------------------------------------------------- *)

Lemma nth_error_del_nth_ge {A} (l : list A) i j : i < j -> nth_error (del_nth i l) (Nat.pred j) = nth_error l j.
Proof.
  revert i j; induction l as [|x l IH]; intros i j Hij; cbn.
  - destruct j; [lia|]. cbn. destruct j; reflexivity.
  - destruct i as [|i]; destruct j as [|j]; try lia; cbn; [reflexivity|].
    destruct j as [|j]; [lia|]. cbn. apply (IH i (S j)). lia.
Qed.

Lemma adj_none x : forall q, x <> [] -> adj x q = None -> is_prefix x q = true.
Proof.
  induction x as [|i x IH]; intros q Hx H; [congruence|].
  destruct q as [|j q]; [cbn in H; destruct x; discriminate|].
  cbn [adj] in H. destruct x as [|k x].
  - destruct (Nat.eqb j i) eqn:E; [|discriminate]. apply Nat.eqb_eq in E. subst. cbn. rewrite Nat.eqb_refl. reflexivity.
  - destruct (Nat.eqb j i) eqn:E; [|discriminate]. apply Nat.eqb_eq in E. subst.
    destruct (adj (k :: x) q) eqn:Ea; [discriminate|].
    cbn [is_prefix]. rewrite Nat.eqb_refl. apply IH; [discriminate|exact Ea].
Qed.

Lemma is_prefix_cons i x j q : is_prefix (i :: x) (j :: q) = Nat.eqb i j && is_prefix x q.
Proof. reflexivity. Qed.

Lemma fpath_adj : forall x q pre (f : forest) sub,
  fget x f = Some sub -> is_prefix x q = false ->
  fpath pre (adj' x q) (fremove x f) = fpath pre q f.
Proof.
  induction x as [|i x IH]; intros q pre f sub Hg Hpq; [discriminate|].
  destruct q as [|j q]; [unfold adj'; cbn; destruct x; reflexivity|].
  cbn [fget] in Hg. destruct (nth_error f i) as [t|] eqn:Et; [|discriminate].
  rewrite is_prefix_cons in Hpq. unfold adj'. cbn [adj fremove]. destruct x as [|k x].
  - cbn [is_prefix] in Hpq. rewrite andb_true_r in Hpq. rewrite Nat.eqb_sym in Hpq. rewrite Hpq.
    cbn [fpath]. apply Nat.eqb_neq in Hpq.
    destruct (Nat.ltb i j) eqn:El.
    + apply Nat.ltb_lt in El. rewrite nth_error_del_nth_ge by exact El. reflexivity.
    + apply Nat.ltb_ge in El. rewrite nth_error_del_nth_lt by lia. reflexivity.
  - destruct (Nat.eqb j i) eqn:Eji.
    + apply Nat.eqb_eq in Eji. subst j. rewrite Nat.eqb_refl in Hpq. cbn [andb] in Hpq.
      destruct (adj (k :: x) q) as [r|] eqn:Ea.
      * cbn [option_map fpath]. rewrite nth_error_upd_nth, Nat.eqb_refl, Et. cbn [option_map].
        rewrite tname_set_kids. destruct t as [g n a ks]. cbn [set_kids tkids tname].
        specialize (IH q (pre ++ [n]) ks sub Hg Hpq). unfold adj' in IH. rewrite Ea in IH. exact IH.
      * apply adj_none in Ea; [congruence|discriminate].
    + cbn [fpath]. rewrite nth_error_upd_nth, Eji. reflexivity.
Qed.

(* a node that is neither inside the removed subtree nor an ancestor of it keeps its subtree *)
Lemma fget_adj : forall x q (f : forest) sub,
  fget x f = Some sub -> is_prefix x q = false -> is_prefix q x = false ->
  fget (adj' x q) (fremove x f) = fget q f.
Proof.
  induction x as [|i x IH]; intros q f sub Hg Hpq Hqp; [discriminate|].
  destruct q as [|j q]; [discriminate|].
  cbn [fget] in Hg. destruct (nth_error f i) as [t|] eqn:Et; [|discriminate].
  rewrite is_prefix_cons in Hpq, Hqp. unfold adj'. cbn [adj fremove]. destruct x as [|k x].
  - cbn [is_prefix] in Hpq. rewrite andb_true_r in Hpq. rewrite Nat.eqb_sym in Hpq. rewrite Hpq.
    cbn [fget]. apply Nat.eqb_neq in Hpq.
    destruct (Nat.ltb i j) eqn:El.
    + apply Nat.ltb_lt in El. rewrite nth_error_del_nth_ge by exact El. reflexivity.
    + apply Nat.ltb_ge in El. rewrite nth_error_del_nth_lt by lia. reflexivity.
  - destruct (Nat.eqb j i) eqn:Eji.
    + apply Nat.eqb_eq in Eji. subst j. rewrite Nat.eqb_refl in Hpq. cbn [andb] in Hpq, Hqp.
      destruct q as [|j' q']; [discriminate|].
      destruct (adj (k :: x) (j' :: q')) as [r|] eqn:Ea.
      * cbn [option_map fget]. rewrite nth_error_upd_nth, Nat.eqb_refl, Et. cbn [option_map].
        destruct t as [g n a ks]. cbn [set_kids tkids].
        specialize (IH (j' :: q') ks sub Hg Hpq Hqp). unfold adj' in IH. rewrite Ea in IH.
        destruct r as [|r0 r].
        -- cbn [adj] in Ea. destruct x; [destruct (Nat.eqb j' k); discriminate|].
           destruct (Nat.eqb j' k); [destruct (adj _ _); discriminate|discriminate].
        -- exact IH.
      * apply adj_none in Ea; [congruence|discriminate].
    + cbn [fget]. rewrite nth_error_upd_nth, Eji. reflexivity.
Qed.

Lemma NoDup_app_snoc {A} (l : list A) x : NoDup l -> ~ In x l -> NoDup (l ++ [x]).
Proof.
  induction l as [|y l IH]; intros Hn Hx; cbn; [constructor; [intros []|constructor]|].
  inversion Hn as [|? ? Hy Hn']; subst. constructor.
  - intros Hin. apply in_app_or in Hin as [Hin|[E|[]]]; [contradiction|]. subst. apply Hx. left; reflexivity.
  - apply IH; [exact Hn'|]. intros Hin. apply Hx. right; exact Hin.
Qed.

(* -- well-formedness is kept -------------------------------------------------------------------- *)

Lemma map_tname_upd_nth i (g : tree -> tree) (f : forest) :
  (forall t, tname (g t) = tname t) -> map tname (upd_nth i g f) = map tname f.
Proof.
  intros Hg. revert i; induction f as [|t f IH]; intros i; cbn; [reflexivity|].
  destruct i; cbn; [rewrite Hg; reflexivity|rewrite IH; reflexivity].
Qed.

Lemma Forall_upd_nth (P : tree -> Prop) i (g : tree -> tree) (f : forest) :
  (forall t, P t -> P (g t)) -> Forall P f -> Forall P (upd_nth i g f).
Proof.
  intros Hg H. revert i; induction H as [|t f Ht Hf IH]; intros i; cbn; [constructor|].
  destruct i; constructor; auto.
Qed.

Lemma wf_f_del_nth i (f : forest) : wf_f f -> wf_f (del_nth i f).
Proof.
  intros [Hn Hf]. revert i; induction f as [|t f IH]; intros i; cbn; [split; assumption|].
  cbn [map] in Hn. inversion Hn as [|? ? Hnotin Hn']; subst. inversion Hf as [|? ? Ht Hf']; subst.
  destruct i; [split; assumption|].
  destruct (IH Hn' Hf' i) as [H1 H2]. split.
  - cbn [map]. constructor; [|exact H1]. intros Hin. apply Hnotin.
    clear -Hin. revert i Hin; induction f as [|u f IHf]; intros i Hin; cbn in *; [exact Hin|].
    destruct i; [right; exact Hin|]. destruct Hin as [E|Hin]; [left; exact E|right; eapply IHf; exact Hin].
  - constructor; assumption.
Qed.

Lemma wf_fremove : forall p (f : forest), wf_f f -> wf_f (fremove p f).
Proof.
  induction p as [|i p IH]; intros f Hwf; [exact Hwf|]. cbn [fremove]. destruct p as [|j p].
  - apply wf_f_del_nth. exact Hwf.
  - destruct Hwf as [Hn Hf]. split.
    + rewrite map_tname_upd_nth; [exact Hn|intros; apply tname_set_kids].
    + apply Forall_upd_nth; [|exact Hf]. intros t Ht. apply wf_t_set_kids. apply IH. apply wf_t_kids. exact Ht.
Qed.

Lemma wf_fappend : forall q (f : forest) x ks,
  wf_f f -> wf_t x -> q <> [] -> fkids q f = Some ks -> (forall k, In k ks -> tname k <> tname x) ->
  wf_f (fappend q x f).
Proof.
  induction q as [|i q IH]; intros f x ks Hwf Hx Hq Hk Hfresh; [congruence|].
  cbn [fkids] in Hk. destruct (nth_error f i) as [t|] eqn:Et; [|discriminate].
  apply nth_error_split_at in Et as [a [b [-> <-]]]. cbn [fappend]. rewrite upd_nth_mid.
  destruct Hwf as [Hn Hf]. split.
  - rewrite map_app in *. cbn [map] in *. rewrite tname_set_kids. exact Hn.
  - rewrite Forall_app in *. destruct Hf as [Hfa Hfb]. split; [exact Hfa|].
    inversion Hfb as [|? ? Ht Hfb']; subst. constructor; [|exact Hfb'].
    apply wf_t_set_kids. destruct q as [|j q].
    + cbn in Hk. inversion Hk; subst ks. cbn [fappend]. destruct (wf_t_kids _ Ht) as [Hkn Hkf]. split.
      * rewrite map_app. cbn [map]. apply NoDup_app_snoc; [exact Hkn|].
        intros Hin. apply in_map_iff in Hin as [k [Hk1 Hk2]]. apply (Hfresh k Hk2). exact Hk1.
      * rewrite Forall_app. split; [exact Hkf|constructor; [exact Hx|constructor]].
    + eapply IH; [apply wf_t_kids; exact Ht|exact Hx|discriminate|exact Hk|exact Hfresh].
Qed.

(* ============================================================================================== *)
(* Part 3.  One tree: the tree object handed to the call is piece 0 of the forest.                *)

Definition t_remove (p : ref) (t : tree) : tree := set_kids t (fremove p (tkids t)).
Definition t_append (q : ref) (x : tree) (t : tree) : tree := set_kids t (fappend q x (tkids t)).
Definition tpath (t : tree) (q : ref) : option (list str) := fpath [tname t] q (tkids t).
Definition tget (t : tree) (p : ref) : option tree := fget p (tkids t).

Lemma rows_eq t : rows t = ([tname t], ttag t, tattrs t) :: frows [tname t] (tkids t).
Proof. unfold rows. rewrite rows_from_eq. reflexivity. Qed.

Lemma tkids_set_kids t ks : tkids (set_kids t ks) = ks.
Proof. destruct t; reflexivity. Qed.
Lemma ttag_set_kids t ks : ttag (set_kids t ks) = ttag t.
Proof. destruct t; reflexivity. Qed.
Lemma tattrs_set_kids t ks : tattrs (set_kids t ks) = tattrs t.
Proof. destruct t; reflexivity. Qed.

Lemma tpath_ext t p P : tpath t p = Some P -> exists rest, P = tname t :: rest /\ length rest = length p.
Proof. unfold tpath. intros H. apply fpath_ext in H as [rest [-> Hl]]. exists rest. split; [reflexivity|exact Hl]. Qed.

Lemma rows_t_remove t p PX :
  wf_t t -> p <> [] -> tpath t p = Some PX -> rows (t_remove p t) = minus (rows t) PX.
Proof.
  intros Hwf Hp HP. unfold t_remove. rewrite !rows_eq, tname_set_kids, ttag_set_kids, tattrs_set_kids, tkids_set_kids.
  unfold minus. cbn [filter]. unfold under at 1. cbn [rpath fst].
  destruct (tpath_ext _ _ _ HP) as [rest [HPe Hl]].
  rewrite pfx_long by (rewrite HPe; cbn [length]; destruct p; [congruence|cbn in Hl; lia]).
  cbn [negb]. f_equal. apply frows_fremove; [apply wf_t_kids; exact Hwf|exact Hp|exact HP].
Qed.

Lemma rows_t_append t q x PQ :
  wf_t t -> tpath t q = Some PQ -> rows (t_append q x t) = insert_last (rows t) PQ (rows_from PQ x).
Proof.
  intros Hwf HP. unfold t_append. rewrite !rows_eq, tname_set_kids, ttag_set_kids, tattrs_set_kids, tkids_set_kids.
  destruct q as [|i q].
  - unfold tpath in HP. cbn in HP. inversion HP; subst PQ. cbn [fappend]. rewrite frows_app. cbn [frows flat_map].
    rewrite app_nil_r.
    rewrite insert_last_all; [reflexivity|discriminate|].
    intros r [<-|Hr]; [unfold under; cbn; rewrite str_eqb_refl; reflexivity|].
    apply frows_under in Hr as [u [rs [_ Hrs]]]. unfold under. rewrite Hrs. apply pfx_app.
  - assert (Hq : i :: q <> []) by discriminate.
    rewrite (frows_fappend _ _ _ _ x (wf_t_kids _ Hwf) Hq HP).
    destruct (fpath_row _ _ _ _ Hq HP) as [r [Hr Hrp]].
    change (([tname t], ttag t, tattrs t) :: frows [tname t] (tkids t))
      with ([([tname t], ttag t, tattrs t)] ++ frows [tname t] (tkids t)).
    rewrite insert_last_front; [reflexivity|].
    eapply existsb_true; [exact Hr|]. unfold under. rewrite Hrp. apply pfx_refl.
Qed.

Lemma wf_t_remove t p : wf_t t -> wf_t (t_remove p t).
Proof. intros H. apply wf_t_set_kids. apply wf_fremove. apply wf_t_kids. exact H. Qed.

Lemma fkids_cons0 q (t : tree) rest : fkids (0 :: q) (t :: rest) = fkids q (tkids t).
Proof. reflexivity. Qed.

Lemma fget_cons0 q (t : tree) rest : q <> [] -> fget (0 :: q) (t :: rest) = fget q (tkids t).
Proof. intros H. cbn. destruct q; [congruence|reflexivity]. Qed.

Lemma fremove_cons0 p (t : tree) rest : p <> [] -> fremove (0 :: p) (t :: rest) = t_remove p t :: rest.
Proof. intros H. cbn [fremove]. destruct p; [congruence|reflexivity]. Qed.

Lemma fappend_cons0 q x (t : tree) rest : fappend (0 :: q) x (t :: rest) = t_append q x t :: rest.
Proof. reflexivity. Qed.

Lemma fkids_of_fpath q : forall pre (f : forest) P, fpath pre q f = Some P -> exists ks, fkids q f = Some ks.
Proof.
  induction q as [|i q IH]; intros pre f P H; cbn in *; [exists f; reflexivity|].
  destruct (nth_error f i) as [t|]; [|discriminate]. eapply IH. exact H.
Qed.

Lemma dup_child_false nm skip ks : (forall k, In k ks -> tname k <> nm) -> forall i, dup_child nm skip i ks = false.
Proof.
  induction ks as [|k ks IH]; intros H i; cbn; [reflexivity|].
  destruct (str_eqb (tname k) nm) eqn:E.
  - apply str_eqb_eq in E. exfalso. apply (H k (or_introl eq_refl)). exact E.
  - cbn. apply IH. intros k' Hk'. apply H. right; exact Hk'.
Qed.

Lemma adj'_cons0 p q : p <> [] -> is_prefix p q = false -> adj' (0 :: p) (0 :: q) = 0 :: adj' p q.
Proof.
  intros Hp Hpq. unfold adj'. cbn [adj]. destruct p as [|j p]; [congruence|]. cbn [Nat.eqb].
  destruct (adj (j :: p) q) eqn:E; [reflexivity|]. apply adj_none in E; [congruence|discriminate].
Qed.

(* x.parent = y inside one tree: remove at p, append at q *)
Definition t_move (p q : ref) (x : tree) (t : tree) : tree := t_append (adj' p q) x (t_remove p t).

Lemma move_in_tree nr t rest p q x ks :
  p <> [] -> tget t p = Some x -> is_prefix p q = false ->
  fkids q (tkids t) = Some ks -> (forall k, In k ks -> tname k <> tname x) ->
  (exists PQ, tpath t q = Some PQ) ->
  exists trk, move nr (t :: rest) (0 :: p) (Some (0 :: q)) = MvOk (t_move p q x t :: rest) trk.
Proof.
  intros Hp Hx Hpq Hks Hfresh [PQ HPQ]. unfold move.
  rewrite fget_cons0 by exact Hp. unfold tget in Hx. rewrite Hx.
  rewrite is_prefix_cons. cbn [Nat.eqb andb]. rewrite Hpq.
  rewrite fkids_cons0, Hks. rewrite dup_child_false by exact Hfresh.
  assert (Hprot : protected nr (0 :: p) = false) by (destruct p; [congruence|reflexivity]).
  rewrite Hprot. rewrite fremove_cons0 by exact Hp. rewrite adj'_cons0 by assumption.
  rewrite fkids_cons0. unfold t_remove at 1. rewrite tkids_set_kids.
  assert (HPQ' : fpath [tname t] (adj' p q) (fremove p (tkids t)) = Some PQ).
  { unfold tpath in HPQ. rewrite (fpath_adj _ _ _ _ _ Hx Hpq). exact HPQ. }
  destruct (fkids_of_fpath _ _ _ _ HPQ') as [ks1 Hks1]. rewrite Hks1.
  rewrite fappend_cons0. eexists. reflexivity.
Qed.

Lemma rows_t_move t p q x PX PQ :
  wf_t t -> p <> [] -> tget t p = Some x -> is_prefix p q = false ->
  tpath t p = Some PX -> tpath t q = Some PQ ->
  rows (t_move p q x t) = insert_last (minus (rows t) PX) PQ (rows_from PQ x).
Proof.
  intros Hwf Hp Hx Hpq HPX HPQ. unfold t_move.
  rewrite (rows_t_append _ _ _ PQ); [|apply wf_t_remove; exact Hwf|].
  - rewrite (rows_t_remove _ _ PX) by assumption. reflexivity.
  - unfold tpath, t_remove. rewrite tname_set_kids, tkids_set_kids.
    unfold tget in Hx. rewrite (fpath_adj _ _ _ _ _ Hx Hpq). exact HPQ.
Qed.

(* x.parent = None for a node below the root *)
Lemma detach_in_tree nr t rest p x :
  p <> [] -> tget t p = Some x ->
  move nr (t :: rest) (0 :: p) None = MvOk ((t_remove p t :: rest) ++ [x]) (track (0 :: p) [S (length rest)]).
Proof.
  intros Hp Hx. unfold move. rewrite fget_cons0 by exact Hp. unfold tget in Hx. rewrite Hx.
  destruct p as [|j p]; [congruence|]. rewrite fremove_cons0 by discriminate. reflexivity.
Qed.

(* ============================================================================================== *)
(* Part 4.  Rows of the decision table (DESIGN.md section 7, "C08"), on the references layer.       *)

Record plain_shift (c : cfg) : Prop := {
  ps_copy : c_copy c = false;
  ps_mc : f_mc (c_fl c) = false;
  ps_ml : f_ml (c_fl c) = false;
  ps_dc : f_dc (c_fl c) = false }.

(* the plain attach step: from_node.parent = to_node *)
Lemma attach_plain_shift c t rest p q x ks :
  plain_shift c ->
  p <> [] -> tget t p = Some x -> is_prefix p q = false ->
  fkids q (tkids t) = Some ks -> (forall k, In k ks -> tname k <> tname x) ->
  (exists PQ, tpath t q = Some PQ) ->
  attach c false (t :: rest) (0 :: p) (Some (0 :: q)) = (t_move p q x t :: rest, None).
Proof.
  intros [Hc Hmc Hml Hdc] Hp Hx Hpq Hks Hfresh HPQ. unfold attach.
  rewrite Hc, Hml, Hdc. cbn [orb andb].
  destruct (move_in_tree (nroots c) t rest p q x ks Hp Hx Hpq Hks Hfresh HPQ) as [trk Hm].
  cbn [option_map].
  match goal with |- context [move ?a ?b ?c ?d] =>
    replace (move a b c d) with (MvOk (t_move p q x t :: rest) trk) by (symmetry; exact Hm) end.
  reflexivity.
Qed.

(* to_path empty: the subtree is detached *)
Theorem delete_core c t p x :
  plain_shift c -> p <> [] -> tget t p = Some x ->
  cs_core c [t] (0 :: p) TDel = ([t_remove p t; x], None).
Proof.
  intros [Hc Hmc Hml Hdc] Hp Hx. unfold cs_core, attach. rewrite Hmc, Hc, Hml, Hdc. cbn [orb andb].
  pose proof (detach_in_tree (nroots c) t [] p x Hp Hx) as Hm.
  match goal with |- context [move ?a ?b ?c ?d] =>
    replace (move a b c d) with (MvOk ((t_remove p t :: []) ++ [x]) (track (0 :: p) [1])) by (symmetry; exact Hm) end.
  reflexivity.
Qed.

Theorem delete_rows t p PX : wf_t t -> p <> [] -> tpath t p = Some PX -> rows (t_remove p t) = minus (rows t) PX.
Proof. apply rows_t_remove. Qed.

(* destination absent, its parent q present (or just created): the subtree becomes the last child of q *)
Theorem shift_core c t p q x ks comps t1 :
  plain_shift c ->
  add_walk [t] [dpiece c] comps = ([t1], Ret (0 :: q)) ->
  p <> [] -> tget t1 p = Some x -> is_prefix p q = false ->
  fkids q (tkids t1) = Some ks -> (forall k, In k ks -> tname k <> tname x) ->
  (exists PQ, tpath t1 q = Some PQ) ->
  cs_core c [t] (0 :: p) (TNew comps) = ([t_move p q x t1], None).
Proof.
  intros Hps Hw Hp Hx Hpq Hks Hfresh HPQ. unfold cs_core. rewrite Hw.
  rewrite (ps_mc _ Hps). eapply attach_plain_shift; eassumption.
Qed.

Theorem shift_rows t p q x PX PQ :
  wf_t t -> p <> [] -> tget t p = Some x -> is_prefix p q = false ->
  tpath t p = Some PX -> tpath t q = Some PQ ->
  rows (t_move p q x t) = insert_last (minus (rows t) PX) PQ (rows_from PQ x).
Proof. apply rows_t_move. Qed.

(* ============================================================================================== *)
(* Part 5.  add_path_to_tree: the missing prefixes of the destination parent are created           *)
(* (Spec.ensure), existing nodes are reused, nothing else changes.                                 *)

Lemma name_idx_none c ks : (forall k, In k ks -> tname k <> c) -> forall n, name_idx c n ks = [].
Proof.
  induction ks as [|k ks IH]; intros H n; cbn; [reflexivity|].
  destruct (str_eqb (tname k) c) eqn:E.
  - apply str_eqb_eq in E. exfalso. apply (H k (or_introl eq_refl)). exact E.
  - cbn. apply IH. intros k' Hk'. apply H. right; exact Hk'.
Qed.

Lemma name_idx_spec c ks : NoDup (map tname ks) -> forall n,
  (name_idx c n ks = [] /\ forall k, In k ks -> tname k <> c) \/
  (exists i k, name_idx c n ks = [n + i] /\ nth_error ks i = Some k /\ tname k = c).
Proof.
  induction ks as [|k ks IH]; intros Hn n; cbn.
  - left. split; [reflexivity|intros k []].
  - cbn [map] in Hn. inversion Hn as [|? ? Hnotin Hn']; subst.
    destruct (str_eqb (tname k) c) eqn:E.
    + apply str_eqb_eq in E. right. exists 0, k. rewrite name_idx_none.
      * rewrite Nat.add_0_r. split; [reflexivity|split; [reflexivity|exact E]].
      * intros k' Hk' E'. apply Hnotin. rewrite E, <- E'. apply in_map. exact Hk'.
    + apply str_eqb_neq in E. destruct (IH Hn' (S n)) as [[H1 H2]|[i [k' [H1 [H2 H3]]]]].
      * left. split; [exact H1|]. intros k' [<-|Hk']; [exact E|apply H2; exact Hk'].
      * right. exists (S i), k'. cbn. rewrite H1. replace (n + S i) with (S n + i) by lia.
        split; [reflexivity|split; assumption].
Qed.

Lemma is_prefix_refl p : is_prefix p p = true.
Proof. induction p as [|i p IH]; cbn; [reflexivity|]. rewrite Nat.eqb_refl. exact IH. Qed.

Lemma is_prefix_app p r : is_prefix p (p ++ r) = true.
Proof. induction p as [|i p IH]; cbn; [reflexivity|]. rewrite Nat.eqb_refl. exact IH. Qed.

Lemma is_prefix_iff p z : is_prefix p z = true <-> exists r, z = p ++ r.
Proof.
  revert z; induction p as [|i p IH]; intros z; cbn.
  - split; [intros _; exists z; reflexivity|reflexivity].
  - destruct z as [|j z]; [split; [discriminate|intros [r Hr]; discriminate]|]. split.
    + intros H. apply andb_true_iff in H as [H1 H2]. apply Nat.eqb_eq in H1. apply IH in H2 as [r ->].
      subst. exists r. reflexivity.
    + intros [r Hr]. inversion Hr; subst. rewrite Nat.eqb_refl. cbn. apply IH. exists r. reflexivity.
Qed.

Lemma is_prefix_trans a b c : is_prefix a b = true -> is_prefix b c = true -> is_prefix a c = true.
Proof.
  intros H1 H2. apply is_prefix_iff in H1 as [r1 ->]. apply is_prefix_iff in H2 as [r2 ->].
  rewrite <- app_assoc. apply is_prefix_app.
Qed.

Lemma wf_fkids here : forall (f : forest) ks, wf_f f -> fkids here f = Some ks -> wf_f ks.
Proof.
  induction here as [|i here IH]; intros f ks Hwf H; cbn in H; [inversion H; subst; exact Hwf|].
  destruct (nth_error f i) as [t|] eqn:Et; [|discriminate]. eapply IH; [|exact H].
  apply wf_t_kids. destruct Hwf as [_ Hf]. rewrite Forall_forall in Hf. apply Hf. eapply nth_error_In. exact Et.
Qed.

Lemma fpath_snoc here : forall pre (f : forest) H ks i k,
  fpath pre here f = Some H -> fkids here f = Some ks -> nth_error ks i = Some k ->
  fpath pre (here ++ [i]) f = Some (H ++ [tname k]).
Proof.
  induction here as [|j here IH]; intros pre f H ks i k HP Hk Hi; cbn in *.
  - inversion HP; subst. inversion Hk; subst. rewrite Hi. reflexivity.
  - destruct (nth_error f j) as [t|]; [|discriminate]. eapply IH; eassumption.
Qed.

Lemma fget_fappend_frame here : forall z (f : forest) x s,
  is_prefix z here = false -> fget z f = Some s -> fget z (fappend here x f) = Some s.
Proof.
  induction here as [|j here IH]; intros z f x s Hz Hs.
  - destruct z as [|i z]; [discriminate|]. cbn [fappend fget] in *.
    destruct (nth_error f i) as [t|] eqn:Et; [|discriminate].
    rewrite nth_error_app1 by (apply nth_error_Some; congruence). rewrite Et. exact Hs.
  - destruct z as [|i z]; [discriminate|]. rewrite is_prefix_cons in Hz. cbn [fappend fget] in *.
    rewrite nth_error_upd_nth. destruct (Nat.eqb i j) eqn:E.
    + cbn [andb] in Hz. destruct (nth_error f i) as [t|]; [|discriminate]. cbn [option_map].
      destruct z as [|i' z]; [discriminate|]. rewrite tkids_set_kids. apply IH; assumption.
    + exact Hs.
Qed.

Lemma fpath_fappend_frame here : forall z pre (f : forest) x P,
  fpath pre z f = Some P -> fpath pre z (fappend here x f) = Some P.
Proof.
  induction here as [|j here IH]; intros z pre f x P HP.
  - cbn [fappend]. revert pre f P HP. destruct z as [|i z]; intros pre f P HP; [exact HP|].
    cbn [fpath] in *. destruct (nth_error f i) as [t|] eqn:Et; [|discriminate].
    rewrite nth_error_app1 by (apply nth_error_Some; congruence). rewrite Et. exact HP.
  - destruct z as [|i z]; [exact HP|]. cbn [fappend fpath] in *. rewrite nth_error_upd_nth.
    destruct (Nat.eqb i j) eqn:E; [|exact HP].
    destruct (nth_error f i) as [t|]; [|discriminate]. cbn [option_map].
    rewrite tname_set_kids, tkids_set_kids. apply IH. exact HP.
Qed.

Lemma fpath_fappend_new here : forall pre (f : forest) x H ks,
  fpath pre here f = Some H -> fkids here f = Some ks ->
  fpath pre (here ++ [length ks]) (fappend here x f) = Some (H ++ [tname x]).
Proof.
  induction here as [|j here IH]; intros pre f x H ks HP Hk; cbn in *.
  - inversion HP; subst. inversion Hk; subst. rewrite nth_error_app2 by lia. rewrite Nat.sub_diag. reflexivity.
  - rewrite nth_error_upd_nth, Nat.eqb_refl. destruct (nth_error f j) as [t|]; [|discriminate]. cbn [option_map].
    rewrite tname_set_kids, tkids_set_kids. apply IH; assumption.
Qed.

Lemma length_fappend here : forall (f : forest) x, here <> [] -> length (fappend here x f) = length f.
Proof. intros f x H. destruct here; [congruence|]. cbn. apply length_upd_nth. Qed.

Lemma at_path_under P r : at_path P r = true -> under P r = true.
Proof. unfold at_path, under. intros H. apply path_eqb_eq in H. rewrite <- H. apply pfx_refl. Qed.

Lemma has_app a b P : has (a ++ b) P = has a P || has b P.
Proof. unfold has. apply existsb_app. Qed.

Lemma has_filter_under tb H P : pfx H P = true -> has (filter (under H) tb) P = has tb P.
Proof.
  intros HP. unfold has. induction tb as [|r tb IH]; cbn; [reflexivity|].
  destruct (under H r) eqn:E; cbn; [rewrite IH; reflexivity|]. rewrite IH.
  destruct (at_path P r) eqn:Ea; [|reflexivity]. unfold at_path in Ea. apply path_eqb_eq in Ea.
  unfold under in E. rewrite <- Ea in E. congruence.
Qed.

Lemma has_rows_child H k c : has (rows_from H k) (H ++ [c]) = str_eqb (tname k) c.
Proof.
  destruct (str_eqb (tname k) c) eqn:E.
  - apply str_eqb_eq in E. rewrite rows_from_eq. unfold has. cbn [existsb]. unfold at_path at 1. cbn [rpath fst].
    rewrite E, path_eqb_refl. reflexivity.
  - apply str_eqb_neq in E. unfold has. apply existsb_false. intros r Hr.
    destruct (at_path (H ++ [c]) r) eqn:Ea; [|reflexivity]. apply at_path_under in Ea.
    rewrite (rows_other_not_under H k c [] r E Hr) in Ea. discriminate.
Qed.

Lemma has_frows_child H ks c : has (frows H ks) (H ++ [c]) = existsb (fun k => str_eqb (tname k) c) ks.
Proof.
  induction ks as [|k ks IH]; [reflexivity|]. rewrite frows_cons, has_app, has_rows_child, IH. reflexivity.
Qed.

Lemma has_child here pre (f : forest) H ks c :
  wf_f f -> here <> [] -> fpath pre here f = Some H -> fkids here f = Some ks ->
  has (frows pre f) (H ++ [c]) = existsb (fun k => str_eqb (tname k) c) ks.
Proof.
  intros Hwf Hh HP Hk. destruct (fpath_fget _ _ _ _ Hh HP) as [xh Hxh].
  destruct (fget_rows _ _ _ _ _ Hwf Hxh HP) as [P0 [HP0 Hsub]].
  rewrite <- (has_filter_under _ H) by apply pfx_app. unfold sub_rows in Hsub. rewrite Hsub.
  rewrite rows_from_eq, <- HP0. unfold has. cbn [existsb]. unfold at_path at 1. cbn [rpath fst].
  replace (path_eqb (H ++ [c]) H) with false.
  2: { symmetry. destruct (path_eqb (H ++ [c]) H) eqn:E; [|reflexivity]. apply path_eqb_eq in E.
       apply (f_equal (@length str)) in E. rewrite app_length in E. cbn in E. lia. }
  cbn [orb]. rewrite fkids_fget in Hk by exact Hh. rewrite Hxh in Hk. inversion Hk; subst ks.
  apply has_frows_child.
Qed.

Lemma existsb_name_false ks c : (forall k, In k ks -> tname k <> c) -> existsb (fun k => str_eqb (tname k) c) ks = false.
Proof. intros H. apply existsb_false. intros k Hk. apply str_eqb_neq. apply H. exact Hk. Qed.

Lemma add_walk_spec : forall comps (f : forest) here pre H,
  wf_f f -> here <> [] -> fpath pre here f = Some H -> (forall c, In c comps -> c <> []) ->
  exists f' q, add_walk f here comps = (f', Ret q) /\ wf_f f' /\ length f' = length f /\
    frows pre f' = ensure (frows pre f) H comps /\ fpath pre q f' = Some (H ++ comps) /\
    is_prefix here q = true /\
    (forall z s, is_prefix z q = false -> fget z f = Some s -> fget z f' = Some s) /\
    (forall z P, fpath pre z f = Some P -> fpath pre z f' = Some P).
Proof.
  induction comps as [|c comps IH]; intros f here pre H Hwf Hh HP Hne.
  - exists f, here. cbn. rewrite app_nil_r. split; [reflexivity|]. split; [exact Hwf|]. split; [reflexivity|].
    split; [reflexivity|]. split; [exact HP|]. split; [apply is_prefix_refl|]. split; auto.
  - cbn [add_walk]. destruct (fkids_of_fpath _ _ _ _ HP) as [ks Hk]. rewrite Hk.
    pose proof (wf_fkids _ _ _ Hwf Hk) as [Hkn Hkf].
    assert (Hne' : forall c', In c' comps -> c' <> []) by (intros c' Hc'; apply Hne; right; exact Hc').
    destruct (name_idx_spec c ks Hkn 0) as [[E Hfresh]|[i [k [E [Hi Hkc]]]]]; rewrite E.
    + assert (Hc : c <> []) by (apply Hne; left; reflexivity).
      destruct c as [|ch c]; [congruence|]. set (cn := ch :: c) in *.
      assert (Hwf1 : wf_f (fappend here (fresh_node cn) f)).
      { eapply wf_fappend; [exact Hwf| |exact Hh|exact Hk|exact Hfresh].
        constructor; [constructor|constructor]. }
      assert (HP1 : fpath pre (here ++ [length ks]) (fappend here (fresh_node cn) f) = Some (H ++ [cn])).
      { apply (fpath_fappend_new here pre f (fresh_node cn) H ks HP Hk). }
      assert (Hh1 : here ++ [length ks] <> []) by (destruct here; discriminate).
      destruct (IH _ _ _ _ Hwf1 Hh1 HP1 Hne') as [f' [q [Ha [Hwf' [Hlen [Hrows [Hq [Hpre [Hfr1 Hfr2]]]]]]]]].
      exists f', q. split; [exact Ha|]. split; [exact Hwf'|].
      split; [rewrite Hlen; apply length_fappend; exact Hh|].
      split.
      * rewrite Hrows. cbn [ensure]. rewrite (has_child here pre f H ks cn Hwf Hh HP Hk).
        rewrite existsb_name_false by exact Hfresh.
        rewrite (frows_fappend here pre f H (fresh_node cn) Hwf Hh HP). reflexivity.
      * split; [rewrite Hq, <- app_assoc; reflexivity|].
        split; [eapply is_prefix_trans; [apply is_prefix_app|exact Hpre]|].
        split.
        -- intros z s Hz Hs. apply Hfr1; [exact Hz|]. apply fget_fappend_frame; [|exact Hs].
           destruct (is_prefix z here) eqn:Ez; [|reflexivity].
           rewrite (is_prefix_trans z here q Ez (is_prefix_trans _ _ _ (is_prefix_app here [length ks]) Hpre)) in Hz.
           discriminate.
        -- intros z P Hz. apply Hfr2. apply fpath_fappend_frame. exact Hz.
    + cbn [Nat.add] in *.
      assert (HP1 : fpath pre (here ++ [i]) f = Some (H ++ [c])).
      { rewrite <- Hkc. eapply fpath_snoc; eassumption. }
      assert (Hh1 : here ++ [i] <> []) by (destruct here; discriminate).
      destruct (IH _ _ _ _ Hwf Hh1 HP1 Hne') as [f' [q [Ha [Hwf' [Hlen [Hrows [Hq [Hpre [Hfr1 Hfr2]]]]]]]]].
      exists f', q. split; [exact Ha|]. split; [exact Hwf'|]. split; [exact Hlen|].
      split.
      * rewrite Hrows. cbn [ensure]. rewrite (has_child here pre f H ks c Hwf Hh HP Hk).
        replace (existsb (fun k0 => str_eqb (tname k0) c) ks) with true; [reflexivity|].
        symmetry. eapply existsb_true; [eapply nth_error_In; exact Hi|]. apply str_eqb_eq. exact Hkc.
      * split; [rewrite Hq, <- app_assoc; reflexivity|].
        split; [eapply is_prefix_trans; [apply is_prefix_app|exact Hpre]|].
        split; assumption.
Qed.

(* ============================================================================================== *)
(* Part 6.  The plain shift to an absent destination, end to end, and its agreement with the       *)
(* documented edit Spec.PC08.edit_cs.                                                              *)

Lemma fpath_prefix_mono p : forall q pre (f : forest) PP PQ,
  is_prefix p q = true -> fpath pre p f = Some PP -> fpath pre q f = Some PQ -> pfx PP PQ = true.
Proof.
  induction p as [|i p IH]; intros q pre f PP PQ Hpq HP HQ.
  - cbn in HP. inversion HP; subst. destruct (fpath_ext _ _ _ _ HQ) as [rest [-> _]]. apply pfx_app.
  - destruct q as [|j q]; [discriminate|]. rewrite is_prefix_cons in Hpq. apply andb_true_iff in Hpq as [E Hpq].
    apply Nat.eqb_eq in E. subst j. cbn [fpath] in HP, HQ. destruct (nth_error f i) as [t|]; [|discriminate].
    eapply IH; eassumption.
Qed.

Lemma t_sub_rows t p x PX :
  wf_t t -> p <> [] -> tget t p = Some x -> tpath t p = Some PX ->
  exists P0, PX = P0 ++ [tname x] /\ sub_rows (rows t) PX = rows_from P0 x.
Proof.
  intros Hwf Hp Hx HP. destruct (fget_rows _ _ _ _ _ (wf_t_kids _ Hwf) Hx HP) as [P0 [HP0 Hsub]].
  exists P0. split; [exact HP0|]. rewrite rows_eq. unfold sub_rows in *. cbn [filter]. unfold under at 1. cbn [rpath fst].
  destruct (tpath_ext _ _ _ HP) as [rest [HPe Hl]].
  rewrite pfx_long by (rewrite HPe; cbn [length]; destruct p; [congruence|cbn in Hl; lia]).
  exact Hsub.
Qed.

Lemma t_has_child t q Q ks c :
  wf_t t -> tpath t q = Some Q -> fkids q (tkids t) = Some ks ->
  has (rows t) (Q ++ [c]) = existsb (fun k => str_eqb (tname k) c) ks.
Proof.
  intros Hwf HQ Hk. rewrite rows_eq. unfold has. cbn [existsb]. unfold at_path at 1. cbn [rpath fst].
  destruct (tpath_ext _ _ _ HQ) as [rest [HQe Hl]].
  replace (path_eqb (Q ++ [c]) [tname t]) with false.
  2: { symmetry. destruct (path_eqb (Q ++ [c]) [tname t]) eqn:E; [|reflexivity]. apply path_eqb_eq in E.
       apply (f_equal (@length str)) in E. rewrite HQe, app_length in E. cbn in E. lia. }
  cbn [orb]. destruct q as [|i q].
  - unfold tpath in HQ. cbn in HQ, Hk. inversion HQ; subst Q. inversion Hk; subst ks. apply has_frows_child.
  - apply (has_child (i :: q) [tname t] (tkids t) Q ks c); [apply wf_t_kids; exact Hwf|discriminate|exact HQ|exact Hk].
Qed.

Lemma has_insert_last tb H rs P : has (insert_last tb H rs) P = has tb P || has rs P.
Proof.
  induction tb as [|r tb IH]; cbn [insert_last]; [reflexivity|].
  destruct (under H r && negb (existsb (under H) tb)).
  - unfold has. cbn [existsb]. rewrite existsb_app. unfold has in *.
    destruct (at_path P r); cbn [orb]; [reflexivity|]. apply orb_comm.
  - unfold has in *. cbn [existsb]. rewrite IH. rewrite orb_assoc. reflexivity.
Qed.

Lemma has_ensure_long todo : forall tb d P,
  length d + length todo < length P -> has (ensure tb d todo) P = has tb P.
Proof.
  induction todo as [|c todo IH]; intros tb d P Hl; cbn [ensure]; [reflexivity|].
  rewrite IH by (rewrite app_length; cbn [length] in *; lia).
  destruct (has tb (d ++ [c])); [reflexivity|]. rewrite has_insert_last. unfold has at 2. cbn [existsb].
  unfold at_path. cbn [rpath fst].
  replace (path_eqb P (d ++ [c])) with false; [rewrite !orb_false_r; reflexivity|].
  symmetry. destruct (path_eqb P (d ++ [c])) eqn:E; [|reflexivity]. apply path_eqb_eq in E.
  apply (f_equal (@length str)) in E. rewrite app_length in E. cbn [length] in *. lia.
Qed.

Lemma has_filter_false (g : row -> bool) tb P : has tb P = false -> has (filter g tb) P = false.
Proof.
  unfold has. induction tb as [|r tb IH]; cbn; [reflexivity|]. intros H. apply orb_false_iff in H as [H1 H2].
  destruct (g r); cbn; [rewrite H1|]; apply IH; exact H2.
Qed.

Lemma existsb_name_iff ks c : existsb (fun k => str_eqb (tname k) c) ks = false -> forall k, In k ks -> tname k <> c.
Proof.
  intros H k Hk E. assert (existsb (fun k => str_eqb (tname k) c) ks = true).
  { eapply existsb_true; [exact Hk|]. apply str_eqb_eq. exact E. } congruence.
Qed.

Lemma forest1 (f : forest) : length f = 1 -> exists t, f = [t].
Proof. destruct f as [|t [|u f]]; cbn; intros H; try discriminate. exists t. reflexivity. Qed.

Lemma wf_f_single t : wf_t t -> wf_f [t].
Proof. intros H. split; [constructor; [intros []|constructor]|constructor; [exact H|constructor]]. Qed.

(* DESIGN.md "C08_shift_paths": plain shift, destination absent.  The result is the single tree t2 whose
   table is: create the missing prefixes of the destination parent Q, drop the rows of the moved subtree,
   insert them (same tags, same attributes, re-rooted under Q) as the last child block of Q. *)
Theorem shift_new_full c t p x comps PX :
  plain_shift c -> c_two c = false -> wf_t t ->
  p <> [] -> tget t p = Some x -> tpath t p = Some PX ->
  (forall cc, In cc comps -> cc <> []) ->
  pfx PX (tname t :: comps) = false ->
  has (rows t) ((tname t :: comps) ++ [tname x]) = false ->
  exists t2, cs_core c [t] (0 :: p) (TNew comps) = ([t2], None) /\
    rows t2 = insert_last (minus (ensure (rows t) [tname t] comps) PX) (tname t :: comps)
                          (rows_from (tname t :: comps) x).
Proof.
  intros Hps Htwo Hwf Hp Hx HPX Hne Hnotin Habs. set (Q := tname t :: comps) in *.
  assert (Hdp : dpiece c = 0) by (unfold dpiece; rewrite Htwo; reflexivity).
  destruct (add_walk_spec comps [t] [0] [] [tname t] (wf_f_single _ Hwf) ltac:(discriminate) eq_refl Hne)
    as [f' [q [Ha [Hwf' [Hlen [Hrows [Hq [Hpre [Hfr1 Hfr2]]]]]]]]].
  destruct (forest1 f' Hlen) as [t1 ->].
  destruct q as [|q0 q]; [discriminate|]. cbn [is_prefix] in Hpre. rewrite andb_true_r in Hpre.
  apply Nat.eqb_eq in Hpre. subst q0.
  assert (Hwf1 : wf_t t1) by (destruct Hwf' as [_ Hf]; inversion Hf; assumption).
  assert (Hr1 : rows t1 = ensure (rows t) [tname t] comps).
  { unfold frows in Hrows. cbn [flat_map] in Hrows. rewrite !app_nil_r in Hrows. exact Hrows. }
  assert (HQ1 : tpath t1 q = Some Q) by exact Hq.
  assert (Hn1 : tname t1 = tname t).
  { destruct (tpath_ext _ _ _ HQ1) as [rest [E _]]. unfold Q in E. inversion E. reflexivity. }
  assert (HPX1 : tpath t1 p = Some PX).
  { exact (Hfr2 (0 :: p) PX HPX). }
  assert (Hpq : is_prefix p q = false).
  { destruct (is_prefix p q) eqn:E; [|reflexivity].
    rewrite (fpath_prefix_mono _ _ _ _ _ _ E HPX1 HQ1) in Hnotin. discriminate. }
  assert (Hx1 : tget t1 p = Some x).
  { unfold tget. rewrite <- (fget_cons0 p t1 []) by exact Hp. apply Hfr1.
    - rewrite is_prefix_cons. cbn. exact Hpq.
    - rewrite fget_cons0 by exact Hp. exact Hx. }
  destruct (fkids_of_fpath _ _ _ _ HQ1) as [ks Hks].
  assert (Hfresh : forall k, In k ks -> tname k <> tname x).
  { apply existsb_name_iff. rewrite <- (t_has_child t1 q Q ks (tname x) Hwf1 HQ1 Hks).
    rewrite Hr1, has_ensure_long; [exact Habs|]. unfold Q. rewrite app_length. cbn [length]. lia. }
  exists (t_move p q x t1). split.
  - eapply (shift_core c t p q x ks comps t1); try eassumption.
    + rewrite Hdp. exact Ha.
    + exists Q. exact HQ1.
  - rewrite (rows_t_move t1 p q x PX Q) by assumption. rewrite Hr1. reflexivity.
Qed.

(* -- agreement with Spec.PC08.edit_cs ------------------------------------------------------------ *)

Lemma skipn_app_exact {A} (a b : list A) : skipn (length a) (a ++ b) = b.
Proof. induction a; cbn; [reflexivity|assumption]. Qed.

Lemma reroot_rows_from x : forall P0 Q (fresh : bool),
  map (fun r : row => (Q ++ skipn (length P0) (rpath r), if fresh then None else rtag r, rattrs r)) (rows_from P0 x)
  = rows_from Q (if fresh then retag x else x).
Proof.
  induction x as [g n a ks IH] using tree_ind'. intros P0 Q fresh.
  assert (Hhead : Q ++ skipn (length P0) (P0 ++ [n]) = Q ++ [n]) by (rewrite skipn_app_exact; reflexivity).
  assert (Hkids : forall (ks' : list tree), Forall (fun k => In k ks) ks' ->
     map (fun r : row => (Q ++ skipn (length P0) (rpath r), if fresh then None else rtag r, rattrs r))
         (flat_map (rows_from (P0 ++ [n])) ks')
     = flat_map (rows_from (Q ++ [n])) (map (fun k => if fresh then retag k else k) ks')).
  { induction ks' as [|k ks' IHk]; intros Hin; [reflexivity|]. inversion Hin as [|? ? Hk Hin']; subst.
    cbn [flat_map map]. rewrite map_app, IHk by exact Hin'. f_equal.
    rewrite Forall_forall in IH. rewrite <- (IH k Hk (P0 ++ [n]) (Q ++ [n]) fresh).
    apply map_ext_in. intros r Hr. destruct (rows_from_under _ _ _ Hr) as [rest Hrest].
    rewrite Hrest. rewrite <- !app_assoc. cbn [app].
    rewrite skipn_app_exact.
    replace (P0 ++ n :: tname k :: rest) with ((P0 ++ [n]) ++ tname k :: rest) by (rewrite <- app_assoc; reflexivity).
    rewrite skipn_app_exact. reflexivity. }
  assert (Hall : Forall (fun k => In k ks) ks) by (apply Forall_forall; auto).
  destruct fresh; cbn [rows_from retag map rpath rtag rattrs fst snd]; rewrite Hhead; f_equal.
  - rewrite (Hkids ks Hall). reflexivity.
  - rewrite (Hkids ks Hall). rewrite map_id. reflexivity.
Qed.

Lemma t_has_row t p PX : p <> [] -> tpath t p = Some PX -> has (rows t) PX = true.
Proof.
  intros Hp HP. destruct (fpath_row _ _ _ _ Hp HP) as [r [Hr Hrp]]. rewrite rows_eq. unfold has. cbn [existsb].
  apply orb_true_iff. right. eapply existsb_true; [exact Hr|]. unfold at_path. rewrite Hrp. apply path_eqb_refl.
Qed.

Lemma pfx_snoc_false P Q a : pfx P Q = false -> P <> Q ++ [a] -> pfx P (Q ++ [a]) = false.
Proof.
  intros H1 H2. destruct (pfx P (Q ++ [a])) eqn:E; [|reflexivity]. apply pfx_iff in E as [r Hr].
  destruct r as [|b r] using rev_ind.
  - rewrite app_nil_r in Hr. congruence.
  - rewrite app_assoc in Hr. apply app_inj_tail in Hr as [Hr _]. rewrite Hr, pfx_app in H1. discriminate.
Qed.

Lemma has_root t : has (rows t) [tname t] = true.
Proof. rewrite rows_eq. unfold has. cbn [existsb]. unfold at_path at 1. cbn [rpath fst]. rewrite path_eqb_refl. reflexivity. Qed.

(* the table produced by the plain shift is the one Spec.PC08.edit_cs prescribes *)
Theorem edit_cs_shift_new fl t p x comps PX :
  f_mc fl = false -> f_ml fl = false -> f_dc fl = false ->
  wf_t t -> p <> [] -> tget t p = Some x -> tpath t p = Some PX ->
  pfx PX (tname t :: comps) = false ->
  has (rows t) ((tname t :: comps) ++ [tname x]) = false ->
  let T' := insert_last (minus (ensure (rows t) [tname t] comps) PX) (tname t :: comps)
                        (rows_from (tname t :: comps) x) in
  edit_cs false true fl (rows t) (rows t) PX (Some ((tname t :: comps) ++ [tname x])) = PNext T' T'.
Proof.
  intros Hmc Hml Hdc Hwf Hp Hx HPX Hnotin Habs T'. set (Q := tname t :: comps) in *.
  destruct (t_sub_rows t p x PX Hwf Hp Hx HPX) as [P0 [HP0 Hsub]].
  destruct (tpath_ext _ _ _ HPX) as [rest [HPe Hl]].
  assert (Hk : length PX = S (length P0)) by (rewrite HP0, app_length; cbn; lia).
  assert (Hk2 : Nat.eqb (length PX) 1 = false).
  { apply Nat.eqb_neq. rewrite HPe. cbn [length]. destruct p; [congruence|cbn in Hl; lia]. }
  assert (Hne : PX <> Q ++ [tname x]).
  { intros E. rewrite <- E in Habs. rewrite (t_has_row t p PX Hp HPX) in Habs. discriminate. }
  unfold edit_cs. rewrite Hk2. cbn [negb andb].
  rewrite removelast_last, !last_last. rewrite HP0 at 1. rewrite last_last, str_eqb_refl. cbn [negb].
  replace (path_eqb (Q ++ [tname x]) PX) with false.
  2: { symmetry. destruct (path_eqb (Q ++ [tname x]) PX) eqn:E; [|reflexivity]. apply path_eqb_eq in E. congruence. }
  rewrite (pfx_snoc_false PX Q (tname x) Hnotin Hne). cbn [andb]. rewrite Habs.
  replace (Nat.ltb (length (Q ++ [tname x])) 2) with false.
  2: { symmetry. apply Nat.ltb_ge. rewrite app_length. unfold Q. cbn [length]. lia. }
  rewrite Hmc, Hml, Hdc.
  assert (He : ensure (rows t) [] Q = ensure (rows t) [tname t] comps).
  { unfold Q. cbn [ensure app]. rewrite has_root. reflexivity. }
  rewrite He. cbn [attach_items]. unfold reroot. cbn [fst snd]. fold (sub_rows (rows t) PX). rewrite Hsub.
  rewrite Hk. cbn [Nat.sub]. rewrite Nat.sub_0_r.
  rewrite (reroot_rows_from x P0 Q false). rewrite rows_from_eq at 1.
  cbn [rpath fst].
  unfold minus at 1. rewrite has_filter_false.
  2: { rewrite has_ensure_long; [exact Habs|]. unfold Q. rewrite app_length. cbn [length]. lia. }
  rewrite <- rows_from_eq. reflexivity.
Qed.

(* -- deletion agrees with the documented edit ---------------------------------------------------- *)

Theorem edit_cs_delete fl t p PX :
  f_mc fl = false -> f_ml fl = false -> p <> [] -> tpath t p = Some PX ->
  edit_cs false true fl (rows t) (rows t) PX None = PNext (minus (rows t) PX) (minus (rows t) PX).
Proof.
  intros Hmc Hml Hp HPX. destruct (tpath_ext _ _ _ HPX) as [rest [HPe Hl]].
  assert (Hk2 : Nat.eqb (length PX) 1 = false).
  { apply Nat.eqb_neq. rewrite HPe. cbn [length]. destruct p; [congruence|cbn in Hl; lia]. }
  unfold edit_cs. rewrite Hk2, Hmc, Hml. reflexivity.
Qed.

(* ============================================================================================== *)
(* Part 7.  copy_nodes: the copy is made of new objects, the original stays where it is.           *)

Record plain_copy (c : cfg) : Prop := {
  pc_copy : c_copy c = true;
  pc_two : c_two c = false;
  pc_mc : f_mc (c_fl c) = false;
  pc_ml : f_ml (c_fl c) = false;
  pc_dc : f_dc (c_fl c) = false }.

Lemma tname_retag t : tname (retag t) = tname t.
Proof. destruct t; reflexivity. Qed.
Lemma tkids_retag t : tkids (retag t) = map retag (tkids t).
Proof. destruct t; reflexivity. Qed.

Lemma fget_retag p : forall (ks : forest), fget p (map retag ks) = option_map retag (fget p ks).
Proof.
  induction p as [|i p IH]; intros ks; [reflexivity|]. cbn [fget]. rewrite nth_error_map.
  destruct (nth_error ks i) as [t|]; [|reflexivity]. cbn [option_map].
  destruct p as [|j p]; [reflexivity|]. rewrite tkids_retag. apply IH.
Qed.

Lemma attach_plain_copy c t p q x ks :
  plain_copy c -> p <> [] -> tget t p = Some x ->
  fkids q (tkids t) = Some ks -> (forall k, In k ks -> tname k <> tname x) ->
  attach c false [t] (0 :: p) (Some (0 :: q)) = ([t_append q (retag x) t; t_remove p (retag t)], None).
Proof.
  intros [Hc Htwo Hmc Hml Hdc] Hp Hx Hks Hfresh. unfold attach. rewrite Hc, Hml, Hdc. cbn [orb andb negb].
  unfold copy_node. cbn [nth_error length option_map]. unfold move.
  change ([t] ++ [retag t]) with [t; retag t].
  assert (Hg : fget (1 :: p) [t; retag t] = Some (retag x)).
  { cbn [fget nth_error]. destruct p as [|j p]; [congruence|]. rewrite tkids_retag, fget_retag.
    unfold tget in Hx. rewrite Hx. reflexivity. }
  rewrite Hg. cbn [is_prefix Nat.eqb andb].
  replace (fkids (0 :: q) [t; retag t]) with (Some ks) by (symmetry; exact Hks).
  rewrite tname_retag. rewrite dup_child_false by exact Hfresh.
  assert (Hprot : protected (nroots c) (1 :: p) = false) by (destruct p; [congruence|reflexivity]).
  rewrite Hprot.
  assert (Hadj : adj' (1 :: p) (0 :: q) = 0 :: q) by (unfold adj'; destruct p; [congruence|reflexivity]).
  rewrite Hadj.
  assert (Hrem : fremove (1 :: p) [t; retag t] = [t; t_remove p (retag t)]) by (destruct p; [congruence|reflexivity]).
  rewrite Hrem.
  replace (fkids (0 :: q) [t; t_remove p (retag t)]) with (Some ks) by (symmetry; exact Hks).
  reflexivity.
Qed.

(* DESIGN.md "C08_copy_keeps_source": plain copy, destination absent.  Piece 0 (the tree) afterwards:
   missing prefixes created, all rows of the original still there, the copied rows (tag None)
   inserted as last child block of Q. *)
Theorem copy_new_full c t p x comps PX :
  plain_copy c -> wf_t t ->
  p <> [] -> tget t p = Some x -> tpath t p = Some PX ->
  (forall cc, In cc comps -> cc <> []) ->
  pfx PX (tname t :: comps) = false ->
  has (rows t) ((tname t :: comps) ++ [tname x]) = false ->
  exists t2 rest, cs_core c [t] (0 :: p) (TNew comps) = (t2 :: rest, None) /\
    rows t2 = insert_last (ensure (rows t) [tname t] comps) (tname t :: comps)
                          (rows_from (tname t :: comps) (retag x)).
Proof.
  intros Hpc Hwf Hp Hx HPX Hne Hnotin Habs. set (Q := tname t :: comps) in *.
  assert (Hdp : dpiece c = 0) by (unfold dpiece; rewrite (pc_two _ Hpc); reflexivity).
  destruct (add_walk_spec comps [t] [0] [] [tname t] (wf_f_single _ Hwf) ltac:(discriminate) eq_refl Hne)
    as [f' [q [Ha [Hwf' [Hlen [Hrows [Hq [Hpre [Hfr1 Hfr2]]]]]]]]].
  destruct (forest1 f' Hlen) as [t1 ->].
  destruct q as [|q0 q]; [discriminate|]. cbn [is_prefix] in Hpre. rewrite andb_true_r in Hpre.
  apply Nat.eqb_eq in Hpre. subst q0.
  assert (Hwf1 : wf_t t1) by (destruct Hwf' as [_ Hf]; inversion Hf; assumption).
  assert (Hr1 : rows t1 = ensure (rows t) [tname t] comps).
  { unfold frows in Hrows. cbn [flat_map] in Hrows. rewrite !app_nil_r in Hrows. exact Hrows. }
  assert (HQ1 : tpath t1 q = Some Q) by exact Hq.
  assert (HPX1 : tpath t1 p = Some PX) by exact (Hfr2 (0 :: p) PX HPX).
  assert (Hpq : is_prefix p q = false).
  { destruct (is_prefix p q) eqn:E; [|reflexivity].
    rewrite (fpath_prefix_mono _ _ _ _ _ _ E HPX1 HQ1) in Hnotin. discriminate. }
  assert (Hx1 : tget t1 p = Some x).
  { unfold tget. rewrite <- (fget_cons0 p t1 []) by exact Hp. apply Hfr1.
    - rewrite is_prefix_cons. cbn. exact Hpq.
    - rewrite fget_cons0 by exact Hp. exact Hx. }
  destruct (fkids_of_fpath _ _ _ _ HQ1) as [ks Hks].
  assert (Hfresh : forall k, In k ks -> tname k <> tname x).
  { apply existsb_name_iff. rewrite <- (t_has_child t1 q Q ks (tname x) Hwf1 HQ1 Hks).
    rewrite Hr1, has_ensure_long; [exact Habs|]. unfold Q. rewrite app_length. cbn [length]. lia. }
  exists (t_append q (retag x) t1), [t_remove p (retag t1)]. split.
  - unfold cs_core. rewrite Hdp, Ha. rewrite (pc_mc _ Hpc).
    apply (attach_plain_copy c t1 p q x ks); assumption.
  - rewrite (rows_t_append t1 q (retag x) Q Hwf1 HQ1). rewrite Hr1. reflexivity.
Qed.

Theorem edit_cs_copy_new fl t p x comps PX :
  f_mc fl = false -> f_ml fl = false -> f_dc fl = false ->
  wf_t t -> p <> [] -> tget t p = Some x -> tpath t p = Some PX ->
  pfx PX (tname t :: comps) = false ->
  has (rows t) ((tname t :: comps) ++ [tname x]) = false ->
  let T' := insert_last (ensure (rows t) [tname t] comps) (tname t :: comps)
                        (rows_from (tname t :: comps) (retag x)) in
  edit_cs true true fl (rows t) (rows t) PX (Some ((tname t :: comps) ++ [tname x])) = PNext T' T'.
Proof.
  intros Hmc Hml Hdc Hwf Hp Hx HPX Hnotin Habs T'. set (Q := tname t :: comps) in *.
  destruct (t_sub_rows t p x PX Hwf Hp Hx HPX) as [P0 [HP0 Hsub]].
  assert (Hk : length PX = S (length P0)) by (rewrite HP0, app_length; cbn; lia).
  assert (Hne : PX <> Q ++ [tname x]).
  { intros E. rewrite <- E in Habs. rewrite (t_has_row t p PX Hp HPX) in Habs. discriminate. }
  unfold edit_cs. cbn [negb andb].
  rewrite removelast_last, !last_last. rewrite HP0 at 1. rewrite last_last, str_eqb_refl. cbn [negb].
  replace (path_eqb (Q ++ [tname x]) PX) with false.
  2: { symmetry. destruct (path_eqb (Q ++ [tname x]) PX) eqn:E; [|reflexivity]. apply path_eqb_eq in E. congruence. }
  rewrite (pfx_snoc_false PX Q (tname x) Hnotin Hne). cbn [andb]. rewrite Habs.
  replace (Nat.ltb (length (Q ++ [tname x])) 2) with false.
  2: { symmetry. apply Nat.ltb_ge. rewrite app_length. unfold Q. cbn [length]. lia. }
  rewrite Hmc, Hml, Hdc.
  assert (He : ensure (rows t) [] Q = ensure (rows t) [tname t] comps).
  { unfold Q. cbn [ensure app]. rewrite has_root. reflexivity. }
  rewrite He. cbn [attach_items]. unfold reroot. cbn [fst snd]. fold (sub_rows (rows t) PX). rewrite Hsub.
  rewrite Hk. cbn [Nat.sub]. rewrite Nat.sub_0_r.
  rewrite (reroot_rows_from x P0 Q true). rewrite rows_from_eq at 1.
  cbn [rpath fst]. rewrite tname_retag.
  rewrite has_ensure_long by (unfold Q; rewrite app_length; cbn [length]; lia). rewrite Habs.
  rewrite <- (tname_retag x), <- rows_from_eq. reflexivity.
Qed.

(* ============================================================================================== *)
(* Part 8.  Untouched nodes: the rows that are not addressed form a subsequence of the result       *)
(* (same path, same tag, same attributes, same relative order).                                    *)

Inductive subseq {A} : list A -> list A -> Prop :=
| ss_nil l : subseq [] l
| ss_skip x a b : subseq a b -> subseq a (x :: b)
| ss_keep x a b : subseq a b -> subseq (x :: a) (x :: b).

Lemma subseq_refl {A} (l : list A) : subseq l l.
Proof. induction l; [apply ss_nil|apply ss_keep; assumption]. Qed.

Lemma subseq_app_l {A} (a b c : list A) : subseq a b -> subseq a (c ++ b).
Proof. intros H. induction c; cbn; [exact H|apply ss_skip; assumption]. Qed.

Lemma subseq_app {A} (a a' b b' : list A) : subseq a a' -> subseq b b' -> subseq (a ++ b) (a' ++ b').
Proof.
  intros H1 H2. induction H1; cbn.
  - apply subseq_app_l. exact H2.
  - apply ss_skip. exact IHsubseq.
  - apply ss_keep. exact IHsubseq.
Qed.

Lemma subseq_trans {A} (a b c : list A) : subseq a b -> subseq b c -> subseq a c.
Proof.
  intros H1 H2. revert a H1. induction H2; intros a0 H1.
  - inversion H1; subst. apply ss_nil.
  - apply ss_skip. apply IHsubseq. exact H1.
  - inversion H1; subst.
    + apply ss_nil.
    + apply ss_skip. apply IHsubseq. assumption.
    + apply ss_keep. apply IHsubseq. assumption.
Qed.

Lemma subseq_filter {A} (g : A -> bool) l : subseq (filter g l) l.
Proof. induction l as [|x l IH]; cbn; [apply ss_nil|]. destruct (g x); [apply ss_keep|apply ss_skip]; exact IH. Qed.

Lemma subseq_filter_mono {A} (g : A -> bool) a b : subseq a b -> subseq (filter g a) (filter g b).
Proof.
  intros H. induction H; cbn.
  - apply ss_nil.
  - destruct (g x); [apply ss_skip|]; exact IHsubseq.
  - destruct (g x); [apply ss_keep|]; exact IHsubseq.
Qed.

Lemma subseq_insert_last tb P rs : subseq tb (insert_last tb P rs).
Proof.
  induction tb as [|r tb IH]; cbn [insert_last]; [apply ss_nil|].
  destruct (under P r && negb (existsb (under P) tb)).
  - apply ss_keep. apply subseq_app_l. apply subseq_refl.
  - apply ss_keep. exact IH.
Qed.

Lemma subseq_ensure todo : forall tb d, subseq tb (ensure tb d todo).
Proof.
  induction todo as [|c todo IH]; intros tb d; cbn [ensure]; [apply subseq_refl|].
  destruct (has tb (d ++ [c])); [apply IH|].
  eapply subseq_trans; [apply subseq_insert_last|apply IH].
Qed.

Lemma subseq_In {A} (a b : list A) x : subseq a b -> In x a -> In x b.
Proof.
  intros H. induction H; intros Hx.
  - destruct Hx.
  - right. apply IHsubseq. exact Hx.
  - destruct Hx as [<-|Hx]; [left; reflexivity|right; apply IHsubseq; exact Hx].
Qed.

(* "C08_untouched_identity", shift: every row not at or below the source path is still there, unchanged,
   in the same relative order *)
Theorem untouched_shift tb PX d todo Q rs :
  subseq (minus tb PX) (insert_last (minus (ensure tb d todo) PX) Q rs).
Proof.
  eapply subseq_trans; [|apply subseq_insert_last]. apply subseq_filter_mono. apply subseq_ensure.
Qed.

(* copy: every row of the tree is still there *)
Theorem untouched_copy tb d todo Q rs : subseq tb (insert_last (ensure tb d todo) Q rs).
Proof. eapply subseq_trans; [apply subseq_ensure|apply subseq_insert_last]. Qed.

Theorem untouched_delete tb PX : subseq (minus tb PX) tb.
Proof. apply subseq_filter. Qed.

(* ============================================================================================== *)
(* Part 9.  Tree-to-tree copies never touch the source tree (piece 0), whatever the flags, the      *)
(* paths and the outcome (including calls that raise midway).                                     *)

Definition nz (z : ref) : bool := match z with S _ :: _ => true | _ => false end.
Definition nzo (y : option ref) : bool := match y with None => true | Some q => nz q end.
Definition nzf (t : ref -> ref) : Prop := forall z, nz z = true -> nz (t z) = true.

Lemma nz_app z r : nz z = true -> nz (z ++ r) = true.
Proof. destruct z as [|[|i] z]; cbn; intros H; try discriminate. reflexivity. Qed.

Lemma nz_adj x z : nz x = true -> nz z = true -> nz (adj' x z) = true.
Proof.
  destruct x as [|[|i] x]; cbn; intros Hx; try discriminate.
  destruct z as [|[|j] z]; cbn; intros Hz; try discriminate.
  unfold adj'. cbn [adj]. destruct x as [|k x].
  - destruct (Nat.eqb (S j) (S i)); [reflexivity|].
    destruct (Nat.ltb (S i) (S j)) eqn:E; [|reflexivity].
    apply Nat.ltb_lt in E. destruct j; [lia|reflexivity].
  - destruct (Nat.eqb (S j) (S i)); [|reflexivity].
    destruct (adj (k :: x) z); reflexivity.
Qed.

Lemma nz_track x nx : nz x = true -> nz nx = true -> nzf (track x nx).
Proof.
  intros Hx Hnx z Hz. unfold track. destruct (is_prefix x z); [apply nz_app; exact Hnx|apply nz_adj; assumption].
Qed.

Lemma nzf_id : nzf (fun z => z).
Proof. intros z H; exact H. Qed.

Lemma nzf_comp t1 t2 : nzf t1 -> nzf t2 -> nzf (fun z => t2 (t1 z)).
Proof. intros H1 H2 z Hz. apply H2, H1, Hz. Qed.

Lemma nz_parent x q : nz x = true -> parent_ref x = Some q -> nz q = true.
Proof.
  destruct x as [|[|i] [|j x]]; cbn; intros Hx Hq; try discriminate.
  inversion Hq; subst. reflexivity.
Qed.

Lemma fremove_keeps0 x (f : forest) : nz x = true -> nth_error (fremove x f) 0 = nth_error f 0.
Proof.
  destruct x as [|[|i] x]; cbn [nz]; intros Hx; try discriminate. cbn [fremove]. destruct x as [|k x].
  - destruct f; reflexivity.
  - destruct f; reflexivity.
Qed.

Lemma fappend_keeps0 q x (f : forest) : nz q = true -> nth_error (fappend q x f) 0 = nth_error f 0.
Proof.
  destruct q as [|[|i] q]; cbn [nz]; intros Hq; try discriminate. cbn [fappend]. destruct f; reflexivity.
Qed.

Lemma nth0_app (f : forest) l s : nth_error f 0 = Some s -> nth_error (f ++ l) 0 = Some s.
Proof. destruct f; cbn; [discriminate|auto]. Qed.

Lemma nth0_len (f : forest) s : nth_error f 0 = Some s -> exists n, length f = S n.
Proof. destruct f; cbn; [discriminate|]. intros _. eexists. reflexivity. Qed.

Lemma nz_len (g : forest) s : nth_error g 0 = Some s -> nz [length g] = true.
Proof. destruct g; cbn; [discriminate|reflexivity]. Qed.

Lemma move_keeps0 nr (f : forest) x y s f' t :
  nz x = true -> nzo y = true -> nth_error f 0 = Some s -> move nr f x y = MvOk f' t ->
  nth_error f' 0 = Some s /\ nzf t.
Proof.
  intros Hx Hy Hs. unfold move. destruct (fget x f) as [sub|]; [|discriminate].
  destruct y as [q|].
  - cbn [nzo] in Hy. destruct (is_prefix x q); [discriminate|].
    destruct (fkids q f) as [ks|]; [|discriminate]. destruct (dup_child _ _ _ _); [discriminate|].
    destruct (protected nr x); [discriminate|].
    destruct (fkids (adj' x q) (fremove x f)) as [ks1|]; [|discriminate].
    intros H; inversion H; subst; clear H. split.
    + rewrite fappend_keeps0 by (apply nz_adj; assumption). rewrite fremove_keeps0 by exact Hx. exact Hs.
    + apply nz_track; [exact Hx|]. apply nz_app. apply nz_adj; assumption.
  - destruct x as [|i [|j x]].
    + discriminate.
    + intros H; inversion H; subst. split; [exact Hs|apply nzf_id].
    + intros H; inversion H; subst; clear H.
      assert (H1 : nth_error (fremove (i :: j :: x) f) 0 = Some s) by (rewrite fremove_keeps0 by exact Hx; exact Hs).
      split; [apply nth0_app; exact H1|].
      apply nz_track; [exact Hx|]. apply (nz_len _ s). exact H1.
Qed.

Lemma del_children_go_keeps0 nr n : forall (f : forest) x trk s f' t,
  nz x = true -> nzf trk -> nth_error f 0 = Some s -> del_children_go nr n f x trk = MvOk f' t ->
  nth_error f' 0 = Some s /\ nzf t.
Proof.
  induction n as [|n IH]; intros f x trk s f' t Hx Ht Hs; cbn [del_children_go].
  - intros H; inversion H; subst. split; assumption.
  - destruct (move nr f (x ++ [0]) None) as [f1 t1|] eqn:Em; [|discriminate].
    destruct (move_keeps0 _ _ _ None _ _ _ (nz_app _ _ Hx) eq_refl Hs Em) as [Hs1 Ht1].
    apply IH; [exact Hx|apply (nzf_comp trk t1); assumption|exact Hs1].
Qed.

Lemma del_children_keeps0 nr (f : forest) x s f' t :
  nz x = true -> nth_error f 0 = Some s -> del_children nr f x = MvOk f' t -> nth_error f' 0 = Some s /\ nzf t.
Proof.
  intros Hx Hs. unfold del_children. destruct (fkids x f); [|discriminate].
  apply del_children_go_keeps0; [exact Hx|apply nzf_id|exact Hs].
Qed.

Lemma opt_del_children_keeps0 nr (b : bool) (f : forest) x s f' t :
  nz x = true -> nth_error f 0 = Some s ->
  (if b then del_children nr f x else MvOk f (fun z => z)) = MvOk f' t -> nth_error f' 0 = Some s /\ nzf t.
Proof.
  intros Hx Hs. destruct b; [apply del_children_keeps0; assumption|].
  intros H; inversion H; subst. split; [exact Hs|apply nzf_id].
Qed.

Lemma nzo_map t y : nzf t -> nzo y = true -> nzo (option_map t y) = true.
Proof. intros Ht. destruct y; cbn; [apply Ht|reflexivity]. Qed.

Lemma mc_loop_keeps0 nr dc cs : forall (f : forest) trk tn fr s f' r,
  (forall ch, In ch cs -> nz ch = true) -> nzf trk -> nzo tn = true -> nz fr = true ->
  nth_error f 0 = Some s -> mc_loop nr dc f cs trk tn fr = (f', r) ->
  nth_error f' 0 = Some s /\ match r with Ret fr' => nz fr' = true | Raise _ => True end.
Proof.
  induction cs as [|ch cs IH]; intros f trk tn fr s f' r Hcs Ht Htn Hfr Hs; cbn [mc_loop].
  - intros H; inversion H; subst. split; assumption.
  - assert (Hch : nz (trk ch) = true) by (apply Ht, Hcs; left; reflexivity).
    destruct (if dc then del_children nr f (trk ch) else MvOk f (fun z => z)) as [f1 t1|] eqn:E1.
    2: { intros H; inversion H; subst. split; [exact Hs|exact I]. }
    destruct (opt_del_children_keeps0 _ _ _ _ _ _ _ Hch Hs E1) as [Hs1 Ht1].
    destruct (move nr f1 (t1 (trk ch)) (option_map t1 tn)) as [f2 t2|] eqn:E2.
    2: { intros H; inversion H; subst. split; [exact Hs1|exact I]. }
    destruct (move_keeps0 _ _ _ _ _ _ _ (Ht1 _ Hch) (nzo_map _ _ Ht1 Htn) Hs1 E2) as [Hs2 Ht2].
    apply IH.
    + intros c Hc. apply Hcs. right; exact Hc.
    + apply (nzf_comp trk (fun z => t2 (t1 z))); [exact Ht|]. apply (nzf_comp t1 t2); assumption.
    + apply nzo_map; [apply (nzf_comp t1 t2); assumption|exact Htn].
    + apply Ht2, Ht1, Hfr.
    + exact Hs2.
Qed.

Lemma ml_loop_keeps0 nr ls : forall (f : forest) trk tn s f' o,
  (forall l, In l ls -> nz l = true) -> nzf trk -> nzo tn = true ->
  nth_error f 0 = Some s -> ml_loop nr f ls trk tn = (f', o) -> nth_error f' 0 = Some s.
Proof.
  induction ls as [|l ls IH]; intros f trk tn s f' o Hls Ht Htn Hs; cbn [ml_loop].
  - intros H; inversion H; subst. exact Hs.
  - destruct (move nr f (trk l) tn) as [f1 t1|] eqn:E1.
    2: { intros H; inversion H; subst. exact Hs. }
    destruct (move_keeps0 _ _ _ _ _ _ _ (Ht _ (Hls _ (or_introl eq_refl))) Htn Hs E1) as [Hs1 Ht1].
    apply IH.
    + intros c Hc. apply Hls. right; exact Hc.
    + apply (nzf_comp trk t1); assumption.
    + apply nzo_map; assumption.
    + exact Hs1.
Qed.

Lemma rp_loop_keeps0 nr sibs : forall (f : forest) first trk fr par s f' o,
  (forall l, In l sibs -> nz l = true) -> nzf trk -> nz fr = true -> nz par = true ->
  nth_error f 0 = Some s -> rp_loop nr f first sibs trk fr par = (f', o) -> nth_error f' 0 = Some s.
Proof.
  induction sibs as [|sb sibs IH]; intros f first trk fr par s f' o Hsb Ht Hfr Hpar Hs; cbn [rp_loop].
  - intros H; inversion H; subst. exact Hs.
  - assert (Hs0 : nz (trk sb) = true) by (apply Ht, Hsb; left; reflexivity).
    destruct (move nr f (trk sb) None) as [f1 t1|] eqn:E1.
    2: { intros H; inversion H; subst. exact Hs. }
    destruct (move_keeps0 _ _ _ None _ _ _ Hs0 eq_refl Hs E1) as [Hs1 Ht1].
    assert (Hx : nz (if first then t1 fr else t1 (trk sb)) = true) by (destruct first; apply Ht1; assumption).
    destruct (move nr f1 (if first then t1 fr else t1 (trk sb)) (Some (t1 par))) as [f2 t2|] eqn:E2.
    2: { intros H; inversion H; subst. exact Hs1. }
    destruct (move_keeps0 _ _ _ (Some (t1 par)) _ _ _ Hx (Ht1 _ Hpar) Hs1 E2) as [Hs2 Ht2].
    apply IH.
    + intros c Hc. apply Hsb. right; exact Hc.
    + apply (nzf_comp trk (fun z => t2 (t1 z))); [exact Ht|]. apply (nzf_comp t1 t2); assumption.
    + apply Ht2, Ht1, Hfr.
    + apply Ht2, Ht1, Hpar.
    + exact Hs2.
Qed.

Lemma refs_from_ext t : forall here names e, In e (refs_from here names t) -> exists r, fst (fst e) = here ++ r.
Proof.
  induction t as [g n a ks IH] using tree_ind'. intros here names e He. cbn [refs_from] in He.
  destruct He as [<-|He]; [exists []; cbn; rewrite app_nil_r; reflexivity|].
  revert He. generalize 0 as i. induction ks as [|k ks IHk]; intros i He; [destruct He|].
  inversion IH as [|? ? Hk Hks]; subst. apply in_app_or in He as [He|He].
  - destruct (Hk _ _ _ He) as [r Hr]. exists (i :: r). rewrite Hr, <- app_assoc. reflexivity.
  - apply (IHk Hks (S i)). exact He.
Qed.

Lemma leaf_refs_nz (f : forest) x : nz x = true -> forall l, In l (leaf_refs f x) -> nz l = true.
Proof.
  intros Hx l Hl. unfold leaf_refs in Hl. destruct (fget x f) as [t|]; [|destruct Hl].
  apply in_map_iff in Hl as [e [<- He]]. apply filter_In in He as [He _].
  destruct (refs_from_ext _ _ _ _ He) as [r ->]. apply nz_app. exact Hx.
Qed.

Lemma child_refs_nz x n : nz x = true -> forall ch, In ch (child_refs x n) -> nz ch = true.
Proof. intros Hx ch Hc. unfold child_refs in Hc. apply in_map_iff in Hc as [i [<- _]]. apply nz_app. exact Hx. Qed.

Lemma attach_keeps0 c mc (f : forest) fr tn s f' o :
  c_copy c = true -> nzo tn = true -> nth_error f 0 = Some s ->
  attach c mc f fr tn = (f', o) -> nth_error f' 0 = Some s.
Proof.
  intros Hc Htn Hs. unfold attach. rewrite Hc. unfold copy_node.
  destruct fr as [|k p]; [intros H; inversion H; subst; exact Hs|].
  destruct (nth_error f k) as [tk|]; [|intros H; inversion H; subst; exact Hs].
  assert (Hs0 : nth_error (f ++ [retag tk]) 0 = Some s) by (apply nth0_app; exact Hs).
  assert (Hfr0 : nz (length f :: p) = true) by (pose proof (nz_len _ _ Hs) as Hz; destruct (length f); [discriminate|reflexivity]).
  set (f0 := f ++ [retag tk]) in *. set (fr0 := length f :: p) in *.
  destruct ((mc || f_ml (c_fl c)) && match tn with None => true | Some _ => false end);
    [intros H; inversion H; subst; exact Hs0|].
  destruct mc.
  - destruct (fkids fr0 f0) as [ks|]; [|intros H; inversion H; subst; exact Hs0].
    destruct (mc_loop (nroots c) (f_dc (c_fl c)) f0 (child_refs fr0 (length ks)) (fun z => z) tn fr0)
      as [f1 r] eqn:El.
    destruct (mc_loop_keeps0 _ _ _ _ _ _ _ _ _ _ (child_refs_nz _ _ Hfr0) nzf_id Htn Hfr0 Hs0 El) as [Hs1 Hr].
    destruct r as [fr1|e]; [|intros H; inversion H; subst; exact Hs1].
    destruct (move (nroots c) f1 fr1 None) as [f2 t2|] eqn:Em; [|intros H; inversion H; subst; exact Hs1].
    destruct (move_keeps0 _ _ _ None _ _ _ Hr eq_refl Hs1 Em) as [Hs2 _].
    intros H; inversion H; subst; exact Hs2.
  - destruct (f_ml (c_fl c)).
    + cbn [negb andb]. intros H. eapply ml_loop_keeps0; [apply leaf_refs_nz; exact Hfr0|apply nzf_id|exact Htn|exact Hs0|exact H].
    + destruct (if f_dc (c_fl c) then del_children (nroots c) f0 fr0 else MvOk f0 (fun z => z)) as [f1 t1|] eqn:E1;
        [|intros H; inversion H; subst; exact Hs0].
      destruct (opt_del_children_keeps0 _ _ _ _ _ _ _ Hfr0 Hs0 E1) as [Hs1 Ht1].
      destruct (move (nroots c) f1 (t1 fr0) (option_map t1 tn)) as [f2 t2|] eqn:Em;
        [|intros H; inversion H; subst; exact Hs1].
      destruct (move_keeps0 _ _ _ _ _ _ _ (Ht1 _ Hfr0) (nzo_map _ _ Ht1 Htn) Hs1 Em) as [Hs2 _].
      intros H; inversion H; subst; exact Hs2.
Qed.

Lemma detach_keeps0 nr (f : forest) dr fr s f' r :
  nz dr = true -> nth_error f 0 = Some s -> detach_to_parent nr f dr fr = (f', r) ->
  nth_error f' 0 = Some s /\ match r with Ret (_, tn) => nzo tn = true | Raise _ => True end.
Proof.
  intros Hd Hs. unfold detach_to_parent. destruct (move nr f dr None) as [f1 t1|] eqn:Em.
  - destruct (move_keeps0 _ _ _ None _ _ _ Hd eq_refl Hs Em) as [Hs1 Ht1].
    intros H; inversion H; subst. split; [exact Hs1|].
    destruct (parent_ref dr) as [q|] eqn:Eq; cbn; [|reflexivity]. apply Ht1. eapply nz_parent; eassumption.
  - intros H; inversion H; subst. split; [exact Hs|exact I].
Qed.

Lemma add_walk_keeps0 comps : forall (f : forest) here s f' r,
  nz here = true -> nth_error f 0 = Some s -> add_walk f here comps = (f', r) ->
  nth_error f' 0 = Some s /\ match r with Ret q => nz q = true | Raise _ => True end.
Proof.
  induction comps as [|c comps IH]; intros f here s f' r Hh Hs; cbn [add_walk].
  - intros H; inversion H; subst. split; assumption.
  - destruct (fkids here f) as [ks|]; [|intros H; inversion H; subst; split; [exact Hs|exact I]].
    destruct (name_idx c 0 ks) as [|i [|j l]].
    + destruct c as [|ch c]; [intros H; inversion H; subst; split; [exact Hs|exact I]|].
      apply IH; [apply nz_app; exact Hh|]. rewrite fappend_keeps0 by exact Hh. exact Hs.
    + apply IH; [apply nz_app; exact Hh|exact Hs].
    + intros H; inversion H; subst; split; [exact Hs|exact I].
Qed.

Lemma walk_names_nz comps : forall ks here r,
  nz here = true -> walk_names ks here comps = Ret (Some r) -> nz r = true.
Proof.
  induction comps as [|c comps IH]; intros ks here r Hh; cbn [walk_names].
  - intros H; inversion H; subst. exact Hh.
  - destruct (name_idx c 0 ks) as [|i [|j l]]; try discriminate.
    destruct (nth_error ks i) as [k|]; [|discriminate]. apply IH. apply nz_app. exact Hh.
Qed.

Lemma find_full_path_nz (f : forest) k tsep path r :
  find_full_path f (S k) tsep path = Ret (Some r) -> nz r = true.
Proof.
  unfold find_full_path. destruct (nth_error f (S k)) as [t|]; [|discriminate].
  destruct (negb _); [discriminate|]. apply walk_names_nz. reflexivity.
Qed.

Record tt_cfg (c : cfg) : Prop := { tc_copy : c_copy c = true; tc_two : c_two c = true }.

Lemma cs_core_keeps0 c (f : forest) fr tg s f' o :
  tt_cfg c -> match tg with TNode dr => nz dr = true | _ => True end ->
  nth_error f 0 = Some s -> cs_core c f fr tg = (f', o) -> nth_error f' 0 = Some s.
Proof.
  intros [Hc Htwo] Htg Hs. unfold cs_core. destruct tg as [|dr|comps].
  - apply attach_keeps0; [exact Hc|reflexivity|exact Hs].
  - assert (Hpar : nzo (parent_ref dr) = true).
    { destruct (parent_ref dr) eqn:E; cbn; [eapply nz_parent; eassumption|reflexivity]. }
    repeat match goal with
    | |- (if ?b then _ else _) = _ -> _ => destruct b
    | |- context [detach_to_parent ?a ?b ?c ?d] =>
        let E := fresh "E" in let H1 := fresh "Hk" in let H2 := fresh "Hr" in
        destruct (detach_to_parent a b c d) as [f1 [[fr1 tn]|e]] eqn:E;
        destruct (detach_keeps0 _ _ _ _ _ _ _ Htg Hs E) as [H1 H2]
    | |- context [del_children ?a ?b ?c] =>
        let E := fresh "E" in
        destruct (del_children a b c) as [f1 t1|] eqn:E;
        [destruct (del_children_keeps0 _ _ _ _ _ _ Htg Hs E)|]
    end;
    try (intros H; inversion H; subst; assumption);
    try (apply attach_keeps0; [exact Hc|assumption|assumption]);
    try (apply attach_keeps0; [exact Hc|cbn; try apply H0; assumption|assumption]).
  - destruct (add_walk f [dpiece c] comps) as [f1 r] eqn:Ea.
    assert (Hh : nz [dpiece c] = true) by (unfold dpiece; rewrite Htwo; reflexivity).
    destruct (add_walk_keeps0 _ _ _ _ _ _ Hh Hs Ea) as [Hs1 Hr].
    destruct r as [q|e]; [|intros H; inversion H; subst; exact Hs1].
    apply attach_keeps0; [exact Hc|exact Hr|exact Hs1].
Qed.

Lemma cs_pair_keeps0 c (f : forest) fp tp s f' o :
  tt_cfg c -> nth_error f 0 = Some s -> cs_pair c f fp tp = (f', o) -> nth_error f' 0 = Some s.
Proof.
  intros Htt Hs. unfold cs_pair.
  destruct (resolve_from c f fp) as [[fr|]|e]; [| |intros H; inversion H; subst; exact Hs].
  - destruct (resolve_target c f tp) as [tg|e] eqn:Et; [|intros H; inversion H; subst; exact Hs].
    apply cs_core_keeps0; [exact Htt| |exact Hs].
    unfold resolve_target in Et. destruct (truthy tp) as [tpath|]; [|inversion Et; exact I].
    unfold dpiece in Et. rewrite (tc_two _ Htt) in Et.
    destruct (find_full_path f 1 (c_dsep c) tpath) as [[dr|]|e] eqn:Ef; [| |discriminate].
    + inversion Et; subst. eapply find_full_path_nz; exact Ef.
    + destruct (add_path_comps _ _ _ _); inversion Et; exact I.
  - destruct (f_skip (c_fl c)); intros H; inversion H; subst; exact Hs.
Qed.

Lemma rp_core_keeps0 c (f : forest) fr dr s f' o :
  tt_cfg c -> nz dr = true -> nth_error f 0 = Some s -> rp_core c f fr dr = (f', o) -> nth_error f' 0 = Some s.
Proof.
  intros [Hc Htwo] Hd Hs. unfold rp_core.
  destruct (ref_eqb fr dr); [intros H; inversion H; subst; exact Hs|].
  rewrite Hc. unfold copy_node.
  destruct fr as [|k p]; [intros H; inversion H; subst; exact Hs|].
  destruct (nth_error f k) as [tk|]; [|intros H; inversion H; subst; exact Hs].
  assert (Hs0 : nth_error (f ++ [retag tk]) 0 = Some s) by (apply nth0_app; exact Hs).
  assert (Hfr0 : nz (length f :: p) = true)
    by (pose proof (nz_len _ _ Hs) as Hz; destruct (length f); [discriminate|reflexivity]).
  set (f0 := f ++ [retag tk]) in *. set (fr0 := length f :: p) in *.
  destruct (if f_dc (c_fl c) then del_children (nroots c) f0 fr0 else MvOk f0 (fun z => z)) as [f1 t1|] eqn:E1;
    [|intros H; inversion H; subst; exact Hs0].
  destruct (opt_del_children_keeps0 _ _ _ _ _ _ _ Hfr0 Hs0 E1) as [Hs1 Ht1].
  destruct (parent_ref (t1 dr)) as [par|] eqn:Ep; [|intros H; inversion H; subst; exact Hs1].
  assert (Hpar : nz par = true) by (eapply nz_parent; [apply Ht1; exact Hd|exact Ep]).
  destruct (fkids par f1) as [ks|]; [|intros H; inversion H; subst; exact Hs1].
  apply rp_loop_keeps0; [|apply nzf_id|apply Ht1; exact Hfr0|exact Hpar|exact Hs1].
  intros l Hl. apply in_map_iff in Hl as [i [<- _]]. apply nz_app. exact Hpar.
Qed.

Lemma rp_pair_keeps0 c (f : forest) fp tp s f' o :
  tt_cfg c -> nth_error f 0 = Some s -> rp_pair c f fp tp = (f', o) -> nth_error f' 0 = Some s.
Proof.
  intros Htt Hs. unfold rp_pair.
  destruct (resolve_from c f fp) as [[fr|]|e]; [| |intros H; inversion H; subst; exact Hs].
  - destruct tp as [tpath|]; [|intros H; inversion H; subst; exact Hs].
    unfold dpiece. rewrite (tc_two _ Htt).
    destruct (find_full_path f 1 (c_dsep c) tpath) as [[dr|]|e] eqn:Ef;
      try (intros H; inversion H; subst; exact Hs).
    apply rp_core_keeps0; [exact Htt|eapply find_full_path_nz; exact Ef|exact Hs].
  - destruct (f_skip (c_fl c)); intros H; inversion H; subst; exact Hs.
Qed.

Lemma run_pairs_keeps0 (step : forest -> str -> option str -> outc) s :
  (forall f fp tp f' o, nth_error f 0 = Some s -> step f fp tp = (f', o) -> nth_error f' 0 = Some s) ->
  forall fps tps (f : forest) f' o,
  nth_error f 0 = Some s -> run_pairs step f fps tps = (f', o) -> nth_error f' 0 = Some s.
Proof.
  intros Hstep. induction fps as [|fp fps IH]; intros tps f f' o Hs; cbn [run_pairs].
  - intros H; inversion H; subst. exact Hs.
  - destruct tps as [|tp tps]; [intros H; inversion H; subst; exact Hs|].
    destruct (step f fp tp) as [f1 [e|]] eqn:Es.
    + intros H; inversion H; subst. eapply Hstep; eassumption.
    + apply IH. eapply Hstep; eassumption.
Qed.

(* DESIGN.md "C08_tree_to_tree_source_untouched" *)
Theorem tt_source_untouched i :
  is_tt (mi_op i) = true -> nth_error (fst (run i)) 0 = Some (mi_src i).
Proof.
  intros Htt. assert (Hc : tt_cfg (cfg_of i)).
  { unfold cfg_of. split; cbn; [|exact Htt]. destruct (mi_op i); try discriminate; reflexivity. }
  assert (Hs : nth_error (init_forest i) 0 = Some (mi_src i)) by (unfold init_forest; rewrite Htt; reflexivity).
  unfold run, run_from. destruct (is_replace (mi_op i)).
  - unfold replace_logic. destruct (empty_sep_refusal true (cfg_of i) (mi_from i) (mi_to i)); [exact Hs|].
    destruct (rp_validate _ _ _ _); [exact Hs|].
    destruct (run_pairs _ _ _ _) as [f' o] eqn:Er. cbn [fst].
    eapply (run_pairs_keeps0 (rp_pair (cfg_of i)) (mi_src i)); [|exact Hs|exact Er].
    intros f fp tp f1 o1 H1 H2. eapply rp_pair_keeps0; eassumption.
  - unfold copy_or_shift_logic. destruct (empty_sep_refusal false (cfg_of i) (mi_from i) (mi_to i)); [exact Hs|].
    destruct (cs_validate _ _ _ _); [exact Hs|].
    destruct (run_pairs _ _ _ _) as [f' o] eqn:Er. cbn [fst].
    eapply (run_pairs_keeps0 (cs_pair (cfg_of i)) (mi_src i)); [|exact Hs|exact Er].
    intros f fp tp f1 o1 H1 H2. eapply cs_pair_keeps0; eassumption.
Qed.

(* ============================================================================================== *)
(* Part 10.  overriding: the node at the destination path goes away, the shifted node takes a place  *)
(* under the same parent.                                                                          *)

Lemma adj_length x : forall q r, adj x q = Some r -> length r = length q.
Proof.
  induction x as [|i x IH]; intros q r H; [discriminate|].
  destruct q as [|j q]; [destruct x; inversion H; reflexivity|]. cbn [adj] in H. destruct x as [|k x].
  - destruct (Nat.eqb j i); [discriminate|]. inversion H; subst. reflexivity.
  - destruct (Nat.eqb j i); [|inversion H; subst; reflexivity].
    destruct (adj (k :: x) q) as [r'|] eqn:E; [|discriminate]. inversion H; subst. cbn. f_equal. eapply IH. exact E.
Qed.

Lemma adj'_nonempty x q : q <> [] -> adj' x q <> [].
Proof.
  intros Hq. unfold adj'. destruct (adj x q) as [r|] eqn:E; [|exact Hq].
  apply adj_length in E. destruct r; [destruct q; [congruence|discriminate]|discriminate].
Qed.

Lemma fpath_removelast d : forall pre (f : forest) PD,
  d <> [] -> fpath pre d f = Some PD -> fpath pre (removelast d) f = Some (removelast PD).
Proof.
  induction d as [|i d IH]; intros pre f PD Hd H; [congruence|].
  cbn [fpath] in H. destruct (nth_error f i) as [t|] eqn:Et; [|discriminate]. destruct d as [|j d].
  - cbn in H. inversion H; subst. cbn. rewrite removelast_last. reflexivity.
  - change (removelast (i :: j :: d)) with (i :: removelast (j :: d)). cbn [fpath]. rewrite Et.
    apply IH; [discriminate|exact H].
Qed.

Lemma is_prefix_removelast_false d : d <> [] -> is_prefix d (removelast d) = false.
Proof.
  intros Hd. destruct (is_prefix d (removelast d)) eqn:E; [|reflexivity].
  apply is_prefix_iff in E as [r Hr]. apply (f_equal (@length nat)) in Hr.
  rewrite app_length in Hr. destruct d as [|a d] using rev_ind; [congruence|].
  rewrite removelast_last, app_length in Hr. cbn in Hr. lia.
Qed.

Lemma adj_cons_same i x q : x <> [] -> adj (i :: x) (i :: q) = option_map (cons i) (adj x q).
Proof. intros Hx. destruct x as [|k x]; [congruence|]. cbn [adj]. rewrite Nat.eqb_refl. reflexivity. Qed.

Lemma adj'_parent d : d <> [] -> adj' d (removelast d) = removelast d.
Proof.
  induction d as [|i d IH]; intros Hd; [congruence|]. destruct d as [|j d].
  - reflexivity.
  - change (removelast (i :: j :: d)) with (i :: removelast (j :: d)). unfold adj'.
    rewrite adj_cons_same by discriminate.
    specialize (IH ltac:(discriminate)). unfold adj' in IH.
    destruct (adj (j :: d) (removelast (j :: d))) as [r|] eqn:E.
    + cbn [option_map]. f_equal. exact IH.
    + reflexivity.
Qed.

Lemma has_minus_self tb P : has (minus tb P) P = false.
Proof.
  unfold has, minus. apply existsb_false. intros r Hr. apply filter_In in Hr as [_ Hr].
  destruct (at_path P r) eqn:E; [|reflexivity]. apply at_path_under in E. rewrite E in Hr. discriminate.
Qed.

Lemma not_pfx_not_prefix t p q PP PQ :
  tpath t p = Some PP -> tpath t q = Some PQ -> pfx PP PQ = false -> is_prefix p q = false.
Proof.
  intros HP HQ Hn. destruct (is_prefix p q) eqn:E; [|reflexivity].
  unfold tpath in *. rewrite (fpath_prefix_mono _ _ _ _ _ _ E HP HQ) in Hn. discriminate.
Qed.

Lemma removelast_pfx P : pfx (removelast P) P = true.
Proof.
  destruct P as [|a P] using rev_ind; [reflexivity|]. rewrite removelast_last. apply pfx_app.
Qed.

Record plain_override (c : cfg) : Prop := {
  po_copy : c_copy c = false;
  po_over : f_over (c_fl c) = true;
  po_mc : f_mc (c_fl c) = false;
  po_ml : f_ml (c_fl c) = false;
  po_dc : f_dc (c_fl c) = false }.

(* DESIGN.md "C08_override": neither node inside the other, equal names *)
Theorem override_full c t p d x D PX PD :
  plain_override c -> wf_t t ->
  p <> [] -> d <> [] -> tget t p = Some x -> tget t d = Some D ->
  tpath t p = Some PX -> tpath t d = Some PD ->
  pfx PX PD = false -> pfx PD PX = false -> tname D = tname x ->
  exists t2, cs_core c [t] (0 :: p) (TNode (0 :: d)) = ([t2; D], None) /\
    rows t2 = insert_last (minus (minus (rows t) PD) PX) (removelast PD) (rows_from (removelast PD) x).
Proof.
  intros [Hc Hov Hmc Hml Hdc] Hwf Hp Hd Hx HD HPX HPD Hn1 Hn2 Hname.
  assert (Hpd : is_prefix p d = false) by (eapply not_pfx_not_prefix; eassumption).
  assert (Hdp : is_prefix d p = false) by (eapply not_pfx_not_prefix; eassumption).
  set (t' := t_remove d t). set (p1 := adj' d p). set (q1 := removelast d). set (PQ := removelast PD).
  assert (Hwf' : wf_t t') by (apply wf_t_remove; exact Hwf).
  assert (HPQ : tpath t q1 = Some PQ) by (apply fpath_removelast; assumption).
  assert (HPX' : tpath t' p1 = Some PX).
  { unfold tpath, t', t_remove. rewrite tname_set_kids, tkids_set_kids. unfold p1.
    unfold tget in HD. rewrite (fpath_adj _ _ _ _ _ HD Hdp). exact HPX. }
  assert (HPQ' : tpath t' q1 = Some PQ).
  { unfold tpath, t', t_remove. rewrite tname_set_kids, tkids_set_kids.
    unfold q1. rewrite <- (adj'_parent d Hd). unfold tget in HD.
    rewrite (fpath_adj _ _ _ _ _ HD (is_prefix_removelast_false d Hd)). exact HPQ. }
  assert (Hx' : tget t' p1 = Some x).
  { unfold tget, t', t_remove. rewrite tkids_set_kids. unfold p1. unfold tget in HD, Hx.
    rewrite (fget_adj _ _ _ _ HD Hdp Hpd). exact Hx. }
  assert (Hp1 : p1 <> []) by (apply adj'_nonempty; exact Hp).
  assert (Hpq1 : is_prefix p1 q1 = false).
  { eapply not_pfx_not_prefix; [exact HPX'|exact HPQ'|].
    destruct (pfx PX PQ) eqn:E; [|reflexivity].
    rewrite (pfx_trans _ _ _ E (removelast_pfx PD)) in Hn1. discriminate. }
  destruct (fkids_of_fpath _ _ _ _ HPQ') as [ks Hks].
  destruct (fget_rows _ _ _ _ _ (wf_t_kids _ Hwf) HD HPD) as [P0 [HP0 _]].
  assert (HPDe : PD = PQ ++ [tname x]).
  { unfold PQ. rewrite HP0, removelast_last, Hname. reflexivity. }
  assert (Hfresh : forall k, In k ks -> tname k <> tname x).
  { apply existsb_name_iff. rewrite <- (t_has_child t' q1 PQ ks (tname x) Hwf' HPQ' Hks).
    unfold t'. rewrite (rows_t_remove t d PD Hwf Hd HPD), <- HPDe. apply has_minus_self. }
  exists (t_move p1 q1 x t'). split.
  - unfold cs_core.
    replace (ref_eqb (0 :: p) (0 :: d)) with false.
    2: { symmetry. unfold ref_eqb. cbn [list_eqb Nat.eqb andb]. destruct (list_eqb Nat.eqb p d) eqn:E; [|reflexivity].
         assert (p = d).
         { clear -E. revert d E. induction p as [|a p IH]; intros [|b d] E; cbn in E; try discriminate; [reflexivity|].
           apply andb_true_iff in E as [E1 E2]. apply Nat.eqb_eq in E1. subst. f_equal. apply IH. exact E2. }
         subst. rewrite is_prefix_refl in Hpd. discriminate. }
    rewrite Hmc, Hml, Hov. cbn [negb]. unfold detach_to_parent.
    pose proof (detach_in_tree (nroots c) t [] d D Hd HD) as Hm.
    match goal with |- context [move ?a ?b ?c ?e] =>
      replace (move a b c e) with (MvOk ((t_remove d t :: []) ++ [D]) (track (0 :: d) [1])) by (symmetry; exact Hm) end.
    cbn [app].
    assert (Hfr1 : track (0 :: d) [1] (0 :: p) = 0 :: p1).
    { unfold track. rewrite is_prefix_cons. cbn [Nat.eqb andb]. rewrite Hdp. apply adj'_cons0; assumption. }
    assert (Htn : option_map (track (0 :: d) [1]) (parent_ref (0 :: d)) = Some (0 :: q1)).
    { destruct d as [|d0 d']; [congruence|]. cbn [parent_ref option_map].
      change (removelast (0 :: d0 :: d')) with (0 :: removelast (d0 :: d')).
      unfold track. rewrite is_prefix_cons. cbn [Nat.eqb andb].
      rewrite (is_prefix_removelast_false (d0 :: d')) by discriminate.
      rewrite adj'_cons0; [|discriminate|apply is_prefix_removelast_false; discriminate].
      rewrite adj'_parent by discriminate. reflexivity. }
    rewrite Hfr1, Htn.
    apply (attach_plain_shift c t' [D] p1 q1 x ks); try assumption.
    + split; assumption.
    + exists PQ. exact HPQ'.
  - rewrite (rows_t_move t' p1 q1 x PX PQ) by assumption.
    unfold t'. rewrite (rows_t_remove t d PD Hwf Hd HPD). reflexivity.
Qed.

Theorem edit_cs_override fl t p d x D PX PD :
  f_over fl = true -> f_mc fl = false -> f_ml fl = false -> f_dc fl = false ->
  wf_t t -> p <> [] -> d <> [] -> tget t p = Some x -> tget t d = Some D ->
  tpath t p = Some PX -> tpath t d = Some PD ->
  pfx PX PD = false -> pfx PD PX = false -> tname D = tname x ->
  let T' := insert_last (minus (minus (rows t) PD) PX) (removelast PD) (rows_from (removelast PD) x) in
  edit_cs false true fl (rows t) (rows t) PX (Some PD) = PNext T' T'.
Proof.
  intros Hov Hmc Hml Hdc Hwf Hp Hd Hx HD HPX HPD Hn1 Hn2 Hname T'. set (PQ := removelast PD) in *.
  destruct (t_sub_rows t p x PX Hwf Hp Hx HPX) as [P0 [HP0 Hsub]].
  destruct (fget_rows _ _ _ _ _ (wf_t_kids _ Hwf) HD HPD) as [P0d [HP0d _]].
  destruct (tpath_ext _ _ _ HPX) as [rest [HPe Hl]].
  destruct (tpath_ext _ _ _ HPD) as [restd [HPde Hld]].
  assert (Hk : length PX = S (length P0)) by (rewrite HP0, app_length; cbn; lia).
  assert (Hk2 : Nat.eqb (length PX) 1 = false).
  { apply Nat.eqb_neq. rewrite HPe. cbn [length]. destruct p; [congruence|cbn in Hl; lia]. }
  assert (Hkd : Nat.eqb (length PD) 1 = false).
  { apply Nat.eqb_neq. rewrite HPde. cbn [length]. destruct d; [congruence|cbn in Hld; lia]. }
  assert (HPDe : PD = PQ ++ [tname x]).
  { unfold PQ. rewrite HP0d, removelast_last, Hname. reflexivity. }
  unfold edit_cs. rewrite Hk2. cbn [negb andb].
  rewrite HP0 at 1. rewrite HP0d at 1. rewrite !last_last, Hname, str_eqb_refl. cbn [negb].
  replace (path_eqb PD PX) with false.
  2: { symmetry. destruct (path_eqb PD PX) eqn:E; [|reflexivity]. apply path_eqb_eq in E.
       rewrite E, pfx_refl in Hn1. discriminate. }
  rewrite Hn1. cbn [andb]. rewrite (t_has_row t d PD Hd HPD).
  rewrite Hmc, Hml, Hov, Hdc, Hkd. cbn [negb andb].
  cbn [attach_items]. unfold reroot. cbn [fst snd]. fold (sub_rows (rows t) PX). rewrite Hsub.
  rewrite Hk. cbn [Nat.sub]. rewrite Nat.sub_0_r. fold PQ.
  rewrite (reroot_rows_from x P0 PQ false). rewrite rows_from_eq at 1.
  cbn [rpath fst].
  replace (has (minus (minus (rows t) PD) PX) (PQ ++ [tname x])) with false.
  2: { symmetry. rewrite <- HPDe. unfold minus at 1. apply has_filter_false. apply has_minus_self. }
  rewrite <- rows_from_eq. reflexivity.
Qed.

(* ============================================================================================== *)
(* Part 11.  The statements exported to Props/C08.v.                                               *)

Definition cfg_same (copy : bool) (sep tsep : str) (fl : mflags) : cfg := CFG copy false sep tsep tsep fl.

(* plain shift, destination absent *)
Theorem C08_shift_paths_stmt sep tsep fl t p x comps PX :
  f_mc fl = false -> f_ml fl = false -> f_dc fl = false -> wf_t t ->
  p <> [] -> tget t p = Some x -> tpath t p = Some PX ->
  (forall cc, In cc comps -> cc <> []) ->
  pfx PX (tname t :: comps) = false ->
  has (rows t) ((tname t :: comps) ++ [tname x]) = false ->
  exists t2,
    cs_core (cfg_same false sep tsep fl) [t] (0 :: p) (TNew comps) = ([t2], None)
    /\ rows t2 = insert_last (minus (ensure (rows t) [tname t] comps) PX) (tname t :: comps)
                             (rows_from (tname t :: comps) x)
    /\ edit_cs false true fl (rows t) (rows t) PX (Some ((tname t :: comps) ++ [tname x])) = PNext (rows t2) (rows t2)
    /\ subseq (minus (rows t) PX) (rows t2).
Proof.
  intros Hmc Hml Hdc Hwf Hp Hx HPX Hne Hn Habs.
  destruct (shift_new_full (cfg_same false sep tsep fl) t p x comps PX) as [t2 [H1 H2]]; try assumption.
  - split; assumption || reflexivity.
  - reflexivity.
  - exists t2. split; [exact H1|]. split; [exact H2|]. split.
    + rewrite H2. apply (edit_cs_shift_new fl t p x comps PX); assumption.
    + rewrite H2. apply untouched_shift.
Qed.

(* plain copy, destination absent *)
Theorem C08_copy_keeps_source_stmt sep tsep fl t p x comps PX :
  f_mc fl = false -> f_ml fl = false -> f_dc fl = false -> wf_t t ->
  p <> [] -> tget t p = Some x -> tpath t p = Some PX ->
  (forall cc, In cc comps -> cc <> []) ->
  pfx PX (tname t :: comps) = false ->
  has (rows t) ((tname t :: comps) ++ [tname x]) = false ->
  exists t2 rest,
    cs_core (cfg_same true sep tsep fl) [t] (0 :: p) (TNew comps) = (t2 :: rest, None)
    /\ rows t2 = insert_last (ensure (rows t) [tname t] comps) (tname t :: comps)
                             (rows_from (tname t :: comps) (retag x))
    /\ edit_cs true true fl (rows t) (rows t) PX (Some ((tname t :: comps) ++ [tname x])) = PNext (rows t2) (rows t2)
    /\ subseq (rows t) (rows t2).
Proof.
  intros Hmc Hml Hdc Hwf Hp Hx HPX Hne Hn Habs.
  destruct (copy_new_full (cfg_same true sep tsep fl) t p x comps PX) as [t2 [rest [H1 H2]]]; try assumption.
  - split; assumption || reflexivity.
  - exists t2, rest. split; [exact H1|]. split; [exact H2|]. split.
    + rewrite H2. apply (edit_cs_copy_new fl t p x comps PX); assumption.
    + rewrite H2. apply untouched_copy.
Qed.

(* overriding *)
Theorem C08_override_stmt sep tsep fl t p d x D PX PD :
  f_over fl = true -> f_mc fl = false -> f_ml fl = false -> f_dc fl = false -> wf_t t ->
  p <> [] -> d <> [] -> tget t p = Some x -> tget t d = Some D ->
  tpath t p = Some PX -> tpath t d = Some PD ->
  pfx PX PD = false -> pfx PD PX = false -> tname D = tname x ->
  exists t2,
    cs_core (cfg_same false sep tsep fl) [t] (0 :: p) (TNode (0 :: d)) = ([t2; D], None)
    /\ rows t2 = insert_last (minus (minus (rows t) PD) PX) (removelast PD) (rows_from (removelast PD) x)
    /\ edit_cs false true fl (rows t) (rows t) PX (Some PD) = PNext (rows t2) (rows t2)
    /\ has (minus (rows t2) (removelast PD ++ [tname x])) PD = false
    /\ subseq (minus (minus (rows t) PD) PX) (rows t2).
Proof.
  intros Hov Hmc Hml Hdc Hwf Hp Hd Hx HD HPX HPD Hn1 Hn2 Hname.
  destruct (override_full (cfg_same false sep tsep fl) t p d x D PX PD) as [t2 [H1 H2]]; try assumption.
  - split; assumption || reflexivity.
  - exists t2. split; [exact H1|]. split; [exact H2|]. split; [|split].
    + rewrite H2. apply (edit_cs_override fl t p d x D PX PD); assumption.
    + destruct (fget_rows _ _ _ _ _ (wf_t_kids _ Hwf) HD HPD) as [P0d [HP0d _]].
      assert (E : removelast PD ++ [tname x] = PD) by (rewrite HP0d, removelast_last, Hname; reflexivity).
      rewrite E. apply has_minus_self.
    + rewrite H2. apply subseq_insert_last.
Qed.

(* deletion *)
Theorem C08_delete_stmt sep tsep fl t p x PX :
  f_mc fl = false -> f_ml fl = false -> f_dc fl = false -> wf_t t ->
  p <> [] -> tget t p = Some x -> tpath t p = Some PX ->
  exists t2,
    cs_core (cfg_same false sep tsep fl) [t] (0 :: p) TDel = ([t2; x], None)
    /\ rows t2 = minus (rows t) PX
    /\ edit_cs false true fl (rows t) (rows t) PX None = PNext (rows t2) (rows t2)
    /\ has (rows t2) PX = false
    /\ subseq (rows t2) (rows t).
Proof.
  intros Hmc Hml Hdc Hwf Hp Hx HPX. exists (t_remove p t).
  assert (Hr : rows (t_remove p t) = minus (rows t) PX) by (apply rows_t_remove; assumption).
  split; [apply delete_core; [split; assumption || reflexivity|exact Hp|exact Hx]|].
  split; [exact Hr|]. split; [|split].
  - rewrite Hr. apply (edit_cs_delete fl t p PX); assumption.
  - rewrite Hr. apply has_minus_self.
  - rewrite Hr. apply subseq_filter.
Qed.

(* a decision procedure for wf_t, used by the non-vacuity examples *)
Fixpoint nodup_names (l : list str) : bool :=
  match l with [] => true | x :: r => negb (existsb (str_eqb x) r) && nodup_names r end.
Fixpoint wf_tb (t : tree) : bool :=
  match t with T _ _ _ ks => nodup_names (map tname ks) && forallb wf_tb ks end.

Lemma nodup_names_sound l : nodup_names l = true -> NoDup l.
Proof.
  induction l as [|x l IH]; cbn; intros H; [constructor|]. apply andb_true_iff in H as [H1 H2].
  constructor; [|apply IH; exact H2]. intros Hin. apply negb_true_iff in H1.
  assert (existsb (str_eqb x) l = true) by (eapply existsb_true; [exact Hin|apply str_eqb_refl]). congruence.
Qed.

Lemma wf_tb_sound t : wf_tb t = true -> wf_t t.
Proof.
  induction t as [g n a ks IH] using tree_ind'. cbn [wf_tb]. intros H. apply andb_true_iff in H as [H1 H2].
  constructor; [apply nodup_names_sound; exact H1|].
  rewrite Forall_forall in *. intros k Hk. apply IH; [exact Hk|].
  rewrite forallb_forall in H2. apply H2. exact Hk.
Qed.

(* ============================================================================================== *)
(* Part 12.  delete_children: `del from_node.children` followed by the plain attach.               *)

(* set the children list of the node at p *)
Fixpoint fsetk (p : ref) (ks : list tree) (f : forest) : forest :=
  match p with
  | [] => ks
  | i :: p' => upd_nth i (fun t => set_kids t (fsetk p' ks (tkids t))) f
  end.

Lemma set_kids_id t : set_kids t (tkids t) = t.
Proof. destruct t; reflexivity. Qed.

Lemma upd_nth_id {A} (g : A -> A) (l : list A) i x : nth_error l i = Some x -> g x = x -> upd_nth i g l = l.
Proof.
  revert i; induction l as [|y l IH]; intros i H Hg; [reflexivity|]. destruct i; cbn in *.
  - inversion H; subst. rewrite Hg. reflexivity.
  - rewrite (IH _ H Hg). reflexivity.
Qed.

Lemma fsetk_id p : forall (f : forest) ks, fkids p f = Some ks -> fsetk p ks f = f.
Proof.
  induction p as [|i p IH]; intros f ks H; cbn in *; [inversion H; reflexivity|].
  destruct (nth_error f i) as [t|] eqn:Et; [|discriminate].
  eapply upd_nth_id; [exact Et|]. rewrite (IH _ _ H). apply set_kids_id.
Qed.

Lemma upd_nth_upd_nth {A} (g h : A -> A) (l : list A) i :
  upd_nth i g (upd_nth i h l) = upd_nth i (fun x => g (h x)) l.
Proof. revert i; induction l as [|y l IH]; intros [|i]; cbn; try reflexivity. rewrite IH. reflexivity. Qed.

Lemma upd_nth_ext {A} (g h : A -> A) (l : list A) i : (forall x, g x = h x) -> upd_nth i g l = upd_nth i h l.
Proof. intros E. revert i; induction l as [|y l IH]; intros [|i]; cbn; try reflexivity; [rewrite E|rewrite IH]; reflexivity. Qed.

Lemma set_kids_set_kids t a b : set_kids (set_kids t a) b = set_kids t b.
Proof. destruct t; reflexivity. Qed.

Lemma fremove_cons_ne i p' (f : forest) :
  p' <> [] -> fremove (i :: p') f = upd_nth i (fun t => set_kids t (fremove p' (tkids t))) f.
Proof. intros H. destruct p'; [congruence|reflexivity]. Qed.

(* removing the first child of the node at p *)
Lemma fremove_first_child p : forall (f : forest) k0 ks,
  fremove (p ++ [0]) (fsetk p (k0 :: ks) f) = fsetk p ks f.
Proof.
  induction p as [|i p IH]; intros f k0 ks; [reflexivity|].
  cbn [app fsetk]. rewrite fremove_cons_ne by (destruct p; discriminate).
  rewrite upd_nth_upd_nth. apply upd_nth_ext. intros t. rewrite set_kids_set_kids, tkids_set_kids, IH. reflexivity.
Qed.

Lemma fget_first_child p : forall (f : forest) k0 ks P pre,
  fpath pre p f = Some P -> p <> [] -> fget (p ++ [0]) (fsetk p (k0 :: ks) f) = Some k0.
Proof.
  induction p as [|i p IH]; intros f k0 ks P pre HP Hp; [congruence|].
  cbn [fpath] in HP. destruct (nth_error f i) as [t|] eqn:Et; [|discriminate].
  cbn [app fsetk fget]. rewrite nth_error_upd_nth, Nat.eqb_refl, Et. cbn [option_map].
  rewrite tkids_set_kids. destruct p as [|j p]; [reflexivity|].
  cbn [app]. change (j :: p ++ [0]) with ((j :: p) ++ [0]). eapply IH; [exact HP|discriminate].
Qed.

Lemma length_fsetk p ks (f : forest) : p <> [] -> length (fsetk p ks f) = length f.
Proof. intros Hp. destruct p; [congruence|]. cbn. apply length_upd_nth. Qed.

(* del x.children on the tree object's piece: every child becomes a piece of its own, in order *)
Lemma del_children_go_spec nr ks : forall (t : tree) rest p done trk,
  p <> [] -> (exists P, tpath t p = Some P) ->
  exists trk',
    del_children_go nr (length ks) (set_kids t (fsetk p ks (tkids t)) :: rest ++ done) (0 :: p) trk
    = MvOk (set_kids t (fsetk p [] (tkids t)) :: rest ++ done ++ ks) trk'.
Proof.
  induction ks as [|k0 ks IH]; intros t rest p done trk Hp [P HP].
  - exists trk. cbn. rewrite app_nil_r. reflexivity.
  - cbn [length del_children_go].
    set (t1 := set_kids t (fsetk p (k0 :: ks) (tkids t))).
    assert (Hg : tget t1 (p ++ [0]) = Some k0).
    { unfold tget, t1. rewrite tkids_set_kids. eapply fget_first_child; [exact HP|exact Hp]. }
    assert (Hne : p ++ [0] <> []) by (destruct p; discriminate).
    pose proof (detach_in_tree nr t1 (rest ++ done) (p ++ [0]) k0 Hne Hg) as Hm.
    change ((0 :: p) ++ [0]) with (0 :: p ++ [0]).
    match goal with |- context [move ?a ?b ?c ?e] =>
      replace (move a b c e) with
        (MvOk ((t_remove (p ++ [0]) t1 :: rest ++ done) ++ [k0]) (track (0 :: p ++ [0]) [S (length (rest ++ done))]))
        by (symmetry; exact Hm) end.
    assert (Ht1 : t_remove (p ++ [0]) t1 = set_kids t (fsetk p ks (tkids t))).
    { unfold t_remove, t1. rewrite set_kids_set_kids, tkids_set_kids, fremove_first_child. reflexivity. }
    rewrite Ht1. cbn [app]. rewrite <- app_assoc.
    destruct (IH t rest p (done ++ [k0]) (fun z => track (0 :: p ++ [0]) [S (length (rest ++ done))] (trk z)) Hp
                 (ex_intro _ P HP)) as [trk' Hgo].
    exists trk'. rewrite Hgo. rewrite <- !app_assoc. reflexivity.
Qed.

Lemma sunder_long P r : length (rpath r) < length P -> sunder P r = false.
Proof. intros H. unfold sunder. rewrite pfx_long by exact H. reflexivity. Qed.

Lemma frows_fsetk_nil : forall p pre (f : forest) P,
  wf_f f -> p <> [] -> fpath pre p f = Some P ->
  frows pre (fsetk p [] f) = minus_strict (frows pre f) P.
Proof.
  induction p as [|i p IH]; intros pre f P Hwf Hp HP; [congruence|].
  cbn [fpath] in HP. destruct (nth_error f i) as [t|] eqn:Et; [|discriminate].
  apply nth_error_split_at in Et as [a [b [-> <-]]].
  apply wf_f_mid in Hwf as [Ht [Hab Hne]].
  unfold minus_strict. rewrite !frows_app, frows_cons, !filter_app.
  destruct (fpath_ext _ _ _ _ HP) as [rest [HPe Hrl]]. rewrite <- app_assoc in HPe. cbn [app] in HPe.
  assert (Hsu : forall r, under P r = false -> negb (sunder P r) = true).
  { intros r Hr. unfold sunder. unfold under in Hr. rewrite Hr. reflexivity. }
  assert (Ha : filter (fun r => negb (sunder P r)) (frows pre a) = frows pre a).
  { apply filter_all. intros r Hr. apply Hsu. rewrite HPe.
    eapply frows_other_not_under; [|exact Hr]. intros u Hu. apply Hne. apply in_or_app. left; exact Hu. }
  assert (Hb : filter (fun r => negb (sunder P r)) (frows pre b) = frows pre b).
  { apply filter_all. intros r Hr. apply Hsu. rewrite HPe.
    eapply frows_other_not_under; [|exact Hr]. intros u Hu. apply Hne. apply in_or_app. right; exact Hu. }
  rewrite Ha, Hb. cbn [fsetk]. rewrite upd_nth_mid, frows_app, frows_cons. f_equal. f_equal.
  rewrite (rows_from_eq pre (set_kids t _)), (rows_from_eq pre t), tname_set_kids, ttag_set_kids, tattrs_set_kids,
    tkids_set_kids.
  cbn [filter]. destruct p as [|j p].
  - cbn in HP. inversion HP; subst P. cbn [fsetk frows flat_map].
    unfold sunder at 1. cbn [rpath fst]. rewrite path_eqb_refl, andb_false_r. cbn [negb]. f_equal.
    symmetry. apply filter_none. intros r Hr. apply frows_under in Hr as [u [rs [_ Hrs]]].
    unfold sunder. rewrite Hrs.
    replace (pre ++ [tname t]) with ((pre ++ [tname t]) ++ []) at 1 by apply app_nil_r.
    rewrite pfx_app_same. cbn [pfx andb].
    replace (path_eqb (pre ++ [tname t]) ((pre ++ [tname t]) ++ tname u :: rs)) with false; [reflexivity|].
    symmetry. destruct (path_eqb _ _) eqn:E; [|reflexivity]. apply path_eqb_eq in E.
    apply (f_equal (@length str)) in E. rewrite !app_length in E. cbn in E. lia.
  - rewrite sunder_long by (cbn [rpath fst]; rewrite HPe, !app_length; cbn [length] in *; lia). cbn [negb]. f_equal.
    apply IH; [apply wf_t_kids; exact Ht|discriminate|exact HP].
Qed.

Lemma fpath_fsetk p : forall z pre (f : forest) ks,
  is_prefix p z = false \/ z = p -> fpath pre z (fsetk p ks f) = fpath pre z f.
Proof.
  induction p as [|i p IH]; intros z pre f ks Hz.
  - destruct Hz as [Hz| ->]; [discriminate|reflexivity].
  - destruct z as [|j z]; [reflexivity|]. cbn [fsetk fpath]. rewrite nth_error_upd_nth.
    destruct (Nat.eqb j i) eqn:E; [|reflexivity]. apply Nat.eqb_eq in E. subst j.
    destruct (nth_error f i) as [t|]; [|reflexivity]. cbn [option_map]. rewrite tname_set_kids, tkids_set_kids.
    apply IH. destruct Hz as [Hz|Hz].
    + left. rewrite is_prefix_cons, Nat.eqb_refl in Hz. exact Hz.
    + right. inversion Hz. reflexivity.
Qed.

Lemma fget_fsetk_self p : forall (f : forest) ks x, fget p f = Some x -> fget p (fsetk p ks f) = Some (set_kids x ks).
Proof.
  induction p as [|i p IH]; intros f ks x H; [discriminate|]. cbn [fget fsetk] in *.
  rewrite nth_error_upd_nth, Nat.eqb_refl. destruct (nth_error f i) as [t|]; [|discriminate]. cbn [option_map].
  destruct p as [|j p].
  - inversion H; subst. reflexivity.
  - rewrite tkids_set_kids. apply IH. exact H.
Qed.

Lemma wf_fsetk_nil p : forall (f : forest), wf_f f -> wf_f (fsetk p [] f).
Proof.
  induction p as [|i p IH]; intros f [Hn Hf]; cbn [fsetk]; [split; constructor|]. split.
  - rewrite map_tname_upd_nth; [exact Hn|intros; apply tname_set_kids].
  - apply Forall_upd_nth; [|exact Hf]. intros t Ht. apply wf_t_set_kids. apply IH. apply wf_t_kids. exact Ht.
Qed.

Definition t_strip (p : ref) (t : tree) : tree := set_kids t (fsetk p [] (tkids t)).

Lemma rows_t_strip t p PX :
  wf_t t -> p <> [] -> tpath t p = Some PX -> rows (t_strip p t) = minus_strict (rows t) PX.
Proof.
  intros Hwf Hp HP. unfold t_strip. rewrite !rows_eq, tname_set_kids, ttag_set_kids, tattrs_set_kids, tkids_set_kids.
  unfold minus_strict. cbn [filter]. destruct (tpath_ext _ _ _ HP) as [rest [HPe Hl]].
  rewrite sunder_long by (cbn [rpath fst]; rewrite HPe; cbn [length]; destruct p; [congruence|cbn in Hl; lia]).
  cbn [negb]. f_equal. apply frows_fsetk_nil; [apply wf_t_kids; exact Hwf|exact Hp|exact HP].
Qed.

Lemma adj'_child_removed p : forall z i, is_prefix p z = false \/ z = p -> adj' (p ++ [i]) z = z.
Proof.
  induction p as [|a p IH]; intros z i Hz.
  - destruct Hz as [Hz| ->]; [discriminate|reflexivity].
  - destruct z as [|b z]; [unfold adj'; cbn; destruct (p ++ [i]); reflexivity|].
    cbn [app]. unfold adj'. cbn [adj]. destruct (p ++ [i]) eqn:E; [destruct p; discriminate|]. rewrite <- E.
    destruct (Nat.eqb b a) eqn:Eb; [|reflexivity]. apply Nat.eqb_eq in Eb. subst b.
    assert (Hz' : is_prefix p z = false \/ z = p).
    { destruct Hz as [Hz|Hz]; [left; rewrite is_prefix_cons, Nat.eqb_refl in Hz; exact Hz|right; inversion Hz; reflexivity]. }
    specialize (IH z i Hz'). unfold adj' in IH. destruct (adj (p ++ [i]) z); cbn [option_map]; [rewrite IH|]; reflexivity.
Qed.

Lemma is_prefix_child_false p z i : is_prefix p z = false \/ z = p -> is_prefix (p ++ [i]) z = false.
Proof.
  intros Hz. destruct (is_prefix (p ++ [i]) z) eqn:E; [|reflexivity].
  apply is_prefix_iff in E as [r ->]. destruct Hz as [Hz|Hz].
  - rewrite <- app_assoc, is_prefix_app in Hz. discriminate.
  - apply (f_equal (@length nat)) in Hz. rewrite !app_length in Hz. cbn in Hz. lia.
Qed.

(* the trackers of del_children leave alone every reference into piece 0 that is not strictly below p *)
Lemma del_children_go_track nr ks : forall (t : tree) rest p done trk trk',
  p <> [] -> (exists P, tpath t p = Some P) ->
  del_children_go nr (length ks) (set_kids t (fsetk p ks (tkids t)) :: rest ++ done) (0 :: p) trk = MvOk
    (set_kids t (fsetk p [] (tkids t)) :: rest ++ done ++ ks) trk' ->
  forall z, (is_prefix p z = false \/ z = p) -> trk (0 :: z) = 0 :: z -> trk' (0 :: z) = 0 :: z.
Proof.
  induction ks as [|k0 ks IH]; intros t rest p done trk trk' Hp [P HP] Hgo z Hz Htz.
  - cbn in Hgo. inversion Hgo; subst. exact Htz.
  - cbn [length del_children_go] in Hgo.
    set (t1 := set_kids t (fsetk p (k0 :: ks) (tkids t))) in *.
    assert (Hg : tget t1 (p ++ [0]) = Some k0).
    { unfold tget, t1. rewrite tkids_set_kids. eapply fget_first_child; [exact HP|exact Hp]. }
    assert (Hne : p ++ [0] <> []) by (destruct p; discriminate).
    pose proof (detach_in_tree nr t1 (rest ++ done) (p ++ [0]) k0 Hne Hg) as Hm.
    change ((0 :: p) ++ [0]) with (0 :: p ++ [0]) in Hgo.
    match type of Hgo with context [move ?a ?b ?c ?e] =>
      replace (move a b c e) with
        (MvOk ((t_remove (p ++ [0]) t1 :: rest ++ done) ++ [k0]) (track (0 :: p ++ [0]) [S (length (rest ++ done))]))
        in Hgo by (symmetry; exact Hm) end.
    assert (Ht1 : t_remove (p ++ [0]) t1 = set_kids t (fsetk p ks (tkids t))).
    { unfold t_remove, t1. rewrite set_kids_set_kids, tkids_set_kids, fremove_first_child. reflexivity. }
    rewrite Ht1 in Hgo. cbn [app] in Hgo. rewrite <- app_assoc in Hgo.
    eapply (IH t rest p (done ++ [k0])); [exact Hp|exists P; exact HP| |exact Hz|].
    + rewrite <- !app_assoc. cbn [app]. exact Hgo.
    + cbn beta. rewrite Htz. unfold track. rewrite is_prefix_cons. cbn [Nat.eqb andb].
      rewrite (is_prefix_child_false p z 0 Hz).
      rewrite adj'_cons0; [|exact Hne|apply is_prefix_child_false; exact Hz].
      rewrite adj'_child_removed by exact Hz. reflexivity.
Qed.

Record dc_shift (c : cfg) : Prop := {
  ds_copy : c_copy c = false;
  ds_mc : f_mc (c_fl c) = false;
  ds_ml : f_ml (c_fl c) = false;
  ds_dc : f_dc (c_fl c) = true }.

Lemma tname_set_kids' x ks : tname (set_kids x ks) = tname x.
Proof. apply tname_set_kids. Qed.

(* del from_node.children; from_node.parent = to_node *)
Lemma attach_dc_shift c t rest p q x kq :
  dc_shift c ->
  p <> [] -> tget t p = Some x -> (exists PX, tpath t p = Some PX) -> is_prefix p q = false ->
  fkids q (tkids (t_strip p t)) = Some kq -> (forall k, In k kq -> tname k <> tname x) ->
  (exists PQ, tpath (t_strip p t) q = Some PQ) ->
  attach c false (t :: rest) (0 :: p) (Some (0 :: q))
  = (t_move p q (set_kids x []) (t_strip p t) :: rest ++ tkids x, None).
Proof.
  intros [Hc Hmc Hml Hdc] Hp Hx HPX Hpq Hkq Hfresh HPQ. unfold attach. rewrite Hc, Hml, Hdc. cbn [orb andb].
  unfold del_children. rewrite fkids_cons0.
  assert (Hks : fkids p (tkids t) = Some (tkids x)).
  { rewrite fkids_fget by exact Hp. unfold tget in Hx. rewrite Hx. reflexivity. }
  rewrite Hks.
  destruct (del_children_go_spec (nroots c) (tkids x) t rest p [] (fun z => z) Hp HPX) as [trk' Hgo].
  pose proof (del_children_go_track (nroots c) (tkids x) t rest p [] (fun z => z) trk' Hp HPX Hgo) as Htrk.
  rewrite (fsetk_id p _ _ Hks), set_kids_id, app_nil_r in Hgo. cbn [app] in Hgo.
  match goal with |- context [del_children_go ?a ?b ?c0 ?d ?e] =>
    replace (del_children_go a b c0 d e) with (MvOk (t_strip p t :: rest ++ tkids x) trk') by (symmetry; exact Hgo) end.
  rewrite (Htrk p (or_intror eq_refl) eq_refl). cbn [option_map].
  rewrite (Htrk q (or_introl Hpq) eq_refl).
  assert (Hx' : tget (t_strip p t) p = Some (set_kids x [])).
  { unfold tget, t_strip. rewrite tkids_set_kids. apply fget_fsetk_self. exact Hx. }
  destruct (move_in_tree (nroots c) (t_strip p t) (rest ++ tkids x) p q (set_kids x []) kq Hp Hx' Hpq Hkq)
    as [trk2 Hm]; [rewrite tname_set_kids; exact Hfresh|exact HPQ|].
  match goal with |- context [move ?a ?b ?c0 ?d] =>
    replace (move a b c0 d) with (MvOk (t_move p q (set_kids x []) (t_strip p t) :: rest ++ tkids x) trk2)
      by (symmetry; exact Hm) end.
  reflexivity.
Qed.

Lemma minus_minus_strict tb P : minus (minus_strict tb P) P = minus tb P.
Proof.
  unfold minus, minus_strict. induction tb as [|r tb IH]; cbn; [reflexivity|].
  unfold sunder at 1. unfold under at 2. destruct (pfx P (rpath r)) eqn:E; cbn [andb negb].
  - destruct (path_eqb P (rpath r)); cbn [negb filter]; [unfold under at 1; rewrite E; cbn [negb]|]; exact IH.
  - cbn [filter]. unfold under at 1. rewrite E. cbn [negb]. rewrite IH. reflexivity.
Qed.

Lemma filter_at_path_sub (tb : table) P : filter (at_path P) tb = filter (at_path P) (filter (under P) tb).
Proof.
  induction tb as [|r tb IH]; cbn; [reflexivity|]. destruct (at_path P r) eqn:Ea.
  - rewrite (at_path_under _ _ Ea). cbn [filter]. rewrite Ea, IH. reflexivity.
  - destruct (under P r); cbn [filter]; [rewrite Ea|]; exact IH.
Qed.

Lemma t_row_at t p x PX :
  wf_t t -> p <> [] -> tget t p = Some x -> tpath t p = Some PX ->
  filter (at_path PX) (rows t) = [(PX, ttag x, tattrs x)].
Proof.
  intros Hwf Hp Hx HP. destruct (t_sub_rows t p x PX Hwf Hp Hx HP) as [P0 [HP0 Hsub]].
  rewrite (filter_at_path_sub (rows t) PX). fold (sub_rows (rows t) PX). rewrite Hsub, rows_from_eq, <- HP0. cbn [filter]. unfold at_path at 1. cbn [rpath fst].
  rewrite path_eqb_refl. f_equal. apply filter_none. intros r Hr.
  apply frows_under in Hr as [u [rs [_ Hrs]]]. unfold at_path. rewrite Hrs.
  destruct (path_eqb PX (PX ++ tname u :: rs)) eqn:E2; [|reflexivity]. apply path_eqb_eq in E2.
  apply (f_equal (@length str)) in E2. rewrite app_length in E2. cbn in E2. lia.
Qed.

(* DESIGN.md "C08_delete_children": shift with delete_children, destination absent: the bare node (same
   object, same attributes) becomes the last child of the destination parent; all rows at or below the
   source path are gone from where they were. *)
Theorem C08_delete_children_stmt sep tsep fl t p x comps PX :
  f_mc fl = false -> f_ml fl = false -> f_dc fl = true -> wf_t t ->
  p <> [] -> tget t p = Some x -> tpath t p = Some PX ->
  (forall cc, In cc comps -> cc <> []) ->
  pfx PX (tname t :: comps) = false ->
  has (rows t) ((tname t :: comps) ++ [tname x]) = false ->
  exists t2 rest,
    cs_core (cfg_same false sep tsep fl) [t] (0 :: p) (TNew comps) = (t2 :: rest, None)
    /\ rows t2 = insert_last (minus (ensure (rows t) [tname t] comps) PX) (tname t :: comps)
                             [((tname t :: comps) ++ [tname x], ttag x, tattrs x)]
    /\ edit_cs false true fl (rows t) (rows t) PX (Some ((tname t :: comps) ++ [tname x])) = PNext (rows t2) (rows t2)
    /\ subseq (minus (rows t) PX) (rows t2).
Proof.
  intros Hmc Hml Hdc Hwf Hp Hx HPX Hne Hnotin Habs. set (Q := tname t :: comps) in *.
  set (c := cfg_same false sep tsep fl).
  destruct (add_walk_spec comps [t] [0] [] [tname t] (wf_f_single _ Hwf) ltac:(discriminate) eq_refl Hne)
    as [f' [q [Ha [Hwf' [Hlen [Hrows [Hq [Hpre [Hfr1 Hfr2]]]]]]]]].
  destruct (forest1 f' Hlen) as [t1 ->].
  destruct q as [|q0 q]; [discriminate|]. cbn [is_prefix] in Hpre. rewrite andb_true_r in Hpre.
  apply Nat.eqb_eq in Hpre. subst q0.
  assert (Hwf1 : wf_t t1) by (destruct Hwf' as [_ Hf]; inversion Hf; assumption).
  assert (Hr1 : rows t1 = ensure (rows t) [tname t] comps).
  { unfold frows in Hrows. cbn [flat_map] in Hrows. rewrite !app_nil_r in Hrows. exact Hrows. }
  assert (HQ1 : tpath t1 q = Some Q) by exact Hq.
  assert (HPX1 : tpath t1 p = Some PX) by exact (Hfr2 (0 :: p) PX HPX).
  assert (Hpq : is_prefix p q = false).
  { destruct (is_prefix p q) eqn:E; [|reflexivity].
    rewrite (fpath_prefix_mono _ _ _ _ _ _ E HPX1 HQ1) in Hnotin. discriminate. }
  assert (Hx1 : tget t1 p = Some x).
  { unfold tget. rewrite <- (fget_cons0 p t1 []) by exact Hp. apply Hfr1.
    - rewrite is_prefix_cons. cbn. exact Hpq.
    - rewrite fget_cons0 by exact Hp. exact Hx. }
  set (t' := t_strip p t1).
  assert (Hwf2 : wf_t t') by (apply wf_t_set_kids, wf_fsetk_nil, wf_t_kids; exact Hwf1).
  assert (HQ2 : tpath t' q = Some Q).
  { unfold tpath, t', t_strip. rewrite tname_set_kids, tkids_set_kids, fpath_fsetk by (left; exact Hpq). exact HQ1. }
  assert (HPX2 : tpath t' p = Some PX).
  { unfold tpath, t', t_strip. rewrite tname_set_kids, tkids_set_kids, fpath_fsetk by (right; reflexivity). exact HPX1. }
  assert (Hr2 : rows t' = minus_strict (rows t1) PX) by (apply rows_t_strip; assumption).
  destruct (fkids_of_fpath _ _ _ _ HQ2) as [kq Hkq].
  assert (Hfresh : forall k, In k kq -> tname k <> tname x).
  { apply existsb_name_iff. rewrite <- (t_has_child t' q Q kq (tname x) Hwf2 HQ2 Hkq).
    rewrite Hr2. unfold minus_strict. apply has_filter_false.
    rewrite Hr1, has_ensure_long; [exact Habs|]. unfold Q. rewrite app_length. cbn [length]. lia. }
  assert (Hx2 : tget t' p = Some (set_kids x [])).
  { unfold tget, t', t_strip. rewrite tkids_set_kids. apply fget_fsetk_self. exact Hx1. }
  assert (Hrows2 : rows (t_move p q (set_kids x []) t')
                   = insert_last (minus (ensure (rows t) [tname t] comps) PX) Q [(Q ++ [tname x], ttag x, tattrs x)]).
  { rewrite (rows_t_move t' p q (set_kids x []) PX Q) by assumption.
    rewrite Hr2, minus_minus_strict, Hr1. rewrite rows_from_eq, tname_set_kids, ttag_set_kids, tattrs_set_kids,
      tkids_set_kids. reflexivity. }
  exists (t_move p q (set_kids x []) t'), ([] ++ tkids x). split; [|split; [exact Hrows2|split]].
  - unfold cs_core. change (dpiece c) with 0. rewrite Ha. change (f_mc (c_fl c)) with (f_mc fl). rewrite Hmc.
    apply (attach_dc_shift c t1 [] p q x kq); try assumption.
    + split; assumption || reflexivity.
    + exists PX. exact HPX1.
    + exists Q. exact HQ2.
  - rewrite Hrows2.
    destruct (t_sub_rows t p x PX Hwf Hp Hx HPX) as [P0 [HP0 Hsub]].
    destruct (tpath_ext _ _ _ HPX) as [rest0 [HPe Hl]].
    assert (Hk : length PX = S (length P0)) by (rewrite HP0, app_length; cbn; lia).
    assert (Hk2 : Nat.eqb (length PX) 1 = false).
    { apply Nat.eqb_neq. rewrite HPe. cbn [length]. destruct p; [congruence|cbn in Hl; lia]. }
    assert (Hneq : PX <> Q ++ [tname x]).
    { intros E. rewrite <- E in Habs. rewrite (t_has_row t p PX Hp HPX) in Habs. discriminate. }
    unfold edit_cs. rewrite Hk2. cbn [negb andb].
    rewrite removelast_last, !last_last. rewrite HP0 at 1. rewrite last_last, str_eqb_refl. cbn [negb].
    replace (path_eqb (Q ++ [tname x]) PX) with false.
    2: { symmetry. destruct (path_eqb (Q ++ [tname x]) PX) eqn:E; [|reflexivity]. apply path_eqb_eq in E. congruence. }
    rewrite (pfx_snoc_false PX Q (tname x) Hnotin Hneq). cbn [andb]. rewrite Habs.
    replace (Nat.ltb (length (Q ++ [tname x])) 2) with false.
    2: { symmetry. apply Nat.ltb_ge. rewrite app_length. unfold Q. cbn [length]. lia. }
    rewrite Hmc, Hml, Hdc.
    assert (He : ensure (rows t) [] Q = ensure (rows t) [tname t] comps).
    { unfold Q. cbn [ensure app]. rewrite has_root. reflexivity. }
    rewrite He. cbn [attach_items]. unfold reroot. cbn [fst snd].
    rewrite (t_row_at t p x PX Hwf Hp Hx HPX). cbn [map rpath rtag rattrs fst snd].
    rewrite Hk. cbn [Nat.sub]. rewrite Nat.sub_0_r.
    replace (skipn (length P0) PX) with [tname x] by (rewrite HP0, skipn_app_exact; reflexivity).
    unfold minus at 1. rewrite has_filter_false.
    2: { rewrite has_ensure_long; [exact Habs|]. unfold Q. rewrite app_length. cbn [length]. lia. }
    reflexivity.
  - rewrite Hrows2. apply untouched_shift.
Qed.

(* ============================================================================================== *)
(* Part 13.  merge_children: the children of the source node are appended, in order, to the          *)
(* destination; the source node itself is detached.                                                *)

Definition t_setk (p : ref) (ks : list tree) (t : tree) : tree := set_kids t (fsetk p ks (tkids t)).

Lemma upd_nth_app1 {A} (g : A -> A) (l l' : list A) i : i < length l -> upd_nth i g (l ++ l') = upd_nth i g l ++ l'.
Proof.
  revert i; induction l as [|x l IH]; intros i Hi; cbn in *; [lia|]. destruct i; cbn; [reflexivity|].
  rewrite IH by lia. reflexivity.
Qed.

Lemma upd_nth_comm {A} (g h : A -> A) (l : list A) i j :
  i <> j -> upd_nth i g (upd_nth j h l) = upd_nth j h (upd_nth i g l).
Proof.
  revert i j; induction l as [|x l IH]; intros i j Hij; [reflexivity|].
  destruct i, j; cbn; try reflexivity; [congruence|]. rewrite IH by congruence. reflexivity.
Qed.

Lemma upd_nth_ext_at {A} (g h : A -> A) (l : list A) i x :
  nth_error l i = Some x -> g x = h x -> upd_nth i g l = upd_nth i h l.
Proof.
  revert i; induction l as [|y l IH]; intros i H E; [reflexivity|]. destruct i; cbn in *.
  - inversion H; subst. rewrite E. reflexivity.
  - rewrite (IH _ H E). reflexivity.
Qed.

(* setting the children of p and appending under q commute when q is not inside p *)
Lemma fsetk_fappend p : forall q (f : forest) K k pre P,
  fpath pre p f = Some P -> is_prefix p q = false ->
  fsetk p K (fappend q k f) = fappend q k (fsetk p K f).
Proof.
  induction p as [|i p IH]; intros q f K k pre P HP Hpq; [discriminate|].
  cbn [fpath] in HP. destruct (nth_error f i) as [t|] eqn:Et; [|discriminate].
  assert (Hi : i < length f) by (apply nth_error_Some; congruence).
  destruct q as [|j q]; cbn [fappend fsetk].
  - apply upd_nth_app1. exact Hi.
  - rewrite is_prefix_cons in Hpq. destruct (Nat.eqb i j) eqn:E.
    + apply Nat.eqb_eq in E. subst j. cbn [andb] in Hpq. rewrite !upd_nth_upd_nth.
      eapply upd_nth_ext_at; [exact Et|]. rewrite !set_kids_set_kids, !tkids_set_kids.
      f_equal. eapply IH; eassumption.
    + apply Nat.eqb_neq in E. apply upd_nth_comm. exact E.
Qed.

Lemma del_nth_upd_nth {A} (g : A -> A) (l : list A) i : del_nth i (upd_nth i g l) = del_nth i l.
Proof. revert i; induction l as [|x l IH]; intros [|i]; cbn; try reflexivity. rewrite IH. reflexivity. Qed.

Lemma fremove_fsetk p : forall (f : forest) K, p <> [] -> fremove p (fsetk p K f) = fremove p f.
Proof.
  induction p as [|i p IH]; intros f K Hp; [congruence|]. destruct p as [|j p].
  - cbn [fremove fsetk]. apply del_nth_upd_nth.
  - rewrite !fremove_cons_ne by discriminate.
    change (fsetk (i :: j :: p) K f) with (upd_nth i (fun t => set_kids t (fsetk (j :: p) K (tkids t))) f).
    rewrite upd_nth_upd_nth.
    apply upd_nth_ext. intros t. rewrite set_kids_set_kids, tkids_set_kids, IH by discriminate. reflexivity.
Qed.

Lemma fsetk_fsetk p : forall (f : forest) K K', fsetk p K (fsetk p K' f) = fsetk p K f.
Proof.
  induction p as [|i p IH]; intros f K K'; [reflexivity|]. cbn [fsetk]. rewrite upd_nth_upd_nth.
  apply upd_nth_ext. intros t. rewrite set_kids_set_kids, tkids_set_kids, IH. reflexivity.
Qed.

(* the names of the children of q do not change when the children of p are replaced, q not inside p *)
Lemma fkids_names_fsetk p : forall q (f : forest) K,
  is_prefix p q = false ->
  option_map (map tname) (fkids q (fsetk p K f)) = option_map (map tname) (fkids q f).
Proof.
  induction p as [|i p IH]; intros q f K Hpq; [discriminate|].
  destruct q as [|j q].
  - cbn [fkids fsetk option_map]. f_equal. apply map_tname_upd_nth. intros; apply tname_set_kids.
  - rewrite is_prefix_cons in Hpq. cbn [fkids fsetk]. rewrite nth_error_upd_nth.
    destruct (Nat.eqb j i) eqn:E; [|reflexivity]. apply Nat.eqb_eq in E. subst j. rewrite Nat.eqb_refl in Hpq.
    cbn [andb] in Hpq. destruct (nth_error f i) as [t|]; [|reflexivity]. cbn [option_map].
    rewrite tkids_set_kids. apply IH. exact Hpq.
Qed.

Lemma fkids_fappend_self q : forall (f : forest) k kq,
  fkids q f = Some kq -> fkids q (fappend q k f) = Some (kq ++ [k]).
Proof.
  induction q as [|j q IH]; intros f k kq H; cbn in *; [inversion H; reflexivity|].
  rewrite nth_error_upd_nth, Nat.eqb_refl. destruct (nth_error f j) as [t|]; [|discriminate]. cbn [option_map].
  rewrite tkids_set_kids. apply IH. exact H.
Qed.

Lemma fget_snoc p : forall (f : forest) ks i k,
  fkids p f = Some ks -> nth_error ks i = Some k -> fget (p ++ [i]) f = Some k.
Proof.
  induction p as [|j p IH]; intros f ks i k Hk Hi; cbn in *.
  - inversion Hk; subst. rewrite Hi. reflexivity.
  - destruct (nth_error f j) as [t|]; [|discriminate].
    destruct (p ++ [i]) eqn:E; [destruct p; discriminate|]. rewrite <- E. eapply IH; eassumption.
Qed.

Lemma adj'_later_sibling p : forall m, adj' (p ++ [0]) (p ++ [S m]) = p ++ [m].
Proof.
  induction p as [|a p IH]; intros m; [reflexivity|]. cbn [app]. unfold adj'.
  rewrite adj_cons_same by (destruct p; discriminate). specialize (IH m). unfold adj' in IH.
  destruct (adj (p ++ [0]) (p ++ [S m])); cbn [option_map]; [rewrite IH; reflexivity|].
  rewrite IH. reflexivity.
Qed.

Lemma is_prefix_sibling_false p i j : i <> j -> is_prefix (p ++ [i]) (p ++ [j]) = false.
Proof.
  intros H. induction p as [|a p IH]; cbn.
  - destruct (Nat.eqb i j) eqn:E; [apply Nat.eqb_eq in E; contradiction|reflexivity].
  - rewrite Nat.eqb_refl. exact IH.
Qed.

(* move_in_tree with the tracker it returns *)
Lemma move_in_tree' nr t rest p q x ks :
  p <> [] -> tget t p = Some x -> is_prefix p q = false ->
  fkids q (tkids t) = Some ks -> (forall k, In k ks -> tname k <> tname x) ->
  (exists PQ, tpath t q = Some PQ) ->
  exists n, move nr (t :: rest) (0 :: p) (Some (0 :: q))
            = MvOk (t_move p q x t :: rest) (track (0 :: p) ((0 :: adj' p q) ++ [n])).
Proof.
  intros Hp Hx Hpq Hks Hfresh [PQ HPQ]. unfold move.
  rewrite fget_cons0 by exact Hp. unfold tget in Hx. rewrite Hx.
  rewrite is_prefix_cons. cbn [Nat.eqb andb]. rewrite Hpq.
  rewrite fkids_cons0, Hks. rewrite dup_child_false by exact Hfresh.
  assert (Hprot : protected nr (0 :: p) = false) by (destruct p; [congruence|reflexivity]).
  rewrite Hprot. rewrite fremove_cons0 by exact Hp. rewrite adj'_cons0 by assumption.
  rewrite fkids_cons0. unfold t_remove at 1. rewrite tkids_set_kids.
  assert (HPQ' : fpath [tname t] (adj' p q) (fremove p (tkids t)) = Some PQ).
  { unfold tpath in HPQ. rewrite (fpath_adj _ _ _ _ _ Hx Hpq). exact HPQ. }
  destruct (fkids_of_fpath _ _ _ _ HPQ') as [ks1 Hks1]. rewrite Hks1.
  rewrite fappend_cons0. exists (length ks1). reflexivity.
Qed.

Lemma track_cons0 x nx z : x <> [] -> is_prefix x z = false -> track (0 :: x) nx (0 :: z) = 0 :: adj' x z.
Proof.
  intros Hx Hz. unfold track. rewrite is_prefix_cons. cbn [Nat.eqb andb]. rewrite Hz. apply adj'_cons0; assumption.
Qed.

(* names of the children of q, as seen from the root of t *)
Definition qnames (q : ref) (t : tree) : option (list str) := option_map (map tname) (fkids q (tkids t)).

Lemma NoDup_app_l {A} (a b : list A) : NoDup (a ++ b) -> NoDup a.
Proof. induction a as [|x a IH]; cbn; intros H; [constructor|]. inversion H; subst. constructor; [|auto].
  intros Hin. apply H2. apply in_or_app. left; exact Hin. Qed.

Lemma NoDup_app_disj {A} (a b : list A) x : NoDup (a ++ b) -> In x a -> In x b -> False.
Proof.
  induction a as [|y a IH]; cbn; intros H Ha Hb; [destruct Ha|]. inversion H; subst.
  destruct Ha as [->|Ha]; [apply H2; apply in_or_app; right; exact Hb|eapply IH; eassumption].
Qed.

(* the loop of modify.py:1208-1211 without delete_children.  s: the tree with the children of p already
   dropped and the children moved so far appended under q; K: the children not moved yet *)
Lemma mc_loop_spec nr rest p q : p <> [] -> is_prefix p q = false ->
  forall K (s : tree) cs trk nm,
  length cs = length K ->
  (forall i c, nth_error cs i = Some c -> trk c = 0 :: p ++ [i]) ->
  (exists P, tpath s p = Some P) -> (exists PQ, tpath s q = Some PQ) ->
  qnames q s = Some nm -> NoDup (nm ++ map tname K) ->
  mc_loop nr false (t_setk p K s :: rest) cs trk (Some (0 :: q)) (0 :: p)
  = (t_setk p [] (fold_left (fun s k => t_append q k s) K s) :: rest, Ret (0 :: p)).
Proof.
  intros Hp Hpq. induction K as [|k0 K IH]; intros s cs trk nm Hlen Htrk [P HP] [PQ HPQ] Hnm Hnd.
  - destruct cs; [|discriminate]. reflexivity.
  - destruct cs as [|c0 cs]; [discriminate|]. cbn [mc_loop fold_left].
    rewrite (Htrk 0 c0 eq_refl).
    set (m := t_setk p (k0 :: K) s).
    assert (Hne : p ++ [0] <> []) by (destruct p; discriminate).
    assert (Hg : tget m (p ++ [0]) = Some k0).
    { unfold tget, m, t_setk. rewrite tkids_set_kids. eapply fget_first_child; [exact HP|exact Hp]. }
    assert (Hpq0 : is_prefix (p ++ [0]) q = false) by (apply is_prefix_child_false; left; exact Hpq).
    assert (HPQm : tpath m q = Some PQ).
    { unfold tpath, m, t_setk. rewrite tname_set_kids, tkids_set_kids, fpath_fsetk by (left; exact Hpq). exact HPQ. }
    destruct (fkids_of_fpath _ _ _ _ HPQm) as [kqm Hkqm].
    assert (Hnames : map tname kqm = nm).
    { pose proof (fkids_names_fsetk p q (tkids s) (k0 :: K) Hpq) as E. unfold m, t_setk in Hkqm.
      rewrite tkids_set_kids in Hkqm. rewrite Hkqm in E. unfold qnames in Hnm.
      destruct (fkids q (tkids s)); cbn in *; [|discriminate]. inversion Hnm; subst. inversion E. reflexivity. }
    assert (Hfresh : forall k, In k kqm -> tname k <> tname k0).
    { intros k Hk E. eapply (NoDup_app_disj nm (map tname (k0 :: K)) (tname k0) Hnd).
      - rewrite <- Hnames, <- E. apply in_map. exact Hk.
      - left. reflexivity. }
    destruct (move_in_tree' nr m rest (p ++ [0]) q k0 kqm Hne Hg Hpq0 Hkqm Hfresh (ex_intro _ PQ HPQm)) as [n Hm].
    cbn [option_map].
    match goal with |- context [move ?a ?b ?c0' ?d] =>
      replace (move a b c0' d) with
        (MvOk (t_move (p ++ [0]) q k0 m :: rest) (track (0 :: p ++ [0]) ((0 :: adj' (p ++ [0]) q) ++ [n])))
        by (symmetry; exact Hm) end.
    set (t2 := track (0 :: p ++ [0]) ((0 :: adj' (p ++ [0]) q) ++ [n])).
    assert (Ht2q : t2 (0 :: q) = 0 :: q).
    { unfold t2. rewrite track_cons0 by assumption. rewrite adj'_child_removed by (left; exact Hpq). reflexivity. }
    assert (Ht2p : t2 (0 :: p) = 0 :: p).
    { unfold t2. rewrite track_cons0; [|exact Hne|apply is_prefix_child_false; right; reflexivity].
      rewrite adj'_child_removed by (right; reflexivity). reflexivity. }
    cbn beta. rewrite Ht2q, Ht2p.
    assert (Hmove : t_move (p ++ [0]) q k0 m = t_setk p K (t_append q k0 s)).
    { unfold t_move. rewrite adj'_child_removed by (left; exact Hpq).
      unfold t_remove, m, t_setk, t_append. rewrite !set_kids_set_kids, !tkids_set_kids.
      rewrite fremove_first_child. f_equal. symmetry. eapply fsetk_fappend; [exact HP|exact Hpq]. }
    rewrite Hmove.
    apply (IH (t_append q k0 s) cs (fun z => t2 (trk z)) (nm ++ [tname k0])).
    + cbn in Hlen. lia.
    + intros i c Hc. rewrite (Htrk (S i) c Hc). unfold t2.
      rewrite track_cons0; [|exact Hne|apply is_prefix_sibling_false; lia].
      rewrite adj'_later_sibling. reflexivity.
    + exists P. unfold tpath, t_append. rewrite tname_set_kids, tkids_set_kids.
      apply fpath_fappend_frame. exact HP.
    + exists PQ. unfold tpath, t_append. rewrite tname_set_kids, tkids_set_kids.
      apply fpath_fappend_frame. exact HPQ.
    + unfold qnames, t_append in *. rewrite tkids_set_kids.
      destruct (fkids q (tkids s)) as [kq|] eqn:Ekq; [|discriminate]. cbn in Hnm. inversion Hnm; subst nm.
      rewrite (fkids_fappend_self q _ k0 kq Ekq). cbn. rewrite map_app. reflexivity.
    + rewrite <- app_assoc. exact Hnd.
Qed.

Lemma wf_t_append t q k kq :
  wf_t t -> wf_t k -> fkids q (tkids t) = Some kq -> (forall k', In k' kq -> tname k' <> tname k) ->
  wf_t (t_append q k t).
Proof.
  intros Hwf Hk Hkq Hfresh. unfold t_append. apply wf_t_set_kids. destruct q as [|j q].
  - cbn in Hkq. inversion Hkq; subst kq. cbn [fappend]. destruct (wf_t_kids _ Hwf) as [Hn Hf]. split.
    + rewrite map_app. cbn [map]. apply NoDup_app_snoc; [exact Hn|].
      intros Hin. apply in_map_iff in Hin as [k' [E Hk']]. apply (Hfresh k' Hk'). exact E.
    + rewrite Forall_app. split; [exact Hf|constructor; [exact Hk|constructor]].
  - eapply wf_fappend; [apply wf_t_kids; exact Hwf|exact Hk|discriminate|exact Hkq|exact Hfresh].
Qed.

Definition ins_all (Q : list str) (K : list tree) (tb : table) : table :=
  fold_left (fun tb k => insert_last tb Q (rows_from Q k)) K tb.
Definition app_all (q : ref) (K : list tree) (s : tree) : tree := fold_left (fun s k => t_append q k s) K s.

Lemma app_all_facts q Q : forall K (s : tree) nm,
  wf_t s -> tpath s q = Some Q -> qnames q s = Some nm -> NoDup (nm ++ map tname K) -> Forall wf_t K ->
  wf_t (app_all q K s) /\ rows (app_all q K s) = ins_all Q K (rows s)
  /\ (forall z P, tpath s z = Some P -> tpath (app_all q K s) z = Some P).
Proof.
  induction K as [|k K IH]; intros s nm Hwf HQ Hnm Hnd HK; [cbn; auto|].
  inversion HK as [|? ? Hk HK']; subst. cbn [app_all ins_all fold_left].
  unfold qnames in Hnm. destruct (fkids q (tkids s)) as [kq|] eqn:Ekq; [|discriminate]. cbn in Hnm.
  inversion Hnm; subst nm.
  assert (Hfresh : forall k', In k' kq -> tname k' <> tname k).
  { intros k' Hk' E. eapply (NoDup_app_disj _ _ (tname k) Hnd); [rewrite <- E; apply in_map; exact Hk'|left; reflexivity]. }
  assert (Hwf1 : wf_t (t_append q k s)) by (eapply wf_t_append; eassumption).
  assert (Hfr : forall z P, tpath s z = Some P -> tpath (t_append q k s) z = Some P).
  { intros z P Hz. unfold tpath, t_append. rewrite tname_set_kids, tkids_set_kids. apply fpath_fappend_frame. exact Hz. }
  destruct (IH (t_append q k s) (map tname kq ++ [tname k]) Hwf1 (Hfr _ _ HQ)) as [H1 [H2 H3]].
  - unfold qnames, t_append. rewrite tkids_set_kids, (fkids_fappend_self q _ k kq Ekq). cbn. rewrite map_app. reflexivity.
  - rewrite <- app_assoc. exact Hnd.
  - exact HK'.
  - split; [exact H1|]. split.
    + fold (app_all q K (t_append q k s)). fold (ins_all Q K (insert_last (rows s) Q (rows_from Q k))).
      rewrite H2, (rows_t_append s q k Q Hwf HQ). reflexivity.
    + intros z P Hz. apply H3. apply Hfr. exact Hz.
Qed.

Lemma subseq_ins_all Q K : forall tb, subseq tb (ins_all Q K tb).
Proof.
  induction K as [|k K IH]; intros tb; [apply subseq_refl|]. cbn [ins_all fold_left].
  eapply subseq_trans; [apply subseq_insert_last|apply IH].
Qed.

(* the items Spec.edit_cs attaches for merge_children are the child subtrees, in order *)
Lemma attach_items_children Q n : forall K (tb : table),
  (forall k, In k K -> has tb (Q ++ [tname k]) = false) -> NoDup (map tname K) ->
  forall PX, length PX = n ->
  attach_items tb Q false (map (fun k => (S n, rows_from PX k)) K) = Some (ins_all Q K tb).
Proof.
  induction K as [|k K IH]; intros tb Hhas Hnd PX Hn; [reflexivity|]. subst n.
  cbn [map attach_items ins_all fold_left]. unfold reroot. cbn [fst snd Nat.sub]. rewrite Nat.sub_0_r.
  rewrite (reroot_rows_from k PX Q false). rewrite rows_from_eq at 1. cbn [rpath fst].
  rewrite (Hhas k (or_introl eq_refl)). rewrite <- rows_from_eq.
  cbn [map] in Hnd. inversion Hnd as [|? ? Hnotin Hnd']; subst.
  apply IH; [|exact Hnd'|reflexivity].
  intros k' Hk'. rewrite has_insert_last, (Hhas k' (or_intror Hk')), has_rows_child. cbn [orb].
  apply str_eqb_neq. intros E. apply Hnotin. rewrite E. apply in_map. exact Hk'.
Qed.

Lemma frows_child_rows PX : forall ks,
  filter (fun r : row => Nat.eqb (length (rpath r)) (S (length PX))) (frows PX ks)
  = map (fun k => (PX ++ [tname k], ttag k, tattrs k)) ks.
Proof.
  induction ks as [|k ks IH]; [reflexivity|]. rewrite frows_cons, filter_app, IH. cbn [map].
  rewrite rows_from_eq. cbn [filter rpath fst]. rewrite app_length. cbn [length]. rewrite Nat.add_1_r, Nat.eqb_refl.
  cbn [app]. f_equal. rewrite filter_none; [reflexivity|].
  intros r Hr. apply frows_under in Hr as [u [rs [_ Hrs]]]. rewrite Hrs, !app_length. cbn [length].
  apply Nat.eqb_neq. lia.
Qed.

Lemma filter_filter {A} (g h : A -> bool) l : filter g (filter h l) = filter (fun x => h x && g x) l.
Proof. induction l as [|x l IH]; cbn; [reflexivity|]. destruct (h x); cbn; [destruct (g x)|]; rewrite IH; reflexivity. Qed.

Lemma t_child_rows t p x PX :
  wf_t t -> p <> [] -> tget t p = Some x -> tpath t p = Some PX ->
  filter (fun r : row => under PX r && Nat.eqb (length (rpath r)) (S (length PX))) (rows t)
  = map (fun k => (PX ++ [tname k], ttag k, tattrs k)) (tkids x).
Proof.
  intros Hwf Hp Hx HP. destruct (t_sub_rows t p x PX Hwf Hp Hx HP) as [P0 [HP0 Hsub]].
  rewrite <- filter_filter. fold (sub_rows (rows t) PX). rewrite Hsub, rows_from_eq, <- HP0.
  cbn [filter rpath fst]. replace (Nat.eqb (length PX) (S (length PX))) with false by (symmetry; apply Nat.eqb_neq; lia).
  apply frows_child_rows.
Qed.

Lemma t_sub_rows_child t p x PX k :
  wf_t t -> p <> [] -> tget t p = Some x -> tpath t p = Some PX -> In k (tkids x) ->
  sub_rows (rows t) (PX ++ [tname k]) = rows_from PX k.
Proof.
  intros Hwf Hp Hx HP Hk. apply In_nth_error in Hk as [i Hi].
  assert (Hks : fkids p (tkids t) = Some (tkids x)).
  { rewrite fkids_fget by exact Hp. unfold tget in Hx. rewrite Hx. reflexivity. }
  assert (Hne : p ++ [i] <> []) by (destruct p; discriminate).
  assert (Hg : tget t (p ++ [i]) = Some k) by (eapply fget_snoc; eassumption).
  assert (HPk : tpath t (p ++ [i]) = Some (PX ++ [tname k])) by (eapply fpath_snoc; eassumption).
  destruct (t_sub_rows t (p ++ [i]) k _ Hwf Hne Hg HPk) as [P0 [HP0 Hsub]].
  apply app_inj_tail in HP0 as [-> _]. exact Hsub.
Qed.

Lemma NoDup_app_intro {A} (a b : list A) :
  NoDup a -> NoDup b -> (forall x, In x a -> In x b -> False) -> NoDup (a ++ b).
Proof.
  induction a as [|x a IH]; intros Ha Hb Hd; [exact Hb|]. inversion Ha; subst. cbn. constructor.
  - intros Hin. apply in_app_or in Hin as [Hin|Hin]; [contradiction|]. apply (Hd x); [left; reflexivity|exact Hin].
  - apply IH; [assumption|exact Hb|]. intros y Hy1 Hy2. apply (Hd y); [right; exact Hy1|exact Hy2].
Qed.

Lemma wf_t_In t k : wf_t t -> In k (tkids t) -> wf_t k.
Proof. intros H Hk. destruct (wf_t_kids _ H) as [_ Hf]. rewrite Forall_forall in Hf. apply Hf. exact Hk. Qed.

Lemma wf_tget t p x : wf_t t -> tget t p = Some x -> wf_t x.
Proof.
  unfold tget. intros Hwf. generalize (wf_t_kids _ Hwf). generalize (tkids t). clear.
  induction p as [|i p IH]; intros f Hf H; [discriminate|]. cbn [fget] in H.
  destruct (nth_error f i) as [u|] eqn:Eu; [|discriminate].
  assert (Hu : wf_t u) by (destruct Hf as [_ Hf]; rewrite Forall_forall in Hf; apply Hf; eapply nth_error_In; exact Eu).
  destruct p as [|j p]; [inversion H; subst; exact Hu|]. eapply IH; [apply wf_t_kids; exact Hu|exact H].
Qed.

Lemma child_refs_nth x n i c : nth_error (child_refs x n) i = Some c -> c = x ++ [i].
Proof.
  unfold child_refs. rewrite nth_error_map. destruct (nth_error (seq 0 n) i) as [j|] eqn:E; [|discriminate].
  cbn. intros H; inversion H; subst. f_equal. f_equal.
  assert (Hi : i < length (seq 0 n)) by (apply nth_error_Some; congruence).
  rewrite seq_length in Hi. rewrite (nth_error_nth' _ 0) in E by (rewrite seq_length; exact Hi).
  rewrite seq_nth in E by exact Hi. inversion E. reflexivity.
Qed.

Lemma length_child_refs x n : length (child_refs x n) = n.
Proof. unfold child_refs. rewrite map_length, seq_length. reflexivity. Qed.

(* DESIGN.md "C08_merge_children": shift with merge_children, destination absent *)
Theorem C08_merge_children_stmt sep tsep fl t p x comps PX :
  f_mc fl = true -> f_ml fl = false -> f_dc fl = false -> wf_t t ->
  p <> [] -> tget t p = Some x -> tpath t p = Some PX ->
  (forall cc, In cc comps -> cc <> []) ->
  pfx PX (tname t :: comps) = false ->
  has (rows t) ((tname t :: comps) ++ [tname x]) = false ->
  (forall k, In k (tkids x) -> has (rows t) ((tname t :: comps) ++ [tname k]) = false) ->
  exists t2 rest,
    cs_core (cfg_same false sep tsep fl) [t] (0 :: p) (TNew comps) = (t2 :: rest, None)
    /\ rows t2 = minus (ins_all (tname t :: comps) (tkids x)
                                (minus_strict (ensure (rows t) [tname t] comps) PX)) PX
    /\ edit_cs false true fl (rows t) (rows t) PX (Some ((tname t :: comps) ++ [tname x])) = PNext (rows t2) (rows t2)
    /\ subseq (minus (rows t) PX) (rows t2).
Proof.
  intros Hmc Hml Hdc Hwf Hp Hx HPX Hne Hnotin Habs Hkabs. set (Q := tname t :: comps) in *.
  set (c := cfg_same false sep tsep fl).
  destruct (add_walk_spec comps [t] [0] [] [tname t] (wf_f_single _ Hwf) ltac:(discriminate) eq_refl Hne)
    as [f' [q [Ha [Hwf' [Hlen [Hrows [Hq [Hpre [Hfr1 Hfr2]]]]]]]]].
  destruct (forest1 f' Hlen) as [t1 ->].
  destruct q as [|q0 q]; [discriminate|]. cbn [is_prefix] in Hpre. rewrite andb_true_r in Hpre.
  apply Nat.eqb_eq in Hpre. subst q0.
  assert (Hwf1 : wf_t t1) by (destruct Hwf' as [_ Hf]; inversion Hf; assumption).
  assert (Hr1 : rows t1 = ensure (rows t) [tname t] comps).
  { unfold frows in Hrows. cbn [flat_map] in Hrows. rewrite !app_nil_r in Hrows. exact Hrows. }
  assert (HQ1 : tpath t1 q = Some Q) by exact Hq.
  assert (HPX1 : tpath t1 p = Some PX) by exact (Hfr2 (0 :: p) PX HPX).
  assert (Hpq : is_prefix p q = false).
  { destruct (is_prefix p q) eqn:E; [|reflexivity].
    rewrite (fpath_prefix_mono _ _ _ _ _ _ E HPX1 HQ1) in Hnotin. discriminate. }
  assert (Hx1 : tget t1 p = Some x).
  { unfold tget. rewrite <- (fget_cons0 p t1 []) by exact Hp. apply Hfr1.
    - rewrite is_prefix_cons. cbn. exact Hpq.
    - rewrite fget_cons0 by exact Hp. exact Hx. }
  set (K := tkids x). set (s := t_strip p t1).
  assert (Hwfs : wf_t s) by (apply wf_t_set_kids, wf_fsetk_nil, wf_t_kids; exact Hwf1).
  assert (HQs : tpath s q = Some Q).
  { unfold tpath, s, t_strip. rewrite tname_set_kids, tkids_set_kids, fpath_fsetk by (left; exact Hpq). exact HQ1. }
  assert (HPXs : tpath s p = Some PX).
  { unfold tpath, s, t_strip. rewrite tname_set_kids, tkids_set_kids, fpath_fsetk by (right; reflexivity). exact HPX1. }
  assert (Hrs : rows s = minus_strict (rows t1) PX) by (apply rows_t_strip; assumption).
  assert (Hks : fkids p (tkids t1) = Some K).
  { rewrite fkids_fget by exact Hp. unfold tget in Hx1. rewrite Hx1. reflexivity. }
  assert (Hwfx : wf_t x) by (apply (wf_tget t p x Hwf Hx)).
  destruct (fkids_of_fpath _ _ _ _ HQs) as [kq Hkq].
  assert (Hhas_s : forall k, In k K -> has (rows s) (Q ++ [tname k]) = false).
  { intros k Hk. rewrite Hrs. unfold minus_strict. apply has_filter_false.
    rewrite Hr1, has_ensure_long; [apply Hkabs; exact Hk|]. unfold Q. rewrite app_length. cbn [length]. lia. }
  assert (Hnd : NoDup (map tname kq ++ map tname K)).
  { apply NoDup_app_intro.
    - apply (wf_fkids q (tkids s) kq (wf_t_kids _ Hwfs) Hkq).
    - apply (wf_t_kids _ Hwfx).
    - intros n Hn1 Hn2. apply in_map_iff in Hn2 as [k [<- Hk]].
      pose proof (Hhas_s k Hk) as Hh. rewrite (t_has_child s q Q kq (tname k) Hwfs HQs Hkq) in Hh.
      apply in_map_iff in Hn1 as [k' [E Hk']].
      assert (existsb (fun k0 => str_eqb (tname k0) (tname k)) kq = true)
        by (eapply existsb_true; [exact Hk'|apply str_eqb_eq; exact E]). congruence. }
  assert (Hqn : qnames q s = Some (map tname kq)) by (unfold qnames; rewrite Hkq; reflexivity).
  assert (HKwf : Forall wf_t K) by (apply (wf_t_kids _ Hwfx)).
  destruct (app_all_facts q Q K s (map tname kq) Hwfs HQs Hqn Hnd HKwf) as [Hwfn [Hrn Hfrn]].
  set (sn := app_all q K s) in *.
  assert (HPXn : tpath sn p = Some PX) by (apply Hfrn; exact HPXs).
  destruct (fpath_fget _ _ _ _ Hp HPXn) as [y Hy].
  assert (Hrows2 : rows (t_remove p sn) = minus (ins_all Q K (minus_strict (ensure (rows t) [tname t] comps) PX)) PX).
  { rewrite (rows_t_remove sn p PX Hwfn Hp HPXn), Hrn, Hrs, Hr1. reflexivity. }
  exists (t_remove p sn), [set_kids y []]. split; [|split; [exact Hrows2|split]].
  - unfold cs_core. change (dpiece c) with 0. rewrite Ha. change (f_mc (c_fl c)) with (f_mc fl). rewrite Hmc.
    unfold attach. change (c_copy c) with false. cbn [orb andb].
    rewrite fkids_cons0, Hks. change (f_dc (c_fl c)) with (f_dc fl). rewrite Hdc.
    assert (Ht1 : t1 = t_setk p K s).
    { unfold t_setk, s, t_strip. rewrite set_kids_set_kids, tkids_set_kids, fsetk_fsetk, (fsetk_id p _ _ Hks).
      symmetry. apply set_kids_id. }
    pose proof (mc_loop_spec (nroots c) [] p q Hp Hpq K s (child_refs (0 :: p) (length K)) (fun z => z) (map tname kq)
                  (length_child_refs _ _)) as Hloop.
    rewrite <- Ht1 in Hloop.
    assert (Hloop' := Hloop (fun i c0 Hc0 => child_refs_nth _ _ _ _ Hc0) (ex_intro _ PX HPXs) (ex_intro _ Q HQs) Hqn Hnd).
    fold (app_all q K s) in Hloop'. fold sn in Hloop'.
    match goal with |- context [mc_loop ?a ?b ?c0 ?d ?e ?g ?h] =>
      replace (mc_loop a b c0 d e g h) with ([t_setk p [] sn], @Ret ref (0 :: p)) by (symmetry; exact Hloop') end.
    assert (Hgm : tget (t_setk p [] sn) p = Some (set_kids y [])).
    { unfold tget, t_setk. rewrite tkids_set_kids. apply fget_fsetk_self. exact Hy. }
    pose proof (detach_in_tree (nroots c) (t_setk p [] sn) [] p (set_kids y []) Hp Hgm) as Hm.
    match goal with |- context [move ?a ?b ?c0 ?d] =>
      replace (move a b c0 d) with
        (MvOk ((t_remove p (t_setk p [] sn) :: []) ++ [set_kids y []]) (track (0 :: p) [1])) by (symmetry; exact Hm) end.
    cbn [app]. f_equal. f_equal. unfold t_remove, t_setk. rewrite set_kids_set_kids, tkids_set_kids.
    rewrite fremove_fsetk by exact Hp. reflexivity.
  - rewrite Hrows2.
    destruct (t_sub_rows t p x PX Hwf Hp Hx HPX) as [P0 [HP0 Hsub]].
    destruct (tpath_ext _ _ _ HPX) as [rest0 [HPe Hl]].
    assert (Hk2 : Nat.eqb (length PX) 1 = false).
    { apply Nat.eqb_neq. rewrite HPe. cbn [length]. destruct p; [congruence|cbn in Hl; lia]. }
    assert (Hneq : PX <> Q ++ [tname x]).
    { intros E. rewrite <- E in Habs. rewrite (t_has_row t p PX Hp HPX) in Habs. discriminate. }
    unfold edit_cs. rewrite Hk2. cbn [negb andb].
    rewrite removelast_last, !last_last. rewrite HP0 at 1. rewrite last_last, str_eqb_refl. cbn [negb].
    replace (path_eqb (Q ++ [tname x]) PX) with false.
    2: { symmetry. destruct (path_eqb (Q ++ [tname x]) PX) eqn:E; [|reflexivity]. apply path_eqb_eq in E. congruence. }
    rewrite (pfx_snoc_false PX Q (tname x) Hnotin Hneq). cbn [andb]. rewrite Habs.
    replace (Nat.ltb (length (Q ++ [tname x])) 2) with false.
    2: { symmetry. apply Nat.ltb_ge. rewrite app_length. unfold Q. cbn [length]. lia. }
    rewrite Hmc, Hdc.
    assert (He : ensure (rows t) [] Q = ensure (rows t) [tname t] comps).
    { unfold Q. cbn [ensure app]. rewrite has_root. reflexivity. }
    rewrite He.
    rewrite (t_child_rows t p x PX Hwf Hp Hx HPX), map_map. cbn [rpath fst].
    rewrite (map_ext_in _ (fun k => (S (length PX), rows_from PX k))).
    2: { intros k Hk. f_equal. apply (t_sub_rows_child t p x PX k Hwf Hp Hx HPX Hk). }
    rewrite (attach_items_children Q (length PX) K _) with (PX := PX); [reflexivity| |apply (wf_t_kids _ Hwfx)|reflexivity].
    intros k Hk. unfold minus_strict. apply has_filter_false.
    rewrite has_ensure_long; [apply Hkabs; exact Hk|]. unfold Q. rewrite app_length. cbn [length]. lia.
  - rewrite Hrows2. rewrite <- (minus_minus_strict (rows t) PX). apply subseq_filter_mono.
    eapply subseq_trans; [|apply subseq_ins_all]. apply subseq_filter_mono. apply subseq_ensure.
Qed.

(* ============================================================================================== *)
(* Part 14.  delete_children together with copy: the copy is made first, its children are dropped,  *)
(* the bare new node is attached; the original keeps its children.                                 *)

Lemma fget_piece a (t : tree) rest p : p <> [] -> fget (length a :: p) (a ++ t :: rest) = fget p (tkids t).
Proof. intros Hp. cbn [fget]. rewrite nth_error_mid. destruct p; [congruence|reflexivity]. Qed.

Lemma fremove_piece a (t : tree) rest p :
  p <> [] -> fremove (length a :: p) (a ++ t :: rest) = a ++ t_remove p t :: rest.
Proof. intros Hp. rewrite fremove_cons_ne by exact Hp. apply upd_nth_mid. Qed.

Lemma detach_in_piece nr a t rest p x :
  p <> [] -> tget t p = Some x ->
  move nr (a ++ t :: rest) (length a :: p) None
  = MvOk ((a ++ t_remove p t :: rest) ++ [x]) (track (length a :: p) [length (a ++ t_remove p t :: rest)]).
Proof.
  intros Hp Hx. unfold move. rewrite fget_piece by exact Hp. unfold tget in Hx. rewrite Hx.
  destruct p as [|j p]; [congruence|]. rewrite fremove_piece by discriminate. reflexivity.
Qed.

(* del x.children for a node of any piece *)
Lemma del_children_go_piece nr a ks : forall (t : tree) rest p done trk,
  p <> [] -> (exists P, tpath t p = Some P) ->
  exists trk',
    del_children_go nr (length ks) (a ++ t_setk p ks t :: rest ++ done) (length a :: p) trk
    = MvOk (a ++ t_setk p [] t :: rest ++ done ++ ks) trk'
    /\ (forall z, (is_prefix p z = false \/ z = p) -> trk (length a :: z) = length a :: z -> trk' (length a :: z) = length a :: z)
    /\ (forall i z, i < length a -> trk (i :: z) = i :: z -> trk' (i :: z) = i :: z).
Proof.
  induction ks as [|k0 ks IH]; intros t rest p done trk Hp [P HP].
  - exists trk. cbn. rewrite app_nil_r. split; [reflexivity|]. split; auto.
  - cbn [length del_children_go].
    set (t1 := t_setk p (k0 :: ks) t).
    assert (Hg : tget t1 (p ++ [0]) = Some k0).
    { unfold tget, t1, t_setk. rewrite tkids_set_kids. eapply fget_first_child; [exact HP|exact Hp]. }
    assert (Hne : p ++ [0] <> []) by (destruct p; discriminate).
    pose proof (detach_in_piece nr a t1 (rest ++ done) (p ++ [0]) k0 Hne Hg) as Hm.
    change ((length a :: p) ++ [0]) with (length a :: p ++ [0]).
    match goal with |- context [move ?x1 ?x2 ?x3 ?x4] =>
      replace (move x1 x2 x3 x4) with
        (MvOk ((a ++ t_remove (p ++ [0]) t1 :: rest ++ done) ++ [k0])
              (track (length a :: p ++ [0]) [length (a ++ t_remove (p ++ [0]) t1 :: rest ++ done)]))
        by (symmetry; exact Hm) end.
    assert (Ht1 : t_remove (p ++ [0]) t1 = t_setk p ks t).
    { unfold t_remove, t1, t_setk. rewrite set_kids_set_kids, tkids_set_kids, fremove_first_child. reflexivity. }
    rewrite Ht1.
    set (tk := track (length a :: p ++ [0]) [length (a ++ t_setk p ks t :: rest ++ done)]).
    replace ((a ++ t_setk p ks t :: rest ++ done) ++ [k0]) with (a ++ t_setk p ks t :: rest ++ (done ++ [k0]))
      by (rewrite <- !app_assoc; cbn [app]; rewrite <- !app_assoc; reflexivity).
    destruct (IH t rest p (done ++ [k0]) (fun z => tk (trk z)) Hp (ex_intro _ P HP)) as [trk' [Hgo [Hk1 Hk2]]].
    exists trk'. split; [rewrite Hgo; rewrite <- !app_assoc; reflexivity|]. split.
    + intros z Hz Htz. apply Hk1; [exact Hz|]. cbn beta. rewrite Htz. unfold tk, track.
      rewrite is_prefix_cons, Nat.eqb_refl. cbn [andb]. rewrite (is_prefix_child_false p z 0 Hz).
      unfold adj'. rewrite adj_cons_same by exact Hne.
      pose proof (adj'_child_removed p z 0 Hz) as E. unfold adj' in E.
      destruct (adj (p ++ [0]) z); cbn [option_map]; [rewrite E|]; reflexivity.
    + intros i z Hi Htz. apply Hk2; [exact Hi|]. cbn beta. rewrite Htz. unfold tk, track.
      rewrite is_prefix_cons. replace (Nat.eqb (length a) i) with false by (symmetry; apply Nat.eqb_neq; lia).
      cbn [andb]. unfold adj'. cbn [adj]. destruct (p ++ [0]) eqn:E; [destruct p; discriminate|].
      replace (Nat.eqb i (length a)) with false by (symmetry; apply Nat.eqb_neq; lia). reflexivity.
Qed.

Lemma t_setk_id p t ks : fkids p (tkids t) = Some ks -> t_setk p ks t = t.
Proof. intros H. unfold t_setk. rewrite (fsetk_id p _ _ H). apply set_kids_id. Qed.

Record dc_copy (c : cfg) : Prop := {
  dcc_copy : c_copy c = true;
  dcc_mc : f_mc (c_fl c) = false;
  dcc_ml : f_ml (c_fl c) = false;
  dcc_dc : f_dc (c_fl c) = true }.

Lemma fkids_retag p : forall (ks : forest), fkids p (map retag ks) = option_map (map retag) (fkids p ks).
Proof.
  induction p as [|i p IH]; intros ks; [reflexivity|]. cbn [fkids]. rewrite nth_error_map.
  destruct (nth_error ks i) as [t|]; [|reflexivity]. cbn [option_map]. rewrite tkids_retag. apply IH.
Qed.

Lemma fpath_retag p : forall pre (ks : forest), fpath pre p (map retag ks) = fpath pre p ks.
Proof.
  induction p as [|i p IH]; intros pre ks; [reflexivity|]. cbn [fpath]. rewrite nth_error_map.
  destruct (nth_error ks i) as [t|]; [|reflexivity]. cbn [option_map]. rewrite tname_retag, tkids_retag. apply IH.
Qed.

Lemma attach_dc_copy c t p q x ks :
  dc_copy c -> p <> [] -> tget t p = Some x -> (exists PX, tpath t p = Some PX) ->
  fkids q (tkids t) = Some ks -> (forall k, In k ks -> tname k <> tname x) ->
  exists rest,
  attach c false [t] (0 :: p) (Some (0 :: q)) = (t_append q (set_kids (retag x) []) t :: rest, None).
Proof.
  intros [Hc Hmc Hml Hdc] Hp Hx [PX HPX] Hks Hfresh. unfold attach. rewrite Hc, Hml, Hdc. cbn [orb andb negb].
  unfold copy_node. cbn [nth_error length option_map]. change ([t] ++ [retag t]) with [t; retag t].
  set (cp := retag t).
  assert (Hxc : tget cp p = Some (retag x)).
  { unfold tget, cp. rewrite tkids_retag, fget_retag. unfold tget in Hx. rewrite Hx. reflexivity. }
  assert (HPc : tpath cp p = Some PX).
  { unfold tpath, cp. rewrite tname_retag, tkids_retag, fpath_retag. exact HPX. }
  assert (Hkc : fkids p (tkids cp) = Some (tkids (retag x))).
  { rewrite fkids_fget by exact Hp. unfold tget in Hxc. rewrite Hxc. reflexivity. }
  unfold del_children.
  replace (fkids (1 :: p) [t; cp]) with (Some (tkids (retag x))) by (symmetry; exact Hkc).
  destruct (del_children_go_piece (nroots c) [t] (tkids (retag x)) cp [] p [] (fun z => z) Hp (ex_intro _ PX HPc))
    as [trk' [Hgo [Hk1 Hk2]]].
  rewrite (t_setk_id p cp _ Hkc) in Hgo. cbn [app length] in Hgo.
  match goal with |- context [del_children_go ?x1 ?x2 ?x3 ?x4 ?x5] =>
    replace (del_children_go x1 x2 x3 x4 x5) with (MvOk (t :: t_setk p [] cp :: tkids (retag x)) trk')
      by (symmetry; exact Hgo) end.
  cbn [length] in Hk1, Hk2.
  rewrite (Hk1 p (or_intror eq_refl) eq_refl). cbn [option_map]. rewrite (Hk2 0 q ltac:(lia) eq_refl).
  set (c1 := t_setk p [] cp). set (y := set_kids (retag x) []).
  assert (Hy : tget c1 p = Some y).
  { unfold tget, c1, t_setk. rewrite tkids_set_kids. apply fget_fsetk_self. exact Hxc. }
  unfold move.
  assert (Hg : fget (1 :: p) (t :: c1 :: tkids (retag x)) = Some y).
  { cbn [fget nth_error]. destruct p as [|j p]; [congruence|]. exact Hy. }
  rewrite Hg. cbn [is_prefix Nat.eqb andb].
  replace (fkids (0 :: q) (t :: c1 :: tkids (retag x))) with (Some ks) by (symmetry; exact Hks).
  unfold y at 1. rewrite tname_set_kids, tname_retag. rewrite dup_child_false by exact Hfresh.
  assert (Hprot : protected (nroots c) (1 :: p) = false) by (destruct p; [congruence|reflexivity]).
  rewrite Hprot.
  assert (Hadj : adj' (1 :: p) (0 :: q) = 0 :: q) by (unfold adj'; destruct p; [congruence|reflexivity]).
  rewrite Hadj.
  assert (Hrem : fremove (1 :: p) (t :: c1 :: tkids (retag x)) = t :: t_remove p c1 :: tkids (retag x))
    by (destruct p; [congruence|reflexivity]).
  rewrite Hrem.
  replace (fkids (0 :: q) (t :: t_remove p c1 :: tkids (retag x))) with (Some ks) by (symmetry; exact Hks).
  eexists. reflexivity.
Qed.

(* DESIGN.md "C08_delete_children" for copy_nodes *)
Theorem C08_delete_children_copy_stmt sep tsep fl t p x comps PX :
  f_mc fl = false -> f_ml fl = false -> f_dc fl = true -> wf_t t ->
  p <> [] -> tget t p = Some x -> tpath t p = Some PX ->
  (forall cc, In cc comps -> cc <> []) ->
  pfx PX (tname t :: comps) = false ->
  has (rows t) ((tname t :: comps) ++ [tname x]) = false ->
  exists t2 rest,
    cs_core (cfg_same true sep tsep fl) [t] (0 :: p) (TNew comps) = (t2 :: rest, None)
    /\ rows t2 = insert_last (ensure (rows t) [tname t] comps) (tname t :: comps)
                             [((tname t :: comps) ++ [tname x], None, tattrs x)]
    /\ edit_cs true true fl (rows t) (rows t) PX (Some ((tname t :: comps) ++ [tname x])) = PNext (rows t2) (rows t2)
    /\ subseq (rows t) (rows t2).
Proof.
  intros Hmc Hml Hdc Hwf Hp Hx HPX Hne Hnotin Habs. set (Q := tname t :: comps) in *.
  set (c := cfg_same true sep tsep fl).
  destruct (add_walk_spec comps [t] [0] [] [tname t] (wf_f_single _ Hwf) ltac:(discriminate) eq_refl Hne)
    as [f' [q [Ha [Hwf' [Hlen [Hrows [Hq [Hpre [Hfr1 Hfr2]]]]]]]]].
  destruct (forest1 f' Hlen) as [t1 ->].
  destruct q as [|q0 q]; [discriminate|]. cbn [is_prefix] in Hpre. rewrite andb_true_r in Hpre.
  apply Nat.eqb_eq in Hpre. subst q0.
  assert (Hwf1 : wf_t t1) by (destruct Hwf' as [_ Hf]; inversion Hf; assumption).
  assert (Hr1 : rows t1 = ensure (rows t) [tname t] comps).
  { unfold frows in Hrows. cbn [flat_map] in Hrows. rewrite !app_nil_r in Hrows. exact Hrows. }
  assert (HQ1 : tpath t1 q = Some Q) by exact Hq.
  assert (HPX1 : tpath t1 p = Some PX) by exact (Hfr2 (0 :: p) PX HPX).
  assert (Hpq : is_prefix p q = false).
  { destruct (is_prefix p q) eqn:E; [|reflexivity].
    rewrite (fpath_prefix_mono _ _ _ _ _ _ E HPX1 HQ1) in Hnotin. discriminate. }
  assert (Hx1 : tget t1 p = Some x).
  { unfold tget. rewrite <- (fget_cons0 p t1 []) by exact Hp. apply Hfr1.
    - rewrite is_prefix_cons. cbn. exact Hpq.
    - rewrite fget_cons0 by exact Hp. exact Hx. }
  destruct (fkids_of_fpath _ _ _ _ HQ1) as [ks Hks].
  assert (Hfresh : forall k, In k ks -> tname k <> tname x).
  { apply existsb_name_iff. rewrite <- (t_has_child t1 q Q ks (tname x) Hwf1 HQ1 Hks).
    rewrite Hr1, has_ensure_long; [exact Habs|]. unfold Q. rewrite app_length. cbn [length]. lia. }
  destruct (attach_dc_copy c t1 p q x ks) as [rest Hatt]; try assumption.
  { split; assumption || reflexivity. }
  { exists PX. exact HPX1. }
  assert (Hrows2 : rows (t_append q (set_kids (retag x) []) t1)
                   = insert_last (ensure (rows t) [tname t] comps) Q [(Q ++ [tname x], None, tattrs x)]).
  { rewrite (rows_t_append t1 q _ Q Hwf1 HQ1), Hr1, rows_from_eq, tname_set_kids, ttag_set_kids, tattrs_set_kids,
      tkids_set_kids, tname_retag. destruct x; reflexivity. }
  exists (t_append q (set_kids (retag x) []) t1), rest. split; [|split; [exact Hrows2|split]].
  - unfold cs_core. change (dpiece c) with 0. rewrite Ha. change (f_mc (c_fl c)) with (f_mc fl). rewrite Hmc.
    exact Hatt.
  - rewrite Hrows2.
    destruct (t_sub_rows t p x PX Hwf Hp Hx HPX) as [P0 [HP0 Hsub]].
    assert (Hk : length PX = S (length P0)) by (rewrite HP0, app_length; cbn; lia).
    assert (Hneq : PX <> Q ++ [tname x]).
    { intros E. rewrite <- E in Habs. rewrite (t_has_row t p PX Hp HPX) in Habs. discriminate. }
    unfold edit_cs. cbn [negb andb].
    rewrite removelast_last, !last_last. rewrite HP0 at 1. rewrite last_last, str_eqb_refl. cbn [negb].
    replace (path_eqb (Q ++ [tname x]) PX) with false.
    2: { symmetry. destruct (path_eqb (Q ++ [tname x]) PX) eqn:E; [|reflexivity]. apply path_eqb_eq in E. congruence. }
    rewrite (pfx_snoc_false PX Q (tname x) Hnotin Hneq). cbn [andb]. rewrite Habs.
    replace (Nat.ltb (length (Q ++ [tname x])) 2) with false.
    2: { symmetry. apply Nat.ltb_ge. rewrite app_length. unfold Q. cbn [length]. lia. }
    rewrite Hmc, Hml, Hdc.
    assert (He : ensure (rows t) [] Q = ensure (rows t) [tname t] comps).
    { unfold Q. cbn [ensure app]. rewrite has_root. reflexivity. }
    rewrite He. cbn [attach_items]. unfold reroot. cbn [fst snd].
    rewrite (t_row_at t p x PX Hwf Hp Hx HPX). cbn [map rpath rtag rattrs fst snd].
    rewrite Hk. cbn [Nat.sub]. rewrite Nat.sub_0_r.
    replace (skipn (length P0) PX) with [tname x] by (rewrite HP0, skipn_app_exact; reflexivity).
    rewrite has_ensure_long by (unfold Q; rewrite app_length; cbn [length]; lia). rewrite Habs.
    reflexivity.
  - rewrite Hrows2. apply untouched_copy.
Qed.

(* ============================================================================================== *)
(* Part 15.  replace_logic: the loop that re-appends the right siblings (modify.py:1355-1361).      *)
(* Seen from the parent, each iteration moves one child to the end of the children list.            *)

Definition adj_idx (e k : nat) : nat := if Nat.ltb e k then Nat.pred k else k.

(* fuel = number of indices left *)
Fixpoint mte_go {A} (fuel : nat) (cur : list A) (idxs : list nat) : list A :=
  match fuel, idxs with
  | S f, e :: r => match nth_error cur e with
                   | Some k => mte_go f (del_nth e cur ++ [k]) (map (adj_idx e) r)
                   | None => cur
                   end
  | _, _ => cur
  end.
Definition mte_run {A} (cur : list A) (idxs : list nat) : list A := mte_go (length idxs) cur idxs.

Fixpoint mte_ok_go (fuel n : nat) (idxs : list nat) : Prop :=
  match fuel, idxs with
  | S f, e :: r => e < n /\ ~ In e r /\ mte_ok_go f n (map (adj_idx e) r)
  | _, _ => True
  end.
Definition mte_ok (n : nat) (idxs : list nat) : Prop := mte_ok_go (length idxs) n idxs.

Lemma mte_run_cons {A} (cur : list A) e r k :
  nth_error cur e = Some k -> mte_run cur (e :: r) = mte_run (del_nth e cur ++ [k]) (map (adj_idx e) r).
Proof. intros H. unfold mte_run. cbn [length mte_go]. rewrite H, map_length. reflexivity. Qed.

Lemma mte_ok_cons n e r : mte_ok n (e :: r) -> e < n /\ ~ In e r /\ mte_ok n (map (adj_idx e) r).
Proof. unfold mte_ok. cbn [length mte_ok_go]. rewrite map_length. auto. Qed.

Lemma fget_fsetk_child par : forall (f : forest) ks e pre P,
  fpath pre par f = Some P -> fget (par ++ [e]) (fsetk par ks f) = nth_error ks e.
Proof.
  induction par as [|i par IH]; intros f ks e pre P HP.
  - cbn. destruct (nth_error ks e); reflexivity.
  - cbn [fpath] in HP. destruct (nth_error f i) as [t|] eqn:Et; [|discriminate].
    cbn [app fsetk fget]. rewrite nth_error_upd_nth, Nat.eqb_refl, Et. cbn [option_map].
    rewrite tkids_set_kids. destruct (par ++ [e]) eqn:E; [destruct par; discriminate|]. rewrite <- E.
    eapply IH. exact HP.
Qed.

Lemma fremove_fsetk_child par : forall (f : forest) ks e,
  fremove (par ++ [e]) (fsetk par ks f) = fsetk par (del_nth e ks) f.
Proof.
  induction par as [|i par IH]; intros f ks e; [reflexivity|].
  cbn [app fsetk]. rewrite fremove_cons_ne by (destruct par; discriminate).
  rewrite upd_nth_upd_nth. apply upd_nth_ext. intros t. rewrite set_kids_set_kids, tkids_set_kids, IH. reflexivity.
Qed.

Lemma fappend_fsetk_self par : forall (f : forest) ks k,
  fappend par k (fsetk par ks f) = fsetk par (ks ++ [k]) f.
Proof.
  induction par as [|i par IH]; intros f ks k; [reflexivity|].
  cbn [fappend fsetk]. rewrite upd_nth_upd_nth. apply upd_nth_ext. intros t.
  rewrite set_kids_set_kids, tkids_set_kids, IH. reflexivity.
Qed.

Lemma fkids_fsetk_self par : forall (f : forest) ks pre P,
  fpath pre par f = Some P -> fkids par (fsetk par ks f) = Some ks.
Proof.
  induction par as [|i par IH]; intros f ks pre P HP; [reflexivity|].
  cbn [fpath] in HP. destruct (nth_error f i) as [t|] eqn:Et; [|discriminate].
  cbn [fsetk fkids]. rewrite nth_error_upd_nth, Nat.eqb_refl, Et. cbn [option_map]. rewrite tkids_set_kids.
  eapply IH. exact HP.
Qed.

Lemma adj'_sibling p : forall e e', e <> e' -> adj' (p ++ [e]) (p ++ [e']) = p ++ [adj_idx e e'].
Proof.
  induction p as [|a p IH]; intros e e' Hne.
  - unfold adj', adj_idx. cbn [app adj]. destruct (Nat.eqb e' e) eqn:E; [apply Nat.eqb_eq in E; congruence|].
    reflexivity.
  - cbn [app]. unfold adj'. rewrite adj_cons_same by (destruct p; discriminate).
    specialize (IH e e' Hne). unfold adj' in IH.
    destruct (adj (p ++ [e]) (p ++ [e'])); cbn [option_map]; rewrite IH; reflexivity.
Qed.

Lemma NoDup_names_move (cur : list tree) e k :
  nth_error cur e = Some k -> NoDup (map tname cur) -> NoDup (map tname (del_nth e cur ++ [k])).
Proof.
  revert e; induction cur as [|c cur IH]; intros e He Hn; [destruct e; discriminate|].
  cbn [map] in Hn. inversion Hn as [|? ? Hnotin Hn']; subst. destruct e as [|e]; cbn in *.
  - inversion He; subst. rewrite map_app. cbn [map]. apply NoDup_app_snoc; assumption.
  - constructor.
    + rewrite map_app. cbn [map]. intros Hin. apply in_app_or in Hin as [Hin|[E|[]]].
      * apply Hnotin. clear -Hin. revert e Hin. induction cur as [|u cur IHc]; intros e Hin; [exact Hin|].
        destruct e; cbn in *; [right; exact Hin|]. destruct Hin as [E|Hin]; [left; exact E|right; eapply IHc; exact Hin].
      * apply Hnotin. rewrite <- E. apply in_map. eapply nth_error_In. exact He.
    + apply IH; assumption.
Qed.

Lemma del_nth_last {A} (l : list A) x : del_nth (length l) (l ++ [x]) = l.
Proof. induction l as [|y l IH]; cbn; [reflexivity|]. rewrite IH. reflexivity. Qed.

Lemma nth_error_del_names (cur : list tree) e k k' :
  NoDup (map tname cur) -> nth_error cur e = Some k -> In k' (del_nth e cur) -> tname k' <> tname k.
Proof.
  revert e; induction cur as [|c cur IH]; intros e Hn He Hin; [destruct e; discriminate|].
  cbn [map] in Hn. inversion Hn as [|? ? Hnotin Hn']; subst. destruct e as [|e]; cbn in *.
  - inversion He; subst. intros E. apply Hnotin. rewrite <- E. apply in_map. exact Hin.
  - destruct Hin as [<-|Hin].
    + intros E. apply Hnotin. rewrite E. apply in_map. eapply nth_error_In. exact He.
    + eapply IH; eassumption.
Qed.

(* the tail of the loop: every remaining right sibling is detached and re-appended *)
Lemma rp_tail nr a par : nr <= S (length a) ->
  forall idxs (t : tree) rest cur sibs trk fr,
  (exists P, tpath t par = Some P) -> NoDup (map tname cur) ->
  mte_ok (length cur) idxs ->
  map trk sibs = map (fun e => length a :: par ++ [e]) idxs ->
  exists rest',
    rp_loop nr (a ++ t_setk par cur t :: rest) false sibs trk fr (length a :: par)
    = (a ++ t_setk par (mte_run cur idxs) t :: rest', None).
Proof.
  intros Hnr idxs0. remember (length idxs0) as n0 eqn:Hn0. revert idxs0 Hn0.
  induction n0 as [|n0 IH]; intros idxs0 Hn0 t rest cur sibs trk fr [P HP] Hnd Hok Htrk.
  - destruct idxs0; [|discriminate]. destruct sibs; [|discriminate]. exists rest. reflexivity.
  - destruct idxs0 as [|e idxs]; [discriminate|]. cbn [length] in Hn0. injection Hn0 as Hn0.
    destruct sibs as [|s sibs]; [discriminate|]. cbn [rp_loop]. cbn [map] in Htrk. injection Htrk as Htrk0 Htrk.
    apply mte_ok_cons in Hok as [He [Hnin Hok]].
    destruct (nth_error cur e) as [k|] eqn:Ek; [|apply nth_error_None in Ek; lia].
    rewrite (mte_run_cons cur e idxs k Ek).
    rewrite Htrk0.
    set (T1 := t_setk par cur t). set (ka := length a).
    assert (Hne : par ++ [e] <> []) by (destruct par; discriminate).
    assert (Hg : tget T1 (par ++ [e]) = Some k).
    { unfold tget, T1, t_setk. rewrite tkids_set_kids. rewrite (fget_fsetk_child par _ cur e _ _ HP). exact Ek. }
    pose proof (detach_in_piece nr a T1 rest (par ++ [e]) k Hne Hg) as Hm. fold ka in Hm.
    match goal with |- context [move ?x1 ?x2 ?x3 None] =>
      replace (move x1 x2 x3 None) with
        (MvOk ((a ++ t_remove (par ++ [e]) T1 :: rest) ++ [k])
              (track (ka :: par ++ [e]) [length (a ++ t_remove (par ++ [e]) T1 :: rest)]))
        by (symmetry; exact Hm) end.
    assert (HT2 : t_remove (par ++ [e]) T1 = t_setk par (del_nth e cur) t).
    { unfold t_remove, T1, t_setk. rewrite set_kids_set_kids, tkids_set_kids, fremove_fsetk_child. reflexivity. }
    rewrite HT2. set (T2 := t_setk par (del_nth e cur) t).
    set (F1 := a ++ T2 :: rest). set (N := length F1).
    set (tkA := track (ka :: par ++ [e]) [N]).
    assert (HN : ka < N) by (unfold N, F1, ka; rewrite app_length; cbn; lia).
    assert (HtkA_self : tkA (ka :: par ++ [e]) = [N]).
    { unfold tkA, track. rewrite is_prefix_refl, skipn_all. apply app_nil_r. }
    assert (HtkA_par : tkA (ka :: par) = ka :: par).
    { unfold tkA, track. rewrite is_prefix_cons, Nat.eqb_refl. cbn [andb].
      rewrite (is_prefix_child_false par par e (or_intror eq_refl)).
      unfold adj'. rewrite adj_cons_same by exact Hne.
      pose proof (adj'_child_removed par par e (or_intror eq_refl)) as E. unfold adj' in E.
      destruct (adj (par ++ [e]) par); cbn [option_map]; [rewrite E|]; reflexivity. }
    change (ka :: par ++ [e]) with (ka :: (par ++ [e])) in *.
    cbn beta iota. rewrite HtkA_self, HtkA_par.
    (* second assignment: the detached sibling, now the last piece, goes back under par *)
    assert (Hmv : exists len, move nr (F1 ++ [k]) [N] (Some (ka :: par))
                   = MvOk (a ++ t_setk par (del_nth e cur ++ [k]) t :: rest) (track [N] ((ka :: par) ++ [len]))).
    { unfold move. cbn [fget]. unfold N at 1. rewrite nth_error_app2 by lia. rewrite Nat.sub_diag. cbn [nth_error].
      cbn [is_prefix]. replace (Nat.eqb N ka) with false by (symmetry; apply Nat.eqb_neq; lia). cbn [andb].
      assert (Hk2 : fkids (ka :: par) (F1 ++ [k]) = Some (del_nth e cur)).
      { cbn [fkids]. unfold F1, ka. rewrite <- app_assoc. cbn [app]. rewrite nth_error_mid.
        unfold T2, t_setk. rewrite tkids_set_kids. eapply fkids_fsetk_self. exact HP. }
      rewrite Hk2. cbn [parent_ref opt_eqb].
      rewrite dup_child_false by (intros k' Hk'; eapply nth_error_del_names; eassumption).
      replace (protected nr [N]) with false by (symmetry; cbn; apply Nat.ltb_ge; unfold N, F1; rewrite app_length; cbn; lia).
      assert (Hrm : fremove [N] (F1 ++ [k]) = F1) by (cbn [fremove]; apply del_nth_last).
      rewrite Hrm.
      assert (Hadj : adj' [N] (ka :: par) = ka :: par).
      { unfold adj'. cbn [adj]. replace (Nat.eqb ka N) with false by (symmetry; apply Nat.eqb_neq; lia).
        replace (Nat.ltb N ka) with false by (symmetry; apply Nat.ltb_ge; lia). reflexivity. }
      rewrite Hadj.
      assert (Hk3 : fkids (ka :: par) F1 = Some (del_nth e cur)).
      { cbn [fkids]. unfold F1, ka. rewrite nth_error_mid.
        unfold T2, t_setk. rewrite tkids_set_kids. eapply fkids_fsetk_self. exact HP. }
      rewrite Hk3. exists (length (del_nth e cur)). f_equal.
      cbn [fappend]. unfold F1, ka. rewrite upd_nth_mid. f_equal. f_equal.
      unfold T2, t_setk. rewrite set_kids_set_kids, tkids_set_kids, fappend_fsetk_self. reflexivity. }
    destruct Hmv as [len Hmv].
    match goal with |- context [move ?x1 ?x2 ?x3 ?x4] =>
      replace (move x1 x2 x3 x4) with
        (MvOk (a ++ t_setk par (del_nth e cur ++ [k]) t :: rest) (track [N] ((ka :: par) ++ [len])))
        by (symmetry; exact Hmv) end.
    cbn beta iota.
    set (tkB := track [N] ((ka :: par) ++ [len])).
    assert (HtkB : forall z, tkB (ka :: z) = ka :: z).
    { intros z. unfold tkB, track. cbn [is_prefix]. replace (Nat.eqb N ka) with false by (symmetry; apply Nat.eqb_neq; lia).
      cbn [andb]. unfold adj'. cbn [adj]. replace (Nat.eqb ka N) with false by (symmetry; apply Nat.eqb_neq; lia).
      replace (Nat.ltb N ka) with false by (symmetry; apply Nat.ltb_ge; lia). reflexivity. }
    rewrite HtkB.
    destruct (IH (map (adj_idx e) idxs) ltac:(rewrite map_length; exact Hn0)
                 t rest (del_nth e cur ++ [k]) sibs (fun z => tkB (tkA (trk z))) (tkB (tkA fr)))
      as [rest' Hgo].
    + exists P. exact HP.
    + eapply NoDup_names_move; eassumption.
    + replace (length (del_nth e cur ++ [k])) with (length cur); [exact Hok|].
      rewrite app_length. cbn [length]. pose proof (length_del_nth cur e He). lia.
    + rewrite <- (map_map trk (fun z => tkB (tkA z))), Htrk, !map_map. apply map_ext_in. intros e0 He0.
      assert (Hne0 : e <> e0) by (intros ->; apply Hnin; exact He0).
      assert (HA : tkA (ka :: par ++ [e0]) = ka :: par ++ [adj_idx e e0]).
      { unfold tkA, track. change (ka :: par ++ [e0]) with (ka :: (par ++ [e0])).
        rewrite is_prefix_cons, Nat.eqb_refl. cbn [andb].
        rewrite is_prefix_sibling_false by exact Hne0. unfold adj'. rewrite adj_cons_same by exact Hne.
        pose proof (adj'_sibling par e e0 Hne0) as E. unfold adj' in E.
        destruct (adj (par ++ [e]) (par ++ [e0])); cbn [option_map]; rewrite E; reflexivity. }
      fold ka. change (ka :: par ++ [e0]) with (ka :: (par ++ [e0])) in *. rewrite HA. apply HtkB.
    + exists rest'. exact Hgo.
Qed.

Ltac lens := repeat (rewrite ?app_length; cbn [length]); rewrite ?app_length.

(* -- the abstract list machine -------------------------------------------------------------------- *)

Lemma map_adj_seq_gt e : forall n a, e < a -> map (adj_idx e) (seq a n) = seq (Nat.pred a) n.
Proof.
  induction n as [|n IH]; intros a Ha; [reflexivity|]. cbn [seq map]. unfold adj_idx at 1.
  replace (Nat.ltb e a) with true by (symmetry; apply Nat.ltb_lt; exact Ha).
  rewrite IH by lia. destruct a; [lia|reflexivity].
Qed.

Lemma map_adj_seq_le e : forall n a, a + n <= S e -> map (adj_idx e) (seq a n) = seq a n.
Proof.
  induction n as [|n IH]; intros a Ha; [reflexivity|]. cbn [seq map]. unfold adj_idx at 1.
  replace (Nat.ltb e a) with false by (symmetry; apply Nat.ltb_ge; lia). rewrite IH by lia. reflexivity.
Qed.

Lemma nth_error_mid2 {A} (a b c : list A) x : nth_error (a ++ b ++ x :: c) (length a + length b) = Some x.
Proof. rewrite app_assoc, <- app_length. apply nth_error_mid. Qed.
Lemma del_nth_mid2 {A} (a b c : list A) x : del_nth (length a + length b) (a ++ b ++ x :: c) = a ++ b ++ c.
Proof. rewrite app_assoc, <- app_length, del_nth_mid, <- app_assoc. reflexivity. Qed.

Lemma mte_ok_nil n : mte_ok n [].
Proof. exact I. Qed.

Lemma mte_ok_intro n e r : e < n -> ~ In e r -> mte_ok n (map (adj_idx e) r) -> mte_ok n (e :: r).
Proof. intros H1 H2 H3. unfold mte_ok in *. cbn [length mte_ok_go]. rewrite map_length in H3. auto. Qed.

Lemma mte_seq {A} (L : list A) : forall R E,
  mte_run (L ++ R ++ E) (seq (length L) (length R)) = L ++ E ++ R
  /\ mte_ok (length (L ++ R ++ E)) (seq (length L) (length R)).
Proof.
  induction R as [|r R IH]; intros E.
  - cbn. rewrite app_nil_r. split; [reflexivity|exact I].
  - cbn [length seq]. assert (Hn : nth_error (L ++ (r :: R) ++ E) (length L) = Some r) by apply nth_error_mid.
    destruct (IH (E ++ [r])) as [H1 H2]. split.
    + rewrite (mte_run_cons _ _ _ _ Hn). cbn [app]. rewrite del_nth_mid.
      rewrite map_adj_seq_gt by lia. cbn [Nat.pred]. rewrite <- !app_assoc. rewrite <- !app_assoc in H1.
      rewrite H1. reflexivity.
    + apply mte_ok_intro.
      * lens. lia.
      * intros Hin. apply in_seq in Hin. lia.
      * rewrite map_adj_seq_gt by lia. cbn [Nat.pred].
        match goal with |- mte_ok ?n0 _ => replace n0 with (length (L ++ R ++ E ++ [r])) by (lens; lia) end. exact H2.
Qed.

(* the replacing node was itself a right sibling: after its first move it sits at the end (F), the right
   siblings before it are R1, those behind it M; Dn have already been re-appended *)
Lemma mte_right_sibling {A} (L M : list A) (F : A) : forall R1 Dn,
  let idxs := seq (length L) (length R1) ++ (length L + length R1 + length M) :: seq (length L + length R1) (length M) in
  mte_run (L ++ R1 ++ M ++ [F] ++ Dn) idxs = L ++ Dn ++ R1 ++ [F] ++ M
  /\ mte_ok (length (L ++ R1 ++ M ++ [F] ++ Dn)) idxs.
Proof.
  induction R1 as [|r R1 IH]; intros Dn idxs; unfold idxs; clear idxs.
  - cbn [length seq app]. rewrite !Nat.add_0_r.
    assert (Hn : nth_error (L ++ M ++ F :: Dn) (length L + length M) = Some F) by apply nth_error_mid2.
    destruct (mte_seq L M (Dn ++ [F])) as [H1 H2]. split.
    + rewrite (mte_run_cons _ _ _ _ Hn). rewrite del_nth_mid2.
      rewrite map_adj_seq_le by lia. rewrite <- !app_assoc. rewrite <- !app_assoc in H1. rewrite H1. reflexivity.
    + apply mte_ok_intro.
      * lens. lia.
      * intros Hin. apply in_seq in Hin. lia.
      * rewrite map_adj_seq_le by lia.
        match goal with |- mte_ok ?n0 _ => replace n0 with (length (L ++ M ++ Dn ++ [F])) by (lens; lia) end. exact H2.
  - cbn [length seq app].
    assert (Hn : nth_error (L ++ r :: R1 ++ M ++ [F] ++ Dn) (length L) = Some r) by apply nth_error_mid.
    destruct (IH (Dn ++ [r])) as [H1 H2]. split.
    + rewrite (mte_run_cons _ _ _ _ Hn). rewrite del_nth_mid.
      rewrite map_app. cbn [map]. rewrite !map_adj_seq_gt by lia. cbn [Nat.pred].
      unfold adj_idx at 1. replace (Nat.ltb (length L) (length L + S (length R1) + length M)) with true
        by (symmetry; apply Nat.ltb_lt; lia).
      replace (Nat.pred (length L + S (length R1) + length M)) with (length L + length R1 + length M) by lia.
      replace (Nat.pred (length L + S (length R1))) with (length L + length R1) by lia.
      rewrite <- !app_assoc. cbn [app]. rewrite <- !app_assoc in H1. cbn [app] in H1. rewrite H1. reflexivity.
    + apply mte_ok_intro.
      * lens. lia.
      * intros Hin. apply in_app_or in Hin as [Hin|[Hin|Hin]]; [apply in_seq in Hin; lia|lia|apply in_seq in Hin; lia].
      * rewrite map_app. cbn [map]. rewrite !map_adj_seq_gt by lia. cbn [Nat.pred].
        unfold adj_idx at 1. replace (Nat.ltb (length L) (length L + S (length R1) + length M)) with true
          by (symmetry; apply Nat.ltb_lt; lia).
        replace (Nat.pred (length L + S (length R1) + length M)) with (length L + length R1 + length M) by lia.
        replace (Nat.pred (length L + S (length R1))) with (length L + length R1) by lia.
        match goal with |- mte_ok ?n0 _ => replace n0 with (length (L ++ R1 ++ M ++ [F] ++ Dn ++ [r])) by (lens; lia) end. exact H2.
Qed.

(* -- shift_and_replace_nodes when the replacing node is a sibling of the replaced one ------------- *)

Lemma dup_child_skip (cur : list tree) : forall e k i0,
  NoDup (map tname cur) -> nth_error cur e = Some k -> dup_child (tname k) (Some (i0 + e)) i0 cur = false.
Proof.
  induction cur as [|c cur IH]; intros e k i0 Hn He; [reflexivity|]. cbn [map] in Hn.
  inversion Hn as [|? ? Hnotin Hn']; subst. cbn [dup_child]. destruct e as [|e]; cbn in He.
  - inversion He; subst. rewrite Nat.add_0_r. cbn [opt_eqb]. rewrite Nat.eqb_refl. cbn [negb]. rewrite andb_false_r.
    cbn [orb]. apply dup_child_false. intros k' Hk' E. apply Hnotin. rewrite <- E. apply in_map. exact Hk'.
  - replace (str_eqb (tname c) (tname k)) with false.
    + cbn [andb orb]. replace (i0 + S e) with (S i0 + e) by lia. apply IH; assumption.
    + symmetry. apply str_eqb_neq. intros E. apply Hnotin. rewrite E. apply in_map. eapply nth_error_In. exact He.
Qed.

Lemma removelast_snoc_cons {A} (a : A) l x : removelast (a :: l ++ [x]) = a :: l.
Proof. change (a :: l ++ [x]) with ((a :: l) ++ [x]). apply removelast_last. Qed.

Lemma last_snoc_cons {A} (a : A) l x d : last (a :: l ++ [x]) d = x.
Proof. change (a :: l ++ [x]) with ((a :: l) ++ [x]). apply last_last. Qed.

Lemma ref_eqb_refl r : ref_eqb r r = true.
Proof. unfold ref_eqb. induction r; cbn; [reflexivity|]. rewrite Nat.eqb_refl. exact IHr. Qed.

(* x.parent = x.parent: the node becomes the last child *)
Lemma move_same_parent nr a par (t : tree) rest cur e k :
  (exists P, tpath t par = Some P) -> NoDup (map tname cur) -> nth_error cur e = Some k ->
  move nr (a ++ t_setk par cur t :: rest) (length a :: par ++ [e]) (Some (length a :: par))
  = MvOk (a ++ t_setk par (del_nth e cur ++ [k]) t :: rest)
         (track (length a :: par ++ [e]) ((length a :: par) ++ [length (del_nth e cur)])).
Proof.
  intros [P HP] Hnd Hk. set (T1 := t_setk par cur t).
  assert (Hne : par ++ [e] <> []) by (destruct par; discriminate).
  unfold move. change ((length a) :: par ++ [e]) with ((length a) :: (par ++ [e])).
  rewrite fget_piece by exact Hne. unfold T1, t_setk. rewrite tkids_set_kids.
  rewrite (fget_fsetk_child par _ cur e _ _ HP), Hk.
  rewrite is_prefix_cons, Nat.eqb_refl. cbn [andb]. rewrite (is_prefix_child_false par par e (or_intror eq_refl)).
  assert (Hk1 : fkids ((length a) :: par) (a ++ set_kids t (fsetk par cur (tkids t)) :: rest) = Some cur).
  { cbn [fkids]. rewrite nth_error_mid, tkids_set_kids. eapply fkids_fsetk_self. exact HP. }
  rewrite Hk1.
  assert (Hpr : parent_ref ((length a) :: (par ++ [e])) = Some ((length a) :: par)).
  { unfold parent_ref. destruct (par ++ [e]) eqn:E; [congruence|]. rewrite <- E. rewrite removelast_snoc_cons. reflexivity. }
  rewrite Hpr. cbn [opt_eqb]. rewrite ref_eqb_refl. rewrite last_snoc_cons.
  pose proof (dup_child_skip cur e k 0 Hnd Hk) as Hdup. cbn [Nat.add] in Hdup. rewrite Hdup.
  replace (protected nr ((length a) :: (par ++ [e]))) with false by (destruct (par ++ [e]); [congruence|reflexivity]).
  fold (t_setk par cur t). fold T1. rewrite fremove_piece by exact Hne.
  assert (HT2 : t_remove (par ++ [e]) T1 = t_setk par (del_nth e cur) t).
  { unfold t_remove, T1, t_setk. rewrite set_kids_set_kids, tkids_set_kids, fremove_fsetk_child. reflexivity. }
  rewrite HT2.
  assert (Hadj : adj' ((length a) :: (par ++ [e])) ((length a) :: par) = (length a) :: par).
  { unfold adj'. rewrite adj_cons_same by exact Hne.
    pose proof (adj'_child_removed par par e (or_intror eq_refl)) as E. unfold adj' in E.
    destruct (adj (par ++ [e]) par); cbn [option_map]; [rewrite E|]; reflexivity. }
  rewrite Hadj.
  assert (Hk2 : fkids ((length a) :: par) (a ++ t_setk par (del_nth e cur) t :: rest) = Some (del_nth e cur)).
  { cbn [fkids]. rewrite nth_error_mid. unfold t_setk. rewrite tkids_set_kids.
    eapply fkids_fsetk_self. exact HP. }
  rewrite Hk2. f_equal. cbn [fappend]. rewrite upd_nth_mid. f_equal. f_equal.
  unfold t_setk. rewrite set_kids_set_kids, tkids_set_kids, fappend_fsetk_self. reflexivity.
Qed.

Record plain_replace (c : cfg) : Prop := {
  pr_copy : c_copy c = false;
  pr_two : c_two c = false;
  pr_dc : f_dc (c_fl c) = false }.

(* the frame of rp_core when nothing is copied or deleted: the loop starts at the replaced node *)
Lemma rp_core_unfold c (t : tree) p par i ks :
  plain_replace c -> ref_eqb (0 :: p) (0 :: par ++ [i]) = false -> fkids par (tkids t) = Some ks ->
  rp_core c [t] (0 :: p) (0 :: par ++ [i])
  = rp_loop (nroots c) [t] true (map (fun j => (0 :: par) ++ [j]) (seq i (length ks - i))) (fun z => z) (0 :: p) (0 :: par).
Proof.
  intros [Hc Htwo Hdc] Hne Hks. unfold rp_core. rewrite Hne, Hc, Hdc. cbn beta iota.
  assert (Hpr : parent_ref (0 :: par ++ [i]) = Some (0 :: par)).
  { unfold parent_ref. destruct (par ++ [i]) eqn:E; [destruct par; discriminate|]. rewrite <- E.
    rewrite removelast_snoc_cons. reflexivity. }
  rewrite Hpr. rewrite fkids_cons0, Hks. rewrite last_snoc_cons. reflexivity.
Qed.

Lemma sibling_refs_neq par i j : i <> j -> ref_eqb (0 :: par ++ [j]) (0 :: par ++ [i]) = false.
Proof.
  intros H. destruct (ref_eqb (0 :: par ++ [j]) (0 :: par ++ [i])) eqn:E; [|reflexivity].
  assert (0 :: par ++ [j] = 0 :: par ++ [i]).
  { unfold ref_eqb in E. revert E. generalize (0 :: par ++ [j]) (0 :: par ++ [i]).
    induction l as [|x l IH]; intros [|y l'] E; cbn in E; try discriminate; [reflexivity|].
    apply andb_true_iff in E as [E1 E2]. apply Nat.eqb_eq in E1. subst. f_equal. apply IH. exact E2. }
  inversion H0 as [H1]. apply app_inj_tail in H1 as [_ H1]. congruence.
Qed.

Lemma track_self x nx : track x nx x = nx.
Proof. unfold track. rewrite is_prefix_refl, skipn_all. apply app_nil_r. Qed.

Lemma track_sibling0 par e nx e' : e <> e' ->
  track (0 :: par ++ [e]) nx (0 :: par ++ [e']) = 0 :: par ++ [adj_idx e e'].
Proof.
  intros Hne. change (0 :: par ++ [e]) with (0 :: (par ++ [e])). change (0 :: par ++ [e']) with (0 :: (par ++ [e'])).
  rewrite track_cons0; [|destruct par; discriminate|apply is_prefix_sibling_false; exact Hne].
  rewrite adj'_sibling by exact Hne. reflexivity.
Qed.

Lemma track_parent0 par e nx : track (0 :: par ++ [e]) nx (0 :: par) = 0 :: par.
Proof.
  change (0 :: par ++ [e]) with (0 :: (par ++ [e])).
  rewrite track_cons0; [|destruct par; discriminate|apply is_prefix_child_false; right; reflexivity].
  rewrite adj'_child_removed by (right; reflexivity). reflexivity.
Qed.

(* DESIGN.md "C08_replace_position", the replacing node F is a RIGHT sibling of the replaced node D
   (children of their parent: L ++ D :: R1 ++ F :: R2): D is detached, F is re-appended twice and every
   other right sibling once — F ends up where it was; the result is simply the tree without D. *)
Theorem replace_right_sibling c t par L D R1 F R2 :
  plain_replace c -> (exists P, tpath t par = Some P) ->
  fkids par (tkids t) = Some (L ++ D :: R1 ++ F :: R2) -> NoDup (map tname (L ++ D :: R1 ++ F :: R2)) ->
  exists rest,
    rp_core c [t] (0 :: par ++ [length L + S (length R1)]) (0 :: par ++ [length L])
    = (t_remove (par ++ [length L]) t :: rest, None).
Proof.
  intros Hpr HP Hks Hnd. set (j := length L + S (length R1)). set (i := length L) in |- * at 1.
  assert (Hij : j <> i) by (unfold i, j; lia).
  rewrite (rp_core_unfold c t (par ++ [j]) par i _ Hpr (sibling_refs_neq par i j (not_eq_sym Hij)) Hks).
  assert (Hlen : length (L ++ D :: R1 ++ F :: R2) - i = S (length R1 + S (length R2))) by (unfold i; lens; lia).
  rewrite Hlen. cbn [seq map rp_loop].
  assert (Ht : t = t_setk par (L ++ D :: R1 ++ F :: R2) t) by (symmetry; apply t_setk_id; exact Hks).
  set (nr := nroots c).
  (* D.parent = None *)
  assert (HgD : tget t (par ++ [i]) = Some D).
  { unfold tget. eapply fget_snoc; [exact Hks|]. unfold i. apply nth_error_mid. }
  pose proof (detach_in_tree nr t [] (par ++ [i]) D ltac:(destruct par; discriminate) HgD) as Hm1.
  change ((0 :: par) ++ [i]) with (0 :: par ++ [i]).
  match goal with |- context [move ?x1 ?x2 ?x3 None] =>
    replace (move x1 x2 x3 None) with (MvOk ((t_remove (par ++ [i]) t :: []) ++ [D]) (track (0 :: par ++ [i]) [1]))
      by (symmetry; exact Hm1) end.
  cbn [app]. cbn beta iota.
  assert (Hta : t_remove (par ++ [i]) t = t_setk par (L ++ R1 ++ F :: R2) t).
  { rewrite Ht at 1. unfold t_remove, t_setk. rewrite set_kids_set_kids, tkids_set_kids, fremove_fsetk_child.
    unfold i. rewrite del_nth_mid. reflexivity. }
  rewrite Hta.
  rewrite (track_sibling0 par i [1] j (not_eq_sym Hij)), track_parent0.
  assert (Hj' : adj_idx i j = length L + length R1).
  { unfold adj_idx, i, j. replace (Nat.ltb (length L) (length L + S (length R1))) with true
      by (symmetry; apply Nat.ltb_lt; lia). lia. }
  rewrite Hj'.
  (* F.parent = parent *)
  assert (Hnd1 : NoDup (map tname (L ++ R1 ++ F :: R2))).
  { rewrite map_app in Hnd. cbn [map] in Hnd. apply NoDup_remove_1 in Hnd. rewrite <- map_app in Hnd. exact Hnd. }
  pose proof (move_same_parent nr [] par t [D] (L ++ R1 ++ F :: R2) (length L + length R1) F HP Hnd1
                (nth_error_mid2 L R1 R2 F)) as Hm2.
  cbn [app length] in Hm2. rewrite del_nth_mid2 in Hm2.
  match goal with |- context [move ?x1 ?x2 ?x3 ?x4] =>
    replace (move x1 x2 x3 x4) with
      (MvOk [t_setk par ((L ++ R1 ++ R2) ++ [F]) t; D]
            (track (0 :: par ++ [length L + length R1]) ((0 :: par) ++ [length (L ++ R1 ++ R2)])))
      by (symmetry; exact Hm2) end.
  cbn beta iota.
  set (tk1 := track (0 :: par ++ [i]) [1]).
  set (tk2 := track (0 :: par ++ [length L + length R1]) ((0 :: par) ++ [length (L ++ R1 ++ R2)])).
  assert (Hpar2 : tk2 (0 :: par) = 0 :: par) by apply track_parent0.
  rewrite Hpar2.
  (* the remaining right siblings *)
  destruct (mte_right_sibling L R2 F R1 []) as [Hrun Hok]. cbn zeta in Hrun, Hok.
  rewrite app_nil_r in Hrun, Hok. cbn [app] in Hrun.
  replace ((L ++ R1 ++ R2) ++ [F]) with (L ++ R1 ++ R2 ++ [F]) by (rewrite <- !app_assoc; reflexivity).
  destruct (rp_tail nr [] par ltac:(unfold nr, nroots; rewrite (pr_two _ Hpr); cbn; lia)
              (seq (length L) (length R1) ++ (length L + length R1 + length R2) :: seq (length L + length R1) (length R2))
              t [D] (L ++ R1 ++ R2 ++ [F])
              (map (fun j0 => (0 :: par) ++ [j0]) (seq (S i) (length R1 + S (length R2))))
              (fun z => tk2 (tk1 z)) (tk2 (0 :: par ++ [length L + length R1])) HP) as [rest' Hgo].
  - replace (L ++ R1 ++ R2 ++ [F]) with (del_nth (length L + length R1) (L ++ R1 ++ F :: R2) ++ [F])
      by (rewrite del_nth_mid2, <- !app_assoc; reflexivity).
    eapply NoDup_names_move; [apply nth_error_mid2|exact Hnd1].
  - exact Hok.
  - rewrite !map_map. rewrite seq_app. cbn [seq]. rewrite !map_app. cbn [map]. f_equal; [|f_equal].
    + rewrite <- seq_shift, !map_map. apply map_ext_in. intros m Hm. apply in_seq in Hm.
      change ((0 :: par) ++ [S m]) with (0 :: par ++ [S m]). unfold tk1, tk2.
      rewrite (track_sibling0 par i [1] (S m)) by lia.
      assert (E1 : adj_idx i (S m) = m).
      { unfold adj_idx. replace (Nat.ltb i (S m)) with true by (symmetry; apply Nat.ltb_lt; lia). reflexivity. }
      rewrite E1. rewrite track_sibling0 by (unfold i in *; lia). unfold adj_idx.
      replace (Nat.ltb (length L + length R1) m) with false by (symmetry; apply Nat.ltb_ge; unfold i in *; lia).
      reflexivity.
    + change ((0 :: par) ++ [S i + length R1]) with (0 :: par ++ [S i + length R1]). unfold tk1, tk2.
      rewrite (track_sibling0 par i [1] (S i + length R1)) by lia.
      assert (E1 : adj_idx i (S i + length R1) = length L + length R1).
      { unfold adj_idx, i. replace (Nat.ltb (length L) (S (length L) + length R1)) with true
          by (symmetry; apply Nat.ltb_lt; lia). lia. }
      rewrite E1, track_self. cbn [app]. f_equal. f_equal. f_equal. lens. lia.
    + replace (seq (S (S i + length R1)) (length R2))
        with (map (fun m => S (S m)) (seq (length L + length R1) (length R2)))
        by (rewrite <- (map_map S S), !seq_shift; reflexivity).
      rewrite !map_map. apply map_ext_in. intros m Hm. apply in_seq in Hm.
      change ((0 :: par) ++ [S (S m)]) with (0 :: par ++ [S (S m)]). unfold tk1, tk2.
      rewrite (track_sibling0 par i [1] (S (S m))) by (unfold i; lia).
      assert (E1 : adj_idx i (S (S m)) = S m).
      { unfold adj_idx, i. replace (Nat.ltb (length L) (S (S m))) with true by (symmetry; apply Nat.ltb_lt; lia). reflexivity. }
      rewrite E1. rewrite track_sibling0 by lia. unfold adj_idx.
      replace (Nat.ltb (length L + length R1) (S m)) with true by (symmetry; apply Nat.ltb_lt; lia).
      reflexivity.
  - exists rest'. cbn [app length] in Hgo.
    change ((0 :: par) ++ [j]) with (0 :: par ++ [j]).
    match goal with |- ?lhs = _ => match type of Hgo with ?lhs' = _ => replace lhs with lhs' by reflexivity end end.
    rewrite Hgo, Hrun. cbn [app]. rewrite <- Hta. reflexivity.
Qed.

(* the replacing node F is a LEFT sibling of the replaced node D (children L1 ++ F :: L2 ++ D :: R):
   F takes D's place, between L2 and R *)
Theorem replace_left_sibling c t par L1 F L2 D R :
  plain_replace c -> (exists P, tpath t par = Some P) ->
  fkids par (tkids t) = Some (L1 ++ F :: L2 ++ D :: R) -> NoDup (map tname (L1 ++ F :: L2 ++ D :: R)) ->
  exists rest,
    rp_core c [t] (0 :: par ++ [length L1]) (0 :: par ++ [length L1 + S (length L2)])
    = (t_setk par (L1 ++ L2 ++ F :: R) t :: rest, None).
Proof.
  intros Hpr HP Hks Hnd. set (i := length L1 + S (length L2)). set (j := length L1) in |- * at 1.
  assert (Hij : j <> i) by (unfold i, j; lia).
  rewrite (rp_core_unfold c t (par ++ [j]) par i _ Hpr (sibling_refs_neq par i j (not_eq_sym Hij)) Hks).
  assert (Hlen : length (L1 ++ F :: L2 ++ D :: R) - i = S (length R)) by (unfold i; lens; lia).
  rewrite Hlen. cbn [seq map rp_loop].
  assert (Ht : t = t_setk par (L1 ++ F :: L2 ++ D :: R) t) by (symmetry; apply t_setk_id; exact Hks).
  set (nr := nroots c).
  assert (Hnth : nth_error (L1 ++ F :: L2 ++ D :: R) i = Some D).
  { unfold i. change (L1 ++ F :: L2 ++ D :: R) with (L1 ++ (F :: L2) ++ D :: R).
    replace (length L1 + S (length L2)) with (length L1 + length (F :: L2)) by reflexivity. apply nth_error_mid2. }
  assert (HgD : tget t (par ++ [i]) = Some D) by (unfold tget; eapply fget_snoc; [exact Hks|exact Hnth]).
  pose proof (detach_in_tree nr t [] (par ++ [i]) D ltac:(destruct par; discriminate) HgD) as Hm1.
  change ((0 :: par) ++ [i]) with (0 :: par ++ [i]).
  match goal with |- context [move ?x1 ?x2 ?x3 None] =>
    replace (move x1 x2 x3 None) with (MvOk ((t_remove (par ++ [i]) t :: []) ++ [D]) (track (0 :: par ++ [i]) [1]))
      by (symmetry; exact Hm1) end.
  cbn [app]. cbn beta iota.
  assert (Hta : t_remove (par ++ [i]) t = t_setk par (L1 ++ F :: L2 ++ R) t).
  { rewrite Ht at 1. unfold t_remove, t_setk. rewrite set_kids_set_kids, tkids_set_kids, fremove_fsetk_child.
    unfold i. change (L1 ++ F :: L2 ++ D :: R) with (L1 ++ (F :: L2) ++ D :: R).
    replace (length L1 + S (length L2)) with (length L1 + length (F :: L2)) by reflexivity.
    rewrite del_nth_mid2. reflexivity. }
  rewrite Hta.
  rewrite (track_sibling0 par i [1] j (not_eq_sym Hij)), track_parent0.
  assert (Hj' : adj_idx i j = length L1).
  { unfold adj_idx, i, j. replace (Nat.ltb (length L1 + S (length L2)) (length L1)) with false
      by (symmetry; apply Nat.ltb_ge; lia). reflexivity. }
  rewrite Hj'.
  assert (Hnd1 : NoDup (map tname (L1 ++ F :: L2 ++ R))).
  { change (L1 ++ F :: L2 ++ D :: R) with (L1 ++ (F :: L2) ++ D :: R) in Hnd. rewrite app_assoc, map_app in Hnd.
    cbn [map] in Hnd. apply NoDup_remove_1 in Hnd. rewrite <- map_app, <- app_assoc in Hnd. exact Hnd. }
  pose proof (move_same_parent nr [] par t [D] (L1 ++ F :: L2 ++ R) (length L1) F HP Hnd1 (nth_error_mid L1 (L2 ++ R) F)) as Hm2.
  cbn [app length] in Hm2. rewrite del_nth_mid in Hm2.
  match goal with |- context [move ?x1 ?x2 ?x3 ?x4] =>
    replace (move x1 x2 x3 x4) with
      (MvOk [t_setk par ((L1 ++ L2 ++ R) ++ [F]) t; D]
            (track (0 :: par ++ [length L1]) ((0 :: par) ++ [length (L1 ++ L2 ++ R)])))
      by (symmetry; exact Hm2) end.
  cbn beta iota.
  set (tk1 := track (0 :: par ++ [i]) [1]).
  set (tk2 := track (0 :: par ++ [length L1]) ((0 :: par) ++ [length (L1 ++ L2 ++ R)])).
  assert (Hpar2 : tk2 (0 :: par) = 0 :: par) by apply track_parent0.
  rewrite Hpar2.
  destruct (mte_seq (L1 ++ L2) R [F]) as [Hrun Hok].
  replace ((L1 ++ L2 ++ R) ++ [F]) with ((L1 ++ L2) ++ R ++ [F]) by (rewrite <- !app_assoc; reflexivity).
  destruct (rp_tail nr [] par ltac:(unfold nr, nroots; rewrite (pr_two _ Hpr); cbn; lia)
              (seq (length (L1 ++ L2)) (length R)) t [D] ((L1 ++ L2) ++ R ++ [F])
              (map (fun j0 => (0 :: par) ++ [j0]) (seq (S i) (length R)))
              (fun z => tk2 (tk1 z)) (tk2 (0 :: par ++ [length L1])) HP) as [rest' Hgo].
  - replace ((L1 ++ L2) ++ R ++ [F]) with (del_nth (length L1) (L1 ++ F :: L2 ++ R) ++ [F])
      by (rewrite del_nth_mid, <- !app_assoc; reflexivity).
    eapply NoDup_names_move; [apply nth_error_mid|exact Hnd1].
  - exact Hok.
  - replace (seq (S i) (length R)) with (map (fun m => S (S m)) (seq (length (L1 ++ L2)) (length R))).
    2: { rewrite <- (map_map S S), !seq_shift. unfold i. rewrite app_length.
         replace (S (S (length L1 + length L2))) with (S (length L1 + S (length L2))) by lia. reflexivity. }
    rewrite !map_map. apply map_ext_in. intros m Hm. apply in_seq in Hm. rewrite app_length in Hm.
    change ((0 :: par) ++ [S (S m)]) with (0 :: par ++ [S (S m)]). unfold tk1, tk2.
    rewrite (track_sibling0 par i [1] (S (S m))) by (unfold i; lia).
    assert (E1 : adj_idx i (S (S m)) = S m).
    { unfold adj_idx, i. replace (Nat.ltb (length L1 + S (length L2)) (S (S m))) with true
        by (symmetry; apply Nat.ltb_lt; lia). reflexivity. }
    rewrite E1. rewrite track_sibling0 by lia. unfold adj_idx.
    replace (Nat.ltb (length L1) (S m)) with true by (symmetry; apply Nat.ltb_lt; lia). reflexivity.
  - exists rest'. cbn [app length] in Hgo. rewrite Hgo, Hrun. rewrite <- !app_assoc. reflexivity.
Qed.

(* -- copy_and_replace_nodes_from_tree_to_tree ------------------------------------------------------- *)

Lemma track_sibling_k ka par e nx e' : e <> e' ->
  track (ka :: par ++ [e]) nx (ka :: par ++ [e']) = ka :: par ++ [adj_idx e e'].
Proof.
  intros Hne. change (ka :: par ++ [e]) with (ka :: (par ++ [e])). change (ka :: par ++ [e']) with (ka :: (par ++ [e'])).
  unfold track. rewrite is_prefix_cons, Nat.eqb_refl. cbn [andb]. rewrite is_prefix_sibling_false by exact Hne.
  unfold adj'. rewrite adj_cons_same by (destruct par; discriminate).
  pose proof (adj'_sibling par e e' Hne) as E. unfold adj' in E.
  destruct (adj (par ++ [e]) (par ++ [e'])); cbn [option_map]; rewrite E; reflexivity.
Qed.

Lemma track_parent_k ka par e nx : track (ka :: par ++ [e]) nx (ka :: par) = ka :: par.
Proof.
  change (ka :: par ++ [e]) with (ka :: (par ++ [e])).
  unfold track. rewrite is_prefix_cons, Nat.eqb_refl. cbn [andb].
  rewrite (is_prefix_child_false par par e (or_intror eq_refl)).
  unfold adj'. rewrite adj_cons_same by (destruct par; discriminate).
  pose proof (adj'_child_removed par par e (or_intror eq_refl)) as E. unfold adj' in E.
  destruct (adj (par ++ [e]) par); cbn [option_map]; [rewrite E|]; reflexivity.
Qed.

Lemma track_other_piece ka kb x nx z : ka <> kb -> x <> [] -> track (ka :: x) nx (kb :: z) = kb :: z.
Proof.
  intros Hk Hx. unfold track. rewrite is_prefix_cons.
  replace (Nat.eqb ka kb) with false by (symmetry; apply Nat.eqb_neq; exact Hk). cbn [andb].
  unfold adj'. cbn [adj]. destruct x as [|x0 x]; [congruence|].
  replace (Nat.eqb kb ka) with false by (symmetry; apply Nat.eqb_neq; congruence). reflexivity.
Qed.

Record tt_replace (c : cfg) : Prop := {
  tr_copy : c_copy c = true;
  tr_two : c_two c = true;
  tr_dc : f_dc (c_fl c) = false }.

(* DESIGN.md "C08_replace_position" for copy_and_replace_nodes_from_tree_to_tree: the copy of the source
   node takes the place of D among the children L ++ D :: R of D's parent; the source tree is piece 0 *)
Theorem replace_tt c s dt p x par L D R :
  tt_replace c -> p <> [] -> tget s p = Some x ->
  (exists P, tpath dt par = Some P) ->
  fkids par (tkids dt) = Some (L ++ D :: R) -> NoDup (map tname (L ++ D :: R)) ->
  (forall k, In k (L ++ R) -> tname k <> tname x) ->
  exists rest,
    rp_core c [s; dt] (0 :: p) (1 :: par ++ [length L])
    = (s :: t_setk par (L ++ retag x :: R) dt :: rest, None).
Proof.
  intros [Hc Htwo Hdc] Hp Hx HP Hks Hnd Hfresh. set (i := length L). set (y := retag x).
  unfold rp_core. cbn [ref_eqb list_eqb Nat.eqb andb]. rewrite Hc, Hdc. unfold copy_node.
  cbn [nth_error length]. change ([s; dt] ++ [retag s]) with [s; dt; retag s]. set (cs := retag s).
  cbn beta iota.
  assert (Hpr : parent_ref (1 :: par ++ [i]) = Some (1 :: par)).
  { unfold parent_ref. destruct (par ++ [i]) eqn:E; [destruct par; discriminate|]. rewrite <- E.
    rewrite removelast_snoc_cons. reflexivity. }
  rewrite Hpr.
  replace (fkids (1 :: par) [s; dt; cs]) with (Some (L ++ D :: R)) by (symmetry; exact Hks).
  rewrite last_snoc_cons.
  assert (Hlen : length (L ++ D :: R) - i = S (length R)) by (unfold i; lens; lia).
  rewrite Hlen. cbn [seq map rp_loop].
  set (nr := nroots c).
  assert (Ht : dt = t_setk par (L ++ D :: R) dt) by (symmetry; apply t_setk_id; exact Hks).
  assert (HgD : tget dt (par ++ [i]) = Some D).
  { unfold tget. eapply fget_snoc; [exact Hks|]. unfold i. apply nth_error_mid. }
  pose proof (detach_in_piece nr [s] dt [cs] (par ++ [i]) D ltac:(destruct par; discriminate) HgD) as Hm1.
  cbn [app length] in Hm1. change ((1 :: par) ++ [i]) with (1 :: par ++ [i]).
  match goal with |- context [move ?x1 ?x2 ?x3 None] =>
    replace (move x1 x2 x3 None) with
      (MvOk [s; t_remove (par ++ [i]) dt; cs; D] (track (1 :: par ++ [i]) [3])) by (symmetry; exact Hm1) end.
  cbn beta iota.
  assert (Hta : t_remove (par ++ [i]) dt = t_setk par (L ++ R) dt).
  { rewrite Ht at 1. unfold t_remove, t_setk. rewrite set_kids_set_kids, tkids_set_kids, fremove_fsetk_child.
    unfold i. rewrite del_nth_mid. reflexivity. }
  rewrite Hta. set (ta := t_setk par (L ++ R) dt).
  change (1 :: par ++ [i]) with (1 :: (par ++ [i])).
  rewrite (track_other_piece 1 2 (par ++ [i]) [3] p) by (try lia; destruct par; discriminate).
  change (1 :: (par ++ [i])) with (1 :: par ++ [i]). rewrite track_parent_k.
  (* the copy goes under D's parent *)
  assert (Hmv : exists len, move nr [s; ta; cs; D] (2 :: p) (Some (1 :: par))
                 = MvOk [s; t_setk par ((L ++ R) ++ [y]) dt; t_remove p cs; D] (track (2 :: p) ((1 :: par) ++ [len]))).
  { unfold move.
    assert (Hg : fget (2 :: p) [s; ta; cs; D] = Some y).
    { cbn [fget nth_error]. destruct p as [|j p]; [congruence|]. unfold cs. rewrite tkids_retag, fget_retag.
      unfold tget in Hx. rewrite Hx. reflexivity. }
    rewrite Hg. cbn [is_prefix Nat.eqb andb].
    assert (Hk1 : fkids (1 :: par) [s; ta; cs; D] = Some (L ++ R)).
    { cbn [fkids nth_error]. unfold ta, t_setk. rewrite tkids_set_kids. destruct HP as [P HP].
      eapply fkids_fsetk_self. exact HP. }
    rewrite Hk1.
    replace (opt_eqb ref_eqb (parent_ref (2 :: p)) (Some (1 :: par))) with false.
    2: { symmetry. destruct p as [|j [|j' p]]; [congruence|reflexivity|reflexivity]. }
    unfold y at 1. rewrite tname_retag. rewrite dup_child_false by exact Hfresh.
    replace (protected nr (2 :: p)) with false by (destruct p; [congruence|reflexivity]).
    assert (Hrm : fremove (2 :: p) [s; ta; cs; D] = [s; ta; t_remove p cs; D])
      by (destruct p; [congruence|reflexivity]).
    rewrite Hrm.
    assert (Hadj : adj' (2 :: p) (1 :: par) = 1 :: par) by (unfold adj'; destruct p; [congruence|reflexivity]).
    rewrite Hadj.
    assert (Hk2 : fkids (1 :: par) [s; ta; t_remove p cs; D] = Some (L ++ R)) by exact Hk1.
    rewrite Hk2. exists (length (L ++ R)). f_equal. cbn [fappend upd_nth]. f_equal. f_equal.
    unfold ta, t_setk. rewrite set_kids_set_kids, tkids_set_kids, fappend_fsetk_self. reflexivity. }
  destruct Hmv as [len Hmv].
  match goal with |- context [move ?x1 ?x2 ?x3 ?x4] =>
    replace (move x1 x2 x3 x4) with
      (MvOk [s; t_setk par ((L ++ R) ++ [y]) dt; t_remove p cs; D] (track (2 :: p) ((1 :: par) ++ [len])))
      by (symmetry; exact Hmv) end.
  cbn beta iota.
  set (tk1 := track (1 :: par ++ [i]) [3]). set (tk2 := track (2 :: p) ((1 :: par) ++ [len])).
  assert (Htk2 : forall z, tk2 (1 :: z) = 1 :: z) by (intros z; apply track_other_piece; [lia|exact Hp]).
  rewrite Htk2.
  destruct (mte_seq L R [y]) as [Hrun Hok].
  replace ((L ++ R) ++ [y]) with (L ++ R ++ [y]) by (rewrite <- app_assoc; reflexivity).
  destruct (rp_tail nr [s] par ltac:(unfold nr, nroots; rewrite Htwo; cbn; lia)
              (seq (length L) (length R)) dt [t_remove p cs; D] (L ++ R ++ [y])
              (map (fun j0 => (1 :: par) ++ [j0]) (seq (S i) (length R)))
              (fun z => tk2 (tk1 z)) (tk2 (2 :: p)) HP) as [rest' Hgo].
  - rewrite app_assoc, map_app. cbn [map]. apply NoDup_app_snoc.
    + rewrite map_app in Hnd. cbn [map] in Hnd. apply NoDup_remove_1 in Hnd. rewrite <- map_app in Hnd. exact Hnd.
    + unfold y. rewrite tname_retag. intros Hin. apply in_map_iff in Hin as [k [E Hk]]. apply (Hfresh k Hk). exact E.
  - exact Hok.
  - rewrite <- seq_shift, !map_map. apply map_ext_in. intros m Hm. apply in_seq in Hm.
    change ((1 :: par) ++ [S m]) with (1 :: par ++ [S m]). unfold tk1.
    rewrite (track_sibling_k 1 par i [3] (S m)) by lia.
    assert (E1 : adj_idx i (S m) = m).
    { unfold adj_idx. replace (Nat.ltb i (S m)) with true by (symmetry; apply Nat.ltb_lt; lia). reflexivity. }
    rewrite E1. apply Htk2.
  - exists rest'. cbn [app length] in Hgo.
    match goal with |- ?lhs = _ => match type of Hgo with ?lhs' = _ => replace lhs with lhs' by reflexivity end end.
    rewrite Hgo, Hrun. reflexivity.
Qed.

(* -- the table of a tree as a function of the children list of one node ----------------------------- *)

Lemma frows_fsetk_ctx : forall par pre (f : forest) PQ,
  wf_f f -> par <> [] -> fpath pre par f = Some PQ ->
  exists A B, (forall ks, frows pre (fsetk par ks f) = A ++ frows PQ ks ++ B)
              /\ (forall r c, In r (A ++ B) -> under (PQ ++ [c]) r = false).
Proof.
  induction par as [|i par IH]; intros pre f PQ Hwf Hp HP; [congruence|].
  cbn [fpath] in HP. destruct (nth_error f i) as [t|] eqn:Et; [|discriminate].
  apply nth_error_split_at in Et as [a [b [-> <-]]].
  apply wf_f_mid in Hwf as [Ht [Hab Hne]].
  destruct (fpath_ext _ _ _ _ HP) as [rest [HPe Hrl]]. rewrite <- app_assoc in HPe. cbn [app] in HPe.
  assert (Hother : forall r c, In r (frows pre a ++ frows pre b) -> under (PQ ++ [c]) r = false).
  { intros r c Hr. rewrite HPe, <- app_assoc. cbn [app]. apply in_app_or in Hr as [Hr|Hr].
    - eapply frows_other_not_under; [|exact Hr]. intros u Hu. apply Hne. apply in_or_app. left; exact Hu.
    - eapply frows_other_not_under; [|exact Hr]. intros u Hu. apply Hne. apply in_or_app. right; exact Hu. }
  destruct par as [|j par].
  - destruct rest as [|? ?]; [|cbn in Hrl; discriminate]. subst PQ. clear HP.
    exists (frows pre a ++ [(pre ++ [tname t], ttag t, tattrs t)]), (frows pre b). split.
    + intros ks. cbn [fsetk]. rewrite upd_nth_mid, frows_app, frows_cons, rows_from_eq, tname_set_kids, ttag_set_kids,
        tattrs_set_kids, tkids_set_kids. cbn [fsetk]. rewrite <- !app_assoc. reflexivity.
    + intros r c Hr. rewrite <- app_assoc in Hr. apply in_app_or in Hr as [Hr|Hr].
      * apply Hother. apply in_or_app. left; exact Hr.
      * destruct Hr as [<-|Hr]; [|apply Hother; apply in_or_app; right; exact Hr].
        unfold under. cbn [rpath fst]. apply pfx_long. rewrite (app_length (pre ++ [tname t]) [c]). cbn [length]. lia.
  - destruct (IH (pre ++ [tname t]) (tkids t) PQ (wf_t_kids _ Ht) ltac:(discriminate) HP) as [A' [B' [H1 H2]]].
    exists (frows pre a ++ (pre ++ [tname t], ttag t, tattrs t) :: A'), (B' ++ frows pre b). split.
    + intros ks. change (fsetk (length a :: j :: par) ks (a ++ t :: b))
        with (upd_nth (length a) (fun t0 => set_kids t0 (fsetk (j :: par) ks (tkids t0))) (a ++ t :: b)).
      rewrite upd_nth_mid, frows_app, frows_cons, rows_from_eq, tname_set_kids, ttag_set_kids,
        tattrs_set_kids, tkids_set_kids. rewrite H1. rewrite <- ?app_assoc. cbn [app]. rewrite <- ?app_assoc. reflexivity.
    + intros r c Hr. rewrite <- app_assoc in Hr. apply in_app_or in Hr as [Hr|Hr];
        [apply Hother; apply in_or_app; left; exact Hr|].
      destruct Hr as [<-|Hr].
      * unfold under. cbn [rpath fst]. apply pfx_long. rewrite HPe, !app_length. cbn [length] in *. lia.
      * apply in_app_or in Hr as [Hr|Hr]; [apply H2; apply in_or_app; left; exact Hr|].
        apply in_app_or in Hr as [Hr|Hr]; [apply H2; apply in_or_app; right; exact Hr|].
        apply Hother. apply in_or_app. right; exact Hr.
Qed.

Lemma rows_setk_ctx t par PQ :
  wf_t t -> tpath t par = Some PQ ->
  exists A B, (forall ks, rows (t_setk par ks t) = A ++ frows PQ ks ++ B)
              /\ (forall r c, In r (A ++ B) -> under (PQ ++ [c]) r = false).
Proof.
  intros Hwf HP. destruct par as [|i par].
  - unfold tpath in HP. cbn in HP. inversion HP; subst PQ.
    exists [([tname t], ttag t, tattrs t)], []. split.
    + intros ks. unfold t_setk. cbn [fsetk]. rewrite rows_eq, tname_set_kids, ttag_set_kids, tattrs_set_kids,
        tkids_set_kids, app_nil_r. reflexivity.
    + intros r c [<-|[]]. unfold under. cbn [rpath fst app pfx]. rewrite str_eqb_refl. reflexivity.
  - destruct (frows_fsetk_ctx (i :: par) [tname t] (tkids t) PQ (wf_t_kids _ Hwf) ltac:(discriminate) HP) as [A [B [H1 H2]]].
    exists (([tname t], ttag t, tattrs t) :: A), B. split.
    + intros ks. unfold t_setk. rewrite rows_eq, tname_set_kids, ttag_set_kids, tattrs_set_kids, tkids_set_kids, H1.
      reflexivity.
    + intros r c [<-|Hr]; [|apply H2; exact Hr].
      unfold under. cbn [rpath fst]. apply pfx_long. destruct (tpath_ext _ _ _ HP) as [rest [-> Hl]].
      cbn [length app] in *. rewrite app_length. cbn. lia.
Qed.

Lemma before_block_app X Y P : (forall r, In r X -> under P r = false) -> before_block (X ++ Y) P = X ++ before_block Y P.
Proof.
  induction X as [|x X IH]; intros H; [reflexivity|]. cbn [app before_block]. rewrite (H x (or_introl eq_refl)).
  rewrite IH by (intros r Hr; apply H; right; exact Hr). reflexivity.
Qed.

Lemma after_block_app X Y P : (forall r, In r X -> under P r = false) -> after_block (X ++ Y) P = after_block Y P.
Proof.
  induction X as [|x X IH]; intros H; [reflexivity|]. cbn [app after_block]. rewrite (H x (or_introl eq_refl)).
  apply IH. intros r Hr. apply H. right; exact Hr.
Qed.

Lemma frows_names_not_under PQ ks n r :
  (forall k, In k ks -> tname k <> n) -> In r (frows PQ ks) -> under (PQ ++ [n]) r = false.
Proof. intros H Hr. eapply frows_other_not_under; eassumption. Qed.

(* splitting the table around the block of one child D of the node at PQ *)
Lemma blocks_around_child A B PQ L D R :
  (forall r c, In r (A ++ B) -> under (PQ ++ [c]) r = false) -> NoDup (map tname (L ++ D :: R)) ->
  let tb := A ++ frows PQ (L ++ D :: R) ++ B in
  before_block tb (PQ ++ [tname D]) = A ++ frows PQ L /\ after_block tb (PQ ++ [tname D]) = frows PQ R ++ B.
Proof.
  intros Hctx Hnd tb. unfold tb. set (PD := PQ ++ [tname D]).
  assert (HL : forall k, In k L -> tname k <> tname D).
  { intros k Hk E. rewrite map_app in Hnd. cbn [map] in Hnd. apply NoDup_remove_2 in Hnd. apply Hnd.
    apply in_or_app. left. rewrite <- E. apply in_map. exact Hk. }
  assert (HR : forall k, In k R -> tname k <> tname D).
  { intros k Hk E. rewrite map_app in Hnd. cbn [map] in Hnd. apply NoDup_remove_2 in Hnd. apply Hnd.
    apply in_or_app. right. rewrite <- E. apply in_map. exact Hk. }
  assert (HA : forall r, In r (A ++ frows PQ L) -> under PD r = false).
  { intros r Hr. apply in_app_or in Hr as [Hr|Hr]; [apply Hctx; apply in_or_app; left; exact Hr|].
    eapply frows_names_not_under; [exact HL|exact Hr]. }
  assert (HB : forall r, In r (frows PQ R ++ B) -> under PD r = false).
  { intros r Hr. apply in_app_or in Hr as [Hr|Hr]; [eapply frows_names_not_under; [exact HR|exact Hr]|].
    apply Hctx. apply in_or_app. right; exact Hr. }
  rewrite frows_app, frows_cons.
  replace (A ++ (frows PQ L ++ rows_from PQ D ++ frows PQ R) ++ B)
    with ((A ++ frows PQ L) ++ rows_from PQ D ++ (frows PQ R ++ B)) by (rewrite <- !app_assoc; reflexivity).
  rewrite before_block_app, after_block_app by exact HA. rewrite rows_from_eq. fold PD.
  assert (Hu : under PD (PD, ttag D, tattrs D) = true) by (unfold under; cbn [rpath fst]; apply pfx_refl).
  cbn [app before_block after_block]. rewrite Hu. split; [rewrite app_nil_r; reflexivity|].
  change (fun x : row => negb (under PD x)) with (fun x : row => negb (under PD x)).
  rewrite filter_app. rewrite (filter_none _ (frows PD (tkids D))).
  - cbn [app]. apply filter_all. intros r Hr. rewrite (HB r Hr). reflexivity.
  - intros r Hr. apply frows_under in Hr as [u [rs [_ Hrs]]]. unfold under. rewrite Hrs, pfx_app. reflexivity.
Qed.

Lemma existsb_names_app (a b : list tree) n :
  existsb (fun k => str_eqb (tname k) n) (a ++ b)
  = existsb (fun k => str_eqb (tname k) n) a || existsb (fun k => str_eqb (tname k) n) b.
Proof. apply existsb_app. Qed.

(* DESIGN.md "C08_replace_position", copy_and_replace_nodes_from_tree_to_tree *)
Theorem C08_replace_position_tt_stmt c fl s dt p x par L D R PX PQ :
  tt_replace c -> f_dc fl = false -> wf_t s -> wf_t dt ->
  p <> [] -> tget s p = Some x -> tpath s p = Some PX -> tpath dt par = Some PQ ->
  fkids par (tkids dt) = Some (L ++ D :: R) -> (forall k, In k (L ++ R) -> tname k <> tname x) ->
  let PD := PQ ++ [tname D] in
  let t2 := t_setk par (L ++ retag x :: R) dt in
  (exists rest, rp_core c [s; dt] (0 :: p) (1 :: par ++ [length L]) = (s :: t2 :: rest, None))
  /\ rows t2 = before_block (rows dt) PD ++ rows_from PQ (retag x) ++ after_block (rows dt) PD
  /\ edit_rp true false fl (rows s) (rows dt) PX (Some PD) = PNext (rows s) (rows t2).
Proof.
  intros Htt Hdc Hwfs Hwfd Hp Hx HPX HPQ Hks Hfresh PD t2.
  assert (Hnd : NoDup (map tname (L ++ D :: R))) by (apply (wf_fkids par (tkids dt) _ (wf_t_kids _ Hwfd) Hks)).
  assert (Hrows : rows t2 = before_block (rows dt) PD ++ rows_from PQ (retag x) ++ after_block (rows dt) PD).
  { destruct (rows_setk_ctx dt par PQ Hwfd HPQ) as [A [B [H1 H2]]].
    destruct (blocks_around_child A B PQ L D R H2 Hnd) as [Hb Ha]. cbn zeta in Hb, Ha.
    rewrite <- (H1 (L ++ D :: R)), (t_setk_id par dt _ Hks) in Hb, Ha. fold PD in Hb, Ha.
    rewrite Hb, Ha. unfold t2. rewrite H1, frows_app, frows_cons. rewrite <- !app_assoc. reflexivity. }
  split; [|split; [exact Hrows|]].
  - apply (replace_tt c s dt p x par L D R); try assumption. exists PQ. exact HPQ.
  - rewrite Hrows.
    destruct (t_sub_rows s p x PX Hwfs Hp Hx HPX) as [P0 [HP0 Hsub]].
    assert (Hk : length PX = S (length P0)) by (rewrite HP0, app_length; cbn; lia).
    assert (Hi : nth_error (L ++ D :: R) (length L) = Some D) by apply nth_error_mid.
    assert (HPD : tpath dt (par ++ [length L]) = Some PD) by (eapply fpath_snoc; eassumption).
    assert (HhasD : has (rows dt) PD = true) by (eapply t_has_row; [|exact HPD]; destruct par; discriminate).
    destruct (tpath_ext _ _ _ HPQ) as [restq [HPQe _]].
    assert (HlenD : Nat.eqb (length PD) 1 = false).
    { apply Nat.eqb_neq. unfold PD. rewrite app_length, HPQe. cbn. lia. }
    assert (HrlD : removelast PD = PQ) by (unfold PD; apply removelast_last).
    assert (HlastX : last PX [] = tname x) by (rewrite HP0; apply last_last).
    unfold edit_rp. rewrite HhasD. cbn [negb andb]. rewrite HlenD. cbn [negb andb orb].
    rewrite !HrlD, !HlastX.
    replace (has (rows dt) (PQ ++ [tname x]) && negb (path_eqb (PQ ++ [tname x]) PD) && true) with false.
    2: { symmetry. destruct (str_eqb (tname D) (tname x)) eqn:E.
         - apply str_eqb_eq in E. unfold PD. rewrite E, path_eqb_refl. cbn [negb]. rewrite andb_false_r. reflexivity.
         - rewrite (t_has_child dt par PQ _ (tname x) Hwfd HPQ Hks), existsb_names_app. cbn [existsb]. rewrite E.
           rewrite existsb_name_false by (intros k Hk0; apply Hfresh; apply in_or_app; left; exact Hk0).
           rewrite existsb_name_false by (intros k Hk0; apply Hfresh; apply in_or_app; right; exact Hk0).
           reflexivity. }
    rewrite Hdc. unfold reroot. cbn [fst snd]. fold (sub_rows (rows s) PX). rewrite Hsub.
    rewrite Hk. cbn [Nat.sub]. rewrite Nat.sub_0_r. rewrite (reroot_rows_from x P0 PQ true). reflexivity.
Qed.

Lemma listed_after_app X Y PA PB :
  (forall r, In r X -> at_path PA r = false /\ at_path PB r = false) ->
  listed_after (X ++ Y) PA PB = listed_after Y PA PB.
Proof.
  induction X as [|x X IH]; intros H; [reflexivity|]. cbn [app listed_after].
  destruct (H x (or_introl eq_refl)) as [H1 H2]. rewrite H1, H2. apply IH. intros r Hr. apply H. right; exact Hr.
Qed.

Lemma not_under_not_at P r : under P r = false -> at_path P r = false.
Proof. intros H. destruct (at_path P r) eqn:E; [|reflexivity]. apply at_path_under in E. congruence. Qed.

Lemma minus_app tb tb' P : minus (tb ++ tb') P = minus tb P ++ minus tb' P.
Proof. unfold minus. apply filter_app. Qed.

Lemma minus_none tb P : (forall r, In r tb -> under P r = false) -> minus tb P = tb.
Proof. intros H. unfold minus. apply filter_all. intros r Hr. rewrite (H r Hr). reflexivity. Qed.

Lemma minus_all tb P : (forall r, In r tb -> under P r = true) -> minus tb P = [].
Proof. intros H. unfold minus. apply filter_none. intros r Hr. rewrite (H r Hr). reflexivity. Qed.

Lemma names_neq_mid (a b : list tree) x k : NoDup (map tname (a ++ x :: b)) -> In k (a ++ b) -> tname k <> tname x.
Proof.
  intros Hnd Hk E. rewrite map_app in Hnd. cbn [map] in Hnd. apply NoDup_remove_2 in Hnd. apply Hnd.
  rewrite <- map_app, <- E. apply in_map. exact Hk.
Qed.

(* DESIGN.md "C08_replace_position", shift_and_replace_nodes, F a RIGHT sibling of D *)
Theorem C08_replace_right_sibling_stmt c fl t par L D R1 F R2 PQ :
  plain_replace c -> f_dc fl = false -> wf_t t -> tpath t par = Some PQ ->
  fkids par (tkids t) = Some (L ++ D :: R1 ++ F :: R2) ->
  let PD := PQ ++ [tname D] in let PX := PQ ++ [tname F] in
  (exists rest, rp_core c [t] (0 :: par ++ [length L + S (length R1)]) (0 :: par ++ [length L])
                = (t_remove (par ++ [length L]) t :: rest, None))
  /\ rows (t_remove (par ++ [length L]) t) = minus (rows t) PD
  /\ edit_rp false true fl (rows t) (rows t) PX (Some PD) = PNext (minus (rows t) PD) (minus (rows t) PD).
Proof.
  intros Hpr Hdc Hwf HPQ Hks PD PX.
  assert (Hnd : NoDup (map tname (L ++ D :: R1 ++ F :: R2))) by (apply (wf_fkids par (tkids t) _ (wf_t_kids _ Hwf) Hks)).
  assert (HPD : tpath t (par ++ [length L]) = Some PD) by (eapply fpath_snoc; [exact HPQ|exact Hks|apply nth_error_mid]).
  assert (Hne : par ++ [length L] <> []) by (destruct par; discriminate).
  assert (HnDF : tname F <> tname D).
  { apply (names_neq_mid L (R1 ++ F :: R2) D F Hnd). apply in_or_app. right. apply in_or_app. right. left. reflexivity. }
  split; [apply (replace_right_sibling c t par L D R1 F R2); try assumption; exists PQ; exact HPQ|].
  split; [apply rows_t_remove; assumption|].
  destruct (rows_setk_ctx t par PQ Hwf HPQ) as [A [B [H1 H2]]].
  assert (HT : rows t = A ++ frows PQ (L ++ D :: R1 ++ F :: R2) ++ B) by (rewrite <- H1, (t_setk_id par t _ Hks); reflexivity).
  destruct (tpath_ext _ _ _ HPQ) as [restq [HPQe _]].
  assert (HhasD : has (rows t) PD = true) by (eapply t_has_row; [exact Hne|exact HPD]).
  assert (HhasX : has (rows t) PX = true).
  { unfold PX. rewrite (t_has_child t par PQ _ (tname F) Hwf HPQ Hks). eapply existsb_true.
    - apply in_or_app. right. right. apply in_or_app. right. left. reflexivity.
    - apply str_eqb_refl. }
  unfold edit_rp. rewrite HhasD. cbn [negb andb].
  assert (E1 : path_eqb PD PX = false).
  { destruct (path_eqb PD PX) eqn:E; [|reflexivity]. apply path_eqb_eq in E. unfold PD, PX in E.
    apply app_inj_tail in E as [_ E]. congruence. }
  rewrite E1.
  assert (E2 : Nat.eqb (length PD) 1 = false) by (apply Nat.eqb_neq; unfold PD; rewrite app_length, HPQe; cbn; lia).
  rewrite E2.
  assert (E3 : pfx PX PD = false).
  { unfold PX, PD. rewrite pfx_app_same. cbn. destruct (str_eqb (tname F) (tname D)) eqn:E; [|reflexivity].
    apply str_eqb_eq in E. congruence. }
  rewrite E3. cbn [orb andb negb].
  assert (E4 : Nat.eqb (length PX) 1 = false) by (apply Nat.eqb_neq; unfold PX; rewrite app_length, HPQe; cbn; lia).
  rewrite E4.
  assert (HrlD : removelast PD = PQ) by (unfold PD; apply removelast_last).
  assert (HrlX : removelast PX = PQ) by (unfold PX; apply removelast_last).
  assert (HlastX : last PX [] = tname F) by (unfold PX; apply last_last).
  rewrite !HrlD, !HrlX, !HlastX. fold PX. rewrite HhasX, !path_eqb_refl. cbn [negb andb]. rewrite ?andb_false_r. cbn [negb andb].
  replace (listed_after (rows t) PX PD) with true; [rewrite Hdc; reflexivity|].
  symmetry. rewrite HT, frows_app, frows_cons.
  replace (A ++ (frows PQ L ++ rows_from PQ D ++ frows PQ (R1 ++ F :: R2)) ++ B)
    with ((A ++ frows PQ L) ++ rows_from PQ D ++ frows PQ (R1 ++ F :: R2) ++ B) by (rewrite <- !app_assoc; reflexivity).
  rewrite listed_after_app.
  - rewrite rows_from_eq. cbn [app listed_after]. fold PD. unfold at_path at 1. cbn [rpath fst]. rewrite path_eqb_refl.
    unfold has. rewrite !existsb_app. rewrite frows_app, frows_cons, rows_from_eq. fold PX.
    rewrite !existsb_app. cbn [existsb]. unfold at_path at 3. cbn [rpath fst]. rewrite path_eqb_refl.
    rewrite !orb_true_r. reflexivity.
  - intros r Hr. apply in_app_or in Hr as [Hr|Hr].
    + split; apply not_under_not_at; apply H2; apply in_or_app; left; exact Hr.
    + split; apply not_under_not_at; (eapply frows_names_not_under; [|exact Hr]); intros k Hk.
      * apply (names_neq_mid (L ++ D :: R1) R2 F k).
        { rewrite <- app_assoc. exact Hnd. }
        apply in_or_app. left. apply in_or_app. left. exact Hk.
      * apply (names_neq_mid L (R1 ++ F :: R2) D k Hnd). apply in_or_app. left. exact Hk.
Qed.

(* shift_and_replace_nodes, F a LEFT sibling of D: F sits between L2 and R, at D's former position *)
Theorem C08_replace_left_sibling_stmt c fl t par L1 F L2 D R PQ :
  plain_replace c -> f_dc fl = false -> wf_t t -> tpath t par = Some PQ ->
  fkids par (tkids t) = Some (L1 ++ F :: L2 ++ D :: R) ->
  let PD := PQ ++ [tname D] in let PX := PQ ++ [tname F] in
  let t2 := t_setk par (L1 ++ L2 ++ F :: R) t in
  (exists rest, rp_core c [t] (0 :: par ++ [length L1]) (0 :: par ++ [length L1 + S (length L2)]) = (t2 :: rest, None))
  /\ rows t2 = minus (before_block (rows t) PD) PX ++ rows_from PQ F ++ minus (after_block (rows t) PD) PX
  /\ edit_rp false true fl (rows t) (rows t) PX (Some PD) = PNext (rows t2) (rows t2).
Proof.
  intros Hpr Hdc Hwf HPQ Hks PD PX t2.
  assert (Hnd : NoDup (map tname (L1 ++ F :: L2 ++ D :: R))) by (apply (wf_fkids par (tkids t) _ (wf_t_kids _ Hwf) Hks)).
  assert (Hnd' : NoDup (map tname ((L1 ++ F :: L2) ++ D :: R))) by (rewrite <- app_assoc; exact Hnd).
  assert (HnDF : tname F <> tname D).
  { apply (names_neq_mid (L1 ++ F :: L2) R D F Hnd'). apply in_or_app. left. apply in_or_app. right. left. reflexivity. }
  destruct (rows_setk_ctx t par PQ Hwf HPQ) as [A [B [H1 H2]]].
  assert (HT : rows t = A ++ frows PQ ((L1 ++ F :: L2) ++ D :: R) ++ B).
  { rewrite <- H1, <- app_assoc. cbn [app]. rewrite (t_setk_id par t _ Hks). reflexivity. }
  destruct (blocks_around_child A B PQ (L1 ++ F :: L2) D R H2 Hnd') as [Hb Ha]. cbn zeta in Hb, Ha.
  rewrite <- HT in Hb, Ha. fold PD in Hb, Ha.
  assert (HA_PX : forall r, In r A -> under PX r = false) by (intros r Hr; apply H2; apply in_or_app; left; exact Hr).
  assert (HB_PX : forall r, In r B -> under PX r = false) by (intros r Hr; apply H2; apply in_or_app; right; exact Hr).
  assert (HL1 : forall r, In r (frows PQ L1) -> under PX r = false).
  { intros r Hr. eapply frows_names_not_under; [|exact Hr]. intros k Hk.
    apply (names_neq_mid L1 (L2 ++ D :: R) F k Hnd). apply in_or_app. left. exact Hk. }
  assert (HL2 : forall r, In r (frows PQ L2) -> under PX r = false).
  { intros r Hr. eapply frows_names_not_under; [|exact Hr]. intros k Hk.
    apply (names_neq_mid L1 (L2 ++ D :: R) F k Hnd). apply in_or_app. right. apply in_or_app. left. exact Hk. }
  assert (HR : forall r, In r (frows PQ R) -> under PX r = false).
  { intros r Hr. eapply frows_names_not_under; [|exact Hr]. intros k Hk.
    apply (names_neq_mid L1 (L2 ++ D :: R) F k Hnd). apply in_or_app. right. apply in_or_app. right. right. exact Hk. }
  assert (HFall : forall r, In r (rows_from PQ F) -> under PX r = true) by (intros r Hr; apply rows_self_under; exact Hr).
  assert (Hrows : rows t2 = minus (before_block (rows t) PD) PX ++ rows_from PQ F ++ minus (after_block (rows t) PD) PX).
  { rewrite Hb, Ha. rewrite frows_app, frows_cons. rewrite !minus_app.
    rewrite (minus_none A), (minus_none (frows PQ L1)), (minus_all (rows_from PQ F)), (minus_none (frows PQ L2)),
      (minus_none (frows PQ R)), (minus_none B) by assumption.
    unfold t2. rewrite H1, !frows_app, frows_cons. cbn [app]. rewrite <- !app_assoc. reflexivity. }
  split; [apply (replace_left_sibling c t par L1 F L2 D R); try assumption; exists PQ; exact HPQ|]. split; [exact Hrows|].
  rewrite Hrows.
  assert (Hi : nth_error (L1 ++ F :: L2 ++ D :: R) (length L1 + S (length L2)) = Some D).
  { change (L1 ++ F :: L2 ++ D :: R) with (L1 ++ (F :: L2) ++ D :: R).
    replace (length L1 + S (length L2)) with (length L1 + length (F :: L2)) by reflexivity. apply nth_error_mid2. }
  assert (HPD : tpath t (par ++ [length L1 + S (length L2)]) = Some PD) by (eapply fpath_snoc; eassumption).
  assert (HPXp : tpath t (par ++ [length L1]) = Some PX) by (eapply fpath_snoc; [exact HPQ|exact Hks|apply nth_error_mid]).
  assert (HgF : tget t (par ++ [length L1]) = Some F) by (unfold tget; eapply fget_snoc; [exact Hks|apply nth_error_mid]).
  assert (HneF : par ++ [length L1] <> []) by (destruct par; discriminate).
  destruct (t_sub_rows t _ F PX Hwf HneF HgF HPXp) as [P0 [HP0 Hsub]].
  assert (HP0' : P0 = PQ) by (unfold PX in HP0; apply app_inj_tail in HP0 as [E _]; symmetry; exact E).
  subst P0.
  destruct (tpath_ext _ _ _ HPQ) as [restq [HPQe _]].
  assert (HhasD : has (rows t) PD = true) by (eapply t_has_row; [|exact HPD]; destruct par; discriminate).
  assert (HhasX : has (rows t) PX = true) by (eapply t_has_row; [exact HneF|exact HPXp]).
  unfold edit_rp. rewrite HhasD. cbn [negb andb].
  assert (E1 : path_eqb PD PX = false).
  { destruct (path_eqb PD PX) eqn:E; [|reflexivity]. apply path_eqb_eq in E. unfold PD, PX in E.
    apply app_inj_tail in E as [_ E]. congruence. }
  rewrite E1.
  assert (E2 : Nat.eqb (length PD) 1 = false) by (apply Nat.eqb_neq; unfold PD; rewrite app_length, HPQe; cbn; lia).
  rewrite E2.
  assert (E3 : pfx PX PD = false).
  { unfold PX, PD. rewrite pfx_app_same. cbn. destruct (str_eqb (tname F) (tname D)) eqn:E; [|reflexivity].
    apply str_eqb_eq in E. congruence. }
  rewrite E3. cbn [orb andb negb].
  assert (E4 : Nat.eqb (length PX) 1 = false) by (apply Nat.eqb_neq; unfold PX; rewrite app_length, HPQe; cbn; lia).
  rewrite E4.
  assert (HrlD : removelast PD = PQ) by (unfold PD; apply removelast_last).
  assert (HrlX : removelast PX = PQ) by (unfold PX; apply removelast_last).
  assert (HlastX : last PX [] = tname F) by (unfold PX; apply last_last).
  rewrite !HrlD, !HrlX, !HlastX. fold PX. rewrite HhasX, !path_eqb_refl. cbn [negb andb]. rewrite ?andb_false_r. cbn [negb andb].
  replace (listed_after (rows t) PX PD) with false.
  2: { symmetry. rewrite HT, !frows_app, frows_cons.
       replace (A ++ ((frows PQ L1 ++ rows_from PQ F ++ frows PQ L2) ++ frows PQ (D :: R)) ++ B)
         with ((A ++ frows PQ L1) ++ rows_from PQ F ++ (frows PQ L2 ++ frows PQ (D :: R) ++ B))
         by (rewrite <- !app_assoc; reflexivity).
       rewrite listed_after_app.
       - rewrite rows_from_eq. cbn [app listed_after]. fold PX. unfold at_path at 1 2. cbn [rpath fst].
         rewrite E1, path_eqb_refl. reflexivity.
       - intros r Hr. apply in_app_or in Hr as [Hr|Hr].
         + split; apply not_under_not_at; apply H2; apply in_or_app; left; exact Hr.
         + split; apply not_under_not_at; [apply HL1; exact Hr|].
           eapply frows_names_not_under; [|exact Hr]. intros k Hk.
           apply (names_neq_mid (L1 ++ F :: L2) R D k Hnd'). apply in_or_app. left. apply in_or_app. left. exact Hk. }
  rewrite Hdc. unfold reroot. cbn [fst snd]. fold (sub_rows (rows t) PX). rewrite Hsub.
  replace (length PX - 1) with (length PQ) by (unfold PX; rewrite app_length; cbn; lia).
  rewrite (reroot_rows_from F PQ PQ false). reflexivity.
Qed.

(* ============================================================================================== *)
(* Part 16.  The string layer for full paths under a single-character separator that occurs in no    *)
(* name: normalisation, the argument checks and the two path look-ups, for the plain shift.        *)

Definition sepfree (c : N) (w : str) : Prop := w <> [] /\ ~ In c w.

Lemma startswith1 c y t : startswith (y :: t) [c] = N.eqb c y.
Proof. cbn. apply andb_true_r. Qed.

Lemma replace_go_id c : forall fuel s, length s < fuel -> replace_go fuel [c] [c] s = s.
Proof.
  induction fuel as [|f IH]; intros s H; [lia|]. destruct s as [|y t]; [reflexivity|].
  cbn [replace_go]. rewrite startswith1. cbn [length] in H. destruct (N.eqb c y) eqn:E.
  - apply N.eqb_eq in E. subst. cbn [length skipn app]. f_equal. apply IH. lia.
  - f_equal. apply IH. lia.
Qed.

Lemma replace_id c s : replace s [c] [c] = s.
Proof. unfold replace. apply replace_go_id. lia. Qed.

Lemma lstrip_noop c y t : y <> c -> lstrip (y :: t) [c] = y :: t.
Proof. intros H. cbn. replace (N.eqb y c) with false by (symmetry; apply N.eqb_neq; exact H). reflexivity. Qed.

Lemma rstrip_noop c s y : last s y <> c -> s <> [] -> rstrip s [c] = s.
Proof.
  intros H Hs. unfold rstrip. destruct s as [|a s] using rev_ind; [congruence|].
  rewrite rev_app_distr. cbn [rev app]. rewrite last_last in H. rewrite lstrip_noop by exact H.
  cbn [rev]. rewrite rev_involutive. reflexivity.
Qed.

Lemma join_cons2 sp x y t : join sp (x :: y :: t) = x ++ sp ++ join sp (y :: t).
Proof. reflexivity. Qed.

Lemma join_nonempty c comps : comps <> [] -> Forall (sepfree c) comps -> join [c] comps <> [].
Proof.
  intros Hne Hf. destruct comps as [|w ws]; [congruence|]. inversion Hf as [|? ? [Hw _] _]; subst.
  destruct ws; cbn; [exact Hw|]. destruct w; [congruence|discriminate].
Qed.

Lemma join_hd c comps d : comps <> [] -> Forall (sepfree c) comps -> hd d (join [c] comps) <> c.
Proof.
  intros Hne Hf. destruct comps as [|w ws]; [congruence|]. inversion Hf as [|? ? [Hw Hc] _]; subst.
  destruct w as [|a w]; [congruence|]. assert (a <> c) by (intros ->; apply Hc; left; reflexivity).
  destruct ws; cbn; exact H.
Qed.

Lemma last_app_ne {A} (a b : list A) d : b <> [] -> last (a ++ b) d = last b d.
Proof.
  intros Hb. destruct b as [|x b] using rev_ind; [congruence|]. rewrite app_assoc, !last_last. reflexivity.
Qed.

Lemma join_last c : forall comps d, comps <> [] -> Forall (sepfree c) comps -> last (join [c] comps) d <> c.
Proof.
  induction comps as [|w ws IH]; intros d Hne Hf; [congruence|]. inversion Hf as [|? ? [Hw Hc] Hf']; subst.
  destruct ws as [|w' ws].
  - cbn [join]. destruct w as [|a w] using rev_ind; [congruence|]. rewrite last_last.
    intros ->. apply Hc. apply in_or_app. right. left. reflexivity.
  - rewrite join_cons2. rewrite app_assoc.
    assert (Hj : join [c] (w' :: ws) <> []) by (apply join_nonempty; [discriminate|exact Hf']).
    rewrite last_app_ne by exact Hj. apply IH; [discriminate|exact Hf'].
Qed.

(* split at a single-character separator *)
Lemma split_go_word c : forall w fuel cur rest,
  ~ In c w -> length w + length rest < fuel ->
  split_go fuel [c] cur (w ++ rest) = split_go (fuel - length w) [c] (rev w ++ cur) rest.
Proof.
  induction w as [|a w IH]; intros fuel cur rest Hc Hf; [rewrite Nat.sub_0_r; reflexivity|].
  destruct fuel as [|f]; [cbn in Hf; lia|]. cbn [app split_go]. rewrite startswith1.
  replace (N.eqb c a) with false by (symmetry; apply N.eqb_neq; intros ->; apply Hc; left; reflexivity).
  cbn [length] in *. rewrite IH; [|intros Hin; apply Hc; right; exact Hin|lia].
  cbn [rev Nat.sub]. rewrite <- app_assoc. reflexivity.
Qed.

Lemma split_go_join c : forall comps fuel cur,
  comps <> [] -> Forall (fun w => ~ In c w) comps -> length (join [c] comps) < fuel ->
  split_go fuel [c] cur (join [c] comps) = (rev cur ++ hd [] comps) :: tl comps.
Proof.
  induction comps as [|w ws IH]; intros fuel cur Hne Hf Hfuel; [congruence|].
  inversion Hf as [|? ? Hw Hf']; subst. destruct ws as [|w' ws].
  - cbn [join hd tl]. rewrite <- (app_nil_r w) at 1. rewrite split_go_word; [|exact Hw|cbn [join] in Hfuel; cbn; lia].
    destruct (fuel - length w) eqn:E; cbn [split_go]; rewrite rev_app_distr, rev_involutive; reflexivity.
  - rewrite join_cons2 in *. rewrite !app_length in Hfuel. cbn [length] in Hfuel.
    rewrite split_go_word; [|exact Hw|rewrite app_length; cbn [length]; lia].
    destruct (fuel - length w) as [|f] eqn:E; [lia|]. cbn [app split_go]. rewrite startswith1, N.eqb_refl.
    cbn [length skipn hd tl]. rewrite rev_app_distr, rev_involutive. f_equal.
    match type of Hfuel with _ + (_ + length ?j) < _ => assert (Hlt : length j < f) by lia end.
    exact (IH f [] ltac:(discriminate) Hf' Hlt).
Qed.

Lemma split_join c comps :
  comps <> [] -> Forall (sepfree c) comps -> split (join [c] comps) [c] = comps.
Proof.
  intros Hne Hf. unfold split. rewrite split_go_join; [destruct comps; [congruence|reflexivity]|exact Hne| |lia].
  eapply Forall_impl; [|exact Hf]. intros w [_ H]. exact H.
Qed.

Lemma norm_path c comps :
  comps <> [] -> Forall (sepfree c) comps ->
  replace (rstrip (join [c] comps) [c]) [c] [c] = join [c] comps
  /\ split (lstrip (join [c] comps) [c]) [c] = comps
  /\ split (lstrip (rstrip (join [c] comps) [c]) [c]) [c] = comps
  /\ split (rstrip (lstrip (join [c] comps) [c]) [c]) [c] = comps.
Proof.
  intros Hne Hf.
  assert (Hr : rstrip (join [c] comps) [c] = join [c] comps).
  { apply (rstrip_noop c _ c); [apply join_last; assumption|apply join_nonempty; assumption]. }
  assert (Hl : lstrip (join [c] comps) [c] = join [c] comps).
  { pose proof (join_hd c comps c Hne Hf) as Hh. pose proof (join_nonempty c comps Hne Hf) as Hn.
    destruct (join [c] comps) as [|y t]; [congruence|]. apply lstrip_noop. exact Hh. }
  rewrite Hr, Hl, Hr, replace_id, split_join by assumption. auto.
Qed.

(* -- find_full_path on a well-formed tree --------------------------------------------------------- *)

Lemma name_idx_unique (ks : list tree) : forall i k n,
  NoDup (map tname ks) -> nth_error ks i = Some k -> name_idx (tname k) n ks = [n + i].
Proof.
  induction ks as [|k0 ks IH]; intros i k n Hn Hi; [destruct i; discriminate|].
  cbn [map] in Hn. inversion Hn as [|? ? Hnotin Hn']; subst. cbn [name_idx]. destruct i as [|i]; cbn in Hi.
  - inversion Hi; subst. rewrite str_eqb_refl, Nat.add_0_r. rewrite name_idx_none; [reflexivity|].
    intros k' Hk' E. apply Hnotin. rewrite <- E. apply in_map. exact Hk'.
  - replace (str_eqb (tname k0) (tname k)) with false.
    + cbn [app]. rewrite (IH i k (S n) Hn' Hi). f_equal. lia.
    + symmetry. apply str_eqb_neq. intros E. apply Hnotin. rewrite E. apply in_map. eapply nth_error_In. exact Hi.
Qed.

Lemma walk_names_complete : forall p (ks : forest) here pre names,
  wf_f ks -> fpath pre p ks = Some (pre ++ names) -> walk_names ks here names = Ret (Some (here ++ p)).
Proof.
  induction p as [|i p IH]; intros ks here pre names Hwf HP.
  - cbn in HP. inversion HP as [E]. rewrite <- (app_nil_r pre) in E at 1. apply app_inv_head in E. subst names.
    cbn. rewrite app_nil_r. reflexivity.
  - cbn [fpath] in HP. destruct (nth_error ks i) as [k|] eqn:Ek; [|discriminate].
    destruct (fpath_ext _ _ _ _ HP) as [rest [E _]]. rewrite <- app_assoc in E. apply app_inv_head in E. cbn [app] in E.
    subst names. cbn [walk_names]. rewrite (name_idx_unique ks i k 0 (proj1 Hwf) Ek). cbn [Nat.add]. rewrite Ek.
    assert (Hk : wf_t k) by (destruct Hwf as [_ Hf]; rewrite Forall_forall in Hf; apply Hf; eapply nth_error_In; exact Ek).
    rewrite (IH (tkids k) (here ++ [i]) (pre ++ [tname k]) rest (wf_t_kids _ Hk)).
    + rewrite <- app_assoc. reflexivity.
    + rewrite HP, <- app_assoc. reflexivity.
Qed.

Lemma walk_names_sound : forall names (ks : forest) here r,
  wf_f ks -> walk_names ks here names = Ret (Some r) ->
  exists p, r = here ++ p /\ length p = length names /\ forall pre, fpath pre p ks = Some (pre ++ names).
Proof.
  induction names as [|c names IH]; intros ks here r Hwf H; cbn [walk_names] in H.
  - inversion H; subst. exists []. rewrite app_nil_r. split; [reflexivity|]. split; [reflexivity|].
    intros pre. cbn. rewrite app_nil_r. reflexivity.
  - destruct (name_idx_spec c ks (proj1 Hwf) 0) as [[E _]|[i [k [E [Hi Hc]]]]]; rewrite E in H; [discriminate|].
    cbn [Nat.add] in H. rewrite Hi in H.
    assert (Hk : wf_t k) by (destruct Hwf as [_ Hf]; rewrite Forall_forall in Hf; apply Hf; eapply nth_error_In; exact Hi).
    destruct (IH (tkids k) (here ++ [i]) r (wf_t_kids _ Hk) H) as [p [Hr [Hl Hp]]].
    exists (i :: p). split; [rewrite Hr, <- app_assoc; reflexivity|]. split; [cbn; lia|].
    intros pre. cbn [fpath]. rewrite Hi, Hp, Hc, <- app_assoc. reflexivity.
Qed.

Lemma walk_names_total : forall names (ks : forest) here, wf_f ks -> exists o, walk_names ks here names = Ret o.
Proof.
  induction names as [|c names IH]; intros ks here Hwf; cbn [walk_names]; [eexists; reflexivity|].
  destruct (name_idx_spec c ks (proj1 Hwf) 0) as [[E _]|[i [k [E [Hi Hc]]]]]; rewrite E; [eexists; reflexivity|].
  cbn [Nat.add]. rewrite Hi. apply IH.
  apply wf_t_kids. destruct Hwf as [_ Hf]. rewrite Forall_forall in Hf. apply Hf. eapply nth_error_In. exact Hi.
Qed.

Lemma walk_names_absent t names :
  wf_t t -> names <> [] -> has (rows t) (tname t :: names) = false -> walk_names (tkids t) [0] names = Ret None.
Proof.
  intros Hwf Hne Habs. destruct (walk_names_total names (tkids t) [0] (wf_t_kids _ Hwf)) as [[r|] E]; [|exact E].
  destruct (walk_names_sound names (tkids t) [0] r (wf_t_kids _ Hwf) E) as [p [_ [Hl Hp]]].
  assert (p <> []) by (destruct p; [destruct names; [congruence|discriminate]|discriminate]).
  rewrite (t_has_row t p (tname t :: names) H (Hp [tname t])) in Habs. discriminate.
Qed.

Lemma add_path_comps_ne (f : forest) piece tsep path : path <> [] ->
  add_path_comps f piece tsep path =
  match nth_error f piece with
  | None => Raise Unmodelled
  | Some t => let br := split (rstrip (lstrip path tsep) tsep) tsep in
              if negb (str_eqb (hd [] br) (tname t)) then Raise TreeError else Ret (tl br)
  end.
Proof. intros H. destruct path; [congruence|reflexivity]. Qed.

Lemma truthy_some s : s <> [] -> truthy (Some s) = Some s.
Proof. destruct s; [congruence|reflexivity]. Qed.

Lemma removelast_snoc {A} (l : list A) x : removelast (l ++ [x]) = l.
Proof. apply removelast_last. Qed.

(* DESIGN.md: the whole call, on path strings: plain shift_nodes with with_full_path=True, one pair, a
   single-character separator that occurs in no name involved.  The call passes the argument checks and
   returns without exception; the tree afterwards is the documented edit. *)
Theorem C08_shift_whole_call_stmt (c0 : N) sk t p x comps PX :
  let sep := [c0] in
  let fl := MF sk false false false false true in
  let Q := tname t :: comps in
  wf_t t -> p <> [] -> tget t p = Some x -> tpath t p = Some PX ->
  Forall (sepfree c0) PX -> Forall (sepfree c0) Q ->
  pfx PX Q = false -> has (rows t) (Q ++ [tname x]) = false ->
  let i := MI OpShift fl sep t sep (T None [] [] []) sep [join sep PX] [Some (join sep (Q ++ [tname x]))] in
  valid_call i = true
  /\ exists t2, run i = ([t2], None)
     /\ rows t2 = insert_last (minus (ensure (rows t) [tname t] comps) PX) Q (rows_from Q x)
     /\ edit_cs false true fl (rows t) (rows t) PX (Some (Q ++ [tname x])) = PNext (rows t2) (rows t2).
Proof.
  intros sep fl Q Hwf Hp Hx HPX HfX HfQ Hnotin Habs i. subst sep.
  destruct (t_sub_rows t p x PX Hwf Hp Hx HPX) as [P0 [HP0 _]].
  destruct (tpath_ext _ _ _ HPX) as [restp [HPe Hlp]].
  assert (Hsx : sepfree c0 (tname x)).
  { rewrite HP0 in HfX. apply Forall_app in HfX as [_ H]. inversion H; assumption. }
  assert (HfT : Forall (sepfree c0) (Q ++ [tname x])) by (apply Forall_app; split; [exact HfQ|constructor; [exact Hsx|constructor]]).
  assert (HneX : PX <> []) by (rewrite HPe; discriminate).
  assert (HneQ : Q <> []) by (unfold Q; discriminate).
  assert (HneT : Q ++ [tname x] <> []) by (destruct Q; discriminate).
  destruct (norm_path c0 PX HneX HfX) as [Hx1 [Hx2 [Hx3 Hx4]]].
  destruct (norm_path c0 (Q ++ [tname x]) HneT HfT) as [Ht1 [Ht2 [Ht3 Ht4]]].
  destruct (norm_path c0 Q HneQ HfQ) as [Hq1 [Hq2 [Hq3 Hq4]]].
  set (fp := join [c0] PX) in *. set (tp := join [c0] (Q ++ [tname x])) in *.
  assert (Htpne : tp <> []) by (apply join_nonempty; assumption).
  pose (c := CFG false false [c0] [c0] [c0] fl).
  assert (Hnf : norm_from c fp = fp) by (unfold norm_from, c; cbn [c_sep c_ssep]; exact Hx1).
  assert (Hnt : norm_to c (Some tp) = Some tp).
  { unfold norm_to. rewrite truthy_some by exact Htpne. unfold c. cbn [c_sep c_dsep]. f_equal. exact Ht1. }
  assert (Hsplitf : split fp [c0] = PX) by (apply split_join; assumption).
  assert (Hsplitt : split tp [c0] = Q ++ [tname x]) by (apply split_join; assumption).
  assert (Hcomps : forall cc, In cc comps -> cc <> []).
  { intros cc Hcc. inversion HfQ as [|? ? _ Hf']; subst. rewrite Forall_forall in Hf'. apply (Hf' cc Hcc). }
  (* the argument checks *)
  assert (Hval : cs_validate c [t] [fp] [Some tp] = None).
  { unfold cs_validate. change (c_fl c) with fl. change (c_copy c) with false.
    cbn [f_mc f_ml fl andb length Nat.eqb negb existsb map].
    rewrite Hnf, Hnt. cbn [last_names_ok]. rewrite truthy_some by exact Htpne.
    change (c_ssep c) with [c0]. change (c_dsep c) with [c0].
    rewrite Hsplitf, Hsplitt, last_last. rewrite HP0 at 1. rewrite last_last, str_eqb_refl.
    cbn [andb negb]. unfold roots_ok. change (c_fl c) with fl. change (c_ssep c) with [c0]. change (c_dsep c) with [c0].
    change (dpiece c) with 0.
    cbn [f_full fl negb orb forallb]. rewrite truthy_some by exact Htpne. rewrite Hx2, Ht2. unfold root_name. cbn [nth_error].
    rewrite HPe at 1. cbn [hd app]. unfold Q. cbn [hd app]. rewrite !str_eqb_refl. reflexivity. }
  split.
  { unfold valid_call. change (cfg_of i) with c. cbn [mi_op i is_replace]. change (init_forest i) with [t].
    change (mi_from i) with [fp]. change (mi_to i) with [Some tp]. rewrite Hval. reflexivity. }
  destruct (shift_new_full c t p x comps PX) as [t2 [Hcore Hrows]]; try assumption.
  { split; reflexivity. }
  { reflexivity. }
  exists t2. split; [|split; [exact Hrows|]].
  - unfold run, run_from. cbn [mi_op i is_replace]. change (cfg_of i) with c. change (init_forest i) with [t].
    change (mi_from i) with [fp]. change (mi_to i) with [Some tp].
    unfold copy_or_shift_logic. rewrite (seps_ok_no_refusal false c _ _ eq_refl), Hval.
    cbn [map run_pairs]. rewrite Hnf, Hnt.
    assert (Hpair : cs_pair c [t] fp (Some tp) = ([t2], None)).
    { unfold cs_pair, resolve_from. change (f_full (c_fl c)) with true. cbn iota.
      unfold find_full_path at 1. cbn [nth_error]. change (c_ssep c) with [c0].
      rewrite Hx3. rewrite HPe at 1. cbn [hd tl]. rewrite str_eqb_refl. cbn [negb].
      assert (Hw : walk_names (tkids t) [0] (tl PX) = Ret (Some (0 :: p))).
      { rewrite HPe. cbn [tl]. change (0 :: p) with ([0] ++ p).
        apply (walk_names_complete p (tkids t) [0] [tname t] restp (wf_t_kids _ Hwf)).
        unfold tpath in HPX. rewrite HPX, HPe. reflexivity. }
      rewrite Hw.
      unfold resolve_target. rewrite truthy_some by exact Htpne.
      change (dpiece c) with 0. change (c_dsep c) with [c0].
      unfold find_full_path. cbn [nth_error]. rewrite Ht3. unfold Q at 1. cbn [app hd tl]. rewrite str_eqb_refl. cbn [negb].
      change (tl (Q ++ [tname x])) with (comps ++ [tname x]).
      rewrite (walk_names_absent t (comps ++ [tname x]) Hwf ltac:(destruct comps; discriminate) Habs).
      rewrite Hsplitt, removelast_snoc.
      assert (Hjq : join [c0] Q <> []) by (apply join_nonempty; assumption).
      rewrite add_path_comps_ne by exact Hjq. cbn [nth_error]. cbv zeta. rewrite Hq4.
      unfold Q at 1. cbn [hd tl]. rewrite str_eqb_refl. cbn [negb].
      exact Hcore. }
    rewrite Hpair. reflexivity.
  - rewrite Hrows. apply (edit_cs_shift_new fl t p x comps PX); try assumption; reflexivity.
Qed.

(* ============================================================================================== *)
(* Part 18.  The same for separators of any positive length (Base/StrSep.v): no character of the      *)
(* separator occurs in a name, names are non-empty.                                               *)

Lemma replace_go_same (sp : str) : sp <> [] -> forall fuel s, length s < fuel -> replace_go fuel sp sp s = s.
Proof.
  intros Hsp. induction fuel as [|f IH]; intros s H; [lia|]. destruct s as [|y t]; [reflexivity|].
  cbn [replace_go]. destruct (startswith (y :: t) sp) eqn:E.
  - apply startswith_prefix in E as [r Hr]. rewrite Hr. rewrite skipn_app_exact. f_equal. apply IH.
    rewrite Hr, app_length in H. destruct sp; [congruence|]. cbn [length] in H. lia.
  - f_equal. apply IH. cbn [length] in H. lia.
Qed.

Lemma py_replace_same a sp' s : py_replace s (a :: sp') (a :: sp') = s.
Proof. unfold py_replace, replace. apply replace_go_same; [discriminate|lia]. Qed.

Lemma sgood_sfree_all sp (L : list str) : Forall (sgood sp) L -> Forall (sfree sp) L.
Proof. intros H. eapply Forall_impl; [|exact H]. intros w [_ Hw]. exact Hw. Qed.

Lemma join_nonempty_m sp L : L <> [] -> Forall (sgood sp) L -> join sp L <> [].
Proof.
  intros Hne Hf. destruct L as [|w ws]; [congruence|]. inversion Hf as [|? ? [Hw _] _]; subst.
  destruct ws; cbn; [exact Hw|]. destruct w; [congruence|discriminate].
Qed.

Lemma split_join_m a sp' L : L <> [] -> Forall (sgood (a :: sp')) L -> split (join (a :: sp') L) (a :: sp') = L.
Proof. intros Hne Hf. apply split_join_multi; [exact Hne|apply sgood_sfree_all; exact Hf]. Qed.

Lemma lstrip_join_m sp L : L <> [] -> Forall (sgood sp) L -> lstrip (join sp L) sp = join sp L.
Proof.
  intros Hne Hf. destruct L as [|w ws]; [congruence|]. inversion Hf as [|? ? Hw _]; subst. destruct ws as [|w' ws].
  - cbn [join]. rewrite <- (app_nil_r w). apply lstrip_stop. exact Hw.
  - rewrite join_cons2. apply lstrip_stop. exact Hw.
Qed.

Lemma norm_path_m a sp' L :
  L <> [] -> Forall (sgood (a :: sp')) L ->
  let sp := a :: sp' in
  py_replace (rstrip (join sp L) sp) sp sp = join sp L
  /\ split (lstrip (join sp L) sp) sp = L
  /\ split (lstrip (rstrip (join sp L) sp) sp) sp = L
  /\ split (rstrip (lstrip (join sp L) sp) sp) sp = L.
Proof.
  intros Hne Hf sp.
  assert (Hr : rstrip (join sp L) sp = join sp L) by (apply (rstrip_join_multi sp L [] Hne Hf)).
  assert (Hl : lstrip (join sp L) sp = join sp L) by (apply lstrip_join_m; assumption).
  rewrite Hr, Hl, Hr. unfold sp. rewrite py_replace_same, split_join_m by assumption. auto.
Qed.

Theorem C08_shift_whole_call_multi_stmt (a : N) (sp' : str) sk t p x comps PX :
  let sep := a :: sp' in
  let fl := MF sk false false false false true in
  let Q := tname t :: comps in
  wf_t t -> p <> [] -> tget t p = Some x -> tpath t p = Some PX ->
  Forall (sgood (a :: sp')) PX -> Forall (sgood (a :: sp')) Q ->
  pfx PX Q = false -> has (rows t) (Q ++ [tname x]) = false ->
  let i := MI OpShift fl sep t sep (T None [] [] []) sep [join sep PX] [Some (join sep (Q ++ [tname x]))] in
  valid_call i = true
  /\ exists t2, run i = ([t2], None)
     /\ rows t2 = insert_last (minus (ensure (rows t) [tname t] comps) PX) Q (rows_from Q x)
     /\ edit_cs false true fl (rows t) (rows t) PX (Some (Q ++ [tname x])) = PNext (rows t2) (rows t2).
Proof.
  intros sep fl Q Hwf Hp Hx HPX HfX HfQ Hnotin Habs i. subst sep.
  destruct (t_sub_rows t p x PX Hwf Hp Hx HPX) as [P0 [HP0 _]].
  destruct (tpath_ext _ _ _ HPX) as [restp [HPe Hlp]].
  assert (Hsx : sgood (a :: sp') (tname x)).
  { rewrite HP0 in HfX. apply Forall_app in HfX as [_ H]. inversion H; assumption. }
  assert (HfT : Forall (sgood (a :: sp')) (Q ++ [tname x])) by (apply Forall_app; split; [exact HfQ|constructor; [exact Hsx|constructor]]).
  assert (HneX : PX <> []) by (rewrite HPe; discriminate).
  assert (HneQ : Q <> []) by (unfold Q; discriminate).
  assert (HneT : Q ++ [tname x] <> []) by (destruct Q; discriminate).
  destruct (norm_path_m a sp' PX HneX HfX) as [Hx1 [Hx2 [Hx3 Hx4]]].
  destruct (norm_path_m a sp' (Q ++ [tname x]) HneT HfT) as [Ht1 [Ht2 [Ht3 Ht4]]].
  destruct (norm_path_m a sp' Q HneQ HfQ) as [Hq1 [Hq2 [Hq3 Hq4]]].
  set (fp := join (a :: sp') PX) in *. set (tp := join (a :: sp') (Q ++ [tname x])) in *.
  assert (Htpne : tp <> []) by (apply join_nonempty_m; assumption).
  pose (c := CFG false false (a :: sp') (a :: sp') (a :: sp') fl).
  assert (Hnf : norm_from c fp = fp) by (unfold norm_from, c; cbn [c_sep c_ssep]; exact Hx1).
  assert (Hnt : norm_to c (Some tp) = Some tp).
  { unfold norm_to. rewrite truthy_some by exact Htpne. unfold c. cbn [c_sep c_dsep]. f_equal. exact Ht1. }
  assert (Hsplitf : split fp (a :: sp') = PX) by (apply split_join_m; assumption).
  assert (Hsplitt : split tp (a :: sp') = Q ++ [tname x]) by (apply split_join_m; assumption).
  assert (Hcomps : forall cc, In cc comps -> cc <> []).
  { intros cc Hcc. inversion HfQ as [|? ? _ Hf']; subst. rewrite Forall_forall in Hf'. apply (Hf' cc Hcc). }
  (* the argument checks *)
  assert (Hval : cs_validate c [t] [fp] [Some tp] = None).
  { unfold cs_validate. change (c_fl c) with fl. change (c_copy c) with false.
    cbn [f_mc f_ml fl andb length Nat.eqb negb existsb map].
    rewrite Hnf, Hnt. cbn [last_names_ok]. rewrite truthy_some by exact Htpne.
    change (c_ssep c) with (a :: sp'). change (c_dsep c) with (a :: sp').
    rewrite Hsplitf, Hsplitt, last_last. rewrite HP0 at 1. rewrite last_last, str_eqb_refl.
    cbn [andb negb]. unfold roots_ok. change (c_fl c) with fl. change (c_ssep c) with (a :: sp'). change (c_dsep c) with (a :: sp').
    change (dpiece c) with 0.
    cbn [f_full fl negb orb forallb]. rewrite truthy_some by exact Htpne. rewrite Hx2, Ht2. unfold root_name. cbn [nth_error].
    rewrite HPe at 1. cbn [hd app]. unfold Q. cbn [hd app]. rewrite !str_eqb_refl. reflexivity. }
  split.
  { unfold valid_call. change (cfg_of i) with c. cbn [mi_op i is_replace]. change (init_forest i) with [t].
    change (mi_from i) with [fp]. change (mi_to i) with [Some tp]. rewrite Hval. reflexivity. }
  destruct (shift_new_full c t p x comps PX) as [t2 [Hcore Hrows]]; try assumption.
  { split; reflexivity. }
  { reflexivity. }
  exists t2. split; [|split; [exact Hrows|]].
  - unfold run, run_from. cbn [mi_op i is_replace]. change (cfg_of i) with c. change (init_forest i) with [t].
    change (mi_from i) with [fp]. change (mi_to i) with [Some tp].
    unfold copy_or_shift_logic. rewrite (seps_ok_no_refusal false c _ _ eq_refl), Hval.
    cbn [map run_pairs]. rewrite Hnf, Hnt.
    assert (Hpair : cs_pair c [t] fp (Some tp) = ([t2], None)).
    { unfold cs_pair, resolve_from. change (f_full (c_fl c)) with true. cbn iota.
      unfold find_full_path at 1. cbn [nth_error]. change (c_ssep c) with (a :: sp').
      rewrite Hx3. rewrite HPe at 1. cbn [hd tl]. rewrite str_eqb_refl. cbn [negb].
      assert (Hw : walk_names (tkids t) [0] (tl PX) = Ret (Some (0 :: p))).
      { rewrite HPe. cbn [tl]. change (0 :: p) with ([0] ++ p).
        apply (walk_names_complete p (tkids t) [0] [tname t] restp (wf_t_kids _ Hwf)).
        unfold tpath in HPX. rewrite HPX, HPe. reflexivity. }
      rewrite Hw.
      unfold resolve_target. rewrite truthy_some by exact Htpne.
      change (dpiece c) with 0. change (c_dsep c) with (a :: sp').
      unfold find_full_path. cbn [nth_error]. rewrite Ht3. unfold Q at 1. cbn [app hd tl]. rewrite str_eqb_refl. cbn [negb].
      change (tl (Q ++ [tname x])) with (comps ++ [tname x]).
      rewrite (walk_names_absent t (comps ++ [tname x]) Hwf ltac:(destruct comps; discriminate) Habs).
      rewrite Hsplitt, removelast_snoc.
      assert (Hjq : join (a :: sp') Q <> []) by (apply join_nonempty_m; assumption).
      rewrite add_path_comps_ne by exact Hjq. cbn [nth_error]. cbv zeta. rewrite Hq4.
      unfold Q at 1. cbn [hd tl]. rewrite str_eqb_refl. cbn [negb].
      exact Hcore. }
    rewrite Hpair. reflexivity.
  - rewrite Hrows. apply (edit_cs_shift_new fl t p x comps PX); try assumption; reflexivity.
Qed.


(* ============================================================================================== *)
(* Part 17.  merge_leaves, for a source node all of whose children are leaves (then the leaves are    *)
(* the children, and — unlike merge_children — the source node itself stays).                      *)

Lemma ml_loop_spec nr rest p q : p <> [] -> is_prefix p q = false ->
  forall K (s : tree) cs trk nm,
  length cs = length K ->
  (forall i c, nth_error cs i = Some c -> trk c = 0 :: p ++ [i]) ->
  (exists P, tpath s p = Some P) -> (exists PQ, tpath s q = Some PQ) ->
  qnames q s = Some nm -> NoDup (nm ++ map tname K) ->
  ml_loop nr (t_setk p K s :: rest) cs trk (Some (0 :: q))
  = (t_setk p [] (fold_left (fun s k => t_append q k s) K s) :: rest, None).
Proof.
  intros Hp Hpq. induction K as [|k0 K IH]; intros s cs trk nm Hlen Htrk [P HP] [PQ HPQ] Hnm Hnd.
  - destruct cs; [|discriminate]. reflexivity.
  - destruct cs as [|c0 cs]; [discriminate|]. cbn [ml_loop fold_left].
    rewrite (Htrk 0 c0 eq_refl).
    set (m := t_setk p (k0 :: K) s).
    assert (Hne : p ++ [0] <> []) by (destruct p; discriminate).
    assert (Hg : tget m (p ++ [0]) = Some k0).
    { unfold tget, m, t_setk. rewrite tkids_set_kids. eapply fget_first_child; [exact HP|exact Hp]. }
    assert (Hpq0 : is_prefix (p ++ [0]) q = false) by (apply is_prefix_child_false; left; exact Hpq).
    assert (HPQm : tpath m q = Some PQ).
    { unfold tpath, m, t_setk. rewrite tname_set_kids, tkids_set_kids, fpath_fsetk by (left; exact Hpq). exact HPQ. }
    destruct (fkids_of_fpath _ _ _ _ HPQm) as [kqm Hkqm].
    assert (Hnames : map tname kqm = nm).
    { pose proof (fkids_names_fsetk p q (tkids s) (k0 :: K) Hpq) as E. unfold m, t_setk in Hkqm.
      rewrite tkids_set_kids in Hkqm. rewrite Hkqm in E. unfold qnames in Hnm.
      destruct (fkids q (tkids s)); cbn in *; [|discriminate]. inversion Hnm; subst. inversion E. reflexivity. }
    assert (Hfresh : forall k, In k kqm -> tname k <> tname k0).
    { intros k Hk E. eapply (NoDup_app_disj nm (map tname (k0 :: K)) (tname k0) Hnd).
      - rewrite <- Hnames, <- E. apply in_map. exact Hk.
      - left. reflexivity. }
    destruct (move_in_tree' nr m rest (p ++ [0]) q k0 kqm Hne Hg Hpq0 Hkqm Hfresh (ex_intro _ PQ HPQm)) as [n Hm].
    match goal with |- context [move ?a ?b ?c0' ?d] =>
      replace (move a b c0' d) with
        (MvOk (t_move (p ++ [0]) q k0 m :: rest) (track (0 :: p ++ [0]) ((0 :: adj' (p ++ [0]) q) ++ [n])))
        by (symmetry; exact Hm) end.
    set (t2 := track (0 :: p ++ [0]) ((0 :: adj' (p ++ [0]) q) ++ [n])).
    assert (Ht2q : t2 (0 :: q) = 0 :: q).
    { unfold t2. rewrite track_cons0 by assumption. rewrite adj'_child_removed by (left; exact Hpq). reflexivity. }
    cbn [option_map]. rewrite Ht2q.
    assert (Hmove : t_move (p ++ [0]) q k0 m = t_setk p K (t_append q k0 s)).
    { unfold t_move. rewrite adj'_child_removed by (left; exact Hpq).
      unfold t_remove, m, t_setk, t_append. rewrite !set_kids_set_kids, !tkids_set_kids.
      rewrite fremove_first_child. f_equal. symmetry. eapply fsetk_fappend; [exact HP|exact Hpq]. }
    rewrite Hmove.
    apply (IH (t_append q k0 s) cs (fun z => t2 (trk z)) (nm ++ [tname k0])).
    + cbn in Hlen. lia.
    + intros i c Hc. rewrite (Htrk (S i) c Hc). unfold t2.
      rewrite track_cons0; [|exact Hne|apply is_prefix_sibling_false; lia].
      rewrite adj'_later_sibling. reflexivity.
    + exists P. unfold tpath, t_append. rewrite tname_set_kids, tkids_set_kids.
      apply fpath_fappend_frame. exact HP.
    + exists PQ. unfold tpath, t_append. rewrite tname_set_kids, tkids_set_kids.
      apply fpath_fappend_frame. exact HPQ.
    + unfold qnames, t_append in *. rewrite tkids_set_kids.
      destruct (fkids q (tkids s)) as [kq|] eqn:Ekq; [|discriminate]. cbn in Hnm. inversion Hnm; subst nm.
      rewrite (fkids_fappend_self q _ k0 kq Ekq). cbn. rewrite map_app. reflexivity.
    + rewrite <- app_assoc. exact Hnd.
Qed.

(* the leaves below a node whose children are all leaves are those children *)
Lemma refs_leaf_children here names : forall (ks : list tree) i,
  Forall (fun k => tkids k = []) ks ->
  map (fun e => fst (fst e))
      (filter (fun e => is_leaf (snd e))
         ((fix go (i : nat) (l : list tree) : list (ref * list str * tree) :=
             match l with [] => [] | k :: r => refs_from (here ++ [i]) names k ++ go (S i) r end) i ks))
  = map (fun j => here ++ [j]) (seq i (length ks)).
Proof.
  induction ks as [|k ks IH]; intros i Hl; [reflexivity|]. inversion Hl as [|? ? Hk Hl']; subst.
  cbn [length seq map]. destruct k as [g n a kk]. cbn [tkids] in Hk. subst kk.
  cbn [refs_from app filter is_leaf tkids snd map fst]. f_equal. apply IH. exact Hl'.
Qed.

Lemma leaf_refs_children (f : forest) x t :
  fget x f = Some t -> tkids t <> [] -> Forall (fun k => tkids k = []) (tkids t) ->
  leaf_refs f x = child_refs x (length (tkids t)).
Proof.
  intros Hg Hne Hl. unfold leaf_refs, child_refs. rewrite Hg. destruct t as [g n a ks]. cbn [tkids] in *.
  cbn [refs_from filter is_leaf tkids snd]. destruct ks as [|k0 ks]; [congruence|].
  cbn [map]. apply (refs_leaf_children x [n] (k0 :: ks) 0 Hl).
Qed.

Lemma fkids_fappend_frame p : forall q (f : forest) k ks,
  fkids p f = Some ks -> is_prefix p q = false -> fkids p (fappend q k f) = Some ks.
Proof.
  induction p as [|i p IH]; intros q f k ks Hk Hpq; [discriminate|].
  cbn [fkids] in Hk. destruct (nth_error f i) as [t|] eqn:Et; [|discriminate].
  destruct q as [|j q]; cbn [fappend fkids].
  - rewrite nth_error_app1 by (apply nth_error_Some; congruence). rewrite Et. exact Hk.
  - rewrite is_prefix_cons in Hpq. rewrite nth_error_upd_nth. destruct (Nat.eqb i j) eqn:E.
    + rewrite Et. cbn [option_map]. rewrite tkids_set_kids. cbn [andb] in Hpq.
      destruct p as [|i' p'].
      * destruct q; discriminate.
      * apply IH; assumption.
    + rewrite Et. exact Hk.
Qed.

Lemma app_all_fkids q p : is_prefix p q = false -> forall K (s : tree) ks,
  fkids p (tkids s) = Some ks -> fkids p (tkids (app_all q K s)) = Some ks.
Proof.
  intros Hpq. induction K as [|k K IH]; intros s ks Hk; [exact Hk|]. cbn [app_all fold_left].
  apply IH. unfold t_append. rewrite tkids_set_kids. apply fkids_fappend_frame; assumption.
Qed.

Lemma rows_from_leaf P k : tkids k = [] -> rows_from P k = [(P ++ [tname k], ttag k, tattrs k)].
Proof. intros H. rewrite rows_from_eq, H. reflexivity. Qed.

Lemma frows_leaves P (K : list tree) :
  Forall (fun k => tkids k = []) K -> frows P K = map (fun k => (P ++ [tname k], ttag k, tattrs k)) K.
Proof.
  induction K as [|k K IH]; intros H; [reflexivity|]. inversion H as [|? ? Hk H']; subst.
  rewrite frows_cons, (rows_from_leaf P k Hk), IH by exact H'. reflexivity.
Qed.

Lemma In_insert_last tb H rs r : In r (insert_last tb H rs) <-> In r tb \/ In r rs.
Proof.
  induction tb as [|x tb IH]; cbn [insert_last]; [cbn [In]; tauto|].
  destruct (under H x && negb (existsb (under H) tb)).
  - cbn [In]. rewrite in_app_iff. tauto.
  - cbn [In]. split.
    + intros [E|Hin]; [left; left; exact E|]. apply IH in Hin as [Hin|Hin]; [left; right; exact Hin|right; exact Hin].
    + intros [[E|Hin]|Hin]; [left; exact E| |]; right; apply IH; [left|right]; exact Hin.
Qed.

Lemma ensure_In todo : forall tb d r,
  In r (ensure tb d todo) -> In r tb \/ exists j, rpath r = d ++ firstn (S j) todo.
Proof.
  induction todo as [|c todo IH]; intros tb d r Hr; cbn [ensure] in Hr; [left; exact Hr|].
  apply IH in Hr as [Hr|[j Hj]].
  - destruct (has tb (d ++ [c])); [left; exact Hr|]. apply In_insert_last in Hr as [Hr|[<-|[]]]; [left; exact Hr|].
    right. exists 0. reflexivity.
  - right. exists (S j). rewrite Hj, <- app_assoc. reflexivity.
Qed.

Lemma pfx_firstn d todo j : pfx (d ++ firstn j todo) (d ++ todo) = true.
Proof. rewrite pfx_app_same. rewrite <- (firstn_skipn j todo) at 2. apply pfx_app. Qed.

(* for a node whose children are all leaves, "the leaf rows below PX" = "the rows strictly below PX" *)
Lemma leaves_of_flat_node t p x PX :
  wf_t t -> p <> [] -> tget t p = Some x -> tpath t p = Some PX ->
  tkids x <> [] -> Forall (fun k => tkids k = []) (tkids x) ->
  filter (leaf_in (rows t)) (sub_rows (rows t) PX) = map (fun k => (PX ++ [tname k], ttag k, tattrs k)) (tkids x).
Proof.
  intros Hwf Hp Hx HPX Hne Hl. destruct (t_sub_rows t p x PX Hwf Hp Hx HPX) as [P0 [HP0 Hsub]].
  rewrite Hsub, rows_from_eq, <- HP0, (frows_leaves PX _ Hl).
  assert (Hin : forall k, In k (tkids x) -> In (PX ++ [tname k], ttag k, tattrs k) (rows t)).
  { intros k Hk. assert (In (PX ++ [tname k], ttag k, tattrs k) (sub_rows (rows t) PX)).
    { rewrite Hsub, rows_from_eq, <- HP0, (frows_leaves PX _ Hl). right. apply in_map_iff. exists k. split; [reflexivity|exact Hk]. }
    unfold sub_rows in H. apply filter_In in H. apply H. }
  cbn [filter]. replace (leaf_in (rows t) (PX, ttag x, tattrs x)) with false.
  - apply filter_all. intros r Hr. apply in_map_iff in Hr as [k [<- Hk]].
    unfold leaf_in. cbn [rpath fst]. rewrite existsb_false; [reflexivity|].
    intros r' Hr'. destruct (sunder (PX ++ [tname k]) r') eqn:E; [|reflexivity].
    unfold sunder in E. apply andb_true_iff in E as [E1 E2].
    assert (Hsr : In r' (sub_rows (rows t) (PX ++ [tname k]))) by (unfold sub_rows; apply filter_In; split; assumption).
    rewrite (t_sub_rows_child t p x PX k Hwf Hp Hx HPX Hk), (rows_from_leaf PX k) in Hsr.
    2: { rewrite Forall_forall in Hl. apply Hl. exact Hk. }
    destruct Hsr as [<-|[]]. cbn [rpath fst] in E2. rewrite path_eqb_refl in E2. discriminate.
  - symmetry. unfold leaf_in. cbn [rpath fst]. apply negb_false_iff.
    destruct (tkids x) as [|k0 K] eqn:EK; [congruence|].
    eapply existsb_true; [apply (Hin k0); left; reflexivity|].
    unfold sunder. cbn [rpath fst]. rewrite pfx_app. cbn [andb]. apply negb_true_iff.
    destruct (path_eqb PX (PX ++ [tname k0])) eqn:E; [|reflexivity]. apply path_eqb_eq in E.
    apply (f_equal (@length str)) in E. rewrite app_length in E. cbn in E. lia.
Qed.

Lemma existsb_map' {A B} (g : B -> bool) (h : A -> B) l : existsb g (map h l) = existsb (fun x => g (h x)) l.
Proof. induction l as [|x l IH]; cbn; [reflexivity|]. rewrite IH. reflexivity. Qed.

Lemma minus_rows_leaves t p x PX comps :
  wf_t t -> p <> [] -> tget t p = Some x -> tpath t p = Some PX ->
  Forall (fun k => tkids k = []) (tkids x) -> pfx PX (tname t :: comps) = false ->
  minus_rows (ensure (rows t) [tname t] comps) (map (fun k => (PX ++ [tname k], ttag k, tattrs k)) (tkids x))
  = minus_strict (ensure (rows t) [tname t] comps) PX.
Proof.
  intros Hwf Hp Hx HPX Hl Hnotin. unfold minus_rows, minus_strict. apply filter_ext_in. intros r Hr. f_equal.
  destruct (t_sub_rows t p x PX Hwf Hp Hx HPX) as [P0 [HP0 Hsub]].
  rewrite existsb_map'.
  apply ensure_In in Hr as [Hr|[j Hj]].
  - destruct (sunder PX r) eqn:E.
    + unfold sunder in E. apply andb_true_iff in E as [E1 E2].
      assert (Hsr : In r (sub_rows (rows t) PX)) by (unfold sub_rows; apply filter_In; split; assumption).
      rewrite Hsub, rows_from_eq, <- HP0, (frows_leaves PX _ Hl) in Hsr. destruct Hsr as [<-|Hsr].
      * cbn [rpath fst] in E2. rewrite path_eqb_refl in E2. discriminate.
      * apply in_map_iff in Hsr as [k [<- Hk]]. eapply existsb_true; [exact Hk|]. cbn [rpath fst]. apply path_eqb_refl.
    + apply existsb_false. intros k Hk. cbn [rpath fst].
      destruct (path_eqb (PX ++ [tname k]) (rpath r)) eqn:E2; [|reflexivity]. apply path_eqb_eq in E2.
      unfold sunder in E. rewrite <- E2, pfx_app in E. cbn [andb] in E. apply negb_false_iff, path_eqb_eq in E.
      apply (f_equal (@length str)) in E. rewrite app_length in E. cbn in E. lia.
  - assert (Hnp : pfx PX (rpath r) = false).
    { destruct (pfx PX (rpath r)) eqn:E; [|reflexivity]. rewrite Hj in E.
      pose proof (pfx_firstn [tname t] comps (S j)) as Hf. pose proof (pfx_trans _ _ _ E Hf) as Ht. cbn [app] in Ht. congruence. }
    unfold sunder. rewrite Hnp. cbn [andb]. apply existsb_false. intros k Hk. cbn [rpath fst].
    destruct (path_eqb (PX ++ [tname k]) (rpath r)) eqn:E2; [|reflexivity]. apply path_eqb_eq in E2.
    rewrite <- E2, pfx_app in Hnp. discriminate.
Qed.

(* DESIGN.md "C08_merge_leaves", partial: GUARD = every child of the source node is a leaf (and there is one) *)
Theorem C08_merge_leaves_partial_stmt sep tsep fl t p x comps PX :
  f_mc fl = false -> f_ml fl = true -> wf_t t ->
  p <> [] -> tget t p = Some x -> tpath t p = Some PX ->
  tkids x <> [] -> Forall (fun k => tkids k = []) (tkids x) ->
  (forall cc, In cc comps -> cc <> []) ->
  pfx PX (tname t :: comps) = false ->
  has (rows t) ((tname t :: comps) ++ [tname x]) = false ->
  (forall k, In k (tkids x) -> has (rows t) ((tname t :: comps) ++ [tname k]) = false) ->
  exists t2 rest,
    cs_core (cfg_same false sep tsep fl) [t] (0 :: p) (TNew comps) = (t2 :: rest, None)
    /\ rows t2 = ins_all (tname t :: comps) (tkids x) (minus_strict (ensure (rows t) [tname t] comps) PX)
    /\ edit_cs false true fl (rows t) (rows t) PX (Some ((tname t :: comps) ++ [tname x])) = PNext (rows t2) (rows t2)
    /\ subseq (minus_strict (rows t) PX) (rows t2).
Proof.
  intros Hmc Hml Hwf Hp Hx HPX HKne Hleaf Hne Hnotin Habs Hkabs. set (Q := tname t :: comps) in *.
  set (c := cfg_same false sep tsep fl).
  destruct (add_walk_spec comps [t] [0] [] [tname t] (wf_f_single _ Hwf) ltac:(discriminate) eq_refl Hne)
    as [f' [q [Ha [Hwf' [Hlen [Hrows [Hq [Hpre [Hfr1 Hfr2]]]]]]]]].
  destruct (forest1 f' Hlen) as [t1 ->].
  destruct q as [|q0 q]; [discriminate|]. cbn [is_prefix] in Hpre. rewrite andb_true_r in Hpre.
  apply Nat.eqb_eq in Hpre. subst q0.
  assert (Hwf1 : wf_t t1) by (destruct Hwf' as [_ Hf]; inversion Hf; assumption).
  assert (Hr1 : rows t1 = ensure (rows t) [tname t] comps).
  { unfold frows in Hrows. cbn [flat_map] in Hrows. rewrite !app_nil_r in Hrows. exact Hrows. }
  assert (HQ1 : tpath t1 q = Some Q) by exact Hq.
  assert (HPX1 : tpath t1 p = Some PX) by exact (Hfr2 (0 :: p) PX HPX).
  assert (Hpq : is_prefix p q = false).
  { destruct (is_prefix p q) eqn:E; [|reflexivity].
    rewrite (fpath_prefix_mono _ _ _ _ _ _ E HPX1 HQ1) in Hnotin. discriminate. }
  assert (Hx1 : tget t1 p = Some x).
  { unfold tget. rewrite <- (fget_cons0 p t1 []) by exact Hp. apply Hfr1.
    - rewrite is_prefix_cons. cbn. exact Hpq.
    - rewrite fget_cons0 by exact Hp. exact Hx. }
  set (K := tkids x) in *. set (s := t_strip p t1).
  assert (Hwfs : wf_t s) by (apply wf_t_set_kids, wf_fsetk_nil, wf_t_kids; exact Hwf1).
  assert (HQs : tpath s q = Some Q).
  { unfold tpath, s, t_strip. rewrite tname_set_kids, tkids_set_kids, fpath_fsetk by (left; exact Hpq). exact HQ1. }
  assert (HPXs : tpath s p = Some PX).
  { unfold tpath, s, t_strip. rewrite tname_set_kids, tkids_set_kids, fpath_fsetk by (right; reflexivity). exact HPX1. }
  assert (Hrs : rows s = minus_strict (rows t1) PX) by (apply rows_t_strip; assumption).
  assert (Hks : fkids p (tkids t1) = Some K).
  { rewrite fkids_fget by exact Hp. unfold tget in Hx1. rewrite Hx1. reflexivity. }
  assert (Hwfx : wf_t x) by (apply (wf_tget t p x Hwf Hx)).
  destruct (fkids_of_fpath _ _ _ _ HQs) as [kq Hkq].
  assert (Hhas_s : forall k, In k K -> has (rows s) (Q ++ [tname k]) = false).
  { intros k Hk. rewrite Hrs. unfold minus_strict. apply has_filter_false.
    rewrite Hr1, has_ensure_long; [apply Hkabs; exact Hk|]. unfold Q. rewrite app_length. cbn [length]. lia. }
  assert (Hnd : NoDup (map tname kq ++ map tname K)).
  { apply NoDup_app_intro.
    - apply (wf_fkids q (tkids s) kq (wf_t_kids _ Hwfs) Hkq).
    - apply (wf_t_kids _ Hwfx).
    - intros n Hn1 Hn2. apply in_map_iff in Hn2 as [k [<- Hk]].
      pose proof (Hhas_s k Hk) as Hh. rewrite (t_has_child s q Q kq (tname k) Hwfs HQs Hkq) in Hh.
      apply in_map_iff in Hn1 as [k' [E Hk']].
      assert (existsb (fun k0 => str_eqb (tname k0) (tname k)) kq = true)
        by (eapply existsb_true; [exact Hk'|apply str_eqb_eq; exact E]). congruence. }
  assert (Hqn : qnames q s = Some (map tname kq)) by (unfold qnames; rewrite Hkq; reflexivity).
  assert (HKwf : Forall wf_t K) by (apply (wf_t_kids _ Hwfx)).
  destruct (app_all_facts q Q K s (map tname kq) Hwfs HQs Hqn Hnd HKwf) as [Hwfn [Hrn Hfrn]].
  set (sn := app_all q K s) in *.
  assert (Hsn : t_setk p [] sn = sn).
  { apply t_setk_id. unfold sn. apply app_all_fkids; [exact Hpq|].
    unfold s, t_strip. rewrite tkids_set_kids. eapply fkids_fsetk_self. exact HPX1. }
  assert (Hrows2 : rows sn = ins_all Q K (minus_strict (ensure (rows t) [tname t] comps) PX)) by (rewrite Hrn, Hrs, Hr1; reflexivity).
  exists sn, []. split; [|split; [exact Hrows2|split]].
  - unfold cs_core. change (dpiece c) with 0. rewrite Ha. change (f_mc (c_fl c)) with (f_mc fl). rewrite Hmc.
    unfold attach. change (c_copy c) with false. change (f_ml (c_fl c)) with (f_ml fl). rewrite Hml.
    cbn [orb andb negb]. rewrite is_prefix_cons. cbn [Nat.eqb andb]. rewrite Hpq.
    assert (Hg0 : fget (0 :: p) [t1] = Some x) by (rewrite fget_cons0 by exact Hp; exact Hx1).
    rewrite (leaf_refs_children [t1] (0 :: p) x Hg0 HKne Hleaf). fold K.
    assert (Ht1 : t1 = t_setk p K s).
    { unfold t_setk, s, t_strip. rewrite set_kids_set_kids, tkids_set_kids, fsetk_fsetk, (fsetk_id p _ _ Hks).
      symmetry. apply set_kids_id. }
    pose proof (ml_loop_spec (nroots c) [] p q Hp Hpq K s (child_refs (0 :: p) (length K)) (fun z => z) (map tname kq)
                  (length_child_refs _ _)) as Hloop.
    rewrite <- Ht1 in Hloop.
    assert (Hloop' := Hloop (fun i c0 Hc0 => child_refs_nth _ _ _ _ Hc0) (ex_intro _ PX HPXs) (ex_intro _ Q HQs) Hqn Hnd).
    fold (app_all q K s) in Hloop'. fold sn in Hloop'. rewrite Hsn in Hloop'.
    match goal with |- ?lhs = _ => match type of Hloop' with ?lhs' = _ => replace lhs with lhs' by reflexivity end end.
    exact Hloop'.
  - rewrite Hrows2.
    destruct (t_sub_rows t p x PX Hwf Hp Hx HPX) as [P0 [HP0 Hsub]].
    destruct (tpath_ext _ _ _ HPX) as [rest0 [HPe Hl]].
    assert (Hk2 : Nat.eqb (length PX) 1 = false).
    { apply Nat.eqb_neq. rewrite HPe. cbn [length]. destruct p; [congruence|cbn in Hl; lia]. }
    assert (Hneq : PX <> Q ++ [tname x]).
    { intros E. rewrite <- E in Habs. rewrite (t_has_row t p PX Hp HPX) in Habs. discriminate. }
    unfold edit_cs. rewrite Hk2. cbn [negb andb].
    rewrite removelast_last, !last_last. rewrite HP0 at 1. rewrite last_last, str_eqb_refl. cbn [negb].
    replace (path_eqb (Q ++ [tname x]) PX) with false.
    2: { symmetry. destruct (path_eqb (Q ++ [tname x]) PX) eqn:E; [|reflexivity]. apply path_eqb_eq in E. congruence. }
    rewrite (pfx_snoc_false PX Q (tname x) Hnotin Hneq). cbn [andb]. rewrite Habs.
    replace (Nat.ltb (length (Q ++ [tname x])) 2) with false.
    2: { symmetry. apply Nat.ltb_ge. rewrite app_length. unfold Q. cbn [length]. lia. }
    rewrite Hmc, Hml.
    assert (He : ensure (rows t) [] Q = ensure (rows t) [tname t] comps).
    { unfold Q. cbn [ensure app]. rewrite has_root. reflexivity. }
    rewrite He. fold (sub_rows (rows t) PX).
    rewrite (leaves_of_flat_node t p x PX Hwf Hp Hx HPX HKne Hleaf). unfold K.
    rewrite (minus_rows_leaves t p x PX comps Hwf Hp Hx HPX Hleaf Hnotin). fold K.
    rewrite map_map. cbn [rpath fst].
    rewrite (map_ext_in _ (fun k => (S (length PX), rows_from PX k))).
    2: { intros k Hk. rewrite app_length. cbn [length]. rewrite Nat.add_1_r. f_equal. symmetry. apply rows_from_leaf.
         rewrite Forall_forall in Hleaf. apply Hleaf. exact Hk. }
    rewrite (attach_items_children Q (length PX) K _) with (PX := PX); [reflexivity| |apply (wf_t_kids _ Hwfx)|reflexivity].
    intros k Hk. unfold minus_strict. apply has_filter_false.
    rewrite has_ensure_long; [apply Hkabs; exact Hk|]. unfold Q. rewrite app_length. cbn [length]. lia.
  - rewrite Hrows2. eapply subseq_trans; [|apply subseq_ins_all]. apply subseq_filter_mono. apply subseq_ensure.
Qed.

(* ============================================================================================== *)
(* Part 19.  merge_children onto a destination node that already exists.                           *)

(* the attach step of merge_children, for any destination node q that is not inside the source subtree *)
Lemma mc_attach c t1 p q x PX Q :
  c_copy c = false -> f_dc (c_fl c) = false -> wf_t t1 ->
  p <> [] -> tget t1 p = Some x -> tpath t1 p = Some PX -> tpath t1 q = Some Q -> is_prefix p q = false ->
  (forall k, In k (tkids x) -> has (rows t1) (Q ++ [tname k]) = false) ->
  exists t2 y,
    attach c true [t1] (0 :: p) (Some (0 :: q)) = ([t2; set_kids y []], None)
    /\ rows t2 = minus (ins_all Q (tkids x) (minus_strict (rows t1) PX)) PX.
Proof.
  intros Hc Hdc Hwf1 Hp Hx1 HPX1 HQ1 Hpq Hkabs.
  set (K := tkids x) in *. set (s := t_strip p t1).
  assert (Hwfs : wf_t s) by (apply wf_t_set_kids, wf_fsetk_nil, wf_t_kids; exact Hwf1).
  assert (HQs : tpath s q = Some Q).
  { unfold tpath, s, t_strip. rewrite tname_set_kids, tkids_set_kids, fpath_fsetk by (left; exact Hpq). exact HQ1. }
  assert (HPXs : tpath s p = Some PX).
  { unfold tpath, s, t_strip. rewrite tname_set_kids, tkids_set_kids, fpath_fsetk by (right; reflexivity). exact HPX1. }
  assert (Hrs : rows s = minus_strict (rows t1) PX) by (apply rows_t_strip; assumption).
  assert (Hks : fkids p (tkids t1) = Some K).
  { rewrite fkids_fget by exact Hp. unfold tget in Hx1. rewrite Hx1. reflexivity. }
  assert (Hwfx : wf_t x) by (apply (wf_tget t1 p x Hwf1 Hx1)).
  destruct (fkids_of_fpath _ _ _ _ HQs) as [kq Hkq].
  assert (Hhas_s : forall k, In k K -> has (rows s) (Q ++ [tname k]) = false).
  { intros k Hk. rewrite Hrs. unfold minus_strict. apply has_filter_false. apply Hkabs. exact Hk. }
  assert (Hnd : NoDup (map tname kq ++ map tname K)).
  { apply NoDup_app_intro.
    - apply (wf_fkids q (tkids s) kq (wf_t_kids _ Hwfs) Hkq).
    - apply (wf_t_kids _ Hwfx).
    - intros n Hn1 Hn2. apply in_map_iff in Hn2 as [k [<- Hk]].
      pose proof (Hhas_s k Hk) as Hh. rewrite (t_has_child s q Q kq (tname k) Hwfs HQs Hkq) in Hh.
      apply in_map_iff in Hn1 as [k' [E Hk']].
      assert (existsb (fun k0 => str_eqb (tname k0) (tname k)) kq = true)
        by (eapply existsb_true; [exact Hk'|apply str_eqb_eq; exact E]). congruence. }
  assert (Hqn : qnames q s = Some (map tname kq)) by (unfold qnames; rewrite Hkq; reflexivity).
  assert (HKwf : Forall wf_t K) by (apply (wf_t_kids _ Hwfx)).
  destruct (app_all_facts q Q K s (map tname kq) Hwfs HQs Hqn Hnd HKwf) as [Hwfn [Hrn Hfrn]].
  set (sn := app_all q K s) in *.
  assert (HPXn : tpath sn p = Some PX) by (apply Hfrn; exact HPXs).
  destruct (fpath_fget _ _ _ _ Hp HPXn) as [y Hy].
  exists (t_remove p sn), y. split.
  - unfold attach. rewrite Hc. cbn [orb andb]. rewrite fkids_cons0, Hks, Hdc.
    assert (Ht1 : t1 = t_setk p K s).
    { unfold t_setk, s, t_strip. rewrite set_kids_set_kids, tkids_set_kids, fsetk_fsetk, (fsetk_id p _ _ Hks).
      symmetry. apply set_kids_id. }
    pose proof (mc_loop_spec (nroots c) [] p q Hp Hpq K s (child_refs (0 :: p) (length K)) (fun z => z) (map tname kq)
                  (length_child_refs _ _)) as Hloop.
    rewrite <- Ht1 in Hloop.
    assert (Hloop' := Hloop (fun i c0 Hc0 => child_refs_nth _ _ _ _ Hc0) (ex_intro _ PX HPXs) (ex_intro _ Q HQs) Hqn Hnd).
    fold (app_all q K s) in Hloop'. fold sn in Hloop'.
    match goal with |- context [mc_loop ?a ?b ?c0 ?d ?e ?g ?h] =>
      replace (mc_loop a b c0 d e g h) with ([t_setk p [] sn], @Ret ref (0 :: p)) by (symmetry; exact Hloop') end.
    assert (Hgm : tget (t_setk p [] sn) p = Some (set_kids y [])).
    { unfold tget, t_setk. rewrite tkids_set_kids. apply fget_fsetk_self. exact Hy. }
    pose proof (detach_in_tree (nroots c) (t_setk p [] sn) [] p (set_kids y []) Hp Hgm) as Hm.
    match goal with |- context [move ?a ?b ?c0 ?d] =>
      replace (move a b c0 d) with
        (MvOk ((t_remove p (t_setk p [] sn) :: []) ++ [set_kids y []]) (track (0 :: p) [1])) by (symmetry; exact Hm) end.
    cbn [app]. f_equal. f_equal. unfold t_remove, t_setk. rewrite set_kids_set_kids, tkids_set_kids.
    rewrite fremove_fsetk by exact Hp. reflexivity.
  - rewrite (rows_t_remove sn p PX Hwfn Hp HPXn), Hrn, Hrs. reflexivity.
Qed.

Lemma t_has_path t q Q : tpath t q = Some Q -> has (rows t) Q = true.
Proof.
  intros HQ. destruct q as [|i q]; [|apply (t_has_row t (i :: q) Q ltac:(discriminate) HQ)].
  unfold tpath in HQ. cbn in HQ. inversion HQ. apply has_root.
Qed.

(* DESIGN.md "C08_merge_children", destination PRESENT (merge_children without overriding): the children of the
   source node are appended, in order and as the same objects, after the destination's own children; the
   source node is detached; the destination node and everything else keep row, tag and order (subseq). *)
Theorem C08_merge_children_existing_stmt sep tsep fl t p d x PX PD :
  f_mc fl = true -> f_over fl = false -> f_dc fl = false -> wf_t t ->
  p <> [] -> tget t p = Some x -> tpath t p = Some PX -> tpath t d = Some PD ->
  pfx PX PD = false -> last PD [] = tname x ->
  (forall k, In k (tkids x) -> has (rows t) (PD ++ [tname k]) = false) ->
  exists t2 rest,
    cs_core (cfg_same false sep tsep fl) [t] (0 :: p) (TNode (0 :: d)) = (t2 :: rest, None)
    /\ rows t2 = minus (ins_all PD (tkids x) (minus_strict (rows t) PX)) PX
    /\ edit_cs false true fl (rows t) (rows t) PX (Some PD) = PNext (rows t2) (rows t2)
    /\ subseq (minus (rows t) PX) (rows t2).
Proof.
  intros Hmc Hov Hdc Hwf Hp Hx HPX HPD Hnotin Hlast Hkabs.
  set (c := cfg_same false sep tsep fl).
  assert (Hpd : is_prefix p d = false) by (eapply not_pfx_not_prefix; eassumption).
  destruct (mc_attach c t p d x PX PD eq_refl Hdc Hwf Hp Hx HPX HPD Hpd Hkabs) as [t2 [y [Hatt Hrows2]]].
  exists t2, [set_kids y []]. split; [|split; [exact Hrows2|split]].
  - unfold cs_core.
    replace (ref_eqb (0 :: p) (0 :: d)) with false.
    2: { symmetry. unfold ref_eqb. cbn [list_eqb Nat.eqb andb]. destruct (list_eqb Nat.eqb p d) eqn:E; [|reflexivity].
         assert (p = d).
         { clear -E. revert d E. induction p as [|a p IH]; intros [|b d] E; cbn in E; try discriminate; [reflexivity|].
           apply andb_true_iff in E as [E1 E2]. apply Nat.eqb_eq in E1. subst. f_equal. apply IH. exact E2. }
         subst. rewrite is_prefix_refl in Hpd. discriminate. }
    change (f_mc (c_fl c)) with (f_mc fl). change (f_over (c_fl c)) with (f_over fl). rewrite Hmc, Hov. cbn [negb].
    exact Hatt.
  - rewrite Hrows2.
    destruct (t_sub_rows t p x PX Hwf Hp Hx HPX) as [P0 [HP0 Hsub]].
    destruct (tpath_ext _ _ _ HPX) as [rest0 [HPe Hl]].
    assert (Hk2 : Nat.eqb (length PX) 1 = false).
    { apply Nat.eqb_neq. rewrite HPe. cbn [length]. destruct p; [congruence|cbn in Hl; lia]. }
    assert (Hwfx : wf_t x) by (apply (wf_tget t p x Hwf Hx)).
    unfold edit_cs. rewrite Hk2. cbn [negb andb].
    rewrite HP0 at 1. rewrite last_last, Hlast, str_eqb_refl. cbn [negb].
    replace (path_eqb PD PX) with false.
    2: { symmetry. destruct (path_eqb PD PX) eqn:E; [|reflexivity]. apply path_eqb_eq in E.
         rewrite E, pfx_refl in Hnotin. discriminate. }
    rewrite Hnotin. cbn [andb]. rewrite (t_has_path t d PD HPD). rewrite Hmc, Hov, Hdc. cbn [negb andb].
    rewrite (t_child_rows t p x PX Hwf Hp Hx HPX), map_map. cbn [rpath fst].
    rewrite (map_ext_in _ (fun k => (S (length PX), rows_from PX k))).
    2: { intros k Hk. f_equal. apply (t_sub_rows_child t p x PX k Hwf Hp Hx HPX Hk). }
    rewrite (attach_items_children PD (length PX) (tkids x) _) with (PX := PX);
      [reflexivity| |apply (wf_t_kids _ Hwfx)|reflexivity].
    intros k Hk. unfold minus_strict. apply has_filter_false. apply Hkabs. exact Hk.
  - rewrite Hrows2. rewrite <- (minus_minus_strict (rows t) PX). apply subseq_filter_mono. apply subseq_ins_all.
Qed.

(* ============================================================================================== *)
(* Part 20.  Copies are made of new objects.                                                        *)

Lemma rows_retag_fresh x : forall P r, In r (rows_from P (retag x)) -> rtag r = None.
Proof.
  induction x as [g n a ks IH] using tree_ind'. intros P r Hr. cbn [retag rows_from] in Hr.
  destruct Hr as [<-|Hr]; [reflexivity|]. apply in_flat_map in Hr as [k' [Hk' Hr]].
  apply in_map_iff in Hk' as [k [<- Hk]]. rewrite Forall_forall in IH. eapply IH; eassumption.
Qed.

Lemma rows_retag_same x : forall P,
  map (fun r => (rpath r, rattrs r)) (rows_from P (retag x)) = map (fun r => (rpath r, rattrs r)) (rows_from P x).
Proof.
  induction x as [g n a ks IH] using tree_ind'. intros P. cbn [retag rows_from map rpath rattrs fst snd]. f_equal.
  rewrite !flat_map_concat_map, !concat_map, !map_map. f_equal.
  apply map_ext_in. intros k Hk. rewrite Forall_forall in IH. apply IH. exact Hk.
Qed.

(* ============================================================================================== *)
(* Part 21.  The predicate the check evaluates on the implementation's output, prop_C08, holds of the   *)
(* model's own output — for the family of calls of C08_shift_whole_call_multi.                    *)

Definition obs_ok (t : tree) : Prop :=
  forall e pre, length pre = e -> forall cur, firstn e cur = pre ->
  exists cur', firstn e cur' = pre /\
    forall rest, table_of_obs cur (flatten (S e) t ++ rest) = rows_from pre t ++ table_of_obs cur' rest.

Lemma obs_forest_of (ks : list tree) : Forall obs_ok ks ->
  forall e pre, length pre = e -> forall cur, firstn e cur = pre ->
  exists cur', firstn e cur' = pre /\
    forall rest, table_of_obs cur (flat_map (flatten (S e)) ks ++ rest) = frows pre ks ++ table_of_obs cur' rest.
Proof.
  induction ks as [|t ks IH]; intros Hall e pre Hlen cur Hcur.
  - exists cur. split; [exact Hcur|]. intros rest. reflexivity.
  - inversion Hall as [|? ? Ht Hks]; subst.
    destruct (Ht _ pre eq_refl cur Hcur) as [c1 [Hc1 H1]].
    destruct (IH Hks _ pre eq_refl c1 Hc1) as [c2 [Hc2 H2]].
    exists c2. split; [exact Hc2|]. intros rest. cbn [flat_map]. rewrite <- app_assoc, H1, H2, frows_cons, <- app_assoc.
    reflexivity.
Qed.

Lemma obs_tree t : obs_ok t.
Proof.
  induction t as [g n a kk IH] using tree_ind'. intros e pre Hlen cur Hcur.
  assert (Hp : firstn (S e) (pre ++ [n]) = pre ++ [n]).
  { apply firstn_all2. rewrite app_length. cbn. lia. }
  destruct (obs_forest_of kk IH (S e) (pre ++ [n]) ltac:(rewrite app_length; cbn; lia) (pre ++ [n]) Hp) as [c1 [Hc1 H1]].
  assert (Hc1' : firstn e c1 = pre).
  { assert (E : firstn e c1 = firstn e (firstn (S e) c1)) by (rewrite firstn_firstn; f_equal; lia).
    rewrite E, Hc1, firstn_app, Hlen, Nat.sub_diag. cbn [firstn]. rewrite app_nil_r.
    apply firstn_all2. lia. }
  exists c1. split; [exact Hc1'|]. intros rest.
  cbn [flatten app table_of_obs Nat.sub]. rewrite Nat.sub_0_r, Hcur. cbn [rows_from app]. f_equal. apply H1.
Qed.

Lemma table_of_obs_flatten t : table_of_obs [] (flatten 1 t) = rows t.
Proof.
  destruct (obs_tree t 0 [] eq_refl [] eq_refl) as [c [_ H]]. specialize (H []).
  rewrite !app_nil_r in H. exact H.
Qed.

Lemma val_eqb_refl v : val_eqb v v = true.
Proof. destruct v; cbn; [reflexivity|apply Z.eqb_refl|apply str_eqb_refl|destruct b; reflexivity|apply Z.eqb_refl]. Qed.

Lemma attrs_eqb_refl a : attrs_eqb a a = true.
Proof. induction a as [|[k v] a IH]; cbn; [reflexivity|]. rewrite str_eqb_refl, val_eqb_refl, IH. reflexivity. Qed.

Lemma row_eqb_refl r : row_eqb r r = true.
Proof.
  unfold row_eqb. rewrite path_eqb_refl, attrs_eqb_refl. destruct (rtag r); cbn; [rewrite Nat.eqb_refl|]; reflexivity.
Qed.

Lemma table_eqb_refl tb : table_eqb tb tb = true.
Proof. unfold table_eqb. induction tb as [|r tb IH]; cbn; [reflexivity|]. rewrite row_eqb_refl. exact IH. Qed.

Lemma startswith_hd_false y t sp : sp <> [] -> ~ In y sp -> startswith (y :: t) sp = false.
Proof.
  intros Hsp Hy. destruct sp as [|b sp]; [congruence|]. cbn [startswith].
  replace (N.eqb b y) with false; [reflexivity|]. symmetry. apply N.eqb_neq. intros ->. apply Hy. left. reflexivity.
Qed.

Lemma contains_sfree sp : sp <> [] -> forall w, sfree sp w -> contains w sp = false.
Proof.
  intros Hsp. induction w as [|y w IH]; intros Hf.
  - cbn. destruct sp; [congruence|reflexivity].
  - cbn [contains]. apply sfree_cons in Hf as [Hy Hw]. rewrite (startswith_hd_false y w sp Hsp Hy). cbn [orb].
    apply IH. exact Hw.
Qed.

Lemma join_split_hd sp (L : list str) : L <> [] -> exists rest, join sp L = hd [] L ++ rest.
Proof.
  intros H. destruct L as [|w ws]; [congruence|]. destruct ws; [exists []; cbn; rewrite app_nil_r; reflexivity|].
  rewrite join_cons2. eexists. reflexivity.
Qed.

Lemma join_split_last sp : forall (L : list str), L <> [] -> exists pre, join sp L = pre ++ last L [].
Proof.
  induction L as [|w ws IH]; intros H; [congruence|]. destruct ws as [|w' ws]; [exists []; reflexivity|].
  destruct (IH ltac:(discriminate)) as [pre Hpre]. rewrite join_cons2, Hpre.
  exists (w ++ sp ++ pre). rewrite <- !app_assoc. reflexivity.
Qed.

Lemma startswith_good_false sp x rest : sp <> [] -> sgood sp x -> startswith (x ++ rest) sp = false.
Proof.
  intros Hsp [Hx Hf]. destruct x as [|y x]; [congruence|]. cbn [app]. apply startswith_hd_false; [exact Hsp|].
  intros Hin. apply (Hf y Hin). left. reflexivity.
Qed.

Lemma endswith_good_false sp pre x : sp <> [] -> sgood sp x -> endswith (pre ++ x) sp = false.
Proof.
  intros Hsp [Hx Hf]. unfold endswith. rewrite rev_app_distr.
  assert (G : sgood (rev sp) (rev x)).
  { split.
    - intros E. apply (f_equal (@rev N)) in E. rewrite rev_involutive in E. contradiction.
    - intros ch Hch Hin. apply in_rev in Hch. apply in_rev in Hin. exact (Hf ch Hch Hin). }
  apply startswith_good_false; [|exact G].
  intros E. apply (f_equal (@rev N)) in E. rewrite rev_involutive in E. contradiction.
Qed.

Lemma Forall_hd_last {A} (P : A -> Prop) (L : list A) d : L <> [] -> Forall P L -> P (hd d L) /\ P (last L d).
Proof.
  intros Hne Hf. rewrite Forall_forall in Hf. split; apply Hf.
  - destruct L; [congruence|left; reflexivity].
  - destruct L as [|x L] using rev_ind; [congruence|]. rewrite last_last. apply in_or_app. right. left. reflexivity.
Qed.

(* Spec.parse on a well-formed path string *)
Lemma parse_join a sp' L :
  let sp := a :: sp' in
  L <> [] -> Forall (sgood sp) L -> parse [sp; sp; sp] sp (join sp L) = Some (PQ false L).
Proof.
  intros sp Hne Hf. unfold parse.
  destruct (Forall_hd_last _ L [] Hne Hf) as [Hh Hl].
  destruct (join_split_hd sp L Hne) as [rest Hjh]. destruct (join_split_last sp L Hne) as [pre Hjl].
  assert (Hs : startswith (join sp L) sp = false) by (rewrite Hjh; apply startswith_good_false; [discriminate|exact Hh]).
  rewrite Hs.
  assert (He : endswith (join sp L) sp = false) by (rewrite Hjl; apply endswith_good_false; [discriminate|exact Hl]).
  rewrite He. unfold sp. rewrite split_join_m by assumption.
  replace (forallb _ L) with true; [reflexivity|]. symmetry. apply forallb_forall. intros w Hw.
  rewrite Forall_forall in Hf. destruct (Hf w Hw) as [Hw1 Hw2].
  pose proof (contains_sfree sp ltac:(discriminate) _ Hw2) as Hc.
  destruct w; [congruence|]. cbn [is_empty negb andb forallb]. fold sp. rewrite Hc. reflexivity.
Qed.

(* DESIGN.md section 2: prop_Cxx (model input) = true.  Here for the family of C08_shift_whole_call_multi: the
   predicate that check_C08 evaluates on the implementation's output accepts the model's output. *)
Theorem C08_model_satisfies_prop_shift_stmt (a : N) (sp' : str) sk t p x comps PX :
  let sep := a :: sp' in
  let fl := MF sk false false false false true in
  let Q := tname t :: comps in
  wf_t t -> p <> [] -> tget t p = Some x -> tpath t p = Some PX ->
  Forall (sgood (a :: sp')) PX -> Forall (sgood (a :: sp')) Q ->
  pfx PX Q = false -> has (rows t) (Q ++ [tname x]) = false ->
  let i := MI OpShift fl sep t sep (T None [] [] []) sep [join sep PX] [Some (join sep (Q ++ [tname x]))] in
  trees_ok i = true ->
  prop_C08 i (obs_of i (run i)) None = true.
Proof.
  intros sep fl Q Hwf Hp Hx HPX HfX HfQ Hnotin Habs i Hok. subst sep.
  destruct (C08_shift_whole_call_multi_stmt a sp' sk t p x comps PX Hwf Hp Hx HPX HfX HfQ Hnotin Habs)
    as [_ [t2 [Hrun [Hrows Hedit]]]].
  fold fl in Hedit. fold Q in Hedit, Hrows. fold i in Hrun.
  destruct (t_sub_rows t p x PX Hwf Hp Hx HPX) as [P0 [HP0 _]].
  destruct (tpath_ext _ _ _ HPX) as [restp [HPe _]].
  assert (Hsx : sgood (a :: sp') (tname x)).
  { rewrite HP0 in HfX. apply Forall_app in HfX as [_ H]. inversion H; assumption. }
  assert (HfT : Forall (sgood (a :: sp')) (Q ++ [tname x])) by (apply Forall_app; split; [exact HfQ|constructor; [exact Hsx|constructor]]).
  assert (HneX : PX <> []) by (rewrite HPe; discriminate).
  assert (HneT : Q ++ [tname x] <> []) by (destruct Q; discriminate).
  assert (Htpne : join (a :: sp') (Q ++ [tname x]) <> []) by (apply join_nonempty_m; assumption).
  unfold prop_C08.
  assert (Hspec : spec_call i (mi_from i) (mi_to i) = (true, SDone (rows t2) (rows t2) None)).
  { unfold spec_call. rewrite Hok. cbn [negb]. change (mi_fl i) with fl. change (mi_op i) with OpShift.
    cbn [is_replace is_tt is_copy negb andb f_mc f_ml fl]. change (mi_from i) with [join (a :: sp') PX].
    change (mi_to i) with [Some (join (a :: sp') (Q ++ [tname x]))].
    cbn [length Nat.eqb negb existsb map]. change (mi_sep i) with (a :: sp'). change (mi_ssep i) with (a :: sp').
    change (mi_dsep i) with (a :: sp'). change (mi_src i) with t.
    match goal with |- context [parse ?s1 ?s2 (join ?s3 PX)] =>
      replace (parse s1 s2 (join s3 PX)) with (Some (PQ false PX)) by (symmetry; exact (parse_join a sp' PX HneX HfX)) end.
    unfold parse_to. rewrite truthy_some by exact Htpne.
    match goal with |- context [parse ?s1 ?s2 (join ?s3 (Q ++ [tname x]))] =>
      replace (parse s1 s2 (join s3 (Q ++ [tname x]))) with (Some (PQ false (Q ++ [tname x])))
        by (symmetry; exact (parse_join a sp' (Q ++ [tname x]) HneT HfT)) end. cbn [all_some combine existsb fst snd q_comps].
    rewrite last_last. rewrite HP0 at 1. rewrite last_last, str_eqb_refl. cbn [negb orb andb f_full].
    rewrite HPe at 1. unfold Q at 1. cbn [hd app]. rewrite !str_eqb_refl. cbn [negb orb andb].
    cbn [fold_pairs]. unfold resolve_step. change (mi_fl i) with fl. change (mi_op i) with OpShift.
    cbn [is_replace is_tt is_copy negb f_full fl]. unfold candidates. cbn [q_comps].
    rewrite (t_row_at t p x PX Hwf Hp Hx HPX). cbn [rpath fst option_map q_comps].
    rewrite Hedit. reflexivity. }
  assert (Hrun' : run i = ([t2], None)) by exact Hrun.
  rewrite Hspec. unfold obs_of, matches. rewrite Hrun'. cbn [fst snd code_of o_code o_src Nat.eqb piece nth].
  change (mi_op i) with OpShift. cbn [is_tt negb orb andb].
  rewrite table_of_obs_flatten, table_eqb_refl. reflexivity.
Qed.

(* a refused family, for ALL trees, paths, separators and the remaining flags: merge_children together with
   merge_leaves is ValueError and nothing changes — the model's output satisfies prop_C08 *)
Theorem C08_model_satisfies_prop_both_merges_stmt i :
  is_replace (mi_op i) = false -> f_mc (mi_fl i) = true -> f_ml (mi_fl i) = true ->
  prop_C08 i (obs_of i (run i)) None = true.
Proof.
  intros Hr Hmc Hml. unfold prop_C08, spec_call. destruct (trees_ok i) eqn:Hok; [|reflexivity].
  cbn [negb]. rewrite Hr, Hmc, Hml. cbn [negb andb]. unfold matches.
  assert (Hseps : seps_ok (cfg_of i) = true).
  { unfold trees_ok in Hok. apply andb_true_iff in Hok as [Hok _]. apply andb_true_iff in Hok as [Hok _].
    apply andb_true_iff in Hok as [Hok _]. cbn [forallb] in Hok. unfold seps_ok, cfg_of. cbn [c_sep c_ssep c_dsep].
    apply andb_true_iff in Hok as [H1 Hok]. apply andb_true_iff in Hok as [H2 Hok]. apply andb_true_iff in Hok as [H3 _].
    rewrite H1, H2. cbn [andb]. destruct (is_tt (mi_op i)); [exact H3|exact H2]. }
  assert (Hrun : run i = (init_forest i, Some ValueError)).
  { unfold run, run_from. rewrite Hr. unfold copy_or_shift_logic. rewrite (seps_ok_no_refusal false _ _ _ Hseps).
    unfold cs_validate. unfold cfg_of at 1 2. rewrite Hr. cbn [c_fl]. rewrite Hmc, Hml. reflexivity. }
  unfold obs_of. rewrite Hrun. cbn [fst snd code_of o_code o_src o_dst]. rewrite Nat.eqb_refl. cbn [andb].
  unfold init_forest. destruct (is_tt (mi_op i)); cbn [piece nth negb orb andb];
    rewrite !table_of_obs_flatten, !table_eqb_refl; reflexivity.
Qed.

(* ============================================================================================== *)
(* Part 22.  shift_and_replace_nodes with a source node from an unrelated branch: neither below the   *)
(* replaced node's parent nor an ancestor of it.                                                   *)

Lemma fget_fsetk_other par : forall p (f : forest) K,
  is_prefix par p = false -> is_prefix p par = false -> fget p (fsetk par K f) = fget p f.
Proof.
  induction par as [|i par IH]; intros p f K H1 H2; [discriminate|].
  destruct p as [|j p]; [discriminate|]. rewrite is_prefix_cons in H1, H2. cbn [fsetk fget].
  rewrite nth_error_upd_nth. destruct (Nat.eqb j i) eqn:E; [|reflexivity].
  apply Nat.eqb_eq in E. subst j. rewrite Nat.eqb_refl in H1. cbn [andb] in H1, H2.
  destruct (nth_error f i) as [t|]; [|reflexivity]. cbn [option_map].
  destruct p as [|j' p']; [discriminate|]. rewrite tkids_set_kids. apply IH; assumption.
Qed.

Lemma adj'_app x : forall z r, is_prefix x z = false -> is_prefix z x = false -> adj' x (z ++ r) = adj' x z ++ r.
Proof.
  induction x as [|i x IH]; intros z r H1 H2; [discriminate|].
  destruct z as [|j z]; [discriminate|]. rewrite is_prefix_cons in H1, H2. unfold adj'. cbn [app adj].
  destruct x as [|k x].
  - destruct (Nat.eqb j i) eqn:E.
    + rewrite Nat.eqb_sym, E in H1. cbn in H1. discriminate.
    + reflexivity.
  - destruct (Nat.eqb j i) eqn:E; [|reflexivity].
    rewrite Nat.eqb_sym, E in H1. cbn [andb] in H1, H2.
    specialize (IH z r H1 H2). unfold adj' in IH.
    destruct (adj (k :: x) z) as [w|] eqn:Ez.
    + destruct (adj (k :: x) (z ++ r)) as [w'|] eqn:Ezr; cbn [option_map app]; rewrite IH; reflexivity.
    + apply adj_none in Ez; [congruence|discriminate].
Qed.

Lemma is_prefix_snoc_false p par k : is_prefix p par = false -> is_prefix par p = false -> is_prefix p (par ++ [k]) = false.
Proof.
  intros H1 H2. destruct (is_prefix p (par ++ [k])) eqn:E; [|reflexivity].
  apply is_prefix_iff in E as [r Hr]. destruct r as [|b r] using rev_ind.
  - rewrite app_nil_r in Hr. rewrite <- Hr, is_prefix_app in H2. discriminate.
  - rewrite app_assoc in Hr. apply app_inj_tail in Hr as [Hr _]. rewrite Hr, is_prefix_app in H1. discriminate.
Qed.

Lemma fsetk_after_fappend q : forall (f : forest) ks k, fsetk q ks (fappend q k f) = fsetk q ks f.
Proof.
  induction q as [|i q IH]; intros f ks k; [reflexivity|]. cbn [fsetk fappend]. rewrite upd_nth_upd_nth.
  apply upd_nth_ext. intros t. rewrite set_kids_set_kids, tkids_set_kids, IH. reflexivity.
Qed.

(* DESIGN.md "C08_replace_position", source from an unrelated branch.  par: reference of D's parent (children
   L ++ D :: R), p: reference of the source node F.  Result: D and F removed from where they were, F put
   between L and R. *)
Theorem replace_unrelated c t par p L D R x :
  plain_replace c -> (exists P, tpath t par = Some P) -> par <> [] -> p <> [] ->
  fkids par (tkids t) = Some (L ++ D :: R) -> NoDup (map tname (L ++ D :: R)) ->
  tget t p = Some x -> is_prefix par p = false -> is_prefix p par = false ->
  (forall k, In k (L ++ R) -> tname k <> tname x) ->
  (exists rest,
    rp_core c [t] (0 :: p) (0 :: par ++ [length L])
    = (t_setk (adj' p par) (L ++ x :: R) (t_remove p (t_remove (par ++ [length L]) t)) :: rest, None))
  /\ tpath (t_remove p (t_remove (par ++ [length L]) t)) (adj' p par) = tpath t par
  /\ fkids (adj' p par) (tkids (t_remove p (t_remove (par ++ [length L]) t))) = Some (L ++ R)
  /\ tget (t_remove (par ++ [length L]) t) p = Some x.
Proof.
  intros Hpr [P HP] Hpar Hp Hks Hnd Hx Hpp1 Hpp2 Hfresh.
  assert (Hmain : exists rest,
    rp_core c [t] (0 :: p) (0 :: par ++ [length L])
    = (t_setk (adj' p par) (L ++ x :: R) (t_remove p (t_remove (par ++ [length L]) t)) :: rest, None)
    /\ tpath (t_remove p (t_remove (par ++ [length L]) t)) (adj' p par) = tpath t par
    /\ fkids (adj' p par) (tkids (t_remove p (t_remove (par ++ [length L]) t))) = Some (L ++ R)
    /\ tget (t_remove (par ++ [length L]) t) p = Some x);
  [|destruct Hmain as [rest [H1 [H2 [H3 H4]]]]; split; [exists rest; exact H1|split; [exact H2|split; [exact H3|exact H4]]]]. set (i := length L). set (nr := nroots c).
  assert (Hpd : is_prefix (par ++ [i]) p = false) by (apply is_prefix_child_false; left; exact Hpp1).
  assert (Hne_ref : ref_eqb (0 :: p) (0 :: par ++ [i]) = false).
  { destruct (ref_eqb (0 :: p) (0 :: par ++ [i])) eqn:E; [|reflexivity].
    assert (0 :: p = 0 :: par ++ [i]).
    { unfold ref_eqb in E. revert E. generalize (0 :: p) (0 :: par ++ [i]).
      induction l as [|a l IH]; intros [|b l'] E; cbn in E; try discriminate; [reflexivity|].
      apply andb_true_iff in E as [E1 E2]. apply Nat.eqb_eq in E1. subst. f_equal. apply IH. exact E2. }
    inversion H as [H1]. rewrite H1, is_prefix_app in Hpp1. discriminate. }
  rewrite (rp_core_unfold c t p par i _ Hpr Hne_ref Hks).
  assert (Hlen : length (L ++ D :: R) - i = S (length R)) by (unfold i; lens; lia).
  rewrite Hlen. cbn [seq map rp_loop].
  assert (Ht : t = t_setk par (L ++ D :: R) t) by (symmetry; apply t_setk_id; exact Hks).
  (* D.parent = None *)
  assert (HgD : tget t (par ++ [i]) = Some D).
  { unfold tget. eapply fget_snoc; [exact Hks|]. unfold i. apply nth_error_mid. }
  pose proof (detach_in_tree nr t [] (par ++ [i]) D ltac:(destruct par; discriminate) HgD) as Hm1.
  change ((0 :: par) ++ [i]) with (0 :: par ++ [i]).
  match goal with |- context [move ?x1 ?x2 ?x3 None] =>
    replace (move x1 x2 x3 None) with (MvOk ((t_remove (par ++ [i]) t :: []) ++ [D]) (track (0 :: par ++ [i]) [1]))
      by (symmetry; exact Hm1) end.
  cbn [app]. cbn beta iota.
  assert (Hta : t_remove (par ++ [i]) t = t_setk par (L ++ R) t).
  { rewrite Ht at 1. unfold t_remove, t_setk. rewrite set_kids_set_kids, tkids_set_kids, fremove_fsetk_child.
    unfold i. rewrite del_nth_mid. reflexivity. }
  set (ta := t_remove (par ++ [i]) t) in *.
  set (tk1 := track (0 :: par ++ [i]) [1]).
  assert (Htk1p : tk1 (0 :: p) = 0 :: p).
  { unfold tk1. change (0 :: par ++ [i]) with (0 :: (par ++ [i])).
    rewrite track_cons0; [|destruct par; discriminate|exact Hpd].
    rewrite adj'_child_removed by (left; exact Hpp1). reflexivity. }
  assert (Htk1par : tk1 (0 :: par) = 0 :: par) by apply track_parent0.
  rewrite Htk1p, Htk1par.
  (* F.parent = D's parent *)
  assert (Hxa : tget ta p = Some x).
  { rewrite Hta. unfold tget, t_setk. rewrite tkids_set_kids, fget_fsetk_other by assumption. exact Hx. }
  assert (HPa : tpath ta par = Some P).
  { rewrite Hta. unfold tpath, t_setk. rewrite tname_set_kids, tkids_set_kids, fpath_fsetk by (right; reflexivity). exact HP. }
  assert (Hka : fkids par (tkids ta) = Some (L ++ R)).
  { rewrite Hta. unfold t_setk. rewrite tkids_set_kids. eapply fkids_fsetk_self. exact HP. }
  destruct (move_in_tree' nr ta [D] p par x (L ++ R) Hp Hxa Hpp2 Hka Hfresh (ex_intro _ P HPa)) as [n Hm2].
  match goal with |- context [move ?x1 ?x2 ?x3 ?x4] =>
    replace (move x1 x2 x3 x4) with
      (MvOk (t_move p par x ta :: [D]) (track (0 :: p) ((0 :: adj' p par) ++ [n]))) by (symmetry; exact Hm2) end.
  cbn beta iota. set (par' := adj' p par). set (tk2 := track (0 :: p) ((0 :: par') ++ [n])).
  assert (Htk2par : tk2 (0 :: par) = 0 :: par') by (unfold tk2; apply track_cons0; assumption).
  rewrite Htk2par.
  set (U := t_remove p ta).
  assert (HPU : tpath U par' = Some P).
  { unfold tpath, U, t_remove. rewrite tname_set_kids, tkids_set_kids. unfold par'. unfold tget in Hxa.
    rewrite (fpath_adj _ _ _ _ _ Hxa Hpp2). exact HPa. }
  assert (Hpar' : par' <> []) by (apply adj'_nonempty; exact Hpar).
  assert (HkU : fkids par' (tkids U) = Some (L ++ R)).
  { rewrite fkids_fget by exact Hpar'. unfold U, t_remove. rewrite tkids_set_kids. unfold par'. unfold tget in Hxa.
    rewrite (fget_adj _ _ _ _ Hxa Hpp2 Hpp1). rewrite <- fkids_fget by exact Hpar. exact Hka. }
  assert (Htb : t_move p par x ta = t_setk par' ((L ++ R) ++ [x]) U).
  { unfold t_move. fold par'. fold U. rewrite <- (t_setk_id par' U _ HkU) at 1.
    unfold t_append, t_setk. rewrite set_kids_set_kids, tkids_set_kids, fappend_fsetk_self. reflexivity. }
  rewrite Htb.
  destruct (mte_seq L R [x]) as [Hrun Hok].
  replace ((L ++ R) ++ [x]) with (L ++ R ++ [x]) by (rewrite <- app_assoc; reflexivity).
  destruct (rp_tail nr [] par' ltac:(unfold nr, nroots; rewrite (pr_two _ Hpr); cbn; lia)
              (seq (length L) (length R)) U [D] (L ++ R ++ [x])
              (map (fun j0 => (0 :: par) ++ [j0]) (seq (S i) (length R)))
              (fun z => tk2 (tk1 z)) (tk2 (0 :: p)) (ex_intro _ P HPU)) as [rest' Hgo].
  - rewrite app_assoc, map_app. cbn [map]. apply NoDup_app_snoc.
    + rewrite map_app in Hnd. cbn [map] in Hnd. apply NoDup_remove_1 in Hnd. rewrite <- map_app in Hnd. exact Hnd.
    + intros Hin. apply in_map_iff in Hin as [k [E Hk]]. apply (Hfresh k Hk). exact E.
  - exact Hok.
  - rewrite <- seq_shift, !map_map. apply map_ext_in. intros m Hm. apply in_seq in Hm.
    change ((0 :: par) ++ [S m]) with (0 :: par ++ [S m]). unfold tk1.
    rewrite (track_sibling0 par i [1] (S m)) by lia.
    assert (E1 : adj_idx i (S m) = m).
    { unfold adj_idx. replace (Nat.ltb i (S m)) with true by (symmetry; apply Nat.ltb_lt; lia). reflexivity. }
    rewrite E1. unfold tk2. change (0 :: par ++ [m]) with (0 :: (par ++ [m])).
    rewrite track_cons0; [|exact Hp|apply is_prefix_snoc_false; assumption].
    rewrite adj'_app by assumption. reflexivity.
  - exists rest'. cbn [app length] in Hgo. split; [|split; [rewrite HP; exact HPU|split; [exact HkU|exact Hxa]]].
    match goal with |- ?lhs = _ => match type of Hgo with ?lhs' = _ => replace lhs with lhs' by reflexivity end end.
    rewrite Hgo, Hrun. reflexivity.
Qed.

Theorem C08_replace_unrelated_stmt c t par p L D R x PQ PX :
  plain_replace c -> wf_t t -> tpath t par = Some PQ -> par <> [] -> p <> [] ->
  fkids par (tkids t) = Some (L ++ D :: R) -> tget t p = Some x -> tpath t p = Some PX ->
  is_prefix par p = false -> is_prefix p par = false ->
  (forall k, In k (L ++ R) -> tname k <> tname x) ->
  let d := par ++ [length L] in
  let U := t_remove p (t_remove d t) in
  let t2 := t_setk (adj' p par) (L ++ x :: R) U in
  (exists rest, rp_core c [t] (0 :: p) (0 :: d) = (t2 :: rest, None))
  /\ rows U = minus (minus (rows t) (PQ ++ [tname D])) PX
  /\ exists A B, rows U = A ++ frows PQ (L ++ R) ++ B
                 /\ rows t2 = A ++ frows PQ L ++ rows_from PQ x ++ frows PQ R ++ B.
Proof.
  intros Hpr Hwf HPQ Hpar Hp Hks Hx HPX Hpp1 Hpp2 Hfresh d U t2.
  assert (Hnd : NoDup (map tname (L ++ D :: R))) by (apply (wf_fkids par (tkids t) _ (wf_t_kids _ Hwf) Hks)).
  destruct (replace_unrelated c t par p L D R x Hpr (ex_intro _ PQ HPQ) Hpar Hp Hks Hnd Hx Hpp1 Hpp2 Hfresh)
    as [Hcore [HPU [HkU Hxa]]].
  fold d in Hcore, HPU, HkU, Hxa. fold U in Hcore, HPU, HkU.
  split; [exact Hcore|].
  assert (Hd : d <> []) by (unfold d; destruct par; discriminate).
  assert (HPD : tpath t d = Some (PQ ++ [tname D])) by (eapply fpath_snoc; [exact HPQ|exact Hks|apply nth_error_mid]).
  assert (Hwfa : wf_t (t_remove d t)) by (apply wf_t_remove; exact Hwf).
  assert (Hpd : is_prefix d p = false) by (apply is_prefix_child_false; left; exact Hpp1).
  assert (HgD : tget t d = Some D) by (unfold tget; eapply fget_snoc; [exact Hks|apply nth_error_mid]).
  assert (HPXa : tpath (t_remove d t) p = Some PX).
  { unfold tpath, t_remove. rewrite tname_set_kids, tkids_set_kids.
    rewrite <- (adj'_child_removed par p (length L) (or_introl Hpp1)). fold d.
    unfold tget in HgD. rewrite (fpath_adj _ _ _ _ _ HgD Hpd). exact HPX. }
  assert (HrU : rows U = minus (minus (rows t) (PQ ++ [tname D])) PX).
  { unfold U. rewrite (rows_t_remove _ p PX Hwfa Hp HPXa), (rows_t_remove t d _ Hwf Hd HPD). reflexivity. }
  split; [exact HrU|].
  assert (HwfU : wf_t U) by (apply wf_t_remove; exact Hwfa).
  rewrite HPQ in HPU.
  destruct (rows_setk_ctx U (adj' p par) PQ HwfU HPU) as [A [B [H1 _]]].
  exists A, B. split.
  - rewrite <- (H1 (L ++ R)), (t_setk_id _ U _ HkU). reflexivity.
  - unfold t2. rewrite H1, frows_app, frows_cons. rewrite <- !app_assoc. reflexivity.
Qed.

(* ============================================================================================== *)
(* Part 23.  The string layer in general: `sep` argument and tree separator of any positive length,    *)
(* possibly different, optional leading separator on the from- and the to-path.                     *)

Lemma m_replace_go_name old new x : forall rest fuel,
  old <> [] -> sfree old x -> length x <= fuel ->
  replace_go fuel old new (x ++ rest) = x ++ replace_go (fuel - length x) old new rest.
Proof.
  induction x as [|c x IH]; intros rest fuel Ho Hf Hl.
  - cbn [app length]. rewrite Nat.sub_0_r. reflexivity.
  - destruct fuel as [|f]; [cbn in Hl; lia|]. apply sfree_cons in Hf as [Hc Hx].
    cbn [app replace_go length Nat.sub]. rewrite (startswith_hd_false c (x ++ rest) old Ho Hc).
    f_equal. apply IH; [exact Ho|exact Hx|cbn in Hl; lia].
Qed.

Lemma m_replace_go_sep old new rest fuel :
  old <> [] -> replace_go (S fuel) old new (old ++ rest) = new ++ replace_go fuel old new rest.
Proof.
  intros Ho. destruct old as [|a o]; [contradiction|]. cbn [app replace_go].
  change (a :: o ++ rest) with ((a :: o) ++ rest). rewrite startswith_app, skipn_app_exact. reflexivity.
Qed.

Lemma m_replace_go_join old new : forall (L : list str) fuel,
  old <> [] -> Forall (sfree old) L -> length (join old L) <= fuel ->
  replace_go fuel old new (join old L) = join new L.
Proof.
  induction L as [|x L IH]; intros fuel Ho HF Hl; [destruct fuel; reflexivity|].
  inversion HF as [|? ? Hx HL]; subst. destruct L as [|y L].
  - cbn [join]. rewrite <- (app_nil_r x) at 1. rewrite (m_replace_go_name old new x [] fuel Ho Hx Hl).
    destruct (fuel - length x); cbn; rewrite app_nil_r; reflexivity.
  - rewrite !join_cons2. rewrite join_cons2, !app_length in Hl.
    rewrite (m_replace_go_name old new x _ fuel Ho Hx) by lia.
    assert (Hlen : 1 <= length old) by (destruct old; [contradiction|cbn; lia]).
    destruct (fuel - length x) as [|f] eqn:Ef; [lia|].
    rewrite (m_replace_go_sep old new _ f Ho). f_equal. f_equal. apply IH; [exact Ho|exact HL|lia].
Qed.

Lemma m_replace_join a o new (L : list str) :
  Forall (sfree (a :: o)) L -> py_replace (join (a :: o) L) (a :: o) new = join new L.
Proof. intros HF. unfold py_replace, replace. apply m_replace_go_join; [discriminate|exact HF|lia]. Qed.

(* a path as users write it: optional leading separator, names joined by the separator *)
Definition rpath_str (sp : str) (lead : bool) (L : list str) : str := (if lead then sp else []) ++ join sp L.
Definition lead_comps (lead : bool) (L : list str) : list str := (if lead then [[]] else []) ++ L.

Lemma rpath_str_join sp lead L : L <> [] -> rpath_str sp lead L = join sp (lead_comps lead L).
Proof.
  intros HL. unfold rpath_str, lead_comps. destruct lead; [|reflexivity]. cbn [app].
  destruct L; [congruence|]. rewrite join_cons2. reflexivity.
Qed.

Lemma sfree_nil sp : sfree sp [].
Proof. intros ch _ []. Qed.

Lemma lead_comps_sfree sp lead L : Forall (sgood sp) L -> Forall (sfree sp) (lead_comps lead L).
Proof.
  intros H. unfold lead_comps. apply Forall_app. split; [destruct lead; repeat constructor; apply sfree_nil|].
  apply sgood_sfree_all. exact H.
Qed.

Section StringLayer.
  Variables (a1 : N) (o1 : str) (a2 : N) (o2 : str).
  Let s1 := a1 :: o1.     (* the `sep` argument *)
  Let s2 := a2 :: o2.     (* tree.sep *)

  Lemma sl_norm lead L : L <> [] -> Forall (sgood s1) L ->
    py_replace (rstrip (rpath_str s1 lead L) s1) s1 s2 = rpath_str s2 lead L.
  Proof.
    intros HL HF. unfold rpath_str at 1. rewrite (rstrip_join_multi s1 L _ HL HF).
    fold (rpath_str s1 lead L). rewrite !rpath_str_join by exact HL.
    apply m_replace_join. apply lead_comps_sfree. exact HF.
  Qed.

  Lemma sl_split lead L : L <> [] -> Forall (sgood s2) L -> split (rpath_str s2 lead L) s2 = lead_comps lead L.
  Proof.
    intros HL HF. rewrite rpath_str_join by exact HL. apply split_join_multi.
    - unfold lead_comps. destruct lead; [discriminate|exact HL].
    - apply lead_comps_sfree. exact HF.
  Qed.

  Lemma sl_lstrip lead L : L <> [] -> Forall (sgood s2) L -> lstrip (rpath_str s2 lead L) s2 = join s2 L.
  Proof.
    intros HL HF. unfold rpath_str. destruct lead; [apply lstrip_sep_join; assumption|apply lstrip_join_m; assumption].
  Qed.

  Lemma sl_rstrip lead L : L <> [] -> Forall (sgood s2) L -> rstrip (rpath_str s2 lead L) s2 = rpath_str s2 lead L.
  Proof. intros HL HF. unfold rpath_str. apply rstrip_join_multi; assumption. Qed.

  Lemma sl_nonempty lead L : L <> [] -> Forall (sgood s2) L -> rpath_str s2 lead L <> [].
  Proof.
    intros HL HF. unfold rpath_str. pose proof (join_nonempty_m s2 L HL HF) as H.
    destruct lead; [discriminate|exact H].
  Qed.

  Lemma last_lead_comps lead (L : list str) : L <> [] -> last (lead_comps lead L) [] = last L [].
  Proof.
    intros HL. unfold lead_comps. destruct lead; [|reflexivity]. cbn [app]. destruct L; [congruence|reflexivity].
  Qed.

  (* find_full_path on the normalised string: the root check, then the walk *)
  Lemma sl_find_full_path (t : tree) lead L : L <> [] -> Forall (sgood s2) L ->
    find_full_path [t] 0 s2 (rpath_str s2 lead L)
    = if negb (str_eqb (hd [] L) (tname t)) then Raise ValueError else walk_names (tkids t) [0] (tl L).
  Proof.
    intros HL HF. unfold find_full_path. cbn [nth_error].
    rewrite sl_rstrip, sl_lstrip by assumption. pose proof (split_join_m a2 o2 L HL HF) as E. fold s2 in E. rewrite E. reflexivity.
  Qed.

  (* the parent path handed to add_path_to_tree when the destination does not exist *)
  Lemma sl_add_path_comps (t : tree) lead TX : 2 <= length TX -> Forall (sgood s2) TX ->
    add_path_comps [t] 0 s2 (join s2 (removelast (split (rpath_str s2 lead TX) s2)))
    = if negb (str_eqb (hd [] TX) (tname t)) then Raise TreeError else Ret (tl (removelast TX)).
  Proof.
    intros Hlen HF. assert (HL : TX <> []) by (destruct TX; [cbn in Hlen; lia|discriminate]).
    rewrite sl_split by assumption.
    assert (HQ : removelast TX <> []) by (destruct TX as [|x [|y TX']]; cbn in *; [lia|lia|discriminate]).
    assert (HFQ : Forall (sgood s2) (removelast TX)).
    { rewrite Forall_forall in *. intros w Hw. apply HF. destruct TX as [|x TX'] using rev_ind; [congruence|].
      rewrite removelast_last in Hw. apply in_or_app. left. exact Hw. }
    assert (Hrl : removelast (lead_comps lead TX) = lead_comps lead (removelast TX)).
    { unfold lead_comps. destruct lead; [|reflexivity]. cbn [app]. destruct TX; [congruence|reflexivity]. }
    rewrite Hrl, <- rpath_str_join by exact HQ.
    rewrite add_path_comps_ne by (apply sl_nonempty; assumption). cbn [nth_error]. cbv zeta.
    rewrite sl_lstrip by assumption. pose proof (rstrip_join_multi s2 (removelast TX) [] HQ HFQ) as Er. cbn [app] in Er. rewrite Er.
    pose proof (split_join_m a2 o2 _ HQ HFQ) as E. fold s2 in E. rewrite E.
    destruct TX as [|x [|y TX']]; [congruence|cbn in Hlen; lia|]. reflexivity.
  Qed.
End StringLayer.

Section WholeCall.
  Variables (a1 : N) (o1 : str) (a2 : N) (o2 : str).
  Let s1 := a1 :: o1.
  Let s2 := a2 :: o2.
  Variables (cp : bool) (fl : mflags) (t : tree) (lf lt : bool) (FX TX : list str).
  Let op := if cp then OpCopy else OpShift.
  Let i := MI op fl s1 t s2 (T None [] [] []) s2 [rpath_str s1 lf FX] [Some (rpath_str s1 lt TX)].
  Let c := CFG cp false s1 s2 s2 fl.
  Hypothesis HFX : FX <> [].
  Hypothesis HTX : TX <> [].
  Hypothesis HgF1 : Forall (sgood s1) FX.
  Hypothesis HgF2 : Forall (sgood s2) FX.
  Hypothesis HgT1 : Forall (sgood s1) TX.
  Hypothesis HgT2 : Forall (sgood s2) TX.

  Definition sl_checks : bool :=
    str_eqb (last FX []) (last TX []) && (negb (f_full fl) || str_eqb (hd [] FX) (tname t)) && str_eqb (hd [] TX) (tname t).

  Lemma sl_cfg : cfg_of i = c.
  Proof. unfold i, op, c, cfg_of. destruct cp; reflexivity. Qed.

  Lemma sl_norm_from : norm_from c (rpath_str s1 lf FX) = rpath_str s2 lf FX.
  Proof. unfold norm_from, c. cbn [c_sep c_ssep]. apply (sl_norm a1 o1 a2 o2); assumption. Qed.

  Lemma sl_norm_to : norm_to c (Some (rpath_str s1 lt TX)) = Some (rpath_str s2 lt TX).
  Proof.
    unfold norm_to. rewrite truthy_some by (apply (sl_nonempty a1 o1); assumption).
    unfold c. cbn [c_sep c_dsep]. f_equal. apply (sl_norm a1 o1 a2 o2); assumption.
  Qed.

  Lemma sl_validate :
    cs_validate c [t] [rpath_str s1 lf FX] [Some (rpath_str s1 lt TX)]
    = if f_mc fl && f_ml fl then Some ValueError else if sl_checks then None else Some ValueError.
  Proof.
    unfold cs_validate. change (c_fl c) with fl. destruct (f_mc fl && f_ml fl); [reflexivity|].
    cbn [length Nat.eqb negb]. change (c_copy c) with cp. cbn [existsb].
    rewrite truthy_some by (apply (sl_nonempty a1 o1); assumption). rewrite orb_false_r, andb_false_r.
    cbn [map]. rewrite sl_norm_from, sl_norm_to. cbn [last_names_ok].
    rewrite truthy_some by (apply (sl_nonempty a2 o2); assumption).
    change (c_ssep c) with s2. change (c_dsep c) with s2.
    rewrite !(sl_split a2 o2) by assumption. rewrite !last_lead_comps by assumption. rewrite andb_true_r.
    unfold sl_checks. destruct (str_eqb (last FX []) (last TX [])); cbn [negb andb]; [|reflexivity].
    unfold roots_ok. change (c_fl c) with fl. change (c_ssep c) with s2. change (c_dsep c) with s2.
    change (dpiece c) with 0. cbn [forallb]. rewrite truthy_some by (apply (sl_nonempty a2 o2); assumption).
    rewrite !(sl_lstrip a2 o2) by assumption.
    pose proof (split_join_m a2 o2 FX HFX HgF2) as E1. pose proof (split_join_m a2 o2 TX HTX HgT2) as E2.
    fold s2 in E1, E2. change (a2 :: o2) with s2. rewrite E1, E2. unfold root_name. cbn [nth_error]. rewrite !andb_true_r.
    destruct (negb (f_full fl) || str_eqb (hd [] FX) (tname t)); cbn [andb negb];
      destruct (str_eqb (hd [] TX) (tname t)); reflexivity.
  Qed.

  (* what the call does once the argument checks have passed (with_full_path) *)
  Definition sl_pair : outc :=
    match walk_names (tkids t) [0] (tl FX) with
    | Raise e => ([t], Some e)
    | Ret None => if f_skip fl then ([t], None) else ([t], Some NotFoundError)
    | Ret (Some fr) =>
        match walk_names (tkids t) [0] (tl TX) with
        | Raise e => ([t], Some e)
        | Ret (Some dr) => cs_core c [t] fr (TNode dr)
        | Ret None => cs_core c [t] fr (TNew (tl (removelast TX)))
        end
    end.

  Lemma sl_run : f_full fl = true ->
    run i = if f_mc fl && f_ml fl then ([t], Some ValueError)
            else if sl_checks then sl_pair else ([t], Some ValueError).
  Proof.
    intros Hfull. unfold run, run_from. replace (is_replace (mi_op i)) with false by (unfold i, op; destruct cp; reflexivity).
    rewrite sl_cfg. replace (init_forest i) with [t] by (unfold i, op, init_forest; destruct cp; reflexivity).
    change (mi_from i) with [rpath_str s1 lf FX]. change (mi_to i) with [Some (rpath_str s1 lt TX)].
    unfold copy_or_shift_logic. rewrite (seps_ok_no_refusal false c _ _ eq_refl), sl_validate.
    destruct (f_mc fl && f_ml fl); [reflexivity|]. destruct sl_checks eqn:Hck; [|reflexivity].
    cbn [map run_pairs]. rewrite sl_norm_from, sl_norm_to.
    assert (Hpair : cs_pair c [t] (rpath_str s2 lf FX) (Some (rpath_str s2 lt TX)) = sl_pair).
    { unfold sl_checks in Hck. rewrite Hfull in Hck. cbn [negb orb] in Hck.
      apply andb_true_iff in Hck as [Hck H3]. apply andb_true_iff in Hck as [_ H2].
      unfold cs_pair, resolve_from. change (f_full (c_fl c)) with (f_full fl). rewrite Hfull.
      change (c_ssep c) with s2. rewrite (sl_find_full_path a2 o2) by assumption. rewrite H2. cbn [negb].
      unfold sl_pair. destruct (walk_names (tkids t) [0] (tl FX)) as [[fr|]|e]; [| |reflexivity].
      - unfold resolve_target. rewrite truthy_some by (apply (sl_nonempty a2 o2); assumption).
        change (dpiece c) with 0. change (c_dsep c) with s2.
        rewrite (sl_find_full_path a2 o2) by assumption. rewrite H3. cbn [negb].
        destruct (walk_names (tkids t) [0] (tl TX)) as [[dr|]|e] eqn:Ew; [reflexivity| |reflexivity].
        assert (Hlen : 2 <= length TX).
        { destruct TX as [|x0 [|x1 TX']]; [congruence|discriminate|cbn; lia]. }
        pose proof (sl_add_path_comps a2 o2 t lt TX Hlen HgT2) as Ea. fold s2 in Ea. rewrite Ea, H3. cbn [negb]. reflexivity.
      - change (f_skip (c_fl c)) with (f_skip fl). reflexivity. }
    rewrite Hpair. destruct sl_pair as [f1 [e|]]; reflexivity.
  Qed.

  (* Spec.parse and Spec.spec_call on these strings *)
  Lemma sl_parse lead L : L <> [] -> Forall (sgood s1) L -> Forall (sgood s2) L ->
    parse [s1; s2; s2] s1 (rpath_str s1 lead L) = Some (PQ lead L).
  Proof.
    intros HL H1 H2. unfold parse.
    destruct (Forall_hd_last _ L [] HL H1) as [Hh Hl].
    destruct (join_split_hd s1 L HL) as [rest Hjh]. destruct (join_split_last s1 L HL) as [pre Hjl].
    assert (Hs : startswith (rpath_str s1 lead L) s1 = lead).
    { unfold rpath_str. destruct lead; [apply startswith_app|]. cbn [app].
      rewrite Hjh. apply startswith_good_false; [discriminate|exact Hh]. }
    rewrite Hs.
    assert (Hs1 : (if lead then skipn (length s1) (rpath_str s1 lead L) else rpath_str s1 lead L) = join s1 L).
    { unfold rpath_str. destruct lead; [apply skipn_app_exact|reflexivity]. }
    rewrite Hs1.
    assert (He : endswith (join s1 L) s1 = false) by (rewrite Hjl; apply endswith_good_false; [discriminate|exact Hl]).
    rewrite He. pose proof (split_join_m a1 o1 L HL H1) as E. fold s1 in E. rewrite E.
    replace (forallb _ L) with true; [reflexivity|]. symmetry. apply forallb_forall. intros w Hw.
    rewrite Forall_forall in H1, H2. destruct (H1 w Hw) as [Hw1 Hw2]. destruct (H2 w Hw) as [_ Hw3].
    pose proof (contains_sfree s1 ltac:(discriminate) _ Hw2) as Hc1.
    pose proof (contains_sfree s2 ltac:(discriminate) _ Hw3) as Hc2.
    destruct w; [congruence|]. cbn [is_empty negb andb forallb]. rewrite Hc1, Hc2. reflexivity.
  Qed.

  Lemma sl_spec : trees_ok i = true ->
    spec_call i (mi_from i) (mi_to i)
    = if f_mc fl && f_ml fl then (false, SDone (rows t) (rows t) (Some ValueError))
      else if sl_checks then (true, fold_pairs i (rows t) (rows t) [(PQ lf FX, Some (PQ lt TX))])
      else (false, SDone (rows t) (rows t) (Some ValueError)).
  Proof.
    intros Hok. unfold spec_call. rewrite Hok. cbn [negb].
    replace (is_replace (mi_op i)) with false by (unfold i, op; destruct cp; reflexivity).
    replace (is_tt (mi_op i)) with false by (unfold i, op; destruct cp; reflexivity).
    change (mi_fl i) with fl. cbn [negb andb]. change (mi_src i) with t.
    destruct (f_mc fl && f_ml fl); [reflexivity|].
    change (mi_from i) with [rpath_str s1 lf FX]. change (mi_to i) with [Some (rpath_str s1 lt TX)].
    cbn [length Nat.eqb negb existsb map]. rewrite truthy_some by (apply (sl_nonempty a1 o1); assumption).
    rewrite orb_false_r, andb_false_r.
    change (mi_sep i) with s1. change (mi_ssep i) with s2. change (mi_dsep i) with s2.
    match goal with |- context [parse ?x1 ?x2 (rpath_str ?x3 lf FX)] =>
      replace (parse x1 x2 (rpath_str x3 lf FX)) with (Some (PQ lf FX)) by (symmetry; exact (sl_parse lf FX HFX HgF1 HgF2)) end.
    unfold parse_to. rewrite truthy_some by (apply (sl_nonempty a1 o1); assumption).
    match goal with |- context [parse ?x1 ?x2 (rpath_str ?x3 lt TX)] =>
      replace (parse x1 x2 (rpath_str x3 lt TX)) with (Some (PQ lt TX)) by (symmetry; exact (sl_parse lt TX HTX HgT1 HgT2)) end. cbn [all_some combine existsb fst snd q_comps]. rewrite !orb_false_r.
    unfold sl_checks. destruct (str_eqb (last FX []) (last TX [])); cbn [negb andb]; [|reflexivity].
    destruct (f_full fl); cbn [negb orb andb];
      destruct (str_eqb (hd [] FX) (tname t)); destruct (str_eqb (hd [] TX) (tname t)); reflexivity.
  Qed.
End WholeCall.

(* -- prop_C08 on the model's output, family by family ------------------------------------------------ *)

Definition sl_in (cp : bool) fl (s1 s2 : str) t lf FX lt TX : minput :=
  MI (if cp then OpCopy else OpShift) fl s1 t s2 (T None [] [] []) s2 [rpath_str s1 lf FX] [Some (rpath_str s1 lt TX)].

Lemma filter_at_path_none (tb : table) P : has tb P = false -> filter (at_path P) tb = [].
Proof.
  unfold has. intros H. apply filter_none. intros r Hr. destruct (at_path P r) eqn:E; [|reflexivity].
  assert (existsb (at_path P) tb = true) by (eapply existsb_true; eassumption). congruence.
Qed.

Lemma matches_same i (t2 : tree) rest e :
  is_tt (mi_op i) = false ->
  matches i (SDone (rows t2) (rows t2) e) (obs_of i (t2 :: rest, e)) = true.
Proof.
  intros Htt. unfold matches, obs_of. cbn [fst snd o_code o_src piece nth]. rewrite Nat.eqb_refl, Htt.
  rewrite table_of_obs_flatten, table_eqb_refl. reflexivity.
Qed.

Section Families.
  Variables (a1 : N) (o1 : str) (a2 : N) (o2 : str).
  Local Notation s1 := (a1 :: o1).
  Local Notation s2 := (a2 :: o2).
  Variables (cp : bool) (fl : mflags) (t : tree) (lf lt : bool) (FX TX : list str).
  Let i := sl_in cp fl s1 s2 t lf FX lt TX.
  Let c := CFG cp false s1 s2 s2 fl.
  Hypothesis HFX : FX <> [].
  Hypothesis HTX : TX <> [].
  Hypothesis HgF1 : Forall (sgood s1) FX.
  Hypothesis HgF2 : Forall (sgood s2) FX.
  Hypothesis HgT1 : Forall (sgood s1) TX.
  Hypothesis HgT2 : Forall (sgood s2) TX.

  Lemma fam_tt : is_tt (mi_op i) = false.
  Proof. unfold i, sl_in. destruct cp; reflexivity. Qed.

  (* refused by an argument check: both merge flags, different last names, a from-path (with_full_path) or a to-path
     that does not start at the root *)
  Theorem fam_refused :
    f_mc fl && f_ml fl = true \/ sl_checks fl t FX TX = false ->
    snd (run i) = Some ValueError /\ prop_C08 i (obs_of i (run i)) None = true.
  Proof.
    intros Href.
    assert (Hrun : run i = ([t], Some ValueError)).
    { assert (Hcfg : cfg_of i = c) by exact (sl_cfg a1 o1 a2 o2 cp fl t lf lt FX TX).
      unfold run, run_from. replace (is_replace (mi_op i)) with false by (unfold i, sl_in; destruct cp; reflexivity).
      rewrite Hcfg. replace (init_forest i) with [t] by (unfold i, sl_in, init_forest; destruct cp; reflexivity).
      change (mi_from i) with [rpath_str s1 lf FX]. change (mi_to i) with [Some (rpath_str s1 lt TX)].
      unfold copy_or_shift_logic.
      rewrite (seps_ok_no_refusal false c _ _ eq_refl). unfold c. rewrite (sl_validate a1 o1 a2 o2 cp fl t lf lt FX TX) by assumption.
      destruct (f_mc fl && f_ml fl); [reflexivity|]. destruct Href as [Href|Href]; [discriminate|]. rewrite Href. reflexivity. }
    split; [rewrite Hrun; reflexivity|].
    unfold prop_C08. destruct (trees_ok i) eqn:Hok.
    - pose proof (sl_spec a1 o1 a2 o2 cp fl t lf lt FX TX HFX HTX HgF1 HgF2 HgT1 HgT2 Hok) as Hs.
      change (spec_call i (mi_from i) (mi_to i) = (if f_mc fl && f_ml fl then (false, SDone (rows t) (rows t) (Some ValueError))
              else if sl_checks fl t FX TX then (true, fold_pairs i (rows t) (rows t) [(PQ lf FX, Some (PQ lt TX))])
              else (false, SDone (rows t) (rows t) (Some ValueError)))) in Hs.
      rewrite Hs, Hrun.
      destruct (f_mc fl && f_ml fl); [rewrite (matches_same i t [] _ fam_tt); reflexivity|].
      destruct Href as [Href|Href]; [discriminate|]. rewrite Href. rewrite (matches_same i t [] _ fam_tt). reflexivity.
    - unfold spec_call. rewrite Hok. reflexivity.
  Qed.

  Hypothesis Hfull : f_full fl = true.
  Hypothesis Hmm : f_mc fl && f_ml fl = false.
  Hypothesis Hck : sl_checks fl t FX TX = true.
  Hypothesis Hwf : wf_t t.

  Lemma fam_run : run i = sl_pair a1 o1 a2 o2 cp fl t FX TX.
  Proof.
    pose proof (sl_run a1 o1 a2 o2 cp fl t lf lt FX TX HFX HTX HgF1 HgF2 HgT1 HgT2 Hfull) as H.
    rewrite Hmm, Hck in H. exact H.
  Qed.

  Lemma fam_spec : trees_ok i = true ->
    spec_call i (mi_from i) (mi_to i) = (true, fold_pairs i (rows t) (rows t) [(PQ lf FX, Some (PQ lt TX))]).
  Proof.
    intros Hok. pose proof (sl_spec a1 o1 a2 o2 cp fl t lf lt FX TX HFX HTX HgF1 HgF2 HgT1 HgT2 Hok) as H.
    rewrite Hmm, Hck in H. exact H.
  Qed.

  Lemma fam_hd : hd [] FX = tname t /\ hd [] TX = tname t.
  Proof.
    unfold sl_checks in Hck. rewrite Hfull in Hck. cbn [negb orb] in Hck.
    apply andb_true_iff in Hck as [H H3]. apply andb_true_iff in H as [_ H2].
    apply str_eqb_eq in H2, H3. split; assumption.
  Qed.

  (* a from-path that addresses no node: NotFoundError, or nothing at all with skippable *)
  Theorem fam_missing_from :
    has (rows t) FX = false ->
    fst (run i) = [t] /\ snd (run i) = (if f_skip fl then None else Some NotFoundError)
    /\ prop_C08 i (obs_of i (run i)) None = true.
  Proof.
    intros Habs. destruct fam_hd as [H2 _].
    assert (Hne : tl FX <> []).
    { intros E. destruct FX as [|x0 [|x1 F']]; [congruence| |discriminate]. cbn in H2. subst x0.
      rewrite has_root in Habs. discriminate. }
    assert (Hw : walk_names (tkids t) [0] (tl FX) = Ret None).
    { apply walk_names_absent; [exact Hwf|exact Hne|]. destruct FX as [|x0 F']; [congruence|]. cbn in H2. subst x0. exact Habs. }
    assert (Hrun : run i = ([t], if f_skip fl then None else Some NotFoundError)).
    { rewrite fam_run. unfold sl_pair. rewrite Hw. destruct (f_skip fl); reflexivity. }
    rewrite Hrun. split; [reflexivity|]. split; [reflexivity|].
    unfold prop_C08. destruct (trees_ok i) eqn:Hok; [|unfold spec_call; rewrite Hok; reflexivity].
    rewrite (fam_spec Hok). cbn [fold_pairs]. unfold resolve_step.
    replace (f_full (mi_fl i)) with true by (unfold i, sl_in; cbn; symmetry; exact Hfull).
    unfold candidates. cbn [q_comps]. rewrite (filter_at_path_none _ _ Habs).
    replace (f_skip (mi_fl i)) with (f_skip fl) by (unfold i, sl_in; reflexivity).
    destruct (f_skip fl); cbn [fold_pairs]; rewrite (matches_same i t [] _ fam_tt); reflexivity.
  Qed.

  (* the generic accepted / refused-at-the-pair case: the from-path addresses the node at reference p *)
  Variables (p : ref) (x : tree).
  Hypothesis Hp : p <> [].
  Hypothesis Hx : tget t p = Some x.
  Hypothesis HPX : tpath t p = Some FX.

  Lemma fam_walk_from : walk_names (tkids t) [0] (tl FX) = Ret (Some (0 :: p)).
  Proof.
    destruct (tpath_ext _ _ _ HPX) as [restp [HPe _]]. rewrite HPe. cbn [tl]. change (0 :: p) with ([0] ++ p).
    apply (walk_names_complete p (tkids t) [0] [tname t] restp (wf_t_kids _ Hwf)).
    unfold tpath in HPX. rewrite HPX, HPe. reflexivity.
  Qed.

  Lemma fam_candidates : candidates true s2 (rows t) (PQ lf FX) = [(FX, ttag x, tattrs x)].
  Proof. unfold candidates. cbn [q_comps]. apply (t_row_at t p x FX Hwf Hp Hx HPX). Qed.

  Lemma fam_prop_of_edit (tg : target) (out : outc) :
    walk_names (tkids t) [0] (tl TX) = Ret (match tg with TNode dr => Some dr | _ => None end) ->
    (match tg with TNode _ => True | TNew comps => comps = tl (removelast TX) | TDel => False end) ->
    cs_core c [t] (0 :: p) tg = out ->
    (match out with
     | (t2 :: _, None) => edit_cs cp true fl (rows t) (rows t) FX (Some TX) = PNext (rows t2) (rows t2)
     | (t2 :: _, Some e) => t2 = t /\ edit_cs cp true fl (rows t) (rows t) FX (Some TX) = PErr e
     | _ => False
     end) ->
    run i = out /\ prop_C08 i (obs_of i (run i)) None = true.
  Proof.
    intros Hwt Htg Hcore Hedit.
    assert (Hrun : run i = out).
    { rewrite fam_run. unfold sl_pair. rewrite fam_walk_from, Hwt. fold c.
      destruct tg as [|dr|comps]; [destruct Htg|exact Hcore|rewrite <- Htg; exact Hcore]. }
    split; [exact Hrun|]. rewrite Hrun.
    unfold prop_C08. destruct (trees_ok i) eqn:Hok; [|unfold spec_call; rewrite Hok; reflexivity].
    rewrite (fam_spec Hok). cbn [fold_pairs]. unfold resolve_step.
    replace (f_full (mi_fl i)) with true by (unfold i, sl_in; cbn; symmetry; exact Hfull).
    replace (mi_ssep i) with s2 by (unfold i, sl_in; reflexivity).
    rewrite fam_candidates. cbn [rpath fst option_map q_comps].
    replace (is_replace (mi_op i)) with false by (unfold i, sl_in; destruct cp; reflexivity).
    replace (is_copy (mi_op i)) with cp by (unfold i, sl_in; destruct cp; reflexivity).
    rewrite fam_tt. cbn [negb]. replace (mi_fl i) with fl by (unfold i, sl_in; reflexivity).
    destruct out as [[|t2 rest] [e|]]; try (destruct Hedit; fail).
    - destruct Hedit as [-> He]. rewrite He. rewrite (matches_same i t rest _ fam_tt). reflexivity.
    - rewrite Hedit. cbn [fold_pairs]. rewrite (matches_same i t2 rest _ fam_tt). reflexivity.
  Qed.
End Families.

(* -- instances ------------------------------------------------------------------------------------------ *)

Lemma sl_checks_ok fl t FX TX : hd [] FX = tname t -> hd [] TX = tname t -> last FX [] = last TX [] ->
  sl_checks fl t FX TX = true.
Proof.
  intros H1 H2 H3. unfold sl_checks. apply andb_true_iff; split; [apply andb_true_iff; split|].
  - apply str_eqb_eq. exact H3.
  - apply orb_true_iff. right. apply str_eqb_eq. exact H1.
  - apply str_eqb_eq. exact H2.
Qed.

(* from == to without a merge flag: TreeError, nothing changes *)
Theorem C08_prop_same_node_stmt a1 o1 a2 o2 cp fl t lf lt PX p x :
  Forall (sgood (a1 :: o1)) PX -> Forall (sgood (a2 :: o2)) PX ->
  f_full fl = true -> f_mc fl = false -> f_ml fl = false -> wf_t t ->
  p <> [] -> tget t p = Some x -> tpath t p = Some PX ->
  let i := sl_in cp fl (a1 :: o1) (a2 :: o2) t lf PX lt PX in
  run i = ([t], Some TreeError) /\ prop_C08 i (obs_of i (run i)) None = true.
Proof.
  intros Hg1 Hg2 Hfull Hmc Hml Hwf Hp Hx HPX i.
  destruct (tpath_ext _ _ _ HPX) as [restp [HPe Hl]].
  assert (HneX : PX <> []) by (rewrite HPe; discriminate).
  assert (Hh : hd [] PX = tname t) by (rewrite HPe; reflexivity).
  assert (Hck : sl_checks fl t PX PX = true) by (apply sl_checks_ok; auto).
  assert (Hmm : f_mc fl && f_ml fl = false) by (rewrite Hmc; reflexivity).
  assert (Hk2 : Nat.eqb (length PX) 1 = false).
  { apply Nat.eqb_neq. rewrite HPe. cbn [length]. destruct p; [congruence|cbn in Hl; lia]. }
  apply (fam_prop_of_edit a1 o1 a2 o2 cp fl t lf lt PX PX HneX HneX Hg1 Hg2 Hg1 Hg2 Hfull Hmm Hck Hwf p x Hp Hx HPX
           (TNode (0 :: p)) ([t], Some TreeError)).
  - eapply fam_walk_from; eassumption.
  - exact I.
  - unfold cs_core. rewrite ref_eqb_refl. cbn [c_fl]. rewrite Hmc, Hml. reflexivity.
  - split; [reflexivity|]. unfold edit_cs. rewrite Hk2, andb_false_r. rewrite str_eqb_refl, path_eqb_refl. cbn [negb andb].
    rewrite Hmc, Hml. reflexivity.
Qed.

(* every row of the decision table proved for a destination that is absent, at the string level:
   shift / copy, with or without delete_children, merge_children, merge_leaves (guards as in the core theorems) *)
Theorem C08_prop_absent_generic_stmt a1 o1 a2 o2 cp fl t lf lt PX p x comps t2 rest :
  let Q := tname t :: comps in
  let TX := Q ++ [tname x] in
  Forall (sgood (a1 :: o1)) PX -> Forall (sgood (a2 :: o2)) PX ->
  Forall (sgood (a1 :: o1)) Q -> Forall (sgood (a2 :: o2)) Q ->
  f_full fl = true -> f_mc fl && f_ml fl = false -> wf_t t ->
  p <> [] -> tget t p = Some x -> tpath t p = Some PX ->
  has (rows t) TX = false ->
  cs_core (cfg_same cp (a1 :: o1) (a2 :: o2) fl) [t] (0 :: p) (TNew comps) = (t2 :: rest, None) ->
  edit_cs cp true fl (rows t) (rows t) PX (Some TX) = PNext (rows t2) (rows t2) ->
  let i := sl_in cp fl (a1 :: o1) (a2 :: o2) t lf PX lt TX in
  run i = (t2 :: rest, None) /\ prop_C08 i (obs_of i (run i)) None = true.
Proof.
  intros Q TX Hg1 Hg2 Hq1 Hq2 Hfull Hmm Hwf Hp Hx HPX Habs Hcore Hedit i.
  destruct (t_sub_rows t p x PX Hwf Hp Hx HPX) as [P0 [HP0 _]].
  destruct (tpath_ext _ _ _ HPX) as [restp [HPe Hl]].
  assert (HneX : PX <> []) by (rewrite HPe; discriminate).
  assert (HneT : TX <> []) by (unfold TX, Q; discriminate).
  assert (Hsx1 : sgood (a1 :: o1) (tname x)) by (rewrite HP0 in Hg1; apply Forall_app in Hg1 as [_ H]; inversion H; assumption).
  assert (Hsx2 : sgood (a2 :: o2) (tname x)) by (rewrite HP0 in Hg2; apply Forall_app in Hg2 as [_ H]; inversion H; assumption).
  assert (Ht1 : Forall (sgood (a1 :: o1)) TX) by (apply Forall_app; split; [exact Hq1|constructor; [exact Hsx1|constructor]]).
  assert (Ht2 : Forall (sgood (a2 :: o2)) TX) by (apply Forall_app; split; [exact Hq2|constructor; [exact Hsx2|constructor]]).
  assert (Hck : sl_checks fl t PX TX = true).
  { apply sl_checks_ok; [rewrite HPe; reflexivity|reflexivity|]. unfold TX. rewrite last_last, HP0, last_last. reflexivity. }
  apply (fam_prop_of_edit a1 o1 a2 o2 cp fl t lf lt PX TX HneX HneT Hg1 Hg2 Ht1 Ht2 Hfull Hmm Hck Hwf p x Hp Hx HPX
           (TNew comps) (t2 :: rest, None)).
  - apply (walk_names_absent t (comps ++ [tname x]) Hwf); [destruct comps; discriminate|exact Habs].
  - unfold TX. rewrite removelast_last. reflexivity.
  - exact Hcore.
  - exact Hedit.
Qed.

(* overriding an existing destination, at the string level *)
Theorem C08_prop_override_stmt a1 o1 a2 o2 fl t lf lt p d x D PX PD :
  Forall (sgood (a1 :: o1)) PX -> Forall (sgood (a2 :: o2)) PX ->
  Forall (sgood (a1 :: o1)) PD -> Forall (sgood (a2 :: o2)) PD ->
  f_full fl = true -> f_over fl = true -> f_mc fl = false -> f_ml fl = false -> f_dc fl = false -> wf_t t ->
  p <> [] -> d <> [] -> tget t p = Some x -> tget t d = Some D ->
  tpath t p = Some PX -> tpath t d = Some PD ->
  pfx PX PD = false -> pfx PD PX = false -> tname D = tname x ->
  let i := sl_in false fl (a1 :: o1) (a2 :: o2) t lf PX lt PD in
  snd (run i) = None /\ prop_C08 i (obs_of i (run i)) None = true.
Proof.
  intros Hg1 Hg2 Hd1 Hd2 Hfull Hov Hmc Hml Hdc Hwf Hp Hd Hx HD HPX HPD Hn1 Hn2 Hname i.
  destruct (C08_override_stmt (a1 :: o1) (a2 :: o2) fl t p d x D PX PD Hov Hmc Hml Hdc Hwf Hp Hd Hx HD HPX HPD Hn1 Hn2 Hname)
    as [t2 [Hcore [_ [Hedit _]]]].
  destruct (tpath_ext _ _ _ HPX) as [restp [HPe _]]. destruct (tpath_ext _ _ _ HPD) as [restd [HDe _]].
  destruct (t_sub_rows t p x PX Hwf Hp Hx HPX) as [P0 [HP0 _]].
  destruct (t_sub_rows t d D PD Hwf Hd HD HPD) as [P1 [HP1 _]].
  assert (HneX : PX <> []) by (rewrite HPe; discriminate).
  assert (HneD : PD <> []) by (rewrite HDe; discriminate).
  assert (Hck : sl_checks fl t PX PD = true).
  { apply sl_checks_ok; [rewrite HPe; reflexivity|rewrite HDe; reflexivity|]. rewrite HP0, HP1, !last_last. symmetry. exact Hname. }
  assert (Hmm : f_mc fl && f_ml fl = false) by (rewrite Hmc; reflexivity).
  destruct (fam_prop_of_edit a1 o1 a2 o2 false fl t lf lt PX PD HneX HneD Hg1 Hg2 Hd1 Hd2 Hfull Hmm Hck Hwf p x Hp Hx HPX
           (TNode (0 :: d)) ([t2; D], None)) as [Hrun Hprop].
  - destruct (tpath_ext _ _ _ HPD) as [rd [E _]]. rewrite E. cbn [tl]. change (0 :: d) with ([0] ++ d).
    apply (walk_names_complete d (tkids t) [0] [tname t] rd (wf_t_kids _ Hwf)). unfold tpath in HPD. rewrite HPD, E. reflexivity.
  - exact I.
  - exact Hcore.
  - exact Hedit.
  - split; [|exact Hprop]. fold i in Hrun. rewrite Hrun. reflexivity.
Qed.

(* ============================================================================================== *)
(* Part 24.  C08_replace_position_unrelated = Spec.edit_rp.                                           *)

Lemma del_nth_upd_nth_comm {A} (h : A -> A) : forall (l : list A) i j, i <> j ->
  del_nth i (upd_nth j h l) = upd_nth (adj_idx i j) h (del_nth i l).
Proof.
  induction l as [|y l IH]; intros i j Hij; [reflexivity|].
  destruct i as [|i], j as [|j]; try congruence.
  - reflexivity.
  - reflexivity.
  - assert (Hij' : i <> j) by congruence. specialize (IH i j Hij').
    change (del_nth (S i) (upd_nth (S j) h (y :: l))) with (y :: del_nth i (upd_nth j h l)).
    change (del_nth (S i) (y :: l)) with (y :: del_nth i l). rewrite IH. unfold adj_idx.
    change (Nat.ltb (S i) (S j)) with (Nat.ltb i j). destruct (Nat.ltb i j) eqn:E.
    + apply Nat.ltb_lt in E. destruct j as [|j']; [lia|]. reflexivity.
    + reflexivity.
Qed.

Lemma fsetk_fremove_comm x : forall q (f : forest) ks s,
  is_prefix x q = false -> is_prefix q x = false -> fget x f = Some s ->
  fsetk (adj' x q) ks (fremove x f) = fremove x (fsetk q ks f).
Proof.
  induction x as [|i x IH]; intros q f ks s H1 H2 Hg; [discriminate|].
  destruct q as [|j q]; [discriminate|]. rewrite is_prefix_cons in H1, H2.
  cbn [fget] in Hg. destruct (nth_error f i) as [t|] eqn:Et; [|discriminate].
  destruct x as [|k x].
  - cbn [is_prefix] in H1. rewrite andb_true_r in H1. unfold adj'. cbn [adj]. rewrite Nat.eqb_sym, H1.
    cbn [fremove fsetk]. apply Nat.eqb_neq in H1. rewrite del_nth_upd_nth_comm by exact H1. reflexivity.
  - destruct (Nat.eqb i j) eqn:E.
    + apply Nat.eqb_eq in E. subst j. cbn [andb] in H1. rewrite Nat.eqb_refl in H2. cbn [andb] in H2.
      unfold adj'. rewrite adj_cons_same by discriminate.
      destruct (adj (k :: x) q) as [r|] eqn:Ea; [|apply adj_none in Ea; [congruence|discriminate]].
      cbn [option_map]. rewrite !fremove_cons_ne by discriminate. cbn [fsetk]. rewrite !upd_nth_upd_nth.
      eapply upd_nth_ext_at; [exact Et|]. rewrite !set_kids_set_kids, !tkids_set_kids. f_equal.
      specialize (IH q (tkids t) ks s H1 H2 Hg). unfold adj' in IH. rewrite Ea in IH. exact IH.
    + unfold adj'. cbn [adj]. rewrite Nat.eqb_sym, E. rewrite !fremove_cons_ne by discriminate. cbn [fsetk].
      apply upd_nth_comm. apply Nat.eqb_neq in E. congruence.
Qed.

Lemma wf_fsetk p : forall (f : forest) ks, p <> [] -> wf_f f -> wf_f ks -> wf_f (fsetk p ks f).
Proof.
  induction p as [|i p IH]; intros f ks Hp [Hn Hf] Hks; [congruence|]. cbn [fsetk]. split.
  - rewrite map_tname_upd_nth; [exact Hn|intros; apply tname_set_kids].
  - apply Forall_upd_nth; [|exact Hf]. intros t Ht. apply wf_t_set_kids.
    destruct p as [|j p]; [exact Hks|]. apply IH; [discriminate|apply wf_t_kids; exact Ht|exact Hks].
Qed.

Lemma pfx_app_cases P Q r : pfx P (Q ++ r) = true -> pfx P Q = true \/ pfx Q P = true.
Proof.
  revert Q; induction P as [|a P IH]; intros Q H; [left; reflexivity|].
  destruct Q as [|b Q]; [right; reflexivity|]. cbn in H |- *. apply andb_true_iff in H as [H1 H2].
  rewrite H1. apply str_eqb_eq in H1. subst. rewrite str_eqb_refl. cbn. apply IH. exact H2.
Qed.

Theorem C08_replace_unrelated_spec_stmt c fl t par p L D R x PQ PX :
  plain_replace c -> f_dc fl = false -> wf_t t -> tpath t par = Some PQ -> par <> [] -> p <> [] ->
  fkids par (tkids t) = Some (L ++ D :: R) -> tget t p = Some x -> tpath t p = Some PX ->
  pfx PQ PX = false -> pfx PX PQ = false ->
  (forall k, In k (L ++ R) -> tname k <> tname x) ->
  let d := par ++ [length L] in
  let PD := PQ ++ [tname D] in
  let t2 := t_setk (adj' p par) (L ++ x :: R) (t_remove p (t_remove d t)) in
  (exists rest, rp_core c [t] (0 :: p) (0 :: d) = (t2 :: rest, None))
  /\ rows t2 = minus (before_block (rows t) PD) PX ++ rows_from PQ x ++ minus (after_block (rows t) PD) PX
  /\ edit_rp false true fl (rows t) (rows t) PX (Some PD) = PNext (rows t2) (rows t2).
Proof.
  intros Hpr Hdc Hwf HPQ Hpar Hp Hks Hx HPX Hn1 Hn2 Hfresh d PD t2.
  assert (Hpp1 : is_prefix par p = false) by (eapply not_pfx_not_prefix; eassumption).
  assert (Hpp2 : is_prefix p par = false) by (eapply not_pfx_not_prefix; eassumption).
  destruct (C08_replace_unrelated_stmt c t par p L D R x PQ PX Hpr Hwf HPQ Hpar Hp Hks Hx HPX Hpp1 Hpp2 Hfresh)
    as [Hcore _].
  assert (Hnd : NoDup (map tname (L ++ D :: R))) by (apply (wf_fkids par (tkids t) _ (wf_t_kids _ Hwf) Hks)).
  (* the result is also: replace D by x in place, then remove the original F *)
  set (tx := t_setk par (L ++ x :: R) t).
  assert (Hta : t_remove d t = t_setk par (L ++ R) t).
  { rewrite <- (t_setk_id par t _ Hks) at 1. unfold t_remove, t_setk, d.
    rewrite set_kids_set_kids, tkids_set_kids, fremove_fsetk_child, del_nth_mid. reflexivity. }
  assert (Ht2 : t2 = t_remove p tx).
  { unfold t2, tx. rewrite Hta. unfold t_remove, t_setk. rewrite !set_kids_set_kids, !tkids_set_kids. f_equal.
    assert (Hg : fget p (fsetk par (L ++ R) (tkids t)) = Some x).
    { rewrite fget_fsetk_other by assumption. exact Hx. }
    transitivity (fremove p (fsetk par (L ++ x :: R) (fsetk par (L ++ R) (tkids t)))).
    - apply (fsetk_fremove_comm p par _ (L ++ x :: R) x Hpp2 Hpp1 Hg).
    - rewrite fsetk_fsetk. reflexivity. }
  assert (Hwfx : wf_t x) by (apply (wf_tget t p x Hwf Hx)).
  assert (Hwfks : wf_f (L ++ x :: R)).
  { pose proof (wf_fkids par (tkids t) _ (wf_t_kids _ Hwf) Hks) as [Hn Hf]. split.
    - rewrite map_app in *. cbn [map] in *. apply NoDup_remove_1 in Hn as Hn1'. 
      assert (Hnotin : ~ In (tname x) (map tname L ++ map tname R)).
      { rewrite <- map_app. intros Hin. apply in_map_iff in Hin as [k [E Hk]]. apply (Hfresh k Hk). exact E. }
      clear -Hn1' Hnotin. induction L as [|l0 L IHL]; cbn [map app] in *.
      + constructor; assumption.
      + inversion Hn1'; subst. constructor.
        * intros Hin. apply in_app_or in Hin as [Hin|[E|Hin]]; [apply H1; apply in_or_app; left; exact Hin| |apply H1; apply in_or_app; right; exact Hin].
          apply Hnotin. left. symmetry. exact E.
        * apply IHL; [assumption|]. intros Hin. apply Hnotin. right. exact Hin.
    - rewrite Forall_app in *. destruct Hf as [HfL HfR]. inversion HfR; subst. split; [exact HfL|constructor; assumption]. }
  assert (Hwftx : wf_t tx) by (apply wf_t_set_kids, wf_fsetk; [exact Hpar|apply wf_t_kids; exact Hwf|exact Hwfks]).
  assert (HPXtx : tpath tx p = Some PX).
  { unfold tpath, tx, t_setk. rewrite tname_set_kids, tkids_set_kids, fpath_fsetk by (left; exact Hpp1). exact HPX. }
  destruct (rows_setk_ctx t par PQ Hwf HPQ) as [A [B [H1 H2]]].
  destruct (blocks_around_child A B PQ L D R H2 Hnd) as [Hb Ha]. cbn zeta in Hb, Ha.
  rewrite <- (H1 (L ++ D :: R)), (t_setk_id par t _ Hks) in Hb, Ha. fold PD in Hb, Ha.
  assert (Hnu : forall (ks : list tree) r, In r (frows PQ ks) -> under PX r = false).
  { intros ks r Hr. apply frows_under in Hr as [u [rs [_ Hrs]]]. unfold under. rewrite Hrs.
    destruct (pfx PX (PQ ++ tname u :: rs)) eqn:E; [|reflexivity].
    apply pfx_app_cases in E as [E|E]; congruence. }
  assert (Hrows : rows t2 = minus (before_block (rows t) PD) PX ++ rows_from PQ x ++ minus (after_block (rows t) PD) PX).
  { rewrite Ht2, (rows_t_remove tx p PX Hwftx Hp HPXtx). unfold tx. rewrite H1, frows_app, frows_cons.
    rewrite Hb, Ha. rewrite !minus_app.
    rewrite (minus_none (frows PQ L)) by (apply Hnu). rewrite (minus_none (frows PQ R)) by (apply Hnu).
    rewrite (minus_none (rows_from PQ x)).
    - rewrite <- !app_assoc. reflexivity.
    - intros r Hr. apply (Hnu [x] r). rewrite frows_cons. apply in_or_app. left. exact Hr. }
  split; [exact Hcore|]. split; [exact Hrows|]. rewrite Hrows.
  assert (Hi : nth_error (L ++ D :: R) (length L) = Some D) by apply nth_error_mid.
  assert (HPD : tpath t d = Some PD) by (eapply fpath_snoc; eassumption).
  assert (Hdne : d <> []) by (unfold d; destruct par; discriminate).
  destruct (t_sub_rows t p x PX Hwf Hp Hx HPX) as [P0 [HP0 Hsub]].
  assert (Hk : length PX = S (length P0)) by (rewrite HP0, app_length; cbn; lia).
  destruct (tpath_ext _ _ _ HPQ) as [restq [HPQe _]]. destruct (tpath_ext _ _ _ HPX) as [restp [HPe Hl]].
  assert (HrlD : removelast PD = PQ) by (unfold PD; apply removelast_last).
  assert (HlastX : last PX [] = tname x) by (rewrite HP0; apply last_last).
  assert (E1 : path_eqb PD PX = false).
  { destruct (path_eqb PD PX) eqn:E; [|reflexivity]. apply path_eqb_eq in E. unfold PD in E. rewrite <- E, pfx_app in Hn1. discriminate. }
  assert (E3 : pfx PX PD = false).
  { apply pfx_snoc_false; [exact Hn2|]. intros E. unfold PD in E1. rewrite <- E, path_eqb_refl in E1. discriminate. }
  unfold edit_rp. rewrite (t_has_row t d PD Hdne HPD). cbn [negb andb]. rewrite E1.
  replace (Nat.eqb (length PD) 1) with false by (symmetry; apply Nat.eqb_neq; unfold PD; rewrite app_length, HPQe; cbn; lia).
  rewrite E3. cbn [orb andb negb].
  replace (Nat.eqb (length PX) 1) with false by (symmetry; apply Nat.eqb_neq; rewrite HPe; cbn [length]; destruct p; [congruence|cbn in Hl; lia]).
  rewrite !HrlD, !HlastX.
  replace (has (rows t) (PQ ++ [tname x]) && negb (path_eqb (PQ ++ [tname x]) PD) && negb (path_eqb (PQ ++ [tname x]) PX)) with false.
  2: { symmetry. destruct (str_eqb (tname D) (tname x)) eqn:E.
       - apply str_eqb_eq in E. unfold PD. rewrite E, path_eqb_refl. cbn [negb]. rewrite andb_false_r. reflexivity.
       - rewrite (t_has_child t par PQ _ (tname x) Hwf HPQ Hks), existsb_names_app. cbn [existsb]. rewrite E.
         rewrite existsb_name_false by (intros k Hk0; apply Hfresh; apply in_or_app; left; exact Hk0).
         rewrite existsb_name_false by (intros k Hk0; apply Hfresh; apply in_or_app; right; exact Hk0).
         reflexivity. }
  replace (path_eqb (removelast PX) PQ) with false.
  2: { symmetry. destruct (path_eqb (removelast PX) PQ) eqn:E; [|reflexivity]. apply path_eqb_eq in E.
       rewrite <- E, removelast_pfx in Hn1. discriminate. }
  cbn [andb]. rewrite Hdc. unfold reroot. cbn [fst snd]. fold (sub_rows (rows t) PX). rewrite Hsub, Hk.
  cbn [Nat.sub]. rewrite Nat.sub_0_r. rewrite (reroot_rows_from x P0 PQ false). reflexivity.
Qed.

(* the whole-call theorem in general: `sep` and tree.sep of any positive lengths, possibly different, optional
   leading separator on either path; plain shift (cp = false) or plain copy (cp = true), with or without
   delete_children *)
Theorem C08_whole_call_general_stmt a1 o1 a2 o2 (cp : bool) fl t lf lt PX p x comps :
  let Q := tname t :: comps in
  let TX := Q ++ [tname x] in
  Forall (sgood (a1 :: o1)) PX -> Forall (sgood (a2 :: o2)) PX ->
  Forall (sgood (a1 :: o1)) Q -> Forall (sgood (a2 :: o2)) Q ->
  f_full fl = true -> f_mc fl = false -> f_ml fl = false -> wf_t t ->
  p <> [] -> tget t p = Some x -> tpath t p = Some PX ->
  pfx PX Q = false -> has (rows t) TX = false ->
  let i := sl_in cp fl (a1 :: o1) (a2 :: o2) t lf PX lt TX in
  exists t2 rest, run i = (t2 :: rest, None)
    /\ edit_cs cp true fl (rows t) (rows t) PX (Some TX) = PNext (rows t2) (rows t2)
    /\ prop_C08 i (obs_of i (run i)) None = true.
Proof.
  intros Q TX Hg1 Hg2 Hq1 Hq2 Hfull Hmc Hml Hwf Hp Hx HPX Hnotin Habs i.
  assert (Hcomps : forall cc, In cc comps -> cc <> []).
  { intros cc Hcc. inversion Hq1 as [|? ? _ Hf']; subst. rewrite Forall_forall in Hf'. apply (Hf' cc Hcc). }
  assert (Hmm : f_mc fl && f_ml fl = false) by (rewrite Hmc; reflexivity).
  assert (Hcore : exists t2 rest, cs_core (cfg_same cp (a1 :: o1) (a2 :: o2) fl) [t] (0 :: p) (TNew comps) = (t2 :: rest, None)
                    /\ edit_cs cp true fl (rows t) (rows t) PX (Some TX) = PNext (rows t2) (rows t2)).
  { destruct cp; destruct (f_dc fl) eqn:Hdc.
    - destruct (C08_delete_children_copy_stmt (a1 :: o1) (a2 :: o2) fl t p x comps PX Hmc Hml Hdc Hwf Hp Hx HPX Hcomps Hnotin Habs)
        as [t2 [rest [H1 [_ [H2 _]]]]]. exists t2, rest. split; assumption.
    - destruct (C08_copy_keeps_source_stmt (a1 :: o1) (a2 :: o2) fl t p x comps PX Hmc Hml Hdc Hwf Hp Hx HPX Hcomps Hnotin Habs)
        as [t2 [rest [H1 [_ [H2 _]]]]]. exists t2, rest. split; assumption.
    - destruct (C08_delete_children_stmt (a1 :: o1) (a2 :: o2) fl t p x comps PX Hmc Hml Hdc Hwf Hp Hx HPX Hcomps Hnotin Habs)
        as [t2 [rest [H1 [_ [H2 _]]]]]. exists t2, rest. split; assumption.
    - destruct (C08_shift_paths_stmt (a1 :: o1) (a2 :: o2) fl t p x comps PX Hmc Hml Hdc Hwf Hp Hx HPX Hcomps Hnotin Habs)
        as [t2 [H1 [_ [H2 _]]]]. exists t2, []. split; assumption. }
  destruct Hcore as [t2 [rest [Hc He]]].
  destruct (C08_prop_absent_generic_stmt a1 o1 a2 o2 cp fl t lf lt PX p x comps t2 rest Hg1 Hg2 Hq1 Hq2 Hfull Hmm Hwf Hp Hx HPX
              Habs Hc He) as [Hrun Hprop].
  exists t2, rest. split; [exact Hrun|]. split; [exact He|exact Hprop].
Qed.
