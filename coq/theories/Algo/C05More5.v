(* C05, fifth round: the guards of the multi-character-separator theorems are DECIDABLE.

   What is still partial for C05 is "`PG` / `nodup_guard` for separators of length >= 2": the umbrella
   theorems C05_model_satisfies_prop_*_multi are stated under two Prop-level guards,
     PG sp s           "the specification's and the code's reading of the path string s agree",
     nodup_guard ..    "start names distinct, no character of the tree's separator in a name/component",
   which so far could only be discharged by a hand proof (PG_single, rendered_PG).  Here both get an
   executable boolean twin (PGb, nodup_guardb) with a reflection theorem, so that
   - for ANY concrete input, with ANY separator, the guard is decided by evaluation, and
   - the umbrella theorems hold under purely boolean hypotheses (pg_guardb / nd_guardb), i.e. under a
     condition a checker can evaluate before it evaluates prop_C05.
   nodup_guardb is the character-freeness test that prop_C05's own `contains` test is weaker than. *)
From Coq Require Import Bool.
From BT Require Import Base.Prelude Base.Str Base.StrSep Base.Rose Algo.Construct Spec.PC05 Algo.ConstructProofs
     Algo.C05More Algo.C05More2.

(* ---- booleans -------------------------------------------------------------------------- *)
Definition memN (ch : N) (x : str) : bool := existsb (N.eqb ch) x.
Definition sfreeb (sp x : str) : bool := forallb (fun ch => negb (memN ch x)) sp.
Definition strs_eqb : list str -> list str -> bool := list_eqb str_eqb.

Lemma memN_In ch x : memN ch x = true <-> In ch x.
Proof.
  unfold memN. rewrite existsb_exists. split.
  - intros [y [Hy E]]. apply N.eqb_eq in E. now subst.
  - intros H. exists ch. split; [exact H|apply N.eqb_refl].
Qed.

Lemma sfreeb_sfree sp x : sfreeb sp x = true <-> sfree sp x.
Proof.
  unfold sfreeb, sfree. rewrite forallb_forall. split.
  - intros H ch Hc Hx. specialize (H ch Hc). apply memN_In in Hx. rewrite Hx in H. discriminate.
  - intros H ch Hc. destruct (memN ch x) eqn:E; [|reflexivity]. apply memN_In in E. destruct (H ch Hc E).
Qed.

Lemma strs_eqb_eq : forall a b : list str, strs_eqb a b = true <-> a = b.
Proof.
  unfold strs_eqb. induction a as [|x a IH]; intros [|y b]; cbn [list_eqb].
  - split; reflexivity.
  - split; discriminate.
  - split; discriminate.
  - rewrite andb_true_iff, str_eqb_eq, IH. split.
    + intros [-> ->]. reflexivity.
    + intros E. inversion E. auto.
Qed.

Lemma is_nil_nil {A} (l : list A) : is_nil l = true <-> l = [].
Proof. destruct l; cbn; split; congruence. Qed.

Lemma forallb_Forall {A} (f : A -> bool) (P : A -> Prop) (l : list A) :
  (forall x, f x = true <-> P x) -> (forallb f l = true <-> Forall P l).
Proof.
  intros H. rewrite forallb_forall, Forall_forall. split; intros G x Hx; apply H, G, Hx.
Qed.

(* ---- PG, decided -------------------------------------------------------------------------- *)
Definition PGb (sp s : str) : bool :=
  if is_nil (lstrip s sp)
  then strs_eqb (spec_parse s sp) [] && strs_eqb (branch_of s sp) [[]]
  else strs_eqb (spec_parse s sp) (branch_of s sp)
       && str_eqb (hd [] (split (lstrip s sp) sp)) (hd [] (branch_of s sp))
       && forallb (sfreeb sp) (branch_of s sp).

Theorem PGb_PG sp s : PGb sp s = true <-> PG sp s.
Proof.
  unfold PGb, PG. destruct (is_nil (lstrip s sp)) eqn:E.
  - apply is_nil_nil in E. rewrite andb_true_iff, !strs_eqb_eq. split.
    + intros [H1 H2]. left. auto.
    + intros [[_ [H1 H2]]|[H _]]; [auto|congruence].
  - assert (Hne : lstrip s sp <> []) by (intros H; apply is_nil_nil in H; congruence).
    rewrite !andb_true_iff, strs_eqb_eq, str_eqb_eq, (forallb_Forall _ _ _ (sfreeb_sfree sp)). split.
    + intros [[H1 H2] H3]. right. auto.
    + intros [[H _]|[_ [H1 [H2 H3]]]]; [congruence|auto].
Qed.

Lemma PG_dec sp s : {PG sp s} + {~ PG sp s}.
Proof.
  destruct (PGb sp s) eqn:E; [left; now apply PGb_PG|right; intros H; apply PGb_PG in H; congruence].
Qed.

Definition pg_guardb (sp : str) (rows : list row) : bool := forallb (fun r => PGb sp (fst r)) rows.

Lemma pg_guardb_PG sp rows : pg_guardb sp rows = true <-> (forall r, In r rows -> PG sp (fst r)).
Proof.
  unfold pg_guardb. rewrite forallb_forall. split; intros H r Hr; apply PGb_PG, H, Hr.
Qed.

(* ---- nodup_guard, decided ----------------------------------------------------------------- *)
Definition nodup_guardb (sp wsep : str) (b : tree) (rows : list row) : bool :=
  nodup_str (names b)
  && forallb (forallb (sfreeb wsep)) (paths b ++ map fst (sprows sp rows)).

Theorem nodup_guardb_guard sp wsep b rows :
  nodup_guardb sp wsep b rows = true <-> nodup_guard sp wsep b rows.
Proof.
  unfold nodup_guardb, nodup_guard. rewrite andb_true_iff, forallb_forall. split.
  - intros [H1 H2]. split; [now apply nodup_str_NoDup|].
    intros p Hp x Hx. apply sfreeb_sfree. specialize (H2 p Hp). rewrite forallb_forall in H2. now apply H2.
  - intros [H1 H2]. split; [now apply nodup_str_true|].
    intros p Hp. apply forallb_forall. intros x Hx. apply sfreeb_sfree. now apply (H2 p Hp).
Qed.

(* one-character separators need no guard: PGb is constantly true there *)
Lemma PGb_single c s : PGb [c] s = true.
Proof. apply PGb_PG, PG_single. Qed.

(* rendered strings pass the decided guard *)
Lemma PGb_rendered sp s : sp <> [] -> rendered sp s -> PGb sp s = true.
Proof. intros H R. apply PGb_PG. now apply rendered_PG. Qed.

(* attrs_wf, decided *)
Fixpoint attrs_wfb (t : tree) : bool :=
  match t with T _ _ a ks => nodup_str (map fst a) && forallb attrs_wfb ks end.

(* ---- the umbrella theorems under boolean guards -------------------------------------------- *)
Definition nd_guardb (k : kind) (wsep : str) (i : input) : bool :=
  negb (guards k i) || i_dup i || (negb (is_nil wsep) && nodup_guardb (i_sep i) wsep (base k i) (i_rows i)).

Lemma nd_guardb_elim k wsep i :
  nd_guardb k wsep i = true -> guards k i = true -> i_dup i = false ->
  wsep <> [] /\ nodup_guard (i_sep i) wsep (base k i) (i_rows i).
Proof.
  unfold nd_guardb. intros H G D. rewrite G, D in H. cbn in H. apply andb_true_iff in H as [H1 H2]. split.
  - intros E. subst. discriminate.
  - now apply nodup_guardb_guard.
Qed.

Theorem model_satisfies_list_multi_dec i :
  is_nil (i_sep i) = false -> pg_guardb (i_sep i) (i_rows i) = true ->
  nd_guardb KList (i_sep i) i = true ->
  prop_C05 KList i (run KList i) = true.
Proof.
  intros Hs Hpg Hnd. apply model_satisfies_list_multi.
  - intros E. rewrite E in Hs. discriminate.
  - now apply pg_guardb_PG.
  - intros G D. exact (proj2 (nd_guardb_elim _ _ _ Hnd G D)).
Qed.

Theorem model_satisfies_dict_multi_dec i :
  is_nil (i_sep i) = false -> pg_guardb (i_sep i) (i_rows i) = true ->
  nd_guardb KDict (i_sep i) i = true ->
  prop_C05 KDict i (run KDict i) = true.
Proof.
  intros Hs Hpg Hnd. apply model_satisfies_dict_multi.
  - intros E. rewrite E in Hs. discriminate.
  - now apply pg_guardb_PG.
  - intros G D. exact (proj2 (nd_guardb_elim _ _ _ Hnd G D)).
Qed.

Lemma attrs_wfb_wf t : attrs_wfb t = true <-> attrs_wf t.
Proof.
  rewrite attrs_wf_alln. induction t as [g n a ks IH] using tree_ind'. cbn [attrs_wfb].
  rewrite andb_true_iff. split.
  - intros [H1 H2]. constructor; [now apply nodup_str_NoDup|].
    rewrite forallb_forall in H2. rewrite Forall_forall in *. intros k Hk. apply (IH k Hk), H2, Hk.
  - intros H. inversion H as [? ? ? ? H1 H2]; subst. split; [now apply nodup_str_true|].
    apply forallb_forall. rewrite Forall_forall in *. intros k Hk. apply (IH k Hk), H2, Hk.
Qed.

Theorem model_satisfies_add_path_multi_dec i :
  is_nil (i_sep i) = false -> pg_guardb (i_sep i) (i_rows i) = true -> attrs_wfb (i_tree i) = true ->
  nd_guardb KAddPath (i_tsep i) i = true ->
  prop_C05 KAddPath i (run KAddPath i) = true.
Proof.
  intros Hs Hpg Hwf Hnd. apply model_satisfies_add_path_multi.
  - intros E. rewrite E in Hs. discriminate.
  - now apply pg_guardb_PG.
  - now apply attrs_wfb_wf.
  - intros G D. exact (nd_guardb_elim _ _ _ Hnd G D).
Qed.

Theorem model_satisfies_add_dict_multi_dec i :
  is_nil (i_sep i) = false -> pg_guardb (i_sep i) (i_rows i) = true -> attrs_wfb (i_tree i) = true ->
  nd_guardb KAddDict (i_tsep i) i = true ->
  prop_C05 KAddDict i (run KAddDict i) = true.
Proof.
  intros Hs Hpg Hwf Hnd. apply model_satisfies_add_dict_multi.
  - intros E. rewrite E in Hs. discriminate.
  - now apply pg_guardb_PG.
  - now apply attrs_wfb_wf.
  - intros G D. exact (nd_guardb_elim _ _ _ Hnd G D).
Qed.

(* the history theorem's per-operation guards, decided *)
Definition hop_pgb (sep : str) (op : hop) : bool :=
  match op with HAdd path _ => PGb sep path | _ => true end.
Lemma hop_pgb_pg sep ops : forallb (hop_pgb sep) ops = true -> Forall (hop_pg sep) ops.
Proof.
  rewrite forallb_forall, Forall_forall. intros H op Hop. specialize (H op Hop).
  destruct op; cbn in *; try exact I. now apply PGb_PG.
Qed.

Theorem history_adds_prop_multi_dec sep tsep pcol ops t :
  is_nil sep = false -> forallb (hop_pgb sep) ops = true -> attrs_wfb t = true ->
  Forall (hist_prop sep true tsep pcol) (hrun tsep sep true t ops).
Proof.
  intros Hs Hpg Hwf. apply history_adds_prop_multi.
  - intros E. subst. discriminate.
  - now apply hop_pgb_pg.
  - now apply attrs_wfb_wf.
  - now left.
Qed.
