(* C08 — shift/copy/replace: third batch.  Tree-to-tree merge_children onto an EXISTING node of the destination tree
   (copy_nodes_from_tree_to_tree with merge_children, no overriding, no delete_children): the forest is [s; dt], the
   destination is piece 1.  Builds on m2_mc_flat (Algo/C08More2.v: the merge_children loop at the level of whole forests,
   any piece) and detach_in_piece (Algo/ModifyProofs.v). *)
From BT Require Import Base.Prelude Base.Str Base.StrSep Base.Rose Algo.Modify Spec.PC08 Corr.ModifyCorr Algo.ModifyProofs
                       Algo.C08More Algo.C08More2.

(* the attach step: the copy of the source tree is piece 2; the children of the copy of x go, in order, to the end of the
   children of d in piece 1; the emptied copy of x is detached from the copy (pieces 2 and 3 are garbage) *)
Lemma m3_tt_mc_attach c s dt p d x PD :
  tt_cfg c -> f_dc (c_fl c) = false -> wf_t s -> wf_t dt ->
  p <> [] -> tget s p = Some x -> tpath dt d = Some PD ->
  (forall k, In k (tkids x) -> has (rows dt) (PD ++ [tname k]) = false) ->
  let K := map retag (tkids x) in
  let t2 := app_all d K dt in
  attach c true [s; dt] (0 :: p) (Some (1 :: d))
  = ([s; t2; t_remove p (t_setk p [] (retag s)); set_kids (retag x) []], None)
  /\ rows t2 = ins_all PD K (rows dt) /\ wf_t t2
  /\ (forall z P, tpath dt z = Some P -> tpath t2 z = Some P).
Proof.
  intros [Hc Htwo] Hdc Hwfs Hwfd Hp Hx HPD Hkabs K t2.
  set (cp := retag s).
  assert (Hwfx : wf_t x) by (apply (wf_tget s p x Hwfs Hx)).
  destruct (fkids_of_fpath _ _ _ _ HPD) as [kq Hkq].
  assert (HnK : map tname K = map tname (tkids x)) by (unfold K; apply more_map_tname_retag).
  assert (Hnd : NoDup (map tname kq ++ map tname K)).
  { rewrite HnK. apply (m2_names_ok dt d PD kq (tkids x) Hwfd HPD Hkq Hkabs). apply (wf_t_kids _ Hwfx). }
  assert (Hqn : qnames d dt = Some (map tname kq)) by (unfold qnames; rewrite Hkq; reflexivity).
  assert (HKwf : Forall wf_t K).
  { unfold K. apply Forall_forall. intros k' Hin. apply in_map_iff in Hin as [k [<- Hk]].
    apply more_wf_retag. eapply wf_t_In; eassumption. }
  destruct (app_all_facts d PD K dt (map tname kq) Hwfd HPD Hqn Hnd HKwf) as [Hw [Hr Hpaths]]. fold t2 in Hw, Hr, Hpaths.
  split; [|split; [exact Hr|split; [exact Hw|exact Hpaths]]].
  assert (Hxc : tget cp p = Some (retag x)).
  { unfold tget, cp. rewrite tkids_retag, fget_retag. unfold tget in Hx. rewrite Hx. reflexivity. }
  assert (Hkc : fkids p (tkids cp) = Some K).
  { rewrite fkids_fget by exact Hp. unfold tget in Hxc. rewrite Hxc. cbn [option_map]. rewrite tkids_retag. reflexivity. }
  set (y := set_kids (retag x) []).
  assert (Hy : tget (t_setk p [] cp) p = Some y).
  { unfold tget, t_setk. rewrite tkids_set_kids. apply fget_fsetk_self. exact Hxc. }
  unfold attach. rewrite Hc. unfold copy_node. cbn [nth_error length]. change ([s; dt] ++ [retag s]) with [s; dt; cp].
  cbn [orb andb].
  replace (fkids (2 :: p) [s; dt; cp]) with (Some K) by (symmetry; exact Hkc).
  rewrite Hdc.
  assert (Hkn : knames (1 :: d) [s; dt; cp] = Some (map tname kq)).
  { unfold knames. cbn [fkids nth_error]. rewrite Hkq. reflexivity. }
  pose proof (m2_mc_flat (nroots c) (1 :: d) (2 :: p) ltac:(discriminate) eq_refl K [s; dt; cp]
                (child_refs (2 :: p) (length K)) (fun z => z) (map tname kq) (2 :: p)
                (length_child_refs _ _) (fun i r Hr => child_refs_nth _ _ _ _ Hr) Hkc Hkn Hnd (or_intror eq_refl)) as Hloop.
  change (fsetk (2 :: p) [] [s; dt; cp]) with [s; dt; t_setk p [] cp] in Hloop.
  rewrite m2_fapp_all_cons1 in Hloop. fold t2 in Hloop.
  match goal with |- context [mc_loop ?a1 ?a2 ?a3 ?a4 ?a5 ?a6 ?a7] =>
    replace (mc_loop a1 a2 a3 a4 a5 a6 a7) with ([s; t2; t_setk p [] cp], @Ret ref (2 :: p))
      by (symmetry; exact Hloop) end.
  pose proof (detach_in_piece (nroots c) [s; t2] (t_setk p [] cp) [] p y Hp Hy) as Hm.
  cbn [length app] in Hm.
  match goal with |- context [move ?a1 ?a2 ?a3 ?a4] =>
    replace (move a1 a2 a3 a4) with
      (MvOk [s; t2; t_remove p (t_setk p [] cp); y] (track (2 :: p) [3])) by (symmetry; exact Hm) end.
  reflexivity.
Qed.

(* the row of the decision table: destination (1 :: d) exists, merge_children, no overriding *)
Theorem C08_tt_merge_children_existing_stmt c s dt p d x PX PD :
  tt_cfg c -> f_mc (c_fl c) = true -> f_over (c_fl c) = false -> f_dc (c_fl c) = false ->
  wf_t s -> wf_t dt -> p <> [] -> tget s p = Some x -> tpath s p = Some PX -> tpath dt d = Some PD ->
  (forall k, In k (tkids x) -> has (rows dt) (PD ++ [tname k]) = false) ->
  let K := map retag (tkids x) in
  let t2 := app_all d K dt in
  cs_core c [s; dt] (0 :: p) (TNode (1 :: d))
  = ([s; t2; t_remove p (t_setk p [] (retag s)); set_kids (retag x) []], None)
  /\ rows t2 = ins_all PD K (rows dt)
  /\ wf_t t2
  /\ (last PD [] = tname x ->
      edit_cs true false (c_fl c) (rows s) (rows dt) PX (Some PD) = PNext (rows s) (rows t2))
  /\ subseq (rows dt) (rows t2).
Proof.
  intros Htt Hmc Hov Hdc Hwfs Hwfd Hp Hx HPX HPD Hkabs K t2.
  destruct (m3_tt_mc_attach c s dt p d x PD Htt Hdc Hwfs Hwfd Hp Hx HPD Hkabs) as [Hatt [Hr [Hw _]]].
  fold K in Hatt, Hr, Hw. fold t2 in Hatt, Hr, Hw.
  split; [|split; [exact Hr|split; [exact Hw|split]]].
  - unfold cs_core. cbn [ref_eqb list_eqb Nat.eqb andb]. rewrite Hmc, Hov. cbn [negb]. exact Hatt.
  - intros Hlast. rewrite Hr.
    destruct (t_sub_rows s p x PX Hwfs Hp Hx HPX) as [P0 [HP0 Hsub]].
    assert (Hwfx : wf_t x) by (apply (wf_tget s p x Hwfs Hx)).
    unfold edit_cs. cbn [negb andb].
    rewrite HP0 at 1. rewrite last_last, Hlast, str_eqb_refl. cbn [negb].
    rewrite (t_has_path dt d PD HPD). rewrite Hmc, Hov. cbn [negb andb]. rewrite Hdc.
    rewrite (t_child_rows s p x PX Hwfs Hp Hx HPX), map_map. cbn [rpath fst].
    rewrite (map_ext_in _ (fun k => (S (length PX), rows_from PX k))).
    2: { intros k Hk. f_equal. apply (t_sub_rows_child s p x PX k Hwfs Hp Hx HPX Hk). }
    rewrite (more_attach_items_children_fresh PD (length PX) (tkids x) _) with (PX := PX);
      [reflexivity|exact Hkabs|apply (wf_t_kids _ Hwfx)|reflexivity].
  - rewrite Hr. apply subseq_ins_all.
Qed.

(* what the statement says about the observable pieces: the source tree is the same value, every path of the destination
   tree is kept, and the rows that are new are exactly fresh copies (tag None) *)
Corollary C08_tt_merge_children_existing_obs c s dt p d x PX PD :
  tt_cfg c -> f_mc (c_fl c) = true -> f_over (c_fl c) = false -> f_dc (c_fl c) = false ->
  wf_t s -> wf_t dt -> p <> [] -> tget s p = Some x -> tpath s p = Some PX -> tpath dt d = Some PD ->
  (forall k, In k (tkids x) -> has (rows dt) (PD ++ [tname k]) = false) ->
  let o := cs_core c [s; dt] (0 :: p) (TNode (1 :: d)) in
  snd o = None /\ piece (fst o) 0 = s
  /\ piece (fst o) 1 = app_all d (map retag (tkids x)) dt
  /\ (forall z P, tpath dt z = Some P -> tpath (piece (fst o) 1) z = Some P).
Proof.
  intros Htt Hmc Hov Hdc Hwfs Hwfd Hp Hx HPX HPD Hkabs o.
  destruct (C08_tt_merge_children_existing_stmt c s dt p d x PX PD Htt Hmc Hov Hdc Hwfs Hwfd Hp Hx HPX HPD Hkabs)
    as [Hcore _].
  destruct (m3_tt_mc_attach c s dt p d x PD Htt Hdc Hwfs Hwfd Hp Hx HPD Hkabs) as [_ [_ [_ Hpaths]]].
  unfold o. rewrite Hcore. cbn [fst snd piece nth].
  split; [reflexivity|split; [reflexivity|split; [reflexivity|exact Hpaths]]].
Qed.

(* ============================================================================================== *)
(* destination ABSENT in the destination tree: the missing nodes are created in piece 1 first      *)

Definition m3_sh (q : ref) : ref := match q with j :: q' => S j :: q' | [] => [] end.
Definition m3_rsh (r : res ref) : res ref := match r with Ret q => Ret (m3_sh q) | Raise e => Raise e end.

(* add_path_to_tree walks / creates in piece i+1 of a :: f exactly as in piece i of f *)
Lemma m3_add_walk_shift (a : tree) comps : forall (f : forest) i h f' r,
  add_walk f (i :: h) comps = (f', r) ->
  add_walk (a :: f) (S i :: h) comps = (a :: f', m3_rsh r).
Proof.
  induction comps as [|c comps IH]; intros f i h f' r H; cbn [add_walk] in *.
  - inversion H; subst. reflexivity.
  - change (fkids (S i :: h) (a :: f)) with (fkids (i :: h) f).
    destruct (fkids (i :: h) f) as [ks|]; [|inversion H; subst; reflexivity].
    destruct (name_idx c 0 ks) as [|i0 [|j0 l0]].
    + destruct c as [|ch c]; [inversion H; subst; reflexivity|].
      change (fappend (S i :: h) (fresh_node (ch :: c)) (a :: f)) with (a :: fappend (i :: h) (fresh_node (ch :: c)) f).
      change ((S i :: h) ++ [length ks]) with (S i :: (h ++ [length ks])).
      apply IH. exact H.
    + change ((S i :: h) ++ [i0]) with (S i :: (h ++ [i0])). apply IH. exact H.
    + inversion H; subst. reflexivity.
Qed.

Theorem C08_tt_merge_children_absent_stmt c s dt p x comps PX :
  let Q := tname dt :: comps in
  tt_cfg c -> f_mc (c_fl c) = true -> f_dc (c_fl c) = false ->
  wf_t s -> wf_t dt -> p <> [] -> tget s p = Some x -> tpath s p = Some PX ->
  (forall cc, In cc comps -> cc <> []) ->
  has (rows dt) (Q ++ [tname x]) = false ->
  (forall k, In k (tkids x) -> has (rows dt) (Q ++ [tname k]) = false) ->
  let K := map retag (tkids x) in
  exists t2 rest,
    cs_core c [s; dt] (0 :: p) (TNew comps) = (s :: t2 :: rest, None)
    /\ rows t2 = ins_all Q K (ensure (rows dt) [tname dt] comps)
    /\ wf_t t2
    /\ edit_cs true false (c_fl c) (rows s) (rows dt) PX (Some (Q ++ [tname x])) = PNext (rows s) (rows t2)
    /\ subseq (rows dt) (rows t2).
Proof.
  intros Q Htt Hmc Hdc Hwfs Hwfd Hp Hx HPX Hne Habs Hkabs K.
  destruct (add_walk_spec comps [dt] [0] [] [tname dt] (wf_f_single _ Hwfd) ltac:(discriminate) eq_refl Hne)
    as [f' [q [Ha [Hwf' [Hlen [Hrows [Hq [Hpre _]]]]]]]].
  destruct (forest1 f' Hlen) as [t1 ->].
  destruct q as [|q0 q]; [discriminate|]. cbn [is_prefix] in Hpre. rewrite andb_true_r in Hpre.
  apply Nat.eqb_eq in Hpre. subst q0.
  assert (Hwf1 : wf_t t1) by (destruct Hwf' as [_ Hf]; inversion Hf; assumption).
  assert (Hr1 : rows t1 = ensure (rows dt) [tname dt] comps).
  { unfold frows in Hrows. cbn [flat_map] in Hrows. rewrite !app_nil_r in Hrows. exact Hrows. }
  assert (HQ1 : tpath t1 q = Some Q) by exact Hq.
  assert (Hkabs1 : forall k, In k (tkids x) -> has (rows t1) (Q ++ [tname k]) = false).
  { intros k Hk. rewrite Hr1, has_ensure_long; [apply Hkabs; exact Hk|unfold Q; rewrite app_length; cbn [length]; lia]. }
  destruct (m3_tt_mc_attach c s t1 p q x Q Htt Hdc Hwfs Hwf1 Hp Hx HQ1 Hkabs1) as [Hatt [Hr [Hw _]]].
  fold K in Hatt, Hr, Hw. rewrite Hr1 in Hr.
  exists (app_all q K t1), [t_remove p (t_setk p [] (retag s)); set_kids (retag x) []].
  split; [|split; [exact Hr|split; [exact Hw|split]]].
  - unfold cs_core. destruct Htt as [Hc Htwo]. unfold dpiece. rewrite Htwo.
    rewrite (m3_add_walk_shift s comps [dt] 0 [] [t1] (Ret (0 :: q)) Ha). cbn [m3_rsh m3_sh]. rewrite Hmc. exact Hatt.
  - rewrite Hr.
    destruct (t_sub_rows s p x PX Hwfs Hp Hx HPX) as [P0 [HP0 Hsub]].
    assert (Hwfx : wf_t x) by (apply (wf_tget s p x Hwfs Hx)).
    unfold edit_cs. cbn [negb andb].
    rewrite removelast_last, !last_last. rewrite HP0 at 1. rewrite last_last, str_eqb_refl. cbn [negb].
    rewrite Habs.
    replace (Nat.ltb (length (Q ++ [tname x])) 2) with false.
    2: { symmetry. apply Nat.ltb_ge. rewrite app_length. unfold Q. cbn [length]. lia. }
    rewrite Hmc, Hdc.
    assert (He : ensure (rows dt) [] Q = ensure (rows dt) [tname dt] comps).
    { unfold Q. cbn [ensure app]. rewrite has_root. reflexivity. }
    rewrite He. rewrite (t_child_rows s p x PX Hwfs Hp Hx HPX), map_map. cbn [rpath fst].
    rewrite (map_ext_in _ (fun k => (S (length PX), rows_from PX k))).
    2: { intros k Hk. f_equal. apply (t_sub_rows_child s p x PX k Hwfs Hp Hx HPX Hk). }
    rewrite (more_attach_items_children_fresh Q (length PX) (tkids x) _) with (PX := PX);
      [reflexivity| |apply (wf_t_kids _ Hwfx)|reflexivity].
    intros k Hk. rewrite has_ensure_long; [apply Hkabs; exact Hk|unfold Q; rewrite app_length; cbn [length]; lia].
  - rewrite Hr. eapply subseq_trans; [apply subseq_ensure|apply subseq_ins_all].
Qed.
