(* Executable models of the textual exporters / importers of bigtree (textual half of C06).

   - nw_write    : bigtree/tree/export.py:1740-1855     tree_to_newick
   - nw_parse    : bigtree/tree/construct.py:1404-1693  newick_to_tree (character state machine)
   - print_lines / print_str : export.py:243-415        yield_tree + print_tree (no attributes, whole tree)
   - str_to_tree_m : construct.py:585-650               str_to_tree, ONLY the default branch
                                                         (tree_prefix_list = [], i.e. no `re.split`)

   Strings are `str = list N` (code points).  No proofs in this file.

   Modelling decisions (all checked against /repo by Corr/TextIOCorr.v on every run):
   * `depth_nodes` (a defaultdict depth -> list of nodes) is kept as a zipper around current_depth:
       p_above = depth_nodes[current_depth+1], p_cur = depth_nodes[current_depth],
       p_below = [depth_nodes[current_depth-1]; depth_nodes[current_depth-2]; ...]  (missing = []).
     The code keeps depth_nodes[k] = [] for every k > current_depth+1 (`)` is the only way down and it
     first runs _create_node, which empties depth_nodes[current_depth+1]), so the zipper loses nothing,
     also for malformed inputs and for current_depth <= 0.
   * `current_node`, when not None, is always the LAST element of depth_nodes[current_depth]
     (created there, and `,` `)` reset it; `(` raises when it is set): p_has : bool.
     Exception: the final step takes depth_nodes[1][0], the FIRST element (nw_finish).
   * The two index jumps (`tree_string_idx = quote_end_idx + 1`, `tree_string_idx += len(attr_prefix)`)
     are a skip counter p_skip: the machine is then structurally recursive on the input (one character
     per step; "fuel = string length" holds by construction and there is no out-of-fuel value).
   * Exceptions: ValueError, TreeError (duplicate sibling names in Node), OtherError (= AssertionError of
     the `assert current_node`), Unmodelled (float() literals, attribute keys `name` / `_...`).  *)
From BT Require Import Base.Prelude Base.Str Base.Rose.

Local Open Scope N_scope.

Definition is_nil {A} (l : list A) : bool := match l with [] => true | _ => false end.

(* ------------------------------------------------------------------------------------------ *)
(* Python values: truthiness and str()                                                         *)

Definition truthy (v : val) : bool :=
  match v with
  | VNone => false
  | VInt z => negb (Z.eqb z 0)
  | VStr s => negb (is_nil s)
  | VBool b => b
  | VFloat n _ => negb (Z.eqb n 0)
  end.

Definition str_of_N (n : N) : str := uint_digits (N.to_uint n).
Definition str_of_Z (z : Z) : str :=
  match z with
  | Z0 => [48]
  | Zpos p => str_of_N (Npos p)
  | Zneg p => 45 :: str_of_N (Npos p)
  end.

(* repr(float).  The harness encodes a float by the exact decimal value of its repr, as a fraction
   n / 10^k (any such fraction of the value will do).  repr prints the shortest digit string that
   identifies the float -- these are the significant digits of n -- positionally when the decimal
   exponent e satisfies -4 <= e < 16 (always with a fractional part, "2.0"), else as d[.ddd]e+XX /
   d[.ddd]e-XX with at least two exponent digits (float_repr_style "short") *)
Fixpoint pow10k (fuel : nat) (d : N) : option nat :=
  match fuel with
  | O => None
  | S f => if N.eqb d 1 then Some O
           else if N.eqb (d mod 10) 0 then match pow10k f (d / 10) with Some k => Some (S k) | None => None end
           else None
  end.
Definition str_of_float (n d : Z) : res str :=
  match d with
  | Zpos dp =>
      match pow10k 400 (Npos dp) with
      | Some k =>
          if Z.eqb n 0 then Ret [48; 46; 48] else
          let digits := str_of_N (Z.abs_N n) in
          let m := rstrip digits [48] in                            (* significant digits *)
          let e := (Z.of_nat (length digits) - 1 - Z.of_nat k)%Z in   (* decimal exponent *)
          let sign := if Z.ltb n 0 then [45] else [] in
          if Z.leb (-4) e && Z.ltb e 16 then
            if Z.leb 0 e then
              let w := S (Z.to_nat e) in
              let ip := firstn w m ++ repeat 48 (w - length m) in
              let fp := skipn w m in
              Ret (sign ++ ip ++ [46] ++ (match fp with [] => [48] | _ => fp end))
            else Ret (sign ++ [48; 46] ++ repeat 48 (Z.to_nat (- e - 1)) ++ m)
          else
            let ed := str_of_N (Z.abs_N e) in
            let ed' := match ed with [_] => 48 :: ed | _ => ed end in
            Ret (sign ++ (match m with
                          | [] => []
                          | [c] => [c]
                          | c :: r => c :: 46 :: r
                          end) ++ [101] ++ (if Z.ltb e 0 then [45] else [43]) ++ ed')
      | None => Raise Unmodelled
      end
  | _ => Raise Unmodelled
  end.

Definition py_str (v : val) : res str :=
  match v with
  | VStr s => Ret s
  | VInt z => Ret (str_of_Z z)
  | VBool true => Ret [84; 114; 117; 101]            (* "True"  *)
  | VBool false => Ret [70; 97; 108; 115; 101]       (* "False" *)
  | VNone => Ret [78; 111; 110; 101]                 (* "None"  *)
  | VFloat n d => str_of_float n d
  end.

(* node.get_attr(k): first binding, None when absent *)
Definition lookup (k : str) (a : attrs) : val :=
  match find (fun kv => str_eqb (fst kv) k) a with Some kv => snd kv | None => VNone end.

(* ------------------------------------------------------------------------------------------ *)
(* tree_to_newick  (export.py:1740-1855)                                                       *)

(* constants.NewickCharacter.values(): ( ) [ ] = ' : ,  *)
Definition nw_specials : str := [40; 41; 91; 93; 61; 39; 58; 44].
Definition has_special (s : str) : bool := existsb (fun c => memN c nw_specials) s.
(* item.replace(ATTR_QUOTE, double-quote) for the one-character pattern *)
Definition requote (s : str) : str := map (fun c => if N.eqb c 39 then 34 else c) s.
(* _serialize for a str item *)
Definition serialize (s : str) : str := if has_special s then 39 :: requote s ++ [39] else s.
(* _serialize for any item, then formatted by the f-string *)
Definition serialize_val (v : val) : res str :=
  match v with VStr s => Ret (serialize s) | _ => py_str v end.

Record nwcfg := NwCfg {
  nw_inter : bool;           (* intermediate_node_name *)
  nw_len : str;              (* length_attr ("" = none) *)
  nw_lsep : str;             (* length_sep *)
  nw_attrs : list str;       (* attr_list *)
  nw_prefix : str;           (* attr_prefix *)
  nw_asep : str              (* attr_sep *)
}.

(* [f"{_serialize(k)}={_serialize(tree.get_attr(k))}" for k in attr_list if tree.get_attr(k)] *)
Fixpoint attr_items (ks : list str) (a : attrs) : res (list str) :=
  match ks with
  | [] => Ret []
  | k :: r =>
      let v := lookup k a in
      if truthy v then
        match serialize_val v, attr_items r a with
        | Ret sv, Ret l => Ret ((serialize k ++ [61] ++ sv) :: l)
        | Raise e, _ => Raise e
        | _, Raise e => Raise e
        end
      else attr_items r a
  end.

Definition attr_str (c : nwcfg) (a : attrs) : res str :=
  match nw_attrs c with
  | [] => Ret []
  | _ => match attr_items (nw_attrs c) a with
         | Raise e => Raise e
         | Ret items =>
             let s := join (nw_asep c) items in
             if is_nil s then Ret [] else Ret ([91] ++ nw_prefix c ++ s ++ [93])
         end
  end.

(* node_name_str, including the length part; is_root refers to the real parent link *)
Definition name_str (c : nwcfg) (isroot leaf : bool) (name : str) (a : attrs) : res str :=
  let nm := if nw_inter c || leaf then serialize name else [] in
  if negb (is_nil (nw_len c)) && negb isroot then
    let v := lookup (nw_len c) a in
    if truthy v then
      match py_str v with Ret s => Ret (nm ++ nw_lsep c ++ s) | Raise e => Raise e end
    else Raise ValueError                       (* "Length attribute does not exist for node" *)
  else Ret nm.

Fixpoint nw_write (c : nwcfg) (isroot : bool) (t : tree) {struct t} : res str :=
  match t with
  | T _ name a ks =>
      match name_str c isroot (is_nil ks) name a with
      | Raise e => Raise e
      | Ret nm =>
        match attr_str c a with
        | Raise e => Raise e
        | Ret ast =>
          match ks with
          | [] => Ret (nm ++ ast)
          | _ =>
            match (fix go (l : list tree) : res (list str) :=
                     match l with
                     | [] => Ret []
                     | k :: r => match nw_write c false k with
                                 | Raise e => Raise e
                                 | Ret s => match go r with Raise e => Raise e | Ret ss => Ret (s :: ss) end
                                 end
                     end) ks with
            | Raise e => Raise e
            | Ret ss => Ret ([40] ++ join [44] ss ++ [41] ++ nm ++ ast)
            end
          end
        end
      end
  end.

(* ------------------------------------------------------------------------------------------ *)
(* newick_to_tree  (construct.py:1404-1693)                                                    *)

Inductive nstate := PStr | PName | PVal.    (* constants.NewickState *)

Record pst := mkP {
  p_above : list tree; p_cur : list tree; p_below : list (list tree);
  p_depth : Z; p_ctr : nat;
  p_state : nstate; p_has : bool; p_cum : str; p_val : str;
  p_skip : nat
}.

Definition p_init : pst := mkP [] [] [] 1%Z 0%nat PStr false [] [] 0%nat.

(* node.set_attrs({k: v}) = __dict__.update *)
Definition set_attr (k : str) (v : val) (a : attrs) : attrs :=
  if existsb (fun kv => str_eqb (fst kv) k) a
  then map (fun kv => if str_eqb (fst kv) k then (k, v) else kv) a
  else a ++ [(k, v)].
Definition tset_attr (k : str) (v : val) (t : tree) : tree :=
  match t with T g n a ks => T g n (set_attr k v a) ks end.
Definition tset_kids (ks : list tree) (t : tree) : tree :=
  match t with T g n a _ => T g n a ks end.

Fixpoint on_last {A} (f : A -> A) (l : list A) : list A :=
  match l with [] => [] | [x] => [f x] | x :: r => x :: on_last f r end.
Definition on_first {A} (f : A -> A) (l : list A) : list A :=
  match l with [] => [] | x :: r => f x :: r end.

Fixpoint str_nodupb (l : list str) : bool :=
  match l with [] => true | x :: r => negb (existsb (str_eqb x) r) && str_nodupb r end.
(* Node._BaseNode__pre_assign_children: duplicate names among the new children *)
Definition dup_names (ts : list tree) : bool := negb (str_nodupb (map tname ts)).

(* keys for which __dict__.update is not an ordinary attribute store *)
Definition key_name : str := [110; 97; 109; 101].
Definition reserved_key (k : str) : bool :=
  match k with [] => true | c :: _ => N.eqb c 95 end || str_eqb k key_name.

Definition is_digit (c : N) : bool := (48 <=? c) && (c <=? 57).
Definition N_of_digits (s : str) : N := fold_left (fun a c => a * 10 + (c - 48)) s 0.
(* characters that can occur in a string accepted by float(): anything else makes float() raise *)
Definition floatish (c : N) : bool :=
  is_digit c || (c <? 33) || (128 <=? c)
  || memN c [46; 43; 45; 95; 101; 69;                 (* . + - _ e E *)
             105; 110; 102; 116; 121; 97; 73; 78; 70; 84; 89; 65].  (* inf nan infinity *)
(* float(s) for decimal literals (repr gives the same value back: <= 15 significant digits) *)
Fixpoint span_digits (s : str) : str * str :=
  match s with
  | c :: r => if is_digit c then let (a, b) := span_digits r in (c :: a, b) else ([], s)
  | [] => ([], [])
  end.
Fixpoint pow10 (k : nat) : N := match k with O => 1 | S j => 10 * pow10 j end.
(* [-]digits[.digits][(e|E)[+-]digits] with at most 15 significant digits and |exponent| <= 290:
   the exact decimal value, as a fraction *)
Definition decimal_val (s : str) : option val :=
  let (neg, body) := match s with c :: r => if N.eqb c 45 then (true, r) else (false, s) | [] => (false, s) end in
  let (ip, r1) := span_digits body in
  match ip with
  | [] => None
  | _ =>
    let '(fp, r2) :=
      match r1 with
      | c :: r => if N.eqb c 46 then let (f, r') := span_digits r in (Some f, r') else (None, r1)
      | [] => (None, r1)
      end in
    match fp with
    | Some [] => None
    | _ =>
      let fd := match fp with Some f => f | None => [] end in
      let m := Z.of_N (N_of_digits (ip ++ fd)) in
      let f := length fd in
      let sign := fun z : Z => if neg then Z.opp z else z in
      if negb (Nat.leb (length ip + f) 15) then None else
      match r2 with
      | [] => Some (VFloat (sign m) (Z.of_N (pow10 f)))
      | c :: r3 =>
          if N.eqb c 101 || N.eqb c 69 then
            let '(eneg, r4) :=
              match r3 with
              | c' :: r' => if N.eqb c' 45 then (true, r') else if N.eqb c' 43 then (false, r') else (false, r3)
              | [] => (false, r3)
              end in
            let (ed, r5) := span_digits r4 in
            match ed, r5 with
            | _ :: _, [] =>
                let e := N.to_nat (N_of_digits ed) in
                if Nat.leb (length ed) 3 && Nat.leb e 290 then
                  if eneg then Some (VFloat (sign m) (Z.of_N (pow10 (f + e))))
                  else if Nat.leb f e then Some (VFloat (sign (m * Z.of_N (pow10 (e - f)))%Z) 1)
                  else Some (VFloat (sign m) (Z.of_N (pow10 (f - e))))
                else None
            | _, _ => None
            end
          else None
      end
    end
  end.

(* int(s) if s.isdigit() else float(s) *)
Definition length_val (s : str) : res val :=
  if forallb is_digit s then Ret (VInt (Z.of_N (N_of_digits s)))
  else if match decimal_val s with Some _ => true | None => false end
       then match decimal_val s with Some v => Ret v | None => Raise Unmodelled end
  else if negb (forallb floatish s) then Raise ValueError
  else if negb (existsb is_digit s) && negb (existsb (fun c => N.eqb c 110 || N.eqb c 78) s)
       then Raise ValueError                    (* no digit and no n/N: neither a number nor inf/nan *)
  else Raise Unmodelled.

Definition node_word : str := [110; 111; 100; 101].   (* "node" *)

(* attach depth_nodes[depth+1] (if any) to the node selected by `sel` in depth_nodes[depth] *)
Definition attach (sel : (tree -> tree) -> list tree -> list tree) (above cur : list tree)
  : res (list tree) :=
  match above with
  | [] => Ret cur
  | _ => if dup_names above then Raise TreeError else Ret (sel (tset_kids above) cur)
  end.

(* _create_node: returns the new counter and the new depth_nodes[depth]; depth_nodes[depth+1]
   is empty afterwards.  `sel` = on_last during the scan, on_first in the final step. *)
Definition create_node (sel : (tree -> tree) -> list tree -> list tree)
           (la : str) (has : bool) (cum : str) (ctr : nat) (above cur : list tree)
  : res (nat * list tree) :=
  if has then
    match cum with
    | [] => match attach sel above cur with Raise e => Raise e | Ret cu => Ret (ctr, cu) end
    | _ => if reserved_key la then Raise Unmodelled else
           match length_val cum with
           | Raise e => Raise e
           | Ret v => match attach sel above (sel (tset_attr la v) cur) with
                      | Raise e => Raise e | Ret cu => Ret (ctr, cu) end
           end
    end
  else
    let name := match cum with [] => node_word ++ str_of_nat ctr | _ => cum end in
    let ctr' := match cum with [] => S ctr | _ => ctr end in
    match attach on_last above (cur ++ [T None name [] []]) with
    | Raise e => Raise e | Ret cu => Ret (ctr', cu) end.

(* tree_string.find("'", idx+1): the text before the next quote *)
Fixpoint find_quote (s : str) : option str :=
  match s with
  | [] => None
  | c :: r => if N.eqb c 39 then Some []
              else match find_quote r with Some a => Some (c :: a) | None => None end
  end.

Definition set_last_attr (k : str) (v : val) (cur : list tree) : res (list tree) :=
  if reserved_key k then Raise Unmodelled else Ret (on_last (tset_attr k v) cur).

(* one iteration of the while loop on character c; rest = tree_string[idx+1:] *)
Definition nw_step (la pf : str) (c : N) (rest : str) (s : pst) : res pst :=
  match s with
  | mkP ab cu be d ctr st has cum val _ =>
    if N.eqb c 40 then                                        (* "(" *)
      match st with
      | PStr =>
          if has then Raise ValueError
          else if negb (is_nil cum) then Raise ValueError
          else if negb (is_nil val) then Raise OtherError
          else Ret (mkP [] ab (cu :: be) (d + 1) ctr st has cum val 0)
      | _ => Raise ValueError
      end
    else if N.eqb c 41 || N.eqb c 91 || N.eqb c 44 then       (* ")" "[" "," *)
      match st with
      | PVal => Raise ValueError
      | _ =>
        let st' := if N.eqb c 91 then PName else st in
        let sk := if N.eqb c 91 && startswith rest pf then length pf else 0%nat in
        match create_node on_last la has cum ctr ab cu with
        | Raise e => Raise e
        | Ret (ctr', cu') =>
            if negb (is_nil val) then Raise OtherError
            else if N.eqb c 41 then Ret (mkP cu' (hd [] be) (tl be) (d - 1) ctr' st' false [] val sk)
            else if N.eqb c 44 then Ret (mkP [] cu' be d ctr' st' false [] val sk)
            else Ret (mkP [] cu' be d ctr' st' true [] val sk)
        end
      end
    else if N.eqb c 93 then                                   (* "]" *)
      match st with
      | PVal =>
          if negb has then Raise OtherError else
          match set_last_attr cum (VStr val) cu with
          | Raise e => Raise e
          | Ret cu' => Ret (mkP ab cu' be d ctr PStr has [] [] 0)
          end
      | _ => Raise ValueError
      end
    else if N.eqb c 61 then                                   (* "=" *)
      match st with
      | PName =>
          if negb has then Raise OtherError
          else if is_nil cum then Raise ValueError
          else if negb (is_nil val) then Raise OtherError
          else Ret (mkP ab cu be d ctr PVal has cum val 0)
      | _ => Raise ValueError
      end
    else if N.eqb c 39 then                                   (* "'" *)
      match find_quote rest with
      | None => Raise ValueError
      | Some q =>
          match st with
          | PVal => if negb (is_nil val) then Raise ValueError
                    else Ret (mkP ab cu be d ctr st has cum q (S (length q)))
          | _ => if negb (is_nil cum) then Raise ValueError
                 else Ret (mkP ab cu be d ctr st has q val (S (length q)))
          end
      end
    else if N.eqb c 58 then                                   (* ":" *)
      match st with
      | PStr =>
          if has then Raise ValueError else
          match create_node on_last la has cum ctr ab cu with
          | Raise e => Raise e
          | Ret (ctr', cu') =>
              if negb (is_nil val) then Raise OtherError
              else Ret (mkP [] cu' be d ctr' st true [] val 0)
          end
      | PVal =>
          if negb has then Raise OtherError else
          match set_last_attr cum (VStr val) cu with
          | Raise e => Raise e
          | Ret cu' => Ret (mkP ab cu' be d ctr PName has [] [] 0)
          end
      | PName => Raise ValueError
      end
    else
      match st with
      | PVal => Ret (mkP ab cu be d ctr st has cum (val ++ [c]) 0)
      | _ => Ret (mkP ab cu be d ctr st has (cum ++ [c]) val 0)
      end
  end.

Definition set_skip (k : nat) (s : pst) : pst :=
  match s with mkP ab cu be d ctr st has cum val _ => mkP ab cu be d ctr st has cum val k end.

Fixpoint nw_run (la pf : str) (input : str) (s : pst) : res pst :=
  match input with
  | [] => Ret s
  | c :: rest =>
      match p_skip s with
      | S k => nw_run la pf rest (set_skip k s)
      | O => match nw_step la pf c rest s with
             | Raise e => Raise e
             | Ret s' => nw_run la pf rest s'
             end
      end
  end.

(* after the loop: depth check, "Final root node" *)
Definition nw_finish (la : str) (s : pst) : res tree :=
  if negb (Z.eqb (p_depth s) 1) then Raise ValueError else
  match p_cur s with
  | _ :: _ =>
      match create_node on_first la true (p_cum s) (p_ctr s) (p_above s) (p_cur s) with
      | Raise e => Raise e
      | Ret (_, cu) => match cu with r :: _ => Ret r | [] => Raise Unmodelled end
      end
  | [] =>
      match create_node on_last la false (p_cum s) (p_ctr s) (p_above s) [] with
      | Raise e => Raise e
      | Ret (_, cu) => match cu with r :: _ => Ret r | [] => Raise Unmodelled end
      end
  end.

Definition nw_parse (la pf : str) (s : str) : res tree :=
  match s with
  | [] => Raise ValueError                       (* assert_length_not_empty *)
  | _ => match nw_run la pf s p_init with
         | Raise e => Raise e
         | Ret st => nw_finish la st
         end
  end.

(* ------------------------------------------------------------------------------------------ *)
(* yield_tree / print_tree  (export.py:243-415), whole tree, no attributes, max_depth = 0      *)

Definition style := (str * str * str)%type.        (* stem, branch, stem_final *)

(* constants.ExportConstants.PRINT_STYLES *)
Definition style_ansi : style := ([124; 32; 32; 32], [124; 45; 45; 32], [96; 45; 45; 32]).
Definition style_ascii : style := ([124; 32; 32; 32], [124; 45; 45; 32], [43; 45; 45; 32]).
Definition style_const : style := ([9474; 32; 32; 32], [9500; 9472; 9472; 32], [9492; 9472; 9472; 32]).
Definition style_const_bold : style := ([9475; 32; 32; 32], [9507; 9473; 9473; 32], [9495; 9473; 9473; 32]).
Definition style_rounded : style := ([9474; 32; 32; 32], [9500; 9472; 9472; 32], [9584; 9472; 9472; 32]).
Definition style_double : style := ([9553; 32; 32; 32], [9568; 9552; 9552; 32], [9562; 9552; 9552; 32]).

Inductive style_arg := SName (i : nat) | SCustom (a b c : str).
Definition style_of (a : style_arg) : style :=
  match a with
  | SName 0 => style_ansi | SName 1 => style_ascii | SName 2 => style_const
  | SName 3 => style_const_bold | SName 4 => style_rounded | SName _ => style_double
  | SCustom a b c => (a, b, c)
  end.

(* what the loop reads off each node of preorder_iter(tree):
   (node.depth - initial_depth, bool(node.right_sibling), node.node_name) *)
Fixpoint pre_info (d : nat) (has_right : bool) (t : tree) : list (nat * bool * str) :=
  match t with
  | T _ n _ ks =>
      (d, has_right, n) ::
      (fix go (l : list tree) : list (nat * bool * str) :=
         match l with
         | [] => []
         | k :: r => pre_info (S d) (negb (is_nil r)) k ++ go r
         end) ks
  end.

Definition set_add (x : nat) (s : list nat) : list nat := if memb x s then s else x :: s.
Definition set_remove (x : nat) (s : list nat) : list nat := filter (fun y => negb (Nat.eqb x y)) s.

Fixpoint yield_go (st : style) (gap : str) (unc : list nat) (l : list (nat * bool * str))
  : list (str * str * str) :=
  match l with
  | [] => []
  | (d, hr, n) :: r =>
      match d with
      | O => ([], [], n) :: yield_go st gap unc r                       (* _node.is_root *)
      | S d' =>
          let '(stem, branch, final) := st in
          let unc' := if hr then set_add d unc else set_remove d unc in
          let fill := if hr then branch else final in
          let pre_s := concat (map (fun k => if memb k unc' then stem else gap) (seq 1 d')) in
          (pre_s, fill, n) :: yield_go st gap unc' r
      end
  end.

Definition yield_tree (st : style) (t : tree) : res (list (str * str * str)) :=
  let '(stem, branch, final) := st in
  if Nat.eqb (length stem) (length branch) && Nat.eqb (length branch) (length final)
  then Ret (yield_go st (repeat 32 (length stem)) [] (pre_info 0 false t))
  else Raise ValueError.

(* get_subtree(tree, "", max_depth) -> prune_tree(max_depth): `del children` at level max_depth *)
Fixpoint prune_levels (k : nat) (t : tree) : tree :=
  match t with
  | T g n a ks => match k with
                  | O | S O => T g n a []
                  | S k' => T g n a (map (prune_levels k') ks)
                  end
  end.
Definition prune_depth (md : nat) (t : tree) : tree := match md with O => t | _ => prune_levels md t end.

(* print(f"{pre_str}{fill_str}{node_str}") for every triple, into one text stream *)
Definition print_str (st : style) (t : tree) : res str :=
  match yield_tree st t with
  | Raise e => Raise e
  | Ret ls => Ret (concat (map (fun x : str * str * str =>
                                  let '(p, f, n) := x in p ++ f ++ n ++ [10]) ls))
  end.

(* ------------------------------------------------------------------------------------------ *)
(* str_to_tree  (construct.py:585-650), tree_prefix_list = []                                  *)

(* s.split("\n") *)
Fixpoint split_on (c : N) (s : str) : list str :=
  match s with
  | [] => [[]]
  | x :: r => if N.eqb x c then [] :: split_on c r
              else match split_on c r with
                   | [] => [[x]]
                   | h :: t => (x :: h) :: t
                   end
  end.

(* str.isspace() on ASCII: \t \n \v \f \r, \x1c-\x1f, space *)
Definition is_space (c : N) : bool := ((9 <=? c) && (c <=? 13)) || ((28 <=? c) && (c <=? 32)).
Fixpoint lstrip_ws (s : str) : str :=
  match s with [] => [] | c :: r => if is_space c then lstrip_ws r else s end.
(* s.encode("ascii", "ignore").decode("ascii") *)
Definition ascii_only (s : str) : str := filter (fun c => c <? 128) s.

(* s.index(sub): None = ValueError *)
Fixpoint find_sub (s sub : str) : option nat :=
  if startswith s sub then Some 0%nat
  else match s with
       | [] => None
       | _ :: r => match find_sub r sub with Some i => Some (S i) | None => None end
       end.

(* the loop over tree_list[1:]; state: prefix_length (None until set) and cur_parent.depth;
   output: for every line the 0-based depth of the node it creates and its name *)
Fixpoint st_lines (lines : list str) (pl : option nat) (curd : nat) : res (list (nat * str)) :=
  match lines with
  | [] => Ret []
  | line :: r =>
      let name := lstrip_ws (ascii_only line) in
      match find_sub line name with
      | None => Raise ValueError                               (* str.index fails *)
      | Some npl =>
          let p := match pl with Some p => p | None => npl end in
          if Nat.eqb p 0 then Raise ValueError                 (* "Invalid prefix" *)
          else if negb (Nat.eqb (npl mod p) 0) then Raise ValueError   (* different prefix length *)
          else
            let k := (npl / p)%nat in
            if Nat.eqb k 0 then Raise AttributeError           (* climbs above the root: None.depth *)
            else if is_nil name then Raise TreeError           (* Node("") *)
            else
              let d := Nat.min curd k in                       (* while cur_parent.depth > k: up *)
              match st_lines r (Some p) (S d) with
              | Raise e => Raise e
              | Ret l => Ret ((d, name) :: l)
              end
      end
  end.

Fixpoint sib_dups (t : tree) : bool :=
  match t with
  | T _ _ _ ks => dup_names ks || existsb sib_dups ks
  end.

Definition mk_plain (n : str) (ks : list tree) : tree := T None n [] ks.

Definition str_to_tree_m (s : str) : res tree :=
  let s' := strip s [10] in
  match s' with
  | [] => Raise ValueError                                     (* assert_length_not_empty *)
  | _ =>
    match split_on 10 s' with
    | [] => Raise Unmodelled
    | root :: rest =>
        match st_lines rest None 1 with
        | Raise e => Raise e
        | Ret entries =>
            (* every node is appended as last child of a node on the rightmost spine, hence the
               result is the tree whose pre-order (depth, name) list is (0, root) :: entries *)
            match forest_of_pre mk_plain (S (length entries)) 0 ((0%nat, root) :: entries) with
            | [t] => if sib_dups t then Raise TreeError else Ret t   (* Node: duplicate sibling *)
            | _ => Raise Unmodelled
            end
        end
    end
  end.

(* ------------------------------------------------------------------------------------------ *)
(* str_to_tree with tree_prefix_list = literal prefixes (no regex metacharacter, non-empty):     *)
(*   node_name = re.split("|".join(prefixes), node_str)[-1].lstrip()                            *)

Definition regex_meta (c : N) : bool :=
  memN c [46; 94; 36; 42; 43; 63; 123; 125; 91; 93; 92; 124; 40; 41].   (* . ^ $ * + ? { } [ ] \ | ( ) *)
(* non-ASCII characters str.lstrip() also strips *)
Definition uni_space (c : N) : bool :=
  memN c [133; 160; 5760; 8232; 8233; 8239; 8287; 12288] || ((8192 <=? c) && (c <=? 8202)).
Definition plist_modelled (pl : list str) : bool :=
  forallb (fun p => negb (is_nil p) && negb (existsb regex_meta p)) pl.

Fixpoint first_match (pl : list str) (s : str) : option str :=
  match pl with
  | [] => None
  | p :: r => if startswith s p then Some p else first_match r s
  end.
(* text after the last (leftmost, non-overlapping, alternatives in order) match *)
Fixpoint last_piece (pl : list str) (s : str) (skip : nat) (cur : str) : str :=
  match s with
  | [] => rev cur
  | c :: r =>
      match skip with
      | S k => last_piece pl r k cur
      | O => match first_match pl s with
             | Some p => last_piece pl r (length p - 1) []
             | None => last_piece pl r 0 (c :: cur)
             end
      end
  end.

Fixpoint st_lines_p (pl : list str) (lines : list str) (plen : option nat) (curd : nat)
  : res (list (nat * str)) :=
  match lines with
  | [] => Ret []
  | line :: r =>
      if existsb uni_space line then Raise Unmodelled else
      let name := lstrip_ws (last_piece pl line 0 []) in
      match find_sub line name with
      | None => Raise ValueError
      | Some npl =>
          let p := match plen with Some p => p | None => npl end in
          if Nat.eqb p 0 then Raise ValueError
          else if negb (Nat.eqb (npl mod p) 0) then Raise ValueError
          else
            let k := (npl / p)%nat in
            if Nat.eqb k 0 then Raise AttributeError
            else if is_nil name then Raise TreeError
            else
              let d := Nat.min curd k in
              match st_lines_p pl r (Some p) (S d) with
              | Raise e => Raise e
              | Ret l => Ret ((d, name) :: l)
              end
      end
  end.

Definition str_to_tree_p (pl : list str) (s : str) : res tree :=
  match pl with
  | [] => str_to_tree_m s
  | _ =>
    if negb (plist_modelled pl) then Raise Unmodelled else
    let s' := strip s [10] in
    match s' with
    | [] => Raise ValueError
    | _ =>
      match split_on 10 s' with
      | [] => Raise Unmodelled
      | root :: rest =>
          match st_lines_p pl rest None 1 with
          | Raise e => Raise e
          | Ret entries =>
              match forest_of_pre mk_plain (S (length entries)) 0 ((0%nat, root) :: entries) with
              | [t] => if sib_dups t then Raise TreeError else Ret t
              | _ => Raise Unmodelled
              end
          end
      end
    end
  end.
